import Dashu.Model.Conv.ToFloat
import Dashu.Proofs.Float.Div
import Dashu.Proofs.Conv.FloatTo
/-
  C06 — `Repr::to_float` (`RBig::to_float`, `Relaxed::to_float`) and `From<Repr> for FBig`:
  the quotient stage, the first rounding, the cases in which the two roundings are ONE correct rounding
  (the rounded quotient fits the precision; every directed mode), stated as the rounding contract of C03
  (`Dashu.Model.Float.Contract`) for the exact rational `num / den`.
-/
namespace Dashu.Model.Conv
open Dashu Dashu.Model Dashu.Model.Float Dashu.Props.GenRound

/-! ### the quotient stage -/

theorem natAbs_natCast_int (n : Nat) : ((n : Int)).natAbs = n := Int.natAbs_natCast n

/-- round 6 (/repo 43925c0): below the saturation point of `precision.saturating_add(den_digits)` the regenerated
    decisions are the plain ones: `num_digits >= precision + den_digits`, `(precision + den_digits) - num_digits` -/
theorem to_float_decisions_unsaturated (nd dd p : Nat) (hov : p + dd < 2 ^ 64) :
    Dashu.Gen.ConvToFloat.to_float_no_shift nd dd p = decide (nd ≥ p + dd) ∧
    Dashu.Gen.ConvToFloat.to_float_shift nd dd p = (p + dd) - nd := by
  have e : Dashu.Gen.ConvToFloat.to_float_need_digits dd p = p + dd := by
    unfold Dashu.Gen.ConvToFloat.to_float_need_digits
    exact Nat.min_eq_left (by omega)
  unfold Dashu.Gen.ConvToFloat.to_float_no_shift Dashu.Gen.ConvToFloat.to_float_shift
  rw [e]
  exact ⟨rfl, rfl⟩

/-- `Repr::to_float`, quotient stage: `num·B^shift = q·den + r`, `|r| < den`, and the scaled quotient has at least
    `precision` digits (`den·B^(p-1) ≤ |num|·B^shift`).  `hov`: the digit sum does not saturate (`usize`; a saturated
    sum asks for a shift of `usize::MAX − num_digits` digits, which no allocation can hold). -/
theorem toFloatQuot_spec (B : Nat) (hB : 2 ≤ B) (num : Int) (den p : Nat) (hn : num ≠ 0) (hd : 0 < den) (hp : 1 ≤ p)
    (hov : p + ilogB B (den : Int) < 2 ^ 64) :
    num * ((B ^ (toFloatQuot B num den p).1 : Nat) : Int) =
        (toFloatQuot B num den p).2.1 * (den : Int) + (toFloatQuot B num den p).2.2 ∧
      |(toFloatQuot B num den p).2.2| < (den : Int) ∧
      den * B ^ (p - 1) ≤ num.natAbs * B ^ (toFloatQuot B num den p).1 := by
  have hB0 : 0 < B := by omega
  have hdi : ((den : Nat) : Int) ≠ 0 := by exact_mod_cast (Nat.pos_iff_ne_zero.mp hd)
  have hdabs : |((den : Nat) : Int)| = (den : Int) := abs_of_nonneg (Int.natCast_nonneg _)
  obtain ⟨hnlo, hnpos⟩ := digitsI_lower B hB num hn
  have hdup := digitsI_upper B hB (den : Int)
  rw [natAbs_natCast_int] at hdup
  obtain ⟨_, hdpos⟩ := digitsI_lower B hB (den : Int) hdi
  -- den · B^(p-1) < B^(p - 1 + digits den)
  have hden_lt : den * B ^ (p - 1) < B ^ (p + (digitsI B (den : Int) - 1)) := by
    have e : p + (digitsI B (den : Int) - 1) = digitsI B (den : Int) + (p - 1) := by omega
    rw [e, Nat.pow_add]
    exact Nat.mul_lt_mul_of_pos_right hdup (Nat.pow_pos hB0)
  obtain ⟨hns, hsh⟩ := to_float_decisions_unsaturated (digitsI B num - 1) (digitsI B (den : Int) - 1) p
    (by unfold ilogB at hov; exact hov)
  unfold toFloatQuot ilogB
  simp only [hns, hsh]
  by_cases h : digitsI B num - 1 ≥ p + (digitsI B (den : Int) - 1)
  · simp only [h, decide_true, if_true]
    obtain ⟨hdec, hlt⟩ := tdiv_tmod_nz num (den : Int) hdi
    rw [hdabs] at hlt
    refine ⟨by simpa using hdec, hlt, ?_⟩
    have : B ^ (p + (digitsI B (den : Int) - 1)) ≤ B ^ (digitsI B num - 1) := Nat.pow_le_pow_right hB0 h
    simp only [Nat.pow_zero, Nat.mul_one]
    omega
  · simp only [h, decide_false, if_false, Bool.false_eq_true]
    have hn' : (if B = 2 then ishl num (p + (digitsI B (den : Int) - 1) - (digitsI B num - 1))
        else num * ((B ^ (p + (digitsI B (den : Int) - 1) - (digitsI B num - 1)) : Nat) : Int)) =
        num * ((B ^ (p + (digitsI B (den : Int) - 1) - (digitsI B num - 1)) : Nat) : Int) := by
      split
      · rename_i h2; subst h2; rfl
      · rfl
    rw [hn']
    obtain ⟨hdec, hlt⟩ := tdiv_tmod_nz (num * ((B ^ (p + (digitsI B (den : Int) - 1) - (digitsI B num - 1)) : Nat) : Int))
      (den : Int) hdi
    rw [hdabs] at hlt
    refine ⟨hdec, hlt, ?_⟩
    have e : B ^ (digitsI B num - 1) * B ^ (p + (digitsI B (den : Int) - 1) - (digitsI B num - 1)) =
        B ^ (p + (digitsI B (den : Int) - 1)) := by
      rw [← Nat.pow_add]; congr 1; omega
    have : B ^ (digitsI B num - 1) * B ^ (p + (digitsI B (den : Int) - 1) - (digitsI B num - 1)) ≤
        num.natAbs * B ^ (p + (digitsI B (den : Int) - 1) - (digitsI B num - 1)) :=
      Nat.mul_le_mul_right _ hnlo
    omega

/-! ### the first rounding -/

/-- `R::round_ratio(&q, r, den)` names the neighbour of `N / D` of the mode, and meets the integer contract -/
theorem toFloatFirst_spec (m : Float.Mode) (N D q r : Int) (hD : 0 < D) (hdec : N = q * D + r) (hlt : |r| < D)
    (hr : r ≠ 0) :
    ModeSpec m N D (q + rInt (roundRatio m q r D)) ∧
      IContract m D N ((q + rInt (roundRatio m q r D)) * D) (some (roundRatio m q r D)) := by
  have hspec := roundRatio_spec m q r D (ne_of_gt hD) hr (by rwa [abs_of_pos hD])
  rw [abs_of_pos hD, Int.sign_eq_one_of_pos hD, mul_one, ← hdec] at hspec
  refine ⟨hspec, ?_⟩
  have := icontract_of_spec m q r D hD hr hlt (roundRatio m q r D) (by rw [← hdec]; exact hspec)
  rw [← hdec] at this
  exact this

/-! ### values -/

theorem bpowQ_neg_nat (B : Nat) (_hB : 0 < B) (k : Nat) : bpowQ B (-(k : Int)) = 1 / ((B ^ k : Nat) : ℚ) := by
  rw [bpowQ_eq_zpow, zpow_neg, zpow_natCast]; push_cast; rw [one_div]

/-- `FBig >> shift` divides the value by `B^shift` -/
theorem fbigShr_value (B : Nat) (hB : 0 < B) (v : FRepr) (sh : Int) :
    (fbigShr v sh).toRat B = v.toRat B * bpowQ B (-sh) := by
  unfold fbigShr
  by_cases hz : v.isZero = true
  · simp only [hz, if_true]
    have : v.signif = 0 := by
      unfold FRepr.isZero at hz
      simp only [Bool.and_eq_true, beq_iff_eq] at hz
      exact hz.1
    unfold FRepr.toRat; rw [this]; simp
  · simp only [hz, if_false, Bool.false_eq_true]
    unfold FRepr.toRat
    simp only
    rw [show v.exp - sh = v.exp + -sh by ring, bpowQ_add B hB]; ring

/-- the first-rounded quotient, as the model computes it -/
def toFloatN1 (B : Nat) (m : Float.Mode) (num : Int) (den p : Nat) : Int :=
  (toFloatFirst m den (toFloatQuot B num den p).2.1 (toFloatQuot B num den p).2.2).1

/-- **`RBig::to_float` is ONE correct rounding whenever the first-rounded quotient fits the precision** (after
    `Repr::new` stripped its trailing zero digits): every base `≥ 2`, every mode, every non-zero rational, every
    precision `≥ 1` below the `usize` overflow; the result meets the rounding contract of C03 for the exact value
    `num / den` — error below one unit (half a unit for the nearest modes) of the last of `p` digits, the side
    condition of the directed modes, `Exact` iff nothing was lost, `AddOne`/`SubOne` only when the result is
    above/below the exact value. -/
theorem ratToFloat_contract_of_fits (B : Nat) (hB : 2 ≤ B) (m : Float.Mode) (c : Coarse) (num : Int) (den p : Nat)
    (hn : num ≠ 0) (hd : 0 < den) (hp : 1 ≤ p) (hov : p + ilogB B (den : Int) < 2 ^ 64)
    (hfit : (FRepr.new B (toFloatN1 B m num den p) 0).digits B ≤ p) :
    ∃ r, ratToFloat B m c num den p = .ok r ∧
      Contract B m p ((num : ℚ) / (den : ℚ)) (r.1.toRat B) r.2 := by
  have hB0 : 0 < B := by omega
  have hp0 : p ≠ 0 := by omega
  obtain ⟨hdec, hlt, hulp⟩ := toFloatQuot_spec B hB num den p hn hd hp hov
  unfold toFloatN1 at hfit
  unfold ratToFloat
  simp only [hp0, hn, if_false]
  rw [reprRound_exact_of_fits B m c p _ hfit]
  refine ⟨_, rfl, ?_⟩
  simp only [andThenFlag]
  rw [fbigShr_value B hB0, FRepr.new_value B hB0]
  generalize toFloatQuot B num den p = t at *
  have hD : (0 : Int) < (den : Int) := by exact_mod_cast hd
  have hDq : ((den : Nat) : ℚ) ≠ 0 := by exact_mod_cast (Nat.pos_iff_ne_zero.mp hd)
  have hPq : (((B ^ t.1 : Nat) : Nat) : ℚ) ≠ 0 := by
    have : 0 < B ^ t.1 := Nat.pow_pos hB0
    exact_mod_cast (Nat.pos_iff_ne_zero.mp this)
  have hdecq : (num : ℚ) * ((B ^ t.1 : Nat) : ℚ) = (t.2.1 : ℚ) * (den : ℚ) + (t.2.2 : ℚ) := by exact_mod_cast hdec
  have hb0 : bpowQ B 0 = 1 := by rw [bpowQ_eq_zpow]; simp
  rw [bpowQ_neg_nat B hB0, hb0, mul_one]
  unfold toFloatFirst
  by_cases hr : t.2.2 = 0
  · simp only [hr, if_true]
    have : (num : ℚ) / (den : ℚ) = (t.2.1 : ℚ) * (1 / ((B ^ t.1 : Nat) : ℚ)) := by
      rw [hr] at hdecq
      simp only [Int.cast_zero, add_zero] at hdecq
      field_simp
      linarith
    rw [this]
    exact contract_exact B m p _
  · simp only [hr, if_false]
    obtain ⟨_, hic⟩ := toFloatFirst_spec m _ (den : Int) t.2.1 t.2.2 hD hdec hlt hr
    have hu : (0 : ℚ) < 1 / ((den : ℚ) * ((B ^ t.1 : Nat) : ℚ)) := by
      apply div_pos one_pos
      apply mul_pos
      · exact_mod_cast hd
      · have : 0 < B ^ t.1 := Nat.pow_pos hB0
        exact_mod_cast this
    have hunit : (((den : Nat) : Int) : ℚ) * (1 / ((den : ℚ) * ((B ^ t.1 : Nat) : ℚ))) = bpowQ B (-(t.1 : Int)) := by
      rw [bpowQ_neg_nat B hB0]
      push_cast
      field_simp
    have hulp' : ((den : Nat) : Int) * ((B ^ (p - 1) : Nat) : Int) ≤ |num * ((B ^ t.1 : Nat) : Int)| := by
      rw [abs_mul, abs_of_nonneg (Int.natCast_nonneg (B ^ t.1)), ← Int.natCast_natAbs num]
      exact_mod_cast hulp
    have key := contract_of_icontract' B hB m p hp _ _ _ hD _ _ hu (-(t.1 : Int)) hunit hic ⟨_, rfl⟩ hulp'
    have hv1 : ((num * ((B ^ t.1 : Nat) : Int) : Int) : ℚ) * (1 / ((den : ℚ) * ((B ^ t.1 : Nat) : ℚ))) = (num : ℚ) / (den : ℚ) := by
      push_cast
      field_simp
    have hv2 : (((t.2.1 + rInt (roundRatio m t.2.1 t.2.2 (den : Int))) * ((den : Nat) : Int) : Int) : ℚ) *
        (1 / ((den : ℚ) * ((B ^ t.1 : Nat) : ℚ))) =
        ((t.2.1 + rInt (roundRatio m t.2.1 t.2.2 (den : Int)) : Int) : ℚ) * (1 / ((B ^ t.1 : Nat) : ℚ)) := by
      push_cast
      field_simp
    rw [hv1, hv2] at key
    exact key


/-! ### directed modes: the second rounding composes with the first -/

theorem floor_floor (N D n1 M n2 : Int) (hD : 0 < D) (_hM : 0 < M) (h1 : IsFloor N D n1) (h2 : IsFloor n1 M n2) :
    IsFloor N (D * M) n2 := by
  unfold IsFloor at *
  have a : n2 * M * D ≤ n1 * D := mul_le_mul_of_nonneg_right h2.1 (le_of_lt hD)
  have b : (n1 + 1) * D ≤ (n2 + 1) * M * D := mul_le_mul_of_nonneg_right (Int.add_one_le_iff.mpr h2.2) (le_of_lt hD)
  constructor
  · calc n2 * (D * M) = n2 * M * D := by ring
      _ ≤ n1 * D := a
      _ ≤ N := h1.1
  · calc N < (n1 + 1) * D := h1.2
      _ ≤ (n2 + 1) * M * D := b
      _ = (n2 + 1) * (D * M) := by ring

theorem ceil_ceil (N D n1 M n2 : Int) (hD : 0 < D) (_hM : 0 < M) (h1 : IsCeil N D n1) (h2 : IsCeil n1 M n2) :
    IsCeil N (D * M) n2 := by
  unfold IsCeil at *
  have a : n1 * D ≤ n2 * M * D := mul_le_mul_of_nonneg_right h2.2 (le_of_lt hD)
  have b : (n2 - 1) * M * D ≤ (n1 - 1) * D := by
    apply mul_le_mul_of_nonneg_right _ (le_of_lt hD)
    have := h2.1
    omega
  constructor
  · calc (n2 - 1) * (D * M) = (n2 - 1) * M * D := by ring
      _ ≤ (n1 - 1) * D := b
      _ < N := h1.1
  · calc N ≤ n1 * D := h1.2
      _ ≤ n2 * M * D := a
      _ = n2 * (D * M) := by ring

/-- the four directed modes -/
def Directed : Float.Mode → Prop
  | .zero | .away | .up | .down => True
  | _ => False

/-- **two roundings in the same directed mode are one rounding in that mode** (onto the coarser grid), provided
    the intermediate value kept the sign of the exact one -/
theorem directed_compose (m : Float.Mode) (hm : Directed m) (N D n1 M n2 : Int) (hD : 0 < D) (hM : 0 < M)
    (h1 : ModeSpec m N D n1) (h2 : ModeSpec m n1 M n2) (hs : 0 ≤ N ↔ 0 ≤ n1) : ModeSpec m N (D * M) n2 := by
  cases m <;> simp only [Directed] at hm <;> simp only [ModeSpec, IsTowardZero, IsAwayFromZero] at *
  · by_cases hN : 0 ≤ N
    · have := hs.mp hN
      simp only [hN, this, if_true] at *
      exact floor_floor N D n1 M n2 hD hM h1 h2
    · have : ¬ 0 ≤ n1 := fun h => hN (hs.mpr h)
      simp only [hN, this, if_false] at *
      exact ceil_ceil N D n1 M n2 hD hM h1 h2
  · by_cases hN : 0 ≤ N
    · have := hs.mp hN
      simp only [hN, this, if_true] at *
      exact ceil_ceil N D n1 M n2 hD hM h1 h2
    · have : ¬ 0 ≤ n1 := fun h => hN (hs.mpr h)
      simp only [hN, this, if_false] at *
      exact floor_floor N D n1 M n2 hD hM h1 h2
  · exact ceil_ceil N D n1 M n2 hD hM h1 h2
  · exact floor_floor N D n1 M n2 hD hM h1 h2

/-- a directed rounding stays within one unit on either side -/
theorem directed_within (m : Float.Mode) (hm : Directed m) (N D n : Int) (hD : 0 < D) (h : ModeSpec m N D n) :
    (n - 1) * D < N ∧ N < (n + 1) * D := by
  have e1 : (n + 1) * D = n * D + D := by ring
  have e2 : (n - 1) * D = n * D - D := by ring
  cases m <;> simp only [Directed] at hm <;>
    simp only [ModeSpec, IsTowardZero, IsAwayFromZero, IsFloor, IsCeil, e1, e2] at * <;>
    first
      | (split at h <;> constructor <;> omega)
      | (constructor <;> omega)

/-- an exact quotient is its own rounding in every directed mode -/
theorem directed_exact (m : Float.Mode) (hm : Directed m) (q D : Int) (hD : 0 < D) : ModeSpec m (q * D) D q := by
  have e1 : (q + 1) * D = q * D + D := by ring
  have e2 : (q - 1) * D = q * D - D := by ring
  cases m <;> simp only [Directed] at hm <;>
    simp only [ModeSpec, IsTowardZero, IsAwayFromZero, IsFloor, IsCeil, e1, e2] <;>
    first
      | (split <;> constructor <;> omega)
      | (constructor <;> omega)

/-- scaling numerator and unit by the same positive factor does not change the neighbour a directed mode names -/
theorem directed_scale (m : Float.Mode) (hm : Directed m) (s K n E : Int) (hE : 0 < E) (h : ModeSpec m s K n) :
    ModeSpec m (s * E) (K * E) n := by
  have fl : IsFloor s K n → IsFloor (s * E) (K * E) n := by
    intro h; unfold IsFloor at *
    constructor
    · calc n * (K * E) = n * K * E := by ring
        _ ≤ s * E := mul_le_mul_of_nonneg_right h.1 (le_of_lt hE)
    · calc s * E < (n + 1) * K * E := mul_lt_mul_of_pos_right h.2 hE
        _ = (n + 1) * (K * E) := by ring
  have ce : IsCeil s K n → IsCeil (s * E) (K * E) n := by
    intro h; unfold IsCeil at *
    constructor
    · calc (n - 1) * (K * E) = (n - 1) * K * E := by ring
        _ < s * E := mul_lt_mul_of_pos_right h.1 hE
    · calc s * E ≤ n * K * E := mul_le_mul_of_nonneg_right h.2 (le_of_lt hE)
        _ = n * (K * E) := by ring
  have sg : (0 ≤ s * E) ↔ (0 ≤ s) := by
    constructor
    · intro h; by_contra hc
      have : s * E < 0 := mul_neg_of_neg_of_pos (by omega) hE
      omega
    · intro h; exact Int.mul_nonneg h (le_of_lt hE)
  cases m <;> simp only [Directed] at hm <;> simp only [ModeSpec, IsTowardZero, IsAwayFromZero] at *
  · by_cases h0 : 0 ≤ s
    · simp only [h0, sg.mpr h0, if_true] at *; exact fl h
    · have : ¬ 0 ≤ s * E := fun hh => h0 (sg.mp hh)
      simp only [h0, this, if_false] at *; exact ce h
  · by_cases h0 : 0 ≤ s
    · simp only [h0, sg.mpr h0, if_true] at *; exact ce h
    · have : ¬ 0 ≤ s * E := fun hh => h0 (sg.mp hh)
      simp only [h0, this, if_false] at *; exact fl h
  · exact ce h
  · exact fl h

/-- a directed rounding of a value of magnitude at least one unit keeps its sign -/
theorem directed_sign (m : Float.Mode) (hm : Directed m) (N D n : Int) (hD : 0 < D) (h : ModeSpec m N D n)
    (hbig : D ≤ |N|) : (0 < N → 0 < n) ∧ (N < 0 → n < 0) := by
  obtain ⟨hlo, hhi⟩ := directed_within m hm N D n hD h
  have e1 : (n + 1) * D = n * D + D := by ring
  have e2 : (n - 1) * D = n * D - D := by ring
  rw [e2] at hlo; rw [e1] at hhi
  constructor
  · intro hN
    rw [abs_of_pos hN] at hbig
    by_contra hc
    have hn0 : n ≤ 0 := by omega
    have : n * D ≤ 0 := Int.mul_nonpos_of_nonpos_of_nonneg hn0 (le_of_lt hD)
    -- N < n·D + D ≤ D ≤ N unless the mode rounded down to 0: exclude by the mode's own inequality
    cases m <;> simp only [Directed] at hm <;>
      simp only [ModeSpec, IsTowardZero, IsAwayFromZero, IsFloor, IsCeil, e1, e2] at h <;>
      first
        | (split at h <;> omega)
        | omega
  · intro hN
    rw [abs_of_neg hN] at hbig
    by_contra hc
    have hn0 : 0 ≤ n := by omega
    have : 0 ≤ n * D := Int.mul_nonneg hn0 (le_of_lt hD)
    cases m <;> simp only [Directed] at hm <;>
      simp only [ModeSpec, IsTowardZero, IsAwayFromZero, IsFloor, IsCeil, e1, e2] at h <;>
      first
        | (split at h <;> omega)
        | omega

/-- the integer contract of a directed rounding, from the mode specification and the direction of the flag -/
theorem icontract_of_directed (m : Float.Mode) (hm : Directed m) (D X n : Int) (hD : 0 < D)
    (h : ModeSpec m X D n) (hne : n * D ≠ X) (a : Rounding) (hadd : a = .AddOne → X < n * D)
    (hsub : a = .SubOne → n * D < X) : IContract m D X (n * D) (some a) := by
  have e1 : (n + 1) * D = n * D + D := by ring
  have e2 : (n - 1) * D = n * D - D := by ring
  have hp1 := mult_gt_neg n D hD
  have hp2 := mult_lt_pos n D hD
  refine ⟨hne, by simp, ?_, ?_, ?_, ?_⟩
  · cases m <;> simp only [Directed] at hm <;>
      simp only [ModeSpec, IsTowardZero, IsAwayFromZero, IsFloor, IsCeil, e1, e2] at h <;>
      simp only [Mode.isHalf, if_false, Bool.false_eq_true]
    · split at h <;> constructor <;> omega
    · split at h <;> constructor <;> omega
    · constructor <;> omega
    · constructor <;> omega
  · cases m <;> simp only [Directed] at hm <;>
      simp only [ModeSpec, IsTowardZero, IsAwayFromZero, IsFloor, IsCeil, e1, e2] at h
    · split at h
      · constructor
        · intro _; constructor <;> omega
        · intro hx; constructor <;> omega
      · constructor
        · intro hx; omega
        · intro _; constructor <;> omega
    · split at h
      · constructor
        · intro _; omega
        · intro hx; omega
      · constructor
        · intro hx; omega
        · intro _; omega
    · omega
    · omega
  · intro hf; exact hadd (by simpa using hf)
  · intro hf; exact hsub (by simpa using hf)


theorem lift_gt (s K E n1 D N n2 : Int) (hE : 1 ≤ E) (hD : 0 < D) (hn1 : n1 = s * E) (h : s < n2 * K)
    (hN : N < (n1 + 1) * D) : N < n2 * (D * (K * E)) := by
  have a : (s + 1) * E ≤ n2 * K * E := mul_le_mul_of_nonneg_right (Int.add_one_le_iff.mpr h) (by omega)
  have b : (s + 1) * E = n1 + E := by rw [hn1]; ring
  have c : n1 + 1 ≤ n2 * K * E := by omega
  have d : (n1 + 1) * D ≤ n2 * K * E * D := mul_le_mul_of_nonneg_right c (le_of_lt hD)
  calc N < (n1 + 1) * D := hN
    _ ≤ n2 * K * E * D := d
    _ = n2 * (D * (K * E)) := by ring

theorem lift_lt (s K E n1 D N n2 : Int) (hE : 1 ≤ E) (hD : 0 < D) (hn1 : n1 = s * E) (h : n2 * K < s)
    (hN : (n1 - 1) * D < N) : n2 * (D * (K * E)) < N := by
  have a : n2 * K * E ≤ (s - 1) * E := mul_le_mul_of_nonneg_right (by omega) (by omega)
  have b : (s - 1) * E = n1 - E := by rw [hn1]; ring
  have c : n2 * K * E ≤ n1 - 1 := by omega
  have d : n2 * K * E * D ≤ (n1 - 1) * D := mul_le_mul_of_nonneg_right c (le_of_lt hD)
  calc n2 * (D * (K * E)) = n2 * K * E * D := by ring
    _ ≤ (n1 - 1) * D := d
    _ < N := hN

/-- **`RBig::to_float` / `Relaxed::to_float` are correctly rounded in every DIRECTED mode** (`Zero`, `Away`, `Up`,
    `Down`): for every base `≥ 2`, every non-zero rational `num/den` as it is stored, every precision `≥ 1` (below
    the `usize` overflow of `precision + den_digits`) and every sound coarse test, the mirrored conversion returns a
    value and a flag that meet the rounding contract of C03 for the EXACT value `num / den` — although the code
    rounds twice (quotient → integer → `precision` digits), two roundings in the same directed mode are one. -/
theorem ratToFloat_contract_directed (B : Nat) (hB : 2 ≤ B) (m : Float.Mode) (hm : Directed m) (c : Coarse)
    (hc : CoarseSound c) (num : Int) (den p : Nat) (hn : num ≠ 0) (hd : 0 < den) (hp : 1 ≤ p)
    (hov : p + ilogB B (den : Int) < 2 ^ 64) :
    ∃ r, ratToFloat B m c num den p = .ok r ∧
      Contract B m p ((num : ℚ) / (den : ℚ)) (r.1.toRat B) r.2 := by
  by_cases hfit : (FRepr.new B (toFloatN1 B m num den p) 0).digits B ≤ p
  · exact ratToFloat_contract_of_fits B hB m c num den p hn hd hp hov hfit
  have hB0 : 0 < B := by omega
  have hp0 : p ≠ 0 := by omega
  obtain ⟨hdec, hlt, hulp⟩ := toFloatQuot_spec B hB num den p hn hd hp hov
  unfold toFloatN1 at hfit
  unfold ratToFloat
  simp only [hp0, hn, if_false]
  refine ⟨_, rfl, ?_⟩
  generalize toFloatQuot B num den p = t at *
  have hD : (0 : Int) < (den : Int) := by exact_mod_cast hd
  -- the scaled numerator
  obtain ⟨N, hNdef⟩ : ∃ N : Int, N = num * ((B ^ t.1 : Nat) : Int) := ⟨_, rfl⟩
  rw [← hNdef] at hdec
  have hPpos : (0 : Int) < ((B ^ t.1 : Nat) : Int) := by
    have : 0 < B ^ t.1 := Nat.pow_pos hB0
    exact_mod_cast this
  have hN0 : N ≠ 0 := by rw [hNdef]; exact Int.mul_ne_zero hn (ne_of_gt hPpos)
  have hulpN : ((den : Nat) : Int) * ((B ^ (p - 1) : Nat) : Int) ≤ |N| := by
    rw [hNdef, abs_mul, abs_of_nonneg (le_of_lt hPpos), ← Int.natCast_natAbs num]
    exact_mod_cast hulp
  have hbig : ((den : Nat) : Int) ≤ |N| := by
    have h1 : (1 : Int) ≤ ((B ^ (p - 1) : Nat) : Int) := by
      have : 0 < B ^ (p - 1) := Nat.pow_pos hB0
      exact_mod_cast this
    have : ((den : Nat) : Int) * 1 ≤ ((den : Nat) : Int) * ((B ^ (p - 1) : Nat) : Int) :=
      mul_le_mul_of_nonneg_left h1 (le_of_lt hD)
    omega
  -- the first rounding
  obtain ⟨n1, hn1def⟩ : ∃ n1 : Int, n1 = (toFloatFirst m den t.2.1 t.2.2).1 := ⟨_, rfl⟩
  have h1 : ModeSpec m N (den : Int) n1 := by
    rw [hn1def]; unfold toFloatFirst
    by_cases hr : t.2.2 = 0
    · simp only [hr, if_true]
      have : N = t.2.1 * (den : Int) := by rw [hdec, hr, add_zero]
      rw [this]
      exact directed_exact m hm _ _ hD
    · simp only [hr, if_false]
      exact (toFloatFirst_spec m N (den : Int) t.2.1 t.2.2 hD hdec hlt hr).1
  rw [← hn1def] at hfit ⊢
  obtain ⟨hsp, hsn⟩ := directed_sign m hm N (den : Int) n1 hD h1 hbig
  have hn10 : n1 ≠ 0 := by
    rcases lt_or_gt_of_ne hN0 with h | h
    · have := hsn h; omega
    · have := hsp h; omega
  have hs : 0 ≤ N ↔ 0 ≤ n1 := by
    constructor
    · intro h; have := hsp (by omega); omega
    · intro h; by_contra hc2; have := hsn (by omega); omega
  obtain ⟨hw1, hw2⟩ := directed_within m hm N (den : Int) n1 hD h1
  -- `Repr::new(n1, 0)`
  obtain ⟨z, hz1, hz2⟩ := new_decomp B n1 0 hn10
  have hnorm := FRepr.new_normalized B hB n1 0
  generalize FRepr.new B n1 0 = v0 at *
  have hE : (0 : Int) < (B : Int) ^ z := by
    have : (0 : Int) < (B : Int) := by exact_mod_cast hB0
    exact pow_pos this z
  have hs0 : v0.signif ≠ 0 := by
    intro h; rw [h, zero_mul] at hz1; exact hn10 hz1
  -- the second rounding happens
  have hd2 : v0.digits B > p := by omega
  unfold reprRound
  simp only [hp0, hd2, if_false, if_true, andThenFlag]
  obtain ⟨hsplit, hllt, _, _⟩ := splitDigits_spec B hB v0.signif (v0.digits B - p)
  obtain ⟨_, hdlo, _⟩ := digitsI_spec B hB v0.signif hs0
  have hsm : v0.signif % (B : Int) ≠ 0 := by
    rcases hnorm with h | h
    · exact absurd h hs0
    · exact h
  have hlo0 : (splitDigits B v0.signif (v0.digits B - p)).2 ≠ 0 := by
    intro h0
    rw [h0, add_zero] at hsplit
    have hk : v0.digits B - p = (v0.digits B - p - 1) + 1 := by omega
    apply hsm
    rw [hsplit, hk, Nat.pow_succ]
    push_cast
    rw [← mul_assoc]
    exact Int.mul_emod_left _ _
  have hspec2 := roundFract_spec B (by omega) m c hc (splitDigits B v0.signif (v0.digits B - p)).1
    (splitDigits B v0.signif (v0.digits B - p)).2 (v0.digits B - p) hlo0 hllt
  rw [← hsplit] at hspec2
  obtain ⟨a, hadef⟩ : ∃ a : Rounding, a = roundFract B m c (splitDigits B v0.signif (v0.digits B - p)).1
      (splitDigits B v0.signif (v0.digits B - p)).2 (v0.digits B - p) := ⟨_, rfl⟩
  rw [← hadef] at hspec2 ⊢
  generalize splitDigits B v0.signif (v0.digits B - p) = hl at *
  obtain ⟨k, hkdef⟩ : ∃ k : Nat, k = v0.digits B - p := ⟨_, rfl⟩
  rw [← hkdef] at hspec2 hsplit hllt ⊢
  have hK : (0 : Int) < ((B ^ k : Nat) : Int) := by
    have : 0 < B ^ k := Nat.pow_pos hB0
    exact_mod_cast this
  have hKE : (0 : Int) < ((B ^ k : Nat) : Int) * (B : Int) ^ z := Int.mul_pos hK hE
  have hE1 : (1 : Int) ≤ (B : Int) ^ z := by omega
  -- compose the two roundings
  have hsc := directed_scale m hm v0.signif _ (hl.1 + rInt a) _ hE hspec2
  rw [← hz1] at hsc
  have hcomp := directed_compose m hm N (den : Int) n1 _ (hl.1 + rInt a) hD hKE h1 hsc hs
  have hl2 := abs_lt.mp hllt
  have hadd : a = .AddOne → N < (hl.1 + rInt a) * ((den : Int) * (((B ^ k : Nat) : Int) * (B : Int) ^ z)) := by
    intro ha
    apply lift_gt v0.signif _ _ n1 _ N _ hE1 hD hz1 _ hw2
    rw [ha]; simp only [rInt]
    have : (hl.1 + 1) * ((B ^ k : Nat) : Int) = hl.1 * ((B ^ k : Nat) : Int) + ((B ^ k : Nat) : Int) := by ring
    omega
  have hsub : a = .SubOne → (hl.1 + rInt a) * ((den : Int) * (((B ^ k : Nat) : Int) * (B : Int) ^ z)) < N := by
    intro ha
    apply lift_lt v0.signif _ _ n1 _ N _ hE1 hD hz1 _ hw1
    rw [ha]; simp only [rInt]
    have : (hl.1 + -1) * ((B ^ k : Nat) : Int) = hl.1 * ((B ^ k : Nat) : Int) - ((B ^ k : Nat) : Int) := by ring
    omega
  have hne : (hl.1 + rInt a) * ((den : Int) * (((B ^ k : Nat) : Int) * (B : Int) ^ z)) ≠ N := by
    intro heq
    have e1 : (hl.1 + rInt a) * ((den : Int) * (((B ^ k : Nat) : Int) * (B : Int) ^ z)) =
        ((hl.1 + rInt a) * ((B ^ k : Nat) : Int) * (B : Int) ^ z) * (den : Int) := by ring
    rw [e1] at heq
    rw [← heq] at hw1 hw2
    have g1 := lt_of_mul_lt_mul_right hw1 (le_of_lt hD)
    have g2 := lt_of_mul_lt_mul_right hw2 (le_of_lt hD)
    have g3 : (hl.1 + rInt a) * ((B ^ k : Nat) : Int) * (B : Int) ^ z = v0.signif * (B : Int) ^ z := by omega
    have g4 := mul_right_cancel₀ (ne_of_gt hE) g3
    have g5 : (hl.1 + rInt a) * ((B ^ k : Nat) : Int) = hl.1 * ((B ^ k : Nat) : Int) + rInt a * ((B ^ k : Nat) : Int) := by ring
    have g6 : rInt a * ((B ^ k : Nat) : Int) = hl.2 := by omega
    cases a <;> simp only [rInt, zero_mul, one_mul, neg_mul] at g6 <;> omega
  have hic := icontract_of_directed m hm _ N (hl.1 + rInt a) (Int.mul_pos hD hKE) hcomp hne a hadd hsub
  -- the unit of the result is not coarser than the ulp of the exact value
  have hulp2 : ((den : Int) * (((B ^ k : Nat) : Int) * (B : Int) ^ z)) * ((B ^ (p - 1) : Nat) : Int) ≤ |N| := by
    have hpow : ((B ^ k : Nat) : Int) * ((B ^ (p - 1) : Nat) : Int) = ((B ^ (digitsI B v0.signif - 1) : Nat) : Int) := by
      have : B ^ k * B ^ (p - 1) = B ^ (digitsI B v0.signif - 1) := by
        rw [← Nat.pow_add]; congr 1; unfold FRepr.digits at *; omega
      rw [← this]; push_cast; rfl
    have hstrict : ((B ^ (digitsI B v0.signif - 1) : Nat) : Int) + 1 ≤ |v0.signif| := by
      have hne2 : ((B ^ (digitsI B v0.signif - 1) : Nat) : Int) ≠ |v0.signif| := by
        intro he
        apply hsm
        have hdv : (B : Int) ∣ |v0.signif| := by
          rw [← he]
          have hk2 : digitsI B v0.signif - 1 = (digitsI B v0.signif - 2) + 1 := by unfold FRepr.digits at *; omega
          rw [hk2, Nat.pow_succ]; push_cast
          exact Dvd.intro_left _ rfl
        exact Int.emod_eq_zero_of_dvd ((dvd_abs _ _).mp hdv)
      omega
    have e2 : ((den : Int) * (((B ^ k : Nat) : Int) * (B : Int) ^ z)) * ((B ^ (p - 1) : Nat) : Int) =
        ((B ^ (digitsI B v0.signif - 1) : Nat) : Int) * (B : Int) ^ z * (den : Int) := by
      rw [← hpow]; ring
    rw [e2]
    rcases lt_or_gt_of_ne hN0 with hneg | hpos
    · have hn1neg := hsn hneg
      have hsneg : v0.signif < 0 := by
        by_contra hc2
        have : 0 ≤ v0.signif * (B : Int) ^ z := Int.mul_nonneg (by omega) (le_of_lt hE)
        omega
      rw [abs_of_neg hsneg] at hstrict
      rw [abs_of_neg hneg]
      have a1 : ((B ^ (digitsI B v0.signif - 1) : Nat) : Int) * (B : Int) ^ z ≤ (-v0.signif - 1) * (B : Int) ^ z :=
        mul_le_mul_of_nonneg_right (by omega) (le_of_lt hE)
      have a2 : (-v0.signif - 1) * (B : Int) ^ z = -n1 - (B : Int) ^ z := by rw [hz1]; ring
      have a3 : ((B ^ (digitsI B v0.signif - 1) : Nat) : Int) * (B : Int) ^ z ≤ -n1 - 1 := by omega
      have a4 := mul_le_mul_of_nonneg_right a3 (le_of_lt hD)
      have a5 : (-n1 - 1) * (den : Int) = -((n1 + 1) * (den : Int)) := by ring
      omega
    · have hn1pos := hsp hpos
      have hspos : 0 < v0.signif := by
        by_contra hc2
        have : v0.signif * (B : Int) ^ z ≤ 0 := Int.mul_nonpos_of_nonpos_of_nonneg (by omega) (le_of_lt hE)
        omega
      rw [abs_of_pos hspos] at hstrict
      rw [abs_of_pos hpos]
      have a1 : ((B ^ (digitsI B v0.signif - 1) : Nat) : Int) * (B : Int) ^ z ≤ (v0.signif - 1) * (B : Int) ^ z :=
        mul_le_mul_of_nonneg_right (by omega) (le_of_lt hE)
      have a2 : (v0.signif - 1) * (B : Int) ^ z = n1 - (B : Int) ^ z := by rw [hz1]; ring
      have a3 : ((B ^ (digitsI B v0.signif - 1) : Nat) : Int) * (B : Int) ^ z ≤ n1 - 1 := by omega
      have a4 := mul_le_mul_of_nonneg_right a3 (le_of_lt hD)
      omega
  -- to rationals
  have hDq : ((den : Nat) : ℚ) ≠ 0 := by exact_mod_cast (Nat.pos_iff_ne_zero.mp hd)
  have hBq : (B : ℚ) ≠ 0 := by exact_mod_cast (Nat.pos_iff_ne_zero.mp hB0)
  have hu : (0 : ℚ) < 1 / ((den : ℚ) * ((B ^ t.1 : Nat) : ℚ)) := by
    apply div_pos one_pos
    apply mul_pos
    · exact_mod_cast hd
    · exact_mod_cast hPpos
  have hexp : bpowQ B ((((z + k : Nat) : Int)) + (-(t.1 : Int))) = (B : ℚ) ^ z * (B : ℚ) ^ k * (1 / ((B ^ t.1 : Nat) : ℚ)) := by
    rw [bpowQ_add B hB0, bpowQ_nat, bpowQ_neg_nat B hB0]; push_cast; rw [pow_add]
  have hunit : ((((den : Int) * (((B ^ k : Nat) : Int) * (B : Int) ^ z)) : Int) : ℚ) * (1 / ((den : ℚ) * ((B ^ t.1 : Nat) : ℚ))) =
      bpowQ B ((((z + k : Nat) : Int)) + (-(t.1 : Int))) := by
    rw [hexp]; push_cast; field_simp
  have key := contract_of_icontract' B hB m p hp _ _ _ (Int.mul_pos hD hKE) _ _ hu _ hunit hic ⟨_, rfl⟩ hulp2
  have hv1 : ((N : Int) : ℚ) * (1 / ((den : ℚ) * ((B ^ t.1 : Nat) : ℚ))) = (num : ℚ) / (den : ℚ) := by
    rw [hNdef]; push_cast; field_simp
  have hv2 : ((((hl.1 + rInt a) * ((den : Int) * (((B ^ k : Nat) : Int) * (B : Int) ^ z))) : Int) : ℚ) *
      (1 / ((den : ℚ) * ((B ^ t.1 : Nat) : ℚ))) =
      (fbigShr (FRepr.new B (hl.1 + rInt a) (v0.exp + (k : Int))) (t.1 : Int)).toRat B := by
    rw [fbigShr_value B hB0, FRepr.new_value B hB0, hz2, mul_assoc, ← bpowQ_add B hB0,
      show (0 : Int) + (z : Int) + (k : Int) + -(t.1 : Int) = (((z + k : Nat) : Int)) + (-(t.1 : Int)) by push_cast; ring, hexp]
    push_cast; field_simp
  rw [hv1, hv2] at key
  exact key


/-! ### `From<Repr> for FBig` -/

theorem new_int_value (B : Nat) (hB : 0 < B) (n : Int) : (FRepr.new B n 0).toRat B = (n : ℚ) := by
  rw [FRepr.new_value B hB]
  have : bpowQ B 0 = 1 := by rw [bpowQ_eq_zpow]; simp
  rw [this, mul_one]

/-- **`From<RBig | Relaxed> for FBig<R, B>` = ONE rounding of the exact quotient** at precision
    `max(digits(num), digits(den), 1)` under the mode `R` of the target type (the rounding contract of C03, by
    C03's `reprDiv_contract`), never a panic; the flag that says whether anything was lost is the one the code
    DROPS (`.value()`), so the conversion is lossless exactly when that flag is `none`. -/
theorem fbigFromRat_contract (B : Nat) (hB : 2 ≤ B) (m : Float.Mode) (num : Int) (den : Nat) (hd : 0 < den) :
    ∃ v f, fbigFromRat B m num den =
        .ok (v, (if max (digitsI B num) 1 > max (digitsI B (den : Int)) 1 then max (digitsI B num) 1
                 else max (digitsI B (den : Int)) 1), f) ∧
      Contract B m (if max (digitsI B num) 1 > max (digitsI B (den : Int)) 1 then max (digitsI B num) 1
                 else max (digitsI B (den : Int)) 1) ((num : ℚ) / (den : ℚ)) (v.toRat B) f ∧
      (f = none ↔ v.toRat B = (num : ℚ) / (den : ℚ)) := by
  have hB0 : 0 < B := by omega
  have hdi : ((den : Nat) : Int) ≠ 0 := by exact_mod_cast (Nat.pos_iff_ne_zero.mp hd)
  have hsig : (FRepr.new B (den : Int) 0).signif ≠ 0 := by
    obtain ⟨z, h1, _⟩ := new_decomp B (den : Int) 0 hdi
    intro h; rw [h, zero_mul] at h1; exact hdi h1
  obtain ⟨p, hpdef⟩ : ∃ p : Nat, p = (if max (digitsI B num) 1 > max (digitsI B (den : Int)) 1 then max (digitsI B num) 1
                 else max (digitsI B (den : Int)) 1) := ⟨_, rfl⟩
  have hp : 1 ≤ p := by
    rw [hpdef]; split <;> omega
  obtain ⟨r, hr, hc⟩ := reprDiv_contract B hB m p hp (FRepr.new B num 0) (FRepr.new B (den : Int) 0) hsig
  rw [new_int_value B hB0, new_int_value B hB0] at hc
  refine ⟨r.1, r.2, ?_, ?_, ?_⟩
  · unfold fbigFromRat
    simp only [← hpdef, hr]
  · rw [← hpdef]; exact_mod_cast hc
  · have := hc.exact_iff
    exact_mod_cast this


/-! ### an input-level sufficient condition for "fits" -/

theorem toFloatQuot_quot_le (B : Nat) (num : Int) (den p : Nat) :
    (toFloatQuot B num den p).2.1.natAbs * den ≤ num.natAbs * B ^ (toFloatQuot B num den p).1 := by
  have hn' : ∀ sh : Nat, (if B = 2 then ishl num sh else num * ((B ^ sh : Nat) : Int)) = num * ((B ^ sh : Nat) : Int) := by
    intro sh
    split
    · rename_i h2; subst h2; rfl
    · rfl
  unfold toFloatQuot
  simp only [hn']
  by_cases h : Dashu.Gen.ConvToFloat.to_float_no_shift (ilogB B num) (ilogB B (den : Int)) p = true
  · simp only [h, if_true]
    have := natAbs_tdiv_mul_le num (den : Int)
    rw [natAbs_natCast_int] at this
    simpa using this
  · simp only [h, if_false, Bool.false_eq_true]
    have := natAbs_tdiv_mul_le (num * ((B ^ (Dashu.Gen.ConvToFloat.to_float_shift (ilogB B num) (ilogB B (den : Int)) p) : Nat) : Int)) (den : Int)
    rw [natAbs_natCast_int, Int.natAbs_mul, natAbs_natCast_int] at this
    exact this

/-- when the scaled quotient is below `B^p` (it has exactly `p` digits) the first-rounded quotient fits the precision -/
theorem fits_of_short (B : Nat) (hB : 2 ≤ B) (m : Float.Mode) (num : Int) (den p : Nat) (hd : 0 < den) (hp : 1 ≤ p)
    (hshort : num.natAbs * B ^ (toFloatQuot B num den p).1 < den * B ^ p) :
    (FRepr.new B (toFloatN1 B m num den p) 0).digits B ≤ p := by
  have hB0 : 0 < B := by omega
  have hq := toFloatQuot_quot_le B num den p
  unfold toFloatN1
  generalize toFloatQuot B num den p = t at *
  have hq1 : t.2.1.natAbs < B ^ p := by
    have : t.2.1.natAbs * den < B ^ p * den := by rw [Nat.mul_comm (B ^ p)]; omega
    exact Nat.lt_of_mul_lt_mul_right this
  have hn1 : (toFloatFirst m den t.2.1 t.2.2).1.natAbs ≤ B ^ p := by
    unfold toFloatFirst
    split
    · simp only; omega
    · simp only
      cases roundRatio m t.2.1 t.2.2 (den : Int) <;> simp only [rInt] <;> omega
  generalize (toFloatFirst m den t.2.1 t.2.2).1 = n1 at *
  by_cases h0 : n1 = 0
  · subst h0
    have : FRepr.new B 0 0 = ⟨0, 0⟩ := by simp [FRepr.new]
    rw [this]; unfold FRepr.digits; simp [digitsI_zero]
  obtain ⟨z, hz1, _⟩ := new_decomp B n1 0 h0
  have hnorm := FRepr.new_normalized B hB n1 0
  generalize FRepr.new B n1 0 = v0 at *
  have hs0 : v0.signif ≠ 0 := by
    intro h; rw [h, zero_mul] at hz1; exact h0 hz1
  have hsm : v0.signif % (B : Int) ≠ 0 := by
    rcases hnorm with h | h
    · exact absurd h hs0
    · exact h
  -- |s| ≤ |n1|
  have hle : v0.signif.natAbs ≤ n1.natAbs := by
    rw [hz1, Int.natAbs_mul]
    have : 0 < ((B : Int) ^ z).natAbs := by
      apply Int.natAbs_pos.mpr
      have : (0 : Int) < (B : Int) := by exact_mod_cast hB0
      exact ne_of_gt (pow_pos this z)
    exact Nat.le_mul_of_pos_right _ this
  have hne : v0.signif.natAbs ≠ B ^ p := by
    intro he
    apply hsm
    have hdv : (B : Int) ∣ ((v0.signif.natAbs : Nat) : Int) := by
      rw [he, show p = (p - 1) + 1 by omega, Nat.pow_succ]; push_cast
      exact Dvd.intro_left _ rfl
    rw [Int.natCast_natAbs] at hdv
    exact Int.emod_eq_zero_of_dvd ((dvd_abs _ _).mp hdv)
  have hlt : v0.signif.natAbs < B ^ p := by omega
  obtain ⟨hlo, _⟩ := digitsI_lower B hB v0.signif hs0
  unfold FRepr.digits
  by_contra hc
  have : B ^ p ≤ B ^ (digitsI B v0.signif - 1) := Nat.pow_le_pow_right hB0 (by omega)
  omega


/-! ### an exact quotient: only the second rounding happens -/

/-- **every mode: correct whenever the scaled quotient is an integer** (`den ∣ num·B^shift`, remainder 0: the first
    rounding is exact, `convert_int` performs the only rounding) -/
theorem ratToFloat_contract_of_exact (B : Nat) (hB : 2 ≤ B) (m : Float.Mode) (c : Coarse) (hc : CoarseSound c)
    (num : Int) (den p : Nat) (hn : num ≠ 0) (hd : 0 < den) (hp : 1 ≤ p) (hov : p + ilogB B (den : Int) < 2 ^ 64)
    (hex : (toFloatQuot B num den p).2.2 = 0) :
    ∃ r, ratToFloat B m c num den p = .ok r ∧
      Contract B m p ((num : ℚ) / (den : ℚ)) (r.1.toRat B) r.2 := by
  by_cases hfit : (FRepr.new B (toFloatN1 B m num den p) 0).digits B ≤ p
  · exact ratToFloat_contract_of_fits B hB m c num den p hn hd hp hov hfit
  have hB0 : 0 < B := by omega
  have hp0 : p ≠ 0 := by omega
  obtain ⟨hdec, _, _⟩ := toFloatQuot_spec B hB num den p hn hd hp hov
  unfold toFloatN1 at hfit
  unfold ratToFloat
  simp only [hp0, hn, if_false]
  refine ⟨_, rfl, ?_⟩
  generalize toFloatQuot B num den p = t at *
  have hff : toFloatFirst m den t.2.1 t.2.2 = (t.2.1, none) := by unfold toFloatFirst; simp [hex]
  rw [hff] at hfit ⊢
  simp only at hfit ⊢
  rw [hex, add_zero] at hdec
  have hPpos : (0 : Int) < ((B ^ t.1 : Nat) : Int) := by
    have : 0 < B ^ t.1 := Nat.pow_pos hB0
    exact_mod_cast this
  have hD : (0 : Int) < (den : Int) := by exact_mod_cast hd
  have hq0 : t.2.1 ≠ 0 := by
    intro h; rw [h, zero_mul] at hdec
    exact (Int.mul_ne_zero hn (ne_of_gt hPpos)) hdec
  obtain ⟨z, hz1, hz2⟩ := new_decomp B t.2.1 0 hq0
  have hnorm := FRepr.new_normalized B hB t.2.1 0
  generalize FRepr.new B t.2.1 0 = v0 at *
  have hs0 : v0.signif ≠ 0 := by
    intro h; rw [h, zero_mul] at hz1; exact hq0 hz1
  have hsm : v0.signif % (B : Int) ≠ 0 := by
    rcases hnorm with h | h
    · exact absurd h hs0
    · exact h
  have hd2 : v0.digits B > p := by omega
  unfold reprRound
  simp only [hp0, hd2, if_false, if_true, andThenFlag]
  obtain ⟨hsplit, hllt, _, _⟩ := splitDigits_spec B hB v0.signif (v0.digits B - p)
  obtain ⟨_, hdlo, _⟩ := digitsI_spec B hB v0.signif hs0
  have hlo0 : (splitDigits B v0.signif (v0.digits B - p)).2 ≠ 0 := by
    intro h0
    rw [h0, add_zero] at hsplit
    have hk : v0.digits B - p = (v0.digits B - p - 1) + 1 := by omega
    apply hsm
    rw [hsplit, hk, Nat.pow_succ]
    push_cast
    rw [← mul_assoc]
    exact Int.mul_emod_left _ _
  have hulp : ((B ^ (v0.digits B - p) : Nat) : Int) * ((B ^ (p - 1) : Nat) : Int) ≤
      |(splitDigits B v0.signif (v0.digits B - p)).1 * ((B ^ (v0.digits B - p) : Nat) : Int) +
        (splitDigits B v0.signif (v0.digits B - p)).2| := by
    rw [← hsplit]
    have : B ^ (v0.digits B - p) * B ^ (p - 1) = B ^ (digitsI B v0.signif - 1) := by
      rw [← Nat.pow_add]; congr 1; unfold FRepr.digits at *; omega
    calc ((B ^ (v0.digits B - p) : Nat) : Int) * ((B ^ (p - 1) : Nat) : Int)
        = ((B ^ (digitsI B v0.signif - 1) : Nat) : Int) := by rw [← this]; push_cast; rfl
      _ ≤ |v0.signif| := hdlo
  have key := round_at_contract B hB m c hc p hp _ _ (v0.digits B - p) ((z : Int) + -(t.1 : Int)) hlo0 hllt hulp
  rw [← hsplit] at key
  -- the exact value
  have hDq : ((den : Nat) : ℚ) ≠ 0 := by exact_mod_cast (Nat.pos_iff_ne_zero.mp hd)
  have hPq : (((B ^ t.1 : Nat) : Nat) : ℚ) ≠ 0 := by
    have : 0 < B ^ t.1 := Nat.pow_pos hB0
    exact_mod_cast (Nat.pos_iff_ne_zero.mp this)
  have hdecq : (num : ℚ) * ((B ^ t.1 : Nat) : ℚ) = (t.2.1 : ℚ) * (den : ℚ) := by exact_mod_cast hdec
  have hz1q : (t.2.1 : ℚ) = (v0.signif : ℚ) * (B : ℚ) ^ z := by exact_mod_cast hz1
  have hv1 : (v0.signif : ℚ) * bpowQ B ((z : Int) + -(t.1 : Int)) = (num : ℚ) / (den : ℚ) := by
    rw [bpowQ_add B hB0, bpowQ_nat, bpowQ_neg_nat B hB0]
    push_cast
    have : (num : ℚ) / (den : ℚ) = (t.2.1 : ℚ) * (1 / ((B ^ t.1 : Nat) : ℚ)) := by
      field_simp
      linarith
    rw [this, hz1q]; push_cast; ring
  have hv2 : (FRepr.new B ((splitDigits B v0.signif (v0.digits B - p)).1 +
        rInt (roundFract B m c (splitDigits B v0.signif (v0.digits B - p)).1 (splitDigits B v0.signif (v0.digits B - p)).2
          (v0.digits B - p))) ((z : Int) + -(t.1 : Int) + ((v0.digits B - p : Nat) : Int))).toRat B =
      (fbigShr (FRepr.new B ((splitDigits B v0.signif (v0.digits B - p)).1 +
        rInt (roundFract B m c (splitDigits B v0.signif (v0.digits B - p)).1 (splitDigits B v0.signif (v0.digits B - p)).2
          (v0.digits B - p))) (v0.exp + ((v0.digits B - p : Nat) : Int))) (t.1 : Int)).toRat B := by
    rw [fbigShr_value B hB0, FRepr.new_value B hB0, FRepr.new_value B hB0, hz2, mul_assoc, ← bpowQ_add B hB0]
    congr 2; ring
  rw [hv1, hv2] at key
  exact key

end Dashu.Model.Conv
