import Dashu.Model.Int.PowGuard
/-
  C06 — round 8 (link lemmas): the up-front allocation refusal of `Repr::to_float` when the digit shift is at least
  `2^64 − 64` (the driver's transcribed `AllocTooMuch`) DERIVED from the guarded kernels the integer properties own
  (`Model/Int/PowGuard.lean`: `TRepr.shlChecked` = `TypedRepr << n` with `Buffer::allocate`'s capacity check;
  `ubigPowGuarded` = `UBig::pow` with its checked `exp * shift`, its result-buffer allocation and its final shift).
  `to_float` scales the numerator by `&numerator << shift` (B = 2) or `&numerator * base.pow(shift)` (B ≠ 2).  Core Lean only.
-/
namespace Dashu.Model.Conv
open Dashu Dashu.Model

theorem shl_refused (r : TRepr) (hr : r ≠ .small 0) (n : Nat) (hn : 2 ^ 64 - 64 ≤ n) :
    r.shlChecked 64 n = .error .allocTooMuch := by
  cases r with
  | small d =>
    have hd : d ≠ 0 := fun h => hr (by rw [h])
    have hb : ¬ n ≤ 2 * 64 - bitLenNat d := by omega
    have hc : (2 ^ usizeBits - 1) / 64 < n / 64 + 1 := by unfold usizeBits; omega
    have hc3 : (2 ^ usizeBits - 1) / 64 < n / 64 + 3 := by unfold usizeBits; omega
    by_cases h2 : d = 1
    · subst h2
      simp [TRepr.shlChecked, shlAllocateWords, bufMaxCapacity, hb, hc]
    · simp [TRepr.shlChecked, shlAllocateWords, bufMaxCapacity, hd, h2, hb, hc3]
  | large ws =>
    have hc : (2 ^ usizeBits - 1) / 64 < n / 64 + ws.length + 1 := by unfold usizeBits; omega
    simp [TRepr.shlChecked, shlAllocateWords, bufMaxCapacity, hc]

theorem pow_refused_16 (n : Nat) (hn : 2 ^ 64 - 64 ≤ n) :
    ubigPowGuarded 64 (.small 16) n = .error .allocTooMuch := by
  have h1 : TRepr.trailingZeros 64 (.small 16) = .ok (some 4) := rfl
  have h2 : 2 ^ usizeBits ≤ n * 4 := by unfold usizeBits; omega
  simp [ubigPowGuarded, h1, h2, bind, Except.bind]

theorem powBuf_refused_5 (n : Nat) (hn : 2 ^ 64 - 64 ≤ n) : powBufAllocPanics 64 (.small 5) n = true := by
  have h1 : maxExpInWord 64 5 = (27, 7450580596923828125) := by decide +kernel
  have h2 : bufMaxCapacity 64 < n / 27 + 1 := by unfold bufMaxCapacity usizeBits; omega
  have h3 : ¬ n < 2 * 27 := by omega
  have h4 : isPow2 5 = false := by decide
  have h5 : ¬ (n = 0 ∨ n = 1 ∨ n = 2) := by omega
  simp [powBufAllocPanics, h1, h2, h3, h4, h5]

theorem powBuf_refused_3 (n : Nat) (hn : 2 ^ 64 - 64 ≤ n) : powBufAllocPanics 64 (.small 3) n = true := by
  have h1 : maxExpInWord 64 3 = (40, 12157665459056928801) := by decide +kernel
  have h2 : bufMaxCapacity 64 < n / 40 + 1 := by unfold bufMaxCapacity usizeBits; omega
  have h3 : ¬ n < 2 * 40 := by omega
  have h4 : isPow2 3 = false := by decide
  have h5 : ¬ (n = 0 ∨ n = 1 ∨ n = 2) := by omega
  simp [powBufAllocPanics, h1, h2, h3, h4, h5]

theorem pow_refused_10 (n : Nat) (hn : 2 ^ 64 - 64 ≤ n) :
    ubigPowGuarded 64 (.small 10) n = .error .allocTooMuch := by
  have h1 : TRepr.trailingZeros 64 (.small 10) = .ok (some 1) := rfl
  have h2 : (TRepr.small 10).shr 64 1 true = .small 5 := by decide
  simp [ubigPowGuarded, h1, h2, bind, Except.bind, TRepr.powBufG, powBuf_refused_5 n hn]

theorem pow_refused_3 (n : Nat) (hn : 2 ^ 64 - 64 ≤ n) :
    ubigPowGuarded 64 (.small 3) n = .error .allocTooMuch := by
  have h1 : TRepr.trailingZeros 64 (.small 3) = .ok (some 0) := rfl
  simp [ubigPowGuarded, h1, bind, Except.bind, TRepr.powBufG, powBuf_refused_3 n hn]

/-- the threshold is sharp for the numerator 1: below it (and past the double word) `1 << n` is not refused up front -/
theorem shl_one_not_refused (n : Nat) (h1 : 128 ≤ n) (h2 : n < 2 ^ 64 - 64) :
    (TRepr.small 1).shlChecked 64 n = .ok ((TRepr.small 1).shl 64 n) := by
  have hb : ¬ n ≤ 2 * 64 - bitLenNat 1 := by
    have : bitLenNat 1 = 1 := by decide
    omega
  have hc : ¬ (2 ^ usizeBits - 1) / 64 < n / 64 + 1 := by unfold usizeBits; omega
  simp [TRepr.shlChecked, shlAllocateWords, bufMaxCapacity, hb, hc]

end Dashu.Model.Conv
