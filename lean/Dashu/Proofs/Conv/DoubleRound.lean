import Dashu.Proofs.Conv.Ratio
/-
  C06 — rounding twice to nearest-even: `RNE_{k2}(RNE_{k1}(a))` equals `RNE_{k1+k2}(a)` except on an
  explicitly described set (the first rounding is inexact and lands exactly on a midpoint of the second
  grid, whose tie rule then goes to the wrong side).  This is the arithmetic behind the subnormal
  double rounding of `FBig::to_f32/to_f64`.
-/
namespace Dashu.Model.Conv

/-- `m` is the nearest integer to `A/D` with ties to even ⇒ `m = rneDiv A D` -/
theorem rneDiv_unique (A D m : Nat) (hD : 0 < D)
    (h1 : 2 * (m * D) ≤ 2 * A + D) (h2 : 2 * A ≤ 2 * (m * D) + D)
    (t1 : 2 * A = 2 * (m * D) + D → m % 2 = 0) (t2 : 2 * (m * D) = 2 * A + D → m % 2 = 0) :
    rneDiv A D = m := by
  have hdm := Nat.div_add_mod A D
  have hr := Nat.mod_lt A hD
  unfold rneDiv
  simp only
  generalize A / D = q at *
  generalize A % D = r at *
  obtain ⟨P, hP⟩ : ∃ P, P = D * q := ⟨_, rfl⟩
  rw [← hP] at hdm
  -- m is q or q + 1
  have hm : m = q ∨ m = q + 1 := by
    have hlo : q ≤ m := by
      by_contra hc
      have : m + 1 ≤ q := by omega
      have : (m + 1) * D ≤ q * D := Nat.mul_le_mul_right _ this
      have e : (m + 1) * D = m * D + D := by ring
      have e2 : q * D = P := by rw [hP]; ring
      omega
    have hhi : m ≤ q + 1 := by
      by_contra hc
      have : q + 2 ≤ m := by omega
      have : (q + 2) * D ≤ m * D := Nat.mul_le_mul_right _ this
      have e : (q + 2) * D = P + 2 * D := by rw [hP]; ring
      omega
    omega
  rcases hm with rfl | rfl
  · have e : m * D = P := by rw [hP]; ring
    rw [e] at h1 h2 t1 t2
    split_ifs <;> first | rfl | (exfalso; omega) | omega
  · have e : (q + 1) * D = P + D := by rw [hP]; ring
    rw [e] at h1 h2 t1 t2
    split_ifs <;> first | rfl | (exfalso; omega) | omega

/-- the failing set of a double rounding to nearest-even (`k1` bits first, then `k2` more) -/
def DoubleRoundBad (a k1 k2 : Nat) : Prop :=
  let n1 := rneDiv a (2 ^ k1)
  n1 % 2 ^ k2 = 2 ^ (k2 - 1) ∧
    ((a < n1 * 2 ^ k1 ∧ (n1 / 2 ^ k2) % 2 = 1) ∨ (n1 * 2 ^ k1 < a ∧ (n1 / 2 ^ k2) % 2 = 0))

instance (a k1 k2 : Nat) : Decidable (DoubleRoundBad a k1 k2) := by
  unfold DoubleRoundBad; infer_instance

/-- **double rounding lemma** -/
theorem double_rne (a k1 k2 : Nat) (hk2 : 1 ≤ k2) :
    rneDiv (rneDiv a (2 ^ k1)) (2 ^ k2) = rneDiv a (2 ^ (k1 + k2)) ↔ ¬ DoubleRoundBad a k1 k2 := by
  unfold DoubleRoundBad
  simp only
  obtain ⟨H2, hH2, hD2e, hH2e⟩ : ∃ H2, 0 < H2 ∧ 2 ^ k2 = 2 * H2 ∧ 2 ^ (k2 - 1) = H2 := by
    refine ⟨2 ^ (k2 - 1), Nat.two_pow_pos _, ?_, rfl⟩
    conv_lhs => rw [show k2 = (k2 - 1) + 1 by omega, pow_succ]
    ring
  have hDD : 2 ^ (k1 + k2) = 2 ^ k1 * (2 * H2) := by rw [pow_add, hD2e]
  rw [hDD, hD2e, hH2e]
  have hD1 : 0 < 2 ^ k1 := Nat.two_pow_pos _
  have hD2 : 0 < 2 * H2 := by omega
  have hf := rneDiv_half a (2 ^ k1) hD1
  generalize hn1 : rneDiv a (2 ^ k1) = n1 at *
  generalize 2 ^ k1 = D1 at *
  have hdm := Nat.div_add_mod n1 (2 * H2)
  have hr := Nat.mod_lt n1 hD2
  generalize hq2 : n1 / (2 * H2) = q2 at *
  generalize hr2 : n1 % (2 * H2) = r2 at *
  -- atoms
  obtain ⟨X, hX⟩ : ∃ X, X = q2 * (D1 * (2 * H2)) := ⟨_, rfl⟩
  obtain ⟨Y, hY⟩ : ∃ Y, Y = r2 * D1 := ⟨_, rfl⟩
  obtain ⟨M, hM⟩ : ∃ M, M = H2 * D1 := ⟨_, rfl⟩
  have hP1 : n1 * D1 = X + Y := by rw [← hdm, hX, hY]; ring
  have hDM : D1 * (2 * H2) = 2 * M := by rw [hM]; ring
  have hq1D : (q2 + 1) * (D1 * (2 * H2)) = X + 2 * M := by rw [hX, hM]; ring
  rw [hP1] at hf ⊢
  have hMpos : 0 < M := by rw [hM]; exact Nat.mul_pos (by omega) hD1
  have hMD1 : D1 ≤ M := by rw [hM]; exact Nat.le_mul_of_pos_left _ (by omega)
  -- the second rounding
  have hn2 : rneDiv n1 (2 * H2) =
      if r2 < H2 then q2 else if H2 < r2 then q2 + 1 else if q2 % 2 = 0 then q2 else q2 + 1 := by
    unfold rneDiv
    simp only [hq2, hr2]
    split_ifs <;> first | rfl | (exfalso; omega)
  rw [hn2]
  by_cases hlt : r2 < H2
  · -- below the midpoint of the second grid: both roundings go down to q2
    have hY1 : Y + D1 ≤ M := by
      have : (r2 + 1) * D1 ≤ H2 * D1 := Nat.mul_le_mul_right _ hlt
      rw [hY, hM]; nlinarith
    rw [if_pos hlt]
    have hu := rneDiv_unique a (D1 * (2 * H2)) q2 (Nat.mul_pos hD1 hD2)
      (by rw [← hX, hDM]; omega) (by rw [← hX, hDM]; omega)
      (by rw [← hX, hDM]; intro h; omega) (by rw [← hX, hDM]; intro h; omega)
    rw [hu]
    simp only [true_iff]
    intro hb
    omega
  · by_cases hgt : H2 < r2
    · have hY1 : M + D1 ≤ Y := by
        have : (H2 + 1) * D1 ≤ r2 * D1 := Nat.mul_le_mul_right _ hgt
        rw [hY, hM]; nlinarith
      have hY2 : Y < 2 * M := by
        have : r2 * D1 < (2 * H2) * D1 := Nat.mul_lt_mul_of_pos_right hr hD1
        rw [hY, hM]; nlinarith
      rw [if_neg hlt, if_pos hgt]
      have hu := rneDiv_unique a (D1 * (2 * H2)) (q2 + 1) (Nat.mul_pos hD1 hD2)
        (by rw [hq1D, hDM]; omega) (by rw [hq1D, hDM]; omega)
        (by rw [hq1D, hDM]; intro h; omega) (by rw [hq1D, hDM]; intro h; omega)
      rw [hu]
      simp only [true_iff]
      intro hb
      omega
    · -- exactly on the midpoint of the second grid
      have hr2e : r2 = H2 := by omega
      have hYM : Y = M := by rw [hY, hM, hr2e]
      rw [if_neg hlt, if_neg hgt]
      rw [hr2e]
      simp only [true_and]
      rw [hYM] at hf ⊢
      by_cases hpar : q2 % 2 = 0
      · rw [if_pos hpar]
        by_cases hup : X + M < a
        · -- the exact value is above the midpoint: must go up, the tie rule goes down
          have hu := rneDiv_unique a (D1 * (2 * H2)) (q2 + 1) (Nat.mul_pos hD1 hD2)
            (by rw [hq1D, hDM]; omega) (by rw [hq1D, hDM]; omega)
            (by rw [hq1D, hDM]; intro h; omega) (by rw [hq1D, hDM]; intro h; omega)
          rw [hu]
          constructor
          · intro h; omega
          · intro h; exfalso; apply h; right; exact ⟨hup, hpar⟩
        · have hu := rneDiv_unique a (D1 * (2 * H2)) q2 (Nat.mul_pos hD1 hD2)
            (by rw [← hX, hDM]; omega) (by rw [← hX, hDM]; omega)
            (by rw [← hX, hDM]; intro h; exact hpar) (by rw [← hX, hDM]; intro h; omega)
          rw [hu]
          simp only [true_iff]
          intro hb
          rcases hb with ⟨_, h⟩ | ⟨h, _⟩ <;> omega
      · rw [if_neg hpar]
        have hodd : q2 % 2 = 1 := by omega
        by_cases hdn : a < X + M
        · have hu := rneDiv_unique a (D1 * (2 * H2)) q2 (Nat.mul_pos hD1 hD2)
            (by rw [← hX, hDM]; omega) (by rw [← hX, hDM]; omega)
            (by rw [← hX, hDM]; intro h; omega) (by rw [← hX, hDM]; intro h; omega)
          rw [hu]
          constructor
          · intro h; omega
          · intro h; exfalso; apply h; left; exact ⟨hdn, hodd⟩
        · have hu := rneDiv_unique a (D1 * (2 * H2)) (q2 + 1) (Nat.mul_pos hD1 hD2)
            (by rw [hq1D, hDM]; omega) (by rw [hq1D, hDM]; omega)
            (by rw [hq1D, hDM]; intro h; omega) (by rw [hq1D, hDM]; intro h; omega)
          rw [hu]
          simp only [true_iff]
          intro hb
          rcases hb with ⟨h, _⟩ | ⟨_, h⟩ <;> omega

end Dashu.Model.Conv
