import Dashu.Proofs.Conv.Encode
import Dashu.Model.Conv.Prim
/-
  C06 — integers to floats: the sticky-bit lemma (keeping at least two bits below the precision and
  OR-ing "something non-zero was shifted out" into the lowest bit does not change the rounding nor
  the error sign) and correctness of `to_f32/to_f64` of big integers given `encode_correct`.
-/
namespace Dashu.Model.Conv

theorem or_bit (y st : Nat) (hst : st < 2) : y ||| st = 2 * (y / 2) + ((y % 2) ||| st) := by
  have hy : y = (y / 2) <<< 1 + y % 2 := by rw [Nat.shiftLeft_eq]; omega
  have hb : y % 2 < 2 ^ 1 := Nat.mod_lt _ (by decide)
  have h1 : (y / 2) <<< 1 + y % 2 = (y / 2) <<< 1 ||| y % 2 := Nat.shiftLeft_add_eq_or_of_lt hb _
  have hb2 : (y % 2) ||| st < 2 ^ 1 := Nat.or_lt_two_pow hb (by simpa using hst)
  have h2 : (y / 2) <<< 1 + ((y % 2) ||| st) = (y / 2) <<< 1 ||| ((y % 2) ||| st) :=
    Nat.shiftLeft_add_eq_or_of_lt hb2 _
  calc y ||| st = ((y / 2) <<< 1 ||| y % 2) ||| st := by rw [← h1, ← hy]
    _ = (y / 2) <<< 1 ||| ((y % 2) ||| st) := Nat.or_assoc _ _ _
    _ = (y / 2) <<< 1 + ((y % 2) ||| st) := h2.symm
    _ = 2 * (y / 2) + ((y % 2) ||| st) := by rw [Nat.shiftLeft_eq]; omega

theorem or_bit_lt (b st : Nat) (hb : b < 2) (hst : st < 2) : (b ||| st) < 2 ∧ (st = 1 → (b ||| st) = 1) ∧
    (st = 0 → (b ||| st) = b) := by
  have : ∀ b < 2, ∀ s < 2, (b ||| s) < 2 ∧ (s = 1 → (b ||| s) = 1) ∧ (s = 0 → (b ||| s) = b) := by decide
  exact this b hb st hst

/-- **sticky-bit lemma** on the rounding kernel: `k ≥ s + 2` bits are discarded in total, the low `s`
    of them are replaced by one sticky bit -/
theorem sticky_core (x s k : Nat) (_hs : 1 ≤ s) (hk : s + 2 ≤ k) (y' : Nat)
    (hy'def : y' = (x / 2 ^ s) ||| (if x % 2 ^ s ≠ 0 then 1 else 0)) :
    (rneDiv y' (2 ^ (k - s)), flagOf (rneDiv y' (2 ^ (k - s))) (2 ^ (k - s)) y') =
      (rneDiv x (2 ^ k), flagOf (rneDiv x (2 ^ k)) (2 ^ k) x) := by
  obtain ⟨j, hj⟩ : ∃ j, k = s + (j + 2) := ⟨k - s - 2, by omega⟩
  subst hj
  have hks : s + (j + 2) - s = j + 2 := by omega
  rw [hks, rneDiv_pow y' (j + 2) (by omega), rneDiv_pow x (s + (j + 2)) (by omega)]
  have e1 : j + 2 - 1 = j + 1 := by omega
  have e2 : s + (j + 2) - 1 = s + (j + 1) := by omega
  rw [e1, e2]
  generalize hstdef : (if x % 2 ^ s ≠ 0 then 1 else 0) = st at hy'def
  have hst2 : st < 2 := by rw [← hstdef]; split <;> decide
  generalize hy : x / 2 ^ s = y at hy'def
  have hy' : y' = 2 * (y / 2) + ((y % 2) ||| st) := by rw [hy'def]; exact or_bit y st hst2
  obtain ⟨hb2, hb1, hb0⟩ := or_bit_lt (y % 2) st (Nat.mod_lt _ (by decide)) hst2
  -- everything above bit 0 is untouched
  have hhalf : y' / 2 = y / 2 := by rw [hy']; omega
  have hdiv : ∀ i, y' / 2 ^ (i + 1) = y / 2 ^ (i + 1) := by
    intro i
    rw [pow_succ, Nat.mul_comm, ← Nat.div_div_eq_div_mul, ← Nat.div_div_eq_div_mul, hhalf]
  have hx : ∀ i, y / 2 ^ i = x / 2 ^ (s + i) := by
    intro i; rw [← hy, Nat.div_div_eq_div_mul, pow_add]
  have hkept : y' / 2 ^ (j + 2) = x / 2 ^ (s + (j + 2)) := by rw [hdiv (j + 1), hx]
  have hrb : y' / 2 ^ (j + 1) % 2 = x / 2 ^ (s + (j + 1)) % 2 := by rw [hdiv j, hx]
  -- sticky
  have hxm : x % 2 ^ (s + (j + 1)) = x % 2 ^ s + 2 ^ s * (y % 2 ^ (j + 1)) := by
    rw [pow_add, Nat.mod_mul, hy]
  have hpos : 0 < 2 ^ s := Nat.two_pow_pos s
  have hsticky : (y' % 2 ^ (j + 1) = 0) ↔ (x % 2 ^ (s + (j + 1)) = 0) := by
    rw [hxm]
    have hpj : 2 ^ (j + 1) = 2 * 2 ^ j := by rw [pow_succ]; ring
    by_cases hst0 : st = 0
    · -- nothing was shifted out: y' = y
      have hx0 : x % 2 ^ s = 0 := by
        by_contra hne
        rw [if_pos hne] at hstdef; omega
      have : y' = y := by rw [hy', hb0 hst0]; omega
      rw [this, hx0, Nat.zero_add]
      constructor
      · intro h; rw [h]; simp
      · intro h
        rcases Nat.mul_eq_zero.mp h with h | h
        · omega
        · exact h
    · have hst1 : st = 1 := by omega
      have hx1 : x % 2 ^ s ≠ 0 := by
        intro h0
        have : ¬ (x % 2 ^ s ≠ 0) := by simp [h0]
        rw [if_neg this] at hstdef; omega
      have hodd : y' % 2 = 1 := by rw [hy', hb1 hst1]; omega
      constructor
      · intro h
        exfalso
        have : y' % 2 ^ (j + 1) % 2 = y' % 2 := by
          rw [hpj]; exact Nat.mod_mul_right_mod _ _ _
        omega
      · intro h; omega
  rw [hkept, hrb]
  by_cases hz : x % 2 ^ (s + (j + 1)) = 0
  · rw [if_pos hz, if_pos (hsticky.mpr hz)]
  · rw [if_neg hz, if_neg (fun h => hz (hsticky.mp h))]

theorem bitLen_eq_of {a n : Nat} (h1 : 2 ^ n ≤ a) (h2 : a < 2 ^ (n + 1)) : bitLen a = n + 1 := by
  have ha : a ≠ 0 := by have := Nat.two_pow_pos n; omega
  unfold bitLen
  simp only [ha, if_false]
  have hl : Nat.log2 a < n + 1 := (Nat.log2_lt ha).mpr h2
  have hg : ¬ (Nat.log2 a < n) := by
    intro h
    have := (Nat.log2_lt ha).mp h
    omega
  omega

/-- bit length of the sticky-compressed value -/
theorem bitLen_sticky (x s : Nat) (hx : x ≠ 0) (hs : s + 2 ≤ bitLen x) :
    bitLen ((x / 2 ^ s) ||| (if x % 2 ^ s ≠ 0 then 1 else 0)) = bitLen x - s := by
  obtain ⟨n, hn⟩ : ∃ n, bitLen x = s + (n + 2) := ⟨bitLen x - s - 2, by omega⟩
  have hge := bitLen_le hx
  have hlt := @bitLen_lt x
  rw [hn] at hge hlt ⊢
  have h1 : 2 ^ (n + 1) ≤ x / 2 ^ s := by
    rw [Nat.le_div_iff_mul_le (Nat.two_pow_pos s), ← pow_add]
    have : n + 1 + s = s + (n + 2) - 1 := by omega
    rw [this]; exact hge
  have h2 : x / 2 ^ s < 2 ^ (n + 2) := by
    rw [Nat.div_lt_iff_lt_mul (Nat.two_pow_pos s), ← pow_add]
    have : n + 2 + s = s + (n + 2) := by omega
    rw [this]; exact hlt
  have hst : (if x % 2 ^ s ≠ 0 then 1 else 0) < 2 ^ (n + 2) := by
    have : 2 ≤ 2 ^ (n + 2) := by
      calc 2 = 2 ^ 1 := rfl
        _ ≤ 2 ^ (n + 2) := pow_le_pow2 (by omega)
    split <;> omega
  have hlt' := Nat.or_lt_two_pow h2 hst
  have hle' : x / 2 ^ s ≤ (x / 2 ^ s) ||| (if x % 2 ^ s ≠ 0 then 1 else 0) := Nat.left_le_or
  have := bitLen_eq_of (le_trans h1 hle') hlt'
  omega

/-- **sticky-bit lemma** for the specification: a value with at least two bits below the precision
    may be compressed to (top bits | sticky) without changing the rounded result or the error sign -/
theorem sticky_round (F : Ieee) (hF : F.Ok) (x s : Nat) (e : Int) (hx : x ≠ 0) (hs : 1 ≤ s)
    (hlen : F.prec + 2 + s ≤ bitLen x) :
    ieeeRoundMag F ((x / 2 ^ s) ||| (if x % 2 ^ s ≠ 0 then 1 else 0)) (e + s) = ieeeRoundMag F x e := by
  have hB := F.B_ge hF
  have hbl := bitLen_sticky x s hx (by omega)
  generalize hy'def : (x / 2 ^ s) ||| (if x % 2 ^ s ≠ 0 then 1 else 0) = y' at hbl
  have hy0 : y' ≠ 0 := by
    intro h0
    have hz : bitLen 0 = 0 := rfl
    rw [h0, hz] at hbl
    omega
  have hqm := F.qmin_eq
  have hem := F.emax_eq
  have hen := F.emin_eq
  have hprec : F.prec = F.MB + 1 := rfl
  have htop : (bitLen y' : Int) + (e + s) = (bitLen x : Int) + e := by rw [hbl]; omega
  by_cases hov : F.emax + 1 < (bitLen x : Int) + e
  · rw [spec_over F hF x e hx hov, spec_over F hF y' (e + s) hy0 (by rw [htop]; exact hov)]
  by_cases hsub : (bitLen x : Int) + e ≤ F.emin + 1
  · -- quantum fixed at qmin on both sides
    obtain ⟨k, hk⟩ : ∃ k : Nat, e + k = F.qmin := ⟨(F.qmin - e).toNat, by omega⟩
    have hk2 : s + 2 ≤ k := by omega
    rw [spec_sub_round F hF x k e hk (by omega) (by omega),
      spec_sub_round F hF y' (k - s) (e + s) (by omega) (by omega) (by omega)]
    exact sticky_core x s k hs hk2 y' hy'def.symm
  · obtain ⟨w, hw⟩ : ∃ w : Nat, (bitLen x : Int) + e = F.qmin + F.prec + w :=
      ⟨((bitLen x : Int) + e - F.qmin - F.prec).toNat, by omega⟩
    obtain ⟨k, hk⟩ : ∃ k, bitLen x = F.prec + k := ⟨bitLen x - F.prec, by omega⟩
    have hk2 : s + 2 ≤ k := by omega
    rw [spec_norm_round F hF x k w e hk (by omega) hw (by omega),
      spec_norm_round F hF y' (k - s) w (e + s) (by omega) (by omega) (by rw [htop]; exact hw) (by omega)]
    have := sticky_core x s k hs hk2 y' hy'def.symm
    have h1 := congrArg Prod.fst this
    have h2 := congrArg Prod.snd this
    simp only at h1 h2
    rw [h2, h1]

theorem ieeeRound_nonneg (F : Ieee) (x : Nat) (e : Int) (hx : x ≠ 0) :
    ieeeRound F (x : Int) e = ieeeRoundMag F x e := by
  unfold ieeeRound
  have hn : ¬ ((x : Int) < 0) := by omega
  simp [hx, hn, Flag.flipIf]

/-- `to_f64_nontrivial` / `to_f32_nontrivial` with a correct `encode`: the IEEE rounding of the integer -/
theorem toFloatNontrivial_correct (c : EncConsts) (F : Ieee) (hc : Compatible c F) (limit topBits : Nat) (x : Nat)
    (hlimit : (limit : Int) = F.emax + 1) (htb : topBits + 1 = c.N) (hprec : F.prec + 2 ≤ topBits)
    (hx : topBits < bitLen x) :
    toFloatNontrivial (encodeFixed c) c.inf limit topBits x = .ok (ieeeRound F (x : Int) 0) := by
  have hF := hc.ok
  have hx0 : x ≠ 0 := by
    intro h; subst h
    have hz : bitLen 0 = 0 := rfl
    rw [hz] at hx; omega
  unfold toFloatNontrivial
  simp only
  rw [ieeeRound_nonneg F x 0 hx0]
  by_cases hbig : bitLen x > limit
  · simp only [hbig, if_true]
    rw [spec_over F hF x 0 hx0 (by omega), hc.inf]
  · simp only [hbig, if_false]
    obtain ⟨s, hs⟩ : ∃ s, bitLen x = topBits + s := ⟨bitLen x - topBits, by omega⟩
    have hs1 : 1 ≤ s := by omega
    have hsub : bitLen x - topBits = s := by omega
    rw [hsub, Nat.shiftRight_eq_div_pow]
    have hbl := bitLen_sticky x s hx0 (by omega)
    generalize hmdef : (x / 2 ^ s) ||| (if x % 2 ^ s ≠ 0 then 1 else 0) = m at hbl
    have hm0 : m ≠ 0 := by
      intro h0
      have hz : bitLen 0 = 0 := rfl
      rw [h0, hz] at hbl; omega
    have hmlt : m < 2 ^ topBits := by
      have h := @bitLen_lt m
      rw [hbl, show bitLen x - s = topBits by omega] at h
      exact h
    have hfit : (m : Int).natAbs ≤ 2 ^ (c.N - 1) := by
      have : c.N - 1 = topBits := by omega
      rw [this]; simp; omega
    rw [encodeFixed_correct c F hc (m : Int) (s : Int) hfit, ieeeRound_nonneg F m s hm0]
    have := sticky_round F hF x s 0 hx0 hs1 (by omega)
    rw [hmdef] at this
    simp only [Int.zero_add] at this
    rw [this]

end Dashu.Model.Conv
