import Dashu.Proofs.Conv.Misc
/-
  C06 — `RBig::to_f32 / to_f64` (current tree: guard bits + sticky, one rounding in `encode`) compute
  the IEEE rounding of the rational number, for every numerator and denominator.
-/
namespace Dashu.Model.Conv
open Dashu.Model

/-! ### the rounding kernel is a function of the quotient -/

theorem rneDiv_scale (c x y : Nat) (hc : 0 < c) : rneDiv (c * x) (c * y) = rneDiv x y := by
  unfold rneDiv
  simp only [Nat.mul_div_mul_left _ _ hc, Nat.mul_mod_mul_left]
  generalize x / y = q
  generalize x % y = r
  have h1 : 2 * (c * r) < c * y ↔ 2 * r < y := by
    constructor <;> intro h <;> nlinarith
  have h2 : c * y < 2 * (c * r) ↔ y < 2 * r := by
    constructor <;> intro h <;> nlinarith
  simp only [h1, h2]

theorem flagOf_scale (c n x y : Nat) (hc : 0 < c) : flagOf n (c * y) (c * x) = flagOf n y x := by
  unfold flagOf
  have h1 : n * (c * y) = c * x ↔ n * y = x := by
    constructor
    · intro h
      have : c * (n * y) = c * x := by rw [← h]; ring
      exact Nat.eq_of_mul_eq_mul_left hc this
    · intro h; rw [← h]; ring
  have h2 : c * x < n * (c * y) ↔ x < n * y := by
    constructor <;> intro h <;> nlinarith
  simp only [h1, h2]

/-- `(a·2^i, b·2^j)` and `(a·2^i', b·2^j')` with `i - j = i' - j'` round alike -/
theorem round_pow_pair (a b i j i' j' : Nat) (h : i + j' = i' + j) :
    rneDiv (a * 2 ^ i) (b * 2 ^ j) = rneDiv (a * 2 ^ i') (b * 2 ^ j') ∧
    ∀ n, flagOf n (b * 2 ^ j) (a * 2 ^ i) = flagOf n (b * 2 ^ j') (a * 2 ^ i') := by
  rcases Nat.le_total i i' with hle | hle
  · obtain ⟨δ, rfl⟩ : ∃ δ, i' = i + δ := ⟨i' - i, by omega⟩
    have hj : j' = j + δ := by omega
    subst hj
    have e1 : a * 2 ^ (i + δ) = 2 ^ δ * (a * 2 ^ i) := by rw [pow_add]; ring
    have e2 : b * 2 ^ (j + δ) = 2 ^ δ * (b * 2 ^ j) := by rw [pow_add]; ring
    rw [e1, e2]
    exact ⟨(rneDiv_scale _ _ _ (Nat.two_pow_pos δ)).symm, fun n => (flagOf_scale _ n _ _ (Nat.two_pow_pos δ)).symm⟩
  · obtain ⟨δ, rfl⟩ : ∃ δ, i = i' + δ := ⟨i - i', by omega⟩
    have hj : j = j' + δ := by omega
    subst hj
    have e1 : a * 2 ^ (i' + δ) = 2 ^ δ * (a * 2 ^ i') := by rw [pow_add]; ring
    have e2 : b * 2 ^ (j' + δ) = 2 ^ δ * (b * 2 ^ j') := by rw [pow_add]; ring
    rw [e1, e2]
    exact ⟨rneDiv_scale _ _ _ (Nat.two_pow_pos δ), fun n => flagOf_scale _ n _ _ (Nat.two_pow_pos δ)⟩

/-- **sticky lemma for quotients**: rounding `N / (D·2^k)` (`k ≥ 2`) equals rounding
    `(⌊N/D⌋ | [N mod D ≠ 0]) / 2^k`, with the same error sign -/
theorem rat_sticky_core (N D k : Nat) (hD : 0 < D) (hk : 2 ≤ k) (m : Nat)
    (hm : m = (N / D) ||| (if N % D ≠ 0 then 1 else 0)) :
    (rneDiv m (2 ^ k), flagOf (rneDiv m (2 ^ k)) (2 ^ k) m) =
      (rneDiv N (D * 2 ^ k), flagOf (rneDiv N (D * 2 ^ k)) (D * 2 ^ k) N) := by
  obtain ⟨j, rfl⟩ : ∃ j, k = j + 2 := ⟨k - 2, by omega⟩
  rw [rneDiv_pow m (j + 2) (by omega)]
  have e1 : j + 2 - 1 = j + 1 := by omega
  rw [e1]
  generalize hQ : N / D = Q at hm
  generalize hR : N % D = R at hm
  have hND : N = D * Q + R := by rw [← hQ, ← hR]; exact (Nat.div_add_mod N D).symm
  have hRlt : R < D := by rw [← hR]; exact Nat.mod_lt _ hD
  generalize hstdef : (if R ≠ 0 then 1 else 0) = st at hm
  have hst2 : st < 2 := by rw [← hstdef]; split <;> decide
  have hm' : m = 2 * (Q / 2) + ((Q % 2) ||| st) := by rw [hm]; exact or_bit Q st hst2
  obtain ⟨hb2, hb1, hb0⟩ := or_bit_lt (Q % 2) st (Nat.mod_lt _ (by decide)) hst2
  have hhalf : m / 2 = Q / 2 := by rw [hm']; omega
  have hdiv : ∀ i, m / 2 ^ (i + 1) = Q / 2 ^ (i + 1) := by
    intro i
    rw [pow_succ, Nat.mul_comm, ← Nat.div_div_eq_div_mul, ← Nat.div_div_eq_div_mul, hhalf]
  -- the right-hand side through `rne_core` with H = D·2^(j+1)
  have hsplit := split_at Q (j + 2) (by omega)
  rw [e1] at hsplit
  generalize hK : Q / 2 ^ (j + 2) = K at *
  generalize hrb : Q / 2 ^ (j + 1) % 2 = rb at *
  generalize hlo : Q % 2 ^ (j + 1) = lo at *
  have hrb2 : rb < 2 := by rw [← hrb]; exact Nat.mod_lt _ (by decide)
  have hlolt : lo < 2 ^ (j + 1) := by rw [← hlo]; exact Nat.mod_lt _ (Nat.two_pow_pos _)
  have hp : 2 ^ (j + 2) = 2 * 2 ^ (j + 1) := by rw [pow_succ]; ring
  have hH : 0 < D * 2 ^ (j + 1) := Nat.mul_pos hD (Nat.two_pow_pos _)
  have hlow : D * lo + R < D * 2 ^ (j + 1) := by
    have : D * lo + D ≤ D * 2 ^ (j + 1) := by
      have : lo + 1 ≤ 2 ^ (j + 1) := hlolt
      calc D * lo + D = D * (lo + 1) := by ring
        _ ≤ D * 2 ^ (j + 1) := Nat.mul_le_mul_left _ this
    omega
  have hy : N = 2 * (D * 2 ^ (j + 1)) * K + (D * 2 ^ (j + 1)) * rb + (D * lo + R) := by
    rw [hND, hsplit, hp]; ring
  have hcore := rne_core N (D * 2 ^ (j + 1)) K rb (D * lo + R) hH hrb2 hlow hy
  have h2H : 2 * (D * 2 ^ (j + 1)) = D * 2 ^ (j + 2) := by rw [hp]; ring
  rw [h2H] at hcore
  rw [hcore, hdiv (j + 1), hK, hdiv j, hrb]
  -- sticky bits agree
  have hsticky : (m % 2 ^ (j + 1) = 0) ↔ (D * lo + R = 0) := by
    have hpj : 2 ^ (j + 1) = 2 * 2 ^ j := by rw [pow_succ]; ring
    by_cases hst0 : st = 0
    · have hR0 : R = 0 := by
        by_contra hne
        rw [if_pos hne] at hstdef; omega
      have : m = Q := by rw [hm', hb0 hst0]; omega
      rw [this, hlo, hR0, Nat.add_zero]
      constructor
      · intro h; rw [h]; simp
      · intro h
        rcases Nat.mul_eq_zero.mp h with h | h
        · omega
        · exact h
    · have hst1 : st = 1 := by omega
      have hR1 : R ≠ 0 := by
        intro h0
        have : ¬ (R ≠ 0) := by simp [h0]
        rw [if_neg this] at hstdef; omega
      have hodd : m % 2 = 1 := by rw [hm', hb1 hst1]; omega
      constructor
      · intro h
        exfalso
        have : m % 2 ^ (j + 1) % 2 = m % 2 := by
          rw [hpj]; exact Nat.mod_mul_right_mod _ _ _
        omega
      · intro h; omega
  by_cases hz : D * lo + R = 0
  · rw [if_pos hz, if_pos (hsticky.mpr hz)]
  · rw [if_neg hz, if_neg (fun h => hz (hsticky.mp h))]

end Dashu.Model.Conv

namespace Dashu.Model.Conv
open Dashu.Model

theorem roundMagMode_halfEven (neg : Bool) (num den : Nat) (hd : 0 < den) :
    (roundMagMode .halfEven neg num den).1 = rneDiv num den := by
  unfold roundMagMode rneDiv
  simp only
  have hr := Nat.mod_lt num hd
  generalize num / den = q at *
  generalize num % den = r at *
  by_cases h0 : r = 0
  · subst h0; simp [hd]
  · simp only [h0, if_false]
    by_cases h1 : 2 * r < den
    · have : ¬ (den < 2 * r) := by omega
      have h2 : ¬ (2 * r = den) := by omega
      simp [h1, this, h2]
    · by_cases h2 : den < 2 * r
      · simp [h1, h2]
      · have h3 : 2 * r = den := by omega
        by_cases h4 : q % 2 = 0
        · have : ¬ (q % 2 = 1) := by omega
          simp [h1, h2, h3, h4]
        · have : q % 2 = 1 := by omega
          simp [h1, h2, h3, h4, this]

theorem bitLen_or_bit (Q st : Nat) (hst : st < 2) (hQ : 2 ≤ Q) : bitLen (Q ||| st) = bitLen Q := by
  have hQ0 : Q ≠ 0 := by omega
  have h1 := bitLen_le hQ0
  have h2 := @bitLen_lt Q
  obtain ⟨n, hn⟩ : ∃ n, bitLen Q = n + 2 := by
    have : 2 ≤ bitLen Q := by
      have := lt_bitLen_of_le (show 2 ^ 1 ≤ Q from hQ)
      omega
    exact ⟨bitLen Q - 2, by omega⟩
  rw [hn] at h1 h2 ⊢
  have hstlt : st < 2 ^ (n + 2) := by
    have : 2 ≤ 2 ^ (n + 2) := by
      calc 2 = 2 ^ 1 := rfl
        _ ≤ 2 ^ (n + 2) := pow_le_pow2 (by omega)
    omega
  have hlt := Nat.or_lt_two_pow h2 hstlt
  have hle : Q ≤ Q ||| st := Nat.left_le_or
  have : n + 2 - 1 = n + 1 := by omega
  rw [this] at h1
  exact bitLen_eq_of (le_trans h1 hle) hlt

/-- the main path of the repaired `Repr::to_f32/to_f64`, on magnitudes: `N/D = (a/b)·2^(i-j)`
    with a quotient of at least `prec + 2` bits -/
theorem rat_main (F : Ieee) (neg : Bool) (a b i j : Nat) (hb : 0 < b) (L : Nat)
    (hL : F.prec + 2 ≤ L) (hlo : 2 ^ (L - 1) * (b * 2 ^ j) ≤ a * 2 ^ i) (hhi : a * 2 ^ i < 2 ^ L * (b * 2 ^ j))
    (htop : ratTop a b = (L : Int) + j - i) (m : Nat)
    (hm : m = (a * 2 ^ i / (b * 2 ^ j)) ||| (if a * 2 ^ i % (b * 2 ^ j) ≠ 0 then 1 else 0)) :
    ieeeRoundMag F m ((j : Int) - i) = ieeeRoundRatMag F .halfEven neg a b := by
  have hD : 0 < b * 2 ^ j := Nat.mul_pos hb (Nat.two_pow_pos j)
  generalize hN : a * 2 ^ i = N at *
  generalize hDd : b * 2 ^ j = D at *
  -- the quotient has exactly L bits
  have hQlo : 2 ^ (L - 1) ≤ N / D := (Nat.le_div_iff_mul_le hD).mpr hlo
  have hQhi : N / D < 2 ^ L := (Nat.div_lt_iff_lt_mul hD).mpr hhi
  have hprec : F.prec = F.MB + 1 := rfl
  have hQ2 : 2 ≤ N / D := by
    have : 2 ^ 1 ≤ 2 ^ (L - 1) := pow_le_pow2 (by omega)
    omega
  have hblQ : bitLen (N / D) = L := by
    have := bitLen_eq_of (n := L - 1) hQlo (by rw [show L - 1 + 1 = L by omega]; exact hQhi)
    omega
  have hst2 : (if N % D ≠ 0 then 1 else 0) < 2 := by split <;> decide
  have hblm : bitLen m = L := by rw [hm, bitLen_or_bit _ _ hst2 hQ2, hblQ]
  unfold ieeeRoundMag ieeeRoundRatMag roundMag
  simp only [hblm, htop]
  have hteq : (L : Int) + ((j : Int) - i) = (L : Int) + j - i := by ring
  rw [hteq]
  generalize hq : max ((L : Int) + j - i - F.prec) F.qmin = q
  -- at least two bits of m are discarded
  obtain ⟨k, hk⟩ : ∃ k : Nat, q = (j : Int) - i + k ∧ 2 ≤ k := ⟨(q - ((j : Int) - i)).toNat, by omega, by omega⟩
  obtain ⟨hqk, hk2⟩ := hk
  have hqs : ¬ (q ≤ (j : Int) - i) := by omega
  have hks : (q - ((j : Int) - i)).toNat = k := by omega
  simp only [hqs, if_false, hks]
  -- the rounded significand and the flag agree
  have hcore := rat_sticky_core N D k hD hk2 m hm
  have hpair := round_pow_pair a b i (j + k) (-q).toNat q.toNat (by omega)
  have hDk : b * 2 ^ (j + k) = D * 2 ^ k := by rw [← hDd, pow_add]; ring
  rw [hN, hDk] at hpair
  have hden : 0 < b * 2 ^ q.toNat := Nat.mul_pos hb (Nat.two_pow_pos _)
  rw [roundMagMode_halfEven neg _ _ hden, ← hpair.1, ← hpair.2]
  have h1 := congrArg Prod.fst hcore
  have h2 := congrArg Prod.snd hcore
  simp only at h1 h2
  rw [← h2, ← h1]

end Dashu.Model.Conv

namespace Dashu.Model.Conv
open Dashu.Model

theorem pow_bitLen_pred {a : Nat} (ha : a ≠ 0) : 2 ^ bitLen a = 2 * 2 ^ (bitLen a - 1) := by
  have := bitLen_pos ha
  conv_lhs => rw [show bitLen a = (bitLen a - 1) + 1 by omega, pow_succ]
  ring

/-- with `shift = bitLen a - bitLen b - (P + 2)` the scaled quotient has `P + 2` or `P + 3` bits, and
    the spec's binade (`ratTop`) is the one the quotient shows -/
theorem rat_shift_facts (a b P : Nat) (ha : a ≠ 0) (hb : b ≠ 0) (i j : Nat)
    (hij : (j : Int) - i = (bitLen a : Int) - bitLen b - (P + 2)) (hmin : i = 0 ∨ j = 0) :
    2 ^ (P + 1) * (b * 2 ^ j) ≤ a * 2 ^ i ∧ a * 2 ^ i < 2 ^ (P + 3) * (b * 2 ^ j) ∧
    ratTop a b = (if 2 ^ (P + 2) * (b * 2 ^ j) ≤ a * 2 ^ i then ((P + 3 : Nat) : Int) else (P + 2 : Nat)) + j - i := by
  have hal := bitLen_le ha
  have hah := @bitLen_lt a
  have hbl := bitLen_le hb
  have hbh := @bitLen_lt b
  have hap := pow_bitLen_pred ha
  have hbp := pow_bitLen_pred hb
  have hla := bitLen_pos ha
  have hlb := bitLen_pos hb
  rcases hmin with hi0 | hj0
  · -- shift ≥ 0
    subst hi0
    have hla' : bitLen a = bitLen b + (P + 2) + j := by omega
    simp only [pow_zero, Nat.mul_one]
    refine ⟨?_, ?_, ?_⟩
    · -- 2^(P+1) b 2^j < 2^(la-1) ≤ a
      have : 2 ^ (P + 1) * (b * 2 ^ j) < 2 ^ (bitLen a - 1) := by
        have e : 2 ^ (bitLen a - 1) = 2 ^ (P + 1) * (2 ^ bitLen b * 2 ^ j) := by
          rw [← pow_add, ← pow_add]; congr 1; omega
        rw [e]
        apply Nat.mul_lt_mul_of_pos_left _ (Nat.two_pow_pos _)
        exact Nat.mul_lt_mul_of_pos_right hbh (Nat.two_pow_pos _)
      omega
    · have e : 2 ^ bitLen a = 2 ^ (P + 3) * (2 ^ (bitLen b - 1) * 2 ^ j) := by
        rw [← pow_add, ← pow_add]; congr 1; omega
      calc a < 2 ^ bitLen a := hah
        _ = 2 ^ (P + 3) * (2 ^ (bitLen b - 1) * 2 ^ j) := e
        _ ≤ 2 ^ (P + 3) * (b * 2 ^ j) :=
          Nat.mul_le_mul_left _ (Nat.mul_le_mul_right _ hbl)
    · unfold ratTop
      have hd : (bitLen a : Int) - bitLen b = ((P + 2 + j : Nat) : Int) := by omega
      simp only [hd, Int.toNat_natCast]
      have hneg : (-((P + 2 + j : Nat) : Int)).toNat = 0 := by omega
      rw [hneg, pow_zero, Nat.mul_one]
      have e : b * 2 ^ (P + 2 + j) = 2 ^ (P + 2) * (b * 2 ^ j) := by rw [pow_add]; ring
      rw [e]
      split <;> push_cast <;> omega
  · -- shift < 0 (or = 0)
    subst hj0
    have hla' : bitLen a + i = bitLen b + (P + 2) := by omega
    simp only [pow_zero, Nat.mul_one]
    refine ⟨?_, ?_, ?_⟩
    · have h1 : 2 ^ (P + 1) * b < 2 ^ (P + 1) * 2 ^ bitLen b :=
        Nat.mul_lt_mul_of_pos_left hbh (Nat.two_pow_pos _)
      have e : 2 ^ (P + 1) * 2 ^ bitLen b = 2 ^ (bitLen a - 1) * 2 ^ i := by
        rw [← pow_add, ← pow_add]; congr 1; omega
      have h2 : 2 ^ (bitLen a - 1) * 2 ^ i ≤ a * 2 ^ i := Nat.mul_le_mul_right _ hal
      omega
    · have h1 : a * 2 ^ i < 2 ^ bitLen a * 2 ^ i := Nat.mul_lt_mul_of_pos_right hah (Nat.two_pow_pos _)
      have e : 2 ^ bitLen a * 2 ^ i = 2 ^ (P + 3) * 2 ^ (bitLen b - 1) := by
        rw [← pow_add, ← pow_add]; congr 1; omega
      have h2 : 2 ^ (P + 3) * 2 ^ (bitLen b - 1) ≤ 2 ^ (P + 3) * b := Nat.mul_le_mul_left _ hbl
      omega
    · unfold ratTop
      by_cases hd0 : i ≤ P + 2
      · have hd : (bitLen a : Int) - bitLen b = ((P + 2 - i : Nat) : Int) := by omega
        simp only [hd, Int.toNat_natCast]
        have hneg : (-((P + 2 - i : Nat) : Int)).toNat = 0 := by omega
        rw [hneg, pow_zero, Nat.mul_one]
        have hiff : (b * 2 ^ (P + 2 - i) ≤ a) ↔ (2 ^ (P + 2) * b ≤ a * 2 ^ i) := by
          have e : 2 ^ (P + 2) * b = (b * 2 ^ (P + 2 - i)) * 2 ^ i := by
            rw [Nat.mul_assoc, ← pow_add, show P + 2 - i + i = P + 2 by omega]; ring
          rw [e]
          exact (Nat.mul_le_mul_right_iff (Nat.two_pow_pos i)).symm
        by_cases hc : b * 2 ^ (P + 2 - i) ≤ a
        · rw [if_pos hc, if_pos (hiff.mp hc)]; push_cast; omega
        · rw [if_neg hc, if_neg (fun h => hc (hiff.mpr h))]; push_cast; omega
      · have hd : (bitLen a : Int) - bitLen b = -((i - (P + 2) : Nat) : Int) := by omega
        simp only [hd, neg_neg, Int.toNat_natCast]
        have hneg : (-((i - (P + 2) : Nat) : Int)).toNat = 0 := by omega
        rw [hneg, pow_zero, Nat.mul_one]
        have hiff : (b ≤ a * 2 ^ (i - (P + 2))) ↔ (2 ^ (P + 2) * b ≤ a * 2 ^ i) := by
          have e : a * 2 ^ i = 2 ^ (P + 2) * (a * 2 ^ (i - (P + 2))) := by
            rw [show i = (P + 2) + (i - (P + 2)) by omega, pow_add]
            have : P + 2 + (i - (P + 2)) - (P + 2) = i - (P + 2) := by omega
            rw [this]; ring
          rw [e]
          exact (Nat.mul_le_mul_left_iff (Nat.two_pow_pos _)).symm
        by_cases hc : b ≤ a * 2 ^ (i - (P + 2))
        · rw [if_pos hc, if_pos (hiff.mp hc)]; push_cast; omega
        · rw [if_neg hc, if_neg (fun h => hc (hiff.mpr h))]; push_cast; omega

end Dashu.Model.Conv

namespace Dashu.Model.Conv
open Dashu.Model

/-- relations between the constants of one `Repr::to_fNN` body, the `encode` it calls and the format -/
structure RatCompat (c : RatConsts) (ec : EncConsts) : Prop where
  enc : Compatible ec c.F
  prec : c.prec = c.F.prec
  /-- `shift >= infShift` is certain overflow -/
  inf : c.F.emax - c.F.prec ≤ c.infShift
  /-- `shift < zeroShift - 3` is certainly below half of the least subnormal -/
  zero : c.zeroShift ≤ c.F.qmin - c.F.prec
  /-- the quotient with its guard bits fits the signed mantissa type -/
  fit : c.F.prec + 3 ≤ ec.N - 1

theorem rat32_compat : RatCompat rat32 f32Fixed :=
  ⟨f32Fixed_compatible, by decide, by decide, by decide, by decide⟩
theorem rat64_compat : RatCompat rat64 f64Fixed :=
  ⟨f64Fixed_compatible, by decide, by decide, by decide, by decide⟩

theorem ieeeRound_signed (F : Ieee) (neg : Bool) (m : Nat) (e : Int) (hm : m ≠ 0) :
    ieeeRound F (if neg then -(m : Int) else m) e =
      ((if neg then F.signBit else 0) + (ieeeRoundMag F m e).1, (ieeeRoundMag F m e).2.flipIf neg) := by
  cases neg
  · simp only [Bool.false_eq_true, if_false]
    rw [ieeeRound_nonneg F m e hm]
    simp [Flag.flipIf]
  · simp only [if_true]
    rw [ieeeRound_neg F m e hm, ieeeRound_nonneg F m e hm]
    simp [signedApx]

/-- **`RBig::to_f32 / to_f64`** (current tree): for EVERY numerator and non-zero denominator the result is
    the IEEE round-to-nearest-even of the rational number with the true error sign. -/
theorem ratToFloatFixed_correct (c : RatConsts) (ec : EncConsts) (h : RatCompat c ec) (num : Int) (den : Nat)
    (hden : den ≠ 0) :
    ratToFloatFixed c (encodeFixed ec) num den = .ok (ieeeRoundRat c.F .halfEven num den) := by
  have hF := h.enc.ok
  unfold ratToFloatFixed ieeeRoundRat
  by_cases h0 : num = 0
  · simp [h0]
  simp only [h0, if_false]
  have ha : num.natAbs ≠ 0 := by omega
  generalize num.natAbs = a at *
  generalize hneg : decide (num < 0) = neg
  rw [h.prec]
  generalize hshift : (bitLen a : Int) - bitLen den - ((c.F.prec : Int) + 2) = shift
  -- the operands of the division as a·2^i and den·2^j
  obtain ⟨i, j, hij, hmin, hNi, hDj⟩ : ∃ i j : Nat, (j : Int) - i = shift ∧ (i = 0 ∨ j = 0) ∧
      (if shift ≥ 0 then a else a * 2 ^ (-shift).toNat) = a * 2 ^ i ∧
      (if shift ≥ 0 then den * 2 ^ shift.toNat else den) = den * 2 ^ j := by
    by_cases hs : shift ≥ 0
    · exact ⟨0, shift.toNat, by omega, Or.inl rfl, by simp [hs], by simp [hs]⟩
    · exact ⟨(-shift).toNat, 0, by omega, Or.inr rfl, by simp [hs], by simp [hs]⟩
  rw [hNi, hDj]
  obtain ⟨hα, hβ, htop⟩ := rat_shift_facts a den c.F.prec ha hden i j (by rw [hij, ← hshift]) hmin
  generalize hmdef : (a * 2 ^ i / (den * 2 ^ j)) ||| (if a * 2 ^ i % (den * 2 ^ j) ≠ 0 then 1 else 0) = m
  -- number of bits of the quotient: prec + 2 or prec + 3
  obtain ⟨L, hL1, hL2, hlo, hhi, htopL⟩ : ∃ L : Nat, c.F.prec + 2 ≤ L ∧ L ≤ c.F.prec + 3 ∧
      2 ^ (L - 1) * (den * 2 ^ j) ≤ a * 2 ^ i ∧ a * 2 ^ i < 2 ^ L * (den * 2 ^ j) ∧
      ratTop a den = (L : Int) + j - i := by
    by_cases hc : 2 ^ (c.F.prec + 2) * (den * 2 ^ j) ≤ a * 2 ^ i
    · rw [if_pos hc] at htop
      exact ⟨c.F.prec + 3, by omega, by omega, by simpa using hc, hβ, htop⟩
    · rw [if_neg hc] at htop
      exact ⟨c.F.prec + 2, by omega, by omega, by simpa using hα, by omega, htop⟩
  have hmain := rat_main c.F neg a den i j (Nat.pos_of_ne_zero hden) L hL1 hlo hhi htopL m hmdef.symm
  rw [hij] at hmain
  rw [← hmain]
  -- facts about m
  have hD : 0 < den * 2 ^ j := Nat.mul_pos (Nat.pos_of_ne_zero hden) (Nat.two_pow_pos j)
  have hQlo : 2 ^ (L - 1) ≤ a * 2 ^ i / (den * 2 ^ j) := (Nat.le_div_iff_mul_le hD).mpr hlo
  have hQhi : a * 2 ^ i / (den * 2 ^ j) < 2 ^ L := (Nat.div_lt_iff_lt_mul hD).mpr hhi
  have hprec : c.F.prec = c.F.MB + 1 := rfl
  have hQ2 : 2 ≤ a * 2 ^ i / (den * 2 ^ j) := by
    have : 2 ^ 1 ≤ 2 ^ (L - 1) := pow_le_pow2 (by omega)
    omega
  have hst2 : (if a * 2 ^ i % (den * 2 ^ j) ≠ 0 then 1 else 0) < 2 := by split <;> decide
  have hblm : bitLen m = L := by
    rw [← hmdef, bitLen_or_bit _ _ hst2 hQ2]
    have := bitLen_eq_of (n := L - 1) hQlo (by rw [show L - 1 + 1 = L by omega]; exact hQhi)
    omega
  have hm0 : m ≠ 0 := by
    intro hz
    have hz0 : bitLen 0 = 0 := rfl
    rw [hz, hz0] at hblm; omega
  have hqm := c.F.qmin_eq
  have hem := c.F.emax_eq
  have hB := c.F.B_ge hF
  by_cases hov : shift ≥ c.infShift
  · -- certain overflow
    simp only [hov, if_true]
    have := h.inf
    rw [spec_over c.F hF m shift hm0 (by rw [hblm]; omega)]
  simp only [hov, if_false]
  by_cases hun : shift < c.zeroShift - 3
  · simp only [hun, if_true]
    have := h.zero
    rw [spec_under c.F hF m shift hm0 (by rw [hblm]; omega)]
    cases neg <;> simp [Flag.flipIf]
  simp only [hun, if_false]
  -- one rounding, in encode
  have hfit : (if neg then -(m : Int) else (m : Int)).natAbs ≤ 2 ^ (ec.N - 1) := by
    have hmlt : m < 2 ^ L := by have := @bitLen_lt m; rwa [hblm] at this
    have : 2 ^ L ≤ 2 ^ (ec.N - 1) := pow_le_pow2 (by have := h.fit; omega)
    have habs : (if neg then -(m : Int) else (m : Int)).natAbs = m := by cases neg <;> simp
    rw [habs]; omega
  have henc := encodeFixed_correct ec c.F h.enc (if neg then -(m : Int) else (m : Int)) shift hfit
  have hcast : (if neg = true then -(m : Int) else (m : Int)) = (if neg then -(m : Int) else (m : Int)) := rfl
  rw [henc, ieeeRound_signed c.F neg m shift hm0]

/-- `RBig::to_f32` -/
theorem rbig_to_f32_correct' (num : Int) (den : Nat) (hden : den ≠ 0) :
    ratToFloatFixed rat32 (encodeFixed f32Fixed) num den = .ok (ieeeRoundRat .binary32 .halfEven num den) :=
  ratToFloatFixed_correct rat32 f32Fixed rat32_compat num den hden

/-- `RBig::to_f64` -/
theorem rbig_to_f64_correct' (num : Int) (den : Nat) (hden : den ≠ 0) :
    ratToFloatFixed rat64 (encodeFixed f64Fixed) num den = .ok (ieeeRoundRat .binary64 .halfEven num den) :=
  ratToFloatFixed_correct rat64 f64Fixed rat64_compat num den hden

end Dashu.Model.Conv

namespace Dashu.Model.Conv
open Dashu.Model

theorem bitLen_two_pow (j : Nat) : bitLen (2 ^ j) = j + 1 :=
  bitLen_eq_of (Nat.le_refl _) (pow_lt_pow2 (Nat.lt_succ_self j))

theorem ratTop_dyadic (a j : Nat) (ha : a ≠ 0) : ratTop a (2 ^ j) = (bitLen a : Int) - j := by
  have hal := bitLen_le ha
  have hL := bitLen_pos ha
  unfold ratTop
  rw [bitLen_two_pow]
  by_cases hd : (j + 1 : Nat) ≤ bitLen a
  · obtain ⟨d, hd'⟩ : ∃ d : Nat, bitLen a = j + 1 + d := ⟨bitLen a - (j + 1), by omega⟩
    have e1 : ((bitLen a : Int) - ((j + 1 : Nat) : Int)) = (d : Int) := by omega
    simp only [e1, Int.toNat_natCast]
    have e2 : (-(d : Int)).toNat = 0 := by omega
    rw [e2, pow_zero, Nat.mul_one]
    have hc : 2 ^ j * 2 ^ d ≤ a := by
      rw [← pow_add]
      have : j + d = bitLen a - 1 := by omega
      rw [this]; exact hal
    rw [if_pos hc]; omega
  · obtain ⟨d, hd'⟩ : ∃ d : Nat, j + 1 = bitLen a + d := ⟨j + 1 - bitLen a, by omega⟩
    have e1 : ((bitLen a : Int) - ((j + 1 : Nat) : Int)) = -(d : Int) := by omega
    simp only [e1, neg_neg, Int.toNat_natCast]
    have e2 : (-(d : Int)).toNat = 0 := by omega
    rw [e2, pow_zero, Nat.mul_one]
    have hc : 2 ^ j ≤ a * 2 ^ d := by
      calc 2 ^ j = 2 ^ (bitLen a - 1) * 2 ^ d := by rw [← pow_add]; congr 1; omega
        _ ≤ a * 2 ^ d := Nat.mul_le_mul_right _ hal
    rw [if_pos hc]; omega

/-- the rational specification extends the dyadic one: `a / 2^j` rounds like `a·2^(-j)` -/
theorem ieeeRoundRatMag_dyadic (F : Ieee) (neg : Bool) (a j : Nat) (ha : a ≠ 0) :
    ieeeRoundRatMag F .halfEven neg a (2 ^ j) = ieeeRoundMag F a (-(j : Int)) := by
  unfold ieeeRoundRatMag ieeeRoundMag roundMag
  simp only [ratTop_dyadic a j ha]
  have ht : (bitLen a : Int) + -(j : Int) = (bitLen a : Int) - j := by ring
  rw [ht]
  generalize max ((bitLen a : Int) - j - F.prec) F.qmin = q
  have hden : 0 < 2 ^ j * 2 ^ q.toNat := Nat.mul_pos (Nat.two_pow_pos _) (Nat.two_pow_pos _)
  rw [roundMagMode_halfEven neg _ _ hden]
  by_cases hq : q ≤ -(j : Int)
  · simp only [hq, if_true]
    have hp := round_pow_pair a 1 (-q).toNat (j + q.toNat) (-(j : Int) - q).toNat 0 (by omega)
    simp only [Nat.one_mul, pow_zero, Nat.mul_one] at hp
    rw [pow_add] at hp
    rw [hp.1, hp.2]
  · simp only [hq, if_false]
    have hp := round_pow_pair a 1 (-q).toNat (j + q.toNat) 0 (q - -(j : Int)).toNat (by omega)
    simp only [Nat.one_mul, pow_zero, Nat.mul_one] at hp
    rw [pow_add] at hp
    rw [hp.1, hp.2]

/-- … for every sign: `num / 2^j` in the rational spec is `num·2^(-j)` in the spec of `encode` -/
theorem ieeeRoundRat_dyadic (F : Ieee) (num : Int) (j : Nat) :
    ieeeRoundRat F .halfEven num (2 ^ j) = ieeeRound F num (-(j : Int)) := by
  unfold ieeeRoundRat ieeeRound
  by_cases h0 : num = 0
  · simp [h0]
  · simp only [h0, if_false]
    have ha : num.natAbs ≠ 0 := by omega
    rw [ieeeRoundRatMag_dyadic F _ num.natAbs j ha]
    by_cases hn : num < 0 <;> simp [hn]

end Dashu.Model.Conv
