import Dashu.Proofs.Conv.IntFloat
import Dashu.Proofs.Int.Repr
/-
  C06 — primitive integers ↔ big integers: the width/sign checks succeed exactly on the values the
  target type holds and return that value; round trips.
-/
namespace Dashu.Model.Conv
open Dashu.Model

theorem two_pow_pred (bits : Nat) (h : 1 ≤ bits) : 2 ^ bits = 2 * 2 ^ (bits - 1) := by
  conv_lhs => rw [show bits = (bits - 1) + 1 by omega, pow_succ]
  ring

/-- `try_from_sign_magnitude`: succeeds iff `±mag` is an `iN`, and returns it -/
theorem tryFromSignMagnitude_spec (bits : Nat) (hb : 1 ≤ bits) (neg : Bool) (mag : Nat) (hm : mag < 2 ^ bits) :
    tryFromSignMagnitude bits neg mag =
      intoRangeSpec (-(2 ^ (bits - 1) : Int)) (2 ^ (bits - 1) - 1) (if neg then -(mag : Int) else mag) := by
  have hp := two_pow_pred bits hb
  have hpos : 0 < 2 ^ (bits - 1) := Nat.two_pow_pos _
  unfold tryFromSignMagnitude intoRangeSpec asSigned
  generalize hP : 2 ^ (bits - 1) = P at *
  have hPi : (2 : Int) ^ (bits - 1) = (P : Int) := by rw [← hP]; norm_cast
  have hBi : (2 : Int) ^ bits = 2 * (P : Int) := by
    have : ((2 ^ bits : Nat) : Int) = ((2 * P : Nat) : Int) := by rw [hp]
    push_cast at this; exact this
  rw [hp] at hm ⊢
  rw [hPi, hBi]
  cases neg
  · simp only [Bool.not_false, if_true, Bool.false_eq_true, if_false]
    by_cases h : mag < P
    · have : (-(P : Int) ≤ (mag : Int) ∧ (mag : Int) ≤ (P : Int) - 1) := by omega
      rw [if_pos h, if_pos this]
    · have : ¬ (-(P : Int) ≤ (mag : Int) ∧ (mag : Int) ≤ (P : Int) - 1) := by omega
      rw [if_neg h, if_neg this]
  · simp only [Bool.not_true, Bool.false_eq_true, if_false, if_true]
    by_cases h0 : mag = 0
    · subst h0
      have e1 : (2 * P - 0) % (2 * P) = 0 := by simp
      have : (-(P : Int) ≤ -((0 : Nat) : Int) ∧ -((0 : Nat) : Int) ≤ (P : Int) - 1) := by omega
      rw [e1, if_pos hpos, if_pos this]
      simp
    · have e1 : (2 * P - mag) % (2 * P) = 2 * P - mag := Nat.mod_eq_of_lt (by omega)
      rw [e1]
      by_cases h : mag ≤ P
      · have h1 : ¬ (2 * P - mag < P) := by omega
        have h2 : (((2 * P - mag : Nat) : Int) - 2 * (P : Int)) = -(mag : Int) := by omega
        have h3 : (-(P : Int) ≤ -(mag : Int) ∧ -(mag : Int) ≤ (P : Int) - 1) := by omega
        rw [if_neg h1, h2, if_pos h3]
        have : -(mag : Int) ≤ 0 := by omega
        rw [if_pos this]
      · have h1 : 2 * P - mag < P := by omega
        have h3 : ¬ (-(P : Int) ≤ -(mag : Int) ∧ -(mag : Int) ≤ (P : Int) - 1) := by omega
        rw [if_pos h1, if_neg h3]
        have : ¬ (((2 * P - mag : Nat) : Int) ≤ 0) := by omega
        rw [if_neg this]

/-- `try_to_unsigned::<T>` on a canonical magnitude: succeeds iff the value fits `bits`
    (`bits` a multiple of the word size or at most one word, as the code asserts) -/
theorem tryToUnsigned_spec (W bits : Nat) (hW : 8 ≤ W) (hW8 : W % 8 = 0) (hb8 : bits % 8 = 0)
    (hbits : bits ≤ W ∨ bits % W = 0) (r : TRepr) (hr : r.Canon W) :
    tryToUnsigned W bits r = if r.value W < 2 ^ bits then .ok (r.value W) else .error .outOfBounds := by
  cases r with
  | small d => by_cases h : d < 2 ^ bits <;> simp [tryToUnsigned, TRepr.value, h]
  | large ws =>
    have hlen := hr.large_len
    have hwords := hr.large_words
    have hge := hr.large_ge
    have hlt := val_lt W ws hwords
    obtain ⟨h3, _, hl⟩ := hr
    have hne : ws ≠ [] := by intro e; subst e; simp at h3
    have hge2 := val_ge_of_getLast W ws hne hl
    simp only [tryToUnsigned, unsignedFromWords, TRepr.value]
    -- words of the target type
    have htw : bits / 8 / (W / 8) = bits / W := by
      rw [Nat.div_div_eq_div_mul]
      congr 1
      omega
    rw [htw]
    by_cases hc : bits / W ≤ 1 ∨ ws.length > bits / W
    · simp only [hc, if_true]
      have : ¬ (val W ws < 2 ^ bits) := by
        have hb : bits ≤ W * (ws.length - 1) := by
          rcases hbits with hle | hmod
          · calc bits ≤ W * 1 := by omega
              _ ≤ W * (ws.length - 1) := Nat.mul_le_mul_left _ (by omega)
          · have hmul : bits = W * (bits / W) := (Nat.mul_div_cancel' (Nat.dvd_of_mod_eq_zero hmod)).symm
            have hq : bits / W ≤ ws.length - 1 := by omega
            calc bits = W * (bits / W) := hmul
              _ ≤ W * (ws.length - 1) := Nat.mul_le_mul_left _ hq
        have : 2 ^ bits ≤ 2 ^ (W * (ws.length - 1)) := pow_le_pow2 hb
        omega
      simp [this]
    · simp only [hc, if_false]
      have hc' : 2 ≤ bits / W ∧ ws.length ≤ bits / W := by omega
      have hmul : bits = W * (bits / W) := by
        rcases hbits with h | h
        · exfalso
          have : bits / W ≤ 1 := by
            rcases Nat.lt_or_ge bits W with h' | h'
            · rw [Nat.div_eq_of_lt h']; omega
            · have : bits = W := by omega
              rw [this, Nat.div_self (by omega)]
          omega
        · exact (Nat.mul_div_cancel' (Nat.dvd_of_mod_eq_zero h)).symm
      have : val W ws < 2 ^ bits := by
        calc val W ws < 2 ^ (W * ws.length) := hlt
          _ ≤ 2 ^ (W * (bits / W)) := pow_le_pow2 (Nat.mul_le_mul_left _ hc'.2)
          _ = 2 ^ bits := by rw [← hmul]
      simp [this]

/-- `from_unsigned` keeps the value and is canonical -/
theorem fromUnsigned_spec (W x : Nat) (hW : 1 ≤ W) :
    (fromUnsigned W x).value W = x ∧ ((fromUnsigned W x).value W < 2 ^ (2 * W) → ∃ d, fromUnsigned W x = .small d) := by
  unfold fromUnsigned
  by_cases h : x < 2 ^ (2 * W)
  · simp [h, TRepr.value]
  · simp only [h, if_false]
    refine ⟨?_, ?_⟩
    · rw [fromBuffer_value]
      -- value of the word decomposition
      have : ∀ n, val W (natWords W n) = n := by
        intro n
        induction n using Nat.strong_induction_on with
        | _ n ih =>
          unfold natWords
          by_cases h0 : n = 0
          · simp [h0]
          · have hW0 : ¬ W = 0 := by omega
            simp only [h0, hW0, dif_neg, not_false_eq_true]
            rw [val_cons, ih (n / 2 ^ W) (Nat.div_lt_self (Nat.pos_of_ne_zero h0) (Nat.one_lt_two_pow hW0))]
            have := Nat.div_add_mod n (2 ^ W)
            omega
      exact this x
    · intro hlt
      exfalso
      rw [fromBuffer_value] at hlt
      have : ∀ n, val W (natWords W n) = n := by
        intro n
        induction n using Nat.strong_induction_on with
        | _ n ih =>
          unfold natWords
          by_cases h0 : n = 0
          · simp [h0]
          · have hW0 : ¬ W = 0 := by omega
            simp only [h0, hW0, dif_neg, not_false_eq_true]
            rw [val_cons, ih (n / 2 ^ W) (Nat.div_lt_self (Nat.pos_of_ne_zero h0) (Nat.one_lt_two_pow hW0))]
            have := Nat.div_add_mod n (2 ^ W)
            omega
      rw [this x] at hlt
      exact h hlt

/-- `to_sign_magnitude` of an `iN` in range returns its sign and absolute value -/
theorem toSignMagnitude_spec (bits : Nat) (hb : 1 ≤ bits) (x : Int)
    (hx : -(2 ^ (bits - 1) : Int) ≤ x ∧ x ≤ 2 ^ (bits - 1) - 1) :
    toSignMagnitude bits x = (decide (x < 0), x.natAbs) := by
  have hp := two_pow_pred bits hb
  unfold toSignMagnitude
  generalize hP : 2 ^ (bits - 1) = P at *
  have hPi : (2 : Int) ^ (bits - 1) = (P : Int) := by rw [← hP]; norm_cast
  rw [hPi] at hx
  by_cases h : x ≥ 0
  · have : ¬ (x < 0) := by omega
    simp only [h, if_true, this, decide_false]
    congr 1
    omega
  · have hn : x < 0 := by omega
    simp only [h, if_false, hn, decide_true]
    congr 1
    have hBi : ((2 ^ bits : Nat) : Int) = 2 * (P : Int) := by rw [hp]; push_cast; ring
    have hm : x % ((2 ^ bits : Nat) : Int) = x + 2 * (P : Int) := by
      rw [hBi]
      have h1 : 0 ≤ x + 2 * (P : Int) := by omega
      have h2 : x + 2 * (P : Int) < 2 * (P : Int) := by omega
      rw [← Int.add_mul_emod_self_left x (2 * (P : Int)) 1, Int.mul_one]
      exact Int.emod_eq_of_lt h1 h2
    have hcast : ((2 : Int) ^ bits) = ((2 ^ bits : Nat) : Int) := by norm_cast
    rw [hcast, hm, hp]
    have e : (x + 2 * (P : Int)).toNat = 2 * P - x.natAbs := by omega
    rw [e]
    have : 2 * P - (2 * P - x.natAbs) = x.natAbs := by omega
    rw [this]
    exact Nat.mod_eq_of_lt (by omega)

end Dashu.Model.Conv

namespace Dashu.Model.Conv
open Dashu.Model

theorem lt_bitLen_of_le {a n : Nat} (h : 2 ^ n ≤ a) : n < bitLen a := by
  by_contra hc
  have h1 : bitLen a ≤ n := by omega
  have h2 := @bitLen_lt a
  have : 2 ^ bitLen a ≤ 2 ^ n := pow_le_pow2 h1
  omega

/-- `to_f64_small` (repaired) and `to_f32_small`: the hardware cast plus the comparison with the cast
    back give the IEEE rounding of the integer and the true error sign -/
theorem toSmall_correct (F : Ieee) (W d : Nat) (hd : d < 2 ^ (2 * W)) :
    (match castToFloat F d with
     | (bits, none) => (bits, Flag.pos)
     | (bits, some v) => if v ≥ 2 ^ (2 * W) then (bits, Flag.pos) else (bits, flagOfCompare v d)) =
    ieeeRound F (d : Int) 0 := by
  by_cases h0 : d = 0
  · subst h0
    simp [castToFloat, ieeeRound, flagOfCompare]
  rw [ieeeRound_nonneg F d 0 h0]
  unfold castToFloat ieeeRoundMag
  simp only [h0, if_false]
  by_cases hov : 2 ^ (F.emax + 1 - F.qmin).toNat ≤ (roundMag F d 0).n * 2 ^ ((roundMag F d 0).q - F.qmin).toNat
  · simp only [hov, if_true]
  · simp only [hov, if_false]
    unfold roundMag
    simp only
    generalize hq : max ((bitLen d : Int) + 0 - F.prec) F.qmin = q
    by_cases hq0 : q ≤ 0
    · have hq1 : ¬ (q > 0) := by omega
      simp only [hq0, if_true, hq1, if_false, rneDiv_one]
      have : ¬ (d ≥ 2 ^ (2 * W)) := by omega
      simp [this, flagOfCompare, flagOf]
    · have hq1 : q > 0 := by omega
      simp only [hq0, if_false, hq1, if_true]
      have hqn : (q - 0).toNat = q.toNat := by simp
      rw [hqn]
      unfold flagOfCompare flagOf
      generalize rneDiv d (2 ^ q.toNat) * 2 ^ q.toNat = v
      split_ifs <;> first | rfl | (exfalso; omega)

theorem toF64Small_fixed_correct (W d : Nat) (hd : d < 2 ^ (2 * W)) :
    toF64SmallFixed W d = ieeeRound .binary64 (d : Int) 0 := by
  rw [← toSmall_correct .binary64 W d hd]
  unfold toF64SmallFixed
  rfl

/-- a finite result of the cast is below `2^(emax+1)` -/
theorem castToFloat_lt (F : Ieee) (hF : F.Ok) (d bits v : Nat) (W : Nat) (hd : d < 2 ^ (2 * W))
    (hW : (F.emax + 1).toNat ≤ 2 * W) (h : castToFloat F d = (bits, some v)) : v < 2 ^ (2 * W) := by
  unfold castToFloat at h
  by_cases h0 : d = 0
  · simp [h0] at h
    have := Nat.two_pow_pos (2 * W)
    omega
  simp only [h0, if_false] at h
  have hB := F.B_ge hF
  have hqm := F.qmin_eq
  have hem := F.emax_eq
  split at h
  · simp at h
  · rename_i hov
    simp only [Prod.mk.injEq, Option.some.injEq] at h
    obtain ⟨-, hv⟩ := h
    by_cases hq : (roundMag F d 0).q > 0
    · rw [if_pos hq] at hv
      generalize (roundMag F d 0).n = n at *
      generalize (roundMag F d 0).q = q at *
      obtain ⟨qn, hqn⟩ : ∃ qn : Nat, q = qn := ⟨q.toNat, by omega⟩
      obtain ⟨mq, hmq⟩ : ∃ mq : Nat, -F.qmin = mq := ⟨(-F.qmin).toNat, by omega⟩
      have e1 : (q - F.qmin).toNat = qn + mq := by omega
      have e2 : (F.emax + 1 - F.qmin).toNat = (F.emax + 1).toNat + mq := by omega
      have e3 : q.toNat = qn := by omega
      rw [e1, e2, pow_add, pow_add, ← Nat.mul_assoc] at hov
      rw [e3] at hv
      have hlt : n * 2 ^ qn < 2 ^ (F.emax + 1).toNat := by
        by_contra hc
        exact hov (Nat.mul_le_mul_right _ (by omega))
      have := pow_le_pow2 hW
      omega
    · rw [if_neg hq] at hv; omega

theorem toF32Small_correct (W d : Nat) (hW : 64 ≤ W) (hd : d < 2 ^ (2 * W)) :
    toF32Small W d = ieeeRound .binary32 (d : Int) 0 := by
  rw [← toSmall_correct .binary32 W d hd]
  unfold toF32Small
  rcases h : castToFloat .binary32 d with ⟨bits, _ | v⟩
  · rfl
  · simp only
    have hv := castToFloat_lt .binary32 Ieee.binary32_ok d bits v W hd
      (by have : (Ieee.binary32.emax + 1).toNat = 128 := by decide
          omega) h
    have hmin : min v (2 ^ (2 * W) - 1) = v := by omega
    have hnot : ¬ (v ≥ 2 ^ (2 * W)) := by omega
    rw [hmin, if_neg hnot]

/-- `UBig::to_f64` (current tree): IEEE rounding of the value with the true error sign, for every
    canonical magnitude (inline or heap, any length), every word size ≥ 32 -/
theorem toF64_correct (W : Nat) (hW : 32 ≤ W) (r : TRepr) (hr : r.Canon W) :
    toF64 W true r = .ok (ieeeRound .binary64 (r.value W : Int) 0) := by
  cases r with
  | small d =>
    simp only [toF64, TRepr.value, if_true]
    rw [toF64Small_fixed_correct W d hr]
  | large ws =>
    simp only [toF64, TRepr.value, if_true]
    have hge := hr.large_ge
    have h64 : 2 ^ 64 ≤ val W ws := le_trans (pow_le_pow2 (by omega)) hge
    have := toFloatNontrivial_correct f64Fixed .binary64 f64Fixed_compatible 1024 63 (val W ws)
      (by decide) (by decide) (by decide) (by have := lt_bitLen_of_le h64; omega)
    exact this

theorem toF32_correct (W : Nat) (hW : 64 ≤ W) (r : TRepr) (hr : r.Canon W) :
    toF32 W true r = .ok (ieeeRound .binary32 (r.value W : Int) 0) := by
  cases r with
  | small d =>
    simp only [toF32, TRepr.value]
    rw [toF32Small_correct W d hW hr]
  | large ws =>
    simp only [toF32, TRepr.value, if_true]
    have hge := hr.large_ge
    have h32 : 2 ^ 32 ≤ val W ws := le_trans (pow_le_pow2 (by omega)) hge
    have := toFloatNontrivial_correct f32Fixed .binary32 f32Fixed_compatible 128 31 (val W ws)
      (by decide) (by decide) (by decide) (by have := lt_bitLen_of_le h32; omega)
    exact this

end Dashu.Model.Conv
