import Dashu.Proofs.Conv.Fast
import Mathlib.Data.Nat.Prime.Basic
/-
  C06 — `TryFrom<RBig> for f32/f64` (current tree): COMPLETENESS.  Every rational (in lowest terms) that
  the format represents exactly is accepted, with exactly that bit pattern; together with
  `ratTryToFloat_sound` the conversion succeeds iff the value is representable.
-/
namespace Dashu.Model.Conv
open Dashu.Model Dashu.Model.Float

theorem flagOf_exact_iff (n D a : Nat) : flagOf n D a = .exact ↔ n * D = a := by
  unfold flagOf
  by_cases h : n * D = a
  · simp [h]
  · simp only [h, if_false, false_iff]
    split <;> simp

/-- an odd significand is represented exactly only if it has at most `prec` bits and the value lies in
    the format's range -/
theorem odd_exact_bits (F : Ieee) (hF : F.Ok) (a : Nat) (e : Int) (hodd : a % 2 = 1)
    (hex : (ieeeRoundMag F a e).2 = .exact) :
    bitLen a ≤ F.prec ∧ F.qmin ≤ (bitLen a : Int) + e ∧ (bitLen a : Int) + e ≤ F.emax + 1 := by
  have ha : a ≠ 0 := by omega
  have hB := F.B_ge hF
  have hqm := F.qmin_eq
  have hem := F.emax_eq
  have hprec : F.prec = F.MB + 1 := rfl
  have hL1 := bitLen_pos ha
  have hnodiv : ∀ k n : Nat, 1 ≤ k → n * 2 ^ k ≠ a := by
    intro k n hk h
    have : 2 ^ k = 2 * 2 ^ (k - 1) := by
      conv_lhs => rw [show k = (k - 1) + 1 by omega, pow_succ]
      ring
    rw [this] at h
    have : a % 2 = 0 := by rw [← h, ← Nat.mul_assoc, Nat.mul_comm n 2, Nat.mul_assoc]; exact Nat.mul_mod_right _ _
    omega
  have hover : (bitLen a : Int) + e ≤ F.emax + 1 := by
    by_contra hc
    rw [spec_over F hF a e ha (by omega)] at hex
    cases hex
  have hunder : F.qmin ≤ (bitLen a : Int) + e := by
    by_contra hc
    rw [spec_under F hF a e ha (by omega)] at hex
    cases hex
  refine ⟨?_, hunder, hover⟩
  by_contra hgt
  have hgt' : F.prec < bitLen a := by omega
  by_cases hsub : (bitLen a : Int) + e < F.qmin + F.prec
  · obtain ⟨k, hk⟩ : ∃ k : Nat, e + k = F.qmin := ⟨(F.qmin - e).toNat, by omega⟩
    rw [spec_sub_round F hF a k e hk (by omega) (by omega)] at hex
    exact hnodiv k _ (by omega) ((flagOf_exact_iff _ _ _).mp hex)
  · obtain ⟨w, hw⟩ : ∃ w : Nat, (bitLen a : Int) + e = F.qmin + F.prec + w :=
      ⟨((bitLen a : Int) + e - F.qmin - F.prec).toNat, by omega⟩
    obtain ⟨k, hk⟩ : ∃ k, bitLen a = F.prec + k := ⟨bitLen a - F.prec, by omega⟩
    rw [spec_norm_round F hF a k w e hk (by omega) hw (by omega)] at hex
    exact hnodiv k _ (by omega) ((flagOf_exact_iff _ _ _).mp hex)

/-- a rational in lowest terms that rounds exactly has a power of two as denominator -/
theorem coprime_exact_dyadic (F : Ieee) (neg : Bool) (a d : Nat) (hd : d ≠ 0) (hco : Nat.Coprime a d)
    (hex : (ieeeRoundRatMag F .halfEven neg a d).2 = .exact) : ∃ j, d = 2 ^ j := by
  unfold ieeeRoundRatMag at hex
  simp only at hex
  split at hex
  · cases hex
  · simp only at hex
    have h := (flagOf_exact_iff _ _ _).mp hex
    generalize (roundMagMode Mode.halfEven neg _ _).1 = n at h
    generalize (max (ratTop a d - F.prec) F.qmin) = q at h
    -- d divides a·2^k, hence 2^k
    have hdvd : d ∣ a * 2 ^ (-q).toNat := ⟨n * 2 ^ q.toNat, by rw [← h]; ring⟩
    have hdvd2 : d ∣ 2 ^ (-q).toNat := (Nat.Coprime.symm hco).dvd_of_dvd_mul_left hdvd
    obtain ⟨j, _, hj⟩ := (Nat.dvd_prime_pow Nat.prime_two).mp hdvd2
    exact ⟨j, hj⟩

theorem trailingZeros_odd : ∀ fuel n : Nat, n ≠ 0 → n < 2 ^ fuel → (n / 2 ^ trailingZeros fuel n) % 2 = 1 := by
  intro fuel
  induction fuel with
  | zero => intro n hn hlt; simp at hlt; omega
  | succ k ih =>
    intro n hn hlt
    unfold trailingZeros
    by_cases h : n % 2 = 0 ∧ n ≠ 0
    · simp only [h, and_self, ne_eq, not_false_eq_true, if_true]
      have h2 : n / 2 ≠ 0 := by omega
      have hlt2 : n / 2 < 2 ^ k := by rw [pow_succ] at hlt; omega
      have := ih (n / 2) h2 hlt2
      rw [Nat.add_comm, pow_succ, Nat.mul_comm, ← Nat.div_div_eq_div_mul]
      exact this
    · simp only [h, if_false, pow_zero, Nat.div_one]
      omega

theorem log2_two_pow (j : Nat) : Nat.log2 (2 ^ j) = j := by
  have h1 : bitLen (2 ^ j) = j + 1 := bitLen_two_pow j
  unfold bitLen at h1
  have : 2 ^ j ≠ 0 := by positivity
  simp only [this, if_false] at h1
  omega

end Dashu.Model.Conv

namespace Dashu.Model.Conv
open Dashu.Model Dashu.Model.Float

theorem flipIf_eq_exact (f : Flag) (b : Bool) (h : f.flipIf b = .exact) : f = .exact := by
  cases f <;> cases b <;> simp [Flag.flipIf] at h ⊢

theorem ieeeRound_exact_mag (F : Ieee) (n : Int) (e : Int) (hn : n ≠ 0) (bits : Nat)
    (h : ieeeRound F n e = (bits, .exact)) : (ieeeRoundMag F n.natAbs e).2 = .exact := by
  unfold ieeeRound at h
  simp only [hn, if_false, Prod.mk.injEq] at h
  exact flipIf_eq_exact _ _ h.2

/-- the last steps of `TryFrom<RBig> for fNN` on `n·2^x` with an odd `n` whose value is exactly representable -/
theorem tryTo_tail (c : EncConsts) (F : Ieee) (hc : Compatible c F) (hfit : F.prec ≤ c.N - 1) (n x : Int)
    (hodd : n.natAbs % 2 = 1) (bits : Nat) (hex : ieeeRound F n x = (bits, .exact)) :
    (-(2 ^ (c.N - 1) : Int) ≤ n ∧ n < 2 ^ (c.N - 1)) ∧ encodeFixed c n x = .ok (bits, .exact) ∧
      F.qmin ≤ (bitLen n.natAbs : Int) + x ∧ (bitLen n.natAbs : Int) + x ≤ F.emax + 1 := by
  have hn : n ≠ 0 := by intro h; subst h; simp at hodd
  have hmag := ieeeRound_exact_mag F n x hn bits hex
  obtain ⟨hb, hlo, hhi⟩ := odd_exact_bits F hc.ok n.natAbs x hodd hmag
  have hlt : n.natAbs < 2 ^ (c.N - 1) :=
    lt_of_lt_of_le bitLen_lt (pow_le_pow2 (le_trans hb hfit))
  have hc2 : ((2 ^ (c.N - 1) : Nat) : Int) = (2 : Int) ^ (c.N - 1) := by push_cast; rfl
  have hlt' : ((n.natAbs : Nat) : Int) < ((2 ^ (c.N - 1) : Nat) : Int) := by exact_mod_cast hlt
  rw [hc2] at hlt'
  refine ⟨by omega, ?_, hlo, hhi⟩
  rw [encodeFixed_correct c F hc n x (by omega), hex]

/-- **completeness of `TryFrom<RBig> for f32/f64`**: a rational in lowest terms that the format represents
    exactly is accepted with exactly that bit pattern -/
theorem ratTryToFloat_complete (c : EncConsts) (F : Ieee) (hc : Compatible c F) (hfit : F.prec ≤ c.N - 1)
    (lb ub : Int) (hlb : lb = F.qmin) (hub : ub = F.emax + 1) (num : Int) (den : Nat) (hden : den ≠ 0)
    (hco : Nat.Coprime num.natAbs den) (bits : Nat)
    (hex : ieeeRoundRat F .halfEven num den = (bits, .exact)) :
    ratTryToFloat c lb ub num den = .ok (.ok bits) := by
  unfold ratTryToFloat
  by_cases h0 : num = 0
  · subst h0
    simp [ieeeRoundRat] at hex
    simp [hex]
  simp only [h0, if_false]
  have ha0 : num.natAbs ≠ 0 := by omega
  -- the denominator is a power of two
  have hmagR : (ieeeRoundRatMag F .halfEven (decide (num < 0)) num.natAbs den).2 = .exact := by
    unfold ieeeRoundRat at hex
    simp only [h0, if_false, Prod.mk.injEq] at hex
    exact flipIf_eq_exact _ _ hex.2
  obtain ⟨j, hj⟩ := coprime_exact_dyadic F _ num.natAbs den hden hco hmagR
  subst hj
  have hpow : (2 ^ j ≠ 0 ∧ 2 ^ Nat.log2 (2 ^ j) = 2 ^ j) := ⟨by positivity, by rw [log2_two_pow]⟩
  simp only [hpow, and_self, ne_eq, not_false_eq_true, if_true, log2_two_pow]
  have hdy : ieeeRound F num (-(j : Int)) = (bits, .exact) := by rw [← ieeeRoundRat_dyadic]; exact hex
  by_cases hj0 : j = 0
  · -- an integer: the trailing zeros go to the exponent
    subst hj0
    simp only [↓reduceIte, Nat.cast_zero, sub_zero]
    generalize hz : trailingZeros (bitLen num.natAbs) num.natAbs = z
    have hdvd : (2 ^ z : Nat) ∣ num.natAbs := by rw [← hz]; exact trailingZeros_dvd _ _
    have hdvdI : ((2 : Int) ^ z) ∣ num := by
      have : ((2 ^ z : Nat) : Int) ∣ num := Int.natCast_dvd.mpr hdvd
      simpa using this
    have hnum : Int.tdiv num (2 ^ z) * 2 ^ z = num := Int.tdiv_mul_cancel hdvdI
    have hoddq : (num.natAbs / 2 ^ z) % 2 = 1 := by rw [← hz]; exact trailingZeros_odd _ _ ha0 bitLen_lt
    have habs : (Int.tdiv num (2 ^ z)).natAbs = num.natAbs / 2 ^ z := by
      have h1 : (Int.tdiv num (2 ^ z) * 2 ^ z).natAbs = num.natAbs := by rw [hnum]
      rw [Int.natAbs_mul, Int.natAbs_pow] at h1
      have h2 : (2 : Int).natAbs = 2 := rfl
      rw [h2] at h1
      rw [← h1]; exact (Nat.mul_div_cancel _ (Nat.two_pow_pos z)).symm
    have hexq : ieeeRound F (Int.tdiv num (2 ^ z)) (z : Int) = (bits, .exact) := by
      have := ieeeRound_scale F (Int.tdiv num (2 ^ z)) z 0
      rw [hnum] at this
      simp only [Int.zero_add] at this
      rw [← this]; simpa using hdy
    obtain ⟨hfits, henc, hlo, hhi⟩ := tryTo_tail c F hc hfit _ _ (by rw [habs]; exact hoddq) bits hexq
    -- top_bit = bit length of the whole numerator
    have hbl : (bitLen num.natAbs : Int) = (bitLen (Int.tdiv num (2 ^ z)).natAbs : Int) + z := by
      have h1 : num.natAbs = (num.natAbs / 2 ^ z) * 2 ^ z := (Nat.div_mul_cancel hdvd).symm
      have hq0 : num.natAbs / 2 ^ z ≠ 0 := by omega
      conv_lhs => rw [h1, bitLen_mul_pow _ z hq0]
      rw [habs]; push_cast; ring
    have h1 : ¬ ((bitLen num.natAbs : Int) > ub) := by omega
    have h2 : ¬ ((bitLen num.natAbs : Int) < lb) := by omega
    simp only [h1, h2, if_false]
    have h3 : ¬ ¬ (-(2 ^ (c.N - 1) : Int) ≤ Int.tdiv num (2 ^ z) ∧ Int.tdiv num (2 ^ z) < 2 ^ (c.N - 1)) :=
      not_not.mpr hfits
    simp only [h3, if_false, henc]
  · simp only [hj0, if_false]
    -- the numerator is odd
    have hodd : num.natAbs % 2 = 1 := by
      by_contra hc'
      have h2a : 2 ∣ num.natAbs := Nat.dvd_of_mod_eq_zero (by omega)
      have h2d : 2 ∣ 2 ^ j := dvd_pow_self 2 hj0
      have := Nat.dvd_gcd h2a h2d
      rw [hco] at this
      omega
    obtain ⟨hfits, henc, hlo, hhi⟩ := tryTo_tail c F hc hfit num (-(j : Int)) hodd bits hdy
    have h1 : ¬ ((bitLen num.natAbs : Int) - (j : Int) > ub) := by omega
    have h2 : ¬ ((bitLen num.natAbs : Int) - (j : Int) < lb) := by omega
    simp only [h1, h2, if_false]
    have h3 : ¬ ¬ (-(2 ^ (c.N - 1) : Int) ≤ num ∧ num < 2 ^ (c.N - 1)) := not_not.mpr hfits
    simp only [h3, if_false, henc]

/-- **`TryFrom<RBig> for f32/f64` succeeds iff the rational is exactly representable** (lowest terms),
    and then returns exactly that float -/
theorem ratTryToFloat_iff (c : EncConsts) (F : Ieee) (hc : Compatible c F) (hfit : F.prec ≤ c.N - 1)
    (lb ub : Int) (hlb : lb = F.qmin) (hub : ub = F.emax + 1) (num : Int) (den : Nat) (hden : den ≠ 0)
    (hco : Nat.Coprime num.natAbs den) (bits : Nat) :
    ratTryToFloat c lb ub num den = .ok (.ok bits) ↔ ieeeRoundRat F .halfEven num den = (bits, .exact) :=
  ⟨ratTryToFloat_sound c F hc lb ub num den bits,
   ratTryToFloat_complete c F hc hfit lb ub hlb hub num den hden hco bits⟩

end Dashu.Model.Conv

namespace Dashu.Model.Conv
open Dashu.Model Dashu.Model.Float

theorem andThenFlag_eq_none (f1 f2 : Option Float.Rounding) (h : andThenFlag f1 f2 = none) : f1 = none ∧ f2 = none := by
  cases f1 <;> cases f2 <;> simp [andThenFlag] at h ⊢

theorem intoFlag_eq_none (k : IntoConsts) (neg : Bool) (x : Int) (fl : Flag) (h : intoFlag k neg x fl = none) :
    fl = .exact := by
  unfold intoFlag at h
  split at h
  · cases h
  · split at h
    · cases h
    · cases fl <;> simp at h ⊢

/-- **`TryFrom<FBig<_,2>> / TryFrom<Repr<2>> for f32/f64`: a success is exact** -/
theorem fbigTryToFloat_sound (k : IntoConsts) (hk : IntoCompat k) (c : Coarse) (hc : CoarseSound c)
    (s e : Int) (hodd : s % 2 = 1) (bits : Nat) (h : fbigTryToFloat k c ⟨s, e⟩ = .ok (.ok bits)) :
    ieeeRound k.F s e = (bits, .exact) := by
  have hs0 : s ≠ 0 := by intro h0; subst h0; simp at hodd
  unfold fbigTryToFloat at h
  have hinf : FRepr.isInfinite ⟨s, e⟩ = false := by simp [FRepr.isInfinite, hs0]
  simp only [hinf, Bool.false_eq_true, if_false] at h
  have hn := fbigToFloat_normal k hk .halfEven c hc s e hodd
  simp only at hn
  obtain ⟨b0, fl, hb0⟩ : ∃ b0 fl, fbigToFloat k .halfEven c ⟨s, e⟩ = .ok (b0, fl) := ⟨_, _, hn⟩
  have hpair := hn.symm.trans hb0
  simp only [Except.ok.injEq, Prod.mk.injEq] at hpair
  obtain ⟨hbits0, hfl⟩ := hpair
  rw [hb0] at h
  cases fl with
  | some r => simp only at h; split at h <;> cases h
  | none =>
    simp only [Except.ok.injEq] at h
    subst h
    obtain ⟨h1, h2⟩ := andThenFlag_eq_none _ _ hfl
    have hex := intoFlag_eq_none _ _ _ _ h2
    -- the first rounding did nothing
    have hfit : bitLen s.natAbs ≤ k.F.prec := by
      by_contra hc'
      simp only [firstRound, hc', if_false] at h1
      cases h1
    have hfr : firstRound k.F.prec .halfEven (decide (s < 0)) s.natAbs e = (s.natAbs, e, none) := by
      simp only [firstRound, hfit, if_true]
    rw [hfr] at hex hbits0
    simp only at hex hbits0
    unfold ieeeRound
    simp only [hs0, if_false]
    rw [hex, ← hbits0]
    simp [flipIf_exact]

/-- signed primitive → `IBig` → the same primitive -/
theorem signed_roundtrip (W bits : Nat) (hb : 1 ≤ bits) (hbW : bits ≤ 2 * W) (x : Int)
    (hx : -(2 ^ (bits - 1) : Int) ≤ x ∧ x ≤ 2 ^ (bits - 1) - 1) :
    ibigTryToSigned W bits (fromSigned W bits x) = .ok x := by
  have hsm := toSignMagnitude_spec bits hb x hx
  unfold fromSigned
  rw [hsm]
  simp only
  have hp := two_pow_pred bits hb
  have hP : ((2 ^ (bits - 1) : Nat) : Int) = (2 : Int) ^ (bits - 1) := by push_cast; rfl
  have hmag : x.natAbs < 2 ^ bits := by
    have : ((x.natAbs : Nat) : Int) ≤ ((2 ^ (bits - 1) : Nat) : Int) := by rw [hP]; omega
    have : x.natAbs ≤ 2 ^ (bits - 1) := by exact_mod_cast this
    have := Nat.two_pow_pos (bits - 1)
    omega
  have hlt2 : x.natAbs < 2 ^ (2 * W) := lt_of_lt_of_le hmag (pow_le_pow2 hbW)
  unfold ibigTryToSigned Dashu.Model.withSign
  have hfu : fromUnsigned W x.natAbs = .small x.natAbs := by simp [fromUnsigned, hlt2]
  rw [hfu]
  by_cases hz : x.natAbs = 0
  · have hx0 : x = 0 := by omega
    subst hx0
    simp [TRepr.isZero, tryToUnsigned, tryFromSignMagnitude]
  · have hnz : (TRepr.small x.natAbs).isZero = false := by
      unfold TRepr.isZero
      split
      · rename_i heq; simp only [TRepr.small.injEq] at heq; omega
      · rfl
    simp only [hnz, Bool.false_eq_true, if_false, tryToUnsigned, hmag, if_true]
    rw [tryFromSignMagnitude_spec bits hb _ x.natAbs hmag]
    unfold intoRangeSpec
    by_cases hneg : x < 0
    · have hv : (if decide (x < 0) = true then -((x.natAbs : Nat) : Int) else ((x.natAbs : Nat) : Int)) = x := by
        simp only [hneg, decide_true, if_true]; omega
      rw [hv, if_pos hx]
    · have hv : (if decide (x < 0) = true then -((x.natAbs : Nat) : Int) else ((x.natAbs : Nat) : Int)) = x := by
        simp only [hneg, decide_false, Bool.false_eq_true, if_false]; omega
      rw [hv, if_pos hx]

end Dashu.Model.Conv
