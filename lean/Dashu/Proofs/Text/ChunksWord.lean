import Dashu.Model.Text.ChunksWord
import Dashu.Proofs.Text.Chunks
import Dashu.Proofs.Int.Div
/-
  The chunk routines with word-level shift / add kernels equal the positional specification.
-/
namespace Dashu.Model.Text
open Dashu.Model (val IsWords addInPlace addInPlace_spec val_append val_lt)
open Dashu.Model.Div (shrInPlace shlInPlace shrInPlace_spec shlInPlace_spec)

theorem getLastD_lt (l : List Nat) (B : Nat) (hB : 0 < B) (h : ∀ y ∈ l, y < B) : l.getLastD 0 < B := by
  rw [List.getLastD_eq_getLast?]
  cases hl : l.getLast? with
  | none => simpa using hB
  | some a => simpa using h a (List.mem_of_getLast? hl)

theorem isWords_chunkCopied (W : Nat) (words : List Nat) (h : IsWords W words) (bl k i : Nat) :
    IsWords W (chunkCopied W words bl k i) := by
  have hp : 0 < 2 ^ W := Nat.pow_pos (by omega)
  have hsub : ∀ a b, ∀ y ∈ (words.drop a).take b, y < 2 ^ W :=
    fun a b y hy => h y (List.mem_of_mem_drop (List.mem_of_mem_take hy))
  unfold chunkCopied
  simp only []
  split
  · intro x hx
    rcases List.mem_append.mp hx with h1 | h1
    · exact hsub _ _ x (List.mem_of_mem_dropLast h1)
    · simp only [List.mem_singleton] at h1
      subst h1
      have hlast := getLastD_lt _ (2 ^ W) hp (hsub (i * k / W) (min bl (i * k + k) / W - i * k / W + 1))
      have hle := Nat.mod_le (((words.drop (i * k / W)).take (min bl (i * k + k) / W - i * k / W + 1)).getLastD 0)
        (2 ^ (min bl (i * k + k) % W))
      omega
  · intro x hx
    exact hsub _ _ x hx

/-- the general path with `shr_in_place` at the word level = the value-level chunk -/
theorem unalignedChunkW_eq (W : Nat) (hW : 1 ≤ W) (words : List Nat) (h : IsWords W words) (bl k i : Nat) :
    unalignedChunkW W words bl k i = unalignedChunk W words bl k i := by
  have hc := isWords_chunkCopied W words h bl k i
  have hs : (i * k) % W ≤ W := Nat.le_of_lt (Nat.mod_lt _ (by omega))
  obtain ⟨k', _, hk', hv, _, _⟩ := shrInPlace_spec W ((i * k) % W) hs _ hc
  have hun : unalignedChunk W words bl k i = val W (chunkCopied W words bl k i) / 2 ^ ((i * k) % W) := by
    unfold unalignedChunk chunkCopied; rfl
  rw [hun]
  unfold unalignedChunkW
  have hp : 0 < 2 ^ ((i * k) % W) := Nat.pow_pos (by omega)
  rw [← hv]
  generalize val W (shrInPlace W (chunkCopied W words bl k i) (i * k % W)).1 = V
  generalize 2 ^ (i * k % W) = P at *
  rw [Nat.mul_comm V P, Nat.mul_add_div hp, Nat.div_eq_of_lt hk', Nat.add_zero]

/-- **`to_chunks` with the word-level kernels = the positional chunks** -/
theorem toChunksW_eq (W n k : Nat) (hW : 1 ≤ W) (hk : 1 ≤ k) : toChunksW W n k = .ok (chunksSpec n k) := by
  rw [← toChunks_eq W n k hW hk]
  unfold toChunksW toChunks
  have hisw : IsWords W (wordsOf W n) := isWords_wordsOf W n hW
  have : (fun i => unalignedChunkW W (wordsOf W n) (bitLen n) k i) = (fun i => unalignedChunk W (wordsOf W n) (bitLen n) k i) := by
    funext i; exact unalignedChunkW_eq W hW _ hisw _ _ _
  simp only [this]

-- ---------------------------------------------------------------- chunks_to_words

theorem isWords_snoc_zero (W : Nat) (c : List Nat) (h : IsWords W c) : IsWords W (c ++ [0]) := by
  intro x hx
  rcases List.mem_append.mp hx with h1 | h1
  · exact h x h1
  · simp at h1; subst h1; exact Nat.pow_pos (by omega)

/-- the shift-and-add loop: the result buffer is never too short, no carry is lost, and its value grows
    by `Σ chunk_j · 2^((i+j)·k)` -/
theorem chunksToWords_spec (W k : Nat) (hW : 1 ≤ W) (hk : 1 ≤ k) (maxLen cnt : Nat) :
    ∀ (cs : List (List Nat)) (i : Nat) (out : List Nat),
      (∀ c ∈ cs, IsWords W c ∧ c.length ≤ maxLen) → IsWords W out →
      out.length = maxLen + (cnt - 1) * k + 1 → i + cs.length = cnt →
      val W out * 2 ^ k < 2 ^ (W * maxLen + i * k + 1) →
      val W (chunksToWords W k i cs out) = val W out + 2 ^ (i * k) * ofChunksSpec k (cs.map (val W)) := by
  intro cs
  induction cs with
  | nil => intro i out _ _ _ _ _; simp [chunksToWords, ofChunksSpec]
  | cons c cs ih =>
    intro i out hcs hout hlen hcnt hbound
    obtain ⟨hcw, hcl⟩ := hcs c (by simp)
    simp only [List.length_cons] at hcnt
    simp only [chunksToWords, List.map_cons, ofChunksSpec]
    have hsW : (i * k) % W < W := Nat.mod_lt _ (by omega)
    have hdm := Nat.div_add_mod (i * k) W
    generalize hpos : (i * k) / W = pos at *
    generalize hs : (i * k) % W = s at *
    -- the shifted chunk
    obtain ⟨b1, b2, b3, b4⟩ := shlInPlace_spec W s (by omega) (c ++ [0]) (isWords_snoc_zero W c hcw)
    have hvc : val W (c ++ [0]) = val W c := by rw [val_append]; simp [val]
    have hclt := val_lt W c hcw
    have hblt := val_lt W _ b3
    rw [b2] at hblt
    simp only [List.length_append, List.length_cons, List.length_nil] at b1 b2 hblt
    have hcarry : (shlInPlace W (c ++ [0]) s).2 = 0 := by
      by_contra hne
      have h1 : 1 ≤ (shlInPlace W (c ++ [0]) s).2 := by omega
      have h2 : 2 ^ (W * (c.length + 1)) ≤ 2 ^ (W * (c.length + 1)) * (shlInPlace W (c ++ [0]) s).2 :=
        Nat.le_mul_of_pos_right _ h1
      have h3 : val W c * 2 ^ s < 2 ^ (W * (c.length + 1)) := by
        rw [Nat.mul_add, Nat.mul_one, pow_add]
        have hp : 2 ^ s < 2 ^ W := Nat.pow_lt_pow_right (by omega) hsW
        calc val W c * 2 ^ s < 2 ^ (W * c.length) * 2 ^ s := Nat.mul_lt_mul_of_pos_right hclt (Nat.pow_pos (by omega))
          _ ≤ 2 ^ (W * c.length) * 2 ^ W := Nat.mul_le_mul_left _ (by omega)
      rw [hvc] at b1
      have hX : 2 ^ (W * (c.length + 1)) ≤ val W c * 2 ^ s := by
        rw [← b1]; exact Nat.le_trans h2 (Nat.le_add_left _ _)
      omega
    rw [hcarry, Nat.mul_zero, Nat.add_zero, hvc] at b1
    generalize hb : (shlInPlace W (c ++ [0]) s).1 = b at *
    -- room in the result buffer
    have hposle : pos ≤ (cnt - 1) * k := by
      have h1 : i ≤ cnt - 1 := by omega
      have h2 : W * pos ≤ i * k := by omega
      have h3 : pos ≤ W * pos := Nat.le_mul_of_pos_left _ (by omega)
      calc pos ≤ i * k := by omega
        _ ≤ (cnt - 1) * k := Nat.mul_le_mul_right _ h1
    have hroom : b.length ≤ (out.drop pos).length := by rw [List.length_drop, b2, hlen]; omega
    obtain ⟨a1, a2, a3, a4⟩ := addInPlace_spec W (out.drop pos) b (hout.drop pos) b3 hroom
    have htl : (out.take pos).length = pos := by rw [List.length_take, hlen]; omega
    have hsplit : val W out = val W (out.take pos) + 2 ^ (W * pos) * val W (out.drop pos) := by
      conv_lhs => rw [← List.take_append_drop pos out, val_append, htl]
    -- the new buffer
    generalize hnew : (addInPlace W (out.drop pos) b).1 = r at *
    have hout' : IsWords W (out.take pos ++ r) := (hout.take pos).append a3
    have hlen' : (out.take pos ++ r).length = maxLen + (cnt - 1) * k + 1 := by
      rw [List.length_append, htl, a2, List.length_drop, hlen]; omega
    have hval' : val W (out.take pos ++ r) = val W (out.take pos) + 2 ^ (W * pos) * val W r := by
      rw [val_append, htl]
    have hshift : 2 ^ (W * pos) * 2 ^ s = 2 ^ (i * k) := by rw [← pow_add]; congr 1
    -- the new total and its bound
    have hS : val W out * 2 ^ k + val W c * 2 ^ (i * k) * 2 ^ k < 2 ^ (W * maxLen + (i + 1) * k + 1) := by
      have h1 : val W c * 2 ^ (i * k) * 2 ^ k < 2 ^ (W * maxLen + i * k + k) := by
        rw [pow_add, pow_add, Nat.mul_assoc, Nat.mul_assoc]
        apply Nat.mul_lt_mul_of_pos_right _ (Nat.mul_pos (Nat.pow_pos (by omega)) (Nat.pow_pos (by omega)))
        calc val W c < 2 ^ (W * c.length) := hclt
          _ ≤ 2 ^ (W * maxLen) := Nat.pow_le_pow_right (by omega) (Nat.mul_le_mul_left _ hcl)
      have h2 : 2 ^ (W * maxLen + i * k + 1) ≤ 2 ^ (W * maxLen + i * k + k) := Nat.pow_le_pow_right (by omega) (by omega)
      have h3 : 2 ^ (W * maxLen + (i + 1) * k + 1) = 2 ^ (W * maxLen + i * k + k) * 2 := by
        rw [← pow_succ]; congr 1; ring
      omega
    have hfit : val W out + val W c * 2 ^ (i * k) < 2 ^ (W * (out.drop pos).length) * 2 ^ (W * pos) := by
      rw [← pow_add, List.length_drop, hlen]
      have hp : 0 < 2 ^ k := Nat.pow_pos (by omega)
      have h1 : (val W out + val W c * 2 ^ (i * k)) * 2 ^ k < 2 ^ (W * maxLen + (i + 1) * k + 1) := by
        rw [Nat.add_mul]; exact hS
      have h2 : W * maxLen + (i + 1) * k + 1 ≤ W * (maxLen + (cnt - 1) * k + 1 - pos) + W * pos + k := by
        have e1 : W * (maxLen + (cnt - 1) * k + 1 - pos) + W * pos = W * (maxLen + (cnt - 1) * k + 1) := by
          rw [← Nat.mul_add]; congr 1; omega
        rw [e1]
        have e2 : (i + 1) * k ≤ (cnt - 1) * k + k := by
          have : i + 1 ≤ cnt := by omega
          calc (i + 1) * k ≤ cnt * k := Nat.mul_le_mul_right _ this
            _ = (cnt - 1) * k + k := by
              obtain ⟨j, rfl⟩ : ∃ j, cnt = j + 1 := ⟨cnt - 1, by omega⟩
              simp [Nat.succ_mul]
        have e3 : (cnt - 1) * k + 1 ≤ W * ((cnt - 1) * k + 1) := Nat.le_mul_of_pos_left _ (by omega)
        have e4 : W * (maxLen + (cnt - 1) * k + 1) = W * maxLen + W * ((cnt - 1) * k + 1) := by ring
        omega
      have h3 : 2 ^ (W * maxLen + (i + 1) * k + 1) ≤
          2 ^ (W * (maxLen + (cnt - 1) * k + 1 - pos) + W * pos) * 2 ^ k := by
        rw [← pow_add]; exact Nat.pow_le_pow_right (by omega) h2
      exact Nat.lt_of_mul_lt_mul_right (Nat.lt_of_lt_of_le h1 h3)
    have hc2 : (addInPlace W (out.drop pos) b).2 = 0 := by
      by_contra hne
      have h1 : 1 ≤ (addInPlace W (out.drop pos) b).2 := by omega
      have h2 := Nat.le_mul_of_pos_right (2 ^ (W * (out.drop pos).length)) h1
      -- 2^(W pos) * (val drop + val b) = val out - val take + val c * 2^(ik) ≥ 2^(W pos) * 2^(W·len)
      have h3 : 2 ^ (W * pos) * (val W (out.drop pos) + val W b) ≤ val W out + val W c * 2 ^ (i * k) := by
        rw [Nat.mul_add, b1, ← Nat.mul_assoc, Nat.mul_comm (2 ^ (W * pos)) (val W c), Nat.mul_assoc, hshift]; omega
      have h4 : 2 ^ (W * pos) * 2 ^ (W * (out.drop pos).length) ≤ 2 ^ (W * pos) * (val W (out.drop pos) + val W b) :=
        Nat.mul_le_mul_left _ (by omega)
      rw [Nat.mul_comm] at h4; omega
    rw [hc2, Nat.mul_zero, Nat.add_zero] at a1
    -- apply the induction hypothesis
    have hvnew : val W (out.take pos ++ r) = val W out + val W c * 2 ^ (i * k) := by
      rw [hval', a1, hsplit, Nat.mul_add, b1, ← Nat.mul_assoc, Nat.mul_comm (2 ^ (W * pos)) (val W c), Nat.mul_assoc, hshift]
      omega
    rw [ih (i + 1) (out.take pos ++ r) (fun x hx => hcs x (by simp [hx])) hout' hlen' (by omega)
      (by rw [hvnew, Nat.add_mul]; exact hS), hvnew]
    rw [Nat.succ_mul, pow_add]; ring

/-- **`from_chunks` with the word-level kernels = `Σ chunkᵢ · 2^(i·k)`**, for word slices of any length -/
theorem fromChunksW_eq (W k : Nat) (hW : 1 ≤ W) (hk : 1 ≤ k) (chunks : List (List Nat))
    (hc : ∀ c ∈ chunks, IsWords W c) :
    fromChunksW W k chunks = .ok (ofChunksSpec k (chunks.map (val W))) := by
  unfold fromChunksW
  rw [if_neg (by omega)]
  by_cases hnil : chunks = []
  · subst hnil; simp [ofChunksSpec]
  · rw [if_neg hnil]
    simp only []
    congr 1
    have hmax : ∀ (l : List Nat) (a : Nat), ∀ x ∈ l, x ≤ l.foldl max a := by
      intro l
      induction l with
      | nil => intro a x hx; cases hx
      | cons y l ih =>
        intro a x hx
        simp only [List.foldl_cons]
        rcases List.mem_cons.mp hx with h | h
        · subst h
          have hmono : ∀ (l : List Nat) (a : Nat), a ≤ l.foldl max a := by
            intro l; induction l with
            | nil => intro a; exact Nat.le_refl _
            | cons z l ih2 => intro a; simp only [List.foldl_cons]; exact Nat.le_trans (Nat.le_max_left a z) (ih2 _)
          exact Nat.le_trans (Nat.le_max_right a x) (hmono l _)
        · exact ih _ x h
    have h := chunksToWords_spec W k hW hk ((chunks.map List.length).foldl max 0) chunks.length chunks 0
      (List.replicate ((chunks.map List.length).foldl max 0 + (chunks.length - 1) * k + 1) 0)
      (fun c hcm => ⟨hc c hcm, hmax _ 0 c.length (List.mem_map.mpr ⟨c, hcm, rfl⟩)⟩)
      (by intro x hx; have := List.eq_of_mem_replicate hx; subst this; exact Nat.pow_pos (by omega))
      (by simp) (by simp)
      (by
        have : val W (List.replicate ((chunks.map List.length).foldl max 0 + (chunks.length - 1) * k + 1) 0) = 0 := by
          rw [val_eq_ofDigitsLE]; exact ofDigitsLE_replicate_zero _ _
        rw [this]; simp)
    rw [h]
    have : val W (List.replicate ((chunks.map List.length).foldl max 0 + (chunks.length - 1) * k + 1) 0) = 0 := by
      rw [val_eq_ofDigitsLE]; exact ofDigitsLE_replicate_zero _ _
    rw [this]; simp

end Dashu.Model.Text
