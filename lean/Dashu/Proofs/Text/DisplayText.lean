import Dashu.Proofs.Text.DisplayLink
import Dashu.Proofs.Text.FloatWidth
/-
  C08 — the text of `Display` (no width) IS the text of the executable specification `displaySpec`.
-/
namespace Dashu.Model.Text
open Dashu.Model.Float

theorem rep_single (k c : Nat) : rep k [c] = List.replicate k c := by
  unfold rep
  induction k with
  | zero => rfl
  | succ k ih => rw [List.replicate_succ, List.flatten_cons, ih, List.replicate_succ]; rfl

/-- `fixedPointText` on an arbitrary digit-character string -/
def fpL (S : List Nat) (k : Nat) : List Nat :=
  let ds := List.replicate (k + 1 - S.length) 48 ++ S
  if k = 0 then ds else ds.take (ds.length - k) ++ [46] ++ ds.drop (ds.length - k)

theorem fixedPointText_eq_fpL (B n k : Nat) : fixedPointText B n k = fpL (printSpec B false n) k := by
  unfold fixedPointText fpL
  simp only [rep_single]

/-- the `exp < 0` layout of `fmt_round` (integer part or `0`, point, leading zeros, fraction digits) is the
    fixed-point text of the digit string with `e` fractional positions -/
theorem layout_eq_fpL (S : List Nat) (e : Nat) (he : 1 ≤ e) :
    orZero (S.take (S.length - e)) ++ [46] ++ List.replicate (e - (S.drop (S.length - e)).length) 48 ++
        S.drop (S.length - e) = fpL (orZero S) e := by
  have he0 : e ≠ 0 := by omega
  unfold fpL
  simp only [he0, if_false]
  by_cases hL : S.length > e
  · have hne : S ≠ [] := by intro h; subst h; simp at hL
    have hoz : orZero S = S := by unfold orZero; simp [hne]
    have htk : S.take (S.length - e) ≠ [] := by
      intro h; have := congrArg List.length h; simp at this; omega
    have hoz2 : orZero (S.take (S.length - e)) = S.take (S.length - e) := by unfold orZero; simp [htk]
    rw [hoz, hoz2]
    have h0 : e + 1 - S.length = 0 := by omega
    have h1 : e - (S.drop (S.length - e)).length = 0 := by simp; omega
    rw [h0, h1]
    simp
  · have hLe : S.length ≤ e := by omega
    have h0 : S.length - e = 0 := by omega
    rw [h0, List.take_zero, List.drop_zero]
    have hoz2 : orZero ([] : List Nat) = [48] := rfl
    rw [hoz2]
    by_cases hne : S = []
    · subst hne
      have hoz : orZero ([] : List Nat) = [48] := rfl
      rw [hoz]
      obtain ⟨n, rfl⟩ : ∃ n, e = n + 1 := ⟨e - 1, by omega⟩
      simp only [List.length_nil, Nat.sub_zero, List.append_nil, List.length_cons, Nat.add_sub_cancel,
        List.length_append, List.length_replicate]
      have e1 : n + 1 + 1 - (n + 1) = 1 := by omega
      rw [e1]
      have e2 : List.replicate (n + 1) 48 ++ [48] = 48 :: (List.replicate n 48 ++ [48]) := by
        rw [List.replicate_succ]; rfl
      rw [e2]
      simp only [List.take_succ_cons, List.take_zero, List.drop_succ_cons, List.drop_zero]
      rw [← List.replicate_succ']
    · have hoz : orZero S = S := by unfold orZero; simp [hne]
      rw [hoz]
      obtain ⟨n, hn⟩ : ∃ n, e = S.length + n := ⟨e - S.length, by omega⟩
      have e0 : e + 1 - S.length = n + 1 := by omega
      have e3 : e - S.length = n := by omega
      rw [e0, e3]
      have hlen : (List.replicate (n + 1) 48 ++ S).length - e = 1 := by
        simp only [List.length_append, List.length_replicate]; omega
      rw [hlen, List.replicate_succ]
      simp

/-- appending zeros to the digit string and as many fractional positions appends the zeros to the text -/
theorem fpL_append_zeros (S : List Nat) (e t : Nat) (he : 1 ≤ e) :
    fpL (S ++ List.replicate t 48) (e + t) = fpL S e ++ List.replicate t 48 := by
  unfold fpL
  have h1 : e + t ≠ 0 := by omega
  have h2 : e ≠ 0 := by omega
  simp only [h1, h2, if_false, List.length_append, List.length_replicate]
  have hp : e + t + 1 - (S.length + t) = e + 1 - S.length := by omega
  rw [hp]
  generalize hP : List.replicate (e + 1 - S.length) 48 = P
  have hPl : P.length = e + 1 - S.length := by rw [← hP]; simp
  have hc : e + 1 - S.length + (S.length + t) - (e + t) = e + 1 - S.length + S.length - e := by omega
  rw [hc]
  have hle : e + 1 - S.length + S.length - e ≤ (P ++ S).length := by
    rw [List.length_append, hPl]; omega
  rw [← List.append_assoc P S, List.take_append_of_le_length hle, List.drop_append_of_le_length hle]
  simp

/-- an integer followed by `t` zeros, read with `t` fractional positions -/
theorem fpL_int_zeros (S : List Nat) (hS : S ≠ []) (t : Nat) :
    fpL (S ++ List.replicate t 48) t = S ++ (if t > 0 then [46] ++ List.replicate t 48 else []) := by
  unfold fpL
  have hL : 1 ≤ S.length := List.length_pos_of_ne_nil hS
  have hp : t + 1 - (S ++ List.replicate t 48).length = 0 := by simp; omega
  rw [hp]
  by_cases ht : t = 0
  · subst ht; simp
  · have : t > 0 := by omega
    simp only [ht, this, if_false, if_true, List.replicate_zero, List.nil_append, List.length_append,
      List.length_replicate, Nat.add_sub_cancel]
    rw [List.take_left' rfl, List.drop_left' rfl]
    simp

theorem digitsAux_mul_pow {r : Nat} (hr : 2 ≤ r) (n : Nat) (hn : n ≠ 0) (t : Nat) :
    digitsAux r (n * r ^ t) [] = digitsAux r n [] ++ List.replicate t 0 := by
  induction t with
  | zero => simp
  | succ t ih =>
    have hne : n * r ^ (t + 1) ≠ 0 := by
      have : 0 < r ^ (t + 1) := Nat.pow_pos (by omega)
      exact Nat.mul_ne_zero hn (by omega)
    rw [digitsAux_succ hr hne]
    have e1 : n * r ^ (t + 1) / r = n * r ^ t := by
      rw [pow_succ, ← Nat.mul_assoc]; exact Nat.mul_div_cancel _ (by omega)
    have e2 : n * r ^ (t + 1) % r = 0 := by
      rw [pow_succ, ← Nat.mul_assoc]; exact Nat.mul_mod_left _ _
    rw [e1, e2, ih, List.append_assoc, ← List.replicate_succ']

/-- the digits of `n · B^t` are the digits of `n` followed by `t` zeros -/
theorem printSpec_mul_pow (B : Nat) (hB : 2 ≤ B) (n : Nat) (hn : n ≠ 0) (t : Nat) :
    printSpec B false (n * B ^ t) = printSpec B false n ++ List.replicate t 48 := by
  have hne : n * B ^ t ≠ 0 := by
    have : 0 < B ^ t := Nat.pow_pos (by omega)
    exact Nat.mul_ne_zero hn (by omega)
  unfold printSpec digits
  simp only [hne, hn, if_false]
  rw [digitsAux_mul_pow hB n hn t, List.map_append]
  congr 1
  simp [digitChar]

theorem printSpec_ne_nil' (B : Nat) (hB : 2 ≤ B) (n : Nat) : printSpec B false n ≠ [] :=
  printSpec_ne_nil B false n hB

/-- `signif_str`, with "at least a zero": the digit string of the magnitude of the printed significand -/
theorem orZero_signStr (B : Nat) (hB : 2 ≤ B) (s s' : Int) (h1 : s < 0 → s' ≤ 0) (h2 : 0 ≤ s → 0 ≤ s') :
    orZero (if s < 0 then (printSpecInt B false s').drop 1 else printSpecInt B false s') =
      printSpec B false s'.natAbs ∧
    (s' ≠ 0 → (if s < 0 then (printSpecInt B false s').drop 1 else printSpecInt B false s') =
      printSpec B false s'.natAbs) := by
  have hne := printSpec_ne_nil' B hB s'.natAbs
  have key : s' ≠ 0 → (if s < 0 then (printSpecInt B false s').drop 1 else printSpecInt B false s') =
      printSpec B false s'.natAbs := by
    intro h0
    by_cases hs : s < 0
    · have : s' < 0 := by have := h1 hs; omega
      simp [hs, printSpecInt, this]
    · have : ¬ s' < 0 := by have := h2 (by omega); omega
      simp [hs, printSpecInt, this]
  refine ⟨?_, key⟩
  by_cases h0 : s' = 0
  · subst h0
    by_cases hs : s < 0
    · simp [hs, printSpecInt, printSpec, digits, orZero, digitChar]
    · simp [hs, printSpecInt, printSpec, digits, orZero, digitChar]
  · rw [key h0]; unfold orZero; simp [hne]

theorem dispPair_some (B : Nat) (m : Mode) (p : Nat) (r : FRepr) :
    dispPair B m (some p) r =
      if (p : Int) + r.exp < 0 then (precRounded B m p r, -(p : Int)) else (r.signif, r.exp) := by
  have : dispPair B m (some p) r = precPair B m p r := rfl
  rw [this, precPair_eq]

theorem fpL_zero (S : List Nat) (hS : S ≠ []) : fpL S 0 = S := by
  unfold fpL
  have : 0 + 1 - S.length = 0 := by have := List.length_pos_of_ne_nil hS; omega
  simp [this]

/-- **the text `Display` prints (no width) IS the text of the executable specification** — without a precision
    the exact positional expansion of the value, with precision `k` the fixed-point text of the value rounded to
    `k` fractional digits under the mode (`displaySpec`), sign and `+` included; for every repr whose zero is
    written with exponent 0 (every normalised repr) -/
theorem display_text_eq_spec (B : Nat) (hB : 2 ≤ B) (m : Mode) (plus : Bool) (prec : Option Nat) (r : FRepr)
    (hz : r.signif = 0 → r.exp = 0) :
    fmtRound B m { plus := plus } prec r = displaySpec B m plus prec r := by
  rw [fmtRound_plain, fmtRoundCore_eq_bodyG]
  have hB0 : 0 < B := by omega
  cases prec with
  | none =>
    have hpair : dispPair B m none r = (r.signif, r.exp) := rfl
    obtain ⟨hoz, hS⟩ := orZero_signStr B hB r.signif r.signif (fun h => by omega) (fun h => h)
    have hstr : dispStr B m none r =
        (if r.signif < 0 then (printSpecInt B false r.signif).drop 1 else printSpecInt B false r.signif) := rfl
    rw [hpair, hstr]
    generalize (if r.signif < 0 then (printSpecInt B false r.signif).drop 1 else printSpecInt B false r.signif) = S at *
    unfold displaySpec fSign
    simp only
    congr 1
    by_cases he : r.exp < 0
    · have hs0 : r.signif ≠ 0 := fun h => by have := hz h; omega
      have hSe := hS hs0
      have hne : S ≠ [] := by rw [hSe]; exact printSpec_ne_nil' B hB _
      obtain ⟨e, hee, he1⟩ : ∃ e : Nat, (-r.exp).toNat = e ∧ 1 ≤ e := ⟨(-r.exp).toNat, rfl, by omega⟩
      have hge : ¬ r.exp ≥ 0 := by omega
      unfold bodyG
      simp only [he, hge, if_true, if_false, hee]
      have hfd : (S.drop (S.length - e)).length > 0 := by
        have := List.length_pos_of_ne_nil hne
        rw [List.length_drop]; omega
      rw [if_pos hfd, rep_single, layout_eq_fpL S e he1, hoz, fixedPointText_eq_fpL]
    · have hge : r.exp ≥ 0 := by omega
      unfold bodyG
      simp only [he, hge, if_true, if_false, List.append_nil, rep_single, hoz]
      by_cases hs0 : r.signif = 0
      · have := hz hs0
        simp [hs0, this]
      · rw [printSpec_mul_pow B hB _ (by omega)]
  | some p =>
    rw [displaySpec_some B hB m plus p r]
    unfold fSign
    congr 1
    rw [dispPair_some]
    obtain ⟨hs1, hs2⟩ := precRounded_sign B hB m p r
    by_cases hd : (p : Int) + r.exp < 0
    · -- digits are dropped: the pair is (R, -p)
      have hstr : dispStr B m (some p) r =
          (if r.signif < 0 then (printSpecInt B false (precRounded B m p r)).drop 1
            else printSpecInt B false (precRounded B m p r)) := by
        unfold dispStr; rw [dispPair_some]; simp only [hd, if_true]
      obtain ⟨hoz, _⟩ := orZero_signStr B hB r.signif (precRounded B m p r) hs1 hs2
      rw [hstr]
      simp only [hd, if_true]
      generalize (if r.signif < 0 then (printSpecInt B false (precRounded B m p r)).drop 1
            else printSpecInt B false (precRounded B m p r)) = S at *
      rw [fixedPointText_eq_fpL, ← hoz]
      by_cases hp0 : p = 0
      · subst hp0
        have hoz_ne : orZero S ≠ [] := by unfold orZero; split <;> simp_all
        unfold bodyG
        simp [rep_single, fpL_zero _ hoz_ne]
      · have hneg : -(p : Int) < 0 := by omega
        have hen : (-(-(p : Int))).toNat = p := by omega
        unfold bodyG
        simp only [hneg, if_true, hen, hp0, ne_eq, not_false_eq_true, ge_iff_le, Nat.le_refl, rep_single]
        exact layout_eq_fpL S p (by omega)
    · -- nothing is dropped: the pair is (signif, exp); zeros are appended
      have hstr : dispStr B m (some p) r =
          (if r.signif < 0 then (printSpecInt B false r.signif).drop 1 else printSpecInt B false r.signif) := by
        unfold dispStr; rw [dispPair_some]; simp only [hd, if_false]
      obtain ⟨hoz, hS⟩ := orZero_signStr B hB r.signif r.signif (fun h => by omega) (fun h => h)
      have hR : (precRounded B m p r).natAbs = r.signif.natAbs * B ^ ((p : Int) + r.exp).toNat := by
        unfold precRounded
        simp only [hd, if_false]
        rw [Int.natAbs_mul, Int.natAbs_natCast]
      rw [hstr, hR]
      simp only [hd, if_false]
      generalize (if r.signif < 0 then (printSpecInt B false r.signif).drop 1 else printSpecInt B false r.signif) = S at *
      rw [fixedPointText_eq_fpL]
      by_cases he : r.exp < 0
      · have hs0 : r.signif ≠ 0 := fun h => by have := hz h; omega
        have hSe := hS hs0
        obtain ⟨e, hee, he1⟩ : ∃ e : Nat, (-r.exp).toNat = e ∧ 1 ≤ e := ⟨(-r.exp).toNat, rfl, by omega⟩
        have hp0 : p ≠ 0 := by omega
        unfold bodyG
        simp only [he, if_true, hee, hp0, ne_eq, not_false_eq_true, rep_single]
        rw [printSpec_mul_pow B hB _ (by omega), ← hSe]
        by_cases hge : e ≥ p
        · have hep : e = p := by omega
          have ht : ((p : Int) + r.exp).toNat = 0 := by omega
          simp only [hge, if_true, ht, List.replicate_zero, List.append_nil]
          rw [← hep, layout_eq_fpL S e he1]
          have : orZero S = S := by
            unfold orZero; rw [hSe]; simp [printSpec_ne_nil' B hB _]
          rw [this]
        · have ht : ((p : Int) + r.exp).toNat = p - e := by omega
          simp only [hge, if_false, ht]
          rw [layout_eq_fpL S e he1]
          have : orZero S = S := by
            unfold orZero; rw [hSe]; simp [printSpec_ne_nil' B hB _]
          rw [this]
          have hfl := fpL_append_zeros S e (p - e) he1
          have hpe : e + (p - e) = p := by omega
          rw [hpe] at hfl
          rw [hfl]
      · have hge : ¬ r.exp < 0 := he
        have ht : ((p : Int) + r.exp).toNat = r.exp.toNat + p := by omega
        unfold bodyG
        simp only [he, if_false, rep_single, hoz, ht]
        by_cases hs0 : r.signif = 0
        · have hexp := hz hs0
          simp only [hs0, hexp, Int.natAbs_zero, Int.toNat_zero, Nat.zero_mul, List.replicate_zero, List.append_nil]
          have h48 : printSpec B false 0 = [48] := by simp [printSpec, digits, digitChar]
          rw [h48]
          by_cases hp : p > 0
          · simp only [hp, if_true]
            have := layout_eq_fpL [] p (by omega)
            simp only [List.length_nil, Nat.zero_sub, List.take_nil, List.drop_nil, Nat.sub_zero, List.append_nil] at this
            have hoz0 : orZero ([] : List Nat) = [48] := rfl
            rw [hoz0] at this
            rw [← this]; simp
          · have hp0 : p = 0 := by omega
            subst hp0; simp [fpL_zero]
        · rw [printSpec_mul_pow B hB _ (by omega), ← List.replicate_append_replicate, ← List.append_assoc]
          have hne : printSpec B false r.signif.natAbs ++ List.replicate r.exp.toNat 48 ≠ [] := by
            intro h; exact printSpec_ne_nil' B hB _ (List.append_eq_nil_iff.mp h).1
          rw [fpL_int_zeros _ hne p]

/-- what `Repr::new` returns writes zero with exponent 0 -/
theorem new_zero_exp (B : Nat) (hB : 2 ≤ B) (s e : Int) :
    (FRepr.new B s e).signif = 0 → (FRepr.new B s e).exp = 0 := by
  intro h
  by_cases hs : s = 0
  · subst hs; simp [FRepr.new]
  · exfalso
    have hv := FRepr.new_value B (by omega) s e
    unfold FRepr.toRat at hv
    rw [h] at hv
    have hp := bpowQ_pos B (by omega) e
    have hsq : (s : ℚ) ≠ 0 := by exact_mod_cast hs
    have : (s : ℚ) * bpowQ B e ≠ 0 := mul_ne_zero hsq (ne_of_gt hp)
    apply this
    rw [← hv]; simp

/-- `Display` of everything `Repr::new` returns is the specification text -/
theorem display_text_eq_spec_new (B : Nat) (hB : 2 ≤ B) (m : Mode) (plus : Bool) (prec : Option Nat) (s e : Int) :
    fmtRound B m { plus := plus } prec (FRepr.new B s e) = displaySpec B m plus prec (FRepr.new B s e) :=
  display_text_eq_spec B hB m plus prec _ (new_zero_exp B hB s e)

end Dashu.Model.Text
