import Dashu.Proofs.Text.FloatParse
/-
  C08 — `Repr::from_str_native` equals the documented grammar `parseFloatSpec` on EVERY byte string:
  all scale markers, the hexadecimal form of base 2, underscores, and every error case.
-/
namespace Dashu.Model.Text
open Dashu.Model.Float

theorem filter_len (t : List Nat) : (t.filter (· ≠ 95)).length + countUs t = t.length := by
  unfold countUs
  induction t with
  | nil => rfl
  | cons c t ih =>
    by_cases h : c = 95
    · subst h; simp at ih ⊢; omega
    · simp [h] at ih ⊢; omega

theorem digitOf_plus (r : Nat) : digitOf r 43 = none := by simp [digitOf, alnumVal]

/-- `parse_unsigned` (sign rejected, `UBig::from_str_radix`) is the digit-string check of the grammar -/
theorem parseUnsignedPart_eq (W : Nat) (hW : 36 < 2 ^ W) (radix : Nat) (hv : validRadix radix = true) (t : List Nat) :
    parseUnsignedPart W t radix = (chkDigits radix t false).map (ofDigits radix) := by
  have hr := validRadix_iff.mp hv
  unfold parseUnsignedPart chkDigits digitsOnly
  by_cases hnil : t = []
  · subst hnil
    simp only [List.head?_nil, if_true]
    rw [parseRadix_spec W hW]
    simp [parseRadixSpec, hv, splitSign, parseBodySpec, digitValues, Except.map]
  · rw [if_neg hnil]
    cases t with
    | nil => exact absurd rfl hnil
    | cons c t' =>
      by_cases h43 : c = 43
      · subst h43
        have hall : ((43 :: t').all (· == 95)) = false := by simp
        simp only [List.head?_cons, beq_self_eq_true, if_true, hall, Bool.false_eq_true, if_false]
        have : (43 :: t').filter (· ≠ 95) = 43 :: t'.filter (· ≠ 95) := by simp
        rw [this]
        simp [digitValues, digitOf_plus, Except.map]
      · have hhead : ((c :: t').head? == some 43) = false := by simp [h43]
        rw [hhead]
        simp only [Bool.false_eq_true, if_false]
        rw [parseRadix_spec W hW]
        unfold parseRadixSpec
        simp only [hv, Bool.not_true, Bool.false_eq_true, if_false]
        have hsp : splitSign false (c :: t') = (false, c :: t') := by
          unfold splitSign
          split
          · rename_i h; simp at h; rw [h.1, h.2]; rfl
          · rename_i h; simp at h; exact absurd h.1 h43
          · rfl
        rw [hsp]
        simp only []
        unfold parseBodySpec
        by_cases hus : (c :: t').all (· == 95) = true
        · rw [if_pos hus, (all_us_iff _).mp hus]
          simp [digitValues, Except.map]
        · rw [if_neg hus]
          have hne : (c :: t').filter (· ≠ 95) ≠ [] := fun h => hus ((all_us_iff _).mpr h)
          cases hd : digitValues radix ((c :: t').filter (· ≠ 95)) with
          | none => simp [Except.map]
          | some ds =>
            cases ds with
            | nil => exact absurd (List.length_eq_zero_iff.mp (digitValues_length hd).symm) hne
            | cons a l => simp [Except.map, applySign]

theorem chkDigits_length {radix : Nat} {t ds : List Nat} {ae : Bool} (h : chkDigits radix t ae = .ok ds) :
    ds.length = t.length - countUs t ∧ (ds = [] ↔ t = []) := by
  unfold chkDigits digitsOnly at h
  by_cases hnil : t = []
  · subst hnil
    cases ae <;> simp at h
    subst h; simp [countUs]
  · rw [if_neg hnil] at h
    by_cases hus : t.all (· == 95) = true
    · rw [if_pos hus] at h; cases h
    · rw [if_neg hus] at h
      have hne : t.filter (· ≠ 95) ≠ [] := fun h' => hus ((all_us_iff _).mpr h')
      cases hd : digitValues radix (t.filter (· ≠ 95)) with
      | none => rw [hd] at h; cases h
      | some ds' =>
        rw [hd] at h
        simp only [Except.ok.injEq] at h; subst h
        have hl := digitValues_length hd
        have := filter_len t
        refine ⟨by omega, ?_⟩
        constructor
        · intro h0; subst h0
          exact absurd (List.length_eq_zero_iff.mp (by simpa using hl.symm)) hne
        · intro h0; exact absurd h0 hnil

/-- the marker set depends on the prefix only in base 2 -/
theorem isScaleMarker_hex (B : Nat) (hp : Bool) : isScaleMarker B hp = isScaleMarker B (B == 2 && hp) := by
  funext c
  by_cases h2 : B = 2
  · subst h2; simp
  · unfold isScaleMarker; simp [h2]

theorem rfindIdx_some {p : Nat → Bool} {l : List Nat} {i : Nat} (h : rfindIdx p l = some i) :
    i < l.length ∧ p (l.getD i 0) = true := by
  unfold rfindIdx at h
  cases hf : l.reverse.findIdx? p with
  | none => rw [hf] at h; cases h
  | some j =>
    rw [hf] at h
    simp only [Option.some.injEq] at h
    have hj := List.findIdx?_eq_some_iff_getElem.mp hf
    obtain ⟨hjlt, hpj, _⟩ := hj
    rw [List.length_reverse] at hjlt
    have hlt : i < l.length := by omega
    refine ⟨hlt, ?_⟩
    rw [List.getElem_reverse] at hpj
    have : l.length - 1 - j = i := by omega
    rw [List.getD_eq_getElem?_getD, List.getElem?_eq_getElem hlt]
    simp only [Option.getD_some]
    have e : l[l.length - 1 - j]'(by omega) = l[i] := by congr 1
    rw [← e]; exact hpj

theorem chk_ne {r : Nat} {t : List Nat} (a b : Bool) (h : t ≠ []) : chkDigits r t a = chkDigits r t b := by
  unfold chkDigits; simp [h]

theorem chk_nil_true (r : Nat) : chkDigits r [] true = .ok [] := by simp [chkDigits]

/-- the grammar after the sign and the scale part have been removed (the tail of `parseFloatSpec`) -/
def specBody (B : Nat) (hex neg : Bool) (scale : Int) (body : List Nat) : Except ParseError (FRepr × Nat) :=
  let body := if hex then body.drop 2 else body
  let radix := if hex then 16 else B
  let k := if hex then 4 else 1
  let parts := splitAtDot body
  let hasDot := (body.findIdx? (· == 46)).isSome
  if hasDot && body.length = 1 && !hex then .error .noDigits
  else
    match chkDigits radix parts.1 hasDot with
    | .error e => .error e
    | .ok di =>
      match chkDigits radix parts.2 true with
      | .error e => .error e
      | .ok df =>
        if di = [] ∧ df = [] then .error .noDigits
        else .ok (literalValue B radix k neg di df scale)

/-- what `from_str_native` does with the result of the body parser -/
def finishBody (B : Nat) (neg : Bool) (scale : Int) (r : Except ParseError (Nat × Nat × Nat)) :
    Except ParseError (FRepr × Nat) :=
  match r with
  | .error e => .error e
  | .ok (mag, dec, nd) => .ok (FRepr.new B (if neg then -(mag : Int) else (mag : Int)) (scale - (dec : Int)), nd)

theorem parseIntPart_plain (W : Nat) (hW : 36 < 2 ^ W) (B : Nat) (hB : validRadix B = true) (hp : Bool)
    (hhex : (B == 2 && hp) = false) (body : List Nat) (dot : Nat) (hd : dot < body.length) :
    parseIntPart W B hp false body dot =
      (chkDigits B (body.take dot) true).map (fun di => (ofDigits B di, di.length, B)) := by
  unfold parseIntPart
  simp only [hhex, Bool.false_eq_true, if_false, Bool.and_false, Bool.false_and]
  by_cases h0 : dot = 0
  · subst h0; simp [chk_nil_true, ofDigits_nil, Except.map]
  · have hne : body.take dot ≠ [] := by
      intro h; have := congrArg List.length h
      rw [List.length_take, List.length_nil] at this; omega
    rw [if_pos h0, parseUnsignedPart_eq W hW B hB, chk_ne true false hne]
    cases hc : chkDigits B (body.take dot) false with
    | error e => simp [Except.map]
    | ok di => simp [Except.map, (chkDigits_length hc).1]

theorem parseFracPart_plain (W : Nat) (hW : 36 < 2 ^ W) (B : Nat) (hB : validRadix B = true) (fsrc : List Nat) :
    parseFracPart W B B fsrc = (chkDigits B fsrc true).map (fun df => (ofDigits B df, df.length)) := by
  unfold parseFracPart
  have hB16 : (B == 2 && B == 16) = false := by
    by_cases h : B = 2
    · subst h; rfl
    · simp [h]
  simp only [hB16, Bool.false_eq_true, if_false]
  by_cases h0 : fsrc = []
  · subst h0; simp [chk_nil_true, ofDigits_nil, Except.map]
  · rw [if_pos h0, parseUnsignedPart_eq W hW B hB, chk_ne true false h0]
    cases hc : chkDigits B fsrc false with
    | error e => simp [Except.map]
    | ok df => simp [Except.map, (chkDigits_length hc).1]

/-- the plain form (no hexadecimal prefix in effect, no `p` marker) -/
theorem body_plain (W : Nat) (hW : 36 < 2 ^ W) (B : Nat) (hB : validRadix B = true) (hp : Bool)
    (hhex : (B == 2 && hp) = false) (neg : Bool) (scale : Int) (body : List Nat) :
    finishBody B neg scale (parseBodyF W B hp false body) = specBody B false neg scale body := by
  unfold parseBodyF specBody splitAtDot finishBody
  simp only [hhex, Bool.false_eq_true, if_false, Bool.and_false, Bool.false_and, Bool.not_false, Bool.and_true]
  cases hf : body.findIdx? (· == 46) with
  | none =>
    simp only [Option.isSome_none, Bool.false_and, Bool.false_eq_true, if_false]
    rw [parseUnsignedPart_eq W hW B hB, chk_nil_true]
    cases hc : chkDigits B body false with
    | error e => simp [Except.map]
    | ok di =>
      have hl := chkDigits_length hc
      have hne : di ≠ [] := by
        intro h0
        have := hl.2.mp h0
        subst this
        simp [chkDigits] at hc
      simp [Except.map, hne, literalValue, ofDigits_nil, hl.1]
  | some dot =>
    have hdot := List.findIdx?_eq_some_iff_getElem.mp hf
    obtain ⟨hdlt, _, _⟩ := hdot
    simp only [Option.isSome_some, Bool.true_and]
    by_cases hone : body.length = 1
    · simp [hone]
    · simp only [hone, if_false, decide_false, Bool.false_eq_true]
      rw [parseIntPart_plain W hW B hB hp hhex body dot hdlt]
      cases hci : chkDigits B (body.take dot) true with
      | error e => simp [Except.map]
      | ok di =>
        simp only [Except.map]
        rw [parseFracPart_plain W hW B hB]
        cases hcf : chkDigits B (body.drop (dot + 1)) true with
        | error e => simp [Except.map]
        | ok df =>
          simp only [Except.map]
          by_cases hz : di.length + df.length = 0
          · have h1 : di = [] := List.length_eq_zero_iff.mp (by omega)
            have h2 : df = [] := List.length_eq_zero_iff.mp (by omega)
            simp [h1, h2]
          · have hnn : ¬ (di = [] ∧ df = []) := by
              rintro ⟨h1, h2⟩; subst h1; subst h2; simp at hz
            rw [if_neg hz, if_neg hnn]
            unfold literalValue
            by_cases hfv : ofDigits B df = 0
            · simp [hfv]
            · simp [hfv]

theorem validRadix_16 : validRadix 16 = true := by decide

theorem parseFracPart_hex (W : Nat) (hW : 36 < 2 ^ W) (fsrc : List Nat) :
    parseFracPart W 2 16 fsrc = (chkDigits 16 fsrc true).map (fun df => (ofDigits 16 df, df.length * 4)) := by
  unfold parseFracPart
  have hB16 : ((2 : Nat) == 2 && (16 : Nat) == 16) = true := rfl
  simp only [hB16, if_true]
  by_cases h0 : fsrc = []
  · subst h0; simp [chk_nil_true, ofDigits_nil, Except.map]
  · rw [if_pos h0, parseUnsignedPart_eq W hW 16 validRadix_16, chk_ne true false h0]
    cases hc : chkDigits 16 fsrc false with
    | error e => simp [Except.map]
    | ok df => simp [Except.map, (chkDigits_length hc).1]

theorem parseIntPart_hex (W : Nat) (hW : 36 < 2 ^ W) (pm : Bool) (body : List Nat) (dot : Nat) (hd : dot ≠ 0) :
    parseIntPart W 2 true pm body dot =
      (chkDigits 16 ((body.take dot).drop 2) true).map (fun di => (ofDigits 16 di, 4 * di.length, 16)) := by
  unfold parseIntPart
  have h2 : ((2 : Nat) == 2 && true) = true := rfl
  simp only [h2, if_true, if_pos hd]
  by_cases h0 : (body.take dot).drop 2 = []
  · rw [h0]; simp [chk_nil_true, ofDigits_nil, Except.map, countUs]
  · rw [if_neg h0, parseUnsignedPart_eq W hW 16 validRadix_16, chk_ne true false h0]
    cases hc : chkDigits 16 ((body.take dot).drop 2) false with
    | error e => simp [Except.map]
    | ok di => simp [Except.map, (chkDigits_length hc).1]

/-- the hexadecimal form of base 2 (`0x` prefix; markers `p P @`) -/
theorem body_hex (W : Nat) (hW : 36 < 2 ^ W) (pm neg : Bool) (scale : Int) (x : Nat) (rest : List Nat)
    (hx : x ≠ 46) :
    finishBody 2 neg scale (parseBodyF W 2 true pm (48 :: x :: rest)) =
      specBody 2 true neg scale (48 :: x :: rest) := by
  unfold parseBodyF specBody splitAtDot finishBody
  have h2 : ((2 : Nat) == 2 && true) = true := rfl
  have hfind : (48 :: x :: rest).findIdx? (· == 46) = (rest.findIdx? (· == 46)).map (· + 2) := by
    rw [List.findIdx?_cons, List.findIdx?_cons]
    have h1 : ((48 : Nat) == 46) = false := by decide
    have h3 : (x == 46) = false := by simp [hx]
    simp only [h1, h3, Bool.false_eq_true, if_false, Option.map_map]
    congr 1
  simp only [h2, if_true, hfind, List.drop_succ_cons, List.drop_zero, Bool.not_true, Bool.and_false,
    Bool.false_eq_true, if_false]
  cases hf : rest.findIdx? (· == 46) with
  | none =>
    simp only [Option.map_none, Option.isSome_none]
    rw [parseUnsignedPart_eq W hW 16 validRadix_16, chk_nil_true]
    cases hc : chkDigits 16 rest false with
    | error e => simp [Except.map]
    | ok di =>
      have hl := chkDigits_length hc
      have hne : di ≠ [] := by
        intro h0
        have := hl.2.mp h0
        subst this
        simp [chkDigits] at hc
      simp [Except.map, hne, literalValue, ofDigits_nil, hl.1, Nat.mul_comm]
  | some d =>
    simp only [Option.map_some, Option.isSome_some]
    have hlen : ¬ (48 :: x :: rest).length = 1 := by simp
    rw [if_neg hlen, parseIntPart_hex W hW pm _ (d + 2) (by omega)]
    have htake : ((48 :: x :: rest).take (d + 2)).drop 2 = rest.take d := by simp
    have hdrop : (x :: rest).drop (d + 2) = rest.drop (d + 1) := by
      have : d + 2 = (d + 1) + 1 := by omega
      rw [this, List.drop_succ_cons]
    rw [htake, hdrop]
    cases hci : chkDigits 16 (rest.take d) true with
    | error e => simp [Except.map]
    | ok di =>
      simp only [Except.map]
      rw [parseFracPart_hex W hW]
      cases hcf : chkDigits 16 (rest.drop (d + 1)) true with
      | error e => simp [Except.map]
      | ok df =>
        simp only [Except.map]
        by_cases hz : 4 * di.length + df.length * 4 = 0
        · have h1 : di = [] := List.length_eq_zero_iff.mp (by omega)
          have h2 : df = [] := List.length_eq_zero_iff.mp (by omega)
          simp [h1, h2]
        · have hnn : ¬ (di = [] ∧ df = []) := by
            rintro ⟨h1, h2⟩; subst h1; subst h2; simp at hz
          rw [if_neg hz, if_neg hnn]
          unfold literalValue
          have harith : 4 * di.length + df.length * 4 = (di.length + df.length) * 4 := by omega
          by_cases hfv : ofDigits 16 df = 0
          · simp [hfv, harith]
          · simp [hfv, harith]

-- ---------------------------------------------------------------- unfolding both sides along the scale part

theorem model_none (W B : Nat) (src0 : List Nat)
    (h : rfindIdx (isScaleMarker B (B == 2 && hasHexPrefix (stripSignF src0).2)) (stripSignF src0).2 = none) :
    fromStrNative W B src0 =
      finishBody B (stripSignF src0).1 0
        (parseBodyF W B (hasHexPrefix (stripSignF src0).2) false (stripSignF src0).2) := by
  unfold fromStrNative fromStrNativeRaw splitScale finishBody
  dsimp only
  rw [isScaleMarker_hex]
  simp only [h]
  cases parseBodyF W B (hasHexPrefix (stripSignF src0).2) false (stripSignF src0).2 with
  | error e => rfl
  | ok t => rfl

theorem model_err (W B : Nat) (src0 : List Nat) (pos : Nat) (e : ParseError)
    (h : rfindIdx (isScaleMarker B (B == 2 && hasHexPrefix (stripSignF src0).2)) (stripSignF src0).2 = some pos)
    (hi : parseIsize 64 ((stripSignF src0).2.drop (pos + 1)) = .error e) :
    fromStrNative W B src0 = .error e := by
  unfold fromStrNative fromStrNativeRaw splitScale
  dsimp only
  rw [isScaleMarker_hex]
  simp only [h, hi]
  rfl

theorem model_ok (W B : Nat) (src0 : List Nat) (pos : Nat) (v : Int)
    (h : rfindIdx (isScaleMarker B (B == 2 && hasHexPrefix (stripSignF src0).2)) (stripSignF src0).2 = some pos)
    (hi : parseIsize 64 ((stripSignF src0).2.drop (pos + 1)) = .ok v) :
    fromStrNative W B src0 =
      finishBody B (stripSignF src0).1 v
        (parseBodyF W B (hasHexPrefix (stripSignF src0).2)
          (B == 2 && ((stripSignF src0).2.getD pos 0 == 112 || (stripSignF src0).2.getD pos 0 == 80))
          ((stripSignF src0).2.take pos)) := by
  unfold fromStrNative fromStrNativeRaw splitScale finishBody
  dsimp only
  rw [isScaleMarker_hex]
  simp only [h, hi]
  cases parseBodyF W B (hasHexPrefix (stripSignF src0).2)
      (B == 2 && ((stripSignF src0).2.getD pos 0 == 112 || (stripSignF src0).2.getD pos 0 == 80))
      ((stripSignF src0).2.take pos) with
  | error e => rfl
  | ok t => rfl

theorem spec_none (B : Nat) (src0 : List Nat)
    (h : rfindIdx (isScaleMarker B (B == 2 && hasHexPrefix (stripSignF src0).2)) (stripSignF src0).2 = none) :
    parseFloatSpec B src0 =
      specBody B (B == 2 && hasHexPrefix (stripSignF src0).2) (stripSignF src0).1 0 (stripSignF src0).2 := by
  unfold parseFloatSpec specBody
  simp only [h]
  rfl

theorem spec_err (B : Nat) (src0 : List Nat) (pos : Nat) (e : ParseError)
    (h : rfindIdx (isScaleMarker B (B == 2 && hasHexPrefix (stripSignF src0).2)) (stripSignF src0).2 = some pos)
    (hi : parseIsize 64 ((stripSignF src0).2.drop (pos + 1)) = .error e) :
    parseFloatSpec B src0 = .error e := by
  unfold parseFloatSpec
  simp only [h, hi, Except.map]

theorem spec_ok (B : Nat) (src0 : List Nat) (pos : Nat) (v : Int)
    (h : rfindIdx (isScaleMarker B (B == 2 && hasHexPrefix (stripSignF src0).2)) (stripSignF src0).2 = some pos)
    (hi : parseIsize 64 ((stripSignF src0).2.drop (pos + 1)) = .ok v) :
    parseFloatSpec B src0 =
      specBody B (B == 2 && hasHexPrefix (stripSignF src0).2) (stripSignF src0).1 v
        ((stripSignF src0).2.take pos) := by
  unfold parseFloatSpec specBody
  simp only [h, hi, Except.map]
  rfl

-- ---------------------------------------------------------------- facts about the prefix and the markers

theorem hasHexPrefix_shape {src : List Nat} (h : hasHexPrefix src = true) :
    ∃ x rest, src = 48 :: x :: rest ∧ (x = 120 ∨ x = 88) := by
  unfold hasHexPrefix at h
  match src, h with
  | [], h => simp at h
  | [_], h => simp at h
  | a :: x :: rest, h =>
    simp at h
    refine ⟨x, rest, ?_, ?_⟩
    · rcases h with h | h <;> rw [h.1]
    · rcases h with h | h
      · exact Or.inl h.2
      · exact Or.inr h.2

/-- with the prefix, the last marker (`p P @`) lies behind the prefix -/
theorem marker_after_prefix {x : Nat} {rest : List Nat} (hx : x = 120 ∨ x = 88) {pos : Nat}
    (h : rfindIdx (isScaleMarker 2 true) (48 :: x :: rest) = some pos) : 2 ≤ pos := by
  obtain ⟨_, hp⟩ := rfindIdx_some h
  match pos, hp with
  | 0, hp => simp [isScaleMarker] at hp
  | 1, hp => rcases hx with hx | hx <;> subst hx <;> simp [isScaleMarker] at hp
  | n + 2, _ => omega

/-- the `p` marker only exists with the prefix -/
theorem pmarker_false (B : Nat) (hp : Bool) (hhex : (B == 2 && hp) = false) (src : List Nat) (pos : Nat)
    (h : rfindIdx (isScaleMarker B (B == 2 && hp)) src = some pos) :
    (B == 2 && (src.getD pos 0 == 112 || src.getD pos 0 == 80)) = false := by
  by_cases h2 : B = 2
  · subst h2
    have hpf : hp = false := by simpa using hhex
    subst hpf
    obtain ⟨_, hm⟩ := rfindIdx_some h
    generalize src.getD pos 0 = c at hm ⊢
    simp [isScaleMarker] at hm
    rcases hm with (hm | hm) | hm <;> subst hm <;> rfl
  · simp [h2]

-- ---------------------------------------------------------------- the equivalence

/-- **`from_str_native` is the documented grammar, on every byte string** -/
theorem fromStrNative_eq_spec (W : Nat) (hW : 36 < 2 ^ W) (B : Nat) (hB : validRadix B = true)
    (src0 : List Nat) : fromStrNative W B src0 = parseFloatSpec B src0 := by
  generalize hsrc : (stripSignF src0).2 = src
  generalize hneg : (stripSignF src0).1 = neg
  cases hr : rfindIdx (isScaleMarker B (B == 2 && hasHexPrefix src)) src with
  | none =>
    rw [← hsrc] at hr
    rw [model_none W B src0 hr, spec_none B src0 hr, hsrc, hneg]
    cases hhex : (B == 2 && hasHexPrefix src) with
    | false => exact body_plain W hW B hB _ hhex neg 0 src
    | true =>
      simp only [Bool.and_eq_true, beq_iff_eq] at hhex
      obtain ⟨hB2, hpre⟩ := hhex
      subst hB2
      obtain ⟨x, rest, hs, hx⟩ := hasHexPrefix_shape hpre
      rw [hpre, hs]
      exact body_hex W hW false neg 0 x rest (by rcases hx with h | h <;> omega)
  | some pos =>
    have hr' := hr
    rw [← hsrc] at hr
    cases hi : parseIsize 64 (src.drop (pos + 1)) with
    | error e =>
      rw [← hsrc] at hi
      rw [model_err W B src0 pos e hr hi, spec_err B src0 pos e hr hi]
    | ok v =>
      rw [← hsrc] at hi
      rw [model_ok W B src0 pos v hr hi, spec_ok B src0 pos v hr hi, hsrc, hneg]
      cases hhex : (B == 2 && hasHexPrefix src) with
      | false =>
        rw [pmarker_false B (hasHexPrefix src) hhex src pos hr']
        exact body_plain W hW B hB _ hhex neg v (src.take pos)
      | true =>
        simp only [Bool.and_eq_true, beq_iff_eq] at hhex
        obtain ⟨hB2, hpre⟩ := hhex
        subst hB2
        obtain ⟨x, rest, hs, hx⟩ := hasHexPrefix_shape hpre
        rw [hpre, hs] at hr' ⊢
        have hpos := marker_after_prefix hx hr'
        obtain ⟨n, rfl⟩ : ∃ n, pos = n + 2 := ⟨pos - 2, by omega⟩
        rw [List.take_succ_cons, List.take_succ_cons]
        exact body_hex W hW _ neg v x (rest.take n) (by rcases hx with h | h <;> omega)

-- ---------------------------------------------------------------- what an accepted literal denotes

theorem digitValues_lt' {r : Nat} {t ds : List Nat} (h : digitValues r t = some ds) : ∀ d ∈ ds, d < r := by
  induction t generalizing ds with
  | nil => simp [digitValues] at h; subst h; simp
  | cons c cs ih =>
    simp only [digitValues] at h
    cases hd : digitOf r c with
    | none => simp [hd] at h
    | some d =>
      cases hr : digitValues r cs with
      | none => simp [hd, hr] at h
      | some rest =>
        simp [hd, hr] at h
        subst h
        intro x hx
        rcases List.mem_cons.mp hx with hx | hx
        · subst hx; exact digitOf_lt hd
        · exact ih hr x hx

theorem chkDigits_lt {radix : Nat} {t ds : List Nat} {ae : Bool} (h : chkDigits radix t ae = .ok ds) :
    ∀ d ∈ ds, d < radix := by
  unfold chkDigits digitsOnly at h
  by_cases hnil : t = []
  · subst hnil
    cases ae <;> simp at h
    subst h; simp
  · rw [if_neg hnil] at h
    by_cases hus : t.all (· == 95) = true
    · rw [if_pos hus] at h; cases h
    · rw [if_neg hus] at h
      cases hd : digitValues radix (t.filter (· ≠ 95)) with
      | none => rw [hd] at h; cases h
      | some ds' =>
        rw [hd] at h
        simp only [Except.ok.injEq] at h; subst h
        exact digitValues_lt' hd

/-- the value of a literal: `±(digits of int ++ frac in the radix) · B^(scale − |frac|·k)`, exactly -/
theorem literalValue_value (B radix k : Nat) (hB : 2 ≤ B) (hrk : radix = B ^ k) (neg : Bool)
    (di df : List Nat) (scale : Int) :
    (literalValue B radix k neg di df scale).1.toRat B =
        (if neg then -1 else 1) * (ofDigits radix (di ++ df) : ℚ) *
          bpowQ B (scale - ((df.length * k : Nat) : Int)) ∧
      (literalValue B radix k neg di df scale).2 = (di.length + df.length) * k := by
  refine ⟨?_, rfl⟩
  unfold literalValue
  simp only
  rw [FRepr.new_value B (by omega), ofDigits_append]
  have hpow : radix ^ df.length = B ^ (df.length * k) := by
    rw [hrk, ← Nat.pow_mul, Nat.mul_comm]
  rw [hpow]
  by_cases hfv : ofDigits radix df = 0
  · simp only [hfv, if_true, Nat.add_zero]
    have hsplit : scale = ((df.length * k : Nat) : Int) + (scale - ((df.length * k : Nat) : Int)) := by omega
    conv_lhs => rw [hsplit]
    rw [bpowQ_add B (by omega), bpowQ_nat]
    cases neg <;> simp <;> ring
  · simp only [hfv, if_false]
    cases neg <;> simp

theorem specBody_ok {B : Nat} {hex neg : Bool} {scale : Int} {body : List Nat} {res : FRepr × Nat}
    (h : specBody B hex neg scale body = .ok res) :
    ∃ di df : List Nat, (∀ d ∈ di ++ df, d < (if hex then 16 else B)) ∧ di ++ df ≠ [] ∧
      res = literalValue B (if hex then 16 else B) (if hex then 4 else 1) neg di df scale := by
  unfold specBody at h
  cases hex <;> simp only [Bool.false_eq_true, if_false, if_true] at h ⊢
  all_goals
    split at h
    · cases h
    · split at h
      · cases h
      · rename_i di hdi
        split at h
        · cases h
        · rename_i df hdf
          split at h
          · cases h
          · rename_i hne
            simp only [Except.ok.injEq] at h
            refine ⟨di, df, ?_, ?_, h.symm⟩
            · intro d hd
              rcases List.mem_append.mp hd with hd | hd
              · exact chkDigits_lt hdi d hd
              · exact chkDigits_lt hdf d hd
            · intro h0
              exact hne (List.append_eq_nil_iff.mp h0)

/-- every accepted string denotes exactly the number its digits spell, and the precision is the digit
    count (four bits per hexadecimal digit) -/
theorem spec_ok_denotes (B : Nat) (hB : validRadix B = true) (s : List Nat) (r : FRepr) (p : Nat)
    (h : parseFloatSpec B s = .ok (r, p)) :
    ∃ (neg hex : Bool) (di df : List Nat) (scale : Int), (hex = true → B = 2) ∧
      (∀ d ∈ di ++ df, d < (if hex then 16 else B)) ∧ di ++ df ≠ [] ∧
      p = (di.length + df.length) * (if hex then 4 else 1) ∧
      r.toRat B = (if neg then -1 else 1) * (ofDigits (if hex then 16 else B) (di ++ df) : ℚ) *
        bpowQ B (scale - ((df.length * (if hex then 4 else 1) : Nat) : Int)) := by
  have hr := validRadix_iff.mp hB
  have key : ∃ scale body, specBody B (B == 2 && hasHexPrefix (stripSignF s).2) (stripSignF s).1 scale body
      = .ok (r, p) := by
    cases hf : rfindIdx (isScaleMarker B (B == 2 && hasHexPrefix (stripSignF s).2)) (stripSignF s).2 with
    | none => exact ⟨0, _, by rw [← spec_none B s hf]; exact h⟩
    | some pos =>
      cases hi : parseIsize 64 ((stripSignF s).2.drop (pos + 1)) with
      | error e => rw [spec_err B s pos e hf hi] at h; cases h
      | ok v => exact ⟨v, _, by rw [← spec_ok B s pos v hf hi]; exact h⟩
  obtain ⟨scale, body, hk⟩ := key
  obtain ⟨di, df, hlt, hne, hres⟩ := specBody_ok hk
  generalize hhex : (B == 2 && hasHexPrefix (stripSignF s).2) = hex at *
  have hB2 : hex = true → B = 2 := by
    intro hx; subst hx; simp at hhex; exact hhex.1
  have hrk : (if hex then 16 else B) = B ^ (if hex then 4 else 1) := by
    cases hex
    · simp
    · rw [hB2 rfl]; rfl
  have hv := literalValue_value B _ _ hr.1 hrk (stripSignF s).1 di df scale
  rw [← hres] at hv
  exact ⟨(stripSignF s).1, hex, di, df, scale, hB2, hlt, hne, hv.2, hv.1⟩

end Dashu.Model.Text
