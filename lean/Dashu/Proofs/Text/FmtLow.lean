import Dashu.Model.Text.FmtLow
import Dashu.Proofs.Text.CapacityParse
import Mathlib.Tactic.Ring
import Mathlib.Tactic.Linarith
/-
  C07 — proofs for `Model/Text/FmtLow.lean`:
  * `PreMulInv1by1::new` never fails a check for `2 ≤ d < 2^W` and `div_rem` is exact floor division
    for every word (Granlund–Montgomery 4.1), no overflow;
  * the SWAR chunk conversion equals the per-byte conversion for every lane and every digit < 36;
  * the `DigitWriter` with the real `flush` equals the per-byte writer;
  * the printers on the mirrored division equal the number-level printers.
-/
namespace Dashu.Model.Text

-- ---------------------------------------------------------------- FastDivideSmall

/-- the arithmetic heart: if `d·M = N·B + k` with `1 ≤ k ≤ N`, then `⌊M·a / (B·N)⌋ = ⌊a/d⌋` for `a < B` -/
theorem premul_key (B N d a M k : Nat) (hd : 0 < d) (hN : 0 < N)
    (hM : d * M = N * B + k) (hkN : k ≤ N) (ha : a < B) :
    M * a / (B * N) = a / d := by
  apply Nat.div_eq_of_lt_le
  · -- (a/d)·(B·N) ≤ M·a
    apply Nat.le_of_mul_le_mul_left _ hd
    have h1 : d * (M * a) = (N * B + k) * a := by rw [← Nat.mul_assoc, hM]
    rw [h1]
    have h2 : d * (a / d) ≤ a := Nat.mul_div_le a d
    calc d * (a / d * (B * N)) = (d * (a / d)) * (B * N) := by ring
      _ ≤ a * (B * N) := Nat.mul_le_mul_right _ h2
      _ = N * B * a := by ring
      _ ≤ (N * B + k) * a := Nat.mul_le_mul_right _ (Nat.le_add_right _ _)
  · -- M·a < (a/d + 1)·(B·N)
    apply Nat.lt_of_mul_lt_mul_left (a := d)
    have h1 : d * (M * a) = (N * B + k) * a := by rw [← Nat.mul_assoc, hM]
    rw [h1]
    have h2 : a < d * (a / d + 1) := by
      have := Nat.div_add_mod a d
      have := Nat.mod_lt a hd
      rw [Nat.mul_add]; omega
    have h3 : k * a < N * B := by
      calc k * a ≤ N * a := Nat.mul_le_mul_right _ hkN
        _ < N * B := Nat.mul_lt_mul_of_pos_left ha hN
    have h4 : a + 1 ≤ d * (a / d + 1) := h2
    calc (N * B + k) * a = N * B * a + k * a := by ring
      _ < N * B * a + N * B := by omega
      _ = N * B * (a + 1) := by ring
      _ ≤ N * B * (d * (a / d + 1)) := Nat.mul_le_mul_left _ h4
      _ = d * ((a / d + 1) * (B * N)) := by ring

/-- `n = bitLen (d − 1)` is `⌈log₂ d⌉`: `2^(n−1) < d ≤ 2^n`, `1 ≤ n ≤ W` -/
theorem ceilLog_bounds (W d : Nat) (hd : 2 ≤ d) (hdW : d < 2 ^ W) :
    let n := bitLen (d - 1)
    1 ≤ n ∧ n ≤ W ∧ 2 ^ (n - 1) < d ∧ d ≤ 2 ^ n := by
  have hne : d - 1 ≠ 0 := by omega
  have hs := bitLen_spec hne
  have hle : bitLen (d - 1) ≤ W := bitLen_le_iff.mpr (by omega)
  have hpos : 1 ≤ bitLen (d - 1) := by simp [bitLen, hne]
  exact ⟨hpos, hle, by omega, by omega⟩

theorem wordOnes_eq (W n : Nat) (hn : n ≤ W) : wordOnes W n = 2 ^ n - 1 := by
  unfold wordOnes
  by_cases h0 : n = 0
  · subst h0; simp
  · rw [if_neg h0, Nat.shiftRight_eq_div_pow]
    have hW : 2 ^ W = 2 ^ n * 2 ^ (W - n) := by rw [← Nat.pow_add]; congr 1; omega
    have hp : 0 < 2 ^ (W - n) := Nat.two_pow_pos _
    have hq : 0 < 2 ^ n := Nat.two_pow_pos _
    rw [hW]
    apply Nat.div_eq_of_lt_le
    · have : (2 ^ n - 1) * 2 ^ (W - n) + 2 ^ (W - n) = 2 ^ n * 2 ^ (W - n) := by
        rw [← Nat.succ_mul]; congr 1; omega
      omega
    · have hsucc : 2 ^ n - 1 + 1 = 2 ^ n := by omega
      have hmp := Nat.mul_pos hq hp
      rw [hsucc]; omega

/-- what `PreMulInv1by1::new` returns, in closed form -/
theorem premul_new_eq (W d : Nat) (hd : 2 ≤ d) (hdW : d < 2 ^ W) :
    PreMulInv1by1.new W d =
      .ok ⟨(2 ^ bitLen (d - 1) - d) * 2 ^ W / d + 1, bitLen (d - 1) - 1⟩ ∧
    (2 ^ bitLen (d - 1) - d) * 2 ^ W / d + 1 < 2 ^ W := by
  obtain ⟨hn1, hnW, hlo, hhi⟩ := ceilLog_bounds W d hd hdW
  set n := bitLen (d - 1) with hn
  have hB : 0 < 2 ^ W := Nat.two_pow_pos W
  have hnn : W - leadingZeros W (d - 1) = n := by unfold leadingZeros; omega
  have hdouble : 2 ^ n = 2 * 2 ^ (n - 1) := by
    rw [← Nat.pow_succ']; congr 1; omega
  -- q ≤ B − 2
  have hq : (2 ^ n - d) * 2 ^ W / d + 1 < 2 ^ W := by
    have h1 : (2 ^ n - d) * 2 ^ W ≤ (d - 1) * 2 ^ W := Nat.mul_le_mul_right _ (by omega)
    have h2 : (d - 1) * 2 ^ W / d < 2 ^ W - 1 := by
      rw [Nat.div_lt_iff_lt_mul (by omega)]
      have e1 : (d - 1) * 2 ^ W + 2 ^ W = d * 2 ^ W := by
        rw [← Nat.succ_mul]; congr 1; omega
      have e2 : (2 ^ W - 1) * d + d = 2 ^ W * d := by
        rw [← Nat.succ_mul]; congr 1; omega
      have e3 : d * 2 ^ W = 2 ^ W * d := Nat.mul_comm _ _
      omega
    have := Nat.div_le_div_right (c := d) h1
    omega
  refine ⟨?_, hq⟩
  unfold PreMulInv1by1.new
  rw [if_neg (by omega)]
  simp only [hnn, wordOnes_eq W n hnW]
  have e : 2 ^ n - 1 - (d - 1) = 2 ^ n - d := by omega
  rw [if_neg (by omega), e]
  have hlt : (2 ^ n - d) * 2 ^ W / d < 2 ^ W := by omega
  rw [Nat.div_eq_of_lt hlt, Nat.mod_eq_of_lt hlt]
  simp only [ne_eq, not_true_eq_false, if_false]
  rw [if_neg (by omega), if_neg (by omega)]

/-- **`FastDivideSmall::div_rem` is exact**: for every word size, every divisor `2 ≤ d < 2^W` (the
    precondition `divisor > 1` of `new`) and every word `a`, no check fires and the result is
    `(a / d, a % d)` -/
theorem fastDivRadix_eq (W d a : Nat) (hd : 2 ≤ d) (hdW : d < 2 ^ W) (ha : a < 2 ^ W) :
    fastDivRadix W d a = .ok (a / d, a % d) := by
  obtain ⟨hnew, hm⟩ := premul_new_eq W d hd hdW
  obtain ⟨hn1, hnW, hlo, hhi⟩ := ceilLog_bounds W d hd hdW
  unfold fastDivRadix
  rw [hnew]
  simp only
  generalize bitLen (d - 1) = n at *
  have hB : 0 < 2 ^ W := Nat.two_pow_pos W
  have hNpos : 0 < 2 ^ n := Nat.two_pow_pos n
  -- d·(m + B) = 2^n·B + k, 1 ≤ k ≤ d ≤ 2^n
  have hsplit : (2 ^ n - d) * 2 ^ W + d * 2 ^ W = 2 ^ n * 2 ^ W := by
    rw [← Nat.add_mul]; congr 1; omega
  have hdm := Nat.div_add_mod ((2 ^ n - d) * 2 ^ W) d
  have hmod := Nat.mod_lt ((2 ^ n - d) * 2 ^ W) (show 0 < d by omega)
  generalize (2 ^ n - d) * 2 ^ W / d = q0 at *
  generalize (2 ^ n - d) * 2 ^ W % d = r0 at *
  have hM : d * (q0 + 1 + 2 ^ W) = 2 ^ n * 2 ^ W + (d - r0) := by
    have : d * (q0 + 1 + 2 ^ W) = d * q0 + d + d * 2 ^ W := by ring
    omega
  generalize q0 + 1 = m at *
  have hkey := premul_key (2 ^ W) (2 ^ n) d a (m + 2 ^ W) (d - r0) (by omega) hNpos hM (by omega) ha
  -- t = ⌊m·a / B⌋ ≤ a, a + t = ⌊(m + B)·a / B⌋
  have ht : m * a / 2 ^ W ≤ a := by
    apply Nat.div_le_of_le_mul
    exact Nat.mul_le_mul_right _ (Nat.le_of_lt hm)
  have hat : (m + 2 ^ W) * a / 2 ^ W = m * a / 2 ^ W + a := by
    have : (m + 2 ^ W) * a = m * a + a * 2 ^ W := by ring
    rw [this, Nat.add_mul_div_right _ _ hB]
  unfold PreMulInv1by1.divRem
  simp only
  generalize m * a / 2 ^ W = t at *
  rw [if_neg (by omega)]
  have hs : t + ((a - t) >>> 1) = (t + a) / 2 := by
    rw [Nat.shiftRight_eq_div_pow]; omega
  rw [hs]
  rw [if_neg (by omega), if_neg (by omega)]
  have hq : ((t + a) / 2) >>> (n - 1) = a / d := by
    rw [Nat.shiftRight_eq_div_pow, Nat.div_div_eq_div_mul]
    have : 2 * 2 ^ (n - 1) = 2 ^ n := by rw [← Nat.pow_succ']; congr 1; omega
    rw [this, ← hat, Nat.div_div_eq_div_mul, hkey]
  rw [hq]
  have hle : a / d * d ≤ a := Nat.div_mul_le_self a d
  rw [if_neg (by omega), if_neg (by omega)]
  have : a - a / d * d = a % d := by
    have := Nat.div_add_mod a d
    rw [Nat.mul_comm] at this; omega
  rw [this]

-- ---------------------------------------------------------------- SWAR digit → ASCII

/-- a word as its byte lanes (little endian) -/
local notation "P" => ofDigitsLE 256

theorem pack_add_map_mul (l : List Nat) (g : Nat → Nat) (c : Nat) :
    P l + P (l.map g) * c = P (l.map fun d => d + g d * c) := by
  induction l with
  | nil => simp [ofDigitsLE]
  | cons a l ih =>
    simp only [List.map_cons, ofDigitsLE]
    rw [← ih]; ring

theorem pack_lt (l : List Nat) (h : ∀ d ∈ l, d < 256) : P l < 256 ^ l.length := by
  induction l with
  | nil => simp [ofDigitsLE]
  | cons a l ih =>
    have ha := h a (by simp)
    have := ih (fun d hd => h d (by simp [hd]))
    simp only [ofDigitsLE, List.length_cons, Nat.pow_succ]
    omega

theorem pad_pack (l : List Nat) (h : ∀ d ∈ l, d < 256) : digitsPadLE 256 l.length (P l) = l := by
  induction l with
  | nil => simp [digitsPadLE]
  | cons a l ih =>
    have ha := h a (by simp)
    have := ih (fun d hd => h d (by simp [hd]))
    simp only [ofDigitsLE, List.length_cons, digitsPadLE]
    have e1 : (a + 256 * P l) % 256 = a := by omega
    have e2 : (a + 256 * P l) / 256 = P l := by omega
    rw [e1, e2, this]

theorem ones_aux (l : List Nat) : 255 * P (l.map fun _ => 1) + 1 = 256 ^ l.length := by
  induction l with
  | nil => simp [ofDigitsLE]
  | cons a l ih =>
    simp only [List.map_cons, ofDigitsLE, List.length_cons, Nat.pow_succ]
    omega

/-- `ALL_ONES = Word::MAX / 0xff` is the word whose lanes are all `0x01` -/
theorem allOnes_eq (l : List Nat) : allOnes (8 * l.length) = P (l.map fun _ => 1) := by
  unfold allOnes
  simp only [Dashu.Gen.swar_LANE_MAX]
  have h := ones_aux l
  have e : 2 ^ (8 * l.length) = 256 ^ l.length := by rw [Nat.pow_mul]
  rw [e, ← h, Nat.add_sub_cancel, Nat.mul_div_cancel_left _ (by decide : 0 < 255)]

/-- one lane of `x & ALL_ONES`: the low bit of the low byte, the rest recursively -/
theorem and_lane (x u : Nat) : x &&& (1 + 256 * u) = x % 2 + 256 * ((x / 256) &&& u) := by
  have hm : (x &&& (1 + 256 * u)) % 2 ^ 8 = x % 2 := by
    rw [Nat.and_mod_two_pow]
    have : (1 + 256 * u) % 2 ^ 8 = 1 := by omega
    rw [this, Nat.and_one_is_mod]
    omega
  have hd : (x &&& (1 + 256 * u)) / 2 ^ 8 = (x / 256) &&& u := by
    rw [Nat.and_div_two_pow]
    have : (1 + 256 * u) / 2 ^ 8 = u := by omega
    rw [this]
  have := Nat.div_add_mod (x &&& (1 + 256 * u)) (2 ^ 8)
  rw [hm, hd] at this
  omega

/-- **the lane-parallel test**: `(w >> 7) & ALL_ONES` extracts bit 7 of every lane — for any number
    of lanes, provided no lane exceeds a byte -/
theorem pack_shift7_and (l : List Nat) (h : ∀ d ∈ l, d < 256) :
    (P l >>> 7) &&& P (l.map fun _ => 1) = P (l.map (· / 128)) := by
  induction l with
  | nil => simp [ofDigitsLE]
  | cons a l ih =>
    have ha := h a (by simp)
    have ih' := ih (fun d hd => h d (by simp [hd]))
    simp only [List.map_cons, ofDigitsLE]
    rw [Nat.shiftRight_eq_div_pow] at ih' ⊢
    rw [and_lane]
    have e1 : (a + 256 * P l) / 2 ^ 7 % 2 = a / 128 := by omega
    have e2 : (a + 256 * P l) / 2 ^ 7 / 256 = P l / 2 ^ 7 := by omega
    rw [e1, e2, ih']

/-- **`digit_chunk_raw_to_ascii` is the per-byte conversion on every lane**: for every word size
    that is a multiple of 8, every digit case and every chunk of `WORD_BYTES` digits `< 36` (the
    documented precondition), no `Word` operation overflows and byte `i` of the result is
    `rawToAscii` of digit `i` -/
theorem digitChunkRawToAscii_eq (W : Nat) (h8 : 8 ∣ W) (c : DigitCase) (ds : List Nat)
    (hlen : ds.length = W / 8) (hd : ∀ d ∈ ds, d < 36) :
    digitChunkRawToAscii W c ds = .ok (ds.map (rawToAscii c)) := by
  obtain ⟨k, rfl⟩ := h8
  have hk : ds.length = k := by omega
  have hones : allOnes (8 * k) = P (ds.map fun _ => 1) := by rw [← hk]; exact allOnes_eq ds
  have hpow : 2 ^ (8 * k) = 256 ^ ds.length := by rw [hk, Nat.pow_mul]
  have hlen' : 8 * k / 8 = ds.length := by omega
  unfold digitChunkRawToAscii
  rw [if_neg (by omega)]
  simp only [hones, hpow, hlen', Dashu.Gen.swar_BIAS, Dashu.Gen.swar_SHIFT, Dashu.Gen.swar_ASCII_ZERO]
  -- a final step shared by all digit cases
  have fin : ∀ (g : Nat → Nat), (∀ d ∈ ds, d + g d + 48 < 256) →
      (if P (ds.map fun d => d + g d) + P (ds.map fun _ => 1) * 48 ≥ 256 ^ ds.length then
        (.error (.overflow "digit_chunk_raw_to_ascii: word += ALL_ONES * b'0'") : Except BufPanic (List Nat))
       else .ok (digitsPadLE 256 ds.length (P (ds.map fun d => d + g d) + P (ds.map fun _ => 1) * 48)))
      = .ok (ds.map fun d => d + g d + 48) := by
    intro g hg
    have e : P (ds.map fun d => d + g d) + P (ds.map fun _ => 1) * 48 = P (ds.map fun d => d + g d + 48) := by
      have := pack_add_map_mul (ds.map fun d => d + g d) (fun _ => 1) 48
      simp only [List.map_map] at this
      rw [show ((fun _ => 1) ∘ fun d => d + g d) = (fun _ : Nat => 1) from rfl] at this
      rw [this]
      congr 1
    have hb : ∀ x ∈ ds.map (fun d => d + g d + 48), x < 256 := by
      intro x hx
      obtain ⟨d, hdm, rfl⟩ := List.mem_map.mp hx
      exact hg d hdm
    have hl := pack_lt _ hb
    rw [List.length_map] at hl
    rw [e, if_neg (by omega)]
    have hp := pad_pack _ hb
    rw [List.length_map] at hp
    rw [hp]
  by_cases hc : c = .noLetters
  · subst hc
    simp only [ne_eq, not_true_eq_false, if_false]
    have := fin (fun _ => 0) (by intro d hdm; have := hd d hdm; omega)
    simp only [Nat.add_zero] at this
    rw [show (ds.map fun d => d) = ds by simp] at this
    rw [this]
    apply congrArg
    apply List.map_congr_left
    intro d _
    simp [rawToAscii]
  · simp only [ne_eq, hc, not_false_eq_true, if_true]
    -- 0x76 * ALL_ONES + word, lane by lane
    have e1 : 0x76 * P (ds.map fun _ => 1) + P ds = P (ds.map fun d => d + 1 * 0x76) := by
      rw [Nat.add_comm, Nat.mul_comm]
      exact pack_add_map_mul ds (fun _ => 1) 0x76
    have hb1 : ∀ x ∈ ds.map (fun d => d + 1 * 0x76), x < 256 := by
      intro x hx
      obtain ⟨d, hdm, rfl⟩ := List.mem_map.mp hx
      have := hd d hdm; omega
    have hl1 := pack_lt _ hb1
    rw [List.length_map] at hl1
    rw [e1, if_neg (by omega)]
    -- letters: bit 7 of every lane
    have e2 : (P (ds.map fun d => d + 1 * 0x76) >>> 7) &&& P (ds.map fun _ => 1) =
        P (ds.map fun d => (d + 1 * 0x76) / 128) := by
      have := pack_shift7_and _ hb1
      simp only [List.map_map] at this
      rw [show ((fun _ => 1) ∘ fun d => d + 1 * 0x76) = (fun _ : Nat => 1) from rfl] at this
      rw [this]
      congr 1
    rw [e2]
    -- word += letters * case
    have e3 := pack_add_map_mul ds (fun d => (d + 1 * 0x76) / 128) c.offset
    have hoff : c.offset ≤ 39 := by cases c <;> simp [DigitCase.offset]
    have hb3 : ∀ x ∈ ds.map (fun d => d + (d + 1 * 0x76) / 128 * c.offset), x < 256 := by
      intro x hx
      obtain ⟨d, hdm, rfl⟩ := List.mem_map.mp hx
      have h36 := hd d hdm
      have : (d + 1 * 0x76) / 128 ≤ 1 := by omega
      have : (d + 1 * 0x76) / 128 * c.offset ≤ 1 * 39 := Nat.mul_le_mul this hoff
      omega
    have hl3 := pack_lt _ hb3
    rw [List.length_map] at hl3
    rw [e3, if_neg (by omega)]
    simp only
    have := fin (fun d => (d + 1 * 0x76) / 128 * c.offset) (by
      intro d hdm
      have h36 := hd d hdm
      have h1 : (d + 1 * 0x76) / 128 ≤ 1 := by omega
      have : (d + 1 * 0x76) / 128 * c.offset ≤ 1 * 39 := Nat.mul_le_mul h1 hoff
      omega)
    rw [this]
    apply congrArg
    apply List.map_congr_left
    intro d hdm
    have h36 := hd d hdm
    unfold rawToAscii
    by_cases h10 : 10 ≤ d
    · have : (d + 1 * 0x76) / 128 = 1 := by omega
      simp [hc, h10, this]
    · have : (d + 1 * 0x76) / 128 = 0 := by omega
      simp [h10, this]

-- ---------------------------------------------------------------- DigitWriter with the real flush

theorem ceilDiv_mul_ge (a b : Nat) (hb : 1 ≤ b) : a ≤ ceilDiv a b * b := by
  unfold ceilDiv
  by_cases h : a = 0
  · simp [h]
  · rw [if_neg h, Nat.succ_mul]
    have h1 := Nat.div_add_mod (a - 1) b
    have h2 := Nat.mod_lt (a - 1) (show 0 < b by omega)
    rw [Nat.mul_comm] at h1
    omega

theorem ceilDiv_mul_le (a b m : Nat) (hb : 1 ≤ b) (h : a ≤ m * b) : ceilDiv a b * b ≤ m * b := by
  unfold ceilDiv
  by_cases h0 : a = 0
  · simp [h0]
  · rw [if_neg h0]
    apply Nat.mul_le_mul_right
    have : (a - 1) / b < m := (Nat.div_lt_iff_lt_mul (by omega)).mpr (by omega)
    omega

/-- every chunk of `chunks_exact_mut(DIGIT_CHUNK_LEN)` converted by the SWAR routine: the whole
    buffer converted per byte -/
theorem chunks_swar (W : Nat) (h8 : 8 ∣ W) (hW : 8 ≤ W) (c : DigitCase) :
    ∀ (j fuel : Nat) (b : List Nat), b.length = j * (W / 8) → b.length ≤ fuel → (∀ d ∈ b, d < 36) →
      flatMapE (digitChunkRawToAscii W c) (chunksExact (W / 8) fuel b) = .ok (b.map (rawToAscii c)) := by
  have hcl : 1 ≤ W / 8 := (Nat.le_div_iff_mul_le (by omega)).mpr (by omega)
  intro j
  induction j with
  | zero =>
    intro fuel b hb _ _
    have : b = [] := List.length_eq_zero_iff.mp (by omega)
    subst this
    cases fuel <;> simp [chunksExact, flatMapE]
  | succ j ih =>
    intro fuel b hb hf hd
    have hlen : b.length = j * (W / 8) + W / 8 := by rw [hb, Nat.succ_mul]
    have hne : b ≠ [] := by
      intro h; rw [h] at hlen; simp only [List.length_nil] at hlen; omega
    cases fuel with
    | zero => omega
    | succ fuel =>
      rw [chunksExact, if_neg (by rintro (h | h); exact hne h; omega)]
      simp only [flatMapE]
      rw [digitChunkRawToAscii_eq W h8 c (b.take (W / 8)) (by rw [List.length_take]; omega)
        (fun d hd' => hd d (List.mem_of_mem_take hd'))]
      rw [ih fuel (b.drop (W / 8)) (by rw [List.length_drop]; omega) (by rw [List.length_drop]; omega)
        (fun d hd' => hd d (List.mem_of_mem_drop hd'))]
      simp only
      rw [← List.map_append, List.take_append_drop]

/-- **`DigitWriter::flush`**: the zero fill stays inside the buffer, every chunk is a full
    `[u8; DIGIT_CHUNK_LEN]`, and the first `buffer_len` bytes are the per-byte conversion of the
    pending digits -/
theorem flushSwar_eq (W : Nat) (h8 : 8 ∣ W) (hW : 8 ≤ W) (c : DigitCase) (pending : List Nat)
    (hl : pending.length ≤ digitWriterLen W) (hd : ∀ d ∈ pending, d < 36) :
    flushSwar W c pending = .ok (pending.map (rawToAscii c)) := by
  have hcl : 1 ≤ W / 8 := (Nat.le_div_iff_mul_le (by omega)).mpr (by omega)
  have hr1 := ceilDiv_mul_ge pending.length (W / 8) hcl
  have hr2 : ceilDiv pending.length (W / 8) * (W / 8) ≤ digitWriterLen W :=
    ceilDiv_mul_le pending.length (W / 8) (ceilDiv Dashu.Gen.digit_writer_BUFFER_LEN_MIN (W / 8)) hcl hl
  unfold flushSwar
  simp only
  rw [if_neg (by omega)]
  have hbl : (pending ++ List.replicate (ceilDiv pending.length (W / 8) * (W / 8) - pending.length) 0).length =
      ceilDiv pending.length (W / 8) * (W / 8) := by
    rw [List.length_append, List.length_replicate]; omega
  rw [chunks_swar W h8 hW c (ceilDiv pending.length (W / 8)) _ _ hbl (Nat.le_refl _) (by
    intro d hd'
    rcases List.mem_append.mp hd' with h | h
    · exact hd d h
    · have := List.eq_of_mem_replicate h; omega)]
  simp only [List.map_append]
  rw [List.take_left' (by simp)]

/-- `write` with the real `flush` does exactly what `write` with the per-byte conversion does, and
    keeps the invariant `buffer_len < BUFFER_LEN`, all pending bytes raw digits -/
theorem DW_writeS_spec (W : Nat) (h8 : 8 ∣ W) (hW : 8 ≤ W) (c : DigitCase) (buf : List Nat) (s : DW)
    (hs : s.pending.length < digitWriterLen W) (hp : ∀ d ∈ s.pending, d < 36) (hb : ∀ d ∈ buf, d < 36) :
    ∃ s', DW.writeS W c s buf = .ok s' ∧ DW.write (digitWriterLen W) c s buf = .ok s' ∧
      s'.pending.length < digitWriterLen W ∧ ∀ d ∈ s'.pending, d < 36 := by
  induction hn : buf.length using Nat.strong_induction_on generalizing buf s with
  | _ n ih =>
    subst hn
    by_cases hbe : buf = []
    · subst hbe; rw [DW.writeS, DW.write]; exact ⟨s, by simp, by simp, hs, hp⟩
    · rw [DW.writeS, DW.write, dif_neg hbe, dif_neg hbe]
      simp only []
      have hlen : buf.length ≠ 0 := fun h => hbe (List.length_eq_zero_iff.mp h)
      have hmin : ¬ (min buf.length (digitWriterLen W - s.pending.length) = 0) := by omega
      have hA : ¬ (s.pending.length + min buf.length (digitWriterLen W - s.pending.length) > digitWriterLen W) := by omega
      simp only [hA, hmin, if_false]
      generalize hl : min buf.length (digitWriterLen W - s.pending.length) = len at *
      have htl : (buf.take len).length = len := by rw [List.length_take]; omega
      have hpend : ∀ d ∈ s.pending ++ buf.take len, d < 36 := by
        intro d hd
        rcases List.mem_append.mp hd with h | h
        · exact hp d h
        · exact hb d (List.mem_of_mem_take h)
      by_cases hfull : (s.pending ++ buf.take len).length = digitWriterLen W
      · simp only [hfull, if_true]
        have hf : DW.flushS W c ⟨s.pending ++ buf.take len, s.out⟩ =
            .ok (DW.flush c ⟨s.pending ++ buf.take len, s.out⟩) := by
          unfold DW.flushS DW.flush
          simp only
          rw [flushSwar_eq W h8 hW c _ (by omega) hpend]
        rw [hf]
        simp only
        exact ih (buf.drop len).length (by rw [List.length_drop]; omega) (buf.drop len)
          (DW.flush c ⟨s.pending ++ buf.take len, s.out⟩) (by simp [DW.flush]; omega) (by simp [DW.flush])
          (fun d hd => hb d (List.mem_of_mem_drop hd)) rfl
      · simp only [hfull, if_false]
        have hlt : (s.pending ++ buf.take len).length < digitWriterLen W := by
          rw [List.length_append, htl] at hfull ⊢; omega
        exact ih (buf.drop len).length (by rw [List.length_drop]; omega) (buf.drop len)
          ⟨s.pending ++ buf.take len, s.out⟩ hlt hpend (fun d hd => hb d (List.mem_of_mem_drop hd)) rfl

theorem digitWriterRunS_go (W : Nat) (h8 : 8 ∣ W) (hW : 8 ≤ W) (c : DigitCase) (pieces : List (List Nat)) (s : DW)
    (hs : s.pending.length < digitWriterLen W) (hp : ∀ d ∈ s.pending, d < 36)
    (hb : ∀ b ∈ pieces, ∀ d ∈ b, d < 36) :
    ∃ s', digitWriterRunS.go W c s pieces = .ok s' ∧ digitWriterRun.go W c s pieces = .ok s' ∧
      s'.pending.length < digitWriterLen W ∧ ∀ d ∈ s'.pending, d < 36 := by
  induction pieces generalizing s with
  | nil => exact ⟨s, rfl, rfl, hs, hp⟩
  | cons b bs ih =>
    obtain ⟨s1, h1, h2, h3, h4⟩ := DW_writeS_spec W h8 hW c b s hs hp (hb b (by simp))
    obtain ⟨s2, g1, g2, g3, g4⟩ := ih s1 h3 h4 (fun b' hb' => hb b' (by simp [hb']))
    refine ⟨s2, ?_, ?_, g3, g4⟩
    · simp only [digitWriterRunS.go, h1]; exact g1
    · simp only [digitWriterRun.go, h2]; exact g2

/-- **the buffered `DigitWriter` with the SWAR `flush`** delivers, for any sequence of `write` calls
    with raw digits `< 36` followed by the final `flush`, exactly the per-byte conversion of the
    concatenated input — no index leaves the buffer, no `Word` operation overflows -/
theorem digitWriterRunS_eq (W : Nat) (h8 : 8 ∣ W) (hW : 8 ≤ W) (c : DigitCase) (pieces : List (List Nat))
    (hb : ∀ b ∈ pieces, ∀ d ∈ b, d < 36) :
    digitWriterRunS W c pieces = .ok (pieces.flatten.map (rawToAscii c)) := by
  have hpos := digitWriterLen_pos W hW
  obtain ⟨s', h1, h2, h3, h4⟩ := digitWriterRunS_go W h8 hW c pieces ⟨[], []⟩
    (by simp only [List.length_nil]; omega) (by simp) hb
  have hrun := digitWriterRun_eq W hW c pieces
  unfold digitWriterRun at hrun
  rw [h2] at hrun
  unfold digitWriterRunS
  rw [h1]
  simp only [DW.flushS]
  rw [flushSwar_eq W h8 hW c _ (by omega) h4]
  simpa [DW.flush] using hrun

-- ---------------------------------------------------------------- printers on the mirrored division

theorem pwLoopF_eq (W r : Nat) (hr : 2 ≤ r) (hrW : r < 2 ^ W) :
    ∀ (fuel word minD : Nat) (acc : List Nat), word < 2 ^ W → word + minD < fuel →
      pwLoopF W r fuel word minD acc = .ok (pwLoop r word minD acc) := by
  intro fuel
  induction fuel with
  | zero => intro word minD acc _ h; omega
  | succ fuel ih =>
    intro word minD acc hw hf
    rw [pwLoopF, pwLoop]
    by_cases hc : r < 2 ∨ (minD = 0 ∧ word = 0)
    · rw [if_pos hc, dif_pos hc]
    · rw [if_neg hc, dif_neg hc, fastDivRadix_eq W r word hr hrW hw]
      simp only
      have hle : word / r ≤ word := Nat.div_le_self _ _
      apply ih _ _ _ (by omega)
      by_cases h0 : word = 0
      · have hm : minD ≠ 0 := fun h => hc (Or.inr ⟨h, h0⟩)
        omega
      · have : word / r < word := Nat.div_lt_self (by omega) (by omega)
        omega

theorem preparedWordF_eq (W r : Nat) (hr : 2 ≤ r) (hrW : r < 2 ^ W) (word minD : Nat) (hw : word < 2 ^ W) :
    preparedWordF W r word minD = .ok (preparedWord r word minD) :=
  pwLoopF_eq W r hr hrW _ word minD [] hw (by omega)

theorem takeDigitsF_eq (W r : Nat) (hr : 2 ≤ r) (hrW : r < 2 ^ W) :
    ∀ (c p : Nat) (acc : List Nat), p < 2 ^ W → takeDigitsF W r c p acc = .ok (takeDigits r c p acc) := by
  intro c
  induction c with
  | zero => intro p acc _; rfl
  | succ c ih =>
    intro p acc hp
    rw [takeDigitsF, fastDivRadix_eq W r p hr hrW hp]
    simp only
    rw [takeDigits]
    exact ih _ _ (Nat.lt_of_le_of_lt (Nat.div_le_self _ _) hp)

theorem midDigitsF_eq (W r : Nat) (hr : 2 ≤ r) (hrW : r < 2 ^ W) :
    ∀ (c p1 p2 : Nat) (acc : List Nat), p1 < 2 ^ W →
      midDigitsF W r c p1 p2 acc = .ok (midDigits r c p1 p2 acc) := by
  intro c
  induction c with
  | zero => intro p1 p2 acc _; rfl
  | succ c ih =>
    intro p1 p2 acc hp
    rw [midDigitsF, midDigits]
    by_cases h : p1 = 0 ∧ p2 = 0
    · rw [if_pos h, if_pos h]
    · rw [if_neg h, if_neg h, fastDivRadix_eq W r p1 hr hrW hp]
      simp only
      exact ih _ _ _ (Nat.lt_of_le_of_lt (Nat.div_le_self _ _) hp)

theorem preparedDwordF_eq (W r dword : Nat) (hev : 2 ∣ W) (hr : 2 ≤ r) (hrW : r < 2 ^ W)
    (hd : dword < 2 ^ (2 * W)) : preparedDwordF W r dword = .ok (preparedDword W r dword) := by
  have ok := radixInfo_ok W r hr hrW
  have hmax := (maxExpInWord_spec W r hr hrW).2.2.2 hev
  have hge := ok.rpw_ge
  have hlt := ok.lt
  have hrle : r ≤ (radixInfo W r).rpw := by
    rw [ok.pow]
    calc r = r ^ 1 := (pow_one r).symm
      _ ≤ r ^ (radixInfo W r).dpw := Nat.pow_le_pow_right (by omega) ok.dpos
  have hsq : 2 ^ W ≤ (radixInfo W r).rpw * (radixInfo W r).rpw :=
    le_trans hmax (Nat.mul_le_mul_left _ hrle)
  have hp2 : dword / (radixInfo W r).rpw / (radixInfo W r).rpw < 2 ^ W := by
    rw [Nat.div_div_eq_div_mul]
    apply Nat.div_lt_of_lt_mul
    calc dword < 2 ^ (2 * W) := hd
      _ = 2 ^ W * 2 ^ W := by rw [← Nat.pow_add]; congr 1; omega
      _ ≤ (radixInfo W r).rpw * (radixInfo W r).rpw * 2 ^ W := Nat.mul_le_mul_right _ hsq
  unfold preparedDwordF preparedDword
  simp only
  rw [takeDigitsF_eq W r hr hrW _ _ _ (Nat.lt_trans (Nat.mod_lt _ (by omega)) hlt)]
  simp only
  rw [midDigitsF_eq W r hr hrW _ _ _ _ (Nat.lt_trans (Nat.mod_lt _ (by omega)) hlt)]
  simp only
  exact pwLoopF_eq W r hr hrW _ _ 0 _ hp2 (by omega)

theorem mediumLoop_bounds (W rpw : Nat) (h2 : 2 ≤ rpw) (v : Nat) (gs : List Nat) (hgs : ∀ g ∈ gs, g < rpw) :
    (mediumLoop W rpw v gs).1 < 2 ^ W ∧ ∀ g ∈ (mediumLoop W rpw v gs).2, g < rpw := by
  induction v using Nat.strong_induction_on generalizing gs with
  | _ v ih =>
    rw [mediumLoop]
    by_cases h : rpw < 2 ∨ v < 2 ^ W
    · rw [dif_pos h]
      refine ⟨?_, hgs⟩
      rcases h with h | h
      · omega
      · exact h
    · rw [dif_neg h]
      have : 0 < 2 ^ W := Nat.two_pow_pos W
      apply ih (v / rpw) (Nat.div_lt_self (by omega) (by omega))
      intro g hg
      rcases List.mem_cons.mp hg with rfl | hg
      · exact Nat.mod_lt _ (by omega)
      · exact hgs g hg

theorem preparedMediumF_eq (W r n : Nat) (hr : 2 ≤ r) (hrW : r < 2 ^ W) :
    preparedMediumF W r n = .ok (preparedMedium W r n) := by
  have ok := radixInfo_ok W r hr hrW
  have hb := mediumLoop_bounds W (radixInfo W r).rpw ok.rpw_ge n [] (by simp)
  unfold preparedMediumF preparedMedium
  simp only
  rw [preparedWordF_eq W r hr hrW _ 1 hb.1]
  simp only
  rw [flatMapE_ok _ (fun g => preparedWord r g (radixInfo W r).dpw) _
    (fun g hg => preparedWordF_eq W r hr hrW g _ (Nat.lt_trans (hb.2 g hg) ok.lt))]

theorem writeChunkF_eq (W r x : Nat) (hr : 2 ≤ r) (hrW : r < 2 ^ W) :
    writeChunkF W r x = .ok (writeChunk W r x) := by
  have ok := radixInfo_ok W r hr hrW
  have hge := ok.rpw_ge
  unfold writeChunkF writeChunk
  exact flatMapE_ok _ _ _ (fun g hg => preparedWordF_eq W r hr hrW g _
    (Nat.lt_trans (chunkGroups_lt _ (by omega) _ _ [] (by simp) g hg) ok.lt))

theorem writeBigF_eq (W r : Nat) (hr : 2 ≤ r) (hrW : r < 2 ^ W) (ps : List Nat) (x : Nat) :
    writeBigF W r ps x = .ok (writeBig W r ps x) := by
  induction ps generalizing x with
  | nil => exact writeChunkF_eq W r x hr hrW
  | cons p ps ih => simp only [writeBigF, writeBig, ih]

theorem preparedLargeF_eq (W r n : Nat) (hr : 2 ≤ r) (hrW : r < 2 ^ W) :
    preparedLargeF W r n = .ok (preparedLarge W r n) := by
  unfold preparedLargeF preparedLarge
  simp only
  by_cases h : (radixInfo W r).rpw ^ fmtChunkLen > n
  · simp only [h, if_true]; exact preparedMediumF_eq W r n hr hrW
  · simp only [h, if_false]
    cases hb : buildPowers W n (bitLen n) [(radixInfo W r).rpw ^ fmtChunkLen] with
    | nil => rfl
    | cons p rest =>
      simp only
      rw [preparedMediumF_eq W r _ hr hrW]
      simp only
      rw [flatMapE_ok _ (fun c => writeBig W r c.1 c.2) _ (fun c _ => writeBigF_eq W r hr hrW c.1 c.2)]

theorem fmtNonPow2F_eq (W r n : Nat) (hev : 2 ∣ W) (hr : 2 ≤ r) (hrW : r < 2 ^ W) :
    fmtNonPow2F W r n = .ok (fmtNonPow2 W r n) := by
  unfold fmtNonPow2F fmtNonPow2
  by_cases h1 : n < 2 ^ W
  · simp only [h1, if_true]; exact preparedWordF_eq W r hr hrW n 1 h1
  · simp only [h1, if_false]
    by_cases h2 : n < 2 ^ (2 * W)
    · simp only [h2, if_true]; exact preparedDwordF_eq W r n hev hr hrW h2
    · simp only [h2, if_false]
      by_cases h3 : wordLen W n * ((radixInfo W r).dpw + 1) ≤ fmtChunkLen * (radixInfo W r).dpw
      · simp only [h3, if_true]; exact preparedMediumF_eq W r n hr hrW
      · simp only [h3, if_false]; exact preparedLargeF_eq W r n hr hrW

/-- **the printers on the mirrored reciprocal division** print what the number-level printers print:
    every `fast_div_radix.div_rem(word, radix)` gets a word, no check of `FastDivideSmall` fires -/
theorem rawDigitsF_eq (W r n : Nat) (hev : 2 ∣ W) (hr : 2 ≤ r) (hrW : r < 2 ^ W) :
    rawDigitsF W r n = .ok (rawDigits W r n) := by
  unfold rawDigitsF rawDigits
  by_cases hp : isPow2 r = true
  · simp only [hp, if_true]
  · simp only [hp]; exact fmtNonPow2F_eq W r n hev hr hrW

theorem cutPieces_flatten (piece : Nat) :
    ∀ (fuel : Nat) (l : List Nat), l.length ≤ fuel → (cutPieces piece fuel l).flatten = l := by
  intro fuel
  induction fuel with
  | zero =>
    intro l hl
    have : l = [] := List.length_eq_zero_iff.mp (by omega)
    subst this; rfl
  | succ fuel ih =>
    intro l hl
    rw [cutPieces]
    by_cases h : l = [] ∨ piece = 0
    · rw [if_pos h]; simp
    · rw [if_neg h, List.flatten_cons, ih _ (by
        rw [List.length_drop]
        have : l.length ≠ 0 := fun h0 => h (Or.inl (List.length_eq_zero_iff.mp h0))
        omega), List.take_append_drop]

/-- **the whole formatting path on the mirrored low layer** (reciprocal division by the radix, SWAR
    conversion, buffered writer) equals the number-level model, for every word size that is a
    multiple of 8, every trait, format spec and integer -/
theorem fmtModelF_eq (W : Nat) (h8 : 8 ∣ W) (hW : 8 ≤ W) (t : FmtTrait) (f : FmtSpec) (z : Int)
    (hv : validRadix t.radix = true) : fmtModelF W t f z = .ok (fmtModel W t f z) := by
  have hr : 2 ≤ t.radix ∧ t.radix ≤ 36 := by
    simpa [validRadix] using hv
  have h256 : (2 : Nat) ^ 8 ≤ 2 ^ W := Nat.pow_le_pow_right (by omega) hW
  have hrW : t.radix < 2 ^ W := by omega
  have hev : 2 ∣ W := Nat.dvd_trans (by decide) h8
  unfold fmtModelF fmtModel
  rw [rawDigitsF_eq W t.radix _ hev hr.1 hrW]
  simp only
  have hdig : ∀ d ∈ rawDigits W t.radix z.natAbs, d < 36 := by
    intro d hd
    rw [rawDigits_eq W t.radix _ hr.1 hrW] at hd
    have := digits_lt hr.1 _ d hd
    omega
  have hfl := cutPieces_flatten (radixInfo W t.radix).dpw _ (rawDigits W t.radix z.natAbs) (Nat.le_refl _)
  rw [digitWriterRunS_eq W h8 hW _ _ (by
    intro b hb d hd
    apply hdig d
    rw [← hfl]
    exact List.mem_flatten.mpr ⟨b, hb, hd⟩)]
  simp only [hfl]

end Dashu.Model.Text
