import Dashu.Proofs.Text.Grammar
/-
  C07 — further round trips: `{:#b}` / `{:#o}` / `{:#x}` / `{:#X}` text (radix prefix) through
  `from_str_with_radix_prefix`; underscores are ignored by the grammar; zero-padded text parses back.
-/
namespace Dashu.Model.Text

/-- the grammar ignores `_` separators: a body and the same body with all `_` removed parse alike -/
theorem parseBodySpec_filter (r : Nat) (t : List Nat) :
    parseBodySpec r t = parseBodySpec r (t.filter (· ≠ 95)) := by
  unfold parseBodySpec
  rw [List.filter_filter]
  simp

/-- inserting `_` anywhere into a digit string does not change what it parses to -/
theorem parseBodySpec_underscores (r : Nat) (t t' : List Nat)
    (h : t'.filter (· ≠ 95) = t.filter (· ≠ 95)) : parseBodySpec r t' = parseBodySpec r t := by
  rw [parseBodySpec_filter r t', parseBodySpec_filter r t, h]

theorem splitSign_cons_digit (signed : Bool) (c : Nat) (t : List Nat) (h1 : c ≠ 45) (h2 : c ≠ 43) :
    splitSign signed (c :: t) = (false, c :: t) := by
  unfold splitSign
  split
  · rename_i h; simp at h; omega
  · rename_i h; simp at h; omega
  · rfl

/-- the prefix and radix of the four radix traits -/
def traitPrefix : FmtTrait → Option (List Nat × Nat)
  | .binary => some ([48, 98], 2)
  | .octal => some ([48, 111], 8)
  | .lowerHex => some ([48, 120], 16)
  | .upperHex => some ([48, 120], 16)
  | _ => none

/-- sign ++ prefix ++ digits is read back by the prefix grammar -/
theorem prefix_text_parse (pfx0 : Nat) (rad : Nat) (up : Bool) (z : Int) (plus : Bool)
    (hsp : ∀ rest, splitPrefix 10 (48 :: pfx0 :: rest) = (rad, rest))
    (hv : validRadix rad = true) :
    parseDefaultSpec true
      ((if !decide (0 ≤ z) then [45] else if plus then [43] else []) ++ [48, pfx0] ++
        printSpec rad up z.natAbs) 10 = .ok (z, rad) := by
  have hr := validRadix_iff.mp hv
  unfold parseDefaultSpec
  by_cases hz : z < 0
  · have h0 : ¬ (0 ≤ z) := by omega
    simp only [h0, decide_false, Bool.not_false, if_true, List.cons_append, List.nil_append, List.append_assoc]
    simp only [splitSign, if_true, hsp, hv, Bool.not_true, Bool.false_eq_true, if_false]
    rw [parseBodySpec_printSpec rad up _ hr.1 hr.2]
    have : (z.natAbs : Int) = -z := Int.ofNat_natAbs_of_nonpos (by omega)
    simp [Except.map, applySign, this]
  · have h0 : 0 ≤ z := by omega
    have hna : (z.natAbs : Int) = z := Int.natAbs_of_nonneg h0
    cases plus
    · simp only [h0, decide_true, Bool.not_true, Bool.false_eq_true, if_false, List.nil_append, List.cons_append]
      rw [splitSign_cons_digit true 48 _ (by omega) (by omega)]
      simp only [hsp, hv, Bool.not_true, Bool.false_eq_true, if_false]
      rw [parseBodySpec_printSpec rad up _ hr.1 hr.2]
      simp [Except.map, applySign, hna]
    · simp only [h0, decide_true, Bool.not_true, Bool.false_eq_true, if_false, if_true, List.cons_append,
        List.nil_append, List.append_assoc]
      simp only [splitSign, hsp, hv, Bool.not_true, Bool.false_eq_true, if_false]
      rw [parseBodySpec_printSpec rad up _ hr.1 hr.2]
      simp [Except.map, applySign, hna]

/-- **`{:#b}`, `{:#o}`, `{:#x}`, `{:#X}` (optionally with `+`) parse back through
    `from_str_with_radix_prefix`** to the same integer and the radix of the prefix -/
theorem prefix_round_trip (W : Nat) (hW : 36 < 2 ^ W) (z : Int) (plus : Bool) :
    parseDefault W true (fmtModel W .binary { alt := true, plus := plus } z) 10 = .ok (z, 2) ∧
    parseDefault W true (fmtModel W .octal { alt := true, plus := plus } z) 10 = .ok (z, 8) ∧
    parseDefault W true (fmtModel W .lowerHex { alt := true, plus := plus } z) 10 = .ok (z, 16) ∧
    parseDefault W true (fmtModel W .upperHex { alt := true, plus := plus } z) 10 = .ok (z, 16) := by
  have h2 : (2 : Nat) < 2 ^ W := by omega
  have h8 : (8 : Nat) < 2 ^ W := by omega
  have h16 : (16 : Nat) < 2 ^ W := by omega
  refine ⟨?_, ?_, ?_, ?_⟩
  · rw [parseDefault_spec W hW, fmtModel_eq_fmtSpec W .binary _ _ (by decide) h2]
    unfold fmtSpec padIntegral
    simp only [List.length_nil, FmtTrait.radix, if_true]
    exact prefix_text_parse 98 2 false z plus (fun _ => rfl) (by decide)
  · rw [parseDefault_spec W hW, fmtModel_eq_fmtSpec W .octal _ _ (by decide) h8]
    unfold fmtSpec padIntegral
    simp only [List.length_nil, FmtTrait.radix, if_true]
    exact prefix_text_parse 111 8 false z plus (fun _ => rfl) (by decide)
  · rw [parseDefault_spec W hW, fmtModel_eq_fmtSpec W .lowerHex _ _ (by decide) h16]
    unfold fmtSpec padIntegral
    simp only [List.length_nil, FmtTrait.radix, if_true]
    exact prefix_text_parse 120 16 false z plus (fun _ => rfl) (by decide)
  · rw [parseDefault_spec W hW, fmtModel_eq_fmtSpec W .upperHex _ _ (by decide) h16]
    unfold fmtSpec padIntegral
    simp only [List.length_nil, FmtTrait.radix, if_true]
    exact prefix_text_parse 120 16 true z plus (fun _ => rfl) (by decide)

end Dashu.Model.Text
