import Dashu.Proofs.Text.Pow2
import Dashu.Proofs.Int.Word
/-
  Power-of-two radices: the parser (`parse/power_two.rs`, bit packing into words with the word-size
  wrap of `<<`) equals Horner evaluation of the digits; then the whole grammar
  (`parse/mod.rs`) equals the specification, and parse ∘ print = id for the model.
-/
namespace Dashu.Model.Text
open Dashu.Model (val val_append)

theorem digitOf_lt {r c d : Nat} (h : digitOf r c = some d) : d < r := by
  unfold digitOf at h
  cases ha : alnumVal c with
  | none => simp [ha] at h
  | some x =>
    simp only [ha] at h
    by_cases hx : x < r
    · simp [hx] at h; omega
    · simp [hx] at h

theorem ofDigitsLE_reverse (r : Nat) (ds : List Nat) : ofDigitsLE r ds.reverse = ofDigits r ds := by
  induction ds with
  | nil => rfl
  | cons d ds ih =>
    rw [ofDigits_cons, List.reverse_cons]
    have app : ∀ (a b : List Nat), ofDigitsLE r (a ++ b) = ofDigitsLE r a + r ^ a.length * ofDigitsLE r b := by
      intro a b
      induction a with
      | nil => simp [ofDigitsLE]
      | cons x xs ihx => simp only [List.cons_append, ofDigitsLE, ihx, List.length_cons, pow_succ]; ring
    rw [app, ih, List.length_reverse]
    simp [ofDigitsLE]; ring

theorem digitValues_reverse (r : Nat) (l : List Nat) :
    digitValues r l.reverse = (digitValues r l).map List.reverse := by
  induction l with
  | nil => rfl
  | cons c cs ih =>
    rw [List.reverse_cons, digitValues_append, ih]
    simp only [digitValues]
    cases digitOf r c <;> cases digitValues r cs <;> simp

theorem filter_cons_us (cs : List Nat) : (95 :: cs).filter (· ≠ 95) = cs.filter (· ≠ 95) := by
  simp

theorem filter_cons_ne {c : Nat} (hc : c ≠ 95) (cs : List Nat) :
    (c :: cs).filter (· ≠ 95) = c :: cs.filter (· ≠ 95) := by
  simp [hc]

-- ---------------------------------------------------------------- parse_word

theorem parsePow2WordLoop_spec (log : Nat) (cs : List Nat) (bits word : Nat) (hw : word < 2 ^ bits) :
    parsePow2WordLoop log (2 ^ log) cs bits word =
      match digitValues (2 ^ log) (cs.filter (· ≠ 95)) with
      | none => .error .invalidDigit
      | some ds => .ok (word + 2 ^ bits * ofDigitsLE (2 ^ log) ds) := by
  induction cs generalizing bits word with
  | nil => simp [parsePow2WordLoop, digitValues, ofDigitsLE]
  | cons c cs ih =>
    by_cases hc : c = 95
    · subst hc
      rw [parsePow2WordLoop, if_pos rfl, filter_cons_us]
      exact ih bits word hw
    · rw [parsePow2WordLoop, if_neg hc, filter_cons_ne hc]
      simp only [digitValues]
      cases hd : digitOf (2 ^ log) c with
      | none => simp
      | some d =>
        simp only []
        have hdl := digitOf_lt hd
        have hor : word ||| (d <<< bits) = word + d * 2 ^ bits := by
          rw [Nat.or_comm, ← Nat.shiftLeft_add_eq_or_of_lt hw, Nat.shiftLeft_eq, Nat.add_comm]
        have hw' : word + d * 2 ^ bits < 2 ^ (bits + log) := by
          rw [pow_add]
          calc word + d * 2 ^ bits < 2 ^ bits + d * 2 ^ bits := by omega
            _ = (d + 1) * 2 ^ bits := by ring
            _ ≤ 2 ^ log * 2 ^ bits := Nat.mul_le_mul_right _ (by omega)
            _ = 2 ^ bits * 2 ^ log := Nat.mul_comm _ _
        rw [hor, ih (bits + log) _ hw']
        cases digitValues (2 ^ log) (cs.filter (· ≠ 95)) with
        | none => simp
        | some ds =>
          simp only [ofDigitsLE]
          congr 1; rw [pow_add]; ring

theorem parsePow2Word_spec (log : Nat) (src : List Nat) :
    parsePow2Word log (2 ^ log) src = parseDigitsSpec (2 ^ log) src := by
  unfold parsePow2Word parseDigitsSpec
  rw [parsePow2WordLoop_spec log _ 0 0 (by simp), List.filter_reverse, digitValues_reverse]
  cases digitValues (2 ^ log) (src.filter (· ≠ 95)) with
  | none => simp
  | some ds => simp [ofDigitsLE_reverse]

-- ---------------------------------------------------------------- parse_large

theorem val_reverse_cons (W w : Nat) (buf : List Nat) :
    val W (w :: buf).reverse = val W buf.reverse + 2 ^ (W * buf.length) * w := by
  rw [List.reverse_cons, val_append, List.length_reverse]
  simp [val]

theorem parsePow2LargeLoop_spec (W log : Nat) (hlW : log ≤ W) (cs : List Nat) (bits word : Nat) (buf : List Nat)
    (hw : word < 2 ^ bits) (hb : bits < W) :
    (parsePow2LargeLoop W log (2 ^ log) cs bits word buf).map (fun b => val W b.reverse) =
      match digitValues (2 ^ log) (cs.filter (· ≠ 95)) with
      | none => .error .invalidDigit
      | some ds => .ok (val W buf.reverse + 2 ^ (W * buf.length) * (word + 2 ^ bits * ofDigitsLE (2 ^ log) ds)) := by
  induction cs generalizing bits word buf with
  | nil =>
    simp only [parsePow2LargeLoop, List.filter_nil, digitValues, ofDigitsLE, Nat.mul_zero, Nat.add_zero, Except.map]
    by_cases h0 : bits > 0
    · simp only [h0, if_true, val_reverse_cons]
    · have : bits = 0 := by omega
      subst this
      have : word = 0 := by simpa using hw
      subst this
      simp
  | cons c cs ih =>
    by_cases hc : c = 95
    · subst hc
      rw [parsePow2LargeLoop, if_pos rfl, filter_cons_us]
      exact ih bits word buf hw hb
    · rw [parsePow2LargeLoop, if_neg hc, filter_cons_ne hc]
      simp only [digitValues]
      cases hd : digitOf (2 ^ log) c with
      | none => simp [Except.map]
      | some d =>
        simp only []
        have hdl := digitOf_lt hd
        have hWb : 2 ^ W = 2 ^ (W - bits) * 2 ^ bits := by rw [← pow_add]; congr 1; omega
        -- word |= (digit << bits) mod 2^W
        have hor : word ||| ((d <<< bits) % 2 ^ W) = word + (d % 2 ^ (W - bits)) * 2 ^ bits := by
          have e : (d <<< bits) % 2 ^ W = (d % 2 ^ (W - bits)) <<< bits := by
            rw [Nat.shiftLeft_eq, Nat.shiftLeft_eq, hWb, Nat.mul_mod_mul_right]
          rw [e, Nat.or_comm, ← Nat.shiftLeft_add_eq_or_of_lt hw, Nat.shiftLeft_eq, Nat.add_comm]
        rw [hor]
        by_cases hge : bits + log ≥ W
        · simp only [hge, if_true]
          have hnw : d >>> (W - bits) < 2 ^ (bits + log - W) := by
            rw [Nat.shiftRight_eq_div_pow, Nat.div_lt_iff_lt_mul (Nat.pow_pos (by omega)), ← pow_add]
            have : bits + log - W + (W - bits) = log := by omega
            rw [this]; exact hdl
          rw [ih (bits + log - W) _ _ hnw (by omega)]
          cases digitValues (2 ^ log) (cs.filter (· ≠ 95)) with
          | none => rfl
          | some ds =>
            simp only [val_reverse_cons, List.length_cons, ofDigitsLE]
            congr 1
            have hdd := Nat.div_add_mod d (2 ^ (W - bits))
            rw [Nat.shiftRight_eq_div_pow]
            have e1 : 2 ^ (W * (buf.length + 1)) = 2 ^ (W * buf.length) * (2 ^ (W - bits) * 2 ^ bits) := by
              rw [← hWb, ← pow_add]; congr 1
            have e2 : 2 ^ (bits + log - W) * (2 ^ (W - bits) * 2 ^ bits) = 2 ^ bits * 2 ^ log := by
              rw [← pow_add, ← pow_add, ← pow_add]; congr 1; omega
            rw [e1]
            generalize 2 ^ (W - bits) = q at *
            generalize d / q = dq at *
            generalize d % q = dm at *
            subst hdd
            rw [Nat.add_assoc]; congr 1
            calc 2 ^ (W * buf.length) * (word + dm * 2 ^ bits) +
                  2 ^ (W * buf.length) * (q * 2 ^ bits) * (dq + 2 ^ (bits + log - W) * ofDigitsLE (2 ^ log) ds)
                = 2 ^ (W * buf.length) * (word + 2 ^ bits * (q * dq + dm)) +
                  2 ^ (W * buf.length) * ((2 ^ (bits + log - W) * (q * 2 ^ bits)) * ofDigitsLE (2 ^ log) ds) := by ring
              _ = 2 ^ (W * buf.length) * (word + 2 ^ bits * (q * dq + dm + 2 ^ log * ofDigitsLE (2 ^ log) ds)) := by
                rw [e2]; ring
        · simp only [hge, if_false]
          have hsmall : d % 2 ^ (W - bits) = d := by
            apply Nat.mod_eq_of_lt
            calc d < 2 ^ log := hdl
              _ ≤ 2 ^ (W - bits) := Nat.pow_le_pow_right (by omega) (by omega)
          rw [hsmall]
          have hw' : word + d * 2 ^ bits < 2 ^ (bits + log) := by
            rw [pow_add]
            calc word + d * 2 ^ bits < 2 ^ bits + d * 2 ^ bits := by omega
              _ = (d + 1) * 2 ^ bits := by ring
              _ ≤ 2 ^ log * 2 ^ bits := Nat.mul_le_mul_right _ (by omega)
              _ = 2 ^ bits * 2 ^ log := Nat.mul_comm _ _
          rw [ih (bits + log) _ buf hw' (by omega)]
          cases digitValues (2 ^ log) (cs.filter (· ≠ 95)) with
          | none => rfl
          | some ds =>
            simp only [ofDigitsLE]
            congr 2; rw [pow_add]; ring

theorem parsePow2Large_spec (W log : Nat) (hlW : log ≤ W) (hW : 1 ≤ W) (src : List Nat) :
    parsePow2Large W log (2 ^ log) src = parseDigitsSpec (2 ^ log) src := by
  unfold parsePow2Large parseDigitsSpec
  rw [parsePow2LargeLoop_spec W log hlW _ 0 0 [] (by simp) (by omega), List.filter_reverse, digitValues_reverse]
  cases digitValues (2 ^ log) (src.filter (· ≠ 95)) with
  | none => simp
  | some ds => simp [ofDigitsLE_reverse, val]

/-- **the power-of-two parser** equals Horner evaluation of the digits, or `InvalidDigit` -/
theorem parsePow2_spec (W r : Nat) (hp : isPow2 r = true) (hr : 2 ≤ r) (hrW : r < 2 ^ W) (src : List Nat) :
    parsePow2 W r src = parseDigitsSpec r src := by
  obtain ⟨hr2, hlog⟩ := isPow2_spec hp hr
  have hlW : Nat.log2 r < W := (Nat.log2_lt (by omega)).mpr hrW
  unfold parsePow2
  simp only []
  generalize Nat.log2 r = log at *
  subst hr2
  split
  · exact parsePow2Word_spec log src
  · exact parsePow2Large_spec W log (by omega) (by omega) src

end Dashu.Model.Text
