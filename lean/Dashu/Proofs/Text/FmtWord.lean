import Dashu.Model.Text.FmtWord
import Dashu.Proofs.Text.Capacity
import Dashu.Proofs.Int.NumModularContract
/-
  C07 — the word-level divisions of the non-power-of-two printers (builder-div's
  `fast_div_by_word_in_place` / `div_rem_2by1` / `shl_dword` models with their proved contracts) compute
  exactly the `/` and `%` of the number-level model.
-/
namespace Dashu.Model.Text
open Dashu.Model Dashu.Model.Div

-- ---------------------------------------------------------------- trimming zero words

theorem val_replicate_zero (W k : Nat) : val W (List.replicate k 0) = 0 := by
  induction k with
  | zero => rfl
  | succ k ih => simp [List.replicate_succ, val, ih]

theorem val_all_zero (W : Nat) (z : List Nat) (h : ∀ x ∈ z, x = 0) : val W z = 0 := by
  induction z with
  | nil => rfl
  | cons a t ih =>
    have ha : a = 0 := h a (List.mem_cons_self ..)
    have := ih (fun x hx => h x (List.mem_cons_of_mem _ hx))
    simp [val, ha, this]

theorem takeWhile_all {p : Nat → Bool} : ∀ (l : List Nat) (x : Nat), x ∈ l.takeWhile p → p x = true := by
  intro l
  induction l with
  | nil => intro x hx; simp at hx
  | cons a t ih =>
    intro x hx
    rw [List.takeWhile_cons] at hx
    by_cases ha : p a = true
    · rw [if_pos ha] at hx
      rcases List.mem_cons.mp hx with h | h
      · rw [h]; exact ha
      · exact ih x h
    · rw [if_neg ha] at hx; simp at hx

theorem dropWhile_head {p : Nat → Bool} : ∀ (l : List Nat) (a : Nat) (t : List Nat),
    l.dropWhile p = a :: t → p a = false := by
  intro l
  induction l with
  | nil => intro a t h; simp at h
  | cons b u ih =>
    intro a t h
    rw [List.dropWhile_cons] at h
    by_cases hb : p b = true
    · rw [if_pos hb] at h; exact ih a t h
    · rw [if_neg hb] at h
      have : b = a := (List.cons.inj h).1
      rw [← this]; simpa using hb

theorem trimZeros_decomp (ws : List Nat) : ∃ z : List Nat, ws = trimZeros ws ++ z ∧ ∀ x ∈ z, x = 0 := by
  refine ⟨(ws.reverse.takeWhile (· == 0)).reverse, ?_, ?_⟩
  · unfold trimZeros
    rw [← List.reverse_append, List.takeWhile_append_dropWhile, List.reverse_reverse]
  · intro x hx
    have := takeWhile_all _ x (List.mem_reverse.mp hx)
    simpa using this

theorem val_trimZeros (W : Nat) (ws : List Nat) : val W (trimZeros ws) = val W ws := by
  obtain ⟨z, hz, h0⟩ := trimZeros_decomp ws
  conv_rhs => rw [hz, val_append, val_all_zero W z h0]
  simp

theorem isWords_trimZeros {W : Nat} {ws : List Nat} (h : IsWords W ws) : IsWords W (trimZeros ws) := by
  obtain ⟨z, hz, _⟩ := trimZeros_decomp ws
  intro x hx
  exact h x (by rw [hz]; exact List.mem_append_left _ hx)

/-- the top word of a trimmed buffer is not zero -/
def Norm (ws : List Nat) : Prop := ws.getLast? ≠ some 0

theorem norm_trimZeros (ws : List Nat) : Norm (trimZeros ws) := by
  unfold Norm trimZeros
  rw [List.getLast?_reverse]
  intro h
  cases hd : ws.reverse.dropWhile (· == 0) with
  | nil => rw [hd] at h; simp at h
  | cons a t =>
    rw [hd] at h
    simp at h
    have := dropWhile_head _ a t hd
    rw [h] at this
    simp at this

theorem norm_length (W : Nat) (ws : List Nat) (h : IsWords W ws) (hn : Norm ws) :
    (ws.length ≤ 1 ↔ val W ws < 2 ^ W) ∧ (ws.length ≤ 1 → ws.headD 0 = val W ws) := by
  constructor
  · constructor
    · intro hl
      match ws, hl, h with
      | [], _, _ => simp [val]
      | [w], _, h => simp [val]; exact h.head
    · intro hv
      by_contra hc
      have hl : 2 ≤ ws.length := by omega
      -- ws = init ++ [last], last ≠ 0
      obtain ⟨init, last, rfl⟩ : ∃ init last, ws = init ++ [last] := by
        have hne : ws ≠ [] := by intro h0; rw [h0] at hl; simp at hl
        exact ⟨ws.dropLast, ws.getLast hne, (List.dropLast_append_getLast hne).symm⟩
      have hlast : last ≠ 0 := by
        intro h0; apply hn; subst h0; simp
      rw [val_append] at hv
      simp only [val, Nat.mul_zero, Nat.add_zero] at hv
      have hil : 1 ≤ init.length := by simp at hl; omega
      have : 2 ^ W ≤ 2 ^ (W * init.length) := Nat.pow_le_pow_right (by omega) (by nlinarith)
      have : 2 ^ (W * init.length) * 1 ≤ 2 ^ (W * init.length) * last :=
        Nat.mul_le_mul_left _ (by omega)
      omega
  · intro hl
    match ws, hl with
    | [], _ => rfl
    | [w], _ => simp [val]

-- ---------------------------------------------------------------- PreparedMedium

/-- the word-level loop of `PreparedMedium::new` is the number-level one -/
theorem mediumLoopW_eq (W rpw : Nat) (hW : 1 ≤ W) (h2 : 2 ≤ rpw) (hlt : rpw < 2 ^ W) :
    ∀ (fuel : Nat) (ws g : List Nat), IsWords W ws → Norm ws → val W ws < 2 ^ fuel →
      mediumLoopW W rpw (lz W rpw) fuel ws g = .ok (mediumLoop W rpw (val W ws) g) := by
  have hrpw0 : rpw ≠ 0 := by omega
  obtain ⟨hs1, hs2, hs3⟩ := lz_spec (bits := W) hrpw0 hlt
  intro fuel
  induction fuel with
  | zero =>
    intro ws g hw hn hv
    have hv0 : val W ws = 0 := by simpa using hv
    have hl := (norm_length W ws hw hn).1.mpr (by rw [hv0]; exact Nat.two_pow_pos W)
    unfold mediumLoopW
    rw [(norm_length W ws hw hn).2 hl, hv0, mediumLoop, dif_pos (Or.inr (Nat.two_pow_pos W))]
  | succ fuel ih =>
    intro ws g hw hn hv
    unfold mediumLoopW
    by_cases hl : ws.length ≤ 1
    · rw [if_pos hl, (norm_length W ws hw hn).2 hl, mediumLoop,
        dif_pos (Or.inr ((norm_length W ws hw hn).1.mp hl))]
    · rw [if_neg hl]
      have hbig : ¬ val W ws < 2 ^ W := fun h => hl ((norm_length W ws hw hn).1.mpr h)
      obtain ⟨qs, r, hdiv, hval, hr, _, hq⟩ :=
        fastDivByWordInPlace_spec W rpw (lz W rpw) ws hw (by omega) (by omega) (le_of_lt hs3)
      rw [hdiv]
      simp only []
      have hqv : val W qs = val W ws / rpw ∧ r = val W ws % rpw := by
        have hpos : 0 < rpw := by omega
        constructor
        · rw [← hval]; rw [Nat.mul_comm, Nat.mul_add_div hpos, Nat.div_eq_of_lt hr, Nat.add_zero]
        · rw [← hval]; rw [Nat.mul_comm, Nat.mul_add_mod, Nat.mod_eq_of_lt hr]
      have hdec : val W ws / rpw < 2 ^ fuel := by
        have : val W ws / rpw ≤ val W ws / 2 := Nat.div_le_div_left h2 (by omega)
        have : val W ws / 2 < 2 ^ fuel := by
          rw [Nat.div_lt_iff_lt_mul (by omega)]; rw [Nat.pow_succ] at hv; omega
        omega
      rw [ih (trimZeros qs) (r :: g) (isWords_trimZeros hq) (norm_trimZeros qs)
        (by rw [val_trimZeros, hqv.1]; exact hdec)]
      rw [val_trimZeros, hqv.1, hqv.2]
      conv_rhs => rw [mediumLoop, dif_neg (by intro h; rcases h with h | h; omega; exact hbig h)]

/-- **`PreparedMedium` on the word buffer** (repeated `fast_div_by_word_in_place`, trimming of zero
    words) prints what the number-level model prints -/
theorem preparedMediumW_eq (W r : Nat) (hW : 1 ≤ W) (hr : 2 ≤ r) (hrW : r < 2 ^ W) (ws : List Nat)
    (hw : IsWords W ws) (hn : Norm ws) :
    preparedMediumW W r ws = .ok (preparedMedium W r (val W ws)) := by
  have ok := radixInfo_ok W r hr hrW
  unfold preparedMediumW preparedMedium
  simp only []
  rw [mediumLoopW_eq W _ hW ok.rpw_ge ok.lt (W * ws.length + 1) ws [] hw hn
    (lt_of_lt_of_le (val_lt W ws hw) (Nat.pow_le_pow_right (by omega) (by omega)))]

-- ---------------------------------------------------------------- write_chunk

theorem norm_zero_nil (W : Nat) (ws : List Nat) (h : IsWords W ws) (hn : Norm ws) (hv : val W ws = 0) : ws = [] := by
  have hl := (norm_length W ws h hn).1.mpr (by rw [hv]; exact Nat.two_pow_pos W)
  match ws, hl, hn, hv with
  | [], _, _, _ => rfl
  | [w], _, hn, hv =>
    exfalso; apply hn
    simp [val] at hv; subst hv; rfl

theorem chunkGroupsW_eq (W rpw : Nat) (h2 : 2 ≤ rpw) (hlt : rpw < 2 ^ W) :
    ∀ (c : Nat) (ws acc : List Nat), IsWords W ws →
      ∃ rest, chunkGroupsW W rpw (lz W rpw) c ws acc = .ok (rest, chunkGroups rpw c (val W ws) acc) ∧
        IsWords W rest ∧ val W rest = val W ws / rpw ^ c ∧ (1 ≤ c → Norm rest) := by
  have hrpw0 : rpw ≠ 0 := by omega
  obtain ⟨hs1, hs2, hs3⟩ := lz_spec (bits := W) hrpw0 hlt
  intro c
  induction c with
  | zero => intro ws acc hw; exact ⟨ws, rfl, hw, by simp, fun h => by omega⟩
  | succ c ih =>
    intro ws acc hw
    unfold chunkGroupsW chunkGroups
    obtain ⟨qs, r, hdiv, hval, hr, _, hq⟩ :=
      fastDivByWordInPlace_spec W rpw (lz W rpw) ws hw (by omega) (by omega) (le_of_lt hs3)
    rw [hdiv]
    simp only []
    have hpos : 0 < rpw := by omega
    have hqv : val W qs = val W ws / rpw ∧ r = val W ws % rpw := by
      constructor
      · rw [← hval]; rw [Nat.mul_comm, Nat.mul_add_div hpos, Nat.div_eq_of_lt hr, Nat.add_zero]
      · rw [← hval]; rw [Nat.mul_comm, Nat.mul_add_mod, Nat.mod_eq_of_lt hr]
    obtain ⟨rest, he, hwr, hvr, hnr⟩ := ih (trimZeros qs) (r :: acc) (isWords_trimZeros hq)
    rw [val_trimZeros, hqv.1] at he hvr
    rw [hqv.2] at he ⊢
    refine ⟨rest, he, hwr, ?_, fun _ => ?_⟩
    · rw [hvr, Nat.div_div_eq_div_mul, Nat.pow_succ, Nat.mul_comm]
    · by_cases hc : 1 ≤ c
      · exact hnr hc
      · have hc0 : c = 0 := by omega
        subst hc0
        simp only [chunkGroupsW, Except.ok.injEq, Prod.mk.injEq] at he
        rw [← he.1]; exact norm_trimZeros qs

/-- **`write_chunk` on the word buffer**: `CHUNK_LEN` divisions by `range_per_word`, the final
    `assert_eq!(buffer_len, 0)` holds whenever the chunk is below `range_per_word^CHUNK_LEN`, and the
    digits are those of the number-level model -/
theorem writeChunkW_eq (W r : Nat) (hr : 2 ≤ r) (hrW : r < 2 ^ W) (ws : List Nat) (hw : IsWords W ws)
    (hfit : val W ws < (radixInfo W r).rpw ^ fmtChunkLen) :
    writeChunkW W r ws = .ok (writeChunk W r (val W ws)) := by
  have ok := radixInfo_ok W r hr hrW
  have hc1 : 1 ≤ fmtChunkLen := by decide
  unfold writeChunkW writeChunk
  simp only []
  obtain ⟨rest, he, hwr, hvr, hnr⟩ := chunkGroupsW_eq W _ ok.rpw_ge ok.lt fmtChunkLen ws [] hw
  rw [he]
  simp only []
  have hrest : rest = [] := norm_zero_nil W rest hwr (hnr hc1) (by rw [hvr]; exact Nat.div_eq_of_lt hfit)
  simp [hrest]

-- ---------------------------------------------------------------- PreparedDword

theorem scaled_div_mod (a d s : Nat) (hd : 0 < d) :
    (a * 2 ^ s) / (d * 2 ^ s) = a / d ∧ (a * 2 ^ s) % (d * 2 ^ s) = (a % d) * 2 ^ s := by
  have hp : 0 < 2 ^ s := Nat.two_pow_pos s
  exact ⟨Nat.mul_div_mul_right a d hp, Nat.mul_mod_mul_right (2 ^ s) a d⟩

/-- **the three-part split of `PreparedDword::new`** (`shl_dword` by the normalising shift, three
    `div_rem_2by1` by the normalised `range_per_word`, shifts back) is `% range_per_word`,
    `/ range_per_word % range_per_word`, `/ range_per_word / range_per_word`; no precondition of
    `div_rem_2by1` fails and `double_word(q0, q1) << shift` does not overflow — for every double word,
    provided `range_per_word² ≥ 2^W` (true for the maximal power of every radix, `radix_table`) -/
theorem dwordSplitW_eq (W rpw dword : Nat) (hW : 1 ≤ W) (h0 : 0 < rpw) (hlt : rpw < 2 ^ W)
    (hbig : 2 ^ W ≤ rpw * rpw) (hd : dword < 2 ^ (2 * W)) :
    dwordSplitW W rpw dword = .ok (dword % rpw, (dword / rpw) % rpw, dword / rpw / rpw) := by
  obtain ⟨hs1, hs2, hs3⟩ := lz_spec (bits := W) (by omega : rpw ≠ 0) hlt
  obtain ⟨hsum, hlo, hmid, hhi⟩ := shlDword_spec W dword (lz W rpw) (by omega) hd
  unfold dwordSplitW
  simp only []
  generalize lz W rpw = s at *
  generalize hsd : shlDword W dword s = t at *
  obtain ⟨lo, mid, hi⟩ := t
  simp only [] at hsum hlo hmid hhi ⊢
  have hps : 0 < 2 ^ s := Nat.two_pow_pos s
  have hpW : 0 < 2 ^ W := Nat.two_pow_pos W
  have hD : 0 < rpw * 2 ^ s := Nat.mul_pos h0 hps
  -- first division
  have hpre1 : (mid + 2 ^ W * hi) / 2 ^ W < rpw * 2 ^ s := by
    rw [Nat.add_mul_div_left _ _ hpW, Nat.div_eq_of_lt hmid, Nat.zero_add]
    calc hi < 2 ^ s := hhi
      _ ≤ rpw * 2 ^ s := Nat.le_mul_of_pos_left _ h0
  rw [div2by1_ok W _ _ hpre1]
  simp only [bind, Except.bind]
  have hr1 : (mid + 2 ^ W * hi) % (rpw * 2 ^ s) < rpw * 2 ^ s := Nat.mod_lt _ hD
  have hpre2 : (lo + 2 ^ W * ((mid + 2 ^ W * hi) % (rpw * 2 ^ s))) / 2 ^ W < rpw * 2 ^ s := by
    rw [Nat.add_mul_div_left _ _ hpW, Nat.div_eq_of_lt hlo, Nat.zero_add]; exact hr1
  rw [div2by1_ok W _ _ hpre2]
  simp only []
  -- the quotient and remainder of N = dword·2^s by D
  generalize hq1 : (mid + 2 ^ W * hi) / (rpw * 2 ^ s) = q1 at *
  generalize hr1' : (mid + 2 ^ W * hi) % (rpw * 2 ^ s) = r1 at *
  have hdec1 : mid + 2 ^ W * hi = (rpw * 2 ^ s) * q1 + r1 := by
    rw [← hq1, ← hr1']; exact (Nat.div_add_mod _ _).symm
  generalize hq0 : (lo + 2 ^ W * r1) / (rpw * 2 ^ s) = q0 at *
  generalize hp0 : (lo + 2 ^ W * r1) % (rpw * 2 ^ s) = p0s at *
  have hdec0 : lo + 2 ^ W * r1 = (rpw * 2 ^ s) * q0 + p0s := by
    rw [← hq0, ← hp0]; exact (Nat.div_add_mod _ _).symm
  have hp0lt : p0s < rpw * 2 ^ s := by rw [← hp0]; exact Nat.mod_lt _ hD
  have hN : dword * 2 ^ s = (rpw * 2 ^ s) * (q0 + 2 ^ W * q1) + p0s := by
    have e : 2 ^ (2 * W) = 2 ^ W * 2 ^ W := by rw [← Nat.pow_add]; congr 1; omega
    rw [← hsum, e]
    have : lo + 2 ^ W * mid + 2 ^ W * 2 ^ W * hi = lo + 2 ^ W * (mid + 2 ^ W * hi) := by ring
    rw [this, hdec1]
    have : lo + 2 ^ W * (rpw * 2 ^ s * q1 + r1) = (lo + 2 ^ W * r1) + rpw * 2 ^ s * (2 ^ W * q1) := by ring
    rw [this, hdec0]; ring
  have hQ : q0 + 2 ^ W * q1 = dword / rpw ∧ p0s = (dword % rpw) * 2 ^ s := by
    obtain ⟨e1, e2⟩ := scaled_div_mod dword rpw s h0
    constructor
    · rw [← e1, hN, Nat.mul_add_div hD, Nat.div_eq_of_lt hp0lt, Nat.add_zero]
    · rw [← e2, hN, Nat.mul_add_mod, Nat.mod_eq_of_lt hp0lt]
  rw [hQ.1, hQ.2]
  -- the quotient shifted back up
  have hQlt : dword / rpw * rpw < 2 ^ (2 * W) := lt_of_le_of_lt (Nat.div_mul_le_self _ _) hd
  have e2W : 2 ^ (2 * W) = 2 ^ W * 2 ^ W := by rw [← Nat.pow_add]; congr 1; omega
  have hslt : 2 ^ s < rpw := by
    by_contra hc
    have : rpw * rpw ≤ rpw * 2 ^ s := Nat.mul_le_mul_left _ (by omega)
    omega
  have hQs : dword / rpw * 2 ^ s < 2 ^ (2 * W) :=
    lt_of_le_of_lt (Nat.mul_le_mul_left _ (le_of_lt hslt)) hQlt
  rw [Nat.mod_eq_of_lt hQs]
  have hpre3 : (dword / rpw * 2 ^ s) / 2 ^ W < rpw * 2 ^ s := by
    rw [Nat.div_lt_iff_lt_mul hpW]
    -- Q < 2^(2W)/rpw ≤ rpw·2^W
    have hQ2 : dword / rpw < rpw * 2 ^ W := by
      by_contra hc
      have h1 : rpw * 2 ^ W * rpw ≤ dword / rpw * rpw := Nat.mul_le_mul_right _ (by omega)
      have h2 : 2 ^ W * 2 ^ W ≤ rpw * 2 ^ W * rpw := by
        calc 2 ^ W * 2 ^ W ≤ (rpw * rpw) * 2 ^ W := Nat.mul_le_mul_right _ hbig
          _ = rpw * 2 ^ W * rpw := by ring
      omega
    calc dword / rpw * 2 ^ s < rpw * 2 ^ W * 2 ^ s := Nat.mul_lt_mul_of_pos_right hQ2 hps
      _ = rpw * 2 ^ s * 2 ^ W := by ring
  rw [div2by1_ok W _ _ hpre3]
  simp only [pure, Except.pure]
  obtain ⟨e1, e2⟩ := scaled_div_mod (dword / rpw) rpw s h0
  rw [e1, e2, Nat.mul_div_cancel _ hps, Nat.mul_div_cancel _ hps]

/-- `PreparedDword::new` with the word-level split prints the number-level digits -/
theorem preparedDwordW_eq (W r dword : Nat) (hW : 1 ≤ W) (hev : 2 ∣ W) (hr : 2 ≤ r) (hrW : r < 2 ^ W)
    (hd : dword < 2 ^ (2 * W)) : preparedDwordW W r dword = .ok (preparedDword W r dword) := by
  have ok := radixInfo_ok W r hr hrW
  have hmax := (maxExpInWord_spec W r hr hrW).2.2.2 hev
  have hrle : r ≤ (radixInfo W r).rpw := by
    rw [ok.pow]
    calc r = r ^ 1 := (pow_one r).symm
      _ ≤ r ^ (radixInfo W r).dpw := Nat.pow_le_pow_right (by omega) ok.dpos
  have hbig : 2 ^ W ≤ (radixInfo W r).rpw * (radixInfo W r).rpw :=
    le_trans hmax (Nat.mul_le_mul_left _ hrle)
  unfold preparedDwordW preparedDword
  simp only []
  rw [dwordSplitW_eq W _ dword hW (by have := ok.rpw_ge; omega) ok.lt hbig hd]

end Dashu.Model.Text
