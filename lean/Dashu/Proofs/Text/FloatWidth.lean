import Dashu.Proofs.Text.FloatPad
/-
  C08 — the padding AMOUNTS of `fmt_round` and `fmt_round_scientific` (float/src/fmt.rs): the `width` the
  code computes from the digit count, the exponent and the precision option is exactly the number of
  characters of sign + digits/point/zeros (+ `0x`, marker, exponent), hence the formatter's width is
  honoured exactly: the padding inserted is `min_width − natural length` (none when the text is already
  that long), placed as the alignment / zero flag says.
-/
namespace Dashu.Model.Text
open Dashu.Model.Float

theorem rep_single_length (k c : Nat) : (rep k [c]).length = k := by
  unfold rep
  induction k with
  | zero => rfl
  | succ k ih => rw [List.replicate_succ, List.flatten_cons, List.length_append, ih]; simp; omega

-- ---------------------------------------------------------------- Display

/-- the (significand, exponent) pair `fmt_round` prints -/
def dispPair (B : Nat) (m : Mode) (prec : Option Nat) (r : FRepr) : Int × Int :=
  match prec with
  | some p =>
    let diff : Int := (p : Int) + r.exp
    if diff < 0 then
      let shift := (-diff).toNat
      let hl := splitDigits B r.signif shift
      let adj := roundFract B m coarseNone hl.1 hl.2 shift
      (hl.1 + rInt adj, r.exp - diff)
    else (r.signif, r.exp)
  | none => (r.signif, r.exp)

/-- `signif_str`: the digits of the (rounded) significand without the sign -/
def dispStr (B : Nat) (m : Mode) (prec : Option Nat) (r : FRepr) : List Nat :=
  if r.signif < 0 then (printSpecInt B false (dispPair B m prec r).1).drop 1
  else printSpecInt B false (dispPair B m prec r).1

/-- the `width` `fmt_round` computes: from the length `L` of `signif_str`, the
    exponent, the precision option and the sign character count -/
def widthG (L : Nat) (exp : Int) (prec : Option Nat) (hasSign : Nat) : Nat :=
  let len : Int := L
  let leadingZeros := (-(min (exp + len - 1) 0)).toNat
  let trailing0 := (max exp 0).toNat
  let trailingZeros := match prec with
    | some p => let d : Int := (p : Int) + min exp 0; if d > 0 then trailing0 + d.toNat else trailing0
    | none => trailing0
  let signifDigits := if leadingZeros = 0 then max L 1 else L
  let hasPoint : Nat :=
    if exp ≥ 0 then (if prec.getD 0 > 0 then 1 else 0)
    else (if prec ≠ some 0 then 1 else 0)
  signifDigits + hasSign + hasPoint + leadingZeros + trailingZeros

/-- the padding decision of `fmt_round` from the total width -/
def padsG (f : FmtSpec) (width : Nat) : Nat × Nat :=
  match f.width with
  | none => (0, 0)
  | some minWidth =>
    if width ≥ minWidth then (0, 0)
    else if f.zero then (minWidth - width, 0)
    else match f.align with
      | some .left => (0, minWidth - width)
      | some .right | none => (minWidth - width, 0)
      | some .center => let d := minWidth - width; (d / 2, d - d / 2)

/-- "print the integral part, at least print a zero" -/
def orZero (l : List Nat) : List Nat := if l = [] then [48] else l

theorem orZero_length (l : List Nat) : (orZero l).length = max l.length 1 := by
  cases l with
  | nil => rfl
  | cons a t => simp [orZero]

/-- digits, point and zeros as `fmt_round` writes them -/
def bodyG (signifStr : List Nat) (exp : Int) (prec : Option Nat) : List Nat :=
  if exp < 0 then
    let e := (-exp).toNat
    let cut := signifStr.length - e
    let int := signifStr.take cut
    let fract := signifStr.drop cut
    let fd := fract.length
    let intOut := orZero int
    match prec with
    | some p =>
      if p ≠ 0 then
        if e ≥ p then intOut ++ [46] ++ rep (p - fd) [48] ++ fract
        else intOut ++ [46] ++ rep (e - fd) [48] ++ fract ++ rep (p - e) [48]
      else intOut
    | none =>
      if fd > 0 then intOut ++ [46] ++ rep (e - fd) [48] ++ fract else intOut
  else
    orZero signifStr ++ rep exp.toNat [48] ++
      (match prec with
       | some p => if p > 0 then [46] ++ rep p [48] else []
       | none => [])

theorem fmtRoundCore_eq_bodyG (B : Nat) (m : Mode) (prec : Option Nat) (r : FRepr) :
    fmtRoundCore B m prec r = bodyG (dispStr B m prec r) (dispPair B m prec r).2 prec := by
  unfold fmtRoundCore bodyG dispStr dispPair
  cases prec <;> rfl

theorem fmtRoundPads_eq_padsG (B : Nat) (m : Mode) (f : FmtSpec) (prec : Option Nat) (r : FRepr) :
    fmtRoundPads B m f prec r =
      padsG f (widthG (dispStr B m prec r).length (dispPair B m prec r).2 prec
        (if r.signif < 0 || f.plus then 1 else 0)) := by
  unfold fmtRoundPads padsG widthG dispStr dispPair
  cases prec <;> rfl

/-- **the width `fmt_round` computes is the length of what it prints** (sign + digits/point/zeros), as
    long as the exponent is not below `−precision` (true after the rounding step) and — without a
    precision — the digit string is not empty (true for every integer) -/
theorem widthG_eq_length (S : List Nat) (exp : Int) (prec : Option Nat) (hs : Nat)
    (h1 : ∀ p, prec = some p → -exp ≤ (p : Int)) (h2 : prec = none → 0 < S.length) :
    widthG S.length exp prec hs = (bodyG S exp prec).length + hs := by
  unfold widthG bodyG
  cases prec with
  | none =>
    have hL := h2 rfl
    clear h1 h2
    simp only [Option.getD_none, ne_eq, reduceCtorEq, not_false_eq_true, if_true]
    split_ifs <;>
      simp only [List.length_append, List.length_cons, List.length_nil, rep_single_length, List.length_drop,
        List.length_take, orZero_length] at * <;> omega
  | some p =>
    have hp := h1 p rfl
    clear h1 h2
    simp only [Option.getD_some, ne_eq, Option.some.injEq]
    split_ifs <;>
      simp only [List.length_append, List.length_cons, List.length_nil, rep_single_length, List.length_drop,
        List.length_take, orZero_length] at * <;> omega

theorem dispPair_exp_ge (B : Nat) (m : Mode) (prec : Option Nat) (r : FRepr) :
    ∀ p, prec = some p → -(dispPair B m prec r).2 ≤ (p : Int) := by
  intro p hp
  subst hp
  have : dispPair B m (some p) r = precPair B m p r := rfl
  rw [this, precPair_eq]
  split <;> simp only [] <;> omega

theorem dispStr_none_pos (B : Nat) (hB : 2 ≤ B) (m : Mode) (r : FRepr) : 0 < (dispStr B m none r).length := by
  have : dispStr B m none r = chars false (digits B r.signif.natAbs) := by
    unfold dispStr dispPair
    exact printSpecInt_drop B r.signif
  rw [this, chars_length]
  exact List.length_pos_iff.mpr (digits_ne_nil B _ hB)

theorem fSign_length (plus : Bool) (r : FRepr) :
    (fSign plus r).length = if r.signif < 0 || plus then 1 else 0 := by
  unfold fSign
  by_cases h : r.signif < 0
  · simp [h]
  · cases plus <;> simp [h]

/-- the padding amounts of `fmt_round` are those of a text of `|sign| + |core|` characters -/
theorem fmtRoundPads_natural (B : Nat) (hB : 2 ≤ B) (m : Mode) (f : FmtSpec) (prec : Option Nat) (r : FRepr) :
    fmtRoundPads B m f prec r = padsG f ((fSign f.plus r).length + (fmtRoundCore B m prec r).length) := by
  rw [fmtRoundPads_eq_padsG, fmtRoundCore_eq_bodyG, fSign_length,
    widthG_eq_length _ _ _ _ (dispPair_exp_ge B m prec r) (fun h => by subst h; exact dispStr_none_pos B hB m r),
    Nat.add_comm]

/-- the padding decision: the two amounts add up to the missing width; the zero flag puts everything
    on the left (after the sign); otherwise left / right (default) / centre (extra character on the right) -/
theorem padsG_spec (f : FmtSpec) (n w : Nat) (hw : f.width = some w) :
    (padsG f n).1 + (padsG f n).2 = w - n ∧
    (f.zero = true → (padsG f n).2 = 0) ∧
    (f.zero = false →
      (f.align = some .left → (padsG f n).1 = 0) ∧
      ((f.align = some .right ∨ f.align = none) → (padsG f n).2 = 0) ∧
      (f.align = some .center → (padsG f n).1 = (w - n) / 2)) := by
  unfold padsG
  obtain ⟨fill, align, plus, alt, zero, width⟩ := f
  simp only [] at hw ⊢
  subst hw
  by_cases hge : n ≥ w
  · have h0 : w - n = 0 := by omega
    simp [hge, h0]
  · rcases zero with _ | _ <;> rcases align with _ | (_ | _ | _) <;> simp [hge] <;> omega

/-- **the width is honoured exactly (`Display`)**: with a width `w` the text is
    `fill^a ++ sign ++ '0'^b ++ core ++ fill^c` with `a + b + c = w − (|sign| + |core|)` (truncated
    subtraction: nothing is added to a text that is already long enough, nothing is ever cut), so the
    text has exactly `max w (|sign| + |core|)` characters; the zero flag puts all of it after the sign;
    otherwise it goes to the right for `<`, to the left for `>` and by default, and is split with the
    extra character on the right for `^` -/
theorem fmtRound_width (B : Nat) (hB : 2 ≤ B) (m : Mode) (f : FmtSpec) (prec : Option Nat) (r : FRepr)
    (w : Nat) (hw : f.width = some w) :
    ∃ a b c : Nat,
      fmtRound B m f prec r =
        rep a f.fill ++ fSign f.plus r ++ rep b [48] ++ fmtRoundCore B m prec r ++ rep c f.fill ∧
      a + b + c = w - ((fSign f.plus r).length + (fmtRoundCore B m prec r).length) ∧
      (f.zero = true → a = 0 ∧ c = 0) ∧
      (f.zero = false → b = 0 ∧ (f.align = some .left → a = 0) ∧
        ((f.align = some .right ∨ f.align = none) → c = 0) ∧
        (f.align = some .center → a = (a + c) / 2 ∧ c = a + c - (a + c) / 2)) := by
  rw [fmtRound_eq_parts, fmtRoundPads_natural B hB]
  obtain ⟨hsum, hzero, halign⟩ :=
    padsG_spec f ((fSign f.plus r).length + (fmtRoundCore B m prec r).length) w hw
  generalize padsG f ((fSign f.plus r).length + (fmtRoundCore B m prec r).length) = pads at *
  cases hz : f.zero with
  | true =>
    have h2 := hzero hz
    refine ⟨0, pads.1, 0, ?_, by omega, fun _ => ⟨rfl, rfl⟩, fun h => Bool.noConfusion h⟩
    rw [h2]; simp [rep_zero]
  | false =>
    obtain ⟨hl, hr, hc⟩ := halign hz
    refine ⟨pads.1, 0, pads.2, ?_, by omega, fun h => Bool.noConfusion h, fun _ => ⟨rfl, hl, hr, fun h => ?_⟩⟩
    · simp [rep_zero]
    · have := hc h
      constructor <;> omega

-- ---------------------------------------------------------------- scientific formats

/-- the (significand, exponent) pair `fmt_round_scientific` prints: rounded to `p + 1` significant
    digits (`4p + 4` bits for the hexadecimal form), a carry into a new digit dropped again -/
def sciPair (B : Nat) (m : Mode) (prec : Option Nat) (useHex : Bool) (r : FRepr) : Int × Int :=
  match prec with
  | some p0 =>
    let p : Int := if useHex then (p0 : Int) * 4 + 4 else (p0 : Int) + 1
    let diff : Int := p - (digitsI B r.signif : Int)
    if diff < 0 then
      let shift := (-diff).toNat
      let hl := splitDigits B r.signif shift
      let adj := roundFract B m coarseNone hl.1 hl.2 shift
      let s := hl.1 + rInt adj
      let e := r.exp - diff
      if (digitsI B s : Int) > p then (Int.tdiv s B, e + 1) else (s, e)
    else (r.signif, r.exp)
  | none => (r.signif, r.exp)

/-- `signif_str` of `fmt_round_scientific` -/
def sciStr (B : Nat) (m : Mode) (prec : Option Nat) (upper useHex : Bool) (r : FRepr) : List Nat :=
  if r.signif < 0 then (printSpecInt (if useHex then 16 else B) upper (sciPair B m prec useHex r).1).drop 1
  else printSpecInt (if useHex then 16 else B) upper (sciPair B m prec useHex r).1

/-- `exp_adjust`: the exponent shown, the radix point standing after the first digit -/
def sciExp (B : Nat) (m : Mode) (prec : Option Nat) (upper useHex : Bool) (r : FRepr) : Int :=
  if useHex then (sciPair B m prec useHex r).2 + (((sciStr B m prec upper useHex r).length : Int) - 1) * 4
  else (sciPair B m prec useHex r).2 + ((sciStr B m prec upper useHex r).length : Int) - 1

/-- first digit, point, digits, zeros, marker, exponent as `fmt_round_scientific` writes them -/
def sciBodyG (S expStr : List Nat) (p marker : Nat) : List Nat :=
  S.take 1 ++ (if S.drop 1 ≠ [] then [46] ++ S.drop 1 else []) ++
    (if p > 0 then (if S.drop 1 = [] then [46] else []) ++ rep (p - (S.drop 1).length) [48] else []) ++
    [marker] ++ expStr

/-- the `width` `fmt_round_scientific` computes -/
def sciWidthG (L E p hasSign : Nat) (useHex : Bool) : Nat :=
  let hasPoint := if L > 1 ∨ p > 0 then 1 else 0
  let trailingZeros := if p > L - 1 then p - (L - 1) else 0
  L + E + 1 + hasSign + hasPoint + (if useHex then 2 else 0) + trailingZeros

theorem fmtSciCore_eq_bodyG (B : Nat) (m : Mode) (prec : Option Nat) (upper useHex : Bool) (marker : Nat) (r : FRepr) :
    fmtSciCore B m prec upper useHex marker r =
      sciBodyG (sciStr B m prec upper useHex r) (printSpecInt 10 false (sciExp B m prec upper useHex r))
        (prec.getD 0) marker := by
  unfold fmtSciCore sciBodyG sciStr sciExp sciPair
  cases prec <;> rfl

theorem fmtSciPads_eq_padsG (B : Nat) (m : Mode) (f : FmtSpec) (prec : Option Nat) (upper useHex : Bool) (r : FRepr) :
    fmtSciPads B m f prec upper useHex r =
      padsG { f with zero := false }
        (sciWidthG (sciStr B m prec upper useHex r).length
          (printSpecInt 10 false (sciExp B m prec upper useHex r)).length (prec.getD 0)
          (if r.signif < 0 || f.plus then 1 else 0) useHex) := by
  unfold fmtSciPads padsG sciWidthG sciStr sciExp sciPair
  cases prec <;> rfl

/-- **the width `fmt_round_scientific` computes is the length of what it prints** -/
theorem sciWidthG_eq_length (S expStr : List Nat) (p marker hs : Nat) (useHex : Bool) :
    sciWidthG S.length expStr.length p hs useHex =
      hs + (if useHex then 2 else 0) + (sciBodyG S expStr p marker).length := by
  unfold sciWidthG sciBodyG
  simp only [ne_eq, List.drop_eq_nil_iff, not_le]
  split_ifs <;>
    simp only [List.length_append, List.length_cons, List.length_nil, rep_single_length, List.length_drop,
      List.length_take] at * <;> omega

/-- the padding amounts of `fmt_round_scientific` are those of a text of `|sign| + |0x| + |core|` characters
    (alignment decides also under the zero flag) -/
theorem fmtSciPads_natural (B : Nat) (m : Mode) (f : FmtSpec) (prec : Option Nat) (upper useHex : Bool)
    (marker : Nat) (r : FRepr) :
    fmtSciPads B m f prec upper useHex r =
      padsG { f with zero := false } ((fSign f.plus r).length + (if useHex then 2 else 0) +
        (fmtSciCore B m prec upper useHex marker r).length) := by
  rw [fmtSciPads_eq_padsG, fmtSciCore_eq_bodyG, fSign_length, sciWidthG_eq_length _ _ _ marker]

/-- **the width is honoured exactly (scientific formats)**: with a width `w` the text is
    `fill^a ++ sign ++ [0x] ++ '0'^b ++ core ++ fill^c` with
    `a + b + c = w − (|sign| + |0x| + |core|)`; the left share goes in as zeros after sign and prefix
    under the zero flag and as fill characters before the sign otherwise; left / right (default) /
    centre as the alignment says -/
theorem fmtSciG_width (B : Nat) (m : Mode) (f : FmtSpec) (prec : Option Nat) (upper useHex : Bool)
    (marker : Nat) (r : FRepr) (w : Nat) (hw : f.width = some w) :
    ∃ a b c : Nat,
      fmtSciG B m f prec upper useHex marker r =
        rep a f.fill ++ fSign f.plus r ++ (if useHex then [48, 120] else []) ++ rep b [48] ++
          fmtSciCore B m prec upper useHex marker r ++ rep c f.fill ∧
      a + b + c = w - ((fSign f.plus r).length + (if useHex then 2 else 0) +
        (fmtSciCore B m prec upper useHex marker r).length) ∧
      (f.zero = true → a = 0) ∧ (f.zero = false → b = 0) ∧
      (f.align = some .left → a + b = 0) ∧
      ((f.align = some .right ∨ f.align = none) → c = 0) ∧
      (f.align = some .center → a + b = (a + b + c) / 2) := by
  rw [fmtSciG_eq_parts, fmtSciPads_natural B m f prec upper useHex marker r]
  obtain ⟨hsum, _, halign⟩ :=
    padsG_spec { f with zero := false } ((fSign f.plus r).length + (if useHex then 2 else 0) +
      (fmtSciCore B m prec upper useHex marker r).length) w hw
  obtain ⟨hl, hr, hc⟩ := halign rfl
  generalize padsG { f with zero := false } ((fSign f.plus r).length + (if useHex then 2 else 0) +
      (fmtSciCore B m prec upper useHex marker r).length) = pads at *
  simp only [] at hl hr hc
  cases hz : f.zero with
  | true =>
    refine ⟨0, pads.1, pads.2, ?_, by omega, fun _ => rfl, fun h => Bool.noConfusion h, fun h => ?_, hr, fun h => ?_⟩
    · simp [rep_zero]
    · have := hl h; omega
    · have := hc h; omega
  | false =>
    refine ⟨pads.1, 0, pads.2, ?_, by omega, fun h => Bool.noConfusion h, fun _ => rfl, fun h => ?_, hr, fun h => ?_⟩
    · simp [rep_zero]
    · have := hl h; omega
    · have := hc h; omega

end Dashu.Model.Text
