import Dashu.Proofs.Text.Parse
/-
  Power-of-two radices: the printer (`fmt/power_two.rs`, bit slicing across word boundaries on the
  word list) prints `digits (2^log) n`.
-/
namespace Dashu.Model.Text

theorem two_pow_mul (log k : Nat) : (2 ^ log) ^ k = 2 ^ (log * k) := (pow_mul 2 log k).symm

/-- `(x·2^e + B) mod 2^(b+e)` for `B < 2^e` -/
theorem mod_split (x e b B : Nat) (hB : B < 2 ^ e) :
    (x * 2 ^ e + B) % 2 ^ (b + e) = (x % 2 ^ b) * 2 ^ e + B := by
  have hp : 0 < 2 ^ e := Nat.pow_pos (by omega)
  rw [Nat.add_comm b e, pow_add, Nat.mod_mul, Nat.mul_comm x, Nat.mul_add_mod, Nat.mod_eq_of_lt hB,
    Nat.mul_add_div hp, Nat.div_eq_of_lt hB]
  ring_nf

theorem div_split (x e b B : Nat) (hB : B < 2 ^ e) : (x * 2 ^ e + B) / 2 ^ (b + e) = x / 2 ^ b := by
  have hp : 0 < 2 ^ e := Nat.pow_pos (by omega)
  rw [Nat.add_comm b e, pow_add, ← Nat.div_div_eq_div_mul, Nat.mul_comm x, Nat.mul_add_div hp,
    Nat.div_eq_of_lt hB, Nat.add_zero]

/-- number of digits from the bit length -/
theorem width_bounds (log b : Nat) (hlog : 1 ≤ log) (hb : 1 ≤ b) :
    log * ((b - 1) / log) ≤ b - 1 ∧ b ≤ log * ((b - 1) / log + 1) := by
  have h1 := Nat.div_add_mod (b - 1) log
  have h2 := Nat.mod_lt (b - 1) (by omega : 0 < log)
  rw [Nat.mul_add, Nat.mul_one]
  generalize log * ((b - 1) / log) = t at *
  omega

theorem bitLen_pos {n : Nat} (hn : n ≠ 0) : 1 ≤ bitLen n := by simp [bitLen, hn]

/-- a number of `b` bits has `max(1, ceil(b/log))` digits in radix `2^log` -/
theorem digits_pow2_width (log n b : Nat) (hlog : 1 ≤ log) (hb : n = 0 ∧ b = 0 ∨ (2 ^ (b - 1) ≤ n ∧ 1 ≤ b))
    (hlt : n < 2 ^ b) :
    digits (2 ^ log) n = digitsPad (2 ^ log) (max (ceilDiv b log) 1) n := by
  have hr : 2 ≤ 2 ^ log := by
    calc 2 = 2 ^ 1 := rfl
      _ ≤ 2 ^ log := Nat.pow_le_pow_right (by omega) hlog
  rcases hb with ⟨h0, hb0⟩ | ⟨hlo, hb1⟩
  · subst h0; subst hb0
    simp [ceilDiv, digits, digitsPad, digitsPadLE]
  · have hw := width_bounds log b hlog hb1
    have hcd : ceilDiv b log = (b - 1) / log + 1 := by
      have hb0 : b ≠ 0 := by omega
      simp [ceilDiv, hb0]
    have hmax : max (ceilDiv b log) 1 = (b - 1) / log + 1 := by
      rw [hcd]; exact Nat.max_eq_left (Nat.le_add_left 1 _)
    rw [hmax]
    apply digits_eq_digitsPad hr ((b - 1) / log + 1) n (Nat.le_add_left 1 _)
    · right
      simp only [Nat.add_sub_cancel, two_pow_mul]
      calc 2 ^ (log * ((b - 1) / log)) ≤ 2 ^ (b - 1) := Nat.pow_le_pow_right (by omega) hw.1
        _ ≤ n := hlo
    · rw [two_pow_mul]
      calc n < 2 ^ b := hlt
        _ ≤ 2 ^ (log * ((b - 1) / log + 1)) := Nat.pow_le_pow_right (by omega) hw.2

theorem bitLen_bounds (n : Nat) : (n = 0 ∧ bitLen n = 0 ∨ (2 ^ (bitLen n - 1) ≤ n ∧ 1 ≤ bitLen n)) ∧ n < 2 ^ bitLen n := by
  by_cases hn : n = 0
  · subst hn; simp [bitLen]
  · have := bitLen_spec hn
    exact ⟨Or.inr ⟨this.1, bitLen_pos hn⟩, this.2⟩

/-- `PreparedWord` / `PreparedDword` of power_two.rs print the reference digits -/
theorem pow2Small_eq (log n : Nat) (hlog : 1 ≤ log) : pow2Small log n = digits (2 ^ log) n := by
  have hb := bitLen_bounds n
  rw [digits_pow2_width log n (bitLen n) hlog hb.1 hb.2]
  unfold pow2Small digitsPad
  simp only []
  rw [digitsPadLE_eq_range, ← List.map_reverse]
  apply List.map_congr_left
  intro i _
  rw [Nat.shiftRight_eq_div_pow, two_pow_mul, Nat.mul_comm]

-- ---------------------------------------------------------------- large: the word stream

theorem emitBits_spec (log word : Nat) (hlog : 1 ≤ log) (bits : Nat) :
    emitBits log word bits = (digitsPad (2 ^ log) (bits / log) (word / 2 ^ (bits % log)), bits % log) := by
  induction bits using Nat.strong_induction_on with
  | _ bits ih =>
    by_cases h : log = 0 ∨ bits < log
    · have hlt : bits < log := by omega
      rw [emitBits, dif_pos h, Nat.div_eq_of_lt hlt, Nat.mod_eq_of_lt hlt]; rfl
    · rw [emitBits, dif_neg h]
      have hge : log ≤ bits := by omega
      rw [ih (bits - log) (by omega)]
      have hmod : (bits - log) % log = bits % log := by
        conv => rhs; rw [← Nat.sub_add_cancel hge, Nat.add_mod_right]
      have hdiv : bits / log = (bits - log) / log + 1 := by
        conv => lhs; rw [← Nat.sub_add_cancel hge]
        rw [Nat.add_div_right _ (by omega : 0 < log)]
      simp only [hmod, hdiv]
      rw [Nat.add_comm ((bits - log) / log) 1, digitsPad_add (2 ^ log) 1 ((bits - log) / log)]
      rw [digitsPad_succ, digitsPad_zero, List.nil_append, List.singleton_append]
      congr 2
      rw [Nat.shiftRight_eq_div_pow, two_pow_mul, Nat.div_div_eq_div_mul, ← pow_add]
      congr 3
      have := Nat.div_add_mod (bits - log) log
      omega

/-- value of a most-significant-first word list -/
abbrev valBE (W : Nat) (ws : List Nat) : Nat := ofDigits (2 ^ W) ws

theorem valBE_lt (W : Nat) (ws : List Nat) (h : ∀ w ∈ ws, w < 2 ^ W) : valBE W ws < 2 ^ (W * ws.length) := by
  induction ws with
  | nil => simp [valBE, ofDigits]
  | cons w ws ih =>
    have hw := h w (by simp)
    have := ih (fun x hx => h x (by simp [hx]))
    rw [valBE, ofDigits_cons, List.length_cons, Nat.mul_add, Nat.mul_one, pow_add, two_pow_mul]
    have hp : 0 < 2 ^ (W * ws.length) := Nat.pow_pos (by omega)
    unfold valBE at this
    calc w * 2 ^ (W * ws.length) + ofDigits (2 ^ W) ws < w * 2 ^ (W * ws.length) + 2 ^ (W * ws.length) := by omega
      _ = (w + 1) * 2 ^ (W * ws.length) := by ring
      _ ≤ 2 ^ W * 2 ^ (W * ws.length) := Nat.mul_le_mul_right _ (by omega)
      _ = 2 ^ (W * ws.length) * 2 ^ W := Nat.mul_comm _ _

/-- the loop of `PreparedLarge::write` prints the low `bits + W·|rest|` bits of
    `word·2^(W·|rest|) + rest` as fixed-width digits -/
theorem pow2Stream_spec (W log : Nat) (hlog : 1 ≤ log) (hlW : log ≤ W) (rest : List Nat)
    (hrest : ∀ w ∈ rest, w < 2 ^ W) (word bits m : Nat) (hm : bits + W * rest.length = log * m) :
    pow2Stream W log word bits rest =
      digitsPad (2 ^ log) m (word * 2 ^ (W * rest.length) + valBE W rest) := by
  induction rest generalizing word bits m with
  | nil =>
    simp only [pow2Stream, List.length_nil, Nat.mul_zero, Nat.add_zero, pow_zero, Nat.mul_one] at *
    rw [emitBits_spec log word hlog, hm, Nat.mul_mod_right, Nat.mul_div_cancel_left _ (by omega : 0 < log)]
    simp [valBE, ofDigits]
  | cons w rest ih =>
    have hw : w < 2 ^ W := hrest w (by simp)
    have hrest' : ∀ x ∈ rest, x < 2 ^ W := fun x hx => hrest x (by simp [hx])
    simp only [pow2Stream, emitBits_spec log word hlog]
    -- abbreviations
    have hb : bits % log < log := Nat.mod_lt _ (by omega)
    have hdm := Nat.div_add_mod bits log
    generalize hbdef : bits % log = b at *
    generalize hk1 : bits / log = k1 at *
    -- remaining digit count; `e` = extra bits taken from the next word
    obtain ⟨e, he⟩ : ∃ e, log = b + e := ⟨log - b, by omega⟩
    have hbe : log - b = e := by omega
    have he1 : 1 ≤ e := by omega
    have heW : e ≤ W := by omega
    simp only [hbe, List.length_cons]
    simp only [List.length_cons] at hm
    rw [Nat.mul_add, Nat.mul_one] at hm
    have hm' : (W - e) + W * rest.length = log * (m - k1 - 1) := by
      have h1 : log * (m - k1 - 1) = log * m - log * k1 - log := by
        rw [Nat.mul_sub, Nat.mul_sub, Nat.mul_one]
      rw [h1]; omega
    have hmk : m = k1 + 1 + (m - k1 - 1) := by
      have : log * (k1 + 1) ≤ log * m := by rw [Nat.mul_add, Nat.mul_one]; omega
      have := Nat.le_of_mul_le_mul_left this (by omega : 0 < log)
      omega
    rw [ih hrest' w (W - e) (m - k1 - 1) hm']
    have hshape : ∀ (a c : List Nat) (d : Nat), a ++ d :: c = (a ++ [d]) ++ c := by intro a c d; simp
    rw [hshape]
    conv => rhs; rw [hmk, digitsPad_add (2 ^ log) (k1 + 1) (m - k1 - 1)]
    have hWe : 2 ^ W = 2 ^ (W - e) * 2 ^ e := by rw [← pow_add]; congr 1; omega
    -- low parts agree modulo 2^(bits' + W·|rest|)
    have hlow : digitsPad (2 ^ log) (m - k1 - 1) (word * 2 ^ (W * (rest.length + 1)) + valBE W (w :: rest)) =
        digitsPad (2 ^ log) (m - k1 - 1) (w * 2 ^ (W * rest.length) + valBE W rest) := by
      rw [← digitsPad_mod, ← digitsPad_mod (2 ^ log) _ (w * 2 ^ (W * rest.length) + valBE W rest)]
      congr 1
      rw [two_pow_mul, ← hm']
      have e0 : word * 2 ^ (W * (rest.length + 1)) + valBE W (w :: rest) =
          (w * 2 ^ (W * rest.length) + valBE W rest) +
            (word * 2 ^ e) * 2 ^ ((W - e) + W * rest.length) := by
        rw [valBE, ofDigits_cons, two_pow_mul]
        have : 2 ^ (W * (rest.length + 1)) = 2 ^ e * 2 ^ ((W - e) + W * rest.length) := by
          rw [← pow_add]; congr 1; rw [Nat.mul_add, Nat.mul_one]; omega
        rw [this]; ring
      rw [e0, Nat.add_mul_mod_self_right]
    rw [hlow]
    congr 1
    -- the high part: Q = word·2^e + w / 2^bits'
    have hv := valBE_lt W rest hrest'
    have hQ : (word * 2 ^ (W * (rest.length + 1)) + valBE W (w :: rest)) / (2 ^ log) ^ (m - k1 - 1) =
        word * 2 ^ e + w / 2 ^ (W - e) := by
      rw [two_pow_mul, ← hm', valBE, ofDigits_cons, two_pow_mul]
      have hp1 : 0 < 2 ^ (W * rest.length) := Nat.pow_pos (by omega)
      have hp2 : 0 < 2 ^ (W - e) := Nat.pow_pos (by omega)
      rw [Nat.add_comm (W - e) (W * rest.length), pow_add, ← Nat.div_div_eq_div_mul]
      have e1 : word * 2 ^ (W * (rest.length + 1)) + (w * 2 ^ (W * rest.length) + ofDigits (2 ^ W) rest) =
          2 ^ (W * rest.length) * (word * 2 ^ W + w) + ofDigits (2 ^ W) rest := by
        rw [Nat.mul_add W, Nat.mul_one, pow_add]; ring
      rw [e1, Nat.mul_add_div hp1, Nat.div_eq_of_lt hv, Nat.add_zero]
      have e2 : word * 2 ^ W + w = 2 ^ (W - e) * (word * 2 ^ e) + w := by rw [hWe]; ring
      rw [e2, Nat.mul_add_div hp2]
    rw [hQ, digitsPad_succ]
    have hB : w / 2 ^ (W - e) < 2 ^ e := by
      rw [Nat.div_lt_iff_lt_mul (Nat.pow_pos (by omega)), Nat.mul_comm, ← hWe]; exact hw
    subst he
    congr 1
    · -- digits above the straddling one
      congr 1
      rw [div_split _ _ _ _ hB]
    · -- the straddling digit
      congr 1
      have hsh : (word <<< e) % 2 ^ W = (word % 2 ^ (W - e)) <<< e := by
        rw [Nat.shiftLeft_eq, Nat.shiftLeft_eq, hWe, Nat.mul_mod_mul_right]
      rw [hsh, Nat.shiftRight_eq_div_pow, ← Nat.shiftLeft_add_eq_or_of_lt hB, Nat.shiftLeft_eq]
      rw [mod_split _ _ _ _ hB, mod_split _ _ _ _ hB]
      congr 2
      apply Nat.mod_mod_of_dvd
      exact Nat.pow_dvd_pow 2 (by omega)

theorem wordsOf_reverse (W n : Nat) : (wordsOf W n).reverse = digitsAux (2 ^ W) n [] := by
  simp [wordsOf]

theorem two_le_two_pow {W : Nat} (hW : 1 ≤ W) : 2 ≤ 2 ^ W := by
  calc 2 = 2 ^ 1 := rfl
    _ ≤ 2 ^ W := Nat.pow_le_pow_right (by omega) hW

/-- `PreparedLarge` of power_two.rs on the words of `n` prints the reference digits -/
theorem pow2Large_eq (W log n : Nat) (hlog : 1 ≤ log) (hlW : log ≤ W) (hn : n ≠ 0) :
    pow2Large W log (wordsOf W n) = digits (2 ^ log) n := by
  have hW : 1 ≤ W := by omega
  have h2 := two_le_two_pow hW
  unfold pow2Large
  rw [wordsOf_reverse]
  have hlen : (wordsOf W n).length = (digitsAux (2 ^ W) n []).length := by
    rw [← wordsOf_reverse, List.length_reverse]
  rw [hlen]
  have hne := digitsAux_ne_nil h2 hn
  have hlt := digitsAux_lt h2 n
  have hhd := digitsAux_head_ne_zero h2 n
  have hval := ofDigits_digitsAux h2 n
  cases hds : digitsAux (2 ^ W) n [] with
  | nil => exact absurd hds hne
  | cons top rest =>
    rw [hds] at hlt hhd hval
    simp only [List.length_cons, Nat.add_sub_cancel]
    have htop0 : top ≠ 0 := by simpa using hhd
    have htop : top < 2 ^ W := hlt top (by simp)
    have hrest : ∀ w ∈ rest, w < 2 ^ W := fun w hw => hlt w (by simp [hw])
    have hbt := bitLen_spec htop0
    have hbtW : bitLen top ≤ W := bitLen_le_iff.mpr htop
    have hbt1 := bitLen_pos htop0
    have hT : (rest.length + 1) * W - (W - bitLen top) = W * rest.length + bitLen top := by
      rw [Nat.add_mul, Nat.one_mul, Nat.mul_comm]; omega
    rw [hT]
    have hv := valBE_lt W rest hrest
    have hn' : n = top * 2 ^ (W * rest.length) + valBE W rest := by
      rw [← hval, ofDigits_cons, two_pow_mul]
    have hp : 0 < 2 ^ (W * rest.length) := Nat.pow_pos (by omega)
    have hlo : 2 ^ (W * rest.length + bitLen top - 1) ≤ n := by
      have : W * rest.length + bitLen top - 1 = (bitLen top - 1) + W * rest.length := by omega
      rw [this, pow_add, hn']
      calc 2 ^ (bitLen top - 1) * 2 ^ (W * rest.length) ≤ top * 2 ^ (W * rest.length) :=
            Nat.mul_le_mul_right _ hbt.1
        _ ≤ top * 2 ^ (W * rest.length) + valBE W rest := Nat.le_add_right _ _
    have hhi : n < 2 ^ (W * rest.length + bitLen top) := by
      rw [Nat.add_comm, pow_add, hn']
      calc top * 2 ^ (W * rest.length) + valBE W rest < top * 2 ^ (W * rest.length) + 2 ^ (W * rest.length) := by omega
        _ = (top + 1) * 2 ^ (W * rest.length) := by ring
        _ ≤ 2 ^ bitLen top * 2 ^ (W * rest.length) := Nat.mul_le_mul_right _ (by omega)
    rw [digits_pow2_width log n (W * rest.length + bitLen top) hlog (Or.inr ⟨hlo, by omega⟩) hhi]
    have hT1 : 1 ≤ W * rest.length + bitLen top := by omega
    have hw := width_bounds log (W * rest.length + bitLen top) hlog hT1
    have hcd : ceilDiv (W * rest.length + bitLen top) log = (W * rest.length + bitLen top - 1) / log + 1 := by
      have hb0 : W * rest.length + bitLen top ≠ 0 := by omega
      unfold ceilDiv; rw [if_neg hb0]
    have hmax : max (ceilDiv (W * rest.length + bitLen top) log) 1 =
        (W * rest.length + bitLen top - 1) / log + 1 := by
      rw [hcd]; exact Nat.max_eq_left (Nat.le_add_left 1 _)
    rw [hmax]
    generalize hwd : (W * rest.length + bitLen top - 1) / log + 1 = width at *
    rw [hn']
    apply pow2Stream_spec W log hlog hlW rest hrest
    rw [Nat.mul_comm width log, Nat.mul_comm rest.length W]
    omega

theorem isPow2_spec {r : Nat} (h : isPow2 r = true) (hr : 2 ≤ r) :
    r = 2 ^ Nat.log2 r ∧ 1 ≤ Nat.log2 r := by
  simp only [isPow2, Bool.and_eq_true, bne_iff_ne, beq_iff_eq] at h
  refine ⟨h.2.symm, ?_⟩
  rcases Nat.eq_zero_or_pos (Nat.log2 r) with h0 | h0
  · rw [h0] at h; omega
  · exact h0

/-- **the power-of-two printer prints the positional representation** -/
theorem fmtPow2_eq (W r n : Nat) (hp : isPow2 r = true) (hr : 2 ≤ r) (hrW : r < 2 ^ W) :
    fmtPow2 W r n = digits r n := by
  obtain ⟨hr2, hlog⟩ := isPow2_spec hp hr
  have hlW : Nat.log2 r ≤ W := by
    have : Nat.log2 r < W := (Nat.log2_lt (by omega)).mpr hrW
    omega
  unfold fmtPow2
  simp only []
  conv => rhs; rw [hr2]
  split
  · exact pow2Small_eq _ n hlog
  · rename_i hn
    have hn0 : n ≠ 0 := by have := Nat.pow_pos (n := 2 * W) (by omega : 0 < 2); omega
    exact pow2Large_eq W _ n hlog hlW hn0

/-- every radix: `InRadixWriter::fmt` produces the reference digits -/
theorem rawDigits_eq (W r n : Nat) (hr : 2 ≤ r) (hrW : r < 2 ^ W) : rawDigits W r n = digits r n := by
  unfold rawDigits
  split
  · rename_i h; exact fmtPow2_eq W r n h hr hrW
  · exact fmtNonPow2_eq W r n hr hrW

end Dashu.Model.Text
