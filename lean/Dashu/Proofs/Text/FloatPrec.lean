import Dashu.Proofs.Text.FloatParse
import Dashu.Proofs.Float.RoundOps
/-
  C08 — printing with a precision option (`{:.N}`): the printed text is a literal with exactly `N`
  fractional digits whose value is the exact value rounded to `N` fractional digits under the mode;
  and the `with_precision` contract.
-/
namespace Dashu.Model.Text
open Dashu.Model.Float Dashu.Props.GenRound

-- ---------------------------------------------------------------- with_precision

/-- a value returned unchanged with flag `Exact` meets the contract -/
theorem contract_refl (B : Nat) (m : Mode) (p : Nat) (x : ℚ) : Contract B m p x x none where
  exact_iff := ⟨fun _ => rfl, fun _ => rfl⟩
  err := fun h => absurd rfl h
  side := by unfold sideOk; cases m <;> simp
  addOne := fun h => by cases h
  subOne := fun h => by cases h

/-- `FBig::with_precision(p)`: the new precision is `p`; the value is `repr_round` of the old one when
    the precision shrinks (contract of C03: exact iff representable in `p` digits, otherwise less than
    one ulp — half an ulp for the nearest modes — on the mode's side, truthful flag) and unchanged
    with flag `Exact` when it does not -/
theorem fWithPrecision_contract (B : Nat) (hB : 2 ≤ B) (m : Mode) (p : Nat) (hp : 1 ≤ p) (x : FBigM)
    (hn : Normalized B x.repr) :
    (fWithPrecision B m coarseNone x p).1.prec = p ∧
    Contract B m p (x.repr.toRat B) ((fWithPrecision B m coarseNone x p).1.repr.toRat B)
      (fWithPrecision B m coarseNone x p).2 := by
  unfold fWithPrecision
  by_cases h : x.prec > p ∨ (x.prec = 0 ∧ p > 0)
  · simp only [h, if_true]
    exact ⟨trivial, reprRound_contract B hB m coarseNone coarseNone_sound p hp x.repr hn⟩
  · simp only [h, if_false]
    exact ⟨trivial, contract_refl B m p _⟩

/-- precision `0` (unlimited) never changes the value -/
theorem fWithPrecision_zero (B : Nat) (m : Mode) (x : FBigM) :
    (fWithPrecision B m coarseNone x 0).1.repr = x.repr ∧ (fWithPrecision B m coarseNone x 0).2 = none := by
  unfold fWithPrecision
  by_cases h : x.prec > 0 ∨ (x.prec = 0 ∧ 0 > 0)
  · simp only [h, if_true]
    have : reprRound B m coarseNone 0 x.repr = (x.repr, none) := by unfold reprRound; simp
    rw [this]; exact ⟨by simp, by simp⟩
  · simp only [h, if_false]; exact ⟨by simp, by simp⟩

-- ---------------------------------------------------------------- the rounding step of `fmt_round`

/-- the integer `fmt_round` prints for precision `p`: the significand of `x · B^p` rounded to an
    integer (`split_digits` + `round_fract` when digits are dropped, exact otherwise) -/
def precRounded (B : Nat) (m : Mode) (p : Nat) (r : FRepr) : Int :=
  let diff : Int := (p : Int) + r.exp
  if diff < 0 then
    let hl := splitDigits B r.signif (-diff).toNat
    hl.1 + rInt (roundFract B m coarseNone hl.1 hl.2 (-diff).toNat)
  else r.signif * ((B ^ diff.toNat : Nat) : Int)

/-- `x · B^p = N / D` with `N = signif · B^max(p+exp, 0)`, `D = B^max(−(p+exp), 0)` -/
theorem prec_scaled_value (B : Nat) (hB : 2 ≤ B) (p : Nat) (r : FRepr) :
    ((r.signif * ((B ^ ((p : Int) + r.exp).toNat : Nat) : Int) : Int) : ℚ) /
        (((B ^ (-((p : Int) + r.exp)).toNat : Nat) : Int) : ℚ) = r.toRat B * ((B ^ p : Nat) : ℚ) := by
  have hB0 : 0 < B := by omega
  unfold FRepr.toRat
  rw [← bpowQ_nat B p, mul_assoc, ← bpowQ_add B hB0]
  have hBq : (B : ℚ) ≠ 0 := by exact_mod_cast (by omega : B ≠ 0)
  by_cases hd : (p : Int) + r.exp < 0
  · have h1 : ((p : Int) + r.exp).toNat = 0 := by omega
    rw [h1, pow_zero]
    have h2 : r.exp + (p : Int) = -(((-((p : Int) + r.exp)).toNat : Nat) : Int) := by omega
    rw [h2]
    generalize (-((p : Int) + r.exp)).toNat = k
    rw [bpowQ_eq_zpow, zpow_neg, zpow_natCast]
    push_cast
    field_simp
  · have h1 : (-((p : Int) + r.exp)).toNat = 0 := by omega
    rw [h1, pow_zero]
    have h2 : r.exp + (p : Int) = ((((p : Int) + r.exp).toNat : Nat) : Int) := by omega
    rw [h2]
    generalize ((p : Int) + r.exp).toNat = k
    rw [bpowQ_nat]
    push_cast
    simp

/-- **the printed integer is the mode's rounding of `x · B^p`** -/
theorem precRounded_spec (B : Nat) (hB : 2 ≤ B) (m : Mode) (p : Nat) (r : FRepr) :
    ModeSpec m (r.signif * ((B ^ ((p : Int) + r.exp).toNat : Nat) : Int))
      ((B ^ (-((p : Int) + r.exp)).toNat : Nat) : Int) (precRounded B m p r) := by
  unfold precRounded
  by_cases hd : (p : Int) + r.exp < 0
  · simp only [hd, if_true]
    have h1 : ((p : Int) + r.exp).toNat = 0 := by omega
    rw [h1, pow_zero, Nat.cast_one, mul_one]
    obtain ⟨hsplit, hlt, _, _⟩ := splitDigits_spec B hB r.signif (-((p : Int) + r.exp)).toNat
    have h := roundFract_spec' B hB m coarseNone coarseNone_sound
      (splitDigits B r.signif (-((p : Int) + r.exp)).toNat).1
      (splitDigits B r.signif (-((p : Int) + r.exp)).toNat).2 (-((p : Int) + r.exp)).toNat hlt
    rw [← hsplit] at h
    exact h
  · simp only [hd, if_false]
    have h1 : (-((p : Int) + r.exp)).toNat = 0 := by omega
    rw [h1, pow_zero, Nat.cast_one]
    have := modeSpec_exact m (r.signif * ((B ^ ((p : Int) + r.exp).toNat : Nat) : Int)) 1 (by omega)
    rwa [mul_one] at this

/-- the mode's rounding never crosses zero -/
theorem modeSpec_sign (m : Mode) (N D R : Int) (hD : 0 < D) (h : ModeSpec m N D R) :
    (N ≤ 0 → R ≤ 0) ∧ (0 ≤ N → 0 ≤ R) := by
  have hfl : IsFloor N D R → (N ≤ 0 → R ≤ 0) ∧ (0 ≤ N → 0 ≤ R) := by
    rintro ⟨h1, h2⟩
    constructor
    · intro hN; by_contra hc; rw [not_le] at hc
      have : D ≤ R * D := by nlinarith
      omega
    · intro hN; by_contra hc; rw [not_le] at hc
      have : (R + 1) * D ≤ 0 := by nlinarith
      omega
  have hce : IsCeil N D R → (N ≤ 0 → R ≤ 0) ∧ (0 ≤ N → 0 ≤ R) := by
    rintro ⟨h1, h2⟩
    constructor
    · intro hN; by_contra hc; rw [not_le] at hc
      have : 0 ≤ (R - 1) * D := by nlinarith
      omega
    · intro hN; by_contra hc; rw [not_le] at hc
      have : R * D ≤ -D := by nlinarith
      omega
  have hne : |2 * N - 2 * (R * D)| ≤ D → (N ≤ 0 → R ≤ 0) ∧ (0 ≤ N → 0 ≤ R) := by
    intro h1
    obtain ⟨h2, h3⟩ := abs_le.mp h1
    constructor
    · intro hN; by_contra hc; rw [not_le] at hc
      have : D ≤ R * D := by nlinarith
      omega
    · intro hN; by_contra hc; rw [not_le] at hc
      have : R * D ≤ -D := by nlinarith
      omega
  cases m <;> simp only [ModeSpec, IsTowardZero, IsAwayFromZero, IsNearestEven, IsNearestAway] at h
  · split at h
    · exact hfl h
    · exact hce h
  · split at h
    · exact hce h
    · exact hfl h
  · exact hce h
  · exact hfl h
  · exact hne h.1
  · exact hne h.1

theorem precRounded_sign (B : Nat) (hB : 2 ≤ B) (m : Mode) (p : Nat) (r : FRepr) :
    (r.signif < 0 → precRounded B m p r ≤ 0) ∧ (0 ≤ r.signif → 0 ≤ precRounded B m p r) := by
  have hD : (0 : Int) < ((B ^ (-((p : Int) + r.exp)).toNat : Nat) : Int) := by
    have : 0 < B ^ (-((p : Int) + r.exp)).toNat := Nat.pow_pos (by omega)
    exact_mod_cast this
  have hP : (0 : Int) < ((B ^ ((p : Int) + r.exp).toNat : Nat) : Int) := by
    have : 0 < B ^ ((p : Int) + r.exp).toNat := Nat.pow_pos (by omega)
    exact_mod_cast this
  obtain ⟨h1, h2⟩ := modeSpec_sign m _ _ _ hD (precRounded_spec B hB m p r)
  constructor
  · intro h; apply h1; nlinarith
  · intro h; apply h2; nlinarith

-- ---------------------------------------------------------------- the text

/-- the (significand, exponent) pair `fmt_round` prints for precision `p` -/
def precPair (B : Nat) (m : Mode) (p : Nat) (r : FRepr) : Int × Int :=
  let diff : Int := (p : Int) + r.exp
  if diff < 0 then
    let shift := (-diff).toNat
    let hl := splitDigits B r.signif shift
    let adj := roundFract B m coarseNone hl.1 hl.2 shift
    (hl.1 + rInt adj, r.exp - diff)
  else (r.signif, r.exp)

/-- the digits/point/zeros part of `fmt_round` with a precision -/
def bodyText (signifStr : List Nat) (exp : Int) (p : Nat) : List Nat :=
  if exp < 0 then
    let e := (-exp).toNat
    let cut := signifStr.length - e
    let int := signifStr.take cut
    let fract := signifStr.drop cut
    let fd := fract.length
    let intOut := if int = [] then [48] else int
    if p ≠ 0 then
      if e ≥ p then intOut ++ [46] ++ rep (p - fd) [48] ++ fract
      else intOut ++ [46] ++ rep (e - fd) [48] ++ fract ++ rep (p - e) [48]
    else intOut
  else
    (if signifStr = [] then [48] else signifStr) ++ rep exp.toNat [48] ++
      (if p > 0 then [46] ++ rep p [48] else [])

theorem fmtRound_prec_eq (B : Nat) (m : Mode) (p : Nat) (r : FRepr) :
    fmtRound B m {} (some p) r =
      (if r.signif < 0 then [45] else []) ++
        bodyText (if r.signif < 0 then (printSpecInt B false (precPair B m p r).1).drop 1
          else printSpecInt B false (precPair B m p r).1) (precPair B m p r).2 p := by
  unfold fmtRound bodyText precPair
  simp only [rep, List.replicate_zero, List.flatten_nil, List.nil_append, List.append_nil, Bool.not_false,
    if_true, Bool.false_eq_true, if_false, decide_eq_true_eq]

theorem precPair_eq (B : Nat) (m : Mode) (p : Nat) (r : FRepr) :
    precPair B m p r = if (p : Int) + r.exp < 0 then (precRounded B m p r, -(p : Int)) else (r.signif, r.exp) := by
  unfold precPair precRounded
  by_cases h : (p : Int) + r.exp < 0
  · simp only [h, if_true]
    congr 1; omega
  · simp only [h, if_false]

def fxInt (D : List Nat) (e : Nat) : List Nat :=
  if D.take (D.length - e) = [] then [0] else D.take (D.length - e)

def fxFrac (D : List Nat) (e t : Nat) : List Nat :=
  List.replicate (e - (D.length - (D.length - e))) 0 ++ D.drop (D.length - e) ++ List.replicate t 0

theorem fxFrac_length (D : List Nat) (e t : Nat) : (fxFrac D e t).length = e + t := by
  unfold fxFrac
  simp only [List.length_append, List.length_replicate, List.length_drop]
  omega

theorem fx_lt (B : Nat) (hB : 0 < B) (D : List Nat) (hD : ∀ d ∈ D, d < B) (e t : Nat) :
    (∀ d ∈ fxInt D e, d < B) ∧ (∀ d ∈ fxFrac D e t, d < B) := by
  constructor
  · intro d hd
    unfold fxInt at hd
    split at hd
    · simp at hd; omega
    · exact hD d (List.mem_of_mem_take hd)
  · intro d hd
    unfold fxFrac at hd
    rcases List.mem_append.mp hd with h | h
    · rcases List.mem_append.mp h with h | h
      · have := List.eq_of_mem_replicate h; omega
      · exact hD d (List.mem_of_mem_drop h)
    · have := List.eq_of_mem_replicate h; omega

theorem fxInt_ne (D : List Nat) (e : Nat) : fxInt D e ≠ [] := by
  unfold fxInt; split <;> simp_all

theorem fx_value (B : Nat) (D : List Nat) (e t : Nat) :
    ofDigits B (fxInt D e ++ fxFrac D e t) = ofDigits B D * B ^ t := by
  unfold fxInt fxFrac
  rw [← List.append_assoc, ofDigits_append_replicate_zero]
  congr 1
  by_cases hle : e ≤ D.length
  · have h0 : e - (D.length - (D.length - e)) = 0 := by omega
    rw [h0, List.replicate_zero, List.nil_append]
    by_cases ht : D.take (D.length - e) = []
    · rw [if_pos ht]
      have : D.drop (D.length - e) = D := by
        conv_rhs => rw [← List.take_append_drop (D.length - e) D, ht, List.nil_append]
      rw [this, List.singleton_append, ofDigits_cons]; simp
    · rw [if_neg ht, List.take_append_drop]
  · have hc : D.length - e = 0 := by omega
    rw [hc, List.take_zero, if_pos rfl, List.drop_zero]
    have e1 : [0] ++ (List.replicate (e - (D.length - 0)) 0 ++ D) =
        List.replicate (e - (D.length - 0) + 1) 0 ++ D := by
      rw [List.replicate_succ]; simp
    rw [e1, ofDigits_replicate_zero_append]

theorem chars_append (up : Bool) (a b : List Nat) : chars up (a ++ b) = chars up a ++ chars up b := by
  unfold chars; rw [List.map_append]

theorem chars_eq_nil {up : Bool} {D : List Nat} : chars up D = [] ↔ D = [] := by
  unfold chars; simp

/-- the fixed-point text of the digit string `D` with `e` fractional positions and `t` extra zeros -/
theorem fx_text (D : List Nat) (e t : Nat) :
    (if (chars false D).take ((chars false D).length - e) = [] then [48]
        else (chars false D).take ((chars false D).length - e)) ++ [46] ++
      rep (e - ((chars false D).drop ((chars false D).length - e)).length) [48] ++
      (chars false D).drop ((chars false D).length - e) ++ rep t [48] =
    chars false (fxInt D e) ++ fracChars false (some (fxFrac D e t)) := by
  have hDlen : (chars false D).length = D.length := chars_length false D
  have htake : (chars false D).take ((chars false D).length - e) = chars false (D.take (D.length - e)) := by
    rw [hDlen]; unfold chars; rw [List.map_take]
  have hdrop : (chars false D).drop ((chars false D).length - e) = chars false (D.drop (D.length - e)) := by
    rw [hDlen]; unfold chars; rw [List.map_drop]
  rw [htake, hdrop, chars_length, List.length_drop, rep_zero_chars false, rep_zero_chars false]
  unfold fxInt fxFrac fracChars
  have hint : (if chars false (D.take (D.length - e)) = [] then [48] else chars false (D.take (D.length - e))) =
      chars false (if D.take (D.length - e) = [] then [0] else D.take (D.length - e)) := by
    by_cases h0 : D.take (D.length - e) = []
    · simp [h0, chars, digitChar]
    · have : chars false (D.take (D.length - e)) ≠ [] := fun h => h0 (chars_eq_nil.mp h)
      simp [h0, this]
  rw [hint]
  simp only [chars_append, List.append_assoc, List.singleton_append, List.cons_append, List.nil_append]

theorem bpowQ_neg_mul (B : Nat) (hB : 0 < B) (a : Nat) (b : Int) :
    ((B ^ a : Nat) : ℚ) * bpowQ B (b - (a : Int)) = bpowQ B b := by
  rw [← bpowQ_nat, ← bpowQ_add B hB]; congr 1; omega

/-- the body of the text is a digit string, a point and exactly `p` fractional digits (no point for
    `p = 0`), spelling `D · B^exp` -/
theorem body_literal (B : Nat) (hB : 2 ≤ B) (D : List Nat) (hD : ∀ d ∈ D, d < B) (exp' : Int) (p : Nat)
    (hinv : exp' < 0 → (-exp').toNat ≤ p) :
    ∃ (di : List Nat) (frac : Option (List Nat)),
      bodyText (chars false D) exp' p = chars false di ++ fracChars false frac ∧
      (∀ d ∈ di, d < B) ∧ (∀ d ∈ frac.getD [], d < B) ∧ di ≠ [] ∧
      (frac.getD []).length = p ∧ (frac.isSome ↔ 0 < p) ∧
      (ofDigits B (di ++ frac.getD []) : ℚ) * bpowQ B (0 - (p : Int)) = (ofDigits B D : ℚ) * bpowQ B exp' := by
  have hB0 : 0 < B := by omega
  unfold bodyText
  by_cases he : exp' < 0
  · have hep := hinv he
    simp only [he, if_true]
    obtain ⟨e, hee, he1⟩ : ∃ e : Nat, (-exp').toNat = e ∧ 1 ≤ e := ⟨(-exp').toNat, rfl, by omega⟩
    rw [hee] at hep ⊢
    have hp0 : p ≠ 0 := by omega
    simp only [hp0, ne_eq, not_false_eq_true, if_true]
    have hexp : exp' = -(e : Int) := by omega
    by_cases hge : e ≥ p
    · have hpe : e = p := by omega
      simp only [hge, if_true]
      rw [← hpe]
      have := fx_text D e 0
      simp only [rep, List.replicate_zero, List.flatten_nil, List.append_nil] at this
      simp only [rep]
      refine ⟨fxInt D e, some (fxFrac D e 0), this, (fx_lt B hB0 D hD e 0).1, (fx_lt B hB0 D hD e 0).2,
        fxInt_ne D e, by simp [fxFrac_length], by simp; omega, ?_⟩
      simp only [Option.getD_some]
      rw [fx_value, pow_zero, Nat.mul_one, hexp]; congr 2; omega
    · simp only [hge, if_false]
      refine ⟨fxInt D e, some (fxFrac D e (p - e)), fx_text D e (p - e), (fx_lt B hB0 D hD e (p - e)).1,
        (fx_lt B hB0 D hD e (p - e)).2, fxInt_ne D e, by simp [fxFrac_length]; omega, by simp; omega, ?_⟩
      simp only [Option.getD_some]
      rw [fx_value, Nat.cast_mul, mul_assoc]
      congr 1
      have h1 : (0 : Int) - (p : Int) = exp' - ((p - e : Nat) : Int) := by omega
      rw [h1, bpowQ_neg_mul B hB0]
  · simp only [he, if_false]
    have hint : (if chars false D = [] then [48] else chars false D) = chars false (if D = [] then [0] else D) := by
      by_cases h0 : D = []
      · simp [h0, chars, digitChar]
      · have : chars false D ≠ [] := fun h => h0 (chars_eq_nil.mp h)
        simp [h0, this]
    have hval0 : ofDigits B (if D = [] then [0] else D) = ofDigits B D := by
      by_cases h0 : D = []
      · simp [h0, ofDigits]
      · simp [h0]
    have hlt0 : ∀ d ∈ (if D = [] then [0] else D), d < B := by
      intro d hd; split at hd
      · simp at hd; omega
      · exact hD d hd
    have hbe : bpowQ B exp' = ((B ^ exp'.toNat : Nat) : ℚ) := by
      conv_lhs => rw [← Int.toNat_of_nonneg (by omega : 0 ≤ exp')]
      exact bpowQ_nat B _
    rw [hint, rep_zero_chars false, ← chars_append]
    by_cases hp : p > 0
    · simp only [hp, if_true]
      refine ⟨(if D = [] then [0] else D) ++ List.replicate exp'.toNat 0, some (List.replicate p 0), ?_, ?_, ?_, ?_,
        by simp, by simp [hp], ?_⟩
      · rw [rep_zero_chars false]; rfl
      · intro d hd
        rcases List.mem_append.mp hd with h | h
        · exact hlt0 d h
        · have := List.eq_of_mem_replicate h; omega
      · intro d hd
        have := List.eq_of_mem_replicate hd; omega
      · intro h; have := List.append_eq_nil_iff.mp h
        have h2 := this.1; split at h2 <;> simp_all
      · simp only [Option.getD_some]
        rw [ofDigits_append_replicate_zero, ofDigits_append_replicate_zero, hval0, hbe]
        push_cast
        have h1 := bpowQ_neg_mul B hB0 p 0
        have h2 : bpowQ B 0 = 1 := by simp [bpowQ]
        rw [h2] at h1
        push_cast at h1
        rw [mul_assoc, h1, mul_one]
    · simp only [hp, if_false]
      have hp0 : p = 0 := by omega
      subst hp0
      refine ⟨(if D = [] then [0] else D) ++ List.replicate exp'.toNat 0, none, by simp [fracChars], ?_, ?_, ?_,
        by simp, by simp, ?_⟩
      · intro d hd
        rcases List.mem_append.mp hd with h | h
        · exact hlt0 d h
        · have := List.eq_of_mem_replicate h; omega
      · intro d hd; simp at hd
      · intro h; have := List.append_eq_nil_iff.mp h
        have h2 := this.1; split at h2 <;> simp_all
      · simp only [Option.getD_none, List.append_nil]
        rw [ofDigits_append_replicate_zero, hval0, hbe]
        have : bpowQ B (0 - ((0 : Nat) : Int)) = 1 := by simp [bpowQ]
        rw [this, mul_one]; push_cast; rfl

theorem signifStr_eq (B : Nat) (hB : 2 ≤ B) (s s' : Int) (h1 : s < 0 → s' ≤ 0) (h2 : 0 ≤ s → 0 ≤ s') :
    ∃ D : List Nat, (if s < 0 then (printSpecInt B false s').drop 1 else printSpecInt B false s') = chars false D ∧
      (∀ d ∈ D, d < B) ∧ ofDigits B D = s'.natAbs := by
  by_cases hs : s < 0
  · simp only [hs, if_true]
    by_cases h0 : s' = 0
    · subst h0
      refine ⟨[], ?_, by simp, by simp [ofDigits]⟩
      unfold printSpecInt printSpec digits
      simp [chars]
    · have hneg : s' < 0 := by have := h1 hs; omega
      refine ⟨digits B s'.natAbs, ?_, digits_lt hB _, ofDigits_digits hB _⟩
      unfold printSpecInt printSpec chars
      simp [hneg]
  · simp only [hs, if_false]
    have hnn : ¬ s' < 0 := by have := h2 (by omega); omega
    refine ⟨digits B s'.natAbs, ?_, digits_lt hB _, ofDigits_digits hB _⟩
    unfold printSpecInt printSpec chars
    simp [hnn]

/-- `{:.p}` prints a literal of the grammar: sign of the value, integer digits and exactly `p`
    fractional digits (no point for `p = 0`), spelling `|R| · B^(−p)` for the rounded integer `R` -/
theorem display_prec_literal (B : Nat) (hB : 2 ≤ B) (m : Mode) (p : Nat) (r : FRepr) :
    ∃ (di : List Nat) (frac : Option (List Nat)),
      fmtRound B m {} (some p) r = renderLiteral false (if r.signif < 0 then some true else none) di frac none ∧
      (∀ d ∈ di, d < B) ∧ (∀ d ∈ frac.getD [], d < B) ∧ di ≠ [] ∧
      (frac.getD []).length = p ∧ (frac.isSome ↔ 0 < p) ∧
      (ofDigits B (di ++ frac.getD []) : ℚ) * bpowQ B (0 - (p : Int)) =
        ((precRounded B m p r).natAbs : ℚ) * bpowQ B (0 - (p : Int)) := by
  have hB0 : 0 < B := by omega
  obtain ⟨hs1, hs2⟩ := precRounded_sign B hB m p r
  have hsgn : (r.signif < 0 → (precPair B m p r).1 ≤ 0) ∧ (0 ≤ r.signif → 0 ≤ (precPair B m p r).1) := by
    rw [precPair_eq]
    by_cases hd : (p : Int) + r.exp < 0
    · simp only [hd, if_true]; exact ⟨hs1, hs2⟩
    · simp only [hd, if_false]; exact ⟨fun h => by omega, fun h => h⟩
  obtain ⟨D, hstr, hDlt, hDv⟩ := signifStr_eq B hB r.signif (precPair B m p r).1 hsgn.1 hsgn.2
  have hinv : (precPair B m p r).2 < 0 → (-(precPair B m p r).2).toNat ≤ p := by
    rw [precPair_eq]
    by_cases hd : (p : Int) + r.exp < 0
    · simp only [hd, if_true]; intro _; omega
    · simp only [hd, if_false]; intro _; omega
  obtain ⟨di, frac, htext, hdi, hdf, hne, hlen, hsome, hval⟩ :=
    body_literal B hB D hDlt (precPair B m p r).2 p hinv
  refine ⟨di, frac, ?_, hdi, hdf, hne, hlen, hsome, ?_⟩
  · rw [fmtRound_prec_eq, hstr, htext]
    unfold renderLiteral scaleChars
    rw [List.append_nil]
    congr 1
    by_cases h : r.signif < 0 <;> simp [h, signChars]
  · rw [hval, hDv]
    rw [precPair_eq]
    by_cases hd : (p : Int) + r.exp < 0
    · simp only [hd, if_true]
      congr 2; omega
    · simp only [hd, if_false]
      unfold precRounded
      simp only [hd, if_false]
      rw [Int.natAbs_mul, Int.natAbs_natCast, Nat.cast_mul, mul_assoc]
      congr 1
      have h1 : (0 : Int) - (p : Int) = r.exp - ((((p : Int) + r.exp).toNat : Nat) : Int) := by omega
      rw [h1, bpowQ_neg_mul B hB0]

/-- **printing with a precision is correct rounding**: the text `{:.p}` prints parses back (same
    base) to exactly `R · B^(−p)` where `R` is the mode's rounding of `x · B^p` to an integer -/
theorem display_prec_parse (W : Nat) (hW : 36 < 2 ^ W) (B : Nat) (hB : validRadix B = true)
    (m : Mode) (p : Nat) (r : FRepr) :
    ∃ (r' : FRepr) (n : Nat), fromStrNative W B (fmtRound B m {} (some p) r) = .ok (r', n) ∧
      r'.toRat B = (precRounded B m p r : ℚ) * bpowQ B (-(p : Int)) := by
  have hr := validRadix_iff.mp hB
  obtain ⟨di, frac, htext, hdi, hdf, hne, hlen, _, hval⟩ := display_prec_literal B hr.1 m p r
  obtain ⟨r', hparse, hv⟩ := literal_exact W hW B hB false _ di frac none hdi hdf (Or.inl hne)
    (by intro z h; cases h)
  refine ⟨r', _, by rw [htext]; exact hparse, ?_⟩
  rw [hv]
  simp only [Option.getD_none]
  rw [hlen, mul_assoc, hval]
  obtain ⟨hs1, hs2⟩ := precRounded_sign B hr.1 m p r
  have e0 : (0 : Int) - (p : Int) = -(p : Int) := by omega
  rw [e0]
  by_cases h : r.signif < 0
  · have : (((precRounded B m p r).natAbs : Nat) : ℚ) = -((precRounded B m p r : Int) : ℚ) := by
      rw [Nat.cast_natAbs, Int.cast_abs]
      exact abs_of_nonpos (by exact_mod_cast hs1 h)
    simp [h, this]
  · have : (((precRounded B m p r).natAbs : Nat) : ℚ) = ((precRounded B m p r : Int) : ℚ) := by
      rw [Nat.cast_natAbs, Int.cast_abs]
      exact abs_of_nonneg (by exact_mod_cast hs2 (by omega))
    simp [h, this]

end Dashu.Model.Text
