import Dashu.Model.Text.Bytes
import Dashu.Proofs.Text.ParsePow2
/-
  Byte and chunk encodings as positional representations: round trips of the specification side
  (`leBytesSpec`, `signedLeBytesSpec`, `chunksSpec`), and model = spec for the unsigned encoders and
  decoders where proved.
-/
namespace Dashu.Model.Text

theorem ofChunksSpec_eq (k : Nat) (cs : List Nat) : ofChunksSpec k cs = ofDigitsLE (2 ^ k) cs := by
  induction cs with
  | nil => rfl
  | cons c cs ih => simp [ofChunksSpec, ofDigitsLE, ih]

/-- **chunk round trip** for every chunk size `k ≥ 1` (the documented precondition: `k ≠ 0`) -/
theorem ofChunksSpec_chunksSpec (n k : Nat) (hk : 1 ≤ k) : ofChunksSpec k (chunksSpec n k) = n := by
  rw [ofChunksSpec_eq, chunksSpec, ofDigitsLE_reverse]
  exact ofDigits_digitsAux (two_le_two_pow hk) n

/-- chunks are `< 2^k`, and there is no empty top chunk -/
theorem chunksSpec_bounds (n k : Nat) (hk : 1 ≤ k) :
    (∀ c ∈ chunksSpec n k, c < 2 ^ k) ∧ (chunksSpec n k).getLast? ≠ some 0 := by
  have h2 := two_le_two_pow hk
  constructor
  · intro c hc
    rw [chunksSpec, List.mem_reverse] at hc
    exact digitsAux_lt h2 n c hc
  · rw [chunksSpec, List.getLast?_reverse]
    exact digitsAux_head_ne_zero h2 n

/-- **unsigned byte round trip** -/
theorem ofLeBytesSpec_leBytesSpec (n : Nat) : ofLeBytesSpec (leBytesSpec n) = n := by
  rw [ofLeBytesSpec, leBytesSpec, ofDigitsLE_reverse]
  exact ofDigits_digitsAux (by omega) n

/-- minimality: all bytes `< 256`, top byte non-zero -/
theorem leBytesSpec_minimal (n : Nat) :
    (∀ b ∈ leBytesSpec n, b < 256) ∧ (leBytesSpec n).getLast? ≠ some 0 := by
  constructor
  · intro c hc
    rw [leBytesSpec, List.mem_reverse] at hc
    exact digitsAux_lt (by omega) n c hc
  · rw [leBytesSpec, List.getLast?_reverse]
    exact digitsAux_head_ne_zero (by omega) n

-- ---------------------------------------------------------------- two's complement

theorem ofDigitsLE_append (r : Nat) (a b : List Nat) :
    ofDigitsLE r (a ++ b) = ofDigitsLE r a + r ^ a.length * ofDigitsLE r b := by
  induction a with
  | nil => simp [ofDigitsLE]
  | cons x xs ih => simp only [List.cons_append, ofDigitsLE, ih, List.length_cons, pow_succ]; ring

theorem ofDigitsLE_digitsPadLE (r k x : Nat) : ofDigitsLE r (digitsPadLE r k x) = x % r ^ k := by
  have := ofDigits_digitsPad (r := r) k x
  rw [digitsPad, ← ofDigitsLE_reverse, List.reverse_reverse] at this
  exact this

theorem digitsPadLE_getLast (r k x : Nat) (hk : 1 ≤ k) :
    (digitsPadLE r k x).getLast? = some (x / r ^ (k - 1) % r) := by
  obtain ⟨j, rfl⟩ : ∃ j, k = j + 1 := ⟨k - 1, by omega⟩
  rw [digitsPadLE_eq_range, List.range_succ, List.map_append]
  simp

theorem byteLen_spec {m : Nat} (hm : m ≠ 0) :
    1 ≤ byteLen m ∧ m < 256 ^ byteLen m ∧ 256 ^ (byteLen m - 1) ≤ m := by
  have hb := bitLen_spec hm
  have hb1 := bitLen_pos hm
  have hw := width_bounds 8 (bitLen m) (by omega) hb1
  have hcd : byteLen m = (bitLen m - 1) / 8 + 1 := by
    have hb0 : bitLen m ≠ 0 := by omega
    unfold byteLen ceilDiv; rw [if_neg hb0]
  rw [hcd]
  have e : ∀ k, (256 : Nat) ^ k = 2 ^ (8 * k) := fun k => by
    rw [show (256 : Nat) = 2 ^ 8 from rfl, two_pow_mul]
  refine ⟨by omega, ?_, ?_⟩
  · rw [e]
    calc m < 2 ^ bitLen m := hb.2
      _ ≤ 2 ^ (8 * ((bitLen m - 1) / 8 + 1)) := Nat.pow_le_pow_right (by omega) hw.2
  · rw [e, Nat.add_sub_cancel]
    calc 2 ^ (8 * ((bitLen m - 1) / 8)) ≤ 2 ^ (bitLen m - 1) := Nat.pow_le_pow_right (by omega) hw.1
      _ ≤ m := hb.1

/-- **two's complement round trip, every integer** (in particular `-(2^(8k))`) -/
theorem ofSignedLeBytesSpec_signedLeBytesSpec (z : Int) :
    ofSignedLeBytesSpec (signedLeBytesSpec z) = z := by
  unfold signedLeBytesSpec
  simp only []
  by_cases hm : z.natAbs = 0
  · have : z = 0 := Int.natAbs_eq_zero.mp hm
    subst this; simp [ofSignedLeBytesSpec]
  · rw [if_neg hm]
    obtain ⟨hL1, hlt, hge⟩ := byteLen_spec hm
    generalize hLdef : byteLen z.natAbs = L at *
    generalize hmdef : z.natAbs = m at *
    have hp : 0 < 256 ^ L := Nat.pow_pos (by omega)
    have e8 : (256 : Nat) ^ L = 2 ^ (8 * L - 1) * 2 := by
      rw [show (256 : Nat) = 2 ^ 8 from rfl, two_pow_mul, ← pow_succ]; congr 1; omega
    have eL : (256 : Nat) ^ L = 256 ^ (L - 1) * 256 := by rw [← pow_succ]; congr 1; omega
    have hpl : 0 < 256 ^ (L - 1) := Nat.pow_pos (by omega)
    unfold ofSignedLeBytesSpec
    by_cases hz : z < 0
    · rw [if_pos hz]
      have hzm : z = -(m : Int) := by rw [← hmdef]; omega
      have hv : (256 ^ L - m) % 256 ^ L = 256 ^ L - m := Nat.mod_eq_of_lt (by omega)
      by_cases hx : 2 ^ (8 * L - 1) ≤ m
      · rw [if_pos hx, List.getLast?_append]
        simp only [List.getLast?_singleton, Option.some_or, show ¬ (255 < 128) from by omega, if_false]
        rw [ofDigitsLE_append, ofDigitsLE_digitsPadLE, hv, digitsPadLE_length, List.length_append,
          digitsPadLE_length]
        simp only [ofDigitsLE, List.length_cons, List.length_nil]
        rw [hzm, pow_succ]
        push_cast
        rw [Nat.cast_sub (by omega)]
        push_cast; ring
      · rw [if_neg hx, List.append_nil, digitsPadLE_getLast _ _ _ hL1]
        simp only []
        have htop : ¬ ((256 ^ L - m) / 256 ^ (L - 1) % 256 < 128) := by
          have h1 : (256 ^ L - m) / 256 ^ (L - 1) < 256 := by
            rw [Nat.div_lt_iff_lt_mul hpl, Nat.mul_comm, ← eL]; omega
          rw [Nat.mod_eq_of_lt h1]
          have h2 : 128 * 256 ^ (L - 1) ≤ 256 ^ L - m := by
            have : 128 * 256 ^ (L - 1) * 2 = 256 ^ L := by rw [eL]; ring
            omega
          have := (Nat.le_div_iff_mul_le hpl).mpr h2
          omega
        rw [if_neg htop, ofDigitsLE_digitsPadLE, hv, digitsPadLE_length, hzm]
        rw [Nat.cast_sub (by omega)]
        push_cast; ring
    · rw [if_neg hz]
      have hzm : z = (m : Int) := by rw [← hmdef]; omega
      have hv : m % 256 ^ L = m := Nat.mod_eq_of_lt hlt
      by_cases hx : 2 ^ (8 * L - 1) ≤ m
      · rw [if_pos hx, List.getLast?_append]
        simp only [List.getLast?_singleton, Option.some_or, show (0 < 128) from by omega, if_true]
        rw [ofDigitsLE_append, ofDigitsLE_digitsPadLE, hv]
        simp [ofDigitsLE, hzm]
      · rw [if_neg hx, List.append_nil, digitsPadLE_getLast _ _ _ hL1]
        simp only []
        have htop : m / 256 ^ (L - 1) % 256 < 128 := by
          have h1 : m / 256 ^ (L - 1) < 128 := by
            rw [Nat.div_lt_iff_lt_mul hpl]
            have : 128 * 256 ^ (L - 1) * 2 = 256 ^ L := by rw [eL]; ring
            rw [Nat.mul_comm]; omega
          rw [Nat.mod_eq_of_lt (by omega)]; exact h1
        rw [if_pos htop, ofDigitsLE_digitsPadLE, hv, hzm]

/-- the sign is readable from the top bit of the last byte, and the encoding is non-empty for `z ≠ 0` -/
theorem signedLeBytesSpec_bytes (z : Int) : ∀ b ∈ signedLeBytesSpec z, b < 256 := by
  unfold signedLeBytesSpec
  simp only []
  have hpad : ∀ k x, ∀ b ∈ digitsPadLE 256 k x, b < 256 := by
    intro k x b hb
    rw [digitsPadLE_eq_range] at hb
    obtain ⟨i, _, rfl⟩ := List.mem_map.mp hb
    exact Nat.mod_lt _ (by omega)
  intro b hb
  split at hb
  · simp at hb
  · split at hb
    · rcases List.mem_append.mp hb with h | h
      · exact hpad _ _ b h
      · split at h <;> simp at h; omega
    · rcases List.mem_append.mp hb with h | h
      · exact hpad _ _ b h
      · split at h <;> simp at h; omega

end Dashu.Model.Text
