import Dashu.Proofs.Text.Bytes
/-
  convert.rs, unsigned side: the word-level encoder `to_le_bytes` (inline double word and heap
  `words_to_le_bytes`) equals the positional specification `leBytesSpec`, for every word size that
  is a multiple of 8.
-/
namespace Dashu.Model.Text

theorem digitsPadLE_succ (r k x : Nat) : digitsPadLE r (k + 1) x = x % r :: digitsPadLE r k (x / r) := rfl

/-- little-endian split: low part, then high part -/
theorem digitsPadLE_add (r a b x : Nat) :
    digitsPadLE r (a + b) x = digitsPadLE r a x ++ digitsPadLE r b (x / r ^ a) := by
  induction a generalizing x with
  | zero => simp [digitsPadLE]
  | succ a ih =>
    rw [Nat.add_right_comm, digitsPadLE_succ, digitsPadLE_succ, ih, List.cons_append]
    congr 2
    rw [Nat.div_div_eq_div_mul, pow_succ, Nat.mul_comm]

theorem take_digitsPadLE (r j k x : Nat) (h : j ≤ k) : (digitsPadLE r k x).take j = digitsPadLE r j x := by
  obtain ⟨d, rfl⟩ : ∃ d, k = j + d := ⟨k - j, by omega⟩
  rw [digitsPadLE_add, List.take_left' (digitsPadLE_length r j x)]

/-- regrouping: the base-`r^k` digits, each expanded into `k` base-`r` digits -/
theorem flatMap_digitsPadLE (r k m x : Nat) :
    (digitsPadLE (r ^ k) m x).flatMap (fun w => digitsPadLE r k w) = digitsPadLE r (k * m) x := by
  induction m generalizing x with
  | zero => simp [digitsPadLE]
  | succ m ih =>
    rw [digitsPadLE_succ, List.flatMap_cons, ih, Nat.mul_succ, Nat.add_comm (k * m) k, digitsPadLE_add,
      digitsPadLE_mod]

/-- the minimal little-endian bytes are the `byteLen n` low bytes -/
theorem leBytesSpec_eq (n : Nat) : leBytesSpec n = digitsPadLE 256 (byteLen n) n := by
  unfold leBytesSpec
  by_cases hn : n = 0
  · subst hn; simp [digitsAux_zero, byteLen, bitLen, ceilDiv, digitsPadLE]
  · have hb := bitLen_bounds n
    have h := digits_pow2_width 8 n (bitLen n) (by omega) hb.1 hb.2
    have h1 : 1 ≤ byteLen n := (byteLen_spec hn).1
    have hmax : max (ceilDiv (bitLen n) 8) 1 = byteLen n := by
      unfold byteLen at h1 ⊢; exact Nat.max_eq_left h1
    rw [hmax, digits_of_ne_zero hn] at h
    have e : (2 : Nat) ^ 8 = 256 := rfl
    rw [e] at h
    rw [h, digitsPad, List.reverse_reverse]

theorem byteLen_eq (K bl : Nat) (h : bl ≤ 8 * K) : K - (8 * K - bl) / 8 = ceilDiv bl 8 := by
  unfold ceilDiv
  by_cases h0 : bl = 0
  · subst h0; simp
  · simp only [h0, if_false]; omega

/-- `TypedReprRef::to_le_bytes`, inline (double word) path -/
theorem toLeBytes_small (W n : Nat) (h8 : 8 ∣ W) (hn : n < 2 ^ (2 * W)) :
    (wordLeBytes (2 * W) n).take (2 * W / 8 - lzWord (2 * W) n / 8) = leBytesSpec n := by
  obtain ⟨k, rfl⟩ := h8
  have hK : 2 * (8 * k) / 8 = 2 * k := by omega
  have hbl : bitLen n ≤ 2 * (8 * k) := bitLen_le_iff.mpr hn
  unfold wordLeBytes lzWord
  rw [hK]
  have : 2 * k - (2 * (8 * k) - bitLen n) / 8 = byteLen n := by
    have := byteLen_eq (2 * k) (bitLen n) (by omega)
    unfold byteLen
    rw [← this]; congr 3; omega
  rw [this, take_digitsPadLE _ _ _ _ (by rw [← this]; omega), leBytesSpec_eq]

/-- `wordsOf W n` = the `L` little-endian base-`2^W` digits of `n`, `L` minimal -/
theorem wordsOf_eq (W n : Nat) (hW : 1 ≤ W) :
    wordsOf W n = digitsPadLE (2 ^ W) (wordsOf W n).length n ∧
    (n ≠ 0 → (wordsOf W n).getLastD 0 = n / (2 ^ W) ^ ((wordsOf W n).length - 1) ∧
      (wordsOf W n).getLastD 0 ≠ 0 ∧ (wordsOf W n).getLastD 0 < 2 ^ W ∧ 1 ≤ (wordsOf W n).length) := by
  have h2 := two_le_two_pow hW
  by_cases hn : n = 0
  · subst hn; simp [wordsOf, digitsAux_zero, digitsPadLE]
  · -- digits (2^W) n = digitsPad (2^W) L n with L its length
    have hd : digitsAux (2 ^ W) n [] = digitsPad (2 ^ W) (digitsAux (2 ^ W) n []).length n := by
      have hv := ofDigits_digitsAux h2 n
      have hlt := digitsAux_lt h2 n
      have hne := digitsAux_ne_nil h2 hn
      have hhd := digitsAux_head_ne_zero h2 n
      generalize hds : digitsAux (2 ^ W) n [] = ds at *
      cases ds with
      | nil => exact absurd rfl hne
      | cons top rest =>
        have htop0 : top ≠ 0 := by simpa using hhd
        have htop : top < 2 ^ W := hlt top (by simp)
        have hrest := valBE_lt W rest (fun w hw => hlt w (by simp [hw]))
        rw [ofDigits_cons, two_pow_mul] at hv
        unfold valBE at hrest
        have hp : 0 < 2 ^ (W * rest.length) := Nat.pow_pos (by omega)
        have := digits_eq_digitsPad h2 (rest.length + 1) n (by omega) (Or.inr (by
          simp only [Nat.add_sub_cancel, two_pow_mul]
          calc 2 ^ (W * rest.length) ≤ top * 2 ^ (W * rest.length) := Nat.le_mul_of_pos_left _ (by omega)
            _ ≤ n := by omega)) (by
          rw [two_pow_mul, Nat.mul_add, Nat.mul_one, pow_add]
          calc n < (top + 1) * 2 ^ (W * rest.length) := by rw [Nat.add_mul]; omega
            _ ≤ 2 ^ W * 2 ^ (W * rest.length) := Nat.mul_le_mul_right _ (by omega)
            _ = 2 ^ (W * rest.length) * 2 ^ W := Nat.mul_comm _ _)
        rw [digits_of_ne_zero hn, hds] at this
        simpa using this
    have hlen : (wordsOf W n).length = (digitsAux (2 ^ W) n []).length := by simp [wordsOf]
    constructor
    · rw [hlen]; unfold wordsOf
      conv_lhs => rw [hd]
      rw [digitsPad, List.reverse_reverse]
    · intro _
      have hne := digitsAux_ne_nil h2 hn
      have hL1 : 1 ≤ (wordsOf W n).length := by
        rw [hlen]; exact Nat.pos_of_ne_zero (fun h => hne (List.length_eq_zero_iff.mp h))
      have hlast : (wordsOf W n).getLastD 0 = (digitsAux (2 ^ W) n []).headD 0 := by
        unfold wordsOf
        cases hds : digitsAux (2 ^ W) n [] with
        | nil => exact absurd hds hne
        | cons a t => simp
      have hhd := digitsAux_head_ne_zero h2 n
      have hlt := digitsAux_lt h2 n
      cases hds : digitsAux (2 ^ W) n [] with
      | nil => exact absurd hds hne
      | cons top rest =>
        rw [hds] at hhd hlt hd
        rw [hlast, hds]
        simp only [List.headD_cons]
        refine ⟨?_, by simpa using hhd, hlt top (by simp), hL1⟩
        -- top = n / (2^W)^(L-1)
        rw [hlen, hds, List.length_cons, Nat.add_sub_cancel]
        have := hd
        rw [List.length_cons, Nat.add_comm, digitsPad_add' _ 1 rest.length n, digitsPad_succ, digitsPad_zero] at this
        simp only [List.nil_append, List.singleton_append, List.cons.injEq] at this
        have htop := this.1
        have hq : n / (2 ^ W) ^ rest.length < 2 ^ W := by
          have hv := ofDigits_digitsAux h2 n
          rw [hds, ofDigits_cons] at hv
          have hrest := valBE_lt W rest (fun w hw => hlt w (by simp [hw]))
          unfold valBE at hrest
          rw [← two_pow_mul] at hrest
          rw [Nat.div_lt_iff_lt_mul (Nat.pow_pos (by omega))]
          have : top < 2 ^ W := hlt top (by simp)
          calc n = top * (2 ^ W) ^ rest.length + ofDigits (2 ^ W) rest := hv.symm
            _ < (top + 1) * (2 ^ W) ^ rest.length := by rw [Nat.add_mul]; omega
            _ ≤ 2 ^ W * (2 ^ W) ^ rest.length := Nat.mul_le_mul_right _ (by omega)
        rw [htop, Nat.mod_eq_of_lt hq]

/-- bit length of a multi-word number -/
theorem bitLen_words (W L x : Nat) (hx : x ≠ 0) (t : Nat) (ht : t < 2 ^ (W * L)) :
    bitLen (x * 2 ^ (W * L) + t) = W * L + bitLen x := by
  have hb := bitLen_spec hx
  have hp : 0 < 2 ^ (W * L) := Nat.pow_pos (by omega)
  have hne : x * 2 ^ (W * L) + t ≠ 0 := by
    have : 0 < x * 2 ^ (W * L) := Nat.mul_pos (Nat.pos_of_ne_zero hx) hp
    omega
  have hb1 := bitLen_pos hx
  -- uniqueness of the bit length
  have hlo : 2 ^ (W * L + bitLen x - 1) ≤ x * 2 ^ (W * L) + t := by
    have : W * L + bitLen x - 1 = (bitLen x - 1) + W * L := by omega
    rw [this, pow_add]
    calc 2 ^ (bitLen x - 1) * 2 ^ (W * L) ≤ x * 2 ^ (W * L) := Nat.mul_le_mul_right _ hb.1
      _ ≤ _ := Nat.le_add_right _ _
  have hhi : x * 2 ^ (W * L) + t < 2 ^ (W * L + bitLen x) := by
    rw [Nat.add_comm (W * L), pow_add]
    calc x * 2 ^ (W * L) + t < (x + 1) * 2 ^ (W * L) := by rw [Nat.add_mul]; omega
      _ ≤ 2 ^ bitLen x * 2 ^ (W * L) := Nat.mul_le_mul_right _ (by omega)
  have h1 : bitLen (x * 2 ^ (W * L) + t) ≤ W * L + bitLen x := bitLen_le_iff.mpr hhi
  have h2 : ¬ bitLen (x * 2 ^ (W * L) + t) ≤ W * L + bitLen x - 1 := by
    rw [bitLen_le_iff]; omega
  omega

theorem pow256 (k : Nat) : (256 : Nat) ^ k = 2 ^ (8 * k) := by
  rw [show (256 : Nat) = 2 ^ 8 from rfl, two_pow_mul]

/-- `words_to_le_bytes::<false>` on the words of `n` (heap path) -/
theorem wordsToLeBytes_eq (W n : Nat) (h8 : 8 ∣ W) (hW : 8 ≤ W) (hn : n ≠ 0) :
    wordsToLeBytes W false (wordsOf W n) = leBytesSpec n := by
  obtain ⟨k, rfl⟩ := h8
  have hk : 1 ≤ k := by omega
  obtain ⟨hw, hlast⟩ := wordsOf_eq (8 * k) n (by omega)
  obtain ⟨hl1, hl0, hllt, hL1⟩ := hlast hn
  generalize hL : (wordsOf (8 * k) n).length = L at *
  generalize hlast' : (wordsOf (8 * k) n).getLastD 0 = last at *
  unfold wordsToLeBytes
  simp only [hL, hlast', Bool.false_eq_true, if_false]
  have hK : 8 * k / 8 = k := by omega
  have e256 : (2 : Nat) ^ (8 * k) = 256 ^ k := (pow256 k).symm
  -- the full words
  have h1 : ((wordsOf (8 * k) n).take (L - 1)).flatMap (fun w => wordLeBytes (8 * k) w) =
      digitsPadLE 256 (k * (L - 1)) n := by
    rw [hw, take_digitsPadLE _ _ _ _ (by omega)]
    unfold wordLeBytes
    rw [hK, e256, flatMap_digitsPadLE]
  -- the top word
  have hbl : bitLen last ≤ 8 * k := bitLen_le_iff.mpr hllt
  have h2 : (wordLeBytes (8 * k) last).take (8 * k / 8 - lzWord (8 * k) last / 8) =
      digitsPadLE 256 (byteLen last) last := by
    unfold wordLeBytes lzWord
    rw [hK]
    have : k - (8 * k - bitLen last) / 8 = byteLen last := byteLen_eq k (bitLen last) hbl
    rw [this, take_digitsPadLE _ _ _ _ (by rw [← this]; omega)]
  rw [h1, h2, leBytesSpec_eq]
  -- glue
  have hdiv : last = n / 256 ^ (k * (L - 1)) := by rw [hl1, e256, ← pow_mul]
  have hbn : bitLen n = 8 * k * (L - 1) + bitLen last := by
    have hp : 0 < (2 ^ (8 * k)) ^ (L - 1) := Nat.pow_pos (Nat.pow_pos (by omega))
    have hdm := Nat.div_add_mod n ((2 ^ (8 * k)) ^ (L - 1))
    have hmod := Nat.mod_lt n hp
    rw [two_pow_mul] at hdm hmod hl1
    have := bitLen_words (8 * k) (L - 1) last hl0 (n % 2 ^ (8 * k * (L - 1))) hmod
    rw [← this]; congr 1
    rw [hl1]; rw [Nat.mul_comm] at hdm; exact hdm.symm
  have hbytes : byteLen n = k * (L - 1) + byteLen last := by
    unfold byteLen ceilDiv
    have hb1 := bitLen_pos hl0
    have h0 : bitLen n ≠ 0 := by omega
    have h0' : bitLen last ≠ 0 := by omega
    simp only [h0, h0', if_false]
    rw [hbn]
    have : 8 * k * (L - 1) = 8 * (k * (L - 1)) := by ring
    rw [this]; omega
  rw [hbytes, digitsPadLE_add, hdiv]

/-- **`UBig::to_le_bytes` (both paths) = the minimal positional bytes**, every multiple-of-8 word size -/
theorem toLeBytes_eq (W n : Nat) (h8 : 8 ∣ W) (hW : 8 ≤ W) : toLeBytes W n = leBytesSpec n := by
  unfold toLeBytes
  split
  · rename_i h; exact toLeBytes_small W n h8 h
  · rename_i h
    have hn : n ≠ 0 := by have := Nat.pow_pos (n := 2 * W) (by omega : 0 < 2); omega
    exact wordsToLeBytes_eq W n h8 hW hn

theorem toBeBytes_eq (W n : Nat) (h8 : 8 ∣ W) (hW : 8 ≤ W) : toBeBytes W n = (leBytesSpec n).reverse := by
  unfold toBeBytes; rw [toLeBytes_eq W n h8 hW]

-- ---------------------------------------------------------------- decoder

theorem ofDigitsLE_replicate_zero (r k : Nat) : ofDigitsLE r (List.replicate k 0) = 0 := by
  induction k with
  | zero => rfl
  | succ k ih => simp [List.replicate_succ, ofDigitsLE, ih]

theorem wordFromLePartial_false (nb : Nat) (bs : List Nat) : wordFromLePartial nb false bs = ofDigitsLE 256 bs := by
  unfold wordFromLePartial
  simp [ofDigitsLE_append, ofDigitsLE_replicate_zero]

theorem val_eq_ofDigitsLE (W : Nat) (ws : List Nat) : Dashu.Model.val W ws = ofDigitsLE (2 ^ W) ws := by
  induction ws with
  | nil => rfl
  | cons w ws ih => simp [Dashu.Model.val, ofDigitsLE, ih]

/-- regrouping bytes into words keeps the value -/
theorem ofDigitsLE_chunks (k : Nat) (hk : k ≠ 0) (bs : List Nat) :
    ofDigitsLE (256 ^ k) ((chunksOf k bs).map (fun g => ofDigitsLE 256 g)) = ofDigitsLE 256 bs := by
  induction hn : bs.length using Nat.strong_induction_on generalizing bs with
  | _ n ih =>
    by_cases hl : bs = []
    · subst hl; rw [chunksOf_nil]; rfl
    · rw [chunksOf_step hk hl, List.map_cons, ofDigitsLE]
      have hlen : bs.length ≠ 0 := fun h => hl (List.length_eq_zero_iff.mp h)
      have hd : (bs.drop k).length < n := by rw [← hn, List.length_drop]; omega
      rw [ih _ hd (bs.drop k) rfl]
      conv_rhs => rw [← List.take_append_drop k bs, ofDigitsLE_append]
      by_cases hkl : k ≤ bs.length
      · rw [List.length_take, Nat.min_eq_left hkl]
      · have hdrop : bs.drop k = [] := List.drop_eq_nil_of_le (by omega)
        rw [hdrop]; simp [ofDigitsLE]

/-- **`UBig::from_le_bytes` (both paths) = the positional value of the bytes**, any byte string -/
theorem fromLeBytes_eq (W : Nat) (h8 : 8 ∣ W) (hW : 8 ≤ W) (bytes : List Nat) :
    fromLeBytes W bytes = ofLeBytesSpec bytes := by
  obtain ⟨k, rfl⟩ := h8
  unfold fromLeBytes ofLeBytesSpec
  split
  · exact wordFromLePartial_false _ _
  · unfold fromLeBytesLarge
    simp only [Bool.false_eq_true, if_false]
    have hK : 8 * k / 8 = k := by omega
    rw [hK, val_eq_ofDigitsLE, ← pow256 k]
    have : (chunksOf k bytes).map (fun g => wordFromLePartial k false g) =
        (chunksOf k bytes).map (fun g => ofDigitsLE 256 g) := by
      apply List.map_congr_left; intro g _; exact wordFromLePartial_false k g
    rw [this]
    exact ofDigitsLE_chunks k (by omega) bytes

/-- unsigned byte round trip of the **model**: decoding what the encoder produced -/
theorem fromLeBytes_toLeBytes (W n : Nat) (h8 : 8 ∣ W) (hW : 8 ≤ W) : fromLeBytes W (toLeBytes W n) = n := by
  rw [fromLeBytes_eq W h8 hW, toLeBytes_eq W n h8 hW, ofLeBytesSpec_leBytesSpec]

theorem fromBeBytes_toBeBytes (W n : Nat) (h8 : 8 ∣ W) (hW : 8 ≤ W) : fromBeBytes W (toBeBytes W n) = n := by
  unfold fromBeBytes toBeBytes
  rw [List.reverse_reverse]; exact fromLeBytes_toLeBytes W n h8 hW

end Dashu.Model.Text
