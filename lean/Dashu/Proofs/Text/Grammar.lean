import Dashu.Proofs.Text.ParsePow2
import Dashu.Proofs.Text.Layout
/-
  The entry points: `from_str_radix`, `from_str_with_radix_default` equal the documented grammar
  on every byte string; the formatting traits equal `digits` + `pad_integral`; parse ∘ print = id.
-/
namespace Dashu.Model.Text

theorem validRadix_iff {r : Nat} : validRadix r = true ↔ 2 ≤ r ∧ r ≤ 36 := by
  simp [validRadix]

/-- the digit loops of both parsers -/
theorem parseCore_spec (W r : Nat) (hr : 2 ≤ r) (hrW : r < 2 ^ W) (t : List Nat) :
    (if isPow2 r then parsePow2 W r t else parseNonPow2 W r t) = parseDigitsSpec r t := by
  split
  · rename_i h; exact parsePow2_spec W r h hr hrW t
  · exact parseNonPow2_spec W r hr hrW t

theorem digitOf_zero {r : Nat} (hr : 0 < r) : digitOf r 48 = some 0 := by
  simp [digitOf, alnumVal, hr]

theorem parseDigitsSpec_stripZeros (r : Nat) (hr : 0 < r) (src : List Nat) :
    parseDigitsSpec r (stripZeros src) = parseDigitsSpec r src := by
  induction src with
  | nil => rfl
  | cons c cs ih =>
    by_cases hc : c = 48
    · subst hc
      rw [stripZeros, ih]
      unfold parseDigitsSpec
      have : (48 :: cs).filter (· ≠ 95) = 48 :: cs.filter (· ≠ 95) := by simp
      rw [this]
      simp only [digitValues, digitOf_zero hr]
      cases digitValues r (cs.filter (· ≠ 95)) with
      | none => rfl
      | some ds => simp [ofDigits_cons]
    · unfold stripZeros
      split
      · rename_i h; simp at h; omega
      · rfl

theorem all_us_iff (src : List Nat) : src.all (· == 95) = true ↔ src.filter (· ≠ 95) = [] := by
  simp [List.filter_eq_nil_iff]

/-- `from_str_radix_no_sign` = the grammar of a number body -/
theorem parseNoSign_spec (W r : Nat) (hr : 2 ≤ r) (hrW : r < 2 ^ W) (src : List Nat) :
    parseNoSign W src r = parseBodySpec r src := by
  unfold parseNoSign parseBodySpec
  by_cases hall : src.all (· == 95) = true
  · rw [if_pos hall, (all_us_iff src).mp hall]; rfl
  · rw [if_neg hall]
    simp only []
    rw [parseCore_spec W r hr hrW, parseDigitsSpec_stripZeros r (by omega)]
    unfold parseDigitsSpec
    have hne : src.filter (· ≠ 95) ≠ [] := fun h => hall ((all_us_iff src).mpr h)
    cases hd : digitValues r (src.filter (· ≠ 95)) with
    | none => rfl
    | some ds =>
      cases ds with
      | nil =>
        exact absurd (List.length_eq_zero_iff.mp (digitValues_length hd).symm) hne
      | cons a t => rfl

/-- **`from_str_radix` (UBig and IBig) is the documented grammar as a total function**: the value
    for well-formed text, `NoDigits` / `InvalidDigit` / `UnsupportedRadix` otherwise -/
theorem parseRadix_spec (W : Nat) (hW : 36 < 2 ^ W) (signed : Bool) (s : List Nat) (r : Nat) :
    parseRadix W signed s r = parseRadixSpec signed s r := by
  unfold parseRadix parseRadixSpec
  by_cases hv : validRadix r = true
  · have := validRadix_iff.mp hv
    simp only [hv, Bool.not_true, Bool.false_eq_true, if_false]
    rw [parseNoSign_spec W r this.1 (by omega)]
  · simp [hv]

theorem parsePrefixNoSign_spec (W : Nat) (hW : 36 < 2 ^ W) (src : List Nat) (dflt : Nat) :
    parsePrefixNoSign W src dflt =
      (if !validRadix (splitPrefix dflt src).1 then .error .unsupportedRadix
       else (parseBodySpec (splitPrefix dflt src).1 (splitPrefix dflt src).2).map
          (fun n => (n, (splitPrefix dflt src).1))) := by
  have h2 : (2 : Nat) < 2 ^ W := by omega
  have h8 : (8 : Nat) < 2 ^ W := by omega
  have h16 : (16 : Nat) < 2 ^ W := by omega
  unfold parsePrefixNoSign
  split
  · simp [splitPrefix, validRadix, parseNoSign_spec W 2 (by omega) h2]
  · simp [splitPrefix, validRadix, parseNoSign_spec W 8 (by omega) h8]
  · simp [splitPrefix, validRadix, parseNoSign_spec W 16 (by omega) h16]
  · rename_i hb ho hx
    have hsp : splitPrefix dflt src = (dflt, src) := by
      unfold splitPrefix
      split
      · exact absurd rfl (hb _)
      · exact absurd rfl (ho _)
      · exact absurd rfl (hx _)
      · rfl
    rw [hsp]
    by_cases hv : validRadix dflt = true
    · have := validRadix_iff.mp hv
      simp only [hv, Bool.not_true, Bool.false_eq_true, if_false]
      rw [parseNoSign_spec W dflt this.1 (by omega)]
    · simp [hv]

/-- **`from_str_with_radix_default` / `_prefix` is the documented grammar** -/
theorem parseDefault_spec (W : Nat) (hW : 36 < 2 ^ W) (signed : Bool) (s : List Nat) (dflt : Nat) :
    parseDefault W signed s dflt = parseDefaultSpec signed s dflt := by
  unfold parseDefault parseDefaultSpec
  simp only []
  rw [parsePrefixNoSign_spec W hW]
  split
  · rfl
  · cases parseBodySpec (splitPrefix dflt (splitSign signed s).2).1 (splitPrefix dflt (splitSign signed s).2).2 <;> rfl

-- ---------------------------------------------------------------- formatting

theorem rawToAscii_eq (c : DigitCase) (up : Bool) (d : Nat)
    (h : c = .noLetters ∧ d < 10 ∨ c = .lower ∧ up = false ∨ c = .upper ∧ up = true) :
    rawToAscii c d = digitChar up d := by
  unfold rawToAscii digitChar
  rcases h with ⟨hc, hd⟩ | ⟨hc, hu⟩ | ⟨hc, hu⟩
  · subst hc; simp [hd]; omega
  · subst hc; subst hu
    by_cases hd : d < 10
    · have : ¬ 10 ≤ d := by omega
      simp [hd, this]; omega
    · have : 10 ≤ d := by omega
      simp [hd, this, DigitCase.offset]; omega
  · subst hc; subst hu
    by_cases hd : d < 10
    · have : ¬ 10 ≤ d := by omega
      simp [hd, this]; omega
    · have : 10 ≤ d := by omega
      simp [hd, this, DigitCase.offset]; omega

/-- **every formatting trait prints `pad_integral(sign, prefix, digits)`**: exactly the reference
    digits, in the requested letter case, laid out as Rust's primitive integer formatting -/
theorem fmtModel_eq_fmtSpec (W : Nat) (t : FmtTrait) (f : FmtSpec) (z : Int)
    (hv : validRadix t.radix = true) (hW : t.radix < 2 ^ W) :
    fmtModel W t f z = fmtSpec t f z := by
  have hr := validRadix_iff.mp hv
  unfold fmtModel fmtSpec
  simp only []
  rw [rawDigits_eq W t.radix _ hr.1 hW]
  have hlt := digits_lt hr.1 z.natAbs
  have hneg : (0 ≤ z) = ¬ (z < 0) := by simp
  have hb : decide (0 ≤ z) = !decide (z < 0) := by
    by_cases h : z < 0
    · have : ¬ (0 ≤ z) := by omega
      simp [h, this]
    · have : 0 ≤ z := by omega
      simp [h, this]
  rw [hb, ← formatPrepared_eq_padIntegral]
  unfold printSpec
  have e : (if f.alt = true then ([] : List Nat) else []) = [] := by cases f.alt <;> rfl
  cases t with
  | display =>
    simp only [FmtTrait.pfx, FmtTrait.digitCase, FmtTrait.radix] at *
    rw [e]; congr 1
    apply List.map_congr_left; intro d hd
    exact rawToAscii_eq _ _ _ (Or.inl ⟨rfl, by have := hlt d hd; omega⟩)
  | binary =>
    simp only [FmtTrait.pfx, FmtTrait.digitCase, FmtTrait.radix] at *
    congr 1
    apply List.map_congr_left; intro d hd
    exact rawToAscii_eq _ _ _ (Or.inl ⟨rfl, by have := hlt d hd; omega⟩)
  | octal =>
    simp only [FmtTrait.pfx, FmtTrait.digitCase, FmtTrait.radix] at *
    congr 1
    apply List.map_congr_left; intro d hd
    exact rawToAscii_eq _ _ _ (Or.inl ⟨rfl, by have := hlt d hd; omega⟩)
  | lowerHex =>
    simp only [FmtTrait.pfx, FmtTrait.digitCase, FmtTrait.radix] at *
    congr 1
    apply List.map_congr_left; intro d _
    exact rawToAscii_eq _ _ _ (Or.inr (Or.inl ⟨rfl, rfl⟩))
  | upperHex =>
    simp only [FmtTrait.pfx, FmtTrait.digitCase, FmtTrait.radix] at *
    congr 1
    apply List.map_congr_left; intro d _
    exact rawToAscii_eq _ _ _ (Or.inr (Or.inr ⟨rfl, rfl⟩))
  | inRadix r =>
    simp only [FmtTrait.pfx, FmtTrait.digitCase, FmtTrait.radix] at *
    rw [e]; congr 1
    apply List.map_congr_left; intro d hd
    by_cases h10 : r ≤ 10
    · simp only [h10, if_true]
      exact rawToAscii_eq _ _ _ (Or.inl ⟨rfl, by have := hlt d hd; omega⟩)
    · simp only [h10, if_false]
      cases hf : f.alt
      · exact rawToAscii_eq _ _ _ (Or.inr (Or.inl ⟨by simp, rfl⟩))
      · exact rawToAscii_eq _ _ _ (Or.inr (Or.inr ⟨by simp, rfl⟩))

/-- **print → parse round trip of the model**: `in_radix(r)` Display (lower case), `{:#}` (upper
    case) and `{:+}` text parses back to the same integer, for every radix 2..36 and every integer -/
theorem model_round_trip (W : Nat) (hW : 36 < 2 ^ W) (r : Nat) (z : Int) (up plus : Bool)
    (hv : validRadix r = true) :
    parseRadix W true (fmtModel W (.inRadix r) { alt := up, plus := plus } z) r = .ok z := by
  have hr := validRadix_iff.mp hv
  rw [parseRadix_spec W hW, fmtModel_eq_fmtSpec W (.inRadix r) _ _ hv (by simp only [FmtTrait.radix]; omega)]
  unfold fmtSpec padIntegral
  simp only [FmtTrait.radix, List.length_nil]
  by_cases hz : z < 0
  · have h0 : ¬ (0 ≤ z) := by omega
    have := parseRadixSpec_printSpecInt true r up z hv (Or.inl rfl)
    unfold printSpecInt at this
    simp only [hz, if_true] at this
    simpa [h0] using this
  · have h0 : 0 ≤ z := by omega
    cases plus
    · have := parseRadixSpec_printSpecInt true r up z hv (Or.inl rfl)
      unfold printSpecInt at this
      simp only [hz, if_false] at this
      simpa [h0] using this
    · have := parseRadixSpec_plus true r up z.natAbs hv
      have hna : (z.natAbs : Int) = z := Int.natAbs_of_nonneg h0
      rw [hna] at this
      simpa [h0] using this

/-- the same for `UBig` (no `-` sign accepted) -/
theorem model_round_trip_unsigned (W : Nat) (hW : 36 < 2 ^ W) (r n : Nat) (up plus : Bool)
    (hv : validRadix r = true) :
    parseRadix W false (fmtModel W (.inRadix r) { alt := up, plus := plus } (n : Int)) r = .ok (n : Int) := by
  have hr := validRadix_iff.mp hv
  rw [parseRadix_spec W hW, fmtModel_eq_fmtSpec W (.inRadix r) _ _ hv (by simp only [FmtTrait.radix]; omega)]
  unfold fmtSpec padIntegral
  simp only [FmtTrait.radix, List.length_nil]
  have h0 : (0 : Int) ≤ n := by omega
  cases plus
  · have := parseRadixSpec_printSpecInt false r up n hv (Or.inr h0)
    unfold printSpecInt at this
    have hz : ¬ ((n : Int) < 0) := by omega
    simp only [hz, if_false] at this
    simpa [h0] using this
  · have := parseRadixSpec_plus false r up n hv
    simpa [h0] using this

end Dashu.Model.Text
