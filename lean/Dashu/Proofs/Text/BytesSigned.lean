import Dashu.Proofs.Text.BytesModel
/-
  convert.rs, signed side: `to_signed_le_bytes` (inline path, heap path with `sub_one_in_place`,
  flipped `words_to_le_bytes::<true>` and the `resize` of fix dcc404d) equals the two's complement
  specification `signedLeBytesSpec`, for every integer and every word size that is a multiple of 8.
-/
namespace Dashu.Model.Text
open Dashu.Model (val IsWords subOne subOne_spec val_lt)

/-- the top bit of the top byte is set iff the bit length is a multiple of 8 -/
theorem top_bit_iff {n : Nat} (hn : n ≠ 0) : bitLen n % 8 = 0 ↔ 2 ^ (8 * byteLen n - 1) ≤ n := by
  have hb := bitLen_spec hn
  have hb1 := bitLen_pos hn
  have hbl : byteLen n = (bitLen n - 1) / 8 + 1 := by
    have h0 : bitLen n ≠ 0 := by omega
    unfold byteLen ceilDiv; rw [if_neg h0]
  constructor
  · intro h
    have : 8 * byteLen n = bitLen n := by omega
    rw [this]; exact hb.1
  · intro h
    by_contra hne
    have : bitLen n ≤ 8 * byteLen n - 1 := by omega
    have := Nat.pow_le_pow_right (by omega : 0 < 2) this
    omega

/-- complement within `k` digits: the digits of `r^k - 1 - x` are `r - 1 - digit` -/
theorem digitsPadLE_compl (r k x : Nat) (hr : 1 ≤ r) (hx : x < r ^ k) :
    digitsPadLE r k (r ^ k - 1 - x) = (digitsPadLE r k x).map (fun d => r - 1 - d) := by
  induction k generalizing x with
  | zero => rfl
  | succ k ih =>
    rw [digitsPadLE_succ, digitsPadLE_succ, List.map_cons]
    have hp : 0 < r ^ k := Nat.pow_pos hr
    have hxr : x / r < r ^ k := by
      rw [Nat.div_lt_iff_lt_mul hr]; rw [pow_succ] at hx; exact hx
    have hxm := Nat.mod_lt x hr
    have hdm := Nat.div_add_mod x r
    -- r^(k+1) - 1 - x = r * (r^k - 1 - x / r) + (r - 1 - x % r)
    have e : r ^ (k + 1) - 1 - x = r * (r ^ k - 1 - x / r) + (r - 1 - x % r) := by
      have h1 : r ^ (k + 1) = r * r ^ k := by rw [pow_succ, Nat.mul_comm]
      have h2 : r * (r ^ k - 1 - x / r) = r * r ^ k - r - r * (x / r) := by
        rw [Nat.mul_sub, Nat.mul_sub, Nat.mul_one]
      have h3 : r * (x / r) + r ≤ r * r ^ k := by
        have : x / r + 1 ≤ r ^ k := hxr
        calc r * (x / r) + r = r * (x / r + 1) := by ring
          _ ≤ r * r ^ k := Nat.mul_le_mul_left _ this
      rw [h1, h2]; omega
    have hlt : r - 1 - x % r < r := by omega
    rw [e, Nat.mul_add_mod, Nat.mod_eq_of_lt hlt, Nat.mul_add_div hr, Nat.div_eq_of_lt hlt, Nat.add_zero,
      ih _ hxr]

/-- a list of `L` words is the fixed-width representation of its value -/
theorem words_eq_digitsPadLE (W : Nat) (ws : List Nat) (h : IsWords W ws) :
    ws = digitsPadLE (2 ^ W) ws.length (val W ws) := by
  induction ws with
  | nil => rfl
  | cons w ws ih =>
    have hw : w < 2 ^ W := h w (by simp)
    have hws : IsWords W ws := fun x hx => h x (by simp [hx])
    have hp : 0 < 2 ^ W := Nat.pow_pos (by omega)
    simp only [List.length_cons, digitsPadLE_succ, val]
    rw [Nat.add_mul_mod_self_left, Nat.mod_eq_of_lt hw, Nat.add_comm w, Nat.mul_add_div hp,
      Nat.div_eq_of_lt hw, Nat.add_zero, ← ih hws]

theorem isWords_wordsOf (W n : Nat) (hW : 1 ≤ W) : IsWords W (wordsOf W n) := by
  intro w hw
  unfold wordsOf at hw
  rw [List.mem_reverse] at hw
  exact digitsAux_lt (two_le_two_pow hW) n w hw

theorem val_wordsOf (W n : Nat) (hW : 1 ≤ W) : val W (wordsOf W n) = n := by
  rw [val_eq_ofDigitsLE]
  unfold wordsOf
  rw [ofDigitsLE_reverse]
  exact ofDigits_digitsAux (two_le_two_pow hW) n

theorem byteLen_lt (m : Nat) : m < 256 ^ byteLen m := by
  by_cases hm : m = 0
  · subst hm; simp
  · exact (byteLen_spec hm).2.1

theorem byteLen_mono {a b : Nat} (h : a ≤ b) : byteLen a ≤ byteLen b := by
  by_cases ha : a = 0
  · subst ha; simp [byteLen, bitLen, ceilDiv]
  · have hb : b ≠ 0 := by omega
    have h1 := (byteLen_spec ha).2.2
    have h2 := byteLen_lt b
    by_contra hne
    have : byteLen b ≤ byteLen a - 1 := by omega
    have := Nat.pow_le_pow_right (by omega : 0 < 256) this
    omega

theorem flatMap_map_compl (f : Nat → List Nat) (g : Nat → Nat) (l : List Nat) :
    l.flatMap (fun w => (f w).map g) = (l.flatMap f).map g := by
  induction l with
  | nil => rfl
  | cons a l ih => simp [List.flatMap_cons, ih]

/-- **the heap path of `to_signed_le_bytes(negate = true)`**: flipped bytes of `n - 1`, padded with
    `0xff` to the byte length of `n` (fix dcc404d) = the `byteLen n` low bytes of `256^L - n` -/
theorem negLarge_eq (k n : Nat) (hk : 1 ≤ k) (hn : n ≠ 0) :
    (wordsToLeBytes (8 * k) true (subOne (8 * k) (wordsOf (8 * k) n)).1).take
        ((wordsOf (8 * k) n).length * (8 * k / 8) - lzWord (8 * k) ((wordsOf (8 * k) n).getLastD 0) / 8) ++
      List.replicate (((wordsOf (8 * k) n).length * (8 * k / 8) - lzWord (8 * k) ((wordsOf (8 * k) n).getLastD 0) / 8) -
        (wordsToLeBytes (8 * k) true (subOne (8 * k) (wordsOf (8 * k) n)).1).length) 255 =
      digitsPadLE 256 (byteLen n) (256 ^ byteLen n - n) := by
  generalize hwords : wordsOf (8 * k) n = words
  have hW : 1 ≤ 8 * k := by omega
  have hK : 8 * k / 8 = k := by omega
  have e256 : (2 : Nat) ^ (8 * k) = 256 ^ k := (pow256 k).symm
  obtain ⟨hw, hlast⟩ := wordsOf_eq (8 * k) n hW
  obtain ⟨hl1, hl0, hllt, hL1⟩ := hlast hn
  have hisw := isWords_wordsOf (8 * k) n hW
  have hval := val_wordsOf (8 * k) n hW
  rw [hwords] at hw hl1 hl0 hllt hL1 hisw hval
  -- n - 1 as words
  obtain ⟨hs1, hs2, hs3, hs4⟩ := subOne_spec (8 * k) words hisw
  have hvlt := val_lt (8 * k) (subOne (8 * k) words).1 hs3
  have hborrow : (subOne (8 * k) words).2 = 0 := by
    by_contra hne
    have h1 : (subOne (8 * k) words).2 = 1 := by omega
    rw [h1, hval, Nat.mul_one] at hs1
    rw [hs2] at hvlt
    omega
  rw [hborrow, Nat.mul_zero, Nat.add_zero, hval] at hs1
  generalize hws' : (subOne (8 * k) words).1 = ws' at *
  generalize hL : words.length = L at *
  have hM : val (8 * k) ws' = n - 1 := by omega
  have hrepr := words_eq_digitsPadLE (8 * k) ws' hs3
  rw [hs2, hM] at hrepr
  -- byte length of n
  generalize hlastdef : words.getLastD 0 = last at *
  have hbl : bitLen last ≤ 8 * k := bitLen_le_iff.mpr hllt
  have hlen : L * (8 * k / 8) - lzWord (8 * k) last / 8 = k * (L - 1) + byteLen last := by
    unfold lzWord; rw [hK]
    have := byteLen_eq k (bitLen last) hbl
    unfold byteLen
    have hL' : L * k = k * (L - 1) + k := by
      obtain ⟨j, rfl⟩ : ∃ j, L = j + 1 := ⟨L - 1, by omega⟩
      simp [Nat.mul_comm, Nat.mul_succ]
    rw [hL']
    have hle : (8 * k - bitLen last) / 8 ≤ k := by omega
    omega
  have hdm := Nat.div_add_mod n ((2 ^ (8 * k)) ^ (L - 1))
  have hp : 0 < (2 ^ (8 * k)) ^ (L - 1) := Nat.pow_pos (Nat.pow_pos (by omega))
  have hmod := Nat.mod_lt n hp
  have hbytes : byteLen n = k * (L - 1) + byteLen last := by
    have hbn : bitLen n = 8 * k * (L - 1) + bitLen last := by
      rw [two_pow_mul] at hdm hmod hl1
      have := bitLen_words (8 * k) (L - 1) last hl0 (n % 2 ^ (8 * k * (L - 1))) hmod
      rw [← this]; congr 1
      rw [hl1]; rw [Nat.mul_comm] at hdm; exact hdm.symm
    unfold byteLen ceilDiv
    have hb1 := bitLen_pos hl0
    have h0 : bitLen n ≠ 0 := by omega
    have h0' : bitLen last ≠ 0 := by omega
    simp only [h0, h0', if_false]
    rw [hbn]
    have : 8 * k * (L - 1) = 8 * (k * (L - 1)) := by ring
    rw [this]; omega
  rw [hlen, ← hbytes]
  -- the flipped bytes of n - 1
  have hws'len : ws'.length = L := hs2
  have hlast' : ws'.getLastD 0 = (n - 1) / (2 ^ (8 * k)) ^ (L - 1) ∧ ws'.getLastD 0 < 2 ^ (8 * k) := by
    obtain ⟨j, hj⟩ : ∃ j, L = j + 1 := ⟨L - 1, by omega⟩
    rw [hrepr, hj, Nat.add_sub_cancel]
    rw [digitsPadLE_eq_range, List.range_succ, List.map_append]
    simp only [List.map_cons, List.map_nil]
    rw [List.getLastD_eq_getLast?, List.getLast?_append]
    simp only [List.getLast?_singleton, Option.some_or, Option.getD_some]
    exact ⟨Nat.mod_eq_of_lt (by
      have : n - 1 < (2 ^ (8 * k)) ^ (j + 1) := by
        have := hvlt; rw [hws'len, hj, hM, ← two_pow_mul] at this; exact this
      rw [Nat.div_lt_iff_lt_mul (Nat.pow_pos (Nat.pow_pos (by omega)))]
      rw [pow_succ, Nat.mul_comm] at this; exact this), Nat.mod_lt _ (Nat.pow_pos (by omega))⟩
  generalize hlast'def : ws'.getLastD 0 = last' at *
  have hcompl : ∀ w, w < 2 ^ (8 * k) → wordLeBytes (8 * k) (notWord (8 * k) w) =
      (wordLeBytes (8 * k) w).map (fun d => 256 - 1 - d) := by
    intro w hwlt
    unfold wordLeBytes notWord
    rw [hK, e256]
    rw [e256] at hwlt
    exact digitsPadLE_compl 256 k w (by omega) hwlt
  have hb : wordsToLeBytes (8 * k) true ws' =
      (digitsPadLE 256 (k * (L - 1) + byteLen last') (n - 1)).map (fun d => 256 - 1 - d) := by
    unfold wordsToLeBytes
    simp only [hws'len, hlast'def, if_true]
    have h1 : (ws'.take (L - 1)).flatMap (fun w => wordLeBytes (8 * k) (notWord (8 * k) w)) =
        (digitsPadLE 256 (k * (L - 1)) (n - 1)).map (fun d => 256 - 1 - d) := by
      have hcong : (ws'.take (L - 1)).flatMap (fun w => wordLeBytes (8 * k) (notWord (8 * k) w)) =
          (ws'.take (L - 1)).flatMap (fun w => (wordLeBytes (8 * k) w).map (fun d => 256 - 1 - d)) := by
        apply flatMap_congr'
        intro w hwm
        exact hcompl w (hs3 w (List.mem_of_mem_take hwm))
      rw [hcong, flatMap_map_compl]
      congr 1
      rw [hrepr, take_digitsPadLE _ _ _ _ (by omega)]
      unfold wordLeBytes
      rw [hK, e256, flatMap_digitsPadLE]
    have hbl' : bitLen last' ≤ 8 * k := bitLen_le_iff.mpr hlast'.2
    have h2 : (wordLeBytes (8 * k) (notWord (8 * k) last')).take (8 * k / 8 - lzWord (8 * k) last' / 8) =
        (digitsPadLE 256 (byteLen last') last').map (fun d => 256 - 1 - d) := by
      rw [hcompl last' hlast'.2, ← List.map_take]
      congr 1
      unfold wordLeBytes lzWord
      rw [hK]
      have : k - (8 * k - bitLen last') / 8 = byteLen last' := byteLen_eq k (bitLen last') hbl'
      rw [this, take_digitsPadLE _ _ _ _ (by rw [← this]; omega)]
    rw [h1, h2, ← List.map_append]
    congr 1
    rw [digitsPadLE_add, hlast'.1, e256, ← pow_mul]
  -- lengths
  have hmono : byteLen last' ≤ byteLen last := by
    apply byteLen_mono
    rw [hlast'.1, hl1]
    exact Nat.div_le_div_right (by omega)
  generalize hbdef : wordsToLeBytes (8 * k) true ws' = b at *
  have hblen : b.length = k * (L - 1) + byteLen last' := by rw [hb, List.length_map, digitsPadLE_length]
  have hj_le : b.length ≤ byteLen n := by rw [hblen, hbytes]; omega
  rw [List.take_of_length_le hj_le, hblen]
  -- M < 256^j
  have hMlt : n - 1 < 256 ^ (k * (L - 1) + byteLen last') := by
    have h1 := byteLen_lt last'
    have hdm' := Nat.div_add_mod (n - 1) (256 ^ (k * (L - 1)))
    have hp' : 0 < 256 ^ (k * (L - 1)) := Nat.pow_pos (by omega)
    have hmod' := Nat.mod_lt (n - 1) hp'
    have hq : (n - 1) / 256 ^ (k * (L - 1)) = last' := by rw [hlast'.1, e256, ← pow_mul]
    rw [hq] at hdm'
    rw [pow_add]
    calc n - 1 = 256 ^ (k * (L - 1)) * last' + (n - 1) % 256 ^ (k * (L - 1)) := hdm'.symm
      _ < 256 ^ (k * (L - 1)) * (last' + 1) := by rw [Nat.mul_add, Nat.mul_one]; omega
      _ ≤ 256 ^ (k * (L - 1)) * 256 ^ byteLen last' := Nat.mul_le_mul_left _ (by omega)
  have hnlt := byteLen_lt n
  -- the specification side
  have hspec : 256 ^ byteLen n - n = 256 ^ byteLen n - 1 - (n - 1) := by omega
  have hMlt' : n - 1 < 256 ^ byteLen n := by omega
  rw [hspec, digitsPadLE_compl 256 _ _ (by omega) hMlt']
  obtain ⟨d, hd⟩ : ∃ d, byteLen n = (k * (L - 1) + byteLen last') + d := ⟨byteLen n - (k * (L - 1) + byteLen last'), by omega⟩
  rw [hd, Nat.add_sub_cancel_left, digitsPadLE_add, List.map_append, hb, Nat.div_eq_of_lt hMlt]
  congr 1
  have hz : digitsPadLE 256 d 0 = List.replicate d 0 := by
    clear hd
    induction d with
    | zero => rfl
    | succ d ih => simp [digitsPadLE, ih, List.replicate_succ]
  rw [hz, List.map_replicate]

/-- the sign-extension test of `to_signed_le_bytes` (`leading_zeros % 8 == 0`) asks whether the bit
    length is a multiple of 8 -/
theorem lz_mod8 (k n : Nat) (hk : 1 ≤ k) (hn : n ≠ 0) :
    ((if n < 2 ^ (2 * (8 * k)) then lzWord (2 * (8 * k)) n else lzWord (8 * k) ((wordsOf (8 * k) n).getLastD 0)) % 8 = 0)
      ↔ bitLen n % 8 = 0 := by
  split
  · rename_i h
    have := bitLen_le_iff.mpr h
    unfold lzWord; omega
  · rename_i h
    obtain ⟨hw, hlast⟩ := wordsOf_eq (8 * k) n (by omega)
    obtain ⟨hl1, hl0, hllt, hL1⟩ := hlast hn
    generalize hL : (wordsOf (8 * k) n).length = L at *
    generalize hlastdef : (wordsOf (8 * k) n).getLastD 0 = last at *
    have hbl : bitLen last ≤ 8 * k := bitLen_le_iff.mpr hllt
    have hp : 0 < (2 ^ (8 * k)) ^ (L - 1) := Nat.pow_pos (Nat.pow_pos (by omega))
    have hdm := Nat.div_add_mod n ((2 ^ (8 * k)) ^ (L - 1))
    have hmod := Nat.mod_lt n hp
    have hbn : bitLen n = 8 * k * (L - 1) + bitLen last := by
      rw [two_pow_mul] at hdm hmod hl1
      have := bitLen_words (8 * k) (L - 1) last hl0 (n % 2 ^ (8 * k * (L - 1))) hmod
      rw [← this]; congr 1
      rw [hl1]; rw [Nat.mul_comm] at hdm; exact hdm.symm
    have : 8 * k * (L - 1) = 8 * (k * (L - 1)) := by ring
    unfold lzWord; omega

theorem negSmall_eq (k n : Nat) (hk : 1 ≤ k) (hn : n ≠ 0) (hlt : n < 2 ^ (2 * (8 * k))) :
    (wordLeBytes (2 * (8 * k)) ((notWord (2 * (8 * k)) n + 1) % 2 ^ (2 * (8 * k)))).take
      (2 * (8 * k) / 8 - lzWord (2 * (8 * k)) n / 8) = digitsPadLE 256 (byteLen n) (256 ^ byteLen n - n) := by
  have hK : 2 * (8 * k) / 8 = 2 * k := by omega
  have hbl : bitLen n ≤ 2 * (8 * k) := bitLen_le_iff.mpr hlt
  have e1 : (notWord (2 * (8 * k)) n + 1) % 2 ^ (2 * (8 * k)) = 2 ^ (2 * (8 * k)) - n := by
    unfold notWord
    have : 2 ^ (2 * (8 * k)) - 1 - n + 1 = 2 ^ (2 * (8 * k)) - n := by omega
    rw [this]; exact Nat.mod_eq_of_lt (by omega)
  rw [e1]
  unfold wordLeBytes lzWord
  rw [hK]
  have hbytes : 2 * k - (2 * (8 * k) - bitLen n) / 8 = byteLen n := by
    have := byteLen_eq (2 * k) (bitLen n) (by omega)
    unfold byteLen; rw [← this]; congr 3; omega
  rw [hbytes, take_digitsPadLE _ _ _ _ (by rw [← hbytes]; omega)]
  -- same residue modulo 256^L
  rw [← digitsPadLE_mod, ← digitsPadLE_mod 256 _ (256 ^ byteLen n - n)]
  congr 1
  have hL : byteLen n ≤ 2 * k := by rw [← hbytes]; omega
  obtain ⟨d, hd⟩ : ∃ d, 2 * k = byteLen n + d := ⟨2 * k - byteLen n, by omega⟩
  have e2 : (2 : Nat) ^ (2 * (8 * k)) = 256 ^ byteLen n * 256 ^ d := by
    rw [← pow_add, ← hd, pow256]; congr 1; ring
  have hnlt := byteLen_lt n
  have hpd : 1 ≤ 256 ^ d := Nat.pow_pos (by omega)
  have e3 : 256 ^ byteLen n * 256 ^ d - n = 256 ^ byteLen n * (256 ^ d - 1) + (256 ^ byteLen n - n) := by
    rw [Nat.mul_sub, Nat.mul_one]
    have : 256 ^ byteLen n ≤ 256 ^ byteLen n * 256 ^ d := Nat.le_mul_of_pos_right _ hpd
    omega
  rw [e2, e3, Nat.mul_add_mod]

/-- **`IBig::to_le_bytes` = the two's complement specification**, every integer, every word size `8k` -/
theorem ibigToLeBytes_eq (W : Nat) (h8 : 8 ∣ W) (hW : 8 ≤ W) (z : Int) :
    ibigToLeBytes W z = signedLeBytesSpec z := by
  obtain ⟨k, rfl⟩ := h8
  have hk : 1 ≤ k := by omega
  unfold ibigToLeBytes toSignedLeBytes signedLeBytesSpec
  simp only []
  by_cases hn : z.natAbs = 0
  · simp [hn]
  · rw [if_neg hn, if_neg hn]
    have htop := top_bit_iff hn
    have hlz := lz_mod8 k z.natAbs hk hn
    generalize z.natAbs = n at *
    by_cases hz : z < 0
    · simp only [hz, decide_true, if_true]
      have hbytes : (if n < 2 ^ (2 * (8 * k)) then
            (wordLeBytes (2 * (8 * k)) ((notWord (2 * (8 * k)) n + 1) % 2 ^ (2 * (8 * k)))).take
              (2 * (8 * k) / 8 - lzWord (2 * (8 * k)) n / 8)
          else
            (wordsToLeBytes (8 * k) true (subOne (8 * k) (wordsOf (8 * k) n)).1).take
                ((wordsOf (8 * k) n).length * (8 * k / 8) - lzWord (8 * k) ((wordsOf (8 * k) n).getLastD 0) / 8) ++
              List.replicate (((wordsOf (8 * k) n).length * (8 * k / 8) - lzWord (8 * k) ((wordsOf (8 * k) n).getLastD 0) / 8) -
                (wordsToLeBytes (8 * k) true (subOne (8 * k) (wordsOf (8 * k) n)).1).length) 255) =
          digitsPadLE 256 (byteLen n) (256 ^ byteLen n - n) := by
        split
        · rename_i h; exact negSmall_eq k n hk hn h
        · exact negLarge_eq k n hk hn
      rw [hbytes]
      by_cases h8 : bitLen n % 8 = 0
      · rw [if_pos (hlz.mpr h8), if_pos (htop.mp h8)]
      · rw [if_neg (fun h => h8 (hlz.mp h)), if_neg (fun h => h8 (htop.mpr h))]; simp
    · simp only [hz, decide_false, Bool.false_eq_true, if_false]
      rw [toLeBytes_eq (8 * k) n ⟨k, rfl⟩ hW, leBytesSpec_eq]
      by_cases h8 : bitLen n % 8 = 0
      · rw [if_pos (hlz.mpr h8), if_pos (htop.mp h8)]
      · rw [if_neg (fun h => h8 (hlz.mp h)), if_neg (fun h => h8 (htop.mpr h))]; simp

theorem ibigToBeBytes_eq (W : Nat) (h8 : 8 ∣ W) (hW : 8 ≤ W) (z : Int) :
    ibigToBeBytes W z = (signedLeBytesSpec z).reverse := by
  unfold ibigToBeBytes; rw [ibigToLeBytes_eq W h8 hW]

end Dashu.Model.Text
