import Dashu.Proofs.Text.FloatSci
import Dashu.Proofs.Text.FloatGrammar
/-
  C08 — the text of the scientific formats (`fmt_round_scientific`: `LowerExp`, `UpperExp`, `Binary`,
  `Octal`, `LowerHex`, `UpperHex`, the hexadecimal form `0xh.hhp±e` of base 2) is a literal of the
  documented grammar and parses back — `Repr::from_str_native`, same base — to exactly the value shown.
-/
namespace Dashu.Model.Text
open Dashu.Model.Float

theorem isScaleMarker_hexdigit (up : Bool) (d : Nat) (hd : d < 16) :
    isScaleMarker 2 true (digitChar up d) = false := by
  have hc := digitChar_cases up d (by omega)
  unfold isScaleMarker
  simp; omega

/-- a non-empty string of digit characters is a digit string of the grammar -/
theorem chkDigits_chars (radix : Nat) (hr : radix ≤ 36) (up : Bool) (ds : List Nat) (hds : ∀ d ∈ ds, d < radix)
    (hne : ds ≠ []) (ae : Bool) : chkDigits radix (chars up ds) ae = .ok ds := by
  have h36 : ∀ d ∈ ds, d < 36 := fun d hd => by have := hds d hd; omega
  have hf := filter_us_map up ds h36
  have hcne : chars up ds ≠ [] := fun h => hne (chars_eq_nil.mp h)
  unfold chkDigits digitsOnly
  rw [if_neg hcne]
  have hall : ¬ ((chars up ds).all (· == 95) = true) := by
    rw [all_us_iff]; unfold chars; rw [hf]; exact hcne
  rw [if_neg hall]
  unfold chars
  rw [hf, digitValues_map radix up hr ds hds]

/-- the radix of the digits of a literal and the number of base-`B` digits each of them stands for -/
theorem litRadix_le (B : Nat) (hB : B ≤ 36) (hex : Bool) : (if hex then 16 else B) ≤ 36 := by
  cases hex <;> simp <;> omega

/-- **a scientific literal is read exactly**: `[sign] [0x] int [. frac] marker decimal` — `int` non-empty,
    digits of the radix (16 behind the prefix, base 2 only; else `B`), `marker` any scale marker of the
    base, the exponent any `isize` — is accepted by the documented grammar with the value
    `literalValue` (`±(int ++ frac)_radix · B^(z − |frac|·k)`, precision `(|int| + |frac|)·k`) -/
theorem spec_sci_literal (B : Nat) (hB : validRadix B = true) (up hex : Bool) (hhex : hex = true → B = 2)
    (sign : Option Bool) (di fd : List Nat) (c : Nat) (z : Int)
    (hc : isScaleMarker B hex c = true)
    (hdi : ∀ d ∈ di, d < (if hex then 16 else B)) (hfd : ∀ d ∈ fd, d < (if hex then 16 else B))
    (hne : di ≠ []) (hlo : -(2 ^ 63 : Int) ≤ z) (hhi : z < (2 ^ 63 : Int)) :
    parseFloatSpec B (signChars sign ++ ((if hex then [48, 120] else []) ++
        (chars up di ++ fracChars up (if fd = [] then none else some fd)) ++ c :: printSpecInt 10 false z)) =
      .ok (literalValue B (if hex then 16 else B) (if hex then 4 else 1) (sign == some true) di fd z) := by
  have hr := validRadix_iff.mp hB
  have hrad := litRadix_le B hr.2 hex
  generalize hbody : chars up di ++ fracChars up (if fd = [] then none else some fd) = body
  generalize hpre : (if hex then [48, 120] else ([] : List Nat)) = pre
  generalize hes : printSpecInt 10 false z = es
  -- characters of the body: the point or a digit character
  have hbody_chars : ∀ x ∈ body, x = 46 ∨ ∃ d, d < (if hex then 16 else B) ∧ x = digitChar up d := by
    intro x hx; rw [← hbody] at hx
    rcases List.mem_append.mp hx with h | h
    · obtain ⟨d, hd, rfl⟩ := chars_mem h; exact Or.inr ⟨d, hdi d hd, rfl⟩
    · by_cases hf : fd = []
      · simp [hf, fracChars] at h
      · simp only [hf, if_false, fracChars, List.mem_cons] at h
        rcases h with h | h
        · exact Or.inl h
        · obtain ⟨d, hd, rfl⟩ := chars_mem h; exact Or.inr ⟨d, hfd d hd, rfl⟩
  have hes_chars : ∀ x ∈ es, x = 45 ∨ (48 ≤ x ∧ x ≤ 57) := by
    intro x hx; rw [← hes] at hx; exact printSpecInt10_chars z x hx
  obtain ⟨a0, dt, hdi_eq⟩ : ∃ a0 dt, di = a0 :: dt := by
    cases di with
    | nil => exact absurd rfl hne
    | cons a t => exact ⟨a, t, rfl⟩
  have hbody_head : ∃ bt, body = digitChar up a0 :: bt := by
    rw [← hbody, hdi_eq]; exact ⟨_, rfl⟩
  obtain ⟨bt, hbt⟩ := hbody_head
  -- the sign
  have hsign := stripSignF_sign sign (pre ++ body ++ c :: es) (by
    intro x hx
    cases hex with
    | true => rw [← hpre] at hx; simp at hx; subst hx; omega
    | false =>
      rw [← hpre, hbt] at hx; simp at hx; subst hx
      have := digitChar_ge up a0; omega)
  -- the marker is none of 'x' 'X'
  have hc_x : c ≠ 120 ∧ c ≠ 88 := by
    constructor <;> intro h <;> subst h <;> revert hc <;> unfold isScaleMarker <;>
      cases hex <;> (repeat' split) <;> simp
  -- the prefix flag
  have hflag : (B == 2 && hasHexPrefix (pre ++ body ++ c :: es)) = hex := by
    cases hex with
    | true =>
      rw [hhex rfl, ← hpre]; rfl
    | false =>
      rw [← hpre]
      by_cases h2 : B = 2
      · subst h2
        simp only [List.nil_append, beq_self_eq_true, Bool.true_and]
        apply hasHexPrefix_false
        intro x hx
        rcases List.mem_append.mp hx with h | h
        · rcases hbody_chars x h with h | ⟨d, hd, h⟩
          · omega
          · simp only [Bool.false_eq_true, if_false] at hd
            unfold digitChar at h; have : d < 10 := by omega
            simp [this] at h; omega
        · rcases List.mem_cons.mp h with h | h
          · subst h; exact hc_x
          · rcases hes_chars x h with h | h <;> omega
      · simp [h2]
  -- no marker inside prefix and body
  have hpb : ∀ x ∈ pre ++ body, isScaleMarker B hex x = false := by
    intro x hx
    rcases List.mem_append.mp hx with h | h
    · cases hex with
      | true =>
        rw [← hpre] at h; rw [hhex rfl]
        simp at h; rcases h with h | h <;> subst h <;> simp [isScaleMarker]
      | false => rw [← hpre] at h; simp at h
    · rcases hbody_chars x h with h | ⟨d, hd, h⟩
      · subst h; exact isScaleMarker_dot B hex
      · subst h
        cases hex with
        | true => rw [hhex rfl]; exact isScaleMarker_hexdigit up d (by simpa using hd)
        | false => exact isScaleMarker_digitChar B hr.2 up d (by simpa using hd)
  have hfind : rfindIdx (isScaleMarker B hex) (pre ++ body ++ c :: es) = some (pre ++ body).length :=
    rfindIdx_hit (pre ++ body) c es (fun x hx => isScaleMarker_dec B hex x (hes_chars x hx)) hc
  have hdrop : (pre ++ body ++ c :: es).drop ((pre ++ body).length + 1) = es := by
    rw [← List.drop_drop, List.drop_left']; rfl; rfl
  have htake : (pre ++ body ++ c :: es).take (pre ++ body).length = pre ++ body := List.take_left' rfl
  have hsrc : (stripSignF (signChars sign ++ (pre ++ body ++ c :: es))).2 = pre ++ body ++ c :: es := by rw [hsign]
  have hneg : (stripSignF (signChars sign ++ (pre ++ body ++ c :: es))).1 = (sign == some true) := by rw [hsign]
  rw [spec_ok B _ (pre ++ body).length z (by rw [hsrc, hflag]; exact hfind)
    (by rw [hsrc, hdrop, ← hes]; exact parseIsize_printSpecInt 64 z (by simpa using hlo) (by simpa using hhi))]
  rw [hsrc, hneg, hflag, htake]
  -- the body
  have hbd : (if hex then (pre ++ body).drop 2 else pre ++ body) = body := by
    cases hex <;> rw [← hpre] <;> rfl
  unfold specBody
  simp only [hbd]
  have hdine : di ≠ [] := hne
  by_cases hf : fd = []
  · subst hf
    simp only [if_true, fracChars, List.append_nil] at hbody
    subst hbody
    have hnd : (chars up di).findIdx? (· == 46) = none := findIdx?_none _ (chars_no_dot up di)
    unfold splitAtDot
    simp only [hnd, Option.isSome_none, Bool.false_and, Bool.false_eq_true, if_false]
    rw [chkDigits_chars _ hrad up di hdi hdine false, chk_nil_true]
    simp only [hdine, false_and, if_false]
  · simp only [hf, if_false, fracChars] at hbody
    subst hbody
    have hnd : (chars up di ++ 46 :: chars up fd).findIdx? (· == 46) = some (chars up di).length :=
      findIdx?_append_hit _ 46 _ (chars_no_dot up di) (by simp)
    have hlen : ¬ ((chars up di ++ 46 :: chars up fd).length = 1) := by
      have := List.length_pos_of_ne_nil hdine
      simp only [List.length_append, List.length_cons, chars_length]; omega
    unfold splitAtDot
    simp only [hnd, Option.isSome_some, Bool.true_and, hlen, decide_false, Bool.false_and, Bool.false_eq_true,
      if_false]
    have ht : (chars up di ++ 46 :: chars up fd).take (chars up di).length = chars up di := List.take_left' rfl
    have hd : (chars up di ++ 46 :: chars up fd).drop ((chars up di).length + 1) = chars up fd := by
      rw [← List.drop_drop, List.drop_left']; rfl; rfl
    rw [ht, hd, chkDigits_chars _ hrad up di hdi hdine true, chkDigits_chars _ hrad up fd hfd hf true]
    simp only [hdine, false_and, if_false]

/-- the unpadded scientific text is sign ++ [0x] ++ core -/
theorem fmtSciG_plain (B : Nat) (m : Mode) (pl : Bool) (prec : Option Nat) (upper useHex : Bool) (marker : Nat)
    (r : FRepr) :
    fmtSciG B m { plus := pl } prec upper useHex marker r =
      fSign pl r ++ ((if useHex then [48, 120] else []) ++ fmtSciCore B m prec upper useHex marker r) := by
  rw [fmtSciG_eq_parts, fmtSciPads_none B m _ prec upper useHex r rfl]
  simp [rep_zero]

/-- **scientific text, read back**: what `LowerExp` / `UpperExp` / `Binary` / `Octal` / `LowerHex` /
    `UpperHex` print (no width; with or without `+`, with or without a precision) for a finite float is
    accepted by `from_str_native` of the same base whenever the marker printed is a scale marker of the
    base and the printed exponent is an `isize`, and the float read is exactly the value shown
    (`sciShown`: the number itself without a precision, its rounding to `p0 + 1` significant digits with
    one); its precision is the number of digits shown (`×4` for hexadecimal digits) -/
theorem fmtSciG_parse (W : Nat) (hW : 36 < 2 ^ W) (B : Nat) (hB : validRadix B = true) (m : Mode)
    (prec : Option Nat) (upper useHex : Bool) (hhex : useHex = true → B = 2) (marker : Nat)
    (hmk : isScaleMarker B useHex marker = true) (plus : Bool) (r : FRepr)
    (hlo : -(2 ^ 63 : Int) ≤ sciExp B m prec upper useHex r) (hhi : sciExp B m prec upper useHex r < (2 ^ 63 : Int)) :
    ∃ (r' : FRepr) (n : Nat),
      fromStrNative W B (fmtSciG B m { plus := plus } prec upper useHex marker r) = .ok (r', n) ∧
      r'.toRat B = sciShown B m prec useHex r ∧
      (∀ p0, prec = some p0 → n = (p0 + 1) * sciK useHex) := by
  have hr := validRadix_iff.mp hB
  obtain ⟨d0, fd, htext, hd0, hfd, hlen, hval⟩ := fmtSciCore_denotes_exp B hr.1 m prec upper useHex hhex marker r
  have hrad : sciRadix B useHex = (if useHex then 16 else B) := rfl
  have hk : sciK useHex = (if useHex then 4 else 1) := rfl
  have hspec := spec_sci_literal B hB upper useHex hhex (fSignOpt plus r) [d0] fd marker
    (sciExp B m prec upper useHex r) hmk (by intro d hd; simp at hd; subst hd; rw [← hrad]; exact hd0)
    (by rw [← hrad]; exact hfd) (by simp) hlo hhi
  have hlv := literalValue_value B (if useHex then 16 else B) (if useHex then 4 else 1) hr.1
    (by rw [← hrad, ← hk]; exact sciRadix_eq_pow B useHex hhex) (fSignOpt plus r == some true) [d0] fd
    (sciExp B m prec upper useHex r)
  refine ⟨(literalValue B (if useHex then 16 else B) (if useHex then 4 else 1) (fSignOpt plus r == some true) [d0] fd
      (sciExp B m prec upper useHex r)).1,
    (literalValue B (if useHex then 16 else B) (if useHex then 4 else 1) (fSignOpt plus r == some true) [d0] fd
      (sciExp B m prec upper useHex r)).2, ?_, ?_, ?_⟩
  · rw [fromStrNative_eq_spec W hW B hB, fmtSciG_plain, htext, ← signChars_fSignOpt]
    simp only [List.append_assoc, List.singleton_append] at hspec ⊢
    exact hspec
  · rw [hlv.1]
    rw [← hrad, ← hk]
    have e1 : [d0] ++ fd = d0 :: fd := rfl
    rw [e1, mul_assoc, hval]
    obtain ⟨hs1, hs2⟩ := sciShown_sign B hr.1 m prec useHex r
    by_cases hneg : r.signif < 0
    · have : (fSignOpt plus r == some true) = true := by
        simpa using (fSignOpt_true plus r).mpr hneg
      rw [this, abs_of_neg (hs1 hneg)]; simp
    · have : (fSignOpt plus r == some true) = false := by
        have := (fSignOpt_true plus r).not.mpr hneg
        simpa using this
      rw [this, abs_of_nonneg (hs2 (by omega))]; simp
  · intro p0 hp
    rw [hlv.2, hlen p0 hp, ← hk]
    simp [Nat.add_comm]

/-- with the zero flag and right (or default) alignment, or without a width, the scientific text is
    sign ++ [0x] ++ zeros ++ core -/
theorem fmtSciG_zero_shape (B : Nat) (m : Mode) (f : FmtSpec) (prec : Option Nat) (upper useHex : Bool)
    (marker : Nat) (r : FRepr)
    (hf : (f.zero = true ∧ (f.align = some .right ∨ f.align = none)) ∨ f.width = none) :
    ∃ b : Nat, fmtSciG B m f prec upper useHex marker r =
      fSign f.plus r ++ ((if useHex then [48, 120] else []) ++ (rep b [48] ++ fmtSciCore B m prec upper useHex marker r)) := by
  cases hw : f.width with
  | none =>
    obtain ⟨a, b, c, htext, h0, _, _⟩ := fmtSciG_padding B m f prec upper useHex marker r
    obtain ⟨ha, hb, hc⟩ := h0 hw
    subst ha; subst hb; subst hc
    exact ⟨0, by rw [htext]; simp [rep_zero]⟩
  | some w =>
    rcases hf with ⟨hz, hal⟩ | hn
    · obtain ⟨a, b, c, htext, _, ha, _, _, hc, _⟩ := fmtSciG_width B m f prec upper useHex marker r w hw
      have ha0 := ha hz
      have hc0 := hc hal
      subst ha0; subst hc0
      exact ⟨b, by rw [htext]; simp [rep_zero]⟩
    · rw [hw] at hn; cases hn

/-- **zero-padded scientific text, read back**: with the zero flag (right or default alignment, any width, `+`
    or not) — or without a width — the text of the scientific formats parses back to exactly the value shown:
    the padding zeros stand between sign / `0x` and the first digit and only lengthen the integer digits -/
theorem fmtSciG_parse_padded (W : Nat) (hW : 36 < 2 ^ W) (B : Nat) (hB : validRadix B = true) (m : Mode)
    (prec : Option Nat) (upper useHex : Bool) (hhex : useHex = true → B = 2) (marker : Nat)
    (hmk : isScaleMarker B useHex marker = true) (f : FmtSpec)
    (hf : (f.zero = true ∧ (f.align = some .right ∨ f.align = none)) ∨ f.width = none) (r : FRepr)
    (hlo : -(2 ^ 63 : Int) ≤ sciExp B m prec upper useHex r) (hhi : sciExp B m prec upper useHex r < (2 ^ 63 : Int)) :
    ∃ (r' : FRepr) (n : Nat),
      fromStrNative W B (fmtSciG B m f prec upper useHex marker r) = .ok (r', n) ∧
      r'.toRat B = sciShown B m prec useHex r := by
  have hr := validRadix_iff.mp hB
  obtain ⟨b, hshape⟩ := fmtSciG_zero_shape B m f prec upper useHex marker r hf
  obtain ⟨d0, fd, htext, hd0, hfd, hlen, hval⟩ := fmtSciCore_denotes_exp B hr.1 m prec upper useHex hhex marker r
  have hrad : sciRadix B useHex = (if useHex then 16 else B) := rfl
  have hk : sciK useHex = (if useHex then 4 else 1) := rfl
  have hρ := sciRadix_ge B hr.1 useHex
  have hspec := spec_sci_literal B hB upper useHex hhex (fSignOpt f.plus r) (List.replicate b 0 ++ [d0]) fd marker
    (sciExp B m prec upper useHex r) hmk
    (by
      intro d hd
      rcases List.mem_append.mp hd with h | h
      · have := List.eq_of_mem_replicate h; rw [← hrad]; omega
      · simp at h; subst h; rw [← hrad]; exact hd0)
    (by rw [← hrad]; exact hfd) (by simp) hlo hhi
  have hlv := literalValue_value B (if useHex then 16 else B) (if useHex then 4 else 1) hr.1
    (by rw [← hrad, ← hk]; exact sciRadix_eq_pow B useHex hhex) (fSignOpt f.plus r == some true)
    (List.replicate b 0 ++ [d0]) fd (sciExp B m prec upper useHex r)
  refine ⟨(literalValue B (if useHex then 16 else B) (if useHex then 4 else 1) (fSignOpt f.plus r == some true)
      (List.replicate b 0 ++ [d0]) fd (sciExp B m prec upper useHex r)).1,
    (literalValue B (if useHex then 16 else B) (if useHex then 4 else 1) (fSignOpt f.plus r == some true)
      (List.replicate b 0 ++ [d0]) fd (sciExp B m prec upper useHex r)).2, ?_, ?_⟩
  · rw [fromStrNative_eq_spec W hW B hB, hshape, htext, ← signChars_fSignOpt, rep_zero_chars upper b]
    rw [chars_append] at hspec
    simp only [List.append_assoc, List.singleton_append] at hspec ⊢
    exact hspec
  · rw [hlv.1]
    rw [← hrad, ← hk]
    have e1 : List.replicate b 0 ++ [d0] ++ fd = List.replicate b 0 ++ (d0 :: fd) := by simp
    rw [e1, ofDigits_replicate_zero_append, mul_assoc, hval]
    obtain ⟨hs1, hs2⟩ := sciShown_sign B hr.1 m prec useHex r
    by_cases hneg : r.signif < 0
    · have : (fSignOpt f.plus r == some true) = true := by
        simpa using (fSignOpt_true f.plus r).mpr hneg
      rw [this, abs_of_neg (hs1 hneg)]; simp
    · have : (fSignOpt f.plus r == some true) = false := by
        have := (fSignOpt_true f.plus r).not.mpr hneg
        simpa using this
      rw [this, abs_of_nonneg (hs2 (by omega))]; simp

/-- the markers the formatting traits print are scale markers of their base: `e`/`E` (base 10) and `@`
    (every other base) for `LowerExp`/`UpperExp`, `b` for `Binary`, `o` for `Octal`, `h` for the
    hexadecimal traits of base 16 and `p` behind the `0x` prefix for those of base 2 -/
theorem sci_markers_accepted (B : Nat) (upper : Bool) :
    isScaleMarker B false (if B = 10 then (if upper then 69 else 101) else 64) = true ∧
    isScaleMarker 2 false 98 = true ∧ isScaleMarker 8 false 111 = true ∧ isScaleMarker 16 false 104 = true ∧
    isScaleMarker 2 true 112 = true := by
  refine ⟨?_, by decide, by decide, by decide, by decide⟩
  by_cases h : B = 10
  · subst h; cases upper <;> decide
  · simp only [h, if_false]; exact isScaleMarker_at B false

end Dashu.Model.Text
