import Dashu.Model.Text.ChunksBuf
import Dashu.Proofs.Text.ChunksWord
/-
  `to_chunks` with bounded chunk buffers (`min(ceil(chunk_bits / W), words.len()) + 1` words each,
  fix 80bcfde): no slice index, subtraction or assertion fails, and the chunks are the positional
  ones — every number, every chunk size `k ≥ 1`, every word size.
-/
namespace Dashu.Model.Text
open Dashu.Model (val IsWords val_append)
open Dashu.Model.Div (shrInPlace shrInPlace_spec)

theorem val_append_zeros (W : Nat) (l : List Nat) (m : Nat) : val W (l ++ List.replicate m 0) = val W l := by
  rw [val_append]
  have : val W (List.replicate m 0) = 0 := by
    induction m with
    | zero => rfl
    | succ m ih => simp [List.replicate_succ, ih]
  rw [this]; simp

theorem le_mul_ceilDiv (W k : Nat) (hW : 1 ≤ W) : k ≤ W * ceilDiv k W := by
  unfold ceilDiv
  by_cases h0 : k = 0
  · simp [h0]
  · simp only [h0, if_false]
    have h1 := Nat.div_add_mod (k - 1) W
    have h2 := Nat.mod_lt (k - 1) (show 0 < W by omega)
    rw [Nat.mul_add, Nat.mul_one]
    omega

theorem div_le_ceilDiv (W k : Nat) (hW : 1 ≤ W) : k / W ≤ ceilDiv k W := by
  have h := le_mul_ceilDiv W k hW
  exact Nat.div_le_of_le_mul h

/-- `(s + k) / W ≤ s / W + ceil(k / W)` -/
theorem div_add_le (W s k : Nat) (hW : 1 ≤ W) : (s + k) / W ≤ s / W + ceilDiv k W := by
  have h := le_mul_ceilDiv W k hW
  have : (s + k) / W ≤ (s + ceilDiv k W * W) / W := Nat.div_le_div_right (by rw [Nat.mul_comm]; omega)
  rwa [Nat.add_mul_div_right _ _ (show 0 < W by omega)] at this

theorem collectChunks_ok (W : Nat) (f : Nat → Except ChunkBufPanic (List Nat)) (g : Nat → Nat) (l : List Nat)
    (h : ∀ i ∈ l, ∃ buf, f i = .ok buf ∧ val W buf = g i) : collectChunks f W l = .ok (l.map g) := by
  induction l with
  | nil => rfl
  | cons i is ih =>
    obtain ⟨buf, hf, hv⟩ := h i (by simp)
    have ih' := ih (fun j hj => h j (by simp [hj]))
    simp only [collectChunks, hf, ih', hv, List.map_cons]

/-- the buffer no longer depends on `chunk_bits` alone (fix 80bcfde): at most `words.len() + 1` words -/
theorem wordPerChunk_le (W k len : Nat) : wordPerChunk W k len ≤ len ∧ wordPerChunk W k len ≤ ceilDiv k W := by
  unfold wordPerChunk; omega

theorem alignedChunkB_ok (W : Nat) (hW : 1 ≤ W) (words : List Nat) (k i bl : Nat) (hal : k % W = 0)
    (hbl : bl ≤ W * words.length) (hi : i * k < bl) :
    ∃ buf, alignedChunkB words (k / W) (wordPerChunk W k words.length + 1) i = .ok buf ∧
      val W buf = alignedChunk W words (k / W) i := by
  have hkW : k = W * (k / W) := by have := Nat.div_add_mod k W; omega
  generalize hq : k / W = q at *
  generalize hL : words.length = L at *
  have hsL : i * q < L := by
    have h1 : W * (i * q) < W * L := by
      have : W * (i * q) = i * k := by rw [hkW, Nat.mul_left_comm]
      omega
    exact Nat.lt_of_mul_lt_mul_left h1
  have hqc : q ≤ ceilDiv k W := by rw [← hq]; exact div_le_ceilDiv W k hW
  unfold alignedChunkB copyFront
  simp only [hL]
  rw [if_neg (by omega)]
  have hlen : ((words.drop (i * q)).take (min (i * q + q) L - i * q)).length = min (i * q + q) L - i * q := by
    rw [List.length_take, List.length_drop, hL]; omega
  rw [if_pos (by rw [hlen]; unfold wordPerChunk; omega)]
  refine ⟨_, rfl, ?_⟩
  rw [val_append_zeros]
  unfold alignedChunk
  simp only [hL]

theorem unalignedChunkB_ok (W : Nat) (hW : 1 ≤ W) (words : List Nat) (k i bl : Nat) (hk : 1 ≤ k)
    (hbl : bl ≤ W * words.length) (hi : i * k < bl) :
    ∃ buf, unalignedChunkB W words bl k (wordPerChunk W k words.length + 1) i = .ok buf ∧
      val W buf = unalignedChunkW W words bl k i := by
  have hWpos : 0 < W := by omega
  generalize hL : words.length = L at *
  unfold unalignedChunkB
  simp only [hL]
  generalize hs : i * k = s at *
  have hse : s < min bl (s + k) := by omega
  generalize he : min bl (s + k) = e at *
  rw [if_neg (by omega)]
  have hsp : s / W ≤ e / W := Nat.div_le_div_right (by omega)
  have hc : e / W ≤ s / W + ceilDiv k W := by
    have h1 : e / W ≤ (s + k) / W := Nat.div_le_div_right (by omega)
    have h2 := div_add_le W s k hW
    omega
  have heL : e / W ≤ L := Nat.div_le_of_le_mul (by omega)
  have hval : ∀ m, val W ((shrInPlace W (chunkCopied W words bl k i) (s % W)).1 ++ List.replicate m 0)
      = unalignedChunkW W words bl k i := by
    intro m; rw [val_append_zeros]; unfold unalignedChunkW; rw [hs]
  have hwpc : wordPerChunk W k L = min (ceilDiv k W) L := rfl
  generalize wordPerChunk W k L = wpc at *
  by_cases hb : e % W = 0
  · rw [if_neg (by omega)]
    have h1 : s / W < e / W := by
      have hdm := Nat.div_add_mod e W
      rw [Nat.div_lt_iff_lt_mul hWpos, Nat.mul_comm]; omega
    generalize e / W = ep at *
    generalize s / W = sp at *
    rw [if_neg (by omega), if_neg (by omega), if_neg (by omega)]
    exact ⟨_, rfl, hval _⟩
  · rw [if_pos hb]
    have h1 : e / W < L := by
      rw [Nat.div_lt_iff_lt_mul hWpos]
      rcases Nat.lt_or_ge e (W * L) with h2 | h2
      · rw [Nat.mul_comm]; exact h2
      · have : e = W * L := by omega
        rw [this, Nat.mul_mod_right] at hb; exact absurd rfl hb
    generalize e / W = ep at *
    generalize s / W = sp at *
    rw [if_neg (by omega), if_neg (by omega), if_neg (by omega)]
    exact ⟨_, rfl, hval _⟩

/-- **`to_chunks` with bounded chunk buffers: nothing fails, the chunks are the positional ones** -/
theorem toChunksB_eq (W n k : Nat) (hW : 1 ≤ W) (hk : 1 ≤ k) : toChunksB W n k = .ok (chunksSpec n k) := by
  have hw := toChunksW_eq W n k hW hk
  unfold toChunksW at hw
  unfold toChunksB
  rw [if_neg (by omega)] at hw ⊢
  simp only [] at hw ⊢
  have hcount : ∀ i, i < ceilDiv (bitLen n) k → i * k < bitLen n := by
    intro i hi
    unfold ceilDiv at hi
    by_cases h0 : bitLen n = 0
    · simp [h0] at hi
    · simp only [h0, if_false] at hi
      have h1 : i ≤ (bitLen n - 1) / k := by omega
      have := (Nat.le_div_iff_mul_le (by omega)).mp h1
      omega
  have hbl : bitLen n ≤ W * (wordsOf W n).length := by
    rw [wordsOf_length W n hW]; exact bitLen_le_wordLen W hW n
  by_cases hin : n < 2 ^ (2 * W)
  · rw [if_pos hin] at hw ⊢
    by_cases h0 : ceilDiv (bitLen n) k = 0
    · rw [if_pos h0] at hw ⊢; exact congrArg Except.ok (Except.ok.inj hw)
    · rw [if_neg h0] at hw ⊢
      by_cases h1 : ceilDiv (bitLen n) k = 1
      · rw [if_pos h1] at hw ⊢; exact congrArg Except.ok (Except.ok.inj hw)
      · rw [if_neg h1] at hw ⊢; exact congrArg Except.ok (Except.ok.inj hw)
  · rw [if_neg hin] at hw ⊢
    by_cases hal : k % W = 0
    · rw [if_pos hal] at hw ⊢
      rw [collectChunks_ok W _ (alignedChunk W (wordsOf W n) (k / W))]
      · exact congrArg Except.ok (Except.ok.inj hw)
      · intro i hi
        exact alignedChunkB_ok W hW _ k i (bitLen n) hal hbl (hcount i (List.mem_range.mp hi))
    · rw [if_neg hal] at hw ⊢
      rw [collectChunks_ok W _ (unalignedChunkW W (wordsOf W n) (bitLen n) k)]
      · exact congrArg Except.ok (Except.ok.inj hw)
      · intro i hi
        exact unalignedChunkB_ok W hW _ k i (bitLen n) hk hbl (hcount i (List.mem_range.mp hi))

end Dashu.Model.Text
