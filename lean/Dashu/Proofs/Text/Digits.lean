import Dashu.Model.Text.Spec
import Mathlib.Tactic.Ring
import Mathlib.Tactic.Linarith
/-
  Algebra of positional representations (`digits`, `digitsPad`, `ofDigits`) used by every C07 proof.
-/
namespace Dashu.Model.Text

theorem digitsAux_zero (r : Nat) (acc : List Nat) : digitsAux r 0 acc = acc := by
  rw [digitsAux]; simp

theorem digitsAux_step {r n : Nat} (hr : 2 ≤ r) (hn : n ≠ 0) (acc : List Nat) :
    digitsAux r n acc = digitsAux r (n / r) (n % r :: acc) := by
  rw [digitsAux]
  have : ¬(r < 2 ∨ n = 0) := by omega
  simp [this]

theorem digitsAux_acc (r : Nat) (n : Nat) (acc : List Nat) :
    digitsAux r n acc = digitsAux r n [] ++ acc := by
  induction n using Nat.strong_induction_on generalizing acc with
  | _ n ih =>
    by_cases h : r < 2 ∨ n = 0
    · have e : ∀ a, digitsAux r n a = a := by intro a; rw [digitsAux]; simp [h]
      rw [e, e []]; simp
    · have hr : 2 ≤ r := by omega
      have hn : n ≠ 0 := by omega
      rw [digitsAux_step hr hn, digitsAux_step hr hn []]
      have hlt : n / r < n := Nat.div_lt_self (by omega) (by omega)
      rw [ih _ hlt (n % r :: acc), ih _ hlt [n % r]]
      simp

theorem digitsAux_succ {r n : Nat} (hr : 2 ≤ r) (hn : n ≠ 0) :
    digitsAux r n [] = digitsAux r (n / r) [] ++ [n % r] := by
  rw [digitsAux_step hr hn, digitsAux_acc]

theorem ofDigits_nil (r : Nat) : ofDigits r [] = 0 := rfl

theorem ofDigits_append (r : Nat) (a b : List Nat) :
    ofDigits r (a ++ b) = ofDigits r a * r ^ b.length + ofDigits r b := by
  have key : ∀ (b : List Nat) (acc : Nat),
      List.foldl (fun a d => a * r + d) acc b = acc * r ^ b.length + List.foldl (fun a d => a * r + d) 0 b := by
    intro b
    induction b with
    | nil => intro acc; simp
    | cons d b ih =>
      intro acc
      simp only [List.foldl_cons, List.length_cons]
      rw [ih (acc * r + d), ih (0 * r + d)]; ring
  unfold ofDigits
  rw [List.foldl_append, key b]

theorem ofDigits_singleton (r d : Nat) : ofDigits r [d] = d := by simp [ofDigits]

theorem ofDigits_cons (r d : Nat) (ds : List Nat) :
    ofDigits r (d :: ds) = d * r ^ ds.length + ofDigits r ds := by
  have := ofDigits_append r [d] ds
  simpa [ofDigits_singleton] using this

theorem ofDigits_digitsAux {r : Nat} (hr : 2 ≤ r) (n : Nat) : ofDigits r (digitsAux r n []) = n := by
  induction n using Nat.strong_induction_on with
  | _ n ih =>
    by_cases hn : n = 0
    · subst hn; rw [digitsAux_zero]; rfl
    · rw [digitsAux_succ hr hn, ofDigits_append, ih _ (Nat.div_lt_self (by omega) (by omega))]
      simp [ofDigits_singleton]
      have := Nat.div_add_mod n r
      rw [Nat.mul_comm] at this; exact this

/-- **positional representation**: the digits of `n` evaluate to `n` -/
theorem ofDigits_digits {r : Nat} (hr : 2 ≤ r) (n : Nat) : ofDigits r (digits r n) = n := by
  unfold digits
  by_cases hn : n = 0
  · simp [hn, ofDigits]
  · simp [hn, ofDigits_digitsAux hr]

theorem digitsAux_lt {r : Nat} (hr : 2 ≤ r) (n : Nat) : ∀ d ∈ digitsAux r n [], d < r := by
  induction n using Nat.strong_induction_on with
  | _ n ih =>
    by_cases hn : n = 0
    · subst hn; rw [digitsAux_zero]; simp
    · rw [digitsAux_succ hr hn]
      intro d hd
      rcases List.mem_append.mp hd with h | h
      · exact ih _ (Nat.div_lt_self (by omega) (by omega)) d h
      · simp at h; subst h; exact Nat.mod_lt _ (by omega)

theorem digits_lt {r : Nat} (hr : 2 ≤ r) (n : Nat) : ∀ d ∈ digits r n, d < r := by
  unfold digits
  by_cases hn : n = 0
  · simp [hn]; omega
  · simp only [hn, if_false]; exact digitsAux_lt hr n

theorem digitsAux_ne_nil {r n : Nat} (hr : 2 ≤ r) (hn : n ≠ 0) : digitsAux r n [] ≠ [] := by
  rw [digitsAux_succ hr hn]; simp

theorem digits_ne_nil (r n : Nat) (hr : 2 ≤ r) : digits r n ≠ [] := by
  unfold digits
  by_cases hn : n = 0
  · simp [hn]
  · simp only [hn, if_false]; exact digitsAux_ne_nil hr hn

/-- no leading zero (except for the number zero itself) -/
theorem digitsAux_head_ne_zero {r : Nat} (hr : 2 ≤ r) (n : Nat) : (digitsAux r n []).head? ≠ some 0 := by
  induction n using Nat.strong_induction_on with
  | _ n ih =>
    by_cases hn : n = 0
    · subst hn; rw [digitsAux_zero]; simp
    · rw [digitsAux_succ hr hn]
      by_cases hq : n / r = 0
      · rw [hq, digitsAux_zero]
        have hlt : n < r := by
          rcases Nat.lt_or_ge n r with h | h
          · exact h
          · have := Nat.div_pos h (by omega : 0 < r); omega
        simp [Nat.mod_eq_of_lt hlt, hn]
      · have hne := digitsAux_ne_nil hr hq
        have := ih (n / r) (Nat.div_lt_self (Nat.pos_of_ne_zero hn) (by omega : 1 < r))
        cases h : digitsAux r (n / r) [] with
        | nil => exact absurd h hne
        | cons a t => rw [h] at this; simpa using this

-- ---------------------------------------------------------------- fixed width

theorem digitsPadLE_length (r k x : Nat) : (digitsPadLE r k x).length = k := by
  induction k generalizing x with
  | zero => rfl
  | succ k ih => simp [digitsPadLE, ih]

theorem digitsPad_length (r k x : Nat) : (digitsPad r k x).length = k := by
  simp [digitsPad, digitsPadLE_length]

theorem digitsPad_zero (r x : Nat) : digitsPad r 0 x = [] := rfl

theorem digitsPad_succ (r k x : Nat) : digitsPad r (k + 1) x = digitsPad r k (x / r) ++ [x % r] := by
  simp [digitsPad, digitsPadLE]

/-- only `x % r^k` matters -/
theorem digitsPadLE_mod (r k x : Nat) : digitsPadLE r k (x % r ^ k) = digitsPadLE r k x := by
  induction k generalizing x with
  | zero => rfl
  | succ k ih =>
    simp only [digitsPadLE]
    have h1 : x % r ^ (k + 1) % r = x % r := by
      apply Nat.mod_mod_of_dvd; exact ⟨r ^ k, by ring⟩
    have h2 : x % r ^ (k + 1) / r = (x / r) % r ^ k := by
      rw [pow_succ, Nat.mul_comm]; exact Nat.mod_mul_right_div_self x r (r ^ k)
    rw [h1, h2, ih]

theorem digitsPad_mod (r k x : Nat) : digitsPad r k (x % r ^ k) = digitsPad r k x := by
  simp [digitsPad, digitsPadLE_mod]

/-- splitting a fixed-width representation: high part, then low part -/
theorem digitsPad_add (r a b x : Nat) :
    digitsPad r (a + b) x = digitsPad r a (x / r ^ b) ++ digitsPad r b x := by
  induction b generalizing x with
  | zero => simp [digitsPad_zero]
  | succ b ih =>
    rw [← Nat.add_assoc, digitsPad_succ, digitsPad_succ, ih, List.append_assoc]
    congr 2
    rw [Nat.div_div_eq_div_mul, pow_succ, Nat.mul_comm]

theorem digitsPad_add' (r a b x : Nat) :
    digitsPad r (a + b) x = digitsPad r a (x / r ^ b) ++ digitsPad r b (x % r ^ b) := by
  rw [digitsPad_mod]; exact digitsPad_add r a b x

/-- the chunk lemma: digits of `q·r^k + t` are the digits of `q` followed by the `k` padded digits of `t` -/
theorem digitsAux_mul_add {r : Nat} (hr : 2 ≤ r) (k q t : Nat) (hq : q ≠ 0) (ht : t < r ^ k) :
    digitsAux r (q * r ^ k + t) [] = digitsAux r q [] ++ digitsPad r k t := by
  induction k generalizing t with
  | zero => simp at ht; subst ht; simp [digitsPad_zero]
  | succ k ih =>
    have hrp : 0 < r := by omega
    have hn : q * r ^ (k + 1) + t ≠ 0 := by
      have : 0 < q * r ^ (k + 1) := Nat.mul_pos (Nat.pos_of_ne_zero hq) (Nat.pow_pos hrp)
      omega
    rw [digitsAux_succ hr hn, digitsPad_succ]
    have h1 : (q * r ^ (k + 1) + t) % r = t % r := by
      rw [pow_succ, ← Nat.mul_assoc, Nat.add_comm, Nat.add_mul_mod_self_right]
    have h2 : (q * r ^ (k + 1) + t) / r = q * r ^ k + t / r := by
      rw [pow_succ, ← Nat.mul_assoc, Nat.add_comm, Nat.add_mul_div_right _ _ hrp, Nat.add_comm]
    have ht' : t / r < r ^ k := by
      rw [Nat.div_lt_iff_lt_mul hrp]; rw [pow_succ] at ht; exact ht
    rw [h1, h2, ih (t / r) ht', List.append_assoc]

theorem digitsAux_div_mod {r : Nat} (hr : 2 ≤ r) (k x : Nat) (hq : x / r ^ k ≠ 0) :
    digitsAux r x [] = digitsAux r (x / r ^ k) [] ++ digitsPad r k (x % r ^ k) := by
  have hp : 0 < r ^ k := Nat.pow_pos (by omega)
  have := digitsAux_mul_add hr k (x / r ^ k) (x % r ^ k) hq (Nat.mod_lt _ hp)
  rw [← this]; congr 1
  have := Nat.div_add_mod x (r ^ k); rw [Nat.mul_comm] at this; omega

/-- general form: any `x`, any width `k` -/
theorem digitsAux_pad {r : Nat} (hr : 2 ≤ r) (k x : Nat) :
    digitsAux r (x / r ^ k) [] ++ digitsPad r k x =
      if x / r ^ k = 0 then digitsPad r k x else digitsAux r x [] := by
  by_cases hq : x / r ^ k = 0
  · simp [hq, digitsAux_zero]
  · simp only [hq, if_false]
    rw [digitsAux_div_mod hr k x hq, digitsPad_mod]

theorem digits_of_ne_zero {r n : Nat} (hn : n ≠ 0) : digits r n = digitsAux r n [] := by
  simp [digits, hn]

/-- `digits` of a number that needs exactly `k` digits is its `k`-digit padded form -/
theorem digits_eq_digitsPad {r : Nat} (hr : 2 ≤ r) (k n : Nat) (hk : 1 ≤ k)
    (hlo : n = 0 ∧ k = 1 ∨ r ^ (k - 1) ≤ n) (hhi : n < r ^ k) : digits r n = digitsPad r k n := by
  rcases hlo with ⟨h0, h1⟩ | hlo
  · subst h0; subst h1; simp [digits, digitsPad, digitsPadLE]
  · obtain ⟨j, rfl⟩ : ∃ j, k = j + 1 := ⟨k - 1, by omega⟩
    simp only [Nat.add_sub_cancel] at hlo
    have hp : 0 < r ^ j := Nat.pow_pos (by omega)
    have hn : n ≠ 0 := by omega
    have hq : n / r ^ j ≠ 0 := by
      have := (Nat.le_div_iff_mul_le hp).mpr (by simpa using hlo : 1 * r ^ j ≤ n)
      omega
    have hq2 : n / r ^ j < r := by
      rw [Nat.div_lt_iff_lt_mul hp, Nat.mul_comm, ← pow_succ]; exact hhi
    rw [digits_of_ne_zero hn, digitsAux_div_mod hr j n hq, Nat.add_comm j 1, digitsPad_add' r 1 j n]
    congr 1
    rw [digitsAux_succ hr hq]
    have : n / r ^ j / r = 0 := Nat.div_eq_of_lt hq2
    rw [this, digitsAux_zero, digitsPad_succ, digitsPad_zero]

theorem ofDigits_digitsPad {r : Nat} (k x : Nat) : ofDigits r (digitsPad r k x) = x % r ^ k := by
  induction k generalizing x with
  | zero => simp [digitsPad_zero, ofDigits, Nat.mod_one]
  | succ k ih =>
    rw [digitsPad_succ, ofDigits_append, ih, ofDigits_singleton]
    simp only [List.length_cons, List.length_nil]
    have : x % r ^ (k + 1) = x % r + r * (x / r % r ^ k) := by
      rw [pow_succ, Nat.mul_comm (r ^ k) r]; exact Nat.mod_mul
    rw [this]; ring

/-- element-wise description of the fixed-width digits -/
theorem digitsPadLE_eq_range (r k x : Nat) :
    digitsPadLE r k x = (List.range k).map (fun i => x / r ^ i % r) := by
  induction k generalizing x with
  | zero => rfl
  | succ k ih =>
    rw [digitsPadLE, ih, List.range_succ_eq_map, List.map_cons, List.map_map]
    simp only [pow_zero, Nat.div_one]
    congr 1
    apply List.map_congr_left
    intro i _
    simp only [Function.comp]
    rw [Nat.div_div_eq_div_mul, pow_succ, Nat.mul_comm]

end Dashu.Model.Text
