import Dashu.Model.Text.BytesBE
import Dashu.Proofs.Text.BytesDecode
import Dashu.Proofs.Text.ParsePow2
import Dashu.Proofs.Text.BytesSigned
/-
  C07 — the mirrored big-endian byte functions equal the mirror-image (list reversal) model.
-/
namespace Dashu.Model.Text
open Dashu.Model (val)


theorem reverse_take_eq_drop (l : List Nat) (s : Nat) :
    (l.take (l.length - s)).reverse = l.reverse.drop s := by
  by_cases hs : s ≤ l.length
  · rw [List.reverse_take, Nat.sub_sub_self hs]
  · have h1 : l.length - s = 0 := by omega
    rw [h1, List.take_zero, List.reverse_nil, List.drop_eq_nil_of_le (by simp; omega)]

theorem reverse_flatMap' (l : List Nat) (g : Nat → List Nat) :
    (l.flatMap g).reverse = l.reverse.flatMap (fun w => (g w).reverse) := by
  induction l with
  | nil => rfl
  | cons a l ih => simp [List.flatMap_cons, ih]

theorem wordBeBytes_eq (W w : Nat) : wordBeBytes W w = (wordLeBytes W w).reverse := rfl

theorem wordLeBytes_length (W w : Nat) : (wordLeBytes W w).length = W / 8 := digitsPadLE_length _ _ _

theorem wordsToBeBytes_eq (W : Nat) (flip : Bool) (words : List Nat) :
    wordsToBeBytes W flip words = (wordsToLeBytes W flip words).reverse := by
  unfold wordsToBeBytes wordsToLeBytes
  simp only [List.reverse_append, reverse_flatMap', wordBeBytes_eq]
  congr 1
  have := reverse_take_eq_drop (wordLeBytes W (if flip then notWord W (words.getLastD 0) else words.getLastD 0))
    (lzWord W (words.getLastD 0) / 8)
  rw [wordLeBytes_length] at this
  exact this.symm

/-- the mirrored big-endian encoder equals the mirror-image model -/
theorem toBeBytesM_eq (W n : Nat) : toBeBytesM W n = toBeBytes W n := by
  unfold toBeBytesM toBeBytes toLeBytes
  by_cases h : n < 2 ^ (2 * W)
  · simp only [h, if_true]
    have := reverse_take_eq_drop (wordLeBytes (2 * W) n) (lzWord (2 * W) n / 8)
    rw [wordLeBytes_length] at this
    rw [wordBeBytes_eq]; exact this.symm
  · simp only [h, if_false]; exact wordsToBeBytes_eq W false _

theorem wordFromBePartial_eq (nbytes : Nat) (onePad : Bool) (bs : List Nat) :
    wordFromBePartial nbytes onePad bs = wordFromLePartial nbytes onePad bs.reverse := by
  unfold wordFromBePartial wordFromLePartial
  rw [← ofDigitsLE_reverse, List.reverse_append, List.reverse_replicate, List.length_reverse]

theorem chunksOf_cons_step (k : Nat) (l : List Nat) (hk : k ≠ 0) (hl : l ≠ []) :
    chunksOf k l = l.take k :: chunksOf k (l.drop k) := by
  rw [chunksOf]; simp [hk, hl]

theorem chunksOf_nil' (k : Nat) : chunksOf k [] = [] := by rw [chunksOf]; simp

/-- `rchunks_exact` + `remainder` is `chunks` of the reversed slice, each group reversed -/
theorem rchunksExact_eq (k : Nat) : ∀ (fuel : Nat) (l : List Nat), l.length ≤ fuel →
    rchunksExact k fuel l = (chunksOf k l.reverse).map List.reverse := by
  intro fuel
  induction fuel with
  | zero =>
    intro l hl
    have : l = [] := List.length_eq_zero_iff.mp (by omega)
    subst this; simp [rchunksExact, chunksOf_nil']
  | succ fuel ih =>
    intro l hl
    unfold rchunksExact
    by_cases h0 : k = 0 ∨ l = []
    · rw [if_pos h0]
      rcases h0 with h | h
      · subst h; rw [chunksOf]; simp
      · subst h; simp [chunksOf_nil']
    · rw [if_neg h0]
      have hk : k ≠ 0 := fun h => h0 (Or.inl h)
      have hl0 : l ≠ [] := fun h => h0 (Or.inr h)
      have hrl : l.reverse ≠ [] := by simpa using hl0
      rw [chunksOf_cons_step k l.reverse hk hrl]
      by_cases hle : l.length ≤ k
      · rw [if_pos hle]
        have h1 : l.reverse.take k = l.reverse := List.take_of_length_le (by simpa using hle)
        have h2 : l.reverse.drop k = [] := List.drop_eq_nil_of_le (by simpa using hle)
        rw [h1, h2, chunksOf_nil']; simp
      · rw [if_neg hle]
        have hlen : (l.take (l.length - k)).length ≤ fuel := by
          simp only [List.length_take]; omega
        rw [ih _ hlen]
        have e1 : (l.reverse.take k).reverse = l.drop (l.length - k) := by
          rw [List.take_reverse, List.reverse_reverse]
        have e2 : l.reverse.drop k = (l.take (l.length - k)).reverse := by
          rw [List.drop_reverse]
        simp only [List.map_cons, e1, e2]

theorem fromBeBytesLarge_eq (W : Nat) (neg : Bool) (bytes : List Nat) :
    fromBeBytesLarge W neg bytes = fromLeBytesLarge W neg bytes.reverse := by
  unfold fromBeBytesLarge fromLeBytesLarge
  have : (rchunksExact (W / 8) bytes.length bytes).map (fun g =>
        let w := wordFromBePartial (W / 8) neg g
        if neg then notWord W w else w) =
      (chunksOf (W / 8) bytes.reverse).map (fun g =>
        let w := wordFromLePartial (W / 8) neg g
        if neg then notWord W w else w) := by
    rw [rchunksExact_eq (W / 8) bytes.length bytes (Nat.le_refl _), List.map_map]
    apply List.map_congr_left
    intro g _
    simp [Function.comp, wordFromBePartial_eq]
  simp only [this]

/-- the mirrored big-endian decoder equals the mirror-image model -/
theorem fromBeBytesM_eq (W : Nat) (bytes : List Nat) : fromBeBytesM W bytes = fromBeBytes W bytes := by
  unfold fromBeBytesM fromBeBytes fromLeBytes
  simp only [List.length_reverse]
  by_cases h : bytes.length ≤ 2 * W / 8
  · simp only [h, if_true]; exact wordFromBePartial_eq _ _ _
  · simp only [h, if_false, fromBeBytesLarge_eq]

/-- the mirrored signed big-endian decoder equals the mirror-image model -/
theorem fromSignedBeBytesM_eq (W : Nat) (bytes : List Nat) :
    fromSignedBeBytesM W bytes = fromSignedBeBytes W bytes := by
  unfold fromSignedBeBytesM fromSignedBeBytes fromSignedLeBytes
  rw [List.getLast?_reverse]
  cases bytes.head? with
  | none => rfl
  | some top =>
    simp only [List.length_reverse]
    by_cases h1 : top < 128
    · simp only [h1, if_true, fromBeBytesM_eq]; rfl
    · simp only [h1, if_false]
      by_cases h2 : bytes.length ≤ 2 * W / 8
      · simp only [h2, if_true, wordFromBePartial_eq]
      · simp only [h2, if_false, fromBeBytesLarge_eq]


-- ---------------------------------------------------------------- signed encoder

theorem subOne_last (W : Nat) : ∀ (ws : List Nat) (a : Nat), ws.getLast? = some a → a ≠ 0 →
    (Dashu.Model.subOne W ws).1.length = ws.length ∧
    ∃ a', (Dashu.Model.subOne W ws).1.getLast? = some a' ∧ (a' = a ∨ a' = a - 1) := by
  intro ws
  induction ws with
  | nil => intro a h; simp at h
  | cons w ws ih =>
    intro a h ha
    cases ws with
    | nil =>
      simp at h; subst h
      simp [Dashu.Model.subOne, ha]
    | cons v t =>
      rw [List.getLast?_cons_cons] at h
      by_cases hw : w = 0
      · obtain ⟨hl, a', h1, h2⟩ := ih a h ha
        have hne : (Dashu.Model.subOne W (v :: t)).1 ≠ [] := by
          intro h0; rw [h0] at hl; simp at hl
        obtain ⟨x, y, hxy⟩ := List.exists_cons_of_ne_nil hne
        have e : Dashu.Model.subOne W (w :: v :: t) =
            ((2 ^ W - 1) :: (Dashu.Model.subOne W (v :: t)).1, (Dashu.Model.subOne W (v :: t)).2) := by
          rw [Dashu.Model.subOne]; simp only [hw, if_true]
        rw [e]
        refine ⟨by simp [hl], a', ?_, h2⟩
        show ((2 ^ W - 1) :: (Dashu.Model.subOne W (v :: t)).1).getLast? = some a'
        rw [hxy, List.getLast?_cons_cons, ← hxy]; exact h1
      · simp only [Dashu.Model.subOne, hw, if_false]
        exact ⟨by simp, a, by rw [List.getLast?_cons_cons]; exact h, Or.inl rfl⟩

theorem flatMap_length_const (l : List Nat) (f : Nat → List Nat) (c : Nat) (h : ∀ x, (f x).length = c) :
    (l.flatMap f).length = l.length * c := by
  induction l with
  | nil => simp
  | cons a l ih => simp [List.flatMap_cons, ih, h, Nat.add_mul, Nat.add_comm]

theorem wordsToLeBytes_length (W : Nat) (flip : Bool) (ws : List Nat) (a : Nat) (h : ws.getLast? = some a) :
    (wordsToLeBytes W flip ws).length = (ws.length - 1) * (W / 8) + (W / 8 - lzWord W a / 8) := by
  unfold wordsToLeBytes
  have hl : ws.getLastD 0 = a := by rw [List.getLastD_eq_getLast?, h]; rfl
  simp only [List.length_append, hl, List.length_take, wordLeBytes_length]
  rw [flatMap_length_const _ _ (W / 8) (fun x => wordLeBytes_length W _)]
  simp only [List.length_take]
  have : min (ws.length - 1) ws.length = ws.length - 1 := by omega
  rw [this]; omega

theorem bitLen_pred (a : Nat) (ha : a ≠ 0) : bitLen (a - 1) ≤ bitLen a ∧ bitLen a ≤ bitLen (a - 1) + 1 := by
  have h1 : a < 2 ^ bitLen a := bitLen_le_iff.mp (Nat.le_refl _)
  have h2 : a - 1 < 2 ^ bitLen (a - 1) := bitLen_le_iff.mp (Nat.le_refl _)
  constructor
  · exact bitLen_le_iff.mpr (by omega)
  · apply bitLen_le_iff.mpr
    rw [pow_succ]
    have : 0 < 2 ^ bitLen (a - 1) := Nat.two_pow_pos _
    omega

/-- the heap path of `to_signed_be_bytes(negate = true)`: `insert(0, 0xff)` is the mirror image of `resize(len, 0xff)` -/
theorem negLargeBE (W n : Nat) (h8 : 8 ∣ W) (hW : 8 ≤ W) (hn : n ≠ 0) :
    (let words := wordsOf W n
     let b := wordsToBeBytes W true (Dashu.Model.subOne W words).1
     let len := words.length * (W / 8) - lzWord W (words.getLastD 0) / 8
     if b.length < len then 255 :: b else b) =
    (let words := wordsOf W n
     let b := wordsToLeBytes W true (Dashu.Model.subOne W words).1
     let len := words.length * (W / 8) - lzWord W (words.getLastD 0) / 8
     b.take len ++ List.replicate (len - b.length) 255).reverse := by
  have hW1 : 1 ≤ W := by omega
  obtain ⟨_, hlast⟩ := wordsOf_eq W n hW1
  obtain ⟨_, hl0, hllt, hL1⟩ := hlast hn
  generalize hwords : wordsOf W n = words at *
  have hne : words ≠ [] := by intro h0; rw [h0] at hL1; simp at hL1
  generalize hlastdef : words.getLastD 0 = last at *
  have hgl : words.getLast? = some last := by
    rw [← hlastdef, List.getLastD_eq_getLast?]
    cases h : words.getLast? with
    | none => exact absurd (List.getLast?_eq_none_iff.mp h) hne
    | some x => rfl
  obtain ⟨hlen, a', hga, ha'⟩ := subOne_last W words last hgl hl0
  have hbl := wordsToLeBytes_length W true (Dashu.Model.subOne W words).1 a' hga
  rw [hlen] at hbl
  simp only [wordsToBeBytes_eq, List.length_reverse]
  generalize hb : wordsToLeBytes W true (Dashu.Model.subOne W words).1 = b at *
  obtain ⟨K, rfl⟩ := h8
  have hK : 8 * K / 8 = K := by omega
  rw [hK] at hbl ⊢
  have hlastW : bitLen last ≤ 8 * K := bitLen_le_iff.mpr hllt
  have hlast1 : 1 ≤ bitLen last := by simp [bitLen, hl0]
  have hcases : b.length = words.length * K - lzWord (8 * K) last / 8 ∨
      b.length + 1 = words.length * K - lzWord (8 * K) last / 8 := by
    have hLK : words.length * K = (words.length - 1) * K + K := by
      have : words.length = (words.length - 1) + 1 := by omega
      conv_lhs => rw [this, Nat.add_mul, Nat.one_mul]
    rcases ha' with h | h
    · left; rw [hbl, h, hLK]; unfold lzWord; omega
    · obtain ⟨p1, p2⟩ := bitLen_pred last hl0
      rw [hbl, h, hLK]; unfold lzWord; omega
  simp only [hlastdef]
  rcases hcases with h | h
  · have : ¬ b.length < words.length * K - lzWord (8 * K) last / 8 := by omega
    simp only [this, if_false]
    rw [← h, List.take_length, Nat.sub_self]; simp
  · have : b.length < words.length * K - lzWord (8 * K) last / 8 := by omega
    simp only [this, if_true]
    rw [← h, List.take_of_length_le (by omega)]
    have : b.length + 1 - b.length = 1 := by omega
    rw [this]; simp

/-- the mirrored signed big-endian encoder equals the mirror-image model -/
theorem toSignedBeBytesM_eq (W n : Nat) (h8 : 8 ∣ W) (hW : 8 ≤ W) (negate : Bool) :
    toSignedBeBytesM W n negate = (toSignedLeBytes W n negate).reverse := by
  unfold toSignedBeBytesM toSignedLeBytes
  by_cases hn : n = 0
  · simp [hn]
  · simp only [hn, if_false]
    have hbytes :
        (if negate = true then
          if n < 2 ^ (2 * W) then
            (wordBeBytes (2 * W) ((notWord (2 * W) n + 1) % 2 ^ (2 * W))).drop (lzWord (2 * W) n / 8)
          else
            (let words := wordsOf W n
             let b := wordsToBeBytes W true (Dashu.Model.subOne W words).1
             let len := words.length * (W / 8) - lzWord W (words.getLastD 0) / 8
             if b.length < len then 255 :: b else b)
        else toBeBytesM W n) =
        (if negate = true then
          if n < 2 ^ (2 * W) then
            (wordLeBytes (2 * W) ((notWord (2 * W) n + 1) % 2 ^ (2 * W))).take (2 * W / 8 - lzWord (2 * W) n / 8)
          else
            (let words := wordsOf W n
             let b := wordsToLeBytes W true (Dashu.Model.subOne W words).1
             let len := words.length * (W / 8) - lzWord W (words.getLastD 0) / 8
             b.take len ++ List.replicate (len - b.length) 255)
        else toLeBytes W n).reverse := by
      by_cases hneg : negate = true
      · simp only [hneg, if_true]
        by_cases hs : n < 2 ^ (2 * W)
        · simp only [hs, if_true]
          have := reverse_take_eq_drop (wordLeBytes (2 * W) ((notWord (2 * W) n + 1) % 2 ^ (2 * W))) (lzWord (2 * W) n / 8)
          rw [wordLeBytes_length] at this
          rw [wordBeBytes_eq]; exact this.symm
        · simp only [hs, if_false]; exact negLargeBE W n h8 hW hn
      · simp only [hneg, if_false, Bool.false_eq_true]
        rw [toBeBytesM_eq]; rfl
    simp only at hbytes ⊢
    rw [hbytes]
    generalize (if n < 2 ^ (2 * W) then lzWord (2 * W) n else lzWord W ((wordsOf W n).getLastD 0)) = lz
    by_cases hc : lz % 8 = 0 <;> simp [hc]

theorem ibigToBeBytesM_eq (W : Nat) (h8 : 8 ∣ W) (hW : 8 ≤ W) (z : Int) : ibigToBeBytesM W z = ibigToBeBytes W z :=
  toSignedBeBytesM_eq W z.natAbs h8 hW _

end Dashu.Model.Text
