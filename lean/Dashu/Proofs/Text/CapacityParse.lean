import Dashu.Proofs.Text.Capacity
import Dashu.Proofs.Text.ParsePow2
import Dashu.Proofs.Text.BytesDecode
/-
  C07 — the parsers never overflow a `Word`, never push beyond the allocated buffer and never hit
  their length assertions: the bounded model of `Model/Text/Capacity.lean` equals the unbounded one.
-/
namespace Dashu.Model.Text

/-- `parse_word`: at most `digits_per_word` digits never overflow the word -/
theorem parseWordLoopC_eq {W r : Nat} {ri : RadixInfo} (ok : RadixOK W r ri) (cs : List Nat) (word j : Nat)
    (hw : word < r ^ j) (hj : j + cs.length ≤ ri.dpw) :
    parseWordLoopC W r cs word = .ok (parseWordLoop r cs word) := by
  induction cs generalizing word j with
  | nil => rfl
  | cons c cs ih =>
    simp only [parseWordLoopC, parseWordLoop]
    cases hd : digitOf r c with
    | none => rfl
    | some d =>
      simp only []
      have hdl := digitOf_lt hd
      simp only [List.length_cons] at hj
      have hnext : word * r + d < r ^ (j + 1) := by
        rw [pow_succ]
        calc word * r + d < word * r + r := by omega
          _ = (word + 1) * r := by ring
          _ ≤ r ^ j * r := Nat.mul_le_mul_right _ (by omega)
      have hfit : word * r + d < 2 ^ W := by
        calc word * r + d < r ^ (j + 1) := hnext
          _ ≤ r ^ ri.dpw := Nat.pow_le_pow_right (by have := ok.hr; omega) (by omega)
          _ = ri.rpw := ok.pow.symm
          _ < 2 ^ W := ok.lt
      rw [if_neg (by omega)]
      exact ih _ (j + 1) hnext (by omega)

theorem parseWordLoop_lt {r : Nat} (cs : List Nat) (word j v : Nat) (hw : word < r ^ j)
    (h : parseWordLoop r cs word = .ok v) : v < r ^ (j + cs.length) := by
  induction cs generalizing word j with
  | nil => simp [parseWordLoop] at h; subst h; simpa using hw
  | cons c cs ih =>
    simp only [parseWordLoop] at h
    cases hd : digitOf r c with
    | none => simp [hd] at h
    | some d =>
      simp only [hd] at h
      have hdl := digitOf_lt hd
      have hnext : word * r + d < r ^ (j + 1) := by
        rw [pow_succ]
        calc word * r + d < word * r + r := by omega
          _ = (word + 1) * r := by ring
          _ ≤ r ^ j * r := Nat.mul_le_mul_right _ (by omega)
      have := ih _ (j + 1) hnext h
      simp only [List.length_cons]
      rw [show j + (cs.length + 1) = j + 1 + cs.length from by omega]; exact this

/-- the accumulation loop of `parse_chunk`: carries fit a word and every `push` finds room -/
theorem parseChunkLoopC_eq {W r : Nat} {ri : RadixInfo} (ok : RadixOK W r ri) (cap : Nat) (gs : List (List Nat))
    (hgs : ∀ g ∈ gs, g.length ≤ ri.dpw) (len acc : Nat) (hacc : acc < 2 ^ (W * len)) (hcap : len + gs.length ≤ cap) :
    parseChunkLoopC W r ri.rpw cap gs len acc = .ok (parseChunkLoop r ri.rpw gs acc) := by
  induction gs generalizing len acc with
  | nil => rfl
  | cons g gs ih =>
    have hg := hgs g (by simp)
    simp only [parseChunkLoopC, parseChunkLoop, parseWord]
    rw [parseWordLoopC_eq ok g 0 0 (by simp) (by simpa using hg)]
    cases hp : parseWordLoop r g 0 with
    | error e => rfl
    | ok next =>
      simp only []
      have hnext : next < ri.rpw := by
        have := parseWordLoop_lt g 0 0 next (by simp) hp
        calc next < r ^ (0 + g.length) := this
          _ ≤ r ^ ri.dpw := Nat.pow_le_pow_right (by have := ok.hr; omega) (by omega)
          _ = ri.rpw := ok.pow.symm
      have hlt := ok.lt
      have hpl : 0 < 2 ^ (W * len) := Nat.pow_pos (by omega)
      have hbound : acc * ri.rpw + next < 2 ^ (W * len) * 2 ^ W := by
        calc acc * ri.rpw + next < acc * ri.rpw + ri.rpw := by omega
          _ = (acc + 1) * ri.rpw := by ring
          _ ≤ 2 ^ (W * len) * ri.rpw := Nat.mul_le_mul_right _ (by omega)
          _ ≤ 2 ^ (W * len) * 2 ^ W := Nat.mul_le_mul_left _ (by omega)
      have hcarry : (acc * ri.rpw + next) / 2 ^ (W * len) < 2 ^ W := by
        rw [Nat.div_lt_iff_lt_mul hpl, Nat.mul_comm (2 ^ W)]; exact hbound
      simp only [List.length_cons] at hcap
      rw [if_neg (by omega)]
      by_cases hc0 : (acc * ri.rpw + next) / 2 ^ (W * len) ≠ 0
      · rw [if_pos hc0, if_neg (by omega)]
        apply ih (fun x hx => hgs x (by simp [hx])) (len + 1) _ _ (by omega)
        rw [Nat.mul_add, Nat.mul_one, pow_add]; exact hbound
      · rw [if_neg hc0]
        apply ih (fun x hx => hgs x (by simp [hx])) len _ _ (by omega)
        have : (acc * ri.rpw + next) / 2 ^ (W * len) = 0 := by omega
        exact (Nat.div_eq_zero_iff.mp this).resolve_left (by omega)

theorem rchunksRev_lengths (k : Nat) (hk : k ≠ 0) (l : List Nat) : ∀ g ∈ rchunksRev k l, g.length ≤ k := by
  rcases rchunksRev_spec k hk l with ⟨g0, gs, h⟩
  rcases h with ⟨e, _, hlen⟩ | ⟨e, _⟩
  · intro g hg
    rw [e] at hg
    rcases List.mem_cons.mp hg with h | h
    · -- the first group: `l.take h` with `h = len % k` or a full chunk
      subst h
      unfold rchunksRev at e
      by_cases h0 : l.length % k = 0
      · simp only [h0, if_true] at e
        by_cases hl : l = []
        · subst hl; rw [chunksOf_nil] at e; cases e
        · rw [chunksOf_step hk hl] at e
          have := (List.cons.inj e).1
          rw [← this, List.length_take]; omega
      · simp only [h0, if_false] at e
        have := (List.cons.inj e).1
        rw [← this, List.length_take]
        have := Nat.mod_lt l.length (by omega : 0 < k)
        omega
    · rw [hlen g h]
  · intro g hg; rw [e] at hg; cases hg

/-- `parse_chunk` within its length precondition: no panic, same result -/
theorem parseChunkC_eq (W r : Nat) (hr : 2 ≤ r) (hrW : r < 2 ^ W) (bytes : List Nat)
    (hlen : bytes.length ≤ parseChunkLen * (radixInfo W r).dpw) :
    parseChunkC W r bytes = .ok (parseChunk W r bytes) := by
  have ok := radixInfo_ok W r hr hrW
  unfold parseChunkC parseChunk
  simp only []
  rw [if_neg (by omega)]
  have hk : (radixInfo W r).dpw ≠ 0 := by have := ok.dpos; omega
  apply parseChunkLoopC_eq ok _ _ (rchunksRev_lengths _ hk bytes) 0 0 (by simp)
  unfold defaultCapacity; omega

/-- the divide-and-conquer recursion respects its length assertions down to the leaves -/
theorem parseDCC_eq (W r : Nat) (hr : 2 ≤ r) (hrW : r < 2 ^ W) (ps : List Nat) (bytes : List Nat)
    (hlen : bytes.length ≤ (parseChunkLen * (radixInfo W r).dpw) <<< ps.length) :
    parseDCC W r (parseChunkLen * (radixInfo W r).dpw) ps bytes =
      .ok (parseDC W r (parseChunkLen * (radixInfo W r).dpw) ps bytes) := by
  induction ps generalizing bytes with
  | nil =>
    simp only [List.length_nil, Nat.shiftLeft_zero] at hlen
    simp only [parseDCC, parseDC]
    rw [if_neg (by omega)]
    exact parseChunkC_eq W r hr hrW bytes hlen
  | cons p ps ih =>
    simp only [parseDCC, parseDC]
    simp only [List.length_cons] at hlen
    rw [if_neg (by omega)]
    generalize hcb : parseChunkLen * (radixInfo W r).dpw = cb at *
    by_cases hle : bytes.length ≤ cb <<< ps.length
    · simp only [hle, if_true]; exact ih bytes hle
    · simp only [hle, if_false]
      have h2 : cb <<< (ps.length + 1) = cb <<< ps.length + cb <<< ps.length := by
        simp only [Nat.shiftLeft_eq, pow_succ]; ring
      rw [ih (bytes.take (bytes.length - cb <<< ps.length)) (by rw [List.length_take]; omega),
        ih (bytes.drop (bytes.length - cb <<< ps.length)) (by rw [List.length_drop]; omega)]
      cases parseDC W r cb ps (bytes.take (bytes.length - cb <<< ps.length)) with
      | error e => rfl
      | ok hi =>
        cases parseDC W r cb ps (bytes.drop (bytes.length - cb <<< ps.length)) with
        | error e => rfl
        | ok lo => rfl

/-- the tower of `parse_large` is high enough for the input:
    the loop `while chunk_bytes <= (len - 1) >> radix_powers.len()` ends with `len ≤ chunk_bytes << radix_powers.len()` -/
theorem parsePowers_covers (cb len : Nat) (hcb : 1 ≤ cb) :
    ∀ (fuel : Nat) (ps : List Nat), ps ≠ [] → len ≤ (cb <<< ps.length) * 2 ^ fuel →
      len ≤ cb <<< (parsePowers cb len fuel ps).length := by
  intro fuel
  induction fuel with
  | zero => intro ps _ h; simpa [parsePowers] using h
  | succ fuel ih =>
    intro ps hne h
    cases ps with
    | nil => exact absurd rfl hne
    | cons prev rest =>
      simp only [parsePowers]
      split
      · apply ih _ (by simp)
        simp only [List.length_cons] at h ⊢
        calc len ≤ cb <<< (rest.length + 1) * 2 ^ (fuel + 1) := h
          _ = cb <<< (rest.length + 1 + 1) * 2 ^ fuel := by simp only [Nat.shiftLeft_eq, pow_succ]; ring
      · rename_i hstop
        simp only [List.length_cons] at hstop ⊢
        have hs : (len - 1) >>> (rest.length + 1) < cb := by omega
        rw [Nat.shiftRight_eq_div_pow, Nat.div_lt_iff_lt_mul (Nat.pow_pos (by omega))] at hs
        rw [Nat.shiftLeft_eq]
        omega

theorem parseLargeC_eq (W r : Nat) (hr : 2 ≤ r) (hrW : r < 2 ^ W) (bytes : List Nat) :
    parseLargeC W r bytes = .ok (parseLarge W r bytes) := by
  have ok := radixInfo_ok W r hr hrW
  unfold parseLargeC parseLarge
  simp only []
  apply parseDCC_eq W r hr hrW
  apply parsePowers_covers _ _ (by have := ok.dpos; simp [parseChunkLen, Dashu.Gen.parse_CHUNK_LEN]; omega) _ _ (by simp)
  simp only [List.length_cons, List.length_nil, Nat.shiftLeft_eq]
  have h1 : bytes.length < 2 ^ bytes.length := Nat.lt_two_pow_self
  have h2 : 1 ≤ parseChunkLen * (radixInfo W r).dpw * 2 ^ (0 + 1) := by
    have := ok.dpos; simp [parseChunkLen, Dashu.Gen.parse_CHUNK_LEN]; omega
  calc bytes.length ≤ 1 * 2 ^ bytes.length := by omega
    _ ≤ parseChunkLen * (radixInfo W r).dpw * 2 ^ (0 + 1) * 2 ^ bytes.length := Nat.mul_le_mul_right _ h2

/-- **the non-power-of-two parser never overflows a word, never pushes beyond its buffer and never
    fails a length assertion, for any byte string** -/
theorem parseNonPow2C_eq (W r : Nat) (hr : 2 ≤ r) (hrW : r < 2 ^ W) (src : List Nat) :
    parseNonPow2C W r src = .ok (parseNonPow2 W r src) := by
  have ok := radixInfo_ok W r hr hrW
  unfold parseNonPow2C parseNonPow2
  simp only []
  generalize (if src.contains 95 = true then src.filter (· ≠ 95) else src) = bytes
  by_cases h1 : bytes.length ≤ (radixInfo W r).dpw
  · rw [if_pos h1, if_pos h1]
    exact parseWordLoopC_eq ok _ 0 0 (by simp) (by simpa using h1)
  · rw [if_neg h1, if_neg h1]
    by_cases h2 : bytes.length ≤ parseChunkLen * (radixInfo W r).dpw
    · rw [if_pos h2, if_pos h2]; exact parseChunkC_eq W r hr hrW _ h2
    · rw [if_neg h2, if_neg h2]; exact parseLargeC_eq W r hr hrW _

-- ---------------------------------------------------------------- power-of-two parser

theorem digitValues_lt {r : Nat} {t ds : List Nat} (h : digitValues r t = some ds) : ∀ d ∈ ds, d < r := by
  induction t generalizing ds with
  | nil => simp [digitValues] at h; subst h; simp
  | cons c cs ih =>
    simp only [digitValues] at h
    cases hc : digitOf r c with
    | none => simp [hc] at h
    | some d =>
      cases hcs : digitValues r cs with
      | none => simp [hc, hcs] at h
      | some ds' =>
        simp [hc, hcs] at h; subst h
        intro x hx
        rcases List.mem_cons.mp hx with h1 | h1
        · subst h1; exact digitOf_lt hc
        · exact ih hcs x h1

/-- the bounded loop of `power_two::parse_large`: a push always finds room in
    `Buffer::allocate((num_bits - 1) / WORD_BITS + 1)` and no shift amount reaches the word size -/
theorem parsePow2LargeLoopC_eq (W log r cap numBits : Nat) (hlog : 1 ≤ log) (hlW : log < W)
    (hcap : (numBits - 1) / W + 1 ≤ cap) (cs : List Nat) (bits word : Nat) (buf : List Nat)
    (hb : bits < W) (hinv : W * buf.length + bits + log * cs.length ≤ numBits) :
    parsePow2LargeLoopC W log r cap cs bits word buf = .ok (parsePow2LargeLoop W log r cs bits word buf) := by
  induction cs generalizing bits word buf with
  | nil =>
    simp only [parsePow2LargeLoopC, parsePow2LargeLoop]
    by_cases h0 : bits > 0
    · simp only [h0, if_true]
      have : buf.length < cap := by
        simp only [List.length_nil, Nat.mul_zero, Nat.add_zero] at hinv
        have h1 : W * buf.length ≤ numBits - 1 := by omega
        have h2 : buf.length ≤ (numBits - 1) / W := by
          rw [Nat.le_div_iff_mul_le (by omega)]; rw [Nat.mul_comm]; exact h1
        omega
      rw [if_neg (by omega)]
    · simp only [h0, if_false]
  | cons c cs ih =>
    simp only [List.length_cons] at hinv
    have hinv' : W * buf.length + bits + log + log * cs.length ≤ numBits := by
      rw [Nat.mul_add, Nat.mul_one] at hinv; omega
    by_cases hc : c = 95
    · subst hc
      rw [parsePow2LargeLoopC, parsePow2LargeLoop, if_pos rfl, if_pos rfl]
      exact ih bits word buf hb (by omega)
    · rw [parsePow2LargeLoopC, parsePow2LargeLoop, if_neg hc, if_neg hc]
      cases hd : digitOf r c with
      | none => rfl
      | some d =>
        simp only []
        by_cases hge : bits + log ≥ W
        · simp only [hge, if_true]
          have hroom : buf.length < cap := by
            have h1 : W * (buf.length + 1) ≤ numBits := by rw [Nat.mul_add, Nat.mul_one]; omega
            have h2 : W * buf.length ≤ numBits - 1 := by omega
            have h3 : buf.length ≤ (numBits - 1) / W := by
              rw [Nat.le_div_iff_mul_le (by omega)]; rw [Nat.mul_comm]; exact h2
            omega
          have hbits0 : 0 < bits := by omega
          rw [if_neg (by omega), if_neg (by omega)]
          apply ih _ _ _ (by omega)
          simp only [List.length_cons]
          rw [Nat.mul_add, Nat.mul_one]; omega
        · simp only [hge, if_false]
          exact ih _ _ _ (by omega) (by omega)

theorem parsePow2LargeC_eq (W log r : Nat) (hlog : 1 ≤ log) (hlW : log < W) (src : List Nat) :
    parsePow2LargeC W log r src = .ok (parsePow2LargeLoop W log r src.reverse 0 0 []) := by
  unfold parsePow2LargeC
  simp only []
  apply parsePow2LargeLoopC_eq W log r _ (src.length * log) hlog hlW (by unfold defaultCapacity; exact Nat.le_trans (Nat.le_add_right _ _) (Nat.le_add_right _ 2)) _ 0 0 []
    (by omega)
  simp [Nat.mul_comm]

/-- **the power-of-two parser: no digit is shifted out of the word in `parse_word`, no push beyond the
    allocated buffer in `parse_large`** -/
theorem parsePow2C_eq (W r : Nat) (hp : isPow2 r = true) (hr : 2 ≤ r) (hrW : r < 2 ^ W) (src : List Nat) :
    parsePow2C W r src = .ok (parsePow2 W r src) := by
  obtain ⟨hr2, hlog⟩ := isPow2_spec hp hr
  have hlW : Nat.log2 r < W := (Nat.log2_lt (by omega)).mpr hrW
  unfold parsePow2C parsePow2
  simp only []
  generalize hl : Nat.log2 r = log at *
  by_cases hshort : src.length ≤ W / log
  · rw [if_pos hshort, if_pos hshort]
    cases hw : parsePow2Word log r src with
    | error e => rfl
    | ok v =>
      simp only []
      have hv : v < 2 ^ W := by
        rw [hr2, parsePow2Word_spec] at hw
        unfold parseDigitsSpec at hw
        cases hd : digitValues (2 ^ log) (src.filter (· ≠ 95)) with
        | none => rw [hd] at hw; cases hw
        | some ds =>
          rw [hd] at hw
          simp only [Except.ok.injEq] at hw
          have hlen : ds.length ≤ W / log := by
            rw [digitValues_length hd]
            exact Nat.le_trans (List.length_filter_le _ _) hshort
          have hlt := ofDigitsLE_lt (2 ^ log) ds.reverse (fun d hd' => digitValues_lt hd d (List.mem_reverse.mp hd'))
          rw [ofDigitsLE_reverse, List.length_reverse, hw, two_pow_mul] at hlt
          calc v < 2 ^ (log * ds.length) := hlt
            _ ≤ 2 ^ W := Nat.pow_le_pow_right (by omega) (by
                calc log * ds.length ≤ log * (W / log) := Nat.mul_le_mul_left _ hlen
                  _ ≤ W := Nat.mul_div_le W log)
      rw [if_neg (by omega)]
  · rw [if_neg hshort, if_neg hshort, parsePow2LargeC_eq W log r hlog hlW]
    unfold parsePow2Large
    cases parsePow2LargeLoop W log r src.reverse 0 0 [] <;> rfl

-- ---------------------------------------------------------------- summaries

/-- a radix the printers/parsers are called with: a power of two or at least 3 -/
theorem radix_cases (r : Nat) (hr : 2 ≤ r) : isPow2 r = true ∨ 3 ≤ r := by
  by_cases h : r = 2
  · left; subst h; decide
  · right; omega

theorem rawDigitsC_eq (W : Nat) (hW : 2 ≤ W) (hev : 2 ∣ W) (r : Nat) (hr : 2 ≤ r) (hrW : r < 2 ^ W) (n : Nat) :
    rawDigitsC W r n = .ok (rawDigits W r n) := by
  unfold rawDigitsC rawDigits
  by_cases hp : isPow2 r = true
  · rw [if_pos hp, if_pos hp]
    exact fmtPow2C_eq W r n (by omega) (isPow2_spec hp hr).2
  · rw [if_neg hp, if_neg hp]
    have h3 : 3 ≤ r := by rcases radix_cases r hr with h | h; exact absurd h hp; exact h
    exact fmtNonPow2C_eq W hW hev r h3 hrW n

theorem parseCoreC_eq (W : Nat) (r : Nat) (hr : 2 ≤ r) (hrW : r < 2 ^ W) (src : List Nat) :
    parseCoreC W r src = .ok (if isPow2 r then parsePow2 W r src else parseNonPow2 W r src) := by
  unfold parseCoreC
  by_cases hp : isPow2 r = true
  · rw [if_pos hp, if_pos hp]; exact parsePow2C_eq W r hp hr hrW src
  · rw [if_neg hp, if_neg hp]; exact parseNonPow2C_eq W r hr hrW src

theorem digitWriterLen_pos (W : Nat) (hW : 8 ≤ W) : 1 ≤ digitWriterLen W := by
  unfold digitWriterLen ceilDiv
  have h8 : 1 ≤ W / 8 := (Nat.le_div_iff_mul_le (by omega)).mpr (by omega)
  simp only [show Dashu.Gen.digit_writer_BUFFER_LEN_MIN ≠ 0 from by decide, if_false]
  exact Nat.mul_pos (Nat.succ_pos _) h8

theorem digitWriterRun_go (W : Nat) (hW : 8 ≤ W) (c : DigitCase) (pieces : List (List Nat)) (s : DW)
    (hs : s.pending.length < digitWriterLen W) :
    ∃ s', digitWriterRun.go W c s pieces = .ok s' ∧ s'.pending.length < digitWriterLen W ∧
      s'.out ++ s'.pending.map (rawToAscii c) = s.out ++ s.pending.map (rawToAscii c) ++ pieces.flatten.map (rawToAscii c) := by
  induction pieces generalizing s with
  | nil => exact ⟨s, rfl, hs, by simp⟩
  | cons b bs ih =>
    obtain ⟨s1, h1, h2, h3⟩ := DW_write_spec (digitWriterLen W) (digitWriterLen_pos W hW) c b s hs
    obtain ⟨s2, g1, g2, g3⟩ := ih s1 h2
    refine ⟨s2, ?_, g2, ?_⟩
    · simp only [digitWriterRun.go, h1]; exact g1
    · rw [g3, h3]; simp [List.append_assoc]

/-- the `DigitWriter` delivers exactly the converted digits, in order, whatever the write sizes -/
theorem digitWriterRun_eq (W : Nat) (hW : 8 ≤ W) (c : DigitCase) (pieces : List (List Nat)) :
    digitWriterRun W c pieces = .ok (pieces.flatten.map (rawToAscii c)) := by
  unfold digitWriterRun
  obtain ⟨s', h1, _, h3⟩ := digitWriterRun_go W hW c pieces ⟨[], []⟩
    (by have := digitWriterLen_pos W hW; simp only [List.length_nil]; omega)
  rw [h1]
  simp only [DW.flush]
  simpa using h3

end Dashu.Model.Text
