import Dashu.Proofs.Text.Debug
/-
  C08 round 8 — link of the float `Debug` forms (Model/Text/Float.lean: `debugInt`, `debugSignifField`,
  `debugRepr`, `debugFBig`) to C07's proved kernel (`Proofs/Text/Debug.lean`: the mirrored
  `DoubleEnd::fmt` yields `debugSpec`).  Pure statements about existing definitions.
-/
namespace Dashu.Proofs.Text.FloatDebug
open Dashu.Model Dashu.Model.Text Dashu.Model.Float

theorem strBytes_digits : strBytes " (digits: " = [32, 40, 100, 105, 103, 105, 116, 115, 58, 32] := by decide +kernel
theorem strBytes_bits : strBytes ", bits: " = [44, 32, 98, 105, 116, 115, 58, 32] := by decide +kernel

/-- the significand printer of the float `Debug` model IS C07's closed form -/
theorem debugInt_eq_debugSpec (W : Nat) (alt plus : Bool) (z : Int) :
    debugInt W alt plus z = debugSpec W alt plus z := by
  unfold debugInt debugSpec
  rw [strBytes_digits, strBytes_bits]

/-- … hence the text the mirrored `DoubleEnd::fmt` (word level) yields -/
theorem doubleEndFmt_eq_debugInt (W est : Nat) (hW : 8 ≤ W) (hev : 2 ∣ W) (alt plus : Bool) (z : Int)
    (hest : 2 ^ (2 * W) ≤ z.natAbs → 10 ^ est ≤ z.natAbs) :
    doubleEndFmt W est alt plus z = .ok (debugInt W alt plus z) := by
  rw [debugInt_eq_debugSpec]; exact doubleEndFmt_eq W est hW hev alt plus z hest

theorem doubleEndFmt_one_eq_debugInt (W : Nat) (hW : 8 ≤ W) (hev : 2 ∣ W) (alt plus : Bool) (z : Int) :
    doubleEndFmt W 1 alt plus z = .ok (debugInt W alt plus z) := by
  apply doubleEndFmt_eq_debugInt W 1 hW hev
  intro h
  have : (2 : Nat) ^ 16 ≤ 2 ^ (2 * W) := Nat.pow_le_pow_right (by omega) (by omega)
  omega

/-- plain `{:?}` text of a two-word significand: sign and ALL decimal digits -/
theorem debugInt_small (W : Nat) (z : Int) (h : z.natAbs < 2 ^ (2 * W)) :
    debugInt W false false z = (if z < 0 then [45] else []) ++ printSpec 10 false z.natAbs := by
  unfold debugInt
  simp [h]

/-- the finite `Debug` forms of `Repr<B>` / `FBig<R, B>`, written over the `DoubleEnd` text `T` of the
    significand (plain) and `Ta` (`{:#?}` of base 10) -/
theorem debug_forms (W B : Nat) (m : Mode) (r : FRepr) (prec : Nat) :
    debugRepr W B false r = debugInt W false false r.signif ++ strBytes " * " ++ printSpec 10 false B ++
        strBytes " ^ " ++ printSpecInt 10 false r.exp ∧
    debugFBig W B m false r prec = debugInt W false false r.signif ++ strBytes " * " ++ printSpec 10 false B ++
        strBytes " ^ " ++ printSpecInt 10 false r.exp ++ strBytes " (prec: " ++ printSpec 10 false prec ++ [41] ∧
    debugSignifField W 10 r.signif = debugInt W true false r.signif ∧
    (B ≠ 10 → debugSignifField W B r.signif = debugInt W false false r.signif ++ strBytes " (" ++
        printSpec 10 false (digitsI B r.signif) ++ strBytes (if B = 2 then " bits)" else " digits)")) := by
  refine ⟨by simp [debugRepr], by simp [debugFBig, debugRepr], by simp [debugSignifField], ?_⟩
  intro hB
  unfold debugSignifField
  by_cases h2 : B = 2 <;> simp [h2, hB]

end Dashu.Proofs.Text.FloatDebug
