import Dashu.Model.Text.Float
import Dashu.Gen.FloatText
/-
  C08 — Tie A: the hand model of float text I/O equals the tables regenerated from /repo
  (`Dashu/Gen/FloatText.lean`, vlib/extract_floattext.py): scale markers and hexadecimal prefix of
  `Repr::from_str_native` (float/src/parse.rs), marker / flag table of the scientific formatting traits
  (float/src/fmt.rs).
-/
namespace Dashu.Model.Text
open Dashu.Model.Float

/-- `isScaleMarker` IS membership in the character set `scale_pos` searches for (regenerated) -/
theorem isScaleMarker_eq_gen (B : Nat) (hp : Bool) (c : Nat) :
    isScaleMarker B hp c = true ↔ c ∈ Dashu.Gen.float_scaleMarkers B hp := by
  unfold isScaleMarker Dashu.Gen.float_scaleMarkers
  by_cases h10 : B = 10
  · simp [h10, or_assoc]
  · by_cases h2 : B = 2
    · subst h2; cases hp <;> simp [or_assoc]
    · by_cases h8 : B = 8
      · simp [h8, or_assoc]
      · by_cases h16 : B = 16
        · simp [h16, or_assoc]
        · simp [h10, h2, h8, h16]

/-- `hasHexPrefix` IS `src.starts_with(p₁) || src.starts_with(p₂)` for the regenerated prefixes (whenever the source
    writes the test in that form) -/
theorem hasHexPrefix_eq_gen (src : List Nat) :
    ∀ ps, Dashu.Gen.float_hexPrefixes = some ps → hasHexPrefix src = ps.any (fun p => src.take p.length == p) := by
  intro ps h
  unfold Dashu.Gen.float_hexPrefixes at h
  first
  | (cases h; unfold hasHexPrefix; simp)
  | cases h

/-- protocol name of a formatting trait of `impl_fmt_with_base!` -/
def traitKind (t : String) : String :=
  if t = "Binary" then "bin" else if t = "Octal" then "oct" else if t = "LowerHex" then "lhex"
  else if t = "UpperHex" then "uhex" else t

/-- `fmtRadixTrait` executes exactly the regenerated rows: for every row `(base, Trait, upper, hex, marker)` of
    `impl_fmt_with_base!` the model of `Trait for FBig<R, base>` is `fmt_round_scientific(upper, hex, marker)` … -/
theorem fmtRadixTrait_rows (m : Mode) (f : FmtSpec) (prec : Option Nat) (r : FRepr) :
    ∀ row ∈ Dashu.Gen.float_fmtWithBase,
      fmtRadixTrait row.1 m f prec (traitKind row.2.1) r =
        some (fmtSciG row.1 m f prec row.2.2.1 row.2.2.2.1 row.2.2.2.2 r) := by
  intro row hrow
  simp only [Dashu.Gen.float_fmtWithBase, List.mem_cons, List.not_mem_nil, or_false] at hrow
  rcases hrow with h | h | h | h | h | h <;> subst h <;> rfl

/-- … and implements nothing else: whatever it answers comes from a row -/
theorem fmtRadixTrait_only (B : Nat) (m : Mode) (f : FmtSpec) (prec : Option Nat) (k : String) (r : FRepr)
    (t : List Nat) (h : fmtRadixTrait B m f prec k r = some t) :
    ∃ row ∈ Dashu.Gen.float_fmtWithBase, row.1 = B ∧ traitKind row.2.1 = k ∧
      t = fmtSciG B m f prec row.2.2.1 row.2.2.2.1 row.2.2.2.2 r := by
  unfold fmtRadixTrait at h
  split at h
  all_goals cases h
  · exact ⟨(2, "Binary", false, false, 98), by simp [Dashu.Gen.float_fmtWithBase], rfl, by decide, rfl⟩
  · exact ⟨(8, "Octal", false, false, 111), by simp [Dashu.Gen.float_fmtWithBase], rfl, by decide, rfl⟩
  · exact ⟨(16, "LowerHex", false, false, 104), by simp [Dashu.Gen.float_fmtWithBase], rfl, by decide, rfl⟩
  · exact ⟨(16, "UpperHex", true, false, 104), by simp [Dashu.Gen.float_fmtWithBase], rfl, by decide, rfl⟩
  · exact ⟨(2, "LowerHex", false, true, 112), by simp [Dashu.Gen.float_fmtWithBase], rfl, by decide, rfl⟩
  · exact ⟨(2, "UpperHex", true, true, 112), by simp [Dashu.Gen.float_fmtWithBase], rfl, by decide, rfl⟩

/-- `LowerExp` / `UpperExp` print the regenerated marker -/
theorem fmtSci_marker_gen (B : Nat) (m : Mode) (f : FmtSpec) (prec : Option Nat) (upper : Bool) (r : FRepr) :
    fmtSci B m f prec upper r = fmtSciG B m f prec upper false (Dashu.Gen.float_expMarker B upper) r := by
  unfold fmtSci Dashu.Gen.float_expMarker
  by_cases h : B = 10 <;> cases upper <;> simp [h]

/-- the loop of the model's `ilogExact` IS the regenerated loop of `ilog_exact` (float/src/utils.rs); `n` is a `Word`.
    (The proof covers both forms the extractor reads: `pow *= base` and the checked form that returns 0 when the product
    leaves the Word — then the product is beyond `n` and the model's loop answers 0 as well.) -/
theorem ilogExact_go_eq_gen (n base : Nat) (hn : n < 2 ^ 64) : ∀ (fuel pow exp : Nat),
    ilogExact.go n base fuel pow exp = Dashu.Gen.float_ilogExactLoop n base fuel pow exp := by
  intro fuel
  induction fuel with
  | zero => intro pow exp; simp [ilogExact.go, Dashu.Gen.float_ilogExactLoop]
  | succ f ih =>
    intro pow exp
    simp only [ilogExact.go, Dashu.Gen.float_ilogExactLoop]
    first
    | (rw [ih]; done)
    | (by_cases hlt : pow < n
       · simp only [hlt, if_true]
         by_cases hov : pow * base ≥ 2 ^ 64
         · simp only [hov, if_true]
           cases f with
           | zero => simp [ilogExact.go]
           | succ g =>
             have h1 : ¬ (pow * base < n) := by omega
             have h2 : ¬ (pow * base = n) := by omega
             simp [ilogExact.go, h1, h2]
         · simp only [hov, if_false]; exact ih _ _
       · simp only [hlt, if_false])

/-- `ilogExact` IS the regenerated `ilog_exact` for every base ≥ 2 and every `Word` n (for base < 2 the loop of the code does
    not terminate when `n ≥ base`; the model answers 0 there — no `FBig` has such a base) -/
theorem ilogExact_eq_gen (n base : Nat) (hb : 2 ≤ base) (hn : n < 2 ^ 64) :
    ilogExact n base = Dashu.Gen.float_ilogExact n base := by
  unfold ilogExact Dashu.Gen.float_ilogExact
  by_cases h : n < base
  · simp [h]
  · have h2 : ¬ (n < base ∨ base < 2) := by omega
    rw [if_neg h2, if_neg h]
    exact ilogExact_go_eq_gen n base hn 64 base 1

/-- `withBasePrecision` IS the regenerated precision decision of `FBig::with_base` (float/src/convert.rs), with the model's
    `ilogExact` for `ilog_exact` and the documented maximum `withBasePrecisionSpec` for `BASE.pow(p).ilog(NewB)` -/
theorem withBasePrecision_eq_gen (W B NewB p : Nat) :
    withBasePrecision W B NewB p =
      Dashu.Gen.float_withBasePrecision ilogExact (fun b q nb => withBasePrecisionSpec b nb q) B NewB p := by
  unfold withBasePrecision Dashu.Gen.float_withBasePrecision
  rfl

end Dashu.Model.Text
