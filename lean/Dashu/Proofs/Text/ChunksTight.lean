import Dashu.Model.Text.ChunksBuf
import Dashu.Proofs.Text.ChunksBuf
/-
  `chunks_to_words` on a result buffer sized in WORDS from the bit offset of the last chunk
  (`max_len + ceil((len − 1)·chunk_bits / WORD_BITS) + 1`, proposed fix
  `c07-from-chunks-result-len-words`): the loop of the code has room for every chunk, loses no carry
  and computes `Σ chunkᵢ · 2^(i·k)`.  The proof is the one of `chunksToWords_spec` with the buffer
  length as a parameter; the current sizing (`max_len + (len − 1)·chunk_bits + 1`) is an instance too.
-/
namespace Dashu.Model.Text
open Dashu.Model (val IsWords addInPlace addInPlace_spec val_append val_lt)
open Dashu.Model.Div (shrInPlace shlInPlace shrInPlace_spec shlInPlace_spec)

/-- the shift-and-add loop of `chunks_to_words` on a result buffer of ANY length `R` that has room for the last chunk
    (`hR1`, words) and for the total (`hR2`, bits): the result buffer is never too short, no carry is lost, and its value grows
    by `Σ chunk_j · 2^((i+j)·k)` -/
theorem chunksToWords_spec_len (W k : Nat) (hW : 1 ≤ W) (hk : 1 ≤ k) (maxLen cnt R : Nat)
    (hR1 : (cnt - 1) * k / W + maxLen + 1 ≤ R) (hR2 : W * maxLen + (cnt - 1) * k + 1 ≤ W * R) :
    ∀ (cs : List (List Nat)) (i : Nat) (out : List Nat),
      (∀ c ∈ cs, IsWords W c ∧ c.length ≤ maxLen) → IsWords W out →
      out.length = R → i + cs.length = cnt →
      val W out * 2 ^ k < 2 ^ (W * maxLen + i * k + 1) →
      val W (chunksToWords W k i cs out) = val W out + 2 ^ (i * k) * ofChunksSpec k (cs.map (val W)) := by
  intro cs
  induction cs with
  | nil => intro i out _ _ _ _ _; simp [chunksToWords, ofChunksSpec]
  | cons c cs ih =>
    intro i out hcs hout hlen hcnt hbound
    obtain ⟨hcw, hcl⟩ := hcs c (by simp)
    simp only [List.length_cons] at hcnt
    simp only [chunksToWords, List.map_cons, ofChunksSpec]
    have hsW : (i * k) % W < W := Nat.mod_lt _ (by omega)
    have hdm := Nat.div_add_mod (i * k) W
    generalize hpos : (i * k) / W = pos at *
    generalize hs : (i * k) % W = s at *
    -- the shifted chunk
    obtain ⟨b1, b2, b3, b4⟩ := shlInPlace_spec W s (by omega) (c ++ [0]) (isWords_snoc_zero W c hcw)
    have hvc : val W (c ++ [0]) = val W c := by rw [val_append]; simp [val]
    have hclt := val_lt W c hcw
    have hblt := val_lt W _ b3
    rw [b2] at hblt
    simp only [List.length_append, List.length_cons, List.length_nil] at b1 b2 hblt
    have hcarry : (shlInPlace W (c ++ [0]) s).2 = 0 := by
      by_contra hne
      have h1 : 1 ≤ (shlInPlace W (c ++ [0]) s).2 := by omega
      have h2 : 2 ^ (W * (c.length + 1)) ≤ 2 ^ (W * (c.length + 1)) * (shlInPlace W (c ++ [0]) s).2 :=
        Nat.le_mul_of_pos_right _ h1
      have h3 : val W c * 2 ^ s < 2 ^ (W * (c.length + 1)) := by
        rw [Nat.mul_add, Nat.mul_one, pow_add]
        have hp : 2 ^ s < 2 ^ W := Nat.pow_lt_pow_right (by omega) hsW
        calc val W c * 2 ^ s < 2 ^ (W * c.length) * 2 ^ s := Nat.mul_lt_mul_of_pos_right hclt (Nat.pow_pos (by omega))
          _ ≤ 2 ^ (W * c.length) * 2 ^ W := Nat.mul_le_mul_left _ (by omega)
      rw [hvc] at b1
      have hX : 2 ^ (W * (c.length + 1)) ≤ val W c * 2 ^ s := by
        rw [← b1]; exact Nat.le_trans h2 (Nat.le_add_left _ _)
      omega
    rw [hcarry, Nat.mul_zero, Nat.add_zero, hvc] at b1
    generalize hb : (shlInPlace W (c ++ [0]) s).1 = b at *
    -- room in the result buffer
    have hposle : pos ≤ (cnt - 1) * k / W := by
      have h1 : i ≤ cnt - 1 := by omega
      rw [← hpos]
      exact Nat.div_le_div_right (Nat.mul_le_mul_right _ h1)
    have hposR : pos + maxLen + 1 ≤ R := by omega
    have hroom : b.length ≤ (out.drop pos).length := by rw [List.length_drop, b2, hlen]; omega
    obtain ⟨a1, a2, a3, a4⟩ := addInPlace_spec W (out.drop pos) b (hout.drop pos) b3 hroom
    have htl : (out.take pos).length = pos := by rw [List.length_take, hlen]; omega
    have hsplit : val W out = val W (out.take pos) + 2 ^ (W * pos) * val W (out.drop pos) := by
      conv_lhs => rw [← List.take_append_drop pos out, val_append, htl]
    -- the new buffer
    generalize hnew : (addInPlace W (out.drop pos) b).1 = r at *
    have hout' : IsWords W (out.take pos ++ r) := (hout.take pos).append a3
    have hlen' : (out.take pos ++ r).length = R := by
      rw [List.length_append, htl, a2, List.length_drop, hlen]; omega
    have hval' : val W (out.take pos ++ r) = val W (out.take pos) + 2 ^ (W * pos) * val W r := by
      rw [val_append, htl]
    have hshift : 2 ^ (W * pos) * 2 ^ s = 2 ^ (i * k) := by rw [← pow_add]; congr 1
    -- the new total and its bound
    have hS : val W out * 2 ^ k + val W c * 2 ^ (i * k) * 2 ^ k < 2 ^ (W * maxLen + (i + 1) * k + 1) := by
      have h1 : val W c * 2 ^ (i * k) * 2 ^ k < 2 ^ (W * maxLen + i * k + k) := by
        rw [pow_add, pow_add, Nat.mul_assoc, Nat.mul_assoc]
        apply Nat.mul_lt_mul_of_pos_right _ (Nat.mul_pos (Nat.pow_pos (by omega)) (Nat.pow_pos (by omega)))
        calc val W c < 2 ^ (W * c.length) := hclt
          _ ≤ 2 ^ (W * maxLen) := Nat.pow_le_pow_right (by omega) (Nat.mul_le_mul_left _ hcl)
      have h2 : 2 ^ (W * maxLen + i * k + 1) ≤ 2 ^ (W * maxLen + i * k + k) := Nat.pow_le_pow_right (by omega) (by omega)
      have h3 : 2 ^ (W * maxLen + (i + 1) * k + 1) = 2 ^ (W * maxLen + i * k + k) * 2 := by
        rw [← pow_succ]; congr 1; ring
      omega
    have hfit : val W out + val W c * 2 ^ (i * k) < 2 ^ (W * (out.drop pos).length) * 2 ^ (W * pos) := by
      rw [← pow_add, List.length_drop, hlen]
      have hp : 0 < 2 ^ k := Nat.pow_pos (by omega)
      have h1 : (val W out + val W c * 2 ^ (i * k)) * 2 ^ k < 2 ^ (W * maxLen + (i + 1) * k + 1) := by
        rw [Nat.add_mul]; exact hS
      have h2 : W * maxLen + (i + 1) * k + 1 ≤ W * (R - pos) + W * pos + k := by
        have e1 : W * (R - pos) + W * pos = W * R := by
          rw [← Nat.mul_add]; congr 1; omega
        rw [e1]
        have e2 : (i + 1) * k ≤ (cnt - 1) * k + k := by
          have : i + 1 ≤ cnt := by omega
          calc (i + 1) * k ≤ cnt * k := Nat.mul_le_mul_right _ this
            _ = (cnt - 1) * k + k := by
              obtain ⟨j, rfl⟩ : ∃ j, cnt = j + 1 := ⟨cnt - 1, by omega⟩
              simp [Nat.succ_mul]
        omega
      have h3 : 2 ^ (W * maxLen + (i + 1) * k + 1) ≤
          2 ^ (W * (R - pos) + W * pos) * 2 ^ k := by
        rw [← pow_add]; exact Nat.pow_le_pow_right (by omega) h2
      exact Nat.lt_of_mul_lt_mul_right (Nat.lt_of_lt_of_le h1 h3)
    have hc2 : (addInPlace W (out.drop pos) b).2 = 0 := by
      by_contra hne
      have h1 : 1 ≤ (addInPlace W (out.drop pos) b).2 := by omega
      have h2 := Nat.le_mul_of_pos_right (2 ^ (W * (out.drop pos).length)) h1
      -- 2^(W pos) * (val drop + val b) = val out - val take + val c * 2^(ik) ≥ 2^(W pos) * 2^(W·len)
      have h3 : 2 ^ (W * pos) * (val W (out.drop pos) + val W b) ≤ val W out + val W c * 2 ^ (i * k) := by
        rw [Nat.mul_add, b1, ← Nat.mul_assoc, Nat.mul_comm (2 ^ (W * pos)) (val W c), Nat.mul_assoc, hshift]; omega
      have h4 : 2 ^ (W * pos) * 2 ^ (W * (out.drop pos).length) ≤ 2 ^ (W * pos) * (val W (out.drop pos) + val W b) :=
        Nat.mul_le_mul_left _ (by omega)
      rw [Nat.mul_comm] at h4; omega
    rw [hc2, Nat.mul_zero, Nat.add_zero] at a1
    -- apply the induction hypothesis
    have hvnew : val W (out.take pos ++ r) = val W out + val W c * 2 ^ (i * k) := by
      rw [hval', a1, hsplit, Nat.mul_add, b1, ← Nat.mul_assoc, Nat.mul_comm (2 ^ (W * pos)) (val W c), Nat.mul_assoc, hshift]
      omega
    rw [ih (i + 1) (out.take pos ++ r) (fun x hx => hcs x (by simp [hx])) hout' hlen' (by omega)
      (by rw [hvnew, Nat.add_mul]; exact hS), hvnew]
    rw [Nat.succ_mul, pow_add]; ring


theorem foldl_max_ge (l : List Nat) : ∀ (a : Nat), ∀ x ∈ l, x ≤ l.foldl max a := by
  induction l with
  | nil => intro a x hx; cases hx
  | cons y l ih =>
    intro a x hx
    simp only [List.foldl_cons]
    rcases List.mem_cons.mp hx with h | h
    · subst h
      have hmono : ∀ (l : List Nat) (a : Nat), a ≤ l.foldl max a := by
        intro l; induction l with
        | nil => intro a; exact Nat.le_refl _
        | cons z l ih2 => intro a; simp only [List.foldl_cons]; exact Nat.le_trans (Nat.le_max_left a z) (ih2 _)
      exact Nat.le_trans (Nat.le_max_right a x) (hmono l _)
    · exact ih _ x h

/-- **`from_chunks` with the result buffer counted in words = `Σ chunkᵢ · 2^(i·k)`**, word slices of any length -/
theorem fromChunksWT_eq (W k : Nat) (hW : 1 ≤ W) (hk : 1 ≤ k) (chunks : List (List Nat))
    (hc : ∀ c ∈ chunks, IsWords W c) :
    fromChunksWT W k chunks = .ok (ofChunksSpec k (chunks.map (val W))) := by
  unfold fromChunksWT
  rw [if_neg (by omega)]
  by_cases hnil : chunks = []
  · subst hnil; simp [ofChunksSpec]
  · rw [if_neg hnil]
    simp only []
    congr 1
    generalize hM : (chunks.map List.length).foldl max 0 = M
    generalize hX : (chunks.length - 1) * k = X
    have hz : ∀ m, val W (List.replicate m 0) = 0 := by
      intro m; have := val_append_zeros W [] m; simpa [val] using this
    have hc1 := div_le_ceilDiv W X hW
    have hc2 := le_mul_ceilDiv W X hW
    have h := chunksToWords_spec_len W k hW hk M chunks.length (M + ceilDiv X W + 1)
      (by rw [hX]; omega)
      (by rw [hX, Nat.mul_add, Nat.mul_add, Nat.mul_one]; omega)
      chunks 0 (List.replicate (M + ceilDiv X W + 1) 0)
      (fun c hcm => ⟨hc c hcm, by rw [← hM]; exact foldl_max_ge _ 0 c.length (List.mem_map.mpr ⟨c, hcm, rfl⟩)⟩)
      (by intro x hx; have := List.eq_of_mem_replicate hx; subst this; exact Nat.pow_pos (by omega))
      (by simp) (by simp)
      (by rw [hz]; simp)
    rw [h, hz]; simp

end Dashu.Model.Text
