import Dashu.Proofs.Text.Float
import Dashu.Proofs.Text.Grammar
/-
  C08 — the float literal parser on the documented grammar: a rendered literal parses to exactly
  the written value, with precision = number of written digits.
-/
namespace Dashu.Model.Text
open Dashu.Model.Float

-- ---------------------------------------------------------------- searching

theorem findIdx?_append_hit {p : Nat → Bool} (a : List Nat) (c : Nat) (b : List Nat)
    (ha : ∀ x ∈ a, p x = false) (hc : p c = true) : (a ++ c :: b).findIdx? p = some a.length := by
  induction a with
  | nil => simp [List.findIdx?_cons, hc]
  | cons x a ih =>
    have hx : p x = false := ha x (by simp)
    rw [List.cons_append, List.findIdx?_cons, hx]
    simp only [Bool.false_eq_true, if_false]
    rw [ih (fun y hy => ha y (by simp [hy]))]
    simp

theorem findIdx?_none {p : Nat → Bool} (a : List Nat) (ha : ∀ x ∈ a, p x = false) : a.findIdx? p = none := by
  induction a with
  | nil => rfl
  | cons x a ih =>
    rw [List.findIdx?_cons, ha x (by simp)]
    simp only [Bool.false_eq_true, if_false]
    rw [ih (fun y hy => ha y (by simp [hy]))]; rfl

theorem rfindIdx_hit {p : Nat → Bool} (a : List Nat) (c : Nat) (b : List Nat)
    (hb : ∀ x ∈ b, p x = false) (hc : p c = true) : rfindIdx p (a ++ c :: b) = some a.length := by
  unfold rfindIdx
  have : (a ++ c :: b).reverse = b.reverse ++ c :: a.reverse := by simp
  rw [this, findIdx?_append_hit _ _ _ (fun x hx => hb x (List.mem_reverse.mp hx)) hc]
  simp only [List.length_reverse, List.length_append, List.length_cons]
  congr 1; omega

theorem rfindIdx_none {p : Nat → Bool} (a : List Nat) (ha : ∀ x ∈ a, p x = false) : rfindIdx p a = none := by
  unfold rfindIdx
  rw [findIdx?_none _ (fun x hx => ha x (List.mem_reverse.mp hx))]

-- ---------------------------------------------------------------- characters

theorem digitChar_cases (up : Bool) (d : Nat) (hd : d < 36) :
    (48 ≤ digitChar up d ∧ digitChar up d ≤ 57 ∧ d < 10) ∨
    (97 ≤ digitChar up d ∧ digitChar up d ≤ 122 ∧ digitChar up d = 87 + d ∧ 10 ≤ d) ∨
    (65 ≤ digitChar up d ∧ digitChar up d ≤ 90 ∧ digitChar up d = 55 + d ∧ 10 ≤ d) := by
  unfold digitChar
  by_cases h : d < 10
  · left; simp [h]; omega
  · cases up <;> simp [h] <;> omega

theorem isScaleMarker_digitChar (B : Nat) (hB : B ≤ 36) (up : Bool) (d : Nat) (hd : d < B) :
    isScaleMarker B false (digitChar up d) = false := by
  have hc := digitChar_cases up d (by omega)
  unfold isScaleMarker
  by_cases h10 : B = 10
  · subst h10; simp; omega
  · by_cases h2 : B = 2
    · subst h2; simp; omega
    · by_cases h8 : B = 8
      · subst h8; simp; omega
      · by_cases h16 : B = 16
        · subst h16; simp; omega
        · simp [h10, h2, h8, h16]; omega

theorem isScaleMarker_dot (B : Nat) (hp : Bool) : isScaleMarker B hp 46 = false := by
  unfold isScaleMarker; cases hp <;> (repeat' split) <;> simp

theorem isScaleMarker_at (B : Nat) (hp : Bool) : isScaleMarker B hp 64 = true := by
  unfold isScaleMarker; cases hp <;> (repeat' split) <;> simp

theorem isScaleMarker_dec (B : Nat) (hp : Bool) (c : Nat) (hc : c = 45 ∨ (48 ≤ c ∧ c ≤ 57)) :
    isScaleMarker B hp c = false := by
  unfold isScaleMarker
  cases hp <;> (repeat' split) <;> simp <;> omega

-- ---------------------------------------------------------------- the exponent

theorem printSpec10_chars (n : Nat) : ∀ c ∈ printSpec 10 false n, 48 ≤ c ∧ c ≤ 57 := by
  intro c hc
  unfold printSpec at hc
  obtain ⟨d, hd, rfl⟩ := List.mem_map.mp hc
  have := digits_lt (by omega : 2 ≤ 10) n d hd
  unfold digitChar; simp [this]; omega

theorem ofDigits10_printSpec (n : Nat) : ofDigits 10 ((printSpec 10 false n).map (· - 48)) = n := by
  unfold printSpec
  rw [List.map_map]
  have : (digits 10 n).map ((· - 48) ∘ digitChar false) = digits 10 n := by
    conv_rhs => rw [← List.map_id (digits 10 n)]
    apply List.map_congr_left
    intro d hd
    have := digits_lt (by omega : 2 ≤ 10) n d hd
    simp [digitChar, this]
  rw [this, ofDigits_digits (by omega)]

theorem printSpec_ne_nil (r : Nat) (up : Bool) (n : Nat) (hr : 2 ≤ r) : printSpec r up n ≠ [] := by
  unfold printSpec
  intro h
  exact digits_ne_nil r n hr (List.map_eq_nil_iff.mp h)

theorem stripSignF_other (c : Nat) (t : List Nat) (h45 : c ≠ 45) (h43 : c ≠ 43) :
    stripSignF (c :: t) = (false, c :: t) := by
  unfold stripSignF
  split
  · rename_i h; simp at h; omega
  · rename_i h; simp at h; omega
  · rfl

/-- `parse::<isize>()` reads back the decimal text of every `isize` -/
theorem parseIsize_printSpecInt (bits : Nat) (z : Int) (hlo : -(2 ^ (bits - 1) : Int) ≤ z) (hhi : z < (2 ^ (bits - 1) : Int)) :
    parseIsize bits (printSpecInt 10 false z) = .ok z := by
  have hne := printSpec_ne_nil 10 false z.natAbs (by omega)
  have hch := printSpec10_chars z.natAbs
  have hall : (printSpec 10 false z.natAbs).all (fun c => 48 ≤ c && c ≤ 57) = true := by
    rw [List.all_eq_true]; intro c hc; have := hch c hc; simp [this.1, this.2]
  unfold parseIsize printSpecInt
  by_cases hz : z < 0
  · simp only [hz, if_true, List.cons_append, List.nil_append]
    rw [if_neg (List.cons_ne_nil _ _)]
    have hs : stripSignF (45 :: printSpec 10 false z.natAbs) = (true, printSpec 10 false z.natAbs) := rfl
    simp only [hs]
    rw [if_neg hne, if_pos hall, ofDigits10_printSpec]
    have hv : -((z.natAbs : Nat) : Int) = z := by omega
    simp only [if_true]
    rw [hv, if_pos ⟨hlo, hhi⟩]
  · simp only [hz, if_false, List.nil_append]
    rw [if_neg hne]
    have hs : stripSignF (printSpec 10 false z.natAbs) = (false, printSpec 10 false z.natAbs) := by
      cases hp : printSpec 10 false z.natAbs with
      | nil => exact absurd hp hne
      | cons c t =>
        have hc := hch c (by rw [hp]; simp)
        exact stripSignF_other c t (by omega) (by omega)
    simp only [hs]
    rw [if_neg hne, if_pos hall, ofDigits10_printSpec]
    have hv : ((z.natAbs : Nat) : Int) = z := by omega
    simp only [Bool.false_eq_true, if_false]
    rw [hv, if_pos ⟨hlo, hhi⟩]

-- ---------------------------------------------------------------- digit strings

theorem chars_length (up : Bool) (ds : List Nat) : (chars up ds).length = ds.length := by simp [chars]

theorem chars_mem {up : Bool} {ds : List Nat} {c : Nat} (h : c ∈ chars up ds) : ∃ d ∈ ds, c = digitChar up d := by
  obtain ⟨d, hd, rfl⟩ := List.mem_map.mp h
  exact ⟨d, hd, rfl⟩

theorem countUs_chars (up : Bool) (ds : List Nat) (h : ∀ d ∈ ds, d < 36) : countUs (chars up ds) = 0 := by
  unfold countUs
  rw [List.length_eq_zero_iff, List.filter_eq_nil_iff]
  intro c hc
  obtain ⟨d, hd, rfl⟩ := chars_mem hc
  have := digitChar_ne_us up d (h d hd)
  simpa using this

/-- `parse_unsigned` on a non-empty digit string: Horner value -/
theorem parseUnsignedPart_chars (W : Nat) (hW : 36 < 2 ^ W) (B : Nat) (hB : validRadix B = true) (up : Bool)
    (ds : List Nat) (hds : ∀ d ∈ ds, d < B) (hne : ds ≠ []) :
    parseUnsignedPart W (chars up ds) B = .ok (ofDigits B ds) := by
  have hr := validRadix_iff.mp hB
  cases ds with
  | nil => exact absurd rfl hne
  | cons d t =>
    have hge := digitChar_ge up d
    unfold parseUnsignedPart
    have hhead : ((chars up (d :: t)).head? == some 43) = false := by
      simp [chars]; omega
    rw [hhead]
    simp only [Bool.false_eq_true, if_false]
    rw [parseRadix_spec W hW]
    unfold parseRadixSpec
    simp only [hB, Bool.not_true, Bool.false_eq_true, if_false]
    have hsp : splitSign false (chars up (d :: t)) = (false, chars up (d :: t)) := by
      simp only [chars, List.map_cons]
      unfold splitSign
      split
      · rename_i h; simp at h; omega
      · rename_i h; simp at h; omega
      · rfl
    rw [hsp]
    simp only []
    unfold parseBodySpec
    have hf := filter_us_map up (d :: t) (fun x hx => by have := hds x hx; omega)
    unfold chars
    rw [hf, digitValues_map B up hr.2 _ hds]
    simp [Except.map, applySign]

theorem stripSignF_sign (sign : Option Bool) (t : List Nat) (ht : ∀ c, t.head? = some c → c ≠ 45 ∧ c ≠ 43) :
    stripSignF (signChars sign ++ t) = (sign == some true, t) := by
  cases sign with
  | none =>
    simp only [signChars, List.nil_append]
    cases t with
    | nil => rfl
    | cons c t => have := ht c rfl; simpa using stripSignF_other c t this.1 this.2
  | some b => cases b <;> rfl

-- ---------------------------------------------------------------- the body

theorem chars_no_dot (up : Bool) (ds : List Nat) : ∀ c ∈ chars up ds, (c == 46) = false := by
  intro c hc
  obtain ⟨d, _, rfl⟩ := chars_mem hc
  have := digitChar_ge up d
  simp; omega

/-- the body `int [. frac]` of a plain literal: magnitude, exponent decrement and digit count -/
theorem parseBodyF_plain (W : Nat) (hW : 36 < 2 ^ W) (B : Nat) (hB : validRadix B = true) (hp : Bool)
    (hhp : (B == 2 && hp) = false) (up : Bool) (di : List Nat) (frac : Option (List Nat))
    (hdi : ∀ d ∈ di, d < B) (hdf : ∀ d ∈ frac.getD [], d < B) (hne : di ≠ [] ∨ frac.getD [] ≠ []) :
    ∃ mag dec : Nat, parseBodyF W B hp false (chars up di ++ fracChars up frac) =
        .ok (mag, dec, di.length + (frac.getD []).length) ∧
      mag * B ^ (frac.getD []).length = ofDigits B (di ++ frac.getD []) * B ^ dec ∧ dec ≤ (frac.getD []).length := by
  have hr := validRadix_iff.mp hB
  have h36 : ∀ d ∈ di, d < 36 := fun d hd => by have := hdi d hd; omega
  unfold parseBodyF
  cases frac with
  | none =>
    simp only [Option.getD_none, List.length_nil, Nat.add_zero, List.append_nil, fracChars, pow_zero, Nat.mul_one] at *
    have hdi' : di ≠ [] := by rcases hne with h | h; exact h; exact absurd rfl h
    rw [findIdx?_none _ (chars_no_dot up di)]
    simp only [hhp, Bool.false_eq_true, if_false, Bool.false_and, Bool.and_false]
    rw [parseUnsignedPart_chars W hW B hB up di hdi hdi']
    simp only [chars_length, countUs_chars up di h36, Nat.sub_zero]
    exact ⟨ofDigits B di, 0, rfl, by simp, Nat.le_refl _⟩
  | some df =>
    simp only [Option.getD_some, fracChars] at *
    have h36f : ∀ d ∈ df, d < 36 := fun d hd => by have := hdf d hd; omega
    rw [findIdx?_append_hit _ 46 _ (chars_no_dot up di) (by simp)]
    simp only [chars_length]
    have hlen : (chars up di ++ 46 :: chars up df).length ≠ 1 := by
      simp only [List.length_append, List.length_cons, chars_length]
      rcases hne with h | h
      · have := List.length_pos_of_ne_nil h; omega
      · have := List.length_pos_of_ne_nil h; omega
    rw [if_neg hlen]
    -- integral part
    have hint : parseIntPart W B hp false (chars up di ++ 46 :: chars up df) di.length =
        .ok (ofDigits B di, di.length, B) := by
      unfold parseIntPart
      by_cases hd0 : di = []
      · subst hd0; simp [ofDigits]
      · have : di.length ≠ 0 := fun h => hd0 (List.length_eq_zero_iff.mp h)
        rw [if_pos this]
        simp only [hhp, Bool.false_eq_true, if_false, Bool.false_and, Bool.and_false]
        have htake : (chars up di ++ 46 :: chars up df).take di.length = chars up di := by
          rw [← chars_length up di, List.take_left']; rfl
        rw [htake, parseUnsignedPart_chars W hW B hB up di hdi hd0]
        simp only [chars_length, countUs_chars up di h36, Nat.sub_zero]
    rw [hint]
    simp only []
    -- fractional part
    have hdrop : (chars up di ++ 46 :: chars up df).drop (di.length + 1) = chars up df := by
      rw [← chars_length up di, ← List.drop_drop, List.drop_left']; rfl; rfl
    rw [hdrop]
    have hb16 : (B == 2 && B == 16) = false := by
      by_cases h2 : B = 2
      · subst h2; rfl
      · simp [h2]
    have hfr : parseFracPart W B B (chars up df) = .ok (ofDigits B df, df.length) := by
      unfold parseFracPart
      by_cases hd0 : df = []
      · subst hd0; simp [chars, ofDigits]
      · have : chars up df ≠ [] := by
          intro h; apply hd0; have := congrArg List.length h; simp [chars_length] at this; exact this
        rw [if_pos this, parseUnsignedPart_chars W hW B hB up df hdf hd0]
        simp only [hb16, Bool.false_eq_true, if_false, chars_length, countUs_chars up df h36f, Nat.sub_zero]
    rw [hfr]
    simp only []
    have hnd : di.length + df.length ≠ 0 := by
      rcases hne with h | h
      · have := List.length_pos_of_ne_nil h; omega
      · have := List.length_pos_of_ne_nil h; omega
    rw [if_neg hnd]
    by_cases hf0 : ofDigits B df = 0
    · rw [if_pos hf0]
      refine ⟨ofDigits B di, 0, rfl, ?_, Nat.zero_le _⟩
      rw [ofDigits_append, hf0]; simp
    · rw [if_neg hf0]
      refine ⟨ofDigits B di * B ^ df.length + ofDigits B df, df.length, rfl, ?_, Nat.le_refl _⟩
      rw [ofDigits_append]

-- ---------------------------------------------------------------- the whole literal

theorem isScaleMarker_false_of (B : Nat) (hp : Bool) (h : B = 2 → hp = false) (c : Nat) :
    isScaleMarker B hp c = isScaleMarker B false c := by
  by_cases h2 : B = 2
  · rw [h h2]
  · unfold isScaleMarker; simp [h2]

theorem hasHexPrefix_false (t : List Nat) (h : ∀ c ∈ t, c ≠ 120 ∧ c ≠ 88) : hasHexPrefix t = false := by
  unfold hasHexPrefix
  cases t with
  | nil => rfl
  | cons a t =>
    cases t with
    | nil => simp
    | cons b t =>
      have := h b (by simp)
      simp [List.take, this.1, this.2]

theorem body_no_marker (B : Nat) (hB : B ≤ 36) (up : Bool) (di : List Nat) (frac : Option (List Nat))
    (hdi : ∀ d ∈ di, d < B) (hdf : ∀ d ∈ frac.getD [], d < B) :
    ∀ c ∈ chars up di ++ fracChars up frac, isScaleMarker B false c = false := by
  intro c hc
  rcases List.mem_append.mp hc with h | h
  · obtain ⟨d, hd, rfl⟩ := chars_mem h
    exact isScaleMarker_digitChar B hB up d (hdi d hd)
  · cases frac with
    | none => simp [fracChars] at h
    | some df =>
      simp only [fracChars, List.mem_cons] at h
      rcases h with h | h
      · subst h; exact isScaleMarker_dot B false
      · obtain ⟨d, hd, rfl⟩ := chars_mem h
        exact isScaleMarker_digitChar B hB up d (hdf d (by simpa using hd))

theorem printSpecInt10_chars (z : Int) : ∀ c ∈ printSpecInt 10 false z, c = 45 ∨ (48 ≤ c ∧ c ≤ 57) := by
  intro c hc
  unfold printSpecInt at hc
  rcases List.mem_append.mp hc with h | h
  · split at h <;> simp at h; left; exact h
  · right; exact printSpec10_chars _ c h

/-- **grammar ⇒ exact value, precision = number of written digits.**  A literal
    `[sign] int [. frac] [@ scale]` of base `B` (digits in either letter case; `int`/`frac` not both
    empty; `scale` any `isize`) parses to the float `±(int·B^|frac| + frac)·B^(scale − |frac|)` — as a
    rational number, exactly — and the precision is `|int| + |frac|`. -/
theorem literal_exact (W : Nat) (hW : 36 < 2 ^ W) (B : Nat) (hB : validRadix B = true) (up : Bool)
    (sign : Option Bool) (di : List Nat) (frac : Option (List Nat)) (scale : Option Int)
    (hdi : ∀ d ∈ di, d < B) (hdf : ∀ d ∈ frac.getD [], d < B) (hne : di ≠ [] ∨ frac.getD [] ≠ [])
    (hs : ∀ z, scale = some z → -(2 ^ 63 : Int) ≤ z ∧ z < (2 ^ 63 : Int)) :
    ∃ r : FRepr, fromStrNative W B (renderLiteral up sign di frac scale) =
        .ok (r, di.length + (frac.getD []).length) ∧
      r.toRat B = (if sign = some true then -1 else 1) * (ofDigits B (di ++ frac.getD []) : ℚ) *
        bpowQ B (scale.getD 0 - ((frac.getD []).length : Int)) := by
  have hr := validRadix_iff.mp hB
  have hB0 : 0 < B := by omega
  generalize hbody : chars up di ++ fracChars up frac = body at *
  generalize hsc : scaleChars scale = sc at *
  -- characters
  have hbody_chars : ∀ c ∈ body, c = 46 ∨ ∃ d, d < B ∧ c = digitChar up d := by
    intro c hc; rw [← hbody] at hc
    rcases List.mem_append.mp hc with h | h
    · obtain ⟨d, hd, rfl⟩ := chars_mem h; exact Or.inr ⟨d, hdi d hd, rfl⟩
    · cases frac with
      | none => simp [fracChars] at h
      | some df =>
        simp only [fracChars, List.mem_cons] at h
        rcases h with h | h
        · exact Or.inl h
        · obtain ⟨d, hd, rfl⟩ := chars_mem h; exact Or.inr ⟨d, hdf d (by simpa using hd), rfl⟩
  have hsc_chars : ∀ c ∈ sc, c = 64 ∨ c = 45 ∨ (48 ≤ c ∧ c ≤ 57) := by
    intro c hc; rw [← hsc] at hc
    cases scale with
    | none => simp [scaleChars] at hc
    | some z =>
      simp only [scaleChars, List.mem_cons] at hc
      rcases hc with h | h
      · exact Or.inl h
      · exact Or.inr (printSpecInt10_chars z c h)
  have hbody_ne : body ≠ [] := by
    rw [← hbody]
    rcases hne with h | h
    · intro h0; have := congrArg List.length h0; simp [chars_length] at this
      exact h this.1
    · cases frac with
      | none => exact absurd rfl h
      | some df => simp [fracChars]
  -- sign
  have hsign := stripSignF_sign sign (body ++ sc) (by
    intro c hc
    cases hb : body with
    | nil => exact absurd hb hbody_ne
    | cons a t =>
      rw [hb] at hc; simp at hc; subst hc
      rcases hbody_chars a (by rw [hb]; simp) with h | ⟨d, _, h⟩
      · omega
      · have := digitChar_ge up d; omega)
  -- hexadecimal prefix only matters in base 2
  have hhp2 : B = 2 → hasHexPrefix (body ++ sc) = false := by
    intro h2
    apply hasHexPrefix_false
    intro c hc
    rcases List.mem_append.mp hc with h | h
    · rcases hbody_chars c h with h | ⟨d, hd, h⟩
      · omega
      · subst h2; unfold digitChar at h; have : d < 10 := by omega
        simp [this] at h; omega
    · rcases hsc_chars c h with h | h | h <;> omega
  have hhp : (B == 2 && hasHexPrefix (body ++ sc)) = false := by
    by_cases h2 : B = 2
    · rw [hhp2 h2]; simp
    · simp [h2]
  -- scale
  have hbm : ∀ c ∈ body, isScaleMarker B (hasHexPrefix (body ++ sc)) c = false := by
    intro c hc
    rw [isScaleMarker_false_of B _ hhp2]
    rw [← hbody] at hc
    exact body_no_marker B hr.2 up di frac hdi hdf c hc
  have hsplit : splitScale B (hasHexPrefix (body ++ sc)) (body ++ sc) = .ok (scale.getD 0, false, body) := by
    unfold splitScale
    cases scale with
    | none =>
      simp only [scaleChars] at hsc; subst hsc
      simp only [List.append_nil] at hbm ⊢
      rw [rfindIdx_none _ hbm]; rfl
    | some z =>
      simp only [scaleChars] at hsc; subst hsc
      have hdec : ∀ c ∈ printSpecInt 10 false z, isScaleMarker B (hasHexPrefix (body ++ 64 :: printSpecInt 10 false z)) c = false :=
        fun c hc => isScaleMarker_dec B _ c (printSpecInt10_chars z c hc)
      rw [rfindIdx_hit body 64 _ hdec (isScaleMarker_at B _)]
      simp only []
      have hdrop : (body ++ 64 :: printSpecInt 10 false z).drop (body.length + 1) = printSpecInt 10 false z := by
        rw [← List.drop_drop, List.drop_left']; rfl; rfl
      have hz := hs z rfl
      rw [hdrop, parseIsize_printSpecInt 64 z (by simpa using hz.1) (by simpa using hz.2)]
      simp only []
      have hget : (body ++ 64 :: printSpecInt 10 false z).getD body.length 0 = 64 := by
        simp [List.getD_eq_getElem?_getD]
      rw [hget, List.take_left' rfl]
      simp
  -- body
  obtain ⟨mag, dec, hpb, hrel, hdec⟩ := parseBodyF_plain W hW B hB (hasHexPrefix (body ++ sc)) hhp up di frac hdi hdf hne
  rw [hbody] at hpb
  -- assemble
  refine ⟨FRepr.new B (if (sign == some true) = true then -(mag : Int) else (mag : Int)) (scale.getD 0 - (dec : Int)), ?_, ?_⟩
  · unfold fromStrNative fromStrNativeRaw renderLiteral
    rw [hbody, hsc]
    simp only [hsign, hsplit, hpb, Except.map]
  · rw [FRepr.new_value B hB0]
    generalize (frac.getD []).length = fd at *
    generalize ofDigits B (di ++ frac.getD []) = X at *
    -- mag · B^(scale − dec) = X · B^(scale − fd)
    have hq : (mag : ℚ) * bpowQ B (scale.getD 0 - (dec : Int)) = (X : ℚ) * bpowQ B (scale.getD 0 - (fd : Int)) := by
      have e1 : scale.getD 0 - (dec : Int) = (scale.getD 0 - (fd : Int)) + ((fd - dec : Nat) : Int) := by omega
      rw [e1, bpowQ_add B hB0, bpowQ_nat]
      have hrel' : mag * B ^ (fd - dec) = X := by
        have hp : 0 < B ^ dec := Nat.pow_pos hB0
        have : B ^ fd = B ^ (fd - dec) * B ^ dec := by rw [← pow_add]; congr 1; omega
        rw [this, ← Nat.mul_assoc] at hrel
        exact Nat.eq_of_mul_eq_mul_right hp hrel
      rw [← hrel']; push_cast; ring
    by_cases hneg : sign = some true
    · subst hneg
      simp only [beq_self_eq_true, if_true]
      push_cast
      rw [neg_mul, hq]; ring
    · have hb : (sign == some true) = false := by simpa using hneg
      simp only [hb, Bool.false_eq_true, if_false, hneg]
      push_cast
      rw [hq]; ring

-- ---------------------------------------------------------------- Display → parse

theorem rep_zero_chars (up : Bool) (k : Nat) : rep k [48] = chars up (List.replicate k 0) := by
  unfold rep chars
  induction k with
  | zero => rfl
  | succ k ih =>
    rw [List.replicate_succ, List.flatten_cons, ih, List.replicate_succ, List.map_cons]
    simp [digitChar]

theorem ofDigits_replicate_zero_append (B k : Nat) (ds : List Nat) :
    ofDigits B (List.replicate k 0 ++ ds) = ofDigits B ds := by
  induction k with
  | zero => rfl
  | succ k ih => rw [List.replicate_succ, List.cons_append, ofDigits_cons, ih]; simp

theorem ofDigits_append_replicate_zero (B k : Nat) (ds : List Nat) :
    ofDigits B (ds ++ List.replicate k 0) = ofDigits B ds * B ^ k := by
  rw [ofDigits_append, List.length_replicate]
  have : ofDigits B (List.replicate k 0) = 0 := by
    have := ofDigits_replicate_zero_append B k []
    simpa [ofDigits] using this
  rw [this, Nat.add_zero]

theorem printSpecInt_drop (B : Nat) (s : Int) :
    (if s < 0 then (printSpecInt B false s).drop 1 else printSpecInt B false s) = chars false (digits B s.natAbs) := by
  unfold printSpecInt printSpec chars
  by_cases h : s < 0 <;> simp [h]

/-- the text `Display` produces (no precision, width or `+`) is a plain literal of the grammar -/
theorem display_is_literal (B : Nat) (hB : 2 ≤ B) (m : Mode) (r : FRepr) :
    ∃ (di : List Nat) (frac : Option (List Nat)),
      fmtRound B m {} none r = renderLiteral false (if r.signif < 0 then some true else none) di frac none ∧
      (∀ d ∈ di, d < B) ∧ (∀ d ∈ frac.getD [], d < B) ∧ (di ≠ [] ∨ frac.getD [] ≠ []) ∧
      (ofDigits B (di ++ frac.getD []) : ℚ) * bpowQ B (0 - ((frac.getD []).length : Int)) =
        (r.signif.natAbs : ℚ) * bpowQ B r.exp := by
  have hB0 : 0 < B := by omega
  have hD := digits_lt hB r.signif.natAbs
  have hDne := digits_ne_nil B r.signif.natAbs hB
  have hDv := ofDigits_digits hB r.signif.natAbs
  generalize hDdef : digits B r.signif.natAbs = D at *
  have hsignstr := printSpecInt_drop B r.signif
  rw [hDdef] at hsignstr
  have hsign : (if decide (r.signif < 0) = true then [45] else if ({} : FmtSpec).plus = true then [43] else ([] : List Nat)) =
      signChars (if r.signif < 0 then some true else none) := by
    by_cases h : r.signif < 0 <;> simp [h, signChars]
  unfold fmtRound
  simp only [decide_eq_true_eq]
  rw [hsignstr]
  simp only [rep, List.replicate_zero, List.flatten_nil, List.nil_append, List.append_nil, Bool.not_false,
    if_true, Bool.false_eq_true, if_false]
  by_cases he : r.exp < 0
  · -- a fractional part is printed
    simp only [he, if_true]
    obtain ⟨e, hee⟩ : ∃ e : Nat, -r.exp = (e : Int) ∧ 1 ≤ e := ⟨(-r.exp).toNat, by omega, by omega⟩
    have hen : (-r.exp).toNat = e := by omega
    rw [hen]
    have hDlen : (chars false D).length = D.length := chars_length false D
    have hL : 1 ≤ D.length := List.length_pos_of_ne_nil hDne
    have hfd : ((chars false D).drop ((chars false D).length - e)).length > 0 := by
      rw [List.length_drop, hDlen]; omega
    rw [if_pos hfd]
    have htake : (chars false D).take ((chars false D).length - e) = chars false (D.take (D.length - e)) := by
      rw [hDlen]; unfold chars; rw [List.map_take]
    have hdrop : (chars false D).drop ((chars false D).length - e) = chars false (D.drop (D.length - e)) := by
      rw [hDlen]; unfold chars; rw [List.map_drop]
    rw [htake, hdrop]
    have hdl : (chars false (D.drop (D.length - e))).length = D.length - (D.length - e) := by
      rw [chars_length, List.length_drop]
    rw [hdl]
    -- the literal
    refine ⟨if D.take (D.length - e) = [] then [0] else D.take (D.length - e),
      some (List.replicate (e - (D.length - (D.length - e))) 0 ++ D.drop (D.length - e)), ?_, ?_, ?_, ?_, ?_⟩
    · unfold renderLiteral scaleChars fracChars
      rw [List.append_nil]
      congr 1
      · by_cases h : r.signif < 0 <;> simp [h, signChars]
      · have hrep : (List.replicate (e - (D.length - (D.length - e))) [48]).flatten =
            chars false (List.replicate (e - (D.length - (D.length - e))) 0) := rep_zero_chars false _
        rw [hrep]
        have hint : (if chars false (D.take (D.length - e)) = [] then [48] else chars false (D.take (D.length - e))) =
            chars false (if D.take (D.length - e) = [] then [0] else D.take (D.length - e)) := by
          by_cases h0 : D.take (D.length - e) = []
          · simp [h0, chars, digitChar]
          · have : chars false (D.take (D.length - e)) ≠ [] := by
              intro h; apply h0; have hl := congrArg List.length h
              rw [chars_length] at hl
              exact List.length_eq_zero_iff.mp hl
            simp [h0, this]
        rw [hint]
        unfold chars
        simp [List.map_append, List.append_assoc]
    · intro d hd
      split at hd
      · simp at hd; omega
      · exact hD d (List.mem_of_mem_take hd)
    · intro d hd
      simp only [Option.getD_some] at hd
      rcases List.mem_append.mp hd with h | h
      · have := List.eq_of_mem_replicate h; omega
      · exact hD d (List.mem_of_mem_drop h)
    · left; split <;> simp_all
    · simp only [Option.getD_some, List.length_append, List.length_replicate, List.length_drop]
      have hlen : e - (D.length - (D.length - e)) + (D.length - (D.length - e)) = e := by omega
      rw [hlen]
      have hval : ofDigits B ((if D.take (D.length - e) = [] then [0] else D.take (D.length - e)) ++
          (List.replicate (e - (D.length - (D.length - e))) 0 ++ D.drop (D.length - e))) = r.signif.natAbs := by
        rw [← hDv]
        by_cases hle : e ≤ D.length
        · have h0 : e - (D.length - (D.length - e)) = 0 := by omega
          rw [h0, List.replicate_zero, List.nil_append]
          by_cases ht : D.take (D.length - e) = []
          · rw [if_pos ht]
            have : D.drop (D.length - e) = D := by
              conv_rhs => rw [← List.take_append_drop (D.length - e) D, ht, List.nil_append]
            rw [this, List.singleton_append, ofDigits_cons]; simp
          · rw [if_neg ht, List.take_append_drop]
        · have hc : D.length - e = 0 := by omega
          rw [hc, List.take_zero, if_pos rfl, List.drop_zero]
          have e1 : [0] ++ (List.replicate (e - (D.length - 0)) 0 ++ D) =
              List.replicate (e - (D.length - 0) + 1) 0 ++ D := by
            rw [List.replicate_succ]; simp
          rw [e1, ofDigits_replicate_zero_append]
      rw [hval]
      have : (0 : Int) - (e : Int) = r.exp := by omega
      rw [this]
  · -- an integer is printed
    simp only [he, if_false]
    have hne' : chars false D ≠ [] := by
      intro h; apply hDne; have := congrArg List.length h; simpa [chars_length] using this
    rw [if_neg hne']
    refine ⟨D ++ List.replicate r.exp.toNat 0, none, ?_, ?_, ?_, ?_, ?_⟩
    · unfold renderLiteral scaleChars fracChars
      rw [List.append_nil, List.append_nil]
      congr 1
      · by_cases h : r.signif < 0 <;> simp [h, signChars]
      · have := rep_zero_chars false r.exp.toNat
        unfold rep at this
        rw [this]; unfold chars; rw [List.map_append]
    · intro d hd
      rcases List.mem_append.mp hd with h | h
      · exact hD d h
      · have := List.eq_of_mem_replicate h; omega
    · intro d hd; simp at hd
    · left; intro h; apply hDne; have := congrArg List.length h; simp at this; exact this.1
    · simp only [Option.getD_none, List.append_nil, List.length_nil]
      rw [ofDigits_append_replicate_zero, hDv]
      have h0 : bpowQ B (0 - ((0 : Nat) : Int)) = 1 := by simp [bpowQ]
      rw [h0, Nat.cast_mul, mul_one]
      have : bpowQ B r.exp = ((B ^ r.exp.toNat : Nat) : ℚ) := by
        conv_lhs => rw [← Int.toNat_of_nonneg (by omega : 0 ≤ r.exp)]
        exact bpowQ_nat B _
      rw [this]

/-- **print → parse round trip**: the text `Display` prints for a finite float (no precision
    option) parses back, in the same base, to a float with exactly the same value — every base 2..36,
    every rounding mode, every significand and exponent -/
theorem display_parse_round_trip (W : Nat) (hW : 36 < 2 ^ W) (B : Nat) (hB : validRadix B = true)
    (m : Mode) (r : FRepr) :
    ∃ (r' : FRepr) (n : Nat), fromStrNative W B (fmtRound B m {} none r) = .ok (r', n) ∧
      r'.toRat B = r.toRat B := by
  have hr := validRadix_iff.mp hB
  obtain ⟨di, frac, htext, hdi, hdf, hne, hval⟩ := display_is_literal B hr.1 m r
  obtain ⟨r', hparse, hv⟩ := literal_exact W hW B hB false _ di frac none hdi hdf hne (by intro z h; cases h)
  refine ⟨r', _, by rw [htext]; exact hparse, ?_⟩
  rw [hv]
  simp only [Option.getD_none]
  unfold FRepr.toRat
  rw [mul_assoc, hval]
  by_cases h : r.signif < 0
  · have : ((r.signif.natAbs : Nat) : ℚ) = -(r.signif : ℚ) := by
      rw [Nat.cast_natAbs, Int.cast_abs]
      exact abs_of_neg (by exact_mod_cast h)
    simp [h, this]
  · have : ((r.signif.natAbs : Nat) : ℚ) = (r.signif : ℚ) := by
      rw [Nat.cast_natAbs, Int.cast_abs]
      exact abs_of_nonneg (by exact_mod_cast (by omega : 0 ≤ r.signif))
    simp [h, this]

end Dashu.Model.Text
