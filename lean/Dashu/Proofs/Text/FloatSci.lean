import Dashu.Proofs.Text.FloatWidth
import Dashu.Proofs.Float.Closing
/-
  C08 — the scientific formats (`fmt_round_scientific`, float/src/fmt.rs: `LowerExp`, `UpperExp`,
  `Binary`, `Octal`, `LowerHex`, `UpperHex` incl. the hexadecimal form `0xh.hhhp±e` of base 2):
  * the rounding step: with a precision `p` the significand is rounded — under the type's mode — to
    `p + 1` significant digits (`4p + 4` bits for the hexadecimal form); a carry into a new digit
    (`9.99 → 10.0`) is dropped again without changing the value;
  * the text: one digit, the point, the remaining digits and zeros — exactly `p` of them —, the
    marker and the decimal exponent; it DENOTES the rounded value:
    `(d₀.d₁d₂…)_radix · B^exponent = |rounded significand| · B^exponent'`.
-/
namespace Dashu.Model.Text
open Dashu.Model.Float Dashu.Props.GenRound

-- ---------------------------------------------------------------- the rounding step

/-- the number of significant base-`B` digits kept by `{:.p0e}`: `p0 + 1`, resp. `4·p0 + 4` bits for the
    hexadecimal form -/
def sciDigits (useHex : Bool) (p0 : Nat) : Nat := if useHex then p0 * 4 + 4 else p0 + 1

/-- the number of base-`B` digits dropped by the rounding step -/
def sciShift (B : Nat) (p0 : Nat) (useHex : Bool) (r : FRepr) : Nat :=
  digitsI B r.signif - sciDigits useHex p0

/-- the significand rounded to `sciDigits` digits: an integer multiple of the unit `B^(exp + shift)` -/
def sciRounded (B : Nat) (m : Mode) (p0 : Nat) (useHex : Bool) (r : FRepr) : Int :=
  if digitsI B r.signif > sciDigits useHex p0 then
    let hl := splitDigits B r.signif (sciShift B p0 useHex r)
    hl.1 + rInt (roundFract B m coarseNone hl.1 hl.2 (sciShift B p0 useHex r))
  else r.signif

theorem sciDigits_cast (useHex : Bool) (p0 : Nat) :
    (if useHex then (p0 : Int) * 4 + 4 else (p0 : Int) + 1) = ((sciDigits useHex p0 : Nat) : Int) := by
  unfold sciDigits; cases useHex <;> simp

theorem sciDigits_pos (useHex : Bool) (p0 : Nat) : 1 ≤ sciDigits useHex p0 := by
  unfold sciDigits; cases useHex <;> simp

/-- the pair `fmt_round_scientific` prints, in terms of `sciRounded` -/
theorem sciPair_some (B : Nat) (m : Mode) (p0 : Nat) (useHex : Bool) (r : FRepr) :
    sciPair B m (some p0) useHex r =
      if digitsI B r.signif > sciDigits useHex p0 then
        (if digitsI B (sciRounded B m p0 useHex r) > sciDigits useHex p0 then
          (Int.tdiv (sciRounded B m p0 useHex r) B, r.exp + (sciShift B p0 useHex r : Int) + 1)
        else (sciRounded B m p0 useHex r, r.exp + (sciShift B p0 useHex r : Int)))
      else (r.signif, r.exp) := by
  unfold sciPair sciRounded sciShift
  simp only [sciDigits_cast]
  by_cases h : digitsI B r.signif > sciDigits useHex p0
  · have hd : ((sciDigits useHex p0 : Nat) : Int) - ((digitsI B r.signif : Nat) : Int) < 0 := by omega
    have hs : (-(((sciDigits useHex p0 : Nat) : Int) - ((digitsI B r.signif : Nat) : Int))).toNat =
        digitsI B r.signif - sciDigits useHex p0 := by omega
    simp only [hd, h, if_true, hs]
    have he : r.exp - (((sciDigits useHex p0 : Nat) : Int) - ((digitsI B r.signif : Nat) : Int)) =
        r.exp + ((digitsI B r.signif - sciDigits useHex p0 : Nat) : Int) := by omega
    rw [he]
    simp only [Nat.cast_lt]
  · have hd : ¬ ((sciDigits useHex p0 : Nat) : Int) - ((digitsI B r.signif : Nat) : Int) < 0 := by omega
    simp only [hd, h, if_false]

/-- **the rounding step of the scientific formats is the mode's rounding** of `signif / B^shift`, i.e. of
    the value in units of `B^(exp + shift)` — the last of the `p + 1` digits shown -/
theorem sciRounded_spec (B : Nat) (hB : 2 ≤ B) (m : Mode) (p0 : Nat) (useHex : Bool) (r : FRepr) :
    ModeSpec m r.signif ((B ^ sciShift B p0 useHex r : Nat) : Int) (sciRounded B m p0 useHex r) := by
  unfold sciRounded
  by_cases h : digitsI B r.signif > sciDigits useHex p0
  · simp only [h, if_true]
    obtain ⟨hsplit, hlt, _, _⟩ := splitDigits_spec B hB r.signif (sciShift B p0 useHex r)
    have hh := roundFract_spec' B hB m coarseNone coarseNone_sound
      (splitDigits B r.signif (sciShift B p0 useHex r)).1
      (splitDigits B r.signif (sciShift B p0 useHex r)).2 (sciShift B p0 useHex r) hlt
    rw [← hsplit] at hh
    exact hh
  · simp only [h, if_false]
    have h0 : sciShift B p0 useHex r = 0 := by unfold sciShift; omega
    rw [h0, pow_zero, Nat.cast_one]
    have := modeSpec_exact m r.signif 1 (by omega)
    rwa [mul_one] at this

/-- the rounded significand has at most one digit more than wanted, and then it is `±B^P` -/
theorem sciRounded_abs_le (B : Nat) (hB : 2 ≤ B) (m : Mode) (p0 : Nat) (useHex : Bool) (r : FRepr)
    (h : digitsI B r.signif > sciDigits useHex p0) :
    |sciRounded B m p0 useHex r| ≤ ((B ^ sciDigits useHex p0 : Nat) : Int) := by
  unfold sciRounded
  simp only [h, if_true]
  apply abs_add_rInt_le
  apply split_hi_lt B hB
  have := digitsI_abs_lt B hB r.signif
  have e : sciDigits useHex p0 + sciShift B p0 useHex r = digitsI B r.signif := by unfold sciShift; omega
  rw [e]; exact this

theorem digitsI_gt_imp (B : Nat) (hB : 2 ≤ B) (v : Int) (P : Nat) (h : digitsI B v > P) :
    ((B ^ P : Nat) : Int) ≤ |v| := by
  by_contra hc
  rw [not_le] at hc
  have : v.natAbs < B ^ P := by
    have : ((v.natAbs : Nat) : Int) < ((B ^ P : Nat) : Int) := by rw [Int.natCast_natAbs]; exact hc
    exact_mod_cast this
  have := digits_le_of_lt_pow B hB v.natAbs P this
  unfold digitsI at h; omega

theorem digitsI_le_of_abs_lt (B : Nat) (hB : 2 ≤ B) (v : Int) (P : Nat) (h : |v| < ((B ^ P : Nat) : Int)) :
    digitsI B v ≤ P := by
  unfold digitsI
  apply digits_le_of_lt_pow B hB
  have : ((v.natAbs : Nat) : Int) < ((B ^ P : Nat) : Int) := by rw [Int.natCast_natAbs]; exact h
  exact_mod_cast this

/-- **what is printed is the rounded value, in at most `P` digits**: the pair `(S, e)` handed to the
    digit printer satisfies `S · B^e = R · B^(exp + shift)` (`R` the rounded significand — dropping the
    carry digit does not change the value) and `S` has at most `P = p + 1` (`4p + 4`) digits -/
theorem sciPair_value (B : Nat) (hB : 2 ≤ B) (m : Mode) (p0 : Nat) (useHex : Bool) (r : FRepr) :
    ((sciPair B m (some p0) useHex r).1 : ℚ) * bpowQ B (sciPair B m (some p0) useHex r).2 =
        (sciRounded B m p0 useHex r : ℚ) * bpowQ B (r.exp + (sciShift B p0 useHex r : Int)) ∧
      digitsI B (sciPair B m (some p0) useHex r).1 ≤ sciDigits useHex p0 := by
  have hB0 : 0 < B := by omega
  rw [sciPair_some]
  by_cases h : digitsI B r.signif > sciDigits useHex p0
  · simp only [h, if_true]
    by_cases hc : digitsI B (sciRounded B m p0 useHex r) > sciDigits useHex p0
    · simp only [hc, if_true]
      -- the carry: |R| = B^P
      have hle := sciRounded_abs_le B hB m p0 useHex r h
      have hge := digitsI_gt_imp B hB _ _ hc
      have habs : |sciRounded B m p0 useHex r| = ((B ^ sciDigits useHex p0 : Nat) : Int) := le_antisymm hle hge
      obtain ⟨P, hP⟩ : ∃ P, sciDigits useHex p0 = P + 1 := ⟨sciDigits useHex p0 - 1, by have := sciDigits_pos useHex p0; omega⟩
      rw [hP] at habs ⊢
      generalize sciRounded B m p0 useHex r = R at *
      have hpow : ((B ^ (P + 1) : Nat) : Int) = ((B ^ P : Nat) : Int) * (B : Int) := by push_cast; ring
      have hBi : (0 : Int) < (B : Int) := by exact_mod_cast hB0
      have hPp := natpow_pos B hB0 P
      have hR : R = ((B ^ P : Nat) : Int) * (B : Int) ∨ R = -(((B ^ P : Nat) : Int) * (B : Int)) := by
        rw [hpow] at habs
        rcases abs_cases R with ⟨h1, _⟩ | ⟨h1, _⟩ <;> [left; right] <;> omega
      have hdiv : Int.tdiv R B * (B : Int) = R ∧ |Int.tdiv R B| = ((B ^ P : Nat) : Int) := by
        rcases hR with h1 | h1
        · have : Int.tdiv R B = ((B ^ P : Nat) : Int) := by
            rw [h1]; exact Int.mul_tdiv_cancel _ (by omega)
          rw [this]; exact ⟨h1.symm, abs_of_pos hPp⟩
        · have : Int.tdiv R B = -((B ^ P : Nat) : Int) := by
            rw [h1, ← Int.neg_mul]; exact Int.mul_tdiv_cancel _ (by omega)
          rw [this]; exact ⟨by rw [h1]; ring, by rw [abs_neg]; exact abs_of_pos hPp⟩
      constructor
      · have e1 : r.exp + (sciShift B p0 useHex r : Int) + 1 = 1 + (r.exp + (sciShift B p0 useHex r : Int)) := by ring
        rw [e1, bpowQ_add B hB0]
        have e2 : bpowQ B 1 = (B : ℚ) := by
          have := bpowQ_nat B 1; simpa using this
        rw [e2, ← mul_assoc]
        congr 1
        have := hdiv.1
        exact_mod_cast this
      · apply digitsI_le_of_abs_lt B hB
        rw [hdiv.2, hpow]
        have : (2 : Int) ≤ (B : Int) := by exact_mod_cast hB
        nlinarith
    · simp only [hc, if_false]
      exact ⟨trivial, by omega⟩
  · simp only [h, if_false]
    have h0 : sciShift B p0 useHex r = 0 := by unfold sciShift; omega
    have hR : sciRounded B m p0 useHex r = r.signif := by unfold sciRounded; simp only [h, if_false]
    rw [h0, hR]
    exact ⟨by simp, by omega⟩

-- ---------------------------------------------------------------- sign and non-vanishing

/-- a quotient of magnitude at least one does not round to zero, in any mode -/
theorem modeSpec_ne_zero (m : Mode) (N D R : Int) (hD : 0 < D) (h : ModeSpec m N D R) (hN : D ≤ |N|) : R ≠ 0 := by
  intro h0
  subst h0
  have hfl : IsFloor N D 0 → False := by
    rintro ⟨h1, h2⟩
    rw [abs_of_nonneg (by omega)] at hN; omega
  have hce : IsCeil N D 0 → False := by
    rintro ⟨h1, h2⟩
    rw [abs_of_nonpos (by omega)] at hN; omega
  have hne : |2 * N - 2 * (0 * D)| ≤ D → False := by
    intro h1
    have h3 : |2 * N| ≤ D := by simpa using h1
    rw [abs_mul] at h3
    have h2 : |(2 : Int)| = 2 := by decide
    rw [h2] at h3
    have := abs_nonneg N
    omega
  cases m <;> simp only [ModeSpec, IsTowardZero, IsAwayFromZero, IsNearestEven, IsNearestAway] at h
  · split at h
    · exact hfl h
    · exact hce h
  · split at h
    · exact hce h
    · exact hfl h
  · exact hce h
  · exact hfl h
  · exact hne h.1
  · exact hne h.1

theorem sciRounded_sign (B : Nat) (hB : 2 ≤ B) (m : Mode) (p0 : Nat) (useHex : Bool) (r : FRepr) :
    (r.signif < 0 → sciRounded B m p0 useHex r < 0) ∧ (0 ≤ r.signif → 0 ≤ sciRounded B m p0 useHex r) := by
  have hD := natpow_pos B (by omega) (sciShift B p0 useHex r)
  have hspec := sciRounded_spec B hB m p0 useHex r
  obtain ⟨h1, h2⟩ := modeSpec_sign m _ _ _ hD hspec
  refine ⟨fun hneg => ?_, h2⟩
  have hle := h1 (by omega)
  have hne : sciRounded B m p0 useHex r ≠ 0 := by
    apply modeSpec_ne_zero m _ _ _ hD hspec
    -- |signif| ≥ B^(n−1) ≥ B^shift
    obtain ⟨hlow, hpos⟩ := digitsI_lower B hB r.signif (by omega)
    have : B ^ sciShift B p0 useHex r ≤ B ^ (digitsI B r.signif - 1) := by
      apply Nat.pow_le_pow_right (by omega)
      unfold sciShift
      have := sciDigits_pos useHex p0
      omega
    have h3 : ((B ^ sciShift B p0 useHex r : Nat) : Int) ≤ ((r.signif.natAbs : Nat) : Int) := by
      exact_mod_cast le_trans this hlow
    rwa [Int.natCast_natAbs] at h3
  omega

/-- the printed significand keeps the sign of the number and vanishes only for zero -/
theorem sciPair_sign (B : Nat) (hB : 2 ≤ B) (m : Mode) (prec : Option Nat) (useHex : Bool) (r : FRepr) :
    (r.signif < 0 → (sciPair B m prec useHex r).1 < 0) ∧ (0 ≤ r.signif → 0 ≤ (sciPair B m prec useHex r).1) := by
  cases prec with
  | none => exact ⟨fun h => h, fun h => h⟩
  | some p0 =>
    rw [sciPair_some]
    obtain ⟨h1, h2⟩ := sciRounded_sign B hB m p0 useHex r
    have hBi : (0 : Int) < (B : Int) := by exact_mod_cast (by omega : 0 < B)
    by_cases h : digitsI B r.signif > sciDigits useHex p0
    · simp only [h, if_true]
      by_cases hc : digitsI B (sciRounded B m p0 useHex r) > sciDigits useHex p0
      · simp only [hc, if_true]
        have hge := digitsI_gt_imp B hB _ _ hc
        have hP : ((B ^ 1 : Nat) : Int) ≤ ((B ^ sciDigits useHex p0 : Nat) : Int) := by
          exact_mod_cast Nat.pow_le_pow_right (by omega) (sciDigits_pos useHex p0)
        have hB1 : ((B ^ 1 : Nat) : Int) = (B : Int) := by simp
        generalize sciRounded B m p0 useHex r = R at *
        constructor
        · intro hneg
          have hR := h1 hneg
          rw [abs_of_neg hR] at hge
          have : Int.tdiv R B ≤ -1 := by
            have e : R = -(-R) := by ring
            rw [e, Int.neg_tdiv]
            have : 1 ≤ Int.tdiv (-R) B := by
              rw [Int.tdiv_eq_ediv_of_nonneg (by omega)]
              exact (Int.le_ediv_iff_mul_le hBi).mpr (by omega)
            omega
          omega
        · intro hnn
          exact Int.tdiv_nonneg (h2 hnn) (by omega)
      · simp only [hc, if_false]; exact ⟨h1, h2⟩
    · simp only [h, if_false]; exact ⟨fun h => h, fun h => h⟩

-- ---------------------------------------------------------------- the text

/-- radix of the digits shown (`16` for the hexadecimal form of base 2) and base-`B` digits per shown digit -/
def sciRadix (B : Nat) (useHex : Bool) : Nat := if useHex then 16 else B
def sciK (useHex : Bool) : Nat := if useHex then 4 else 1

theorem sciRadix_eq_pow (B : Nat) (useHex : Bool) (hhex : useHex = true → B = 2) :
    sciRadix B useHex = B ^ sciK useHex := by
  unfold sciRadix sciK
  cases useHex with
  | true => rw [hhex rfl]; rfl
  | false => simp

theorem sciRadix_ge (B : Nat) (hB : 2 ≤ B) (useHex : Bool) : 2 ≤ sciRadix B useHex := by
  unfold sciRadix; cases useHex <;> simp <;> omega

/-- `signif_str` is the digit string of `|S|` in the shown radix -/
theorem sciStr_eq (B : Nat) (hB : 2 ≤ B) (m : Mode) (prec : Option Nat) (upper useHex : Bool) (r : FRepr) :
    sciStr B m prec upper useHex r =
      chars upper (digits (sciRadix B useHex) (sciPair B m prec useHex r).1.natAbs) := by
  obtain ⟨h1, h2⟩ := sciPair_sign B hB m prec useHex r
  unfold sciStr sciRadix printSpecInt printSpec chars
  by_cases h : r.signif < 0
  · have := h1 h
    simp [h, this]
  · have : ¬ (sciPair B m prec useHex r).1 < 0 := by have := h2 (by omega); omega
    simp [h, this]

theorem digitsAux_length_le {ρ : Nat} (hρ : 2 ≤ ρ) (k : Nat) : ∀ n, n < ρ ^ k → (digitsAux ρ n []).length ≤ k := by
  induction k with
  | zero => intro n hn; have : n = 0 := by simpa using hn
            subst this; rw [digitsAux_zero]; simp
  | succ k ih =>
    intro n hn
    by_cases h0 : n = 0
    · subst h0; rw [digitsAux_zero]; simp
    · rw [digitsAux_succ hρ h0, List.length_append]
      have : n / ρ < ρ ^ k := by
        rw [Nat.div_lt_iff_lt_mul (by omega)]; rwa [pow_succ] at hn
      have := ih _ this
      simp; omega

theorem digits_length_le {ρ : Nat} (hρ : 2 ≤ ρ) (k n : Nat) (hk : 1 ≤ k) (h : n < ρ ^ k) : (digits ρ n).length ≤ k := by
  unfold digits
  by_cases h0 : n = 0
  · simp [h0]; omega
  · simp only [h0, if_false]; exact digitsAux_length_le hρ k n h

/-- with a precision `p0` at most `p0 + 1` digits are shown -/
theorem sciStr_length_le (B : Nat) (hB : 2 ≤ B) (m : Mode) (p0 : Nat) (upper useHex : Bool)
    (hhex : useHex = true → B = 2) (r : FRepr) :
    (digits (sciRadix B useHex) (sciPair B m (some p0) useHex r).1.natAbs).length ≤ p0 + 1 := by
  obtain ⟨_, hd⟩ := sciPair_value B hB m p0 useHex r
  apply digits_length_le (sciRadix_ge B hB useHex) (p0 + 1) _ (by omega)
  have h1 := digits_lt_pow B hB (sciPair B m (some p0) useHex r).1.natAbs
  have h2 : B ^ Dashu.Model.Float.digits B (sciPair B m (some p0) useHex r).1.natAbs ≤ B ^ sciDigits useHex p0 :=
    Nat.pow_le_pow_right (by omega) hd
  have h3 : B ^ sciDigits useHex p0 = sciRadix B useHex ^ (p0 + 1) := by
    rw [sciRadix_eq_pow B useHex hhex, ← pow_mul]
    congr 1
    unfold sciDigits sciK; cases useHex <;> simp <;> ring
  omega

/-- the body is one digit, the fraction digits (those of the significand, then zeros up to the
    precision) behind a point — no point if there are none —, the marker and the exponent -/
theorem sciBodyG_chars (up : Bool) (d0 : Nat) (ds expStr : List Nat) (p marker : Nat) :
    sciBodyG (chars up (d0 :: ds)) expStr p marker =
      chars up [d0] ++
        fracChars up (if ds ++ List.replicate (p - ds.length) 0 = [] then none
          else some (ds ++ List.replicate (p - ds.length) 0)) ++ [marker] ++ expStr := by
  unfold sciBodyG
  have h1 : (chars up (d0 :: ds)).take 1 = chars up [d0] := by simp [chars]
  have h2 : (chars up (d0 :: ds)).drop 1 = chars up ds := by simp [chars]
  rw [h1, h2, chars_length, rep_zero_chars up]
  congr 2
  rw [List.append_assoc]
  congr 1
  by_cases hds : ds = []
  · subst hds
    simp only [chars, List.map_nil, ne_eq, not_true_eq_false, if_false, List.nil_append, List.length_nil,
      Nat.sub_zero, if_true]
    by_cases hp : p > 0
    · have : List.replicate p 0 ≠ [] := by
        intro h; have := congrArg List.length h; simp at this; omega
      simp [hp, this, fracChars, chars]
    · have : p = 0 := by omega
      subst this; simp [fracChars]
  · have hc : chars up ds ≠ [] := fun h => hds (chars_eq_nil.mp h)
    have hne : ds ++ List.replicate (p - ds.length) 0 ≠ [] := by
      intro h; exact hds (List.append_eq_nil_iff.mp h).1
    simp only [hc, ne_eq, not_false_eq_true, if_true, if_false, hne]
    unfold fracChars
    simp only [chars_append]
    by_cases hp : p > 0
    · simp [hp]
    · have : p = 0 := by omega
      subst this; simp [chars]

/-- the value the scientific formats show: the exact value without a precision; with precision `p0`
    the significand rounded to `p0 + 1` digits (`4·p0 + 4` bits), i.e. `R · B^(exp + shift)` -/
def sciShown (B : Nat) (m : Mode) (prec : Option Nat) (useHex : Bool) (r : FRepr) : ℚ :=
  match prec with
  | none => r.toRat B
  | some p0 => (sciRounded B m p0 useHex r : ℚ) * bpowQ B (r.exp + (sciShift B p0 useHex r : Int))

theorem sciPair_shown (B : Nat) (hB : 2 ≤ B) (m : Mode) (prec : Option Nat) (useHex : Bool) (r : FRepr) :
    ((sciPair B m prec useHex r).1 : ℚ) * bpowQ B (sciPair B m prec useHex r).2 = sciShown B m prec useHex r := by
  cases prec with
  | none => rfl
  | some p0 => exact (sciPair_value B hB m p0 useHex r).1

/-- `fmtSciCore_denotes` with the exponent named: it is `sciExp`, the `exp_adjust` the code prints -/
theorem fmtSciCore_denotes_exp (B : Nat) (hB : 2 ≤ B) (m : Mode) (prec : Option Nat) (upper useHex : Bool)
    (hhex : useHex = true → B = 2) (marker : Nat) (r : FRepr) :
    ∃ (d0 : Nat) (fd : List Nat),
      fmtSciCore B m prec upper useHex marker r =
        chars upper [d0] ++ fracChars upper (if fd = [] then none else some fd) ++ [marker] ++
          printSpecInt 10 false (sciExp B m prec upper useHex r) ∧
      d0 < sciRadix B useHex ∧ (∀ d ∈ fd, d < sciRadix B useHex) ∧
      (∀ p0, prec = some p0 → fd.length = p0) ∧
      (ofDigits (sciRadix B useHex) (d0 :: fd) : ℚ) *
          bpowQ B (sciExp B m prec upper useHex r - ((fd.length * sciK useHex : Nat) : Int)) =
        |sciShown B m prec useHex r| := by
  have hB0 : 0 < B := by omega
  have hρ := sciRadix_ge B hB useHex
  have hstr := sciStr_eq B hB m prec upper useHex r
  have hshown := sciPair_shown B hB m prec useHex r
  have hlen : ∀ p0, prec = some p0 →
      (digits (sciRadix B useHex) (sciPair B m prec useHex r).1.natAbs).length ≤ p0 + 1 := by
    intro p0 hp; subst hp; exact sciStr_length_le B hB m p0 upper useHex hhex r
  have hE : sciExp B m prec upper useHex r =
      (sciPair B m prec useHex r).2 + (((sciStr B m prec upper useHex r).length - 1 : Nat) : Int) * (sciK useHex : Nat) := by
    have hpos : 0 < (sciStr B m prec upper useHex r).length := by
      rw [hstr, chars_length]; exact List.length_pos_iff.mpr (digits_ne_nil _ _ hρ)
    unfold sciExp sciK
    cases useHex <;> simp <;> omega
  rw [fmtSciCore_eq_bodyG, hE, hstr, chars_length]
  have hDlt := digits_lt hρ (sciPair B m prec useHex r).1.natAbs
  have hDv := ofDigits_digits hρ (sciPair B m prec useHex r).1.natAbs
  have hDne := digits_ne_nil (sciRadix B useHex) (sciPair B m prec useHex r).1.natAbs hρ
  generalize digits (sciRadix B useHex) (sciPair B m prec useHex r).1.natAbs = D at *
  generalize sciPair B m prec useHex r = Se at *
  cases D with
  | nil => exact absurd rfl hDne
  | cons d0 ds =>
    rw [sciBodyG_chars]
    refine ⟨d0, ds ++ List.replicate (prec.getD 0 - ds.length) 0, rfl, hDlt d0 (by simp), ?_, ?_, ?_⟩
    · intro d hd
      rcases List.mem_append.mp hd with h | h
      · exact hDlt d (by simp [h])
      · have := List.eq_of_mem_replicate h; omega
    · intro p0 hp
      have := hlen p0 hp
      subst hp
      simp only [List.length_cons] at this
      simp only [Option.getD_some, List.length_append, List.length_replicate]
      omega
    · have hk : sciRadix B useHex = B ^ sciK useHex := sciRadix_eq_pow B useHex hhex
      generalize prec.getD 0 - ds.length = t at *
      have e1 : d0 :: (ds ++ List.replicate t 0) = (d0 :: ds) ++ List.replicate t 0 := rfl
      rw [e1, ofDigits_append_replicate_zero, hDv, ← hshown, abs_mul, abs_of_pos (bpowQ_pos B hB0 _)]
      simp only [List.length_cons, List.length_append, List.length_replicate, Nat.add_sub_cancel]
      rw [hk, ← pow_mul, Nat.cast_mul, mul_assoc, ← bpowQ_nat, ← bpowQ_add B hB0]
      have : (((Se.1.natAbs : Nat) : ℚ)) = |(Se.1 : ℚ)| := by
        rw [Nat.cast_natAbs, Int.cast_abs]
      rw [this]
      congr 2
      push_cast
      ring

/-- **the scientific text denotes the rounded value**: the core of every scientific format is
    `d₀ [. d₁ … d_n] marker E` — one leading digit, then (behind a point, absent when there are none) the
    remaining digits of the significand followed by zeros, exactly `p0` of them when a precision `p0` is
    given —, all digits below the shown radix (`16` for the hexadecimal form of base 2, else `B`), and
    read as a number it is the magnitude of the shown value:
    `(d₀d₁…d_n)_radix · B^(E − n·k) = |sciShown|` (`k = 4` for hexadecimal digits, else `1`);
    `sciShown` is the exact value without a precision and the mode's rounding to `p0 + 1` significant
    digits with one (`sciRounded_spec`) -/
theorem fmtSciCore_denotes (B : Nat) (hB : 2 ≤ B) (m : Mode) (prec : Option Nat) (upper useHex : Bool)
    (hhex : useHex = true → B = 2) (marker : Nat) (r : FRepr) :
    ∃ (d0 : Nat) (fd : List Nat) (E : Int),
      fmtSciCore B m prec upper useHex marker r =
        chars upper [d0] ++ fracChars upper (if fd = [] then none else some fd) ++ [marker] ++
          printSpecInt 10 false E ∧
      d0 < sciRadix B useHex ∧ (∀ d ∈ fd, d < sciRadix B useHex) ∧
      (∀ p0, prec = some p0 → fd.length = p0) ∧
      (ofDigits (sciRadix B useHex) (d0 :: fd) : ℚ) * bpowQ B (E - ((fd.length * sciK useHex : Nat) : Int)) =
        |sciShown B m prec useHex r| := by
  obtain ⟨d0, fd, h⟩ := fmtSciCore_denotes_exp B hB m prec upper useHex hhex marker r
  exact ⟨d0, fd, _, h⟩

/-- the shown value keeps the sign of the number (`-` is printed iff the significand is negative) -/
theorem sciShown_sign (B : Nat) (hB : 2 ≤ B) (m : Mode) (prec : Option Nat) (useHex : Bool) (r : FRepr) :
    (r.signif < 0 → sciShown B m prec useHex r < 0) ∧ (0 ≤ r.signif → 0 ≤ sciShown B m prec useHex r) := by
  have hB0 : 0 < B := by omega
  rw [← sciPair_shown B hB]
  obtain ⟨h1, h2⟩ := sciPair_sign B hB m prec useHex r
  have hp := bpowQ_pos B hB0 (sciPair B m prec useHex r).2
  constructor
  · intro h
    have : ((sciPair B m prec useHex r).1 : ℚ) < 0 := by exact_mod_cast h1 h
    exact mul_neg_of_neg_of_pos this hp
  · intro h
    have : (0 : ℚ) ≤ ((sciPair B m prec useHex r).1 : ℚ) := by exact_mod_cast h2 h
    exact mul_nonneg this (le_of_lt hp)

end Dashu.Model.Text
