import Dashu.Model.Text.Pieces
import Dashu.Proofs.Text.FmtLow
/-
  C07 — the recorded `DigitWriter::write` pieces: their concatenation is the digit string of the
  number-level model, the pieces computed with the mirrored reciprocal division are the same pieces,
  their shapes, and the whole path through the mirrored `DigitWriter` prints the reference text.
-/
namespace Dashu.Model.Text

theorem mapE_ok {α β ε : Type} (f : α → Except ε β) (g : α → β) (l : List α)
    (h : ∀ a ∈ l, f a = .ok (g a)) : mapE f l = .ok (l.map g) := by
  induction l with
  | nil => rfl
  | cons a l ih =>
    simp only [mapE, h a (by simp), ih (fun x hx => h x (by simp [hx])), List.map_cons]

-- ---------------------------------------------------------------- concatenation = the digit string

theorem preparedMediumP_flatten (W r n : Nat) : (preparedMediumP W r n).flatten = preparedMedium W r n := by
  simp [preparedMediumP, preparedMedium, List.flatMap_def]

theorem writeChunkP_flatten (W r x : Nat) : (writeChunkP W r x).flatten = writeChunk W r x := by
  simp [writeChunkP, writeChunk, List.flatMap_def]

theorem writeBigP_flatten (W r : Nat) (ps : List Nat) (x : Nat) :
    (writeBigP W r ps x).flatten = writeBig W r ps x := by
  induction ps generalizing x with
  | nil => exact writeChunkP_flatten W r x
  | cons p ps ih => simp only [writeBigP, writeBig, List.flatten_append, ih]

theorem flatten_flatMap {α : Type} (l : List α) (f : α → List (List Nat)) :
    (l.flatMap f).flatten = l.flatMap (fun a => (f a).flatten) := by
  induction l with
  | nil => rfl
  | cons a l ih => simp only [List.flatMap_cons, List.flatten_append, ih]

theorem preparedLargeP_flatten (W r n : Nat) : (preparedLargeP W r n).flatten = preparedLarge W r n := by
  unfold preparedLargeP preparedLarge
  simp only
  by_cases h : (radixInfo W r).rpw ^ fmtChunkLen > n
  · simp only [h, if_true]; exact preparedMediumP_flatten W r n
  · simp only [h, if_false]
    cases hb : buildPowers W n (bitLen n) [(radixInfo W r).rpw ^ fmtChunkLen] with
    | nil => rfl
    | cons p rest =>
      simp only [List.flatten_append, preparedMediumP_flatten, flatten_flatMap, writeBigP_flatten]

theorem fmtNonPow2P_flatten (W r n : Nat) : (fmtNonPow2P W r n).flatten = fmtNonPow2 W r n := by
  unfold fmtNonPow2P fmtNonPow2
  split
  · simp
  · split
    · simp
    · simp only
      split
      · exact preparedMediumP_flatten W r n
      · exact preparedLargeP_flatten W r n

theorem flatten_singletons (l : List Nat) : (l.map (fun d => [d])).flatten = l := by
  induction l with
  | nil => rfl
  | cons a l ih => simp [ih]

theorem fmtPow2P_flatten (W r n : Nat) : (fmtPow2P W r n).flatten = fmtPow2 W r n := by
  unfold fmtPow2P fmtPow2
  simp only
  split
  · simp
  · exact flatten_singletons _

/-- the recorded pieces, concatenated, are the digit string of the number-level model -/
theorem rawPieces_flatten (W r n : Nat) : (rawPieces W r n).flatten = rawDigits W r n := by
  unfold rawPieces rawDigits
  split
  · exact fmtPow2P_flatten W r n
  · exact fmtNonPow2P_flatten W r n

-- ---------------------------------------------------------------- the pieces on the mirrored division

theorem preparedMediumPF_eq (W r n : Nat) (hr : 2 ≤ r) (hrW : r < 2 ^ W) :
    preparedMediumPF W r n = .ok (preparedMediumP W r n) := by
  have ok := radixInfo_ok W r hr hrW
  have hb := mediumLoop_bounds W (radixInfo W r).rpw ok.rpw_ge n [] (by simp)
  unfold preparedMediumPF preparedMediumP
  simp only
  rw [preparedWordF_eq W r hr hrW _ 1 hb.1]
  simp only
  rw [mapE_ok _ (fun g => preparedWord r g (radixInfo W r).dpw) _
    (fun g hg => preparedWordF_eq W r hr hrW g _ (Nat.lt_trans (hb.2 g hg) ok.lt))]

theorem writeChunkPF_eq (W r x : Nat) (hr : 2 ≤ r) (hrW : r < 2 ^ W) :
    writeChunkPF W r x = .ok (writeChunkP W r x) := by
  have ok := radixInfo_ok W r hr hrW
  have hge := ok.rpw_ge
  unfold writeChunkPF writeChunkP
  exact mapE_ok _ _ _ (fun g hg => preparedWordF_eq W r hr hrW g _
    (Nat.lt_trans (chunkGroups_lt _ (by omega) _ _ [] (by simp) g hg) ok.lt))

theorem writeBigPF_eq (W r : Nat) (hr : 2 ≤ r) (hrW : r < 2 ^ W) (ps : List Nat) (x : Nat) :
    writeBigPF W r ps x = .ok (writeBigP W r ps x) := by
  induction ps generalizing x with
  | nil => exact writeChunkPF_eq W r x hr hrW
  | cons p ps ih => simp only [writeBigPF, writeBigP, ih]

theorem preparedLargePF_eq (W r n : Nat) (hr : 2 ≤ r) (hrW : r < 2 ^ W) :
    preparedLargePF W r n = .ok (preparedLargeP W r n) := by
  unfold preparedLargePF preparedLargeP
  simp only
  by_cases h : (radixInfo W r).rpw ^ fmtChunkLen > n
  · simp only [h, if_true]; exact preparedMediumPF_eq W r n hr hrW
  · simp only [h, if_false]
    cases hb : buildPowers W n (bitLen n) [(radixInfo W r).rpw ^ fmtChunkLen] with
    | nil => rfl
    | cons p rest =>
      simp only
      rw [preparedMediumPF_eq W r _ hr hrW]
      simp only
      rw [flatMapE_ok _ (fun c => writeBigP W r c.1 c.2) _ (fun c _ => writeBigPF_eq W r hr hrW c.1 c.2)]

theorem fmtNonPow2PF_eq (W r n : Nat) (hev : 2 ∣ W) (hr : 2 ≤ r) (hrW : r < 2 ^ W) :
    fmtNonPow2PF W r n = .ok (fmtNonPow2P W r n) := by
  unfold fmtNonPow2PF fmtNonPow2P
  by_cases h1 : n < 2 ^ W
  · simp only [h1, if_true, preparedWordF_eq W r hr hrW n 1 h1]; rfl
  · simp only [h1, if_false]
    by_cases h2 : n < 2 ^ (2 * W)
    · simp only [h2, if_true, preparedDwordF_eq W r n hev hr hrW h2]; rfl
    · simp only [h2, if_false]
      by_cases h3 : wordLen W n * ((radixInfo W r).dpw + 1) ≤ fmtChunkLen * (radixInfo W r).dpw
      · simp only [h3, if_true]; exact preparedMediumPF_eq W r n hr hrW
      · simp only [h3, if_false]; exact preparedLargePF_eq W r n hr hrW

/-- the pieces computed with the mirrored `FastDivideSmall` are the number-level pieces -/
theorem rawPiecesF_eq (W r n : Nat) (hev : 2 ∣ W) (hr : 2 ≤ r) (hrW : r < 2 ^ W) :
    rawPiecesF W r n = .ok (rawPieces W r n) := by
  unfold rawPiecesF rawPieces
  by_cases hp : isPow2 r = true
  · simp only [hp, if_true]
  · simp only [hp]; exact fmtNonPow2PF_eq W r n hev hr hrW

/-- **the whole formatting path with the recorded pieces** equals the number-level model -/
theorem fmtModelP_eq (W : Nat) (h8 : 8 ∣ W) (hW : 8 ≤ W) (t : FmtTrait) (f : FmtSpec) (z : Int)
    (hv : validRadix t.radix = true) : fmtModelP W t f z = .ok (fmtModel W t f z) := by
  have hr : 2 ≤ t.radix ∧ t.radix ≤ 36 := by
    simpa [validRadix] using hv
  have h256 : (2 : Nat) ^ 8 ≤ 2 ^ W := Nat.pow_le_pow_right (by omega) hW
  have hrW : t.radix < 2 ^ W := by omega
  have hev : 2 ∣ W := Nat.dvd_trans (by decide) h8
  unfold fmtModelP fmtModel
  rw [rawPiecesF_eq W t.radix _ hev hr.1 hrW]
  simp only
  have hfl := rawPieces_flatten W t.radix z.natAbs
  have hdig : ∀ d ∈ rawDigits W t.radix z.natAbs, d < 36 := by
    intro d hd
    rw [rawDigits_eq W t.radix _ hr.1 hrW] at hd
    have := digits_lt hr.1 _ d hd
    omega
  rw [digitWriterRunS_eq W h8 hW _ _ (by
    intro b hb d hd
    apply hdig d
    rw [← hfl]
    exact List.mem_flatten.mpr ⟨b, hb, hd⟩)]
  simp only [hfl]

-- ---------------------------------------------------------------- shapes of the pieces

theorem preparedWord_pad_length {r : Nat} (hr : 2 ≤ r) (m w : Nat) (hw : w < r ^ m) :
    (preparedWord r w m).length = m := by
  rw [preparedWord_pad hr m w hw, digitsPad_length]

theorem writeChunkP_len (W r x : Nat) (hr : 2 ≤ r) (hrW : r < 2 ^ W) :
    ∀ p ∈ writeChunkP W r x, p.length = (radixInfo W r).dpw := by
  have ok := radixInfo_ok W r hr hrW
  have hge := ok.rpw_ge
  intro p hp
  obtain ⟨g, hg, rfl⟩ := List.mem_map.mp hp
  apply preparedWord_pad_length hr
  rw [← ok.pow]
  exact chunkGroups_lt _ (by omega) _ _ [] (by simp) g hg

theorem writeBigP_len (W r : Nat) (hr : 2 ≤ r) (hrW : r < 2 ^ W) (ps : List Nat) (x : Nat) :
    ∀ p ∈ writeBigP W r ps x, p.length = (radixInfo W r).dpw := by
  induction ps generalizing x with
  | nil => exact writeChunkP_len W r x hr hrW
  | cons q ps ih =>
    intro p hp
    simp only [writeBigP, List.mem_append] at hp
    rcases hp with h | h
    · exact ih _ p h
    · exact ih _ p h

theorem preparedMediumP_tail_len (W r n : Nat) (hr : 2 ≤ r) (hrW : r < 2 ^ W) :
    ∀ p ∈ (preparedMediumP W r n).tail, p.length = (radixInfo W r).dpw := by
  have ok := radixInfo_ok W r hr hrW
  have hb := mediumLoop_bounds W (radixInfo W r).rpw ok.rpw_ge n [] (by simp)
  intro p hp
  simp only [preparedMediumP, List.tail_cons] at hp
  obtain ⟨g, hg, rfl⟩ := List.mem_map.mp hp
  apply preparedWord_pad_length hr
  rw [← ok.pow]
  exact hb.2 g hg

theorem preparedLargeP_tail_len (W r n : Nat) (hr : 2 ≤ r) (hrW : r < 2 ^ W) :
    ∀ p ∈ (preparedLargeP W r n).tail, p.length = (radixInfo W r).dpw := by
  unfold preparedLargeP
  simp only
  by_cases h : (radixInfo W r).rpw ^ fmtChunkLen > n
  · simp only [h, if_true]; exact preparedMediumP_tail_len W r n hr hrW
  · simp only [h, if_false]
    cases hb : buildPowers W n (bitLen n) [(radixInfo W r).rpw ^ fmtChunkLen] with
    | nil => intro p hp; simp at hp
    | cons q rest =>
      intro p hp
      simp only at hp
      rw [List.tail_append_of_ne_nil (by simp [preparedMediumP]), List.mem_append] at hp
      rcases hp with h1 | h1
      · exact preparedMediumP_tail_len W r _ hr hrW p h1
      · obtain ⟨c, _, hc⟩ := List.mem_flatMap.mp h1
        exact writeBigP_len W r hr hrW c.1 c.2 p hc

/-- **shape of the `write` calls of the non-power-of-two printers**: at least one call; every call
    after the first carries exactly `digits_per_word` digits -/
theorem fmtNonPow2P_shape (W r n : Nat) (hr : 2 ≤ r) (hrW : r < 2 ^ W) (hn : n ≠ 0) :
    fmtNonPow2P W r n ≠ [] ∧ ∀ p ∈ (fmtNonPow2P W r n).tail, p.length = (radixInfo W r).dpw := by
  have hfl := fmtNonPow2P_flatten W r n
  rw [fmtNonPow2_eq W r n hr hrW] at hfl
  refine ⟨?_, ?_⟩
  · intro h0
    rw [h0] at hfl
    exact digits_ne_nil r n hr hfl.symm
  · unfold fmtNonPow2P
    by_cases h1 : n < 2 ^ W
    · simp [h1]
    · simp only [h1, if_false]
      by_cases h2 : n < 2 ^ (2 * W)
      · simp [h2]
      · simp only [h2, if_false]
        by_cases h3 : wordLen W n * ((radixInfo W r).dpw + 1) ≤ fmtChunkLen * (radixInfo W r).dpw
        · simp only [h3, if_true]; exact preparedMediumP_tail_len W r n hr hrW
        · simp only [h3, if_false]; exact preparedLargeP_tail_len W r n hr hrW

/-- power-of-two radices: one call for inline values, one call per digit for heap values -/
theorem fmtPow2P_shape (W r n : Nat) :
    (n < 2 ^ (2 * W) → (fmtPow2P W r n).length = 1) ∧
    (2 ^ (2 * W) ≤ n → ∀ p ∈ fmtPow2P W r n, p.length = 1) := by
  unfold fmtPow2P
  simp only
  constructor
  · intro h; simp [h]
  · intro h p hp
    have : ¬ n < 2 ^ (2 * W) := by omega
    simp only [this, if_false] at hp
    obtain ⟨d, _, rfl⟩ := List.mem_map.mp hp
    rfl

end Dashu.Model.Text
