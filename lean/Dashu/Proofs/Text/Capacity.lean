import Dashu.Model.Text.Capacity
import Dashu.Proofs.Text.Pow2
/-
  C07 — no fixed-size buffer of the printers is ever overrun: the bounded-array model of
  `Model/Text/Capacity.lean` never returns a `BufPanic` and computes what the unbounded model
  computes, for every input.  The argument for `PreparedLarge` rests on the soundness of the
  length shortcut `2 * prev.len() - 1 > number.len()  ⇒  prev² > number`.
-/
namespace Dashu.Model.Text

-- ---------------------------------------------------------------- generic

theorem flatMapE_ok {α β ε : Type} (f : α → Except ε (List β)) (g : α → List β) (l : List α)
    (h : ∀ a ∈ l, f a = .ok (g a)) : flatMapE f l = .ok (l.flatMap g) := by
  induction l with
  | nil => rfl
  | cons a l ih =>
    simp only [flatMapE, h a (by simp), ih (fun x hx => h x (by simp [hx])), List.flatMap_cons]

theorem digitsAux_length_le {r : Nat} (hr : 2 ≤ r) (k n : Nat) (h : n < r ^ k) : (digitsAux r n []).length ≤ k := by
  induction k generalizing n with
  | zero => have : n = 0 := by simpa using h
            subst this; rw [digitsAux_zero]; simp
  | succ k ih =>
    by_cases hn : n = 0
    · subst hn; rw [digitsAux_zero]; simp
    · rw [digitsAux_succ hr hn, List.length_append]
      have : n / r < r ^ k := by rw [Nat.div_lt_iff_lt_mul (by omega)]; rw [pow_succ] at h; exact h
      have := ih _ this
      simp; omega

theorem pwLoop_length {r : Nat} (hr : 2 ≤ r) (m w : Nat) (acc : List Nat) :
    (pwLoop r w m acc).length = (digitsAux r (w / r ^ m) []).length + m + acc.length := by
  rw [pwLoop_spec hr]; simp [digitsPad_length]; omega

theorem pwLoop_length_bound {r : Nat} (hr : 2 ≤ r) (m w k : Nat) (hw : w < r ^ k) (hm : m ≤ k) (acc : List Nat) :
    (pwLoop r w m acc).length ≤ k + acc.length := by
  rw [pwLoop_length hr]
  have hp : 0 < r ^ m := Nat.pow_pos (by omega)
  have : w / r ^ m < r ^ (k - m) := by
    rw [Nat.div_lt_iff_lt_mul hp, ← pow_add]
    have : k - m + m = k := by omega
    rw [this]; exact hw
  have := digitsAux_length_le hr _ _ this
  omega

/-- the bounded `PreparedWord` loop: no store outside the array as long as the final digit count fits -/
theorem pwLoopC_eq {r : Nat} (hr : 2 ≤ r) (cap : Nat) (w m : Nat) (acc : List Nat)
    (h : (pwLoop r w m acc).length ≤ cap) : pwLoopC cap r w m acc = .ok (pwLoop r w m acc) := by
  induction hn : w + m using Nat.strong_induction_on generalizing w m acc with
  | _ n ih =>
    subst hn
    by_cases hstop : r < 2 ∨ (m = 0 ∧ w = 0)
    · rw [pwLoopC, pwLoop, dif_pos hstop, dif_pos hstop]
    · rw [pwLoopC, dif_neg hstop]
      rw [pwLoop, dif_neg hstop] at h ⊢
      have hlen : acc.length < cap := by
        have := pwLoop_length hr (m - 1) (w / r) (w % r :: acc)
        rw [this] at h; simp at h; omega
      rw [if_neg (by omega)]
      apply ih _ _ (w / r) (m - 1) (w % r :: acc) h rfl
      by_cases hw : w = 0
      · subst hw; simp; omega
      · have : w / r < w := Nat.div_lt_self (by omega) (by omega)
        omega

-- ---------------------------------------------------------------- the digit-array constants

/-- `MAX_WORD_DIGITS_NON_POW_2 = dpw(3) + 1` covers every word in every radix ≥ 3 (even `W`) -/
theorem maxWordDigits_spec (W : Nat) (hW : 2 ≤ W) (hev : 2 ∣ W) (r : Nat) (hr : 3 ≤ r) (hrW : r < 2 ^ W) :
    2 ^ W ≤ r ^ maxWordDigits W ∧ (radixInfo W r).dpw < maxWordDigits W := by
  have h3W : 3 < 2 ^ W := by
    calc 3 < 2 ^ 2 := by decide
      _ ≤ 2 ^ W := Nat.pow_le_pow_right (by omega) hW
  obtain ⟨e1, e2, e3, e4⟩ := maxExpInWord_spec W 3 (by omega) h3W
  obtain ⟨f1, f2, f3, _⟩ := maxExpInWord_spec W r (by omega) hrW
  unfold maxWordDigits
  have hmax := e4 hev
  rw [e1, ← pow_succ] at hmax
  constructor
  · calc 2 ^ W ≤ 3 ^ ((maxExpInWord W 3).1 + 1) := hmax
      _ ≤ r ^ ((maxExpInWord W 3).1 + 1) := Nat.pow_le_pow_left hr _
  · show (maxExpInWord W r).1 < (maxExpInWord W 3).1 + 1
    by_contra hcon
    have hge : (maxExpInWord W 3).1 + 1 ≤ (maxExpInWord W r).1 := by omega
    have : 2 ^ W ≤ r ^ (maxExpInWord W r).1 := by
      calc 2 ^ W ≤ 3 ^ ((maxExpInWord W 3).1 + 1) := hmax
        _ ≤ r ^ ((maxExpInWord W 3).1 + 1) := Nat.pow_le_pow_left hr _
        _ ≤ r ^ (maxExpInWord W r).1 := Nat.pow_le_pow_right (by omega) hge
    rw [← f1] at this; omega

theorem maxDwordDigits_spec (W : Nat) (hW : 2 ≤ W) (hev : 2 ∣ W) (r : Nat) (hr : 3 ≤ r) :
    2 ^ (2 * W) ≤ r ^ maxDwordDigits W := by
  have h3W : 3 < 2 ^ W := by
    calc 3 < 2 ^ 2 := by decide
      _ ≤ 2 ^ W := Nat.pow_le_pow_right (by omega) hW
  obtain ⟨e1, e2, e3, e4⟩ := maxExpInWord_spec W 3 (by omega) h3W
  have hmax := e4 hev
  unfold maxDwordDigits maxExpInDword
  simp only []
  generalize hp : (maxExpInWord W 3).2 = pw at *
  generalize he : (maxExpInWord W 3).1 = e at *
  have hsq : 2 ^ (2 * W) ≤ (pw * 3) * (pw * 3) := by
    rw [Nat.two_mul, pow_add]; exact Nat.mul_le_mul hmax hmax
  have h3r : ∀ k, 3 ^ k ≤ r ^ k := fun k => Nat.pow_le_pow_left hr k
  split
  · -- one more factor fits
    show 2 ^ (2 * W) ≤ r ^ (2 * e + 1 + 1)
    calc 2 ^ (2 * W) ≤ (pw * 3) * (pw * 3) := hsq
      _ = 3 ^ (2 * e + 1 + 1) := by rw [e1]; ring
      _ ≤ r ^ (2 * e + 1 + 1) := h3r _
  · rename_i hno
    show 2 ^ (2 * W) ≤ r ^ (2 * e + 1)
    calc 2 ^ (2 * W) ≤ pw * pw * 3 := by omega
      _ = 3 ^ (2 * e + 1) := by rw [e1]; ring
      _ ≤ r ^ (2 * e + 1) := h3r _

/-- `PreparedWord::new` never leaves its digit array: for every word, every radix ≥ 3, `min_digits`
    up to `digits_per_word` -/
theorem preparedWordC_eq (W : Nat) (hW : 2 ≤ W) (hev : 2 ∣ W) (r : Nat) (hr : 3 ≤ r) (hrW : r < 2 ^ W)
    (w m : Nat) (hw : w < 2 ^ W) (hm : m ≤ (radixInfo W r).dpw) :
    preparedWordC W r w m = .ok (preparedWord r w m) := by
  obtain ⟨h1, h2⟩ := maxWordDigits_spec W hW hev r hr hrW
  unfold preparedWordC preparedWord
  rw [if_neg (by omega)]
  apply pwLoopC_eq (by omega)
  have := pwLoop_length_bound (by omega : 2 ≤ r) m w (maxWordDigits W) (by omega) (by omega) []
  simpa using this

theorem preparedDwordC_eq (W : Nat) (hW : 2 ≤ W) (hev : 2 ∣ W) (r : Nat) (hr : 3 ≤ r) (hrW : r < 2 ^ W)
    (n : Nat) (hlo : 2 ^ W ≤ n) (hhi : n < 2 ^ (2 * W)) :
    preparedDwordC W r n = .ok (preparedDword W r n) := by
  have ok := radixInfo_ok W r (by omega) hrW
  unfold preparedDwordC
  simp only []
  rw [preparedDword_eq ok n (by have := ok.lt; omega)]
  have hn : n ≠ 0 := by have := Nat.pow_pos (n := W) (by omega : 0 < 2); omega
  rw [digits_of_ne_zero hn]
  have := digitsAux_length_le (by omega : 2 ≤ r) (maxDwordDigits W) n
    (by have := maxDwordDigits_spec W hW hev r hr; omega)
  rw [if_neg (by omega)]

-- ---------------------------------------------------------------- word counts

theorem wordLen_le_iff (W : Nat) (hW : 1 ≤ W) (n k : Nat) : wordLen W n ≤ k ↔ n < 2 ^ (W * k) := by
  rw [← bitLen_le_iff]
  unfold wordLen ceilDiv
  by_cases h0 : bitLen n = 0
  · simp [h0]
  · simp only [h0, if_false]
    constructor
    · intro h
      have h1 := Nat.lt_succ_of_le h
      have : (bitLen n - 1) / W < k := by omega
      rw [Nat.div_lt_iff_lt_mul (by omega)] at this
      rw [Nat.mul_comm]; omega
    · intro h
      have : (bitLen n - 1) / W < k := by
        rw [Nat.div_lt_iff_lt_mul (by omega), Nat.mul_comm]; omega
      omega

theorem lt_pow_wordLen (W : Nat) (hW : 1 ≤ W) (n : Nat) : n < 2 ^ (W * wordLen W n) :=
  (wordLen_le_iff W hW n _).mp (Nat.le_refl _)

theorem pow_wordLen_le (W : Nat) (hW : 1 ≤ W) (n : Nat) (hn : n ≠ 0) : 2 ^ (W * (wordLen W n - 1)) ≤ n := by
  by_contra h
  have h1 : n < 2 ^ (W * (wordLen W n - 1)) := by omega
  have h2 := (wordLen_le_iff W hW n _).mpr h1
  have h3 : 1 ≤ wordLen W n := by
    by_contra h0
    have : wordLen W n ≤ 0 := by omega
    have := (wordLen_le_iff W hW n 0).mp this
    simp at this; omega
  omega

theorem wordLen_pos (W : Nat) (hW : 1 ≤ W) (n : Nat) (hn : n ≠ 0) : 1 ≤ wordLen W n := by
  by_contra h0
  have : wordLen W n ≤ 0 := by omega
  have := (wordLen_le_iff W hW n 0).mp this
  simp at this; omega

/-- the regenerated predicate, read over natural numbers -/
theorem fmt_tower_stop_iff (a b : Nat) (ha : 1 ≤ a) :
    Dashu.Gen.fmt_tower_stop (a : Int) (b : Int) = true ↔ 2 * a - 1 > b := by
  unfold Dashu.Gen.fmt_tower_stop Dashu.GluePrelude.gt_ Dashu.GluePrelude.sub_ Dashu.GluePrelude.mul_
  rw [beq_iff_eq, compare_gt_iff_gt]
  omega

/-- **soundness of the length shortcut of `PreparedLarge::new`** — about the predicate regenerated
    from the source (`2 * prev.len() - 1 > number.len()`): whenever it holds, `prev * prev > number` -/
theorem length_shortcut_sound (W : Nat) (hW : 1 ≤ W) (prev n : Nat) (hp : prev ≠ 0)
    (hstop : Dashu.Gen.fmt_tower_stop (wordLen W prev) (wordLen W n) = true) : n < prev * prev := by
  have h := (fmt_tower_stop_iff _ _ (wordLen_pos W hW prev hp)).mp hstop
  have h1 := pow_wordLen_le W hW prev hp
  have h2 : wordLen W n ≤ 2 * (wordLen W prev - 1) := by omega
  have h3 := (wordLen_le_iff W hW n _).mp h2
  calc n < 2 ^ (W * (2 * (wordLen W prev - 1))) := h3
    _ = 2 ^ (W * (wordLen W prev - 1)) * 2 ^ (W * (wordLen W prev - 1)) := by rw [← pow_add]; congr 1; ring
    _ ≤ prev * prev := Nat.mul_le_mul h1 h1

/-- the tower loop ends with a top power whose square exceeds the number -/
theorem buildPowers_top (W : Nat) (hW : 1 ≤ W) (n : Nat) :
    ∀ (fuel : Nat) (prev : Nat) (tl : List Nat), 2 ≤ prev → n < prev * 2 ^ fuel →
      ∃ p rest, buildPowers W n fuel (prev :: tl) = p :: rest ∧ n < p * p := by
  intro fuel
  induction fuel with
  | zero =>
    intro prev tl h2 hlt
    refine ⟨prev, tl, rfl, ?_⟩
    simp at hlt
    calc n < prev := hlt
      _ ≤ prev * prev := Nat.le_mul_self prev
  | succ fuel ih =>
    intro prev tl h2 hlt
    simp only [buildPowers]
    split
    · rename_i hs
      exact ⟨prev, tl, rfl, length_shortcut_sound W hW prev n (by omega) hs⟩
    · split
      · rename_i _ hgt
        exact ⟨prev, tl, rfl, hgt⟩
      · apply ih (prev * prev) (prev :: tl)
        · calc 2 ≤ prev := h2
            _ ≤ prev * prev := Nat.le_mul_self prev
        · calc n < prev * 2 ^ (fuel + 1) := hlt
            _ = prev * 2 * 2 ^ fuel := by rw [pow_succ]; ring
            _ ≤ prev * prev * 2 ^ fuel := Nat.mul_le_mul_right _ (Nat.mul_le_mul_left _ h2)

-- ---------------------------------------------------------------- PreparedMedium, write_chunk

theorem reprToChunkBuffer_ok (W : Nat) (hW : 1 ≤ W) (x : Nat) (h : x < 2 ^ (W * fmtChunkLen)) :
    reprToChunkBuffer W x = .ok x := by
  unfold reprToChunkBuffer
  have := (wordLen_le_iff W hW x fmtChunkLen).mpr h
  rw [if_neg (by omega)]

theorem mediumLoopC_eq {W r : Nat} {ri : RadixInfo} (ok : RadixOK W r ri) (v : Nat) (gs : List Nat)
    (hk : gs.length ≤ fmtChunkLen) (h : v < ri.rpw ^ (fmtChunkLen - gs.length)) :
    mediumLoopC W ri.rpw v gs = .ok (mediumLoop W ri.rpw v gs) := by
  induction v using Nat.strong_induction_on generalizing gs with
  | _ v ih =>
    have h2 := ok.rpw_ge
    have hlt := ok.lt
    by_cases hstop : ri.rpw < 2 ∨ v < 2 ^ W
    · rw [mediumLoopC, mediumLoop, dif_pos hstop, dif_pos hstop]
    · rw [mediumLoopC, mediumLoop, dif_neg hstop, dif_neg hstop]
      have hv : ri.rpw ≤ v := by omega
      -- at least two more groups are available
      have hroom : 2 ≤ fmtChunkLen - gs.length := by
        by_contra hc
        have : fmtChunkLen - gs.length ≤ 1 := by omega
        have := Nat.pow_le_pow_right (by omega : 0 < ri.rpw) this
        simp at this; omega
      rw [if_neg (by omega)]
      apply ih (v / ri.rpw) (Nat.div_lt_self (by omega) (by omega)) (v % ri.rpw :: gs) (by simp; omega)
      rw [Nat.div_lt_iff_lt_mul (by omega), ← pow_succ]
      have : fmtChunkLen - (v % ri.rpw :: gs).length + 1 = fmtChunkLen - gs.length := by simp; omega
      rw [this]; exact h

theorem rpw_pow_lt (W r : Nat) {ri : RadixInfo} (ok : RadixOK W r ri) (k : Nat) (hk : 1 ≤ k) : ri.rpw ^ k < 2 ^ (W * k) := by
  rw [← two_pow_mul]
  exact Nat.pow_lt_pow_left ok.lt (by omega)

/-- `PreparedMedium` stays inside `[Word; 16]` (both the chunk buffer and `low_groups`) whenever the
    number is below `range_per_word^16` -/
theorem preparedMediumC_eq (W : Nat) (hW : 2 ≤ W) (hev : 2 ∣ W) (r : Nat) (hr : 3 ≤ r) (hrW : r < 2 ^ W)
    (n : Nat) (h : n < (radixInfo W r).rpw ^ fmtChunkLen) :
    preparedMediumC W r n = .ok (preparedMedium W r n) := by
  have ok := radixInfo_ok W r (by omega) hrW
  have hb := rpw_pow_lt W r ok fmtChunkLen (by decide)
  unfold preparedMediumC preparedMedium
  simp only []
  rw [reprToChunkBuffer_ok W (by omega) n (by omega)]
  simp only []
  rw [mediumLoopC_eq ok n [] (by simp) (by simpa using h)]
  simp only []
  -- the top word and the groups are words below 2^W / rpw
  have hn0 : True := trivial
  have htop : (mediumLoop W (radixInfo W r).rpw n []).1 < 2 ^ W := by
    -- the loop ends only below 2^W
    have : ∀ v gs, (mediumLoop W (radixInfo W r).rpw v gs).1 < 2 ^ W := by
      intro v
      induction v using Nat.strong_induction_on with
      | _ v ih =>
        intro gs
        have h2 := ok.rpw_ge
        by_cases hstop : (radixInfo W r).rpw < 2 ∨ v < 2 ^ W
        · rw [mediumLoop, dif_pos hstop]; simp; omega
        · rw [mediumLoop, dif_neg hstop]
          exact ih _ (Nat.div_lt_self (by omega) (by omega)) _
    exact this n []
  have hgroups : ∀ g ∈ (mediumLoop W (radixInfo W r).rpw n []).2, g < (radixInfo W r).rpw := by
    by_cases hn : n = 0
    · subst hn; rw [mediumLoop]; simp
    · exact (mediumLoop_spec ok n [] hn (by simp)).2
  rw [preparedWordC_eq W hW hev r hr hrW _ 1 htop ok.dpos]
  simp only []
  rw [flatMapE_ok _ (fun g => preparedWord r g (radixInfo W r).dpw) _ (fun g hg =>
    preparedWordC_eq W hW hev r hr hrW g _ (by have := hgroups g hg; have := ok.lt; omega) (Nat.le_refl _))]

theorem chunkGroups_lt (rpw : Nat) (hp : 0 < rpw) (c x : Nat) (acc : List Nat) (hacc : ∀ g ∈ acc, g < rpw) :
    ∀ g ∈ chunkGroups rpw c x acc, g < rpw := by
  induction c generalizing x acc with
  | zero => simpa [chunkGroups] using hacc
  | succ c ih =>
    rw [chunkGroups]
    apply ih
    intro g hg
    rcases List.mem_cons.mp hg with h | h
    · subst h; exact Nat.mod_lt _ hp
    · exact hacc g h

/-- `write_chunk` stays inside its buffers and its `assert_eq!(buffer_len, 0)` holds below `rpw^16` -/
theorem writeChunkC_eq (W : Nat) (hW : 2 ≤ W) (hev : 2 ∣ W) (r : Nat) (hr : 3 ≤ r) (hrW : r < 2 ^ W)
    (x : Nat) (h : x < (radixInfo W r).rpw ^ fmtChunkLen) : writeChunkC W r x = .ok (writeChunk W r x) := by
  have ok := radixInfo_ok W r (by omega) hrW
  have hb := rpw_pow_lt W r ok fmtChunkLen (by decide)
  unfold writeChunkC writeChunk
  simp only []
  rw [reprToChunkBuffer_ok W (by omega) x (by omega)]
  simp only []
  rw [if_neg (by rw [Nat.div_eq_of_lt h]; simp)]
  have hp : 0 < (radixInfo W r).rpw := by have := ok.rpw_ge; omega
  exact flatMapE_ok _ _ _ (fun g hg => preparedWordC_eq W hW hev r hr hrW g _
    (by have := chunkGroups_lt _ hp fmtChunkLen x [] (by simp) g hg; have := ok.lt; omega) (Nat.le_refl _))

/-- `write_big_chunk(i, x)` for `x` below the power of its level -/
theorem writeBigC_eq (W : Nat) (hW : 2 ≤ W) (hev : 2 ∣ W) (r : Nat) (hr : 3 ≤ r) (hrW : r < 2 ^ W)
    (ps : List Nat) (ht : IsTower r (fmtChunkLen * (radixInfo W r).dpw) ps) (x : Nat)
    (h : x < r ^ (fmtChunkLen * (radixInfo W r).dpw * 2 ^ ps.length)) :
    writeBigC W r ps x = .ok (writeBig W r ps x) := by
  have ok := radixInfo_ok W r (by omega) hrW
  induction ps generalizing x with
  | nil =>
    simp only [writeBigC, writeBig]
    apply writeChunkC_eq W hW hev r hr hrW
    rw [ok.pow, ← pow_mul]
    simpa [Nat.mul_comm] using h
  | cons p ps ih =>
    obtain ⟨hp, ht'⟩ := ht
    have hpp : 0 < p := by rw [hp]; exact Nat.pow_pos (by omega)
    have hx : x < p * p := by
      rw [hp, ← pow_add]
      have : fmtChunkLen * (radixInfo W r).dpw * 2 ^ (p :: ps).length =
          fmtChunkLen * (radixInfo W r).dpw * 2 ^ ps.length + fmtChunkLen * (radixInfo W r).dpw * 2 ^ ps.length := by
        simp [pow_succ]; ring
      rw [← this]; exact h
    simp only [writeBigC, writeBig]
    rw [ih ht' (x / p) (by rw [← hp]; exact (Nat.div_lt_iff_lt_mul hpp).mpr hx),
      ih ht' (x % p) (by rw [← hp]; exact Nat.mod_lt _ hpp)]

-- ---------------------------------------------------------------- PreparedLarge

/-- the value bound of a tower level: `ps` the powers below it -/
def levelBound (r K : Nat) (ps : List Nat) : Nat := r ^ (K * 2 ^ ps.length)

theorem levelBound_cons (r K p : Nat) (ps : List Nat) (hp : p = r ^ (K * 2 ^ ps.length)) :
    levelBound r K (p :: ps) = p * p := by
  unfold levelBound
  rw [hp, ← pow_add, List.length_cons, pow_succ]; congr 1; ring

/-- the splitting loop keeps every big chunk below the power of its level and leaves a top part below
    `r^K = range_per_word^16` -/
theorem splitRest_bounds (r K : Nat) (hr : 1 ≤ r) (ps : List Nat) (ht : IsTower r K ps) (x : Nat)
    (acc : List (List Nat × Nat)) (hx : x < levelBound r K ps)
    (hacc : ∀ c ∈ acc, IsTower r K c.1 ∧ c.2 < levelBound r K c.1) :
    (splitRest x ps acc).1 < r ^ K ∧
    ∀ c ∈ (splitRest x ps acc).2, IsTower r K c.1 ∧ c.2 < levelBound r K c.1 := by
  induction ps generalizing x acc with
  | nil => exact ⟨by simpa [levelBound, splitRest] using hx, by simpa [splitRest] using hacc⟩
  | cons p ps ih =>
    obtain ⟨hp, ht'⟩ := ht
    have hpp : 0 < p := by rw [hp]; exact Nat.pow_pos hr
    rw [levelBound_cons r K p ps hp] at hx
    have hpb : levelBound r K ps = p := by unfold levelBound; exact hp.symm
    rw [splitRest]
    by_cases hge : x ≥ p
    · simp only [hge, if_true]
      apply ih ht' (x / p) _ (by rw [hpb]; exact (Nat.div_lt_iff_lt_mul hpp).mpr hx)
      intro c hc
      rcases List.mem_cons.mp hc with h | h
      · subst h; exact ⟨ht', by rw [hpb]; exact Nat.mod_lt _ hpp⟩
      · exact hacc c h
    · simp only [hge, if_false]
      exact ih ht' x acc (by rw [hpb]; omega) hacc

/-- **`PreparedLarge` never overruns a buffer**: the tower is high enough (length shortcut), the
    top part is below `range_per_word^16`, every big chunk is below the power of its level -/
theorem preparedLargeC_eq (W : Nat) (hW : 2 ≤ W) (hev : 2 ∣ W) (r : Nat) (hr : 3 ≤ r) (hrW : r < 2 ^ W) (n : Nat) :
    preparedLargeC W r n = .ok (preparedLarge W r n) := by
  have ok := radixInfo_ok W r (by omega) hrW
  unfold preparedLargeC preparedLarge
  simp only []
  by_cases h : (radixInfo W r).rpw ^ fmtChunkLen > n
  · simp only [h, if_true]
    exact preparedMediumC_eq W hW hev r hr hrW n h
  · simp only [h, if_false]
    have hinit : IsTower r (fmtChunkLen * (radixInfo W r).dpw) [(radixInfo W r).rpw ^ fmtChunkLen] := by
      refine ⟨?_, trivial⟩
      rw [ok.pow, ← pow_mul]; simp [Nat.mul_comm]
    have hcp2 : 2 ≤ (radixInfo W r).rpw ^ fmtChunkLen := by
      calc 2 ≤ (radixInfo W r).rpw := ok.rpw_ge
        _ = (radixInfo W r).rpw ^ 1 := (pow_one _).symm
        _ ≤ (radixInfo W r).rpw ^ fmtChunkLen := Nat.pow_le_pow_right (by have := ok.rpw_ge; omega) (by decide)
    have hfuel : n < (radixInfo W r).rpw ^ fmtChunkLen * 2 ^ bitLen n := by
      have h1 : n < 2 ^ bitLen n := (bitLen_bounds n).2
      calc n < 2 ^ bitLen n := h1
        _ ≤ (radixInfo W r).rpw ^ fmtChunkLen * 2 ^ bitLen n := Nat.le_mul_of_pos_left _ (by omega)
    obtain ⟨p, rest, hbp, hsq⟩ := buildPowers_top W (by omega) n (bitLen n) _ [] hcp2 hfuel
    obtain ⟨_, ht, hle⟩ := buildPowers_spec W n r _ (bitLen n) _ (by simp) hinit
      (by intro q hq; simp at hq; subst hq; omega)
    rw [hbp] at ht hle ⊢
    simp only []
    obtain ⟨hp, ht'⟩ := ht
    have hpp : 0 < p := by rw [hp]; exact Nat.pow_pos (by omega)
    have hpb : levelBound r (fmtChunkLen * (radixInfo W r).dpw) rest = p := by unfold levelBound; exact hp.symm
    obtain ⟨hx, hchunks⟩ := splitRest_bounds r (fmtChunkLen * (radixInfo W r).dpw) (by omega) rest ht' (n / p)
      [(rest, n % p)] (by rw [hpb]; exact (Nat.div_lt_iff_lt_mul hpp).mpr hsq)
      (by intro c hc; simp at hc; subst hc; exact ⟨ht', by rw [hpb]; exact Nat.mod_lt _ hpp⟩)
    have hx' : (splitRest (n / p) rest [(rest, n % p)]).1 < (radixInfo W r).rpw ^ fmtChunkLen := by
      rw [ok.pow, ← pow_mul]; simpa [Nat.mul_comm] using hx
    rw [preparedMediumC_eq W hW hev r hr hrW _ hx']
    simp only []
    rw [flatMapE_ok _ (fun c => writeBig W r c.1 c.2) _ (fun c hc =>
      writeBigC_eq W hW hev r hr hrW c.1 (hchunks c hc).1 c.2 (by
        have := (hchunks c hc).2; unfold levelBound at this; exact this))]

/-- **no buffer of the non-power-of-two printer is overrun, for any number** -/
theorem fmtNonPow2C_eq (W : Nat) (hW : 2 ≤ W) (hev : 2 ∣ W) (r : Nat) (hr : 3 ≤ r) (hrW : r < 2 ^ W) (n : Nat) :
    fmtNonPow2C W r n = .ok (fmtNonPow2 W r n) := by
  have ok := radixInfo_ok W r (by omega) hrW
  unfold fmtNonPow2C fmtNonPow2
  split
  · rename_i h; exact preparedWordC_eq W hW hev r hr hrW n 1 h ok.dpos
  · rename_i h1
    split
    · rename_i h2; exact preparedDwordC_eq W hW hev r hr hrW n (by omega) h2
    · simp only []
      split
      · rename_i hmed
        apply preparedMediumC_eq W hW hev r hr hrW
        -- n < 2^(W·len) ≤ (rpw·r)^len = r^((dpw+1)·len) ≤ r^(16·dpw) = rpw^16
        have hmaxr := (maxExpInWord_spec W r (by omega) hrW).2.2.2 hev
        have hmax : 2 ^ W ≤ r ^ ((radixInfo W r).dpw + 1) := by
          rw [pow_succ, ← ok.pow]; exact hmaxr
        calc n < 2 ^ (W * wordLen W n) := lt_pow_wordLen W (by omega) n
          _ = (2 ^ W) ^ wordLen W n := (two_pow_mul W _).symm
          _ ≤ (r ^ ((radixInfo W r).dpw + 1)) ^ wordLen W n := Nat.pow_le_pow_left hmax _
          _ = r ^ (wordLen W n * ((radixInfo W r).dpw + 1)) := by rw [← pow_mul]; congr 1; ring
          _ ≤ r ^ (fmtChunkLen * (radixInfo W r).dpw) := Nat.pow_le_pow_right (by omega) hmed
          _ = (radixInfo W r).rpw ^ fmtChunkLen := by rw [ok.pow, ← pow_mul]; congr 1; ring
      · exact preparedLargeC_eq W hW hev r hr hrW n

-- ---------------------------------------------------------------- power-of-two printer

theorem ceilDiv_le_self (a b : Nat) (hb : 1 ≤ b) : ceilDiv a b ≤ a := by
  unfold ceilDiv
  split
  · omega
  · have := Nat.div_le_self (a - 1) b; omega

theorem fmtPow2C_eq (W r n : Nat) (hW : 1 ≤ W) (hlog : 1 ≤ Nat.log2 r) : fmtPow2C W r n = .ok (fmtPow2 W r n) := by
  unfold fmtPow2C fmtPow2 pow2SmallC
  simp only []
  have hcd := ceilDiv_le_self (bitLen n) (Nat.log2 r) hlog
  split
  · rename_i h
    have hb := bitLen_le_iff.mpr h
    have h2 : n < 2 ^ (2 * W) := by
      calc n < 2 ^ W := h
        _ ≤ 2 ^ (2 * W) := Nat.pow_le_pow_right (by omega) (by omega)
    rw [if_neg (by omega), if_pos h2]
  · split
    · rename_i h2
      have hb := bitLen_le_iff.mpr h2
      rw [if_neg (by omega)]
    · rfl

-- ---------------------------------------------------------------- DigitWriter

/-- `DigitWriter::write` never indexes outside its buffer and loses or reorders nothing: after any
    `write`, (flushed output) ++ (pending, converted) grew by exactly the converted input -/
theorem DW_write_spec (cap : Nat) (hcap : 1 ≤ cap) (c : DigitCase) (buf : List Nat) (s : DW)
    (hs : s.pending.length < cap) :
    ∃ s', DW.write cap c s buf = .ok s' ∧ s'.pending.length < cap ∧
      s'.out ++ s'.pending.map (rawToAscii c) = s.out ++ s.pending.map (rawToAscii c) ++ buf.map (rawToAscii c) := by
  induction hn : buf.length using Nat.strong_induction_on generalizing buf s with
  | _ n ih =>
    subst hn
    by_cases hb : buf = []
    · subst hb; rw [DW.write]; exact ⟨s, by simp, hs, by simp⟩
    · rw [DW.write, dif_neg hb]
      simp only []
      have hlen : buf.length ≠ 0 := fun h => hb (List.length_eq_zero_iff.mp h)
      have hmin : min buf.length (cap - s.pending.length) ≠ 0 := by omega
      rw [if_neg (by omega), if_neg hmin]
      generalize hl : min buf.length (cap - s.pending.length) = len at *
      have hsplit : buf = buf.take len ++ buf.drop len := (List.take_append_drop _ _).symm
      have htl : (buf.take len).length = len := by rw [List.length_take]; omega
      by_cases hfull : (s.pending ++ buf.take len).length = cap
      · simp only [hfull, if_true]
        obtain ⟨s', h1, h2, h3⟩ := ih (buf.drop len).length (by rw [List.length_drop]; omega) (buf.drop len)
          (DW.flush c ⟨s.pending ++ buf.take len, s.out⟩) (by simp [DW.flush]; omega) rfl
        refine ⟨s', h1, h2, ?_⟩
        rw [h3]
        simp only [DW.flush, List.map_nil, List.append_nil, List.map_append]
        conv_rhs => rw [hsplit, List.map_append]
        simp [List.append_assoc]
      · simp only [hfull, if_false]
        have hlt : (s.pending ++ buf.take len).length < cap := by
          rw [List.length_append, htl] at hfull ⊢; omega
        obtain ⟨s', h1, h2, h3⟩ := ih (buf.drop len).length (by rw [List.length_drop]; omega) (buf.drop len)
          ⟨s.pending ++ buf.take len, s.out⟩ hlt rfl
        refine ⟨s', h1, h2, ?_⟩
        rw [h3]
        simp only [List.map_append]
        conv_rhs => rw [hsplit, List.map_append]
        simp [List.append_assoc]

end Dashu.Model.Text
