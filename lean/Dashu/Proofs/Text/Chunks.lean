import Dashu.Proofs.Text.BytesDecode
import Dashu.Proofs.Text.Capacity
/-
  convert.rs chunk routines: `to_chunks` (inline path, word-aligned shortcut with the clamp of fix
  49f0136, general path with copy / mask / shift) equals the positional specification
  `chunksSpec` — base-`2^k` digits, none for zero — for every number and every chunk size `k ≥ 1`.
-/
namespace Dashu.Model.Text
open Dashu.Model (val)

/-- chunks are the `ceil(bit_len / k)` low base-`2^k` digits -/
theorem chunksSpec_eq (n k : Nat) (hk : 1 ≤ k) : chunksSpec n k = digitsPadLE (2 ^ k) (ceilDiv (bitLen n) k) n := by
  unfold chunksSpec
  by_cases hn : n = 0
  · subst hn; simp [digitsAux_zero, bitLen, ceilDiv, digitsPadLE]
  · have hb := bitLen_bounds n
    have h := digits_pow2_width k n (bitLen n) hk hb.1 hb.2
    have hb1 := bitLen_pos hn
    have h1 : 1 ≤ ceilDiv (bitLen n) k := by
      unfold ceilDiv; have : bitLen n ≠ 0 := by omega
      simp [this]
    rw [Nat.max_eq_left h1, digits_of_ne_zero hn] at h
    rw [h, digitsPad, List.reverse_reverse]

theorem digitsPadLE_pow2_range (k c n : Nat) :
    digitsPadLE (2 ^ k) c n = (List.range c).map (fun i => n / 2 ^ (k * i) % 2 ^ k) := by
  rw [digitsPadLE_eq_range]
  apply List.map_congr_left; intro i _; rw [two_pow_mul]

theorem drop_digitsPadLE (r j k x : Nat) (h : j ≤ k) : (digitsPadLE r k x).drop j = digitsPadLE r (k - j) (x / r ^ j) := by
  obtain ⟨d, rfl⟩ : ∃ d, k = j + d := ⟨k - j, by omega⟩
  rw [digitsPadLE_add, List.drop_left' (digitsPadLE_length r j x), Nat.add_sub_cancel_left]

theorem val_digitsPadLE (W j x : Nat) : val W (digitsPadLE (2 ^ W) j x) = x % 2 ^ (W * j) := by
  rw [val_eq_ofDigitsLE, ofDigitsLE_digitsPadLE, two_pow_mul]

theorem div_mod_pow2 (y a b : Nat) : (y % 2 ^ (a + b)) / 2 ^ a = (y / 2 ^ a) % 2 ^ b := by
  rw [pow_add]; exact Nat.mod_mul_right_div_self y (2 ^ a) (2 ^ b)

theorem bitLen_le_wordLen (W : Nat) (hW : 1 ≤ W) (n : Nat) : bitLen n ≤ W * wordLen W n :=
  bitLen_le_iff.mpr (lt_pow_wordLen W hW n)

theorem wordsOf_length (W n : Nat) (hW : 1 ≤ W) : (wordsOf W n).length = wordLen W n := by
  -- both are the number of base-2^W digits
  obtain ⟨hw, hlast⟩ := wordsOf_eq W n hW
  by_cases hn : n = 0
  · subst hn; simp [wordsOf, digitsAux_zero, wordLen, bitLen, ceilDiv]
  · obtain ⟨hl1, hl0, hllt, hL1⟩ := hlast hn
    generalize hL : (wordsOf W n).length = L at *
    -- (2^W)^(L-1) ≤ n < (2^W)^L
    have hlo : 2 ^ (W * (L - 1)) ≤ n := by
      have hp : 0 < (2 ^ W) ^ (L - 1) := Nat.pow_pos (Nat.pow_pos (by omega))
      have : 1 ≤ n / (2 ^ W) ^ (L - 1) := by rw [← hl1]; omega
      have := (Nat.le_div_iff_mul_le hp).mp this
      rw [two_pow_mul] at this; omega
    have hhi : n < 2 ^ (W * L) := by
      have hp : 0 < (2 ^ W) ^ (L - 1) := Nat.pow_pos (Nat.pow_pos (by omega))
      rw [hl1, Nat.div_lt_iff_lt_mul hp, Nat.mul_comm, ← pow_succ, two_pow_mul] at hllt
      have : L - 1 + 1 = L := by omega
      rw [this] at hllt; exact hllt
    have h1 := (wordLen_le_iff W hW n L).mpr hhi
    have h2 : ¬ wordLen W n ≤ L - 1 := by
      intro h; have := (wordLen_le_iff W hW n (L - 1)).mp h; omega
    omega

/-- the word-aligned shortcut (with the clamp `end_pos.min(words.len())`) -/
theorem alignedChunk_eq (W n wpc i : Nat) (hW : 1 ≤ W) (hwpc : 1 ≤ wpc) (hi : i * (W * wpc) < bitLen n) :
    alignedChunk W (wordsOf W n) wpc i = n / 2 ^ (W * wpc * i) % 2 ^ (W * wpc) := by
  obtain ⟨hw, _⟩ := wordsOf_eq W n hW
  have hL := wordsOf_length W n hW
  have hbl := bitLen_le_wordLen W hW n
  generalize hLdef : (wordsOf W n).length = L at *
  -- i * wpc < L
  have hiL : i * wpc < L := by
    have : W * (i * wpc) < W * L := by
      calc W * (i * wpc) = i * (W * wpc) := by ring
        _ < bitLen n := hi
        _ ≤ W * wordLen W n := hbl
        _ = W * L := by rw [hL]
    exact Nat.lt_of_mul_lt_mul_left this
  unfold alignedChunk
  simp only [hLdef]
  rw [hw, drop_digitsPadLE _ _ _ _ (by omega), take_digitsPadLE _ _ _ _ (by omega), val_digitsPadLE]
  rw [two_pow_mul]
  have e1 : W * (i * wpc) = W * wpc * i := by ring
  rw [e1]
  by_cases hfull : i * wpc + wpc ≤ L
  · rw [Nat.min_eq_left hfull, Nat.add_sub_cancel_left]
  · -- the last, shorter chunk: the quotient already fits
    have hmin : min (i * wpc + wpc) L = L := Nat.min_eq_right (by omega)
    rw [hmin]
    have hq : n / 2 ^ (W * wpc * i) < 2 ^ (W * (L - i * wpc)) := by
      rw [Nat.div_lt_iff_lt_mul (Nat.pow_pos (by omega)), ← pow_add]
      have : W * (L - i * wpc) + W * wpc * i = W * L := by
        have : W * wpc * i = W * (i * wpc) := by ring
        rw [this, ← Nat.mul_add]; congr 1; omega
      rw [this, hL]; exact lt_pow_wordLen W hW n
    rw [Nat.mod_eq_of_lt hq, Nat.mod_eq_of_lt]
    calc n / 2 ^ (W * wpc * i) < 2 ^ (W * (L - i * wpc)) := hq
      _ ≤ 2 ^ (W * wpc) := Nat.pow_le_pow_right (by omega) (Nat.mul_le_mul_left _ (by omega))

theorem digitsPadLE_snoc (r m x : Nat) : digitsPadLE r (m + 1) x = digitsPadLE r m x ++ [x / r ^ m % r] := by
  rw [digitsPadLE_add r m 1 x]; rfl

/-- the general path: copy the words containing the bit range, mask the top one, shift right -/
theorem unalignedChunk_eq (W n k i : Nat) (hW : 1 ≤ W) (hk : 1 ≤ k) (hi : i * k < bitLen n) :
    unalignedChunk W (wordsOf W n) (bitLen n) k i = n / 2 ^ (k * i) % 2 ^ k := by
  obtain ⟨hw, _⟩ := wordsOf_eq W n hW
  have hL := wordsOf_length W n hW
  have hbl := bitLen_le_wordLen W hW n
  have hnlt : n < 2 ^ bitLen n := (bitLen_bounds n).2
  generalize hLdef : (wordsOf W n).length = L at *
  unfold unalignedChunk
  simp only []
  generalize hstart : i * k = start at *
  generalize hend : min (bitLen n) (start + k) = end_ at *
  have hse : start < end_ := by omega
  have hendle : end_ ≤ bitLen n := by omega
  -- positions
  have hsp := Nat.div_add_mod start W
  have hep := Nat.div_add_mod end_ W
  have hsm := Nat.mod_lt start (by omega : 0 < W)
  have hem := Nat.mod_lt end_ (by omega : 0 < W)
  generalize hspd : start / W = sp at *
  generalize hepd : end_ / W = ep at *
  generalize hsb : start % W = sb at *
  generalize heb : end_ % W = eb at *
  have hspep : sp ≤ ep := by
    by_contra hc
    have : ep + 1 ≤ sp := by omega
    have := Nat.mul_le_mul_left W this
    rw [Nat.mul_add, Nat.mul_one] at this; omega
  -- the copied words as a number: (n / 2^(W·sp)) % 2^(end - W·sp)
  have hcopied : val W (if eb ≠ 0 then
        ((wordsOf W n).drop sp |>.take (ep - sp + 1)).dropLast ++
          [((wordsOf W n).drop sp |>.take (ep - sp + 1)).getLastD 0 % 2 ^ eb]
      else (wordsOf W n).drop sp |>.take (ep - sp)) =
      (n / 2 ^ (W * sp)) % 2 ^ (end_ - W * sp) := by
    have hepL : W * ep + eb ≤ W * L := by rw [← hL] at hbl; omega
    by_cases heb0 : eb ≠ 0
    · rw [if_pos heb0]
      have hepL' : ep < L := by
        by_contra hc
        have : L ≤ ep := by omega
        have := Nat.mul_le_mul_left W this; omega
      rw [hw, drop_digitsPadLE _ _ _ _ (by omega), take_digitsPadLE _ _ _ _ (by omega), digitsPadLE_snoc]
      rw [List.dropLast_concat, List.getLastD_concat]
      rw [Dashu.Model.val_append, val_digitsPadLE, digitsPadLE_length, two_pow_mul]
      simp only [val, Nat.mul_zero, Nat.add_zero]
      have hmm : n / 2 ^ (W * sp) / (2 ^ W) ^ (ep - sp) % 2 ^ W % 2 ^ eb =
          n / 2 ^ (W * sp) / 2 ^ (W * (ep - sp)) % 2 ^ eb := by
        rw [two_pow_mul]; exact Nat.mod_mod_of_dvd _ (Nat.pow_dvd_pow 2 (by omega))
      rw [hmm]
      have hexp : end_ - W * sp = W * (ep - sp) + eb := by
        rw [Nat.mul_sub]; have := Nat.mul_le_mul_left W hspep; omega
      rw [hexp, pow_add]
      exact (Nat.mod_mul).symm
    · have heb0' : eb = 0 := by omega
      rw [if_neg heb0]
      have hepL' : ep ≤ L := by
        by_contra hc
        have : L + 1 ≤ ep := by omega
        have := Nat.mul_le_mul_left W this
        rw [Nat.mul_add] at this; omega
      rw [hw, drop_digitsPadLE _ _ _ _ (by omega), take_digitsPadLE _ _ _ _ (by omega), val_digitsPadLE, two_pow_mul]
      congr 2
      rw [Nat.mul_sub]; omega
  rw [hcopied]
  -- shift by start % W and compare with the digit
  have hexp2 : end_ - W * sp = sb + (end_ - start) := by omega
  rw [hexp2, div_mod_pow2, Nat.div_div_eq_div_mul, ← pow_add]
  have hst : W * sp + sb = start := hsp
  rw [hst, ← hstart, Nat.mul_comm i k] at *
  have hq : n / 2 ^ (k * i) < 2 ^ (bitLen n - k * i) := by
    rw [Nat.div_lt_iff_lt_mul (Nat.pow_pos (by omega)), ← pow_add]
    have : bitLen n - k * i + k * i = bitLen n := by omega
    rw [this]; exact hnlt
  by_cases hfull : k * i + k ≤ bitLen n
  · have : end_ - k * i = k := by omega
    rw [this]
  · have he : end_ - k * i = bitLen n - k * i := by omega
    rw [he, Nat.mod_eq_of_lt hq, Nat.mod_eq_of_lt]
    calc n / 2 ^ (k * i) < 2 ^ (bitLen n - k * i) := hq
      _ ≤ 2 ^ k := Nat.pow_le_pow_right (by omega) (by omega)

/-- **`UBig::to_chunks` (all three paths) = the positional chunks**, every number, every `k ≥ 1`,
    every word size -/
theorem toChunks_eq (W n k : Nat) (hW : 1 ≤ W) (hk : 1 ≤ k) : toChunks W n k = .ok (chunksSpec n k) := by
  unfold toChunks
  rw [if_neg (by omega), chunksSpec_eq n k hk, digitsPadLE_pow2_range]
  simp only []
  have hcount : ∀ i, i < ceilDiv (bitLen n) k → i * k < bitLen n := by
    intro i hi
    unfold ceilDiv at hi
    by_cases h0 : bitLen n = 0
    · simp [h0] at hi
    · simp only [h0, if_false] at hi
      have h1 : i ≤ (bitLen n - 1) / k := by omega
      have := (Nat.le_div_iff_mul_le (by omega)).mp h1
      omega
  split
  · -- inline
    split
    · rename_i h0; rw [h0]; rfl
    · split
      · rename_i h1
        rw [h1]
        simp only [List.range_succ, List.range_zero, List.nil_append, List.map_cons, List.map_nil, Nat.mul_zero,
          pow_zero, Nat.div_one]
        have := hcount 0 (by omega)
        have hlt : n < 2 ^ k := by
          have hc : ceilDiv (bitLen n) k ≤ 1 := by omega
          unfold ceilDiv at hc
          by_cases h0 : bitLen n = 0
          · exact bitLen_le_iff.mp (by omega)
          · simp only [h0, if_false] at hc
            have : (bitLen n - 1) / k = 0 := Nat.eq_zero_of_le_zero (Nat.le_of_succ_le_succ hc)
            have := (Nat.div_eq_zero_iff.mp this).resolve_left (by omega)
            exact bitLen_le_iff.mp (by omega)
        rw [Nat.mod_eq_of_lt hlt]
      · congr 1
        apply List.map_congr_left; intro i _
        rw [Nat.shiftRight_eq_div_pow, Nat.mul_comm]
  · split
    · rename_i hal
      congr 1
      apply List.map_congr_left; intro i hi
      have hi' := hcount i (List.mem_range.mp hi)
      have hkW : k = W * (k / W) := by
        have := Nat.div_add_mod k W; omega
      have hwpc : 1 ≤ k / W := by
        rcases Nat.eq_zero_or_pos (k / W) with h | h
        · rw [h] at hkW; omega
        · exact h
      rw [alignedChunk_eq W n (k / W) i hW hwpc (by rw [← hkW]; exact hi'), ← hkW]
    · congr 1
      apply List.map_congr_left; intro i hi
      exact unalignedChunk_eq W n k i hW hk (hcount i (List.mem_range.mp hi))

/-- chunk round trip of the **model** -/
theorem fromChunks_toChunks (W n k : Nat) (hW : 1 ≤ W) (hk : 1 ≤ k) :
    (toChunks W n k).bind (fun cs => fromChunks k cs) = .ok n := by
  rw [toChunks_eq W n k hW hk]
  simp only [Except.bind, fromChunks]
  rw [if_neg (by omega), ofChunksSpec_chunksSpec n k hk]

end Dashu.Model.Text
