import Dashu.Proofs.Text.CapacityParse
import Dashu.Props.C01
/-
  C07 — link theorem: the accumulation loop of `non_power_two::parse_chunk` run ON WORDS with C01's mirrored
  kernel `mulWordInPlace` (`mul::mul_word_in_place_with_carry`, proved in `Props/C01.mul_word_in_place_exact`)
  and the `if carry != 0 { buffer.push(carry) }` of the source computes exactly the number that the
  Nat-valued loop `parseChunkLoop` of `Model/Text/Parse.lean` (the one the parser theorems are about) computes.
  The proof goes through C01's theorem (imported), not through a re-proof of the kernel.
-/
namespace Dashu.Model.Text
open Dashu.Model

/-- the loop of `parse_chunk` on the word buffer: `carry = mul_word_in_place_with_carry(&mut buffer,
    range_per_word, next); if carry != 0 { buffer.push(carry) }` -/
def parseChunkLoopW (W r rpw : Nat) : List (List Nat) → List Nat → Except ParseError (List Nat)
  | [], buf => .ok buf
  | g :: gs, buf =>
    match parseWord r g with
    | .error e => .error e
    | .ok next =>
      let m := mulWordInPlace W buf rpw next
      parseChunkLoopW W r rpw gs (if m.2 ≠ 0 then m.1 ++ [m.2] else m.1)

/-- `parse_chunk` on words: `Buffer::allocate(groups.len())` starts empty -/
def parseChunkW (W r : Nat) (bytes : List Nat) : Except ParseError (List Nat) :=
  let ri := radixInfo W r
  parseChunkLoopW W r ri.rpw (rchunksRev ri.dpw bytes) []

theorem parseChunkLoopW_spec {W r : Nat} {ri : RadixInfo} (ok : RadixOK W r ri) (gs : List (List Nat))
    (hgs : ∀ g ∈ gs, g.length ≤ ri.dpw) (buf : List Nat) (hb : IsWords W buf) :
    Except.map (val W) (parseChunkLoopW W r ri.rpw gs buf) = parseChunkLoop r ri.rpw gs (val W buf) ∧
    ∀ ws, parseChunkLoopW W r ri.rpw gs buf = .ok ws → IsWords W ws ∧ ws.length ≤ buf.length + gs.length := by
  induction gs generalizing buf with
  | nil =>
    refine ⟨rfl, ?_⟩
    intro ws h
    simp only [parseChunkLoopW] at h
    cases h
    exact ⟨hb, by simp⟩
  | cons g gs ih =>
    have hg := hgs g (by simp)
    simp only [parseChunkLoopW, parseChunkLoop]
    cases hp : parseWord r g with
    | error e => exact ⟨rfl, fun ws h => by simp at h⟩
    | ok next =>
      simp only []
      have hnext : next < ri.rpw := by
        have := parseWordLoop_lt g 0 0 next (by simp) hp
        calc next < r ^ (0 + g.length) := this
          _ ≤ r ^ ri.dpw := Nat.pow_le_pow_right (by have := ok.hr; omega) (by omega)
          _ = ri.rpw := ok.pow.symm
      have hlt := ok.lt
      -- C01's kernel theorem, by import
      obtain ⟨hval, hlen, hw, hc⟩ := Dashu.Props.C01.mul_word_in_place_exact W buf ri.rpw next hb hlt (by omega)
      have hgs' : ∀ x ∈ gs, x.length ≤ ri.dpw := fun x hx => hgs x (by simp [hx])
      by_cases hc0 : (mulWordInPlace W buf ri.rpw next).2 ≠ 0
      · rw [if_pos hc0]
        have hw' : IsWords W ((mulWordInPlace W buf ri.rpw next).1 ++ [(mulWordInPlace W buf ri.rpw next).2]) :=
          IsWords.append hw (by intro x hx; simp at hx; subst hx; exact hc)
        obtain ⟨h1, h2⟩ := ih hgs' _ hw'
        refine ⟨?_, ?_⟩
        · rw [h1, val_append, hlen]
          simp only [val, Nat.mul_zero, Nat.add_zero]
          rw [hval]
        · intro ws h
          obtain ⟨a, b⟩ := h2 ws h
          refine ⟨a, ?_⟩
          simp only [List.length_append, List.length_cons, List.length_nil, hlen] at b ⊢
          omega
      · rw [if_neg hc0]
        have hz : (mulWordInPlace W buf ri.rpw next).2 = 0 := by omega
        obtain ⟨h1, h2⟩ := ih hgs' _ hw
        refine ⟨?_, ?_⟩
        · rw [h1]
          rw [hz] at hval
          simp only [Nat.mul_zero, Nat.add_zero] at hval
          rw [hval]
        · intro ws h
          obtain ⟨a, b⟩ := h2 ws h
          refine ⟨a, ?_⟩
          simp only [List.length_cons, hlen] at b ⊢
          omega

/-- `parse_chunk` on words = `parse_chunk` on numbers, errors included; the result is a word list that
    fits `Buffer::allocate(groups.len())` -/
theorem parseChunkW_spec (W r : Nat) (hr : 2 ≤ r) (hrW : r < 2 ^ W) (bytes : List Nat) :
    Except.map (val W) (parseChunkW W r bytes) = parseChunk W r bytes ∧
    ∀ ws, parseChunkW W r bytes = .ok ws →
      IsWords W ws ∧ ws.length ≤ (rchunksRev (radixInfo W r).dpw bytes).length := by
  have ok := radixInfo_ok W r hr hrW
  have hk : (radixInfo W r).dpw ≠ 0 := by have := ok.dpos; omega
  have := parseChunkLoopW_spec ok _ (rchunksRev_lengths _ hk bytes) [] (by intro x hx; cases hx)
  unfold parseChunkW parseChunk
  simpa using this

-- ---------------------------------------------------------------- UBig level (TypedRepr of C01)

/-- `parse_chunk` up to its `Ok(UBig(Repr::from_buffer(buffer)))` -/
def parseChunkT (W r : Nat) (bytes : List Nat) : Except ParseError TRepr :=
  Except.map (fromBuffer W) (parseChunkW W r bytes)

/-- `parse_large_divide_conquer` on `UBig`s: `res_hi * radix_power + res_lo` are C01's `TRepr.mul` / `TRepr.add` -/
def parseDCT (W r chunkBytes form : Nat) : List TRepr → List Nat → Except ParseError TRepr
  | [], bytes => parseChunkT W r bytes
  | p :: ps, bytes =>
    let loLen := chunkBytes <<< ps.length
    if bytes.length ≤ loLen then parseDCT W r chunkBytes form ps bytes
    else
      match parseDCT W r chunkBytes form ps (bytes.take (bytes.length - loLen)) with
      | .error e => .error e
      | .ok hi =>
        match parseDCT W r chunkBytes form ps (bytes.drop (bytes.length - loLen)) with
        | .error e => .error e
        | .ok lo => .ok (((hi.mul W p).add W lo form))

/-- the `radix_powers` loop on `UBig`s: `new = prev * prev` -/
def parsePowersT (W chunkBytes len : Nat) : Nat → List TRepr → List TRepr
  | 0, ps => ps
  | fuel + 1, ps =>
    match ps with
    | [] => []
    | prev :: _ =>
      if chunkBytes ≤ (len - 1) >>> ps.length then parsePowersT W chunkBytes len fuel (prev.mul W prev :: ps)
      else ps

/-- `parse_large` on `UBig`s: `UBig::from(range_per_word).pow(CHUNK_LEN)`, the tower, the recursion -/
def parseLargeT (W r form : Nat) (bytes : List Nat) : Except ParseError TRepr :=
  let ri := radixInfo W r
  let chunkBytes := parseChunkLen * ri.dpw
  let ps := parsePowersT W chunkBytes bytes.length bytes.length [ubigPow W (ofNat W ri.rpw) parseChunkLen]
  parseDCT W r chunkBytes form ps bytes

theorem parseChunkT_spec (W r : Nat) (hr : 2 ≤ r) (hrW : r < 2 ^ W) (bytes : List Nat) :
    Except.map (TRepr.value W) (parseChunkT W r bytes) = parseChunk W r bytes ∧
    ∀ t, parseChunkT W r bytes = .ok t → t.Canon W := by
  obtain ⟨h1, h2⟩ := parseChunkW_spec W r hr hrW bytes
  unfold parseChunkT
  cases hp : parseChunkW W r bytes with
  | error e => rw [hp] at h1; exact ⟨h1, fun t h => by simp [Except.map] at h⟩
  | ok ws =>
    rw [hp] at h1
    have hw := (h2 ws hp).1
    have hb := Dashu.Props.C01.from_buffer_exact W ws hw
    refine ⟨?_, ?_⟩
    · rw [← h1]; simp only [Except.map]; rw [hb.1]
    · intro t h; simp only [Except.map] at h; cases h; exact hb.2

theorem parseDCT_spec (W r : Nat) (hW : 4 ≤ W) (hr : 2 ≤ r) (hrW : r < 2 ^ W) (chunkBytes form : Nat) (ps : List TRepr)
    (hps : ∀ p ∈ ps, p.Canon W) (bytes : List Nat) :
    Except.map (TRepr.value W) (parseDCT W r chunkBytes form ps bytes) =
      parseDC W r chunkBytes (ps.map (TRepr.value W)) bytes ∧
    ∀ t, parseDCT W r chunkBytes form ps bytes = .ok t → t.Canon W := by
  induction ps generalizing bytes with
  | nil => exact parseChunkT_spec W r hr hrW bytes
  | cons p ps ih =>
    have hps' : ∀ q ∈ ps, q.Canon W := fun q hq => hps q (by simp [hq])
    have hp := hps p (by simp)
    simp only [parseDCT, parseDC, List.map_cons, List.length_map]
    by_cases hle : bytes.length ≤ chunkBytes <<< ps.length
    · rw [if_pos hle, if_pos hle]; exact ih hps' bytes
    · rw [if_neg hle, if_neg hle]
      obtain ⟨a1, a2⟩ := ih hps' (bytes.take (bytes.length - chunkBytes <<< ps.length))
      obtain ⟨b1, b2⟩ := ih hps' (bytes.drop (bytes.length - chunkBytes <<< ps.length))
      cases hhi : parseDCT W r chunkBytes form ps (bytes.take (bytes.length - chunkBytes <<< ps.length)) with
      | error e =>
        rw [hhi] at a1; simp only [Except.map] at a1; rw [← a1]
        exact ⟨rfl, fun t h => by simp at h⟩
      | ok hi =>
        rw [hhi] at a1; simp only [Except.map] at a1; rw [← a1]
        cases hlo : parseDCT W r chunkBytes form ps (bytes.drop (bytes.length - chunkBytes <<< ps.length)) with
        | error e =>
          rw [hlo] at b1; simp only [Except.map] at b1; rw [← b1]
          exact ⟨rfl, fun t h => by simp at h⟩
        | ok lo =>
          rw [hlo] at b1; simp only [Except.map] at b1; rw [← b1]
          have hm := Dashu.Props.C01.u_mul_exact W hW hi p (a2 hi hhi) hp
          have ha := Dashu.Props.C01.u_add_exact W (by omega) (hi.mul W p) lo form hm.2 (b2 lo hlo)
          refine ⟨?_, ?_⟩
          · simp only [Except.map]; rw [ha.1, hm.1]
          · intro t h; cases h; exact ha.2

theorem parsePowersT_spec (W : Nat) (hW : 4 ≤ W) (chunkBytes len fuel : Nat) (ps : List TRepr)
    (hps : ∀ p ∈ ps, p.Canon W) :
    (parsePowersT W chunkBytes len fuel ps).map (TRepr.value W) =
      parsePowers chunkBytes len fuel (ps.map (TRepr.value W)) ∧
    ∀ p ∈ parsePowersT W chunkBytes len fuel ps, p.Canon W := by
  induction fuel generalizing ps with
  | zero => exact ⟨rfl, hps⟩
  | succ fuel ih =>
    cases ps with
    | nil => exact ⟨rfl, by intro p hp; simp [parsePowersT] at hp⟩
    | cons prev rest =>
      simp only [parsePowersT, parsePowers, List.map_cons, List.length_cons, List.length_map]
      by_cases hc : chunkBytes ≤ (len - 1) >>> (rest.length + 1)
      · rw [if_pos hc, if_pos hc]
        have hprev := hps prev (by simp)
        have hm := Dashu.Props.C01.u_mul_exact W hW prev prev hprev hprev
        have := ih (prev.mul W prev :: prev :: rest) (by
          intro q hq
          rcases List.mem_cons.mp hq with h | h
          · subst h; exact hm.2
          · exact hps q h)
        simpa only [List.map_cons, hm.1] using this
      · rw [if_neg hc, if_neg hc]
        exact ⟨rfl, hps⟩

/-- `parse_large` on `UBig`s = `parse_large` on numbers -/
theorem parseLargeT_spec (W r : Nat) (hW : 4 ≤ W) (hr : 2 ≤ r) (hrW : r < 2 ^ W) (form : Nat) (bytes : List Nat) :
    Except.map (TRepr.value W) (parseLargeT W r form bytes) = parseLarge W r bytes ∧
    ∀ t, parseLargeT W r form bytes = .ok t → t.Canon W := by
  have hn := Dashu.Props.C01.of_nat_exact W (by omega) (radixInfo W r).rpw
  have hp := Dashu.Props.C01.u_pow_exact W hW (ofNat W (radixInfo W r).rpw) parseChunkLen hn.2
  have hps := parsePowersT_spec W hW (parseChunkLen * (radixInfo W r).dpw) bytes.length bytes.length
    [ubigPow W (ofNat W (radixInfo W r).rpw) parseChunkLen] (by intro q hq; simp at hq; subst hq; exact hp.2)
  have := parseDCT_spec W r hW hr hrW (parseChunkLen * (radixInfo W r).dpw) form _ hps.2 bytes
  unfold parseLargeT parseLarge
  simp only []
  rw [hps.1] at this
  simpa only [List.map_cons, List.map_nil, hp.1, hn.1] using this

/-- `non_power_two::parse` on `UBig`s: `Ok(parse_word(bytes, radix)?.into())` / `parse_chunk` / `parse_large` -/
def parseNonPow2T (W r form : Nat) (src : List Nat) : Except ParseError TRepr :=
  let ri := radixInfo W r
  let bytes := if src.contains 95 then src.filter (· ≠ 95) else src
  if bytes.length ≤ ri.dpw then Except.map (ofNat W) (parseWord r bytes)
  else if bytes.length ≤ parseChunkLen * ri.dpw then parseChunkT W r bytes
  else parseLargeT W r form bytes

theorem parseNonPow2T_spec (W r : Nat) (hW : 4 ≤ W) (hr : 2 ≤ r) (hrW : r < 2 ^ W) (form : Nat) (src : List Nat) :
    Except.map (TRepr.value W) (parseNonPow2T W r form src) = parseNonPow2 W r src ∧
    ∀ t, parseNonPow2T W r form src = .ok t → t.Canon W := by
  unfold parseNonPow2T parseNonPow2
  simp only []
  generalize (if src.contains 95 then src.filter (· ≠ 95) else src) = bytes
  by_cases h1 : bytes.length ≤ (radixInfo W r).dpw
  · rw [if_pos h1, if_pos h1]
    cases hp : parseWord r bytes with
    | error e => exact ⟨rfl, fun t h => by simp [Except.map] at h⟩
    | ok v =>
      have hn := Dashu.Props.C01.of_nat_exact W (by omega) v
      refine ⟨?_, ?_⟩
      · simp only [Except.map]; rw [hn.1]
      · intro t h; simp only [Except.map] at h; cases h; exact hn.2
  · rw [if_neg h1, if_neg h1]
    by_cases h2 : bytes.length ≤ parseChunkLen * (radixInfo W r).dpw
    · rw [if_pos h2, if_pos h2]; exact parseChunkT_spec W r hr hrW _
    · rw [if_neg h2, if_neg h2]; exact parseLargeT_spec W r hW hr hrW form _

end Dashu.Model.Text
