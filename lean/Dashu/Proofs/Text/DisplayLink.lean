import Dashu.Proofs.Text.FloatPrec
import Dashu.Proofs.Ratio.FBigRound
/-
  C08 — link between the executable specification of `Display` with a precision (`displaySpec`:
  `roundInt` of the rational value, builder-float's definition of the modes over `Rat`) and the
  relational specification `ModeSpec` the theorems about the model are stated with:
  * `roundInt m (N / D)` satisfies `ModeSpec m N D` (every mode, every integer quotient);
  * `ModeSpec m N D` determines its result;
  hence the integer `displaySpec` prints IS the integer `fmt_round` prints (`precRounded`).
-/
namespace Dashu.Model.Text
open Dashu.Model.Float Dashu.Props.GenRound Dashu.Model.Ratio

theorem scale_cmp (x f : ℚ) (D N F : Int) (hD : 0 < D) (hx : x * (D : ℚ) = (N : ℚ)) (hF : f * (D : ℚ) = (F : ℚ)) :
    (2 * (x - f) < 1 ↔ 2 * (N - F) < D) ∧ (2 * (x - f) = 1 ↔ 2 * (N - F) = D) := by
  have hDq : (0 : ℚ) < (D : ℚ) := by exact_mod_cast hD
  have key : 2 * (x - f) * (D : ℚ) = ((2 * (N - F) : Int) : ℚ) := by
    have : 2 * (x - f) * (D : ℚ) = 2 * (x * D) - 2 * (f * D) := by ring
    rw [this, hx, hF]; push_cast; ring
  constructor
  · rw [← mul_lt_mul_iff_of_pos_right hDq, key, one_mul]
    exact_mod_cast Iff.rfl
  · constructor
    · intro h
      have : 2 * (x - f) * (D : ℚ) = 1 * (D : ℚ) := by rw [h]
      rw [key, one_mul] at this
      exact_mod_cast this
    · intro h
      have h2 : ((2 * (N - F) : Int) : ℚ) = (D : ℚ) := by exact_mod_cast h
      rw [← key] at h2
      have : 2 * (x - f) * (D : ℚ) = 1 * (D : ℚ) := by rw [h2, one_mul]
      exact mul_right_cancel₀ (ne_of_gt hDq) this

/-- **`roundInt` meets the relational specification of every mode**: for integers `N`, `D > 0` the
    integer `roundInt m (N / D)` is the neighbour of `N / D` that `ModeSpec m N D` names -/
theorem roundInt_modeSpec (m : Mode) (N D : Int) (hD : 0 < D) :
    ModeSpec m N D (roundInt m ((N : ℚ) / (D : ℚ))) := by
  have hDq : (0 : ℚ) < (D : ℚ) := by exact_mod_cast hD
  generalize hx : (N : ℚ) / (D : ℚ) = x
  have hxD : x * (D : ℚ) = (N : ℚ) := by rw [← hx]; field_simp
  -- floor facts, as integers
  have h1 : (⌊x⌋ : ℚ) * (D : ℚ) ≤ (N : ℚ) := by
    rw [← hxD]; exact mul_le_mul_of_nonneg_right (Int.floor_le x) (le_of_lt hDq)
  have h2 : (N : ℚ) < ((⌊x⌋ : ℚ) + 1) * (D : ℚ) := by
    rw [← hxD]; exact mul_lt_mul_of_pos_right (Int.lt_floor_add_one x) hDq
  have i1 : ⌊x⌋ * D ≤ N := by exact_mod_cast h1
  have i2 : N < (⌊x⌋ + 1) * D := by exact_mod_cast h2
  have hint : ((⌊x⌋ : ℚ) = x) ↔ ⌊x⌋ * D = N := by
    constructor
    · intro h
      have : (⌊x⌋ : ℚ) * (D : ℚ) = (N : ℚ) := by rw [h, hxD]
      exact_mod_cast this
    · intro h
      have : (⌊x⌋ : ℚ) * (D : ℚ) = x * (D : ℚ) := by rw [hxD]; exact_mod_cast h
      exact mul_right_cancel₀ (ne_of_gt hDq) this
  have hneg : x < 0 ↔ N < 0 := by
    constructor
    · intro h
      have : x * (D : ℚ) < 0 := mul_neg_of_neg_of_pos h hDq
      rw [hxD] at this; exact_mod_cast this
    · intro h
      by_contra hc; rw [not_lt] at hc
      have : 0 ≤ x * (D : ℚ) := mul_nonneg hc (le_of_lt hDq)
      rw [hxD] at this
      have : (0 : Int) ≤ N := by exact_mod_cast this
      omega
  obtain ⟨hlt, heq⟩ := scale_cmp x (⌊x⌋ : ℚ) D N (⌊x⌋ * D) hD hxD (by push_cast; ring)
  rw [roundInt_eq]
  generalize hf : ⌊x⌋ = f at *
  have e1 : (f + 1) * D = f * D + D := by ring
  generalize hF : f * D = F at *
  by_cases hi : (f : ℚ) = x
  · rw [if_pos hi]
    have hFN := hint.mp hi
    cases m <;> simp only [ModeSpec, IsTowardZero, IsAwayFromZero, IsNearestEven, IsNearestAway, IsFloor, IsCeil,
      hF, e1] <;> (try split) <;> (try (have e2 : (f - 1) * D = F - D := by rw [← hF]; ring)) <;>
      (try rw [e2]) <;> subst hFN <;> simp <;> omega
  · rw [if_neg hi]
    have hFN : F ≠ N := fun h => hi (hint.mpr h)
    have e2 : (f - 1) * D = F - D := by rw [← hF]; ring
    have e3 : (f + 1 - 1) * D = F := by rw [← hF]; ring
    cases m <;> simp only [ModeSpec, IsTowardZero, IsAwayFromZero, IsNearestEven, IsNearestAway, IsFloor, IsCeil]
    · -- zero
      by_cases hn : x < 0
      · have := hneg.mp hn
        have h0 : ¬ (0 ≤ N) := by omega
        rw [if_pos hn, if_neg h0, e3, e1]; omega
      · have : ¬ N < 0 := fun h => hn (hneg.mpr h)
        have h0 : 0 ≤ N := by omega
        rw [if_neg hn, if_pos h0, hF, e1]; omega
    · -- away
      by_cases hn : x < 0
      · have := hneg.mp hn
        have h0 : ¬ (0 ≤ N) := by omega
        rw [if_pos hn, if_neg h0, hF, e1]; omega
      · have : ¬ N < 0 := fun h => hn (hneg.mpr h)
        have h0 : 0 ≤ N := by omega
        rw [if_neg hn, if_pos h0, e3, e1]; omega
    · rw [e3, e1]; omega
    · rw [hF, e1]; omega
    · -- halfEven
      by_cases hl : 2 * (x - (f : ℚ)) < 1
      · have := hlt.mp hl
        rw [if_pos hl, hF]
        have habs : |2 * N - 2 * F| = 2 * N - 2 * F := abs_of_nonneg (by omega)
        rw [habs]; constructor <;> omega
      · rw [if_neg hl]
        have hl' : ¬ 2 * (N - F) < D := fun h => hl (hlt.mpr h)
        by_cases he : 2 * (x - (f : ℚ)) = 1
        · have := heq.mp he
          rw [if_pos he]
          by_cases hev : f % 2 = 0
          · rw [if_pos hev, hF]
            have habs : |2 * N - 2 * F| = 2 * N - 2 * F := abs_of_nonneg (by omega)
            rw [habs]; constructor <;> omega
          · rw [if_neg hev, e1]
            have habs : |2 * N - 2 * (F + D)| = -(2 * N - 2 * (F + D)) := abs_of_nonpos (by omega)
            rw [habs]; constructor <;> omega
        · have hne : 2 * (N - F) ≠ D := fun h => he (heq.mpr h)
          rw [if_neg he, e1]
          have habs : |2 * N - 2 * (F + D)| = -(2 * N - 2 * (F + D)) := abs_of_nonpos (by omega)
          rw [habs]; constructor <;> omega
    · -- halfAway
      by_cases hl : 2 * (x - (f : ℚ)) < 1
      · have := hlt.mp hl
        rw [if_pos hl, hF]
        have habs : |2 * N - 2 * F| = 2 * N - 2 * F := abs_of_nonneg (by omega)
        rw [habs]; constructor <;> omega
      · rw [if_neg hl]
        have hl' : ¬ 2 * (N - F) < D := fun h => hl (hlt.mpr h)
        by_cases he : 2 * (x - (f : ℚ)) = 1
        · have h2 := heq.mp he
          rw [if_pos he]
          by_cases hn : x < 0
          · have hN := hneg.mp hn
            rw [if_pos hn, hF]
            have habs : |2 * N - 2 * F| = 2 * N - 2 * F := abs_of_nonneg (by omega)
            rw [habs]
            refine ⟨by omega, fun _ => ?_⟩
            rw [abs_of_neg hN, abs_of_neg (by omega : F < 0)]; omega
          · have hN : ¬ N < 0 := fun h => hn (hneg.mpr h)
            rw [if_neg hn, e1]
            have habs : |2 * N - 2 * (F + D)| = -(2 * N - 2 * (F + D)) := abs_of_nonpos (by omega)
            rw [habs]
            refine ⟨by omega, fun _ => ?_⟩
            rw [abs_of_nonneg (by omega : 0 ≤ N), abs_of_nonneg (by omega : 0 ≤ F + D)]; omega
        · have hne : 2 * (N - F) ≠ D := fun h => he (heq.mpr h)
          rw [if_neg he, e1]
          have habs : |2 * N - 2 * (F + D)| = -(2 * N - 2 * (F + D)) := abs_of_nonpos (by omega)
          rw [habs]; constructor <;> omega

theorem isCeil_unique (N d r r' : Int) (hd : 0 < d) (h : IsCeil N d r) (h' : IsCeil N d r') : r = r' := by
  unfold IsCeil at *
  have h1 : (r - 1) * d < r' * d := by linarith
  have h2 : (r' - 1) * d < r * d := by linarith
  have := lt_of_mul_lt_mul_right h1 (le_of_lt hd)
  have := lt_of_mul_lt_mul_right h2 (le_of_lt hd)
  omega

/-- two different nearest integers are adjacent and the quotient is exactly half-way between them -/
theorem nearest_step (N D r r' : Int) (hD : 0 < D) (h : r < r') (h1 : |2 * N - 2 * (r * D)| ≤ D)
    (h2 : |2 * N - 2 * (r' * D)| ≤ D) :
    r' = r + 1 ∧ 2 * N - 2 * (r * D) = D ∧ 2 * N - 2 * (r' * D) = -D := by
  have hk : 0 ≤ (r' - r - 1) * D := mul_nonneg (by omega) (le_of_lt hD)
  have e : (r' - r - 1) * D = r' * D - r * D - D := by ring
  rw [e] at hk
  obtain ⟨a1, a2⟩ := abs_le.mp h1
  obtain ⟨b1, b2⟩ := abs_le.mp h2
  have hz : r' * D - r * D - D = 0 := by omega
  rw [← e] at hz
  have : r' - r - 1 = 0 := by
    rcases mul_eq_zero.mp hz with h0 | h0
    · exact h0
    · omega
  refine ⟨by omega, by omega, by omega⟩

theorem nearest_tie_absurd_even (N D r r' : Int) (hD : 0 < D) (h : r < r')
    (h1 : IsNearestEven N D r) (h2 : IsNearestEven N D r') : False := by
  obtain ⟨e1, e2, e3⟩ := nearest_step N D r r' hD h h1.1 h2.1
  have a := h1.2 (by rw [e2]; exact abs_of_pos hD)
  have b := h2.2 (by rw [e3, abs_neg]; exact abs_of_pos hD)
  omega

theorem nearest_tie_absurd_away (N D r r' : Int) (hD : 0 < D) (h : r < r')
    (h1 : IsNearestAway N D r) (h2 : IsNearestAway N D r') : False := by
  obtain ⟨e1, e2, e3⟩ := nearest_step N D r r' hD h h1.1 h2.1
  have a := h1.2 (by rw [e2]; exact abs_of_pos hD)
  have b := h2.2 (by rw [e3, abs_neg]; exact abs_of_pos hD)
  have hmult : r * D ≤ -D ∨ 0 ≤ r * D := by
    rcases le_or_gt r (-1) with hr | hr
    · left; nlinarith
    · right; exact mul_nonneg (by omega) (le_of_lt hD)
  generalize r * D = F at *
  generalize r' * D = F' at *
  rcases abs_cases N with ⟨hN, hN'⟩ | ⟨hN, hN'⟩ <;> rcases abs_cases F with ⟨hF, hF0⟩ | ⟨hF, hF0⟩ <;>
    rcases abs_cases F' with ⟨hF', hF1⟩ | ⟨hF', hF1⟩ <;> omega

/-- **`ModeSpec` determines its result** (the relational specification is a function of `N`, `D`) -/
theorem modeSpec_unique (m : Mode) (N D R R' : Int) (hD : 0 < D) (h : ModeSpec m N D R) (h' : ModeSpec m N D R') :
    R = R' := by
  cases m <;> simp only [ModeSpec, IsTowardZero, IsAwayFromZero] at h h'
  · split at h
    · rename_i hN; rw [if_pos hN] at h'; exact isFloor_unique N D R R' hD h h'
    · rename_i hN; rw [if_neg hN] at h'; exact isCeil_unique N D R R' hD h h'
  · split at h
    · rename_i hN; rw [if_pos hN] at h'; exact isCeil_unique N D R R' hD h h'
    · rename_i hN; rw [if_neg hN] at h'; exact isFloor_unique N D R R' hD h h'
  · exact isCeil_unique N D R R' hD h h'
  · exact isFloor_unique N D R R' hD h h'
  · rcases lt_trichotomy R R' with hlt | heq | hgt
    · exact absurd (nearest_tie_absurd_even N D R R' hD hlt h h') id
    · exact heq
    · exact absurd (nearest_tie_absurd_even N D R' R hD hgt h' h) id
  · rcases lt_trichotomy R R' with hlt | heq | hgt
    · exact absurd (nearest_tie_absurd_away N D R R' hD hlt h h') id
    · exact heq
    · exact absurd (nearest_tie_absurd_away N D R' R hD hgt h' h) id

/-- **the integer the executable specification rounds to IS the integer `fmt_round` prints**:
    `roundInt m (x · B^p) = precRounded B m p r` for the value `x` of `r` — every base, mode, precision -/
theorem roundInt_eq_precRounded (B : Nat) (hB : 2 ≤ B) (m : Mode) (p : Nat) (r : FRepr) :
    roundInt m (ratOfRepr B r * ((B ^ p : Nat) : ℚ)) = precRounded B m p r := by
  have hD : (0 : Int) < ((B ^ (-((p : Int) + r.exp)).toNat : Nat) : Int) := by
    have : 0 < B ^ (-((p : Int) + r.exp)).toNat := Nat.pow_pos (by omega)
    exact_mod_cast this
  have h1 := precRounded_spec B hB m p r
  have h2 := roundInt_modeSpec m (r.signif * ((B ^ ((p : Int) + r.exp).toNat : Nat) : Int))
    ((B ^ (-((p : Int) + r.exp)).toNat : Nat) : Int) hD
  rw [prec_scaled_value B hB p r] at h2
  exact modeSpec_unique m _ _ _ _ hD h2 h1

/-- **`displaySpec` ↔ `ModeSpec`**: with a precision `k` the executable specification of `Display`
    (compared with the model's text on every Display case of the correspondence run) prints the sign
    of the number and the fixed-point text of `|R|` with `k` fractional digits, `R = precRounded` —
    the integer that `ModeSpec m` names for `x · B^k` (`print_precision_rounding`) and whose digits
    the model prints (`print_precision_text`) -/
theorem displaySpec_some (B : Nat) (hB : 2 ≤ B) (m : Mode) (plus : Bool) (k : Nat) (r : FRepr) :
    displaySpec B m plus (some k) r =
      (if r.signif < 0 then [45] else if plus then [43] else []) ++
        fixedPointText B (precRounded B m k r).natAbs k := by
  unfold displaySpec
  simp only
  rw [roundInt_eq_precRounded B hB m k r]

end Dashu.Model.Text
