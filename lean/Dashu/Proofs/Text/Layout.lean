import Dashu.Model.Text.Fmt
/-
  `InRadixWriter::format_prepared` = the `pad_integral` specification, for every combination of
  flags, width, fill and alignment.  Core Lean only (case analysis).
-/
namespace Dashu.Model.Text

theorem formatPrepared_eq_padIntegral (f : FmtSpec) (neg : Bool) (pfx buf : List Nat) :
    formatPrepared f neg (if f.alt then pfx else []) buf = padIntegral f (!neg) pfx buf := by
  unfold formatPrepared padIntegral
  simp only [Bool.not_not]
  generalize (if neg = true then [45] else if f.plus = true then [43] else ([] : List Nat)) = S
  generalize (if f.alt = true then pfx else []) = P
  have hlen : buf.length + (S.length + P.length) = S.length + P.length + buf.length := by omega
  rw [hlen]
  generalize S.length + P.length + buf.length = L
  cases f.width with
  | none => rfl
  | some w =>
    simp only []
    by_cases h1 : w ≤ L
    · have : L ≥ w := h1
      simp only [h1, this, if_true]
    · have h1' : ¬ (L ≥ w) := h1
      simp only [h1, h1', if_false]
      cases f.zero with
      | true => simp only [if_true]
      | false =>
        simp only [Bool.false_eq_true, if_false]
        cases f.align with
        | none => simp [rep, List.append_assoc]
        | some a =>
          cases a with
          | left => simp [rep, List.append_assoc]
          | right => simp [rep, List.append_assoc]
          | center =>
            simp only [Option.getD_some, List.append_assoc]
            have : w - L - (w - L) / 2 = (w - L + 1) / 2 := by omega
            rw [this]

end Dashu.Model.Text
