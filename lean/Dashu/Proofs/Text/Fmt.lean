import Dashu.Model.Text.Fmt
import Dashu.Proofs.Text.Digits
/-
  The non-power-of-two printer (`fmt/non_power_two.rs`) produces exactly `digits r n`, for every
  size class, every word size and every radix ≥ 2 — given only that `range_per_word = r^dpw`,
  `1 ≤ dpw`, `range_per_word ≤ 2^W` (proved for `maxExpInWord` below).
-/
namespace Dashu.Model.Text

-- ---------------------------------------------------------------- radix table

theorem bitLen_spec {n : Nat} (hn : n ≠ 0) : 2 ^ (bitLen n - 1) ≤ n ∧ n < 2 ^ bitLen n := by
  simp only [bitLen, hn, if_false, Nat.add_sub_cancel]
  exact ⟨Nat.log2_self_le hn, Nat.lt_log2_self⟩

theorem bitLen_le_iff {n k : Nat} : bitLen n ≤ k ↔ n < 2 ^ k := by
  by_cases hn : n = 0
  · subst hn; simp [bitLen]
  · simp only [bitLen, hn, if_false]
    rw [← Nat.log2_lt hn]; omega

theorem maxExpLoop_spec (W base : Nat) (hb : 2 ≤ base) :
    ∀ (fuel exp pow : Nat), pow = base ^ exp → pow < 2 ^ W → W ≤ exp + fuel →
      let r := maxExpLoop W base fuel exp pow
      r.2 = base ^ r.1 ∧ r.2 < 2 ^ W ∧ exp ≤ r.1 ∧ 2 ^ W ≤ r.2 * base := by
  intro fuel
  induction fuel with
  | zero =>
    intro exp pow hp hlt hf
    exfalso
    have h1 : 2 ^ exp ≤ base ^ exp := Nat.pow_le_pow_left hb exp
    have h2 : 2 ^ W ≤ 2 ^ exp := Nat.pow_le_pow_right (by omega) (by omega)
    omega
  | succ fuel ih =>
    intro exp pow hp hlt hf
    simp only [maxExpLoop]
    by_cases h : pow * base < 2 ^ W
    · simp only [h, if_true]
      have := ih (exp + 1) (pow * base) (by rw [hp, pow_succ]) h (by omega)
      exact ⟨this.1, this.2.1, by omega, this.2.2.2⟩
    · simp only [h, if_false]
      exact ⟨hp, hlt, Nat.le_refl _, by omega⟩

/-- `max_exp_in_word`: `range_per_word = r^digits_per_word < 2^W`, `digits_per_word ≥ 1`, for every
    word size and every base `2 ≤ base < 2^W`; and `digits_per_word` is maximal when `W` is even -/
theorem maxExpInWord_spec (W base : Nat) (hb : 2 ≤ base) (hbW : base < 2 ^ W) :
    let r := maxExpInWord W base
    r.2 = base ^ r.1 ∧ r.2 < 2 ^ W ∧ 1 ≤ r.1 ∧ (2 ∣ W → 2 ^ W ≤ r.2 * base) := by
  simp only [maxExpInWord]
  by_cases h : base > 2 ^ (W / 2) - 1
  · simp only [h, if_true]
    refine ⟨by simp, hbW, Nat.le_refl _, ?_⟩
    intro ⟨k, hk⟩
    have h1 : 2 ^ (W / 2) ≤ base := by omega
    have : W / 2 = k := by omega
    rw [this] at h1
    calc 2 ^ W = 2 ^ k * 2 ^ k := by rw [hk, ← pow_add]; congr 1; omega
      _ ≤ base * base := Nat.mul_le_mul h1 h1
  · simp only [h, if_false]
    have hle : base ≤ 2 ^ (W / 2) - 1 := by omega
    have hpos : 0 < 2 ^ (W / 2) := Nat.pow_pos (by omega)
    have hb0 : base ≠ 0 := by omega
    have hbl : bitLen base ≤ W / 2 := bitLen_le_iff.mpr (by omega)
    have hbl1 : 1 ≤ bitLen base := by simp [bitLen, hb0]
    have hexp : 1 ≤ W / bitLen base := by
      apply (Nat.le_div_iff_mul_le (by omega)).mpr
      have : W / 2 ≤ W := Nat.div_le_self _ _
      omega
    have hpow : base ^ (W / bitLen base) < 2 ^ W := by
      have h1 : base < 2 ^ bitLen base := (bitLen_spec hb0).2
      have h2 : base ^ (W / bitLen base) < (2 ^ bitLen base) ^ (W / bitLen base) :=
        Nat.pow_lt_pow_left h1 (by omega)
      have h3 : (2 ^ bitLen base) ^ (W / bitLen base) ≤ 2 ^ W := by
        rw [← pow_mul]; apply Nat.pow_le_pow_right (by omega)
        exact Nat.mul_div_le W (bitLen base)
      omega
    have := maxExpLoop_spec W base hb W (W / bitLen base) (base ^ (W / bitLen base)) rfl hpow (by omega)
    exact ⟨this.1, this.2.1, by omega, fun _ => this.2.2.2⟩

/-- what the printers and parsers need to know about a radix table entry -/
structure RadixOK (W r : Nat) (ri : RadixInfo) : Prop where
  hr : 2 ≤ r
  pow : ri.rpw = r ^ ri.dpw
  dpos : 1 ≤ ri.dpw
  lt : ri.rpw < 2 ^ W

theorem radixInfo_ok (W r : Nat) (hr : 2 ≤ r) (hrW : r < 2 ^ W) : RadixOK W r (radixInfo W r) := by
  have := maxExpInWord_spec W r hr hrW
  exact ⟨hr, this.1, this.2.2.1, this.2.1⟩

theorem RadixOK.rpw_ge {W r : Nat} {ri : RadixInfo} (h : RadixOK W r ri) : 2 ≤ ri.rpw := by
  rw [h.pow]
  calc 2 ≤ r := h.hr
    _ = r ^ 1 := (pow_one r).symm
    _ ≤ r ^ ri.dpw := Nat.pow_le_pow_right (by have := h.hr; omega) h.dpos

-- ---------------------------------------------------------------- PreparedWord

theorem pwLoop_zero (r w : Nat) (acc : List Nat) : pwLoop r w 0 acc = digitsAux r w acc := by
  induction w using Nat.strong_induction_on generalizing acc with
  | _ w ih =>
    by_cases h : r < 2 ∨ w = 0
    · have h' : r < 2 ∨ (0 = 0 ∧ w = 0) := by omega
      rw [pwLoop, digitsAux, dif_pos h', dif_pos h]
    · have h' : ¬(r < 2 ∨ (0 = 0 ∧ w = 0)) := by omega
      rw [pwLoop, digitsAux, dif_neg h', dif_neg h]
      have hw : w ≠ 0 := by omega
      have hr2 : 1 < r := by omega
      exact ih (w / r) (Nat.div_lt_self (Nat.pos_of_ne_zero hw) hr2) _

/-- `PreparedWord::new(word, radix, min_digits)`: the digits of `word / r^m` followed by exactly
    `m` padded digits of `word` -/
theorem pwLoop_spec {r : Nat} (hr : 2 ≤ r) (m w : Nat) (acc : List Nat) :
    pwLoop r w m acc = digitsAux r (w / r ^ m) [] ++ digitsPad r m w ++ acc := by
  induction m generalizing w acc with
  | zero => rw [pwLoop_zero, digitsAux_acc]; simp [digitsPad_zero]
  | succ m ih =>
    rw [pwLoop]
    have h' : ¬(r < 2 ∨ (m + 1 = 0 ∧ w = 0)) := by omega
    simp only [h', dite_false, Nat.add_sub_cancel]
    rw [ih, digitsPad_succ, Nat.div_div_eq_div_mul, pow_succ, Nat.mul_comm r]
    simp

theorem preparedWord_one {r : Nat} (hr : 2 ≤ r) (w : Nat) : preparedWord r w 1 = digits r w := by
  unfold preparedWord
  rw [pwLoop_spec hr, pow_one, digitsPad_succ, digitsPad_zero]
  by_cases hw : w = 0
  · subst hw; simp [digitsAux_zero, digits]
  · rw [digits_of_ne_zero hw, digitsAux_succ hr hw]; simp

theorem preparedWord_pad {r : Nat} (hr : 2 ≤ r) (m w : Nat) (hw : w < r ^ m) :
    preparedWord r w m = digitsPad r m w := by
  unfold preparedWord
  rw [pwLoop_spec hr, Nat.div_eq_of_lt hw, digitsAux_zero]; simp

-- ---------------------------------------------------------------- PreparedDword

theorem takeDigits_spec (r : Nat) (c p : Nat) (acc : List Nat) :
    takeDigits r c p acc = (p / r ^ c, digitsPad r c p ++ acc) := by
  induction c generalizing p acc with
  | zero => simp [takeDigits, digitsPad_zero]
  | succ c ih =>
    rw [takeDigits, ih, digitsPad_succ, Nat.div_div_eq_div_mul, pow_succ, Nat.mul_comm r]
    simp

theorem midDigits_zero {r : Nat} (hr : 2 ≤ r) (c p1 : Nat) (acc : List Nat) (h : p1 < r ^ c) :
    midDigits r c p1 0 acc = digitsAux r p1 [] ++ acc := by
  induction c generalizing p1 acc with
  | zero =>
    have : p1 = 0 := by simpa using h
    subst this; simp [midDigits, digitsAux_zero]
  | succ c ih =>
    rw [midDigits]
    by_cases hp : p1 = 0
    · subst hp; simp [digitsAux_zero]
    · simp only [hp, false_and, if_false]
      have : p1 / r < r ^ c := by
        rw [Nat.div_lt_iff_lt_mul (by omega)]; rw [pow_succ] at h; exact h
      rw [ih _ _ this, digitsAux_succ hr hp]; simp

theorem midDigits_ne {r : Nat} (c p1 p2 : Nat) (acc : List Nat) (h2 : p2 ≠ 0) :
    midDigits r c p1 p2 acc = digitsPad r c p1 ++ acc := by
  induction c generalizing p1 acc with
  | zero => simp [midDigits, digitsPad_zero]
  | succ c ih =>
    rw [midDigits]
    simp only [h2, and_false, if_false]
    rw [ih, digitsPad_succ]; simp

/-- `PreparedDword` prints `digits r n` for every `n ≥ range_per_word` -/
theorem preparedDword_eq {W r : Nat} (ok : RadixOK W r (radixInfo W r)) (n : Nat)
    (hn : (radixInfo W r).rpw ≤ n) : preparedDword W r n = digits r n := by
  have hr := ok.hr
  generalize hri : radixInfo W r = ri at ok hn
  unfold preparedDword
  simp only [hri]
  have hpow := ok.pow
  have hp : 0 < ri.rpw := by have := ok.rpw_ge; omega
  have hn0 : n ≠ 0 := by omega
  have hq : n / ri.rpw ≠ 0 := by
    have := (Nat.le_div_iff_mul_le hp).mpr (by simpa using hn : 1 * ri.rpw ≤ n); omega
  rw [takeDigits_spec]
  simp only []
  rw [digits_of_ne_zero hn0]
  have e1 : digitsAux r n [] = digitsAux r (n / ri.rpw) [] ++ digitsPad r ri.dpw (n % ri.rpw) := by
    rw [hpow]; exact digitsAux_div_mod hr _ _ (by rw [← hpow]; exact hq)
  by_cases h2 : n / ri.rpw / ri.rpw = 0
  · -- p2 = 0: the middle loop prints p1 without padding
    rw [h2, pwLoop_zero, digitsAux_zero]
    have hlt : n / ri.rpw % ri.rpw < r ^ ri.dpw := by rw [← hpow]; exact Nat.mod_lt _ hp
    rw [midDigits_zero hr _ _ _ hlt, e1]
    have : n / ri.rpw % ri.rpw = n / ri.rpw := by
      apply Nat.mod_eq_of_lt
      rcases Nat.lt_or_ge (n / ri.rpw) ri.rpw with h | h
      · exact h
      · have := Nat.div_pos h hp; omega
    rw [this]; simp
  · rw [midDigits_ne _ _ _ _ h2, pwLoop_zero, digitsAux_acc, e1]
    have e2 : digitsAux r (n / ri.rpw) [] =
        digitsAux r (n / ri.rpw / ri.rpw) [] ++ digitsPad r ri.dpw (n / ri.rpw % ri.rpw) := by
      rw [hpow]; exact digitsAux_div_mod hr _ _ (by rw [← hpow]; exact h2)
    rw [e2]; simp

-- ---------------------------------------------------------------- PreparedMedium

theorem flatMap_congr' {α β : Type} {f g : α → List β} (l : List α) (h : ∀ x ∈ l, f x = g x) :
    l.flatMap f = l.flatMap g := by
  induction l with
  | nil => rfl
  | cons a l ih =>
    rw [List.flatMap_cons, List.flatMap_cons, h a (by simp), ih (fun x hx => h x (by simp [hx]))]

/-- what a (top, groups) state prints -/
def groupsOut (r dpw : Nat) (top : Nat) (groups : List Nat) : List Nat :=
  digits r top ++ groups.flatMap (fun g => digitsPad r dpw g)

theorem mediumLoop_spec {W r : Nat} {ri : RadixInfo} (ok : RadixOK W r ri) (v : Nat) (gs : List Nat)
    (hv : v ≠ 0) (hgs : ∀ g ∈ gs, g < ri.rpw) :
    groupsOut r ri.dpw (mediumLoop W ri.rpw v gs).1 (mediumLoop W ri.rpw v gs).2 = groupsOut r ri.dpw v gs ∧
    (∀ g ∈ (mediumLoop W ri.rpw v gs).2, g < ri.rpw) := by
  induction v using Nat.strong_induction_on generalizing gs with
  | _ v ih =>
    have h2 := ok.rpw_ge
    by_cases h : ri.rpw < 2 ∨ v < 2 ^ W
    · rw [mediumLoop, dif_pos h]; exact ⟨rfl, hgs⟩
    · rw [mediumLoop, dif_neg h]
      have hlt := ok.lt
      have hp : 0 < ri.rpw := by omega
      have hq : v / ri.rpw ≠ 0 := by
        have : ri.rpw ≤ v := by omega
        have := Nat.div_pos this hp; omega
      have hdl : v / ri.rpw < v := Nat.div_lt_self (Nat.pos_of_ne_zero hv) (by omega)
      have hgs' : ∀ g ∈ v % ri.rpw :: gs, g < ri.rpw := by
        intro g hg
        rcases List.mem_cons.mp hg with h | h
        · subst h; exact Nat.mod_lt _ hp
        · exact hgs g h
      obtain ⟨e, hl⟩ := ih _ hdl (v % ri.rpw :: gs) hq hgs'
      refine ⟨?_, hl⟩
      rw [e]
      unfold groupsOut
      rw [digits_of_ne_zero hq, digits_of_ne_zero hv, List.flatMap_cons, ← List.append_assoc]
      congr 1
      have := digitsAux_div_mod ok.hr ri.dpw v (by rw [← ok.pow]; exact hq)
      rw [← ok.pow] at this; exact this.symm

/-- `PreparedMedium` prints `digits r n` (for every `n ≠ 0`, whatever its length) -/
theorem preparedMedium_eq {W r : Nat} (ok : RadixOK W r (radixInfo W r)) (n : Nat) (hn : n ≠ 0) :
    preparedMedium W r n = digits r n := by
  unfold preparedMedium
  generalize hri : radixInfo W r = ri at ok
  simp only []
  obtain ⟨e, hl⟩ := mediumLoop_spec ok n [] hn (by simp)
  rw [preparedWord_one ok.hr]
  have : (mediumLoop W ri.rpw n []).2.flatMap (fun g => preparedWord r g ri.dpw) =
      (mediumLoop W ri.rpw n []).2.flatMap (fun g => digitsPad r ri.dpw g) := by
    apply flatMap_congr'
    intro g hg
    exact preparedWord_pad ok.hr _ _ (by rw [← ok.pow]; exact hl g hg)
  rw [this]
  have := e
  unfold groupsOut at this
  simpa using this

-- ---------------------------------------------------------------- PreparedLarge

theorem chunkGroups_flatMap {W r : Nat} {ri : RadixInfo} (ok : RadixOK W r ri) (c x : Nat) (acc : List Nat) :
    (chunkGroups ri.rpw c x acc).flatMap (fun g => preparedWord r g ri.dpw) =
      digitsPad r (c * ri.dpw) x ++ acc.flatMap (fun g => preparedWord r g ri.dpw) := by
  induction c generalizing x acc with
  | zero => simp [chunkGroups, digitsPad_zero]
  | succ c ih =>
    rw [chunkGroups, ih, List.flatMap_cons, ← List.append_assoc]
    congr 1
    have hp : 0 < ri.rpw := by have := ok.rpw_ge; omega
    rw [preparedWord_pad ok.hr _ _ (by rw [← ok.pow]; exact Nat.mod_lt _ hp)]
    rw [Nat.succ_mul, digitsPad_add' r (c * ri.dpw) ri.dpw x, ← ok.pow]

theorem writeChunk_eq {W r : Nat} (ok : RadixOK W r (radixInfo W r)) (x : Nat) :
    writeChunk W r x = digitsPad r (fmtChunkLen * (radixInfo W r).dpw) x := by
  unfold writeChunk
  simp only []
  rw [chunkGroups_flatMap ok]; simp

/-- `radix_powers`, biggest first: `ps[i] = r^(K·2^i)` -/
def IsTower (r K : Nat) : List Nat → Prop
  | [] => True
  | p :: ps => p = r ^ (K * 2 ^ ps.length) ∧ IsTower r K ps

theorem writeBig_eq {W r : Nat} (ok : RadixOK W r (radixInfo W r)) (ps : List Nat) (x : Nat)
    (ht : IsTower r (fmtChunkLen * (radixInfo W r).dpw) ps) :
    writeBig W r ps x = digitsPad r (fmtChunkLen * (radixInfo W r).dpw * 2 ^ ps.length) x := by
  induction ps generalizing x with
  | nil => simp [writeBig, writeChunk_eq ok]
  | cons p ps ih =>
    obtain ⟨hp, ht'⟩ := ht
    rw [writeBig, ih _ ht', ih _ ht', hp, List.length_cons, pow_succ]
    have : fmtChunkLen * (radixInfo W r).dpw * (2 ^ ps.length * 2) =
        fmtChunkLen * (radixInfo W r).dpw * 2 ^ ps.length + fmtChunkLen * (radixInfo W r).dpw * 2 ^ ps.length := by ring
    rw [this, digitsPad_add']

theorem buildPowers_spec (W n r K : Nat) (fuel : Nat) (ps : List Nat) (hne : ps ≠ [])
    (ht : IsTower r K ps) (hle : ∀ p ∈ ps, p ≤ n) :
    buildPowers W n fuel ps ≠ [] ∧ IsTower r K (buildPowers W n fuel ps) ∧ ∀ p ∈ buildPowers W n fuel ps, p ≤ n := by
  induction fuel generalizing ps with
  | zero => exact ⟨hne, ht, hle⟩
  | succ fuel ih =>
    cases ps with
    | nil => exact absurd rfl hne
    | cons prev rest =>
      simp only [buildPowers]
      split
      · exact ⟨hne, ht, hle⟩
      · split
        · exact ⟨hne, ht, hle⟩
        · rename_i _ hnew
          apply ih
          · simp
          · refine ⟨?_, ht⟩
            rw [ht.1, ← pow_add, List.length_cons, pow_succ]; congr 1; ring
          · intro p hp
            rcases List.mem_cons.mp hp with h | h
            · subst h; omega
            · exact hle p h

theorem splitRest_spec {W r : Nat} (ok : RadixOK W r (radixInfo W r)) (ps : List Nat) (x : Nat)
    (acc : List (List Nat × Nat)) (hx : x ≠ 0)
    (ht : IsTower r (fmtChunkLen * (radixInfo W r).dpw) ps) :
    (splitRest x ps acc).1 ≠ 0 ∧
    digits r (splitRest x ps acc).1 ++ (splitRest x ps acc).2.flatMap (fun c => writeBig W r c.1 c.2) =
      digits r x ++ acc.flatMap (fun c => writeBig W r c.1 c.2) := by
  induction ps generalizing x acc with
  | nil => exact ⟨hx, rfl⟩
  | cons p ps ih =>
    obtain ⟨hp, ht'⟩ := ht
    rw [splitRest]
    by_cases hge : x ≥ p
    · simp only [hge, if_true]
      have hppos : 0 < p := by rw [hp]; exact Nat.pow_pos (by have := ok.hr; omega)
      have hq : x / p ≠ 0 := by have := Nat.div_pos hge hppos; omega
      obtain ⟨h1, h2⟩ := ih (x / p) ((ps, x % p) :: acc) hq ht'
      refine ⟨h1, ?_⟩
      rw [h2, List.flatMap_cons, ← List.append_assoc]
      congr 1
      simp only []
      rw [writeBig_eq ok ps _ ht', digits_of_ne_zero hq, digits_of_ne_zero hx, hp]
      rw [hp] at hq
      rw [digitsPad_mod]
      have := digitsAux_div_mod ok.hr _ x hq
      rw [digitsPad_mod] at this
      exact this.symm
    · simp only [hge, if_false]
      exact ih x acc hx ht'

/-- `PreparedLarge` prints `digits r n` -/
theorem preparedLarge_eq {W r : Nat} (ok : RadixOK W r (radixInfo W r)) (n : Nat) (hn : n ≠ 0) :
    preparedLarge W r n = digits r n := by
  unfold preparedLarge
  simp only []
  by_cases h : (radixInfo W r).rpw ^ fmtChunkLen > n
  · simp only [h, if_true]; exact preparedMedium_eq ok n hn
  · simp only [h, if_false]
    have hinit : IsTower r (fmtChunkLen * (radixInfo W r).dpw) [(radixInfo W r).rpw ^ fmtChunkLen] := by
      refine ⟨?_, trivial⟩
      rw [ok.pow, ← pow_mul]; simp [Nat.mul_comm]
    obtain ⟨hne, ht, hle⟩ := buildPowers_spec W n r _ (bitLen n) _ (by simp) hinit
      (by intro p hp; simp at hp; subst hp; omega)
    cases hb : buildPowers W n (bitLen n) [(radixInfo W r).rpw ^ fmtChunkLen] with
    | nil => exact absurd hb hne
    | cons p rest =>
      rw [hb] at ht hle
      simp only []
      obtain ⟨hp, ht'⟩ := ht
      have hple : p ≤ n := hle p (by simp)
      have hppos : 0 < p := by rw [hp]; exact Nat.pow_pos (by have := ok.hr; omega)
      have hq : n / p ≠ 0 := by have := Nat.div_pos hple hppos; omega
      obtain ⟨h1, h2⟩ := splitRest_spec ok rest (n / p) [(rest, n % p)] hq ht'
      rw [preparedMedium_eq ok _ h1, h2]
      simp only [List.flatMap_cons, List.flatMap_nil, List.append_nil]
      rw [writeBig_eq ok rest _ ht', digits_of_ne_zero hq, digits_of_ne_zero hn, hp]
      rw [hp] at hq
      rw [digitsPad_mod]
      have := digitsAux_div_mod ok.hr _ n hq
      rw [digitsPad_mod] at this
      exact this.symm

/-- **the non-power-of-two printer prints the positional representation**, every size class -/
theorem fmtNonPow2_eq (W r n : Nat) (hr : 2 ≤ r) (hrW : r < 2 ^ W) : fmtNonPow2 W r n = digits r n := by
  have ok := radixInfo_ok W r hr hrW
  unfold fmtNonPow2
  by_cases h1 : n < 2 ^ W
  · simp only [h1, if_true]; exact preparedWord_one hr n
  · simp only [h1, if_false]
    have hn : n ≠ 0 := by have := Nat.pow_pos (n := W) (by omega : 0 < 2); omega
    split
    · exact preparedDword_eq ok n (by have := ok.lt; omega)
    · split
      · exact preparedMedium_eq ok n hn
      · exact preparedLarge_eq ok n hn

end Dashu.Model.Text
