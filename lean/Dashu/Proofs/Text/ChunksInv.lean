import Dashu.Proofs.Text.ChunksWord
import Dashu.Model.Text.ChunksGuard
/-
  C07 — uniqueness of the base-`2^k` digits: `to_chunks ∘ from_chunks` is the identity on canonical
  chunk lists (every chunk `< 2^k`, top chunk non-zero), for every chunk size.
-/
namespace Dashu.Model.Text
open Dashu.Model

theorem chunksSpec_zero (k : Nat) : chunksSpec 0 k = [] := by
  simp [chunksSpec, digitsAux_zero]

theorem chunksSpec_ofChunksSpec (k : Nat) (hk : 1 ≤ k) (cs : List Nat) (hlt : ∀ c ∈ cs, c < 2 ^ k)
    (hlast : cs.getLast? ≠ some 0) : chunksSpec (ofChunksSpec k cs) k = cs := by
  have h2 := two_le_two_pow hk
  induction cs with
  | nil => exact chunksSpec_zero k
  | cons c cs ih =>
    have hc : c < 2 ^ k := hlt c (by simp)
    have hdiv : (c + 2 ^ k * ofChunksSpec k cs) / 2 ^ k = ofChunksSpec k cs := by
      rw [Nat.add_mul_div_left _ _ (by omega), Nat.div_eq_of_lt hc, Nat.zero_add]
    have hmod : (c + 2 ^ k * ofChunksSpec k cs) % 2 ^ k = c := by
      rw [Nat.add_mul_mod_self_left, Nat.mod_eq_of_lt hc]
    cases cs with
    | nil =>
      have hc0 : c ≠ 0 := by
        intro h0; apply hlast; simp [h0]
      simp only [ofChunksSpec, Nat.mul_zero, Nat.add_zero, chunksSpec]
      rw [digitsAux_succ h2 hc0, Nat.div_eq_of_lt hc, digitsAux_zero, Nat.mod_eq_of_lt hc]
      rfl
    | cons d t =>
      have ih' := ih (fun x hx => hlt x (by simp [hx])) (by
        intro h; apply hlast; simpa using h)
      have hm : ofChunksSpec k (d :: t) ≠ 0 := by
        intro h0
        rw [h0, chunksSpec_zero] at ih'
        cases ih'
      have hn : c + 2 ^ k * ofChunksSpec k (d :: t) ≠ 0 := by
        intro h0
        have : 2 ^ k * ofChunksSpec k (d :: t) = 0 := by omega
        rcases Nat.mul_eq_zero.mp this with h | h
        · omega
        · exact hm h
      show chunksSpec (c + 2 ^ k * ofChunksSpec k (d :: t)) k = c :: d :: t
      unfold chunksSpec
      rw [digitsAux_succ h2 hn, hdiv, hmod, List.reverse_append]
      simp only [List.reverse_cons, List.reverse_nil, List.nil_append, List.singleton_append]
      congr 1

theorem chunksSpecG_eq (n k : Nat) (hk : 1 ≤ k) : chunksSpecG n k = chunksSpec n k := by
  unfold chunksSpecG
  by_cases h : bitLen n ≤ k
  · rw [if_pos h]
    by_cases hn : n = 0
    · subst hn; simp [chunksSpec_zero]
    · rw [if_neg hn]
      have hlt : n < 2 ^ k := bitLen_le_iff.mp h
      have h2 := two_le_two_pow hk
      unfold chunksSpec
      rw [digitsAux_succ h2 hn, Nat.div_eq_of_lt hlt, digitsAux_zero, Nat.mod_eq_of_lt hlt]
      rfl
  · rw [if_neg h]

theorem ofChunksSpecG_eq (k : Nat) (cs : List Nat) : ofChunksSpecG k cs = ofChunksSpec k cs := by
  induction cs with
  | nil => rfl
  | cons c cs ih =>
    simp only [ofChunksSpecG, ofChunksSpec, ih]
    by_cases h : ofChunksSpec k cs = 0
    · simp [h]
    · simp [h]

/-- uniqueness of the little-endian byte string: encoding the value of a canonical byte string
    (every byte `< 256`, top byte non-zero) gives the byte string back -/
theorem leBytesSpec_ofLeBytesSpec (bs : List Nat) (hlt : ∀ b ∈ bs, b < 256) (hlast : bs.getLast? ≠ some 0) :
    leBytesSpec (ofLeBytesSpec bs) = bs := by
  have h := chunksSpec_ofChunksSpec 8 (by omega) bs (by simpa using hlt) hlast
  rw [ofChunksSpec_eq] at h
  exact h

end Dashu.Model.Text
