import Dashu.Proofs.Text.FloatParse
/-
  C08 round 7 — `parseIsize` (the model of `str::parse::<isize>()` used for the scale of a float literal)
  characterised completely: it accepts exactly `[+|-] d+` (ASCII decimal digits) whose value is inside the
  two's-complement range of `bits` bits, answers that value, and otherwise answers `NoDigits` for the empty
  string and `InvalidDigit` for everything else.
-/
namespace Dashu.Model.Text

/-- the documented grammar of `isize::from_str`: optional sign, at least one decimal digit, value in range -/
def IsizeText (bits : Nat) (s : List Nat) (z : Int) : Prop :=
  ∃ (sg ds : List Nat), (sg = [] ∨ sg = [43] ∨ sg = [45]) ∧ ds ≠ [] ∧ (∀ d ∈ ds, d < 10) ∧
    s = sg ++ ds.map (· + 48) ∧
    z = (if sg = [45] then -((ofDigits 10 ds : Nat) : Int) else ((ofDigits 10 ds : Nat) : Int)) ∧
    -(2 ^ (bits - 1) : Int) ≤ z ∧ z < (2 ^ (bits - 1) : Int)

theorem stripSignF_split (s : List Nat) :
    ∃ sg : List Nat, (sg = [] ∨ sg = [43] ∨ sg = [45]) ∧ s = sg ++ (stripSignF s).2 ∧
      ((stripSignF s).1 = true ↔ sg = [45]) := by
  unfold stripSignF
  split
  · exact ⟨[45], by simp, by simp, by simp⟩
  · exact ⟨[43], by simp, by simp, by simp⟩
  · exact ⟨[], by simp, by simp, by simp⟩

theorem all_digit_unmap (r : List Nat) (h : r.all (fun c => 48 ≤ c && c ≤ 57) = true) :
    (r.map (· - 48)).map (· + 48) = r ∧ ∀ d ∈ r.map (· - 48), d < 10 := by
  rw [List.all_eq_true] at h
  constructor
  · rw [List.map_map]
    conv_rhs => rw [← List.map_id r]
    apply List.map_congr_left
    intro c hc
    have := h c hc
    simp at this
    simp; omega
  · intro d hd
    obtain ⟨c, hc, rfl⟩ := List.mem_map.mp hd
    have := h c hc
    simp at this
    omega

theorem stripSignF_signed (sg ds : List Nat) (hsg : sg = [] ∨ sg = [43] ∨ sg = [45]) (hne : ds ≠ [])
    (hd : ∀ d ∈ ds, d < 10) :
    stripSignF (sg ++ ds.map (· + 48)) = (decide (sg = [45]), ds.map (· + 48)) := by
  rcases hsg with rfl | rfl | rfl
  · cases ds with
    | nil => exact absurd rfl hne
    | cons d t =>
      have := hd d (by simp)
      simp only [List.nil_append, List.map_cons]
      rw [stripSignF_other (d + 48) _ (by omega) (by omega)]
      simp
  · rfl
  · rfl

theorem digits_all (ds : List Nat) (hd : ∀ d ∈ ds, d < 10) :
    (ds.map (· + 48)).all (fun c => 48 ≤ c && c ≤ 57) = true := by
  rw [List.all_eq_true]
  intro c hc
  obtain ⟨d, hdm, rfl⟩ := List.mem_map.mp hc
  have := hd d hdm
  simp; omega

theorem map_add_sub (ds : List Nat) : (ds.map (· + 48)).map (· - 48) = ds := by
  rw [List.map_map]
  conv_rhs => rw [← List.map_id ds]
  apply List.map_congr_left
  intro d _
  simp

/-- `parse::<isize>()` accepts exactly the documented grammar, with the value the digits spell -/
theorem parseIsize_ok_iff (bits : Nat) (s : List Nat) (z : Int) :
    parseIsize bits s = .ok z ↔ IsizeText bits s z := by
  constructor
  · intro h
    unfold parseIsize at h
    by_cases hs : s = []
    · rw [if_pos hs] at h; cases h
    · rw [if_neg hs] at h
      simp only at h
      by_cases hr : (stripSignF s).2 = []
      · rw [if_pos hr] at h; cases h
      · rw [if_neg hr] at h
        by_cases ha : (stripSignF s).2.all (fun c => 48 ≤ c && c ≤ 57) = true
        · rw [if_pos ha] at h
          obtain ⟨sg, hsg, hsplit, hneg⟩ := stripSignF_split s
          obtain ⟨hun, hlt⟩ := all_digit_unmap _ ha
          have fin : ∀ zz : Int,
              zz = (if sg = [45] then -((ofDigits 10 ((stripSignF s).2.map (· - 48)) : Nat) : Int)
                    else ((ofDigits 10 ((stripSignF s).2.map (· - 48)) : Nat) : Int)) →
              (if -(2 ^ (bits - 1) : Int) ≤ zz ∧ zz < (2 ^ (bits - 1) : Int) then (Except.ok zz : Except ParseError Int)
                else .error .invalidDigit) = .ok z → IsizeText bits s z := by
            intro zz hzz hif
            by_cases hrange : -(2 ^ (bits - 1) : Int) ≤ zz ∧ zz < (2 ^ (bits - 1) : Int)
            · rw [if_pos hrange] at hif
              injection hif with hz
              subst hz
              refine ⟨sg, (stripSignF s).2.map (· - 48), hsg, ?_, hlt, ?_, hzz, hrange.1, hrange.2⟩
              · intro hnil; exact hr (List.map_eq_nil_iff.mp hnil)
              · rw [hun]; exact hsplit
            · rw [if_neg hrange] at hif; cases hif
          cases hb : (stripSignF s).1 with
          | true =>
            simp only [hb, if_true] at h
            exact fin _ (by rw [if_pos (hneg.mp hb)]) h
          | false =>
            simp only [hb, Bool.false_eq_true, if_false] at h
            have h45 : ¬ sg = [45] := fun h45 => by have := hneg.mpr h45; rw [hb] at this; cases this
            exact fin _ (by rw [if_neg h45]) h
        · rw [if_neg ha] at h; cases h
  · rintro ⟨sg, ds, hsg, hne, hd, rfl, hz, hlo, hhi⟩
    unfold parseIsize
    have hsne : sg ++ ds.map (· + 48) ≠ [] := by
      intro h
      have := (List.append_eq_nil_iff.mp h).2
      exact hne (List.map_eq_nil_iff.mp this)
    rw [if_neg hsne]
    simp only [stripSignF_signed sg ds hsg hne hd]
    rw [if_neg (fun h => hne (List.map_eq_nil_iff.mp h)), if_pos (digits_all ds hd), map_add_sub]
    have hz' : (if decide (sg = [45]) = true then -((ofDigits 10 ds : Nat) : Int) else ((ofDigits 10 ds : Nat) : Int)) = z := by
      rw [hz]; by_cases h45 : sg = [45] <;> simp [h45]
    rw [hz', if_pos ⟨hlo, hhi⟩]

/-- the error kinds of `parse::<isize>()` as the caller sees them: `NoDigits` for the empty string only -/
theorem parseIsize_error (bits : Nat) (s : List Nat) (e : ParseError) (h : parseIsize bits s = .error e) :
    e = if s = [] then .noDigits else .invalidDigit := by
  unfold parseIsize at h
  by_cases hs : s = []
  · rw [if_pos hs] at h; rw [if_pos hs]; injection h with h; exact h.symm
  · rw [if_neg hs] at h; rw [if_neg hs]
    simp only at h
    repeat' split at h
    all_goals first | (injection h with h; exact h.symm) | cases h

/-- the accepted text determines the value (leading zeros and `+` do not matter, nothing else is accepted) -/
theorem IsizeText_unique (bits : Nat) (s : List Nat) (z z' : Int) (h : IsizeText bits s z) (h' : IsizeText bits s z') :
    z = z' := by
  have a := (parseIsize_ok_iff bits s z).mpr h
  have b := (parseIsize_ok_iff bits s z').mpr h'
  rw [a] at b; injection b

/-- the scale split of `Repr::from_str_native` (text behind the LAST scale marker handed to `parse::<isize>()`),
    stated over the documented grammar of the scale instead of over `parseIsize` -/
theorem splitScale_ok_iff (B : Nat) (hp : Bool) (src : List Nat) (v : Int) (pm : Bool) (body : List Nat) :
    splitScale B hp src = .ok (v, pm, body) ↔
      (rfindIdx (isScaleMarker B hp) src = none ∧ v = 0 ∧ pm = false ∧ body = src) ∨
      ∃ pos, rfindIdx (isScaleMarker B hp) src = some pos ∧ IsizeText 64 (src.drop (pos + 1)) v ∧
        pm = (B == 2 && (src.getD pos 0 == 112 || src.getD pos 0 == 80)) ∧ body = src.take pos := by
  unfold splitScale
  cases hf : rfindIdx (isScaleMarker B hp) src with
  | none =>
    simp only
    constructor
    · intro h; injection h with h; injection h with h1 h2; injection h2 with h2 h3
      exact Or.inl ⟨by first | rfl | trivial, h1.symm, h2.symm, h3.symm⟩
    · rintro (⟨_, rfl, rfl, rfl⟩ | ⟨pos, hpos, _⟩)
      · rfl
      · cases hpos
  | some pos =>
    simp only
    cases hi : parseIsize 64 (src.drop (pos + 1)) with
    | error e =>
      simp only
      constructor
      · intro h; cases h
      · rintro (⟨h, _⟩ | ⟨pos', hpos, htxt, _⟩)
        · cases h
        · cases hpos
          rw [(parseIsize_ok_iff 64 _ v).mpr htxt] at hi; cases hi
    | ok w =>
      simp only
      constructor
      · intro h; injection h with h; injection h with h1 h2; injection h2 with h2 h3
        subst h1
        exact Or.inr ⟨pos, rfl, (parseIsize_ok_iff 64 _ w).mp hi, h2.symm, h3.symm⟩
      · rintro (⟨h, _⟩ | ⟨pos', hpos, htxt, rfl, rfl⟩)
        · cases h
        · cases hpos
          rw [(parseIsize_ok_iff 64 _ v).mpr htxt] at hi; injection hi with hi; subst hi; rfl

/-- an error of the scale split is an error of `parse::<isize>()` on the text behind the last marker:
    `NoDigits` when nothing follows the marker, `InvalidDigit` otherwise, and only when that text is not in
    the grammar of the scale -/
theorem splitScale_error_iff (B : Nat) (hp : Bool) (src : List Nat) (e : ParseError) :
    splitScale B hp src = .error e ↔
      ∃ pos, rfindIdx (isScaleMarker B hp) src = some pos ∧ (∀ v, ¬ IsizeText 64 (src.drop (pos + 1)) v) ∧
        e = if src.drop (pos + 1) = [] then .noDigits else .invalidDigit := by
  unfold splitScale
  cases hf : rfindIdx (isScaleMarker B hp) src with
  | none =>
    simp only
    constructor
    · intro h; cases h
    · rintro ⟨pos, hpos, _⟩; cases hpos
  | some pos =>
    simp only
    cases hi : parseIsize 64 (src.drop (pos + 1)) with
    | error e' =>
      simp only
      constructor
      · intro h; injection h with h; subst h
        refine ⟨pos, rfl, ?_, parseIsize_error 64 _ _ hi⟩
        intro v hv; rw [(parseIsize_ok_iff 64 _ v).mpr hv] at hi; cases hi
      · rintro ⟨pos', hpos, _, he⟩
        cases hpos
        rw [he, ← parseIsize_error 64 _ _ hi]
    | ok w =>
      simp only
      constructor
      · intro h; cases h
      · rintro ⟨pos', hpos, hno, _⟩
        cases hpos
        exact absurd ((parseIsize_ok_iff 64 _ w).mp hi) (hno w)

end Dashu.Model.Text
