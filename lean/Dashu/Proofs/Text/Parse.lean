import Dashu.Model.Text.Parse
import Dashu.Proofs.Text.Fmt
/-
  The parsers equal the documented grammar (`parse…Spec`) on every byte string, and printing then
  parsing is the identity.
-/
namespace Dashu.Model.Text

-- ---------------------------------------------------------------- characters

theorem digitOf_digitChar (r d : Nat) (up : Bool) (hd : d < r) (hr : r ≤ 36) :
    digitOf r (digitChar up d) = some d := by
  unfold digitOf alnumVal digitChar
  by_cases h10 : d < 10
  · have h1 : 48 ≤ 48 + d ∧ 48 + d ≤ 57 := by omega
    simp [h10, h1, hd]
  · cases up
    · have h1 : ¬(48 ≤ 87 + d ∧ 87 + d ≤ 57) := by omega
      have h2 : 97 ≤ 87 + d ∧ 87 + d ≤ 122 := by omega
      have h3 : 87 + d - 97 + 10 = d := by omega
      simp [h10, h1, h2, h3, hd]
    · have h1 : ¬(48 ≤ 55 + d ∧ 55 + d ≤ 57) := by omega
      have h2 : ¬(97 ≤ 55 + d ∧ 55 + d ≤ 122) := by omega
      have h3 : 65 ≤ 55 + d ∧ 55 + d ≤ 90 := by omega
      have h4 : 55 + d - 65 + 10 = d := by omega
      simp [h10, h1, h2, h3, h4, hd]

theorem digitChar_ge (up : Bool) (d : Nat) : 48 ≤ digitChar up d := by
  unfold digitChar; split <;> (try split) <;> omega

theorem digitChar_ne_us (up : Bool) (d : Nat) (hd : d < 36) : digitChar up d ≠ 95 := by
  unfold digitChar; split <;> (try split) <;> omega

theorem digitValues_map (r : Nat) (up : Bool) (hr : r ≤ 36) (ds : List Nat) (h : ∀ d ∈ ds, d < r) :
    digitValues r (ds.map (digitChar up)) = some ds := by
  induction ds with
  | nil => rfl
  | cons d ds ih =>
    simp only [List.map_cons, digitValues]
    rw [digitOf_digitChar r d up (h d (by simp)) hr, ih (fun x hx => h x (by simp [hx]))]

theorem filter_us_map (up : Bool) (ds : List Nat) (h : ∀ d ∈ ds, d < 36) :
    (ds.map (digitChar up)).filter (· ≠ 95) = ds.map (digitChar up) := by
  apply List.filter_eq_self.mpr
  intro c hc
  obtain ⟨d, hd, rfl⟩ := List.mem_map.mp hc
  simpa using digitChar_ne_us up d (h d hd)

/-- the grammar accepts the printed digits and returns the number -/
theorem parseBodySpec_printSpec (r : Nat) (up : Bool) (n : Nat) (hr2 : 2 ≤ r) (hr : r ≤ 36) :
    parseBodySpec r (printSpec r up n) = .ok n := by
  unfold parseBodySpec printSpec
  have hlt := digits_lt hr2 n
  rw [filter_us_map up _ (fun d hd => by have := hlt d hd; omega), digitValues_map r up hr _ hlt]
  have hne := digits_ne_nil r n hr2
  cases hds : digits r n with
  | nil => exact absurd hds hne
  | cons a t => simp only []; rw [← hds, ofDigits_digits hr2]

theorem splitSign_printSpec (signed : Bool) (r : Nat) (up : Bool) (n : Nat) (hr2 : 2 ≤ r) :
    splitSign signed (printSpec r up n) = (false, printSpec r up n) := by
  unfold printSpec
  have hne := digits_ne_nil r n hr2
  cases hds : digits r n with
  | nil => exact absurd hds hne
  | cons a t =>
    simp only [List.map_cons]
    have := digitChar_ge up a
    unfold splitSign
    split
    · rename_i h; simp at h; omega
    · rename_i h; simp at h; omega
    · rfl

/-- **round trip at the level of the specification**: the text `[-]digits` parses back to the
    integer, for every radix 2..36, either letter case; `UBig` (`signed = false`) for `z ≥ 0` -/
theorem parseRadixSpec_printSpecInt (signed : Bool) (r : Nat) (up : Bool) (z : Int)
    (hv : validRadix r = true) (hs : signed = true ∨ 0 ≤ z) :
    parseRadixSpec signed (printSpecInt r up z) r = .ok z := by
  have hr2 : 2 ≤ r := by simp [validRadix] at hv; omega
  have hr : r ≤ 36 := by simp [validRadix] at hv; omega
  unfold parseRadixSpec printSpecInt
  simp only [hv, Bool.not_true, Bool.false_eq_true, if_false]
  by_cases hz : z < 0
  · have hsg : signed = true := by rcases hs with h | h; exact h; omega
    subst hsg
    simp only [hz, if_true, List.cons_append, List.nil_append, splitSign]
    rw [parseBodySpec_printSpec r up _ hr2 hr]
    have : (z.natAbs : Int) = -z := Int.ofNat_natAbs_of_nonpos (by omega)
    simp [Except.map, applySign, this]
  · simp only [hz, if_false, List.nil_append]
    rw [splitSign_printSpec signed r up _ hr2, parseBodySpec_printSpec r up _ hr2 hr]
    have : (z.natAbs : Int) = z := Int.natAbs_of_nonneg (by omega)
    simp [Except.map, applySign, this]

/-- … and with an explicit `+` sign (formatter flag `+`) -/
theorem parseRadixSpec_plus (signed : Bool) (r : Nat) (up : Bool) (n : Nat) (hv : validRadix r = true) :
    parseRadixSpec signed (43 :: printSpec r up n) r = .ok (n : Int) := by
  have hr2 : 2 ≤ r := by simp [validRadix] at hv; omega
  have hr : r ≤ 36 := by simp [validRadix] at hv; omega
  unfold parseRadixSpec
  simp only [hv, Bool.not_true, Bool.false_eq_true, if_false, splitSign]
  rw [parseBodySpec_printSpec r up _ hr2 hr]
  simp [Except.map, applySign]

-- ---------------------------------------------------------------- digit strings

/-- the common specification of the digit loops: all bytes except `_` must be digits -/
def parseDigitsSpec (r : Nat) (t : List Nat) : Except ParseError Nat :=
  match digitValues r (t.filter (· ≠ 95)) with
  | none => .error .invalidDigit
  | some ds => .ok (ofDigits r ds)

/-- … without underscore handling -/
def parseRawSpec (r : Nat) (t : List Nat) : Except ParseError Nat :=
  match digitValues r t with
  | none => .error .invalidDigit
  | some ds => .ok (ofDigits r ds)

theorem digitValues_length {r : Nat} {t ds : List Nat} (h : digitValues r t = some ds) : ds.length = t.length := by
  induction t generalizing ds with
  | nil => simp [digitValues] at h; subst h; rfl
  | cons c cs ih =>
    simp only [digitValues] at h
    cases hc : digitOf r c with
    | none => simp [hc] at h
    | some d =>
      cases hcs : digitValues r cs with
      | none => simp [hc, hcs] at h
      | some ds' =>
        simp [hc, hcs] at h; subst h
        simp [ih hcs]

theorem digitValues_append (r : Nat) (a b : List Nat) :
    digitValues r (a ++ b) =
      match digitValues r a, digitValues r b with
      | some x, some y => some (x ++ y)
      | _, _ => none := by
  induction a with
  | nil => simp only [List.nil_append, digitValues]; cases digitValues r b <;> rfl
  | cons c cs ih =>
    simp only [List.cons_append, digitValues, ih]
    cases digitOf r c <;> cases digitValues r cs <;> cases digitValues r b <;> simp

theorem parseWordLoop_spec (r : Nat) (cs : List Nat) (acc : Nat) :
    parseWordLoop r cs acc =
      match digitValues r cs with
      | none => .error .invalidDigit
      | some ds => .ok (acc * r ^ ds.length + ofDigits r ds) := by
  induction cs generalizing acc with
  | nil => simp [parseWordLoop, digitValues, ofDigits]
  | cons c cs ih =>
    simp only [parseWordLoop, digitValues]
    cases hc : digitOf r c with
    | none => simp
    | some d =>
      simp only [ih]
      cases hcs : digitValues r cs with
      | none => simp
      | some ds =>
        simp only [List.length_cons, ofDigits_cons]
        congr 1; ring

theorem parseWord_spec (r : Nat) (src : List Nat) : parseWord r src = parseRawSpec r src := by
  unfold parseWord parseRawSpec
  rw [parseWordLoop_spec]
  cases digitValues r src <;> simp

-- ---------------------------------------------------------------- chunking

theorem chunksOf_nil (k : Nat) : chunksOf k [] = [] := by rw [chunksOf]; simp

theorem chunksOf_step {k : Nat} {l : List Nat} (hk : k ≠ 0) (hl : l ≠ []) :
    chunksOf k l = l.take k :: chunksOf k (l.drop k) := by
  rw [chunksOf]; simp [hk, hl]

theorem chunksOf_spec (k : Nat) (hk : k ≠ 0) (l : List Nat) :
    (chunksOf k l).flatten = l ∧ (k ∣ l.length → ∀ g ∈ chunksOf k l, g.length = k) := by
  induction hn : l.length using Nat.strong_induction_on generalizing l with
  | _ n ih =>
    by_cases hl : l = []
    · subst hl; rw [chunksOf_nil]; simp
    · rw [chunksOf_step hk hl]
      have hlen : l.length ≠ 0 := fun h => hl (List.length_eq_zero_iff.mp h)
      have hd : (l.drop k).length < n := by rw [← hn, List.length_drop]; omega
      obtain ⟨e1, e2⟩ := ih _ hd (l.drop k) rfl
      refine ⟨by simp [e1], ?_⟩
      intro hdvd g hg
      rw [← hn] at hdvd
      have hkl : k ≤ l.length := Nat.le_of_dvd (by omega) hdvd
      rcases List.mem_cons.mp hg with h | h
      · subst h; simp [List.length_take]; omega
      · apply e2 _ g h
        rw [List.length_drop]; exact Nat.dvd_sub hdvd (Nat.dvd_refl k)

/-- `rchunks(k).rev()`: a first group of any length, then groups of exactly `k` -/
theorem rchunksRev_spec (k : Nat) (hk : k ≠ 0) (l : List Nat) :
    ∃ g0 gs, rchunksRev k l = g0 :: gs ∧ g0 ++ gs.flatten = l ∧ (∀ g ∈ gs, g.length = k) ∨
      (rchunksRev k l = [] ∧ l = []) := by
  unfold rchunksRev
  by_cases hl : l = []
  · subst hl; exact ⟨[], [], Or.inr (by simp [chunksOf_nil])⟩
  · by_cases h : l.length % k = 0
    · simp only [h, if_true]
      rw [chunksOf_step hk hl]
      obtain ⟨e1, e2⟩ := chunksOf_spec k hk (l.drop k)
      refine ⟨l.take k, chunksOf k (l.drop k), Or.inl ⟨rfl, by simp [e1], ?_⟩⟩
      apply e2
      rw [List.length_drop]
      exact Nat.dvd_sub (Nat.dvd_of_mod_eq_zero h) (Nat.dvd_refl k)
    · simp only [h, if_false]
      obtain ⟨e1, e2⟩ := chunksOf_spec k hk (l.drop (l.length % k))
      refine ⟨_, _, Or.inl ⟨rfl, by simp [e1], ?_⟩⟩
      apply e2
      rw [List.length_drop]
      exact (Nat.dvd_sub_mod l.length)

theorem parseChunkLoop_spec (r rpw dpw : Nat) (hp : rpw = r ^ dpw) (gs : List (List Nat))
    (hgs : ∀ g ∈ gs, g.length = dpw) (acc : Nat) :
    parseChunkLoop r rpw gs acc =
      match digitValues r gs.flatten with
      | none => .error .invalidDigit
      | some ds => .ok (acc * r ^ ds.length + ofDigits r ds) := by
  induction gs generalizing acc with
  | nil => simp [parseChunkLoop, digitValues, ofDigits]
  | cons g gs ih =>
    simp only [parseChunkLoop, List.flatten_cons, digitValues_append, parseWord_spec, parseRawSpec]
    cases hg : digitValues r g with
    | none => simp
    | some dg =>
      simp only []
      rw [ih (fun x hx => hgs x (by simp [hx]))]
      cases hr : digitValues r gs.flatten with
      | none => simp
      | some dr =>
        have : dg.length = dpw := by rw [digitValues_length hg]; exact hgs g (by simp)
        simp only [List.length_append, ofDigits_append, hp, this]
        congr 1; ring

/-- `parse_chunk` = Horner over all digits, whatever the length -/
theorem parseChunk_spec {W r : Nat} (ok : RadixOK W r (radixInfo W r)) (bytes : List Nat) :
    parseChunk W r bytes = parseRawSpec r bytes := by
  unfold parseChunk
  have hk : (radixInfo W r).dpw ≠ 0 := by have := ok.dpos; omega
  rcases rchunksRev_spec (radixInfo W r).dpw hk bytes with ⟨g0, gs, h⟩
  rcases h with ⟨e, efl, hlen⟩ | ⟨e, hnil⟩
  · simp only [e, parseChunkLoop, parseWord_spec]
    unfold parseRawSpec
    rw [← efl, digitValues_append]
    cases hg : digitValues r g0 with
    | none => simp
    | some dg =>
      simp only []
      rw [parseChunkLoop_spec r _ _ ok.pow gs hlen]
      cases hr : digitValues r gs.flatten with
      | none => simp
      | some dr => simp [ofDigits_append]
  · subst hnil; simp only []; rw [e]; simp [parseChunkLoop, parseRawSpec, digitValues, ofDigits]

/-- `radix_powers` of the parser, biggest first: `ps[i] = r^(chunkBytes·2^i)` -/
theorem parseDC_spec {W r : Nat} (ok : RadixOK W r (radixInfo W r)) (cb : Nat) (ps : List Nat)
    (ht : IsTower r cb ps) (bytes : List Nat) :
    parseDC W r cb ps bytes = parseRawSpec r bytes := by
  induction ps generalizing bytes with
  | nil => exact parseChunk_spec ok bytes
  | cons p ps ih =>
    obtain ⟨hp, ht'⟩ := ht
    simp only [parseDC]
    split
    · exact ih ht' bytes
    · rename_i hlen
      rw [ih ht', ih ht']
      have hsplit : bytes = bytes.take (bytes.length - cb <<< ps.length) ++ bytes.drop (bytes.length - cb <<< ps.length) :=
        (List.take_append_drop _ _).symm
      have hlo : (bytes.drop (bytes.length - cb <<< ps.length)).length = cb * 2 ^ ps.length := by
        rw [List.length_drop, Nat.shiftLeft_eq] at *; omega
      unfold parseRawSpec
      conv => rhs; rw [hsplit, digitValues_append]
      cases hh : digitValues r (bytes.take (bytes.length - cb <<< ps.length)) with
      | none => simp
      | some dh =>
        simp only []
        cases hl : digitValues r (bytes.drop (bytes.length - cb <<< ps.length)) with
        | none => simp
        | some dl =>
          simp only [ofDigits_append]
          rw [digitValues_length hl, hlo, hp]

theorem parsePowers_tower (r cb len : Nat) (fuel : Nat) (ps : List Nat) (ht : IsTower r cb ps) :
    IsTower r cb (parsePowers cb len fuel ps) := by
  induction fuel generalizing ps with
  | zero => exact ht
  | succ fuel ih =>
    cases ps with
    | nil => exact ht
    | cons prev rest =>
      simp only [parsePowers]
      split
      · apply ih
        refine ⟨?_, ht⟩
        rw [ht.1, ← pow_add, List.length_cons, pow_succ]; congr 1; ring
      · exact ht

theorem parseLarge_spec {W r : Nat} (ok : RadixOK W r (radixInfo W r)) (bytes : List Nat) :
    parseLarge W r bytes = parseRawSpec r bytes := by
  unfold parseLarge
  apply parseDC_spec ok
  apply parsePowers_tower
  refine ⟨?_, trivial⟩
  rw [ok.pow, ← pow_mul]; simp [Nat.mul_comm]

theorem parseRawSpec_filter (r : Nat) (src : List Nat) :
    parseRawSpec r (src.filter (· ≠ 95)) = parseDigitsSpec r src := rfl

/-- **the non-power-of-two parser** (word / chunked / divide-and-conquer) equals Horner evaluation of
    the digits, or `InvalidDigit` — on every byte string -/
theorem parseNonPow2_spec (W r : Nat) (hr : 2 ≤ r) (hrW : r < 2 ^ W) (src : List Nat) :
    parseNonPow2 W r src = parseDigitsSpec r src := by
  have ok := radixInfo_ok W r hr hrW
  unfold parseNonPow2
  have hb : (if src.contains 95 = true then src.filter (· ≠ 95) else src) = src.filter (· ≠ 95) := by
    by_cases h : src.contains 95 = true
    · rw [if_pos h]
    · rw [if_neg h]
      symm; apply List.filter_eq_self.mpr
      intro c hc
      simp only [decide_eq_true_eq]
      intro h95; subst h95
      exact h (List.contains_iff_mem.mpr hc)
  simp only [hb]
  rw [← parseRawSpec_filter]
  split
  · exact parseWord_spec r _
  · split
    · exact parseChunk_spec ok _
    · exact parseLarge_spec ok _

end Dashu.Model.Text
