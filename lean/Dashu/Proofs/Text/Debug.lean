import Dashu.Model.Text.Debug
import Dashu.Model.Text.Float
import Dashu.Proofs.Text.FmtWord
import Dashu.Proofs.Text.BytesSigned
import Dashu.Proofs.Text.Grammar
import Dashu.Proofs.NT.Log
/-
  C07 — `Debug` (`DoubleEnd`): the mirrored word-level algorithm (rem_by_word for the tail;
  log_word_base, division of the power by 10^(dpw-1), normalisation and ONE `div_rem_highest_word`
  for the head) prints exactly the leading and trailing `digits_per_word` decimal digits.
-/
namespace Dashu.Model.Text
open Dashu.Model Dashu.Model.Div

theorem norm_getD {ws : List Nat} (hn : Norm ws) (hne : ws ≠ []) : ws.getD (ws.length - 1) 0 ≠ 0 := by
  have hl : 1 ≤ ws.length := by
    cases ws with
    | nil => exact absurd rfl hne
    | cons a t => simp
  obtain ⟨lo, a, hsplit, hgd, _, _⟩ := split_last1 ws hl
  rw [hgd]
  intro h0
  apply hn
  rw [hsplit, h0]
  simp

theorem norm_wordsOf (W n : Nat) (hW : 1 ≤ W) (hn : n ≠ 0) : Norm (wordsOf W n) ∧ wordsOf W n ≠ [] := by
  obtain ⟨_, h⟩ := wordsOf_eq W n hW
  obtain ⟨_, hne0, _, hlen⟩ := h hn
  have hne : wordsOf W n ≠ [] := by
    intro h0; rw [h0] at hlen; simp at hlen
  refine ⟨?_, hne⟩
  unfold Norm
  intro hl
  apply hne0
  rw [List.getLastD_eq_getLast?, hl]
  rfl

/-- exact division: `q·d + r = P·d`, `r < d` ⇒ `r = 0`, `q = P` -/
theorem exact_div (q d r P : Nat) (hd : 0 < d) (h : q * d + r = P * d) (hr : r < d) : r = 0 ∧ q = P := by
  have h1 : (q * d + r) % d = r := by
    rw [Nat.mul_comm, Nat.mul_add_mod, Nat.mod_eq_of_lt hr]
  have h2 : (P * d) % d = 0 := Nat.mul_mod_left _ _
  rw [h, h2] at h1
  subst h1
  refine ⟨rfl, ?_⟩
  simp only [Nat.add_zero] at h
  exact Nat.eq_of_mul_eq_mul_right hd h

/-- the decimal-size facts behind `DoubleEnd`: for a heap value `n ≥ 2^(2W)` with `10^e ≤ n < 10^(e+1)` -/
theorem doubleEnd_arith (W k R n e : Nat) (hk : 2 ≤ k) (hR : R = 10 ^ k) (hRlt : R < 2 ^ W)
    (hmax : 2 ^ W ≤ R * 10) (hbig : 2 ^ (2 * W) ≤ n) (hlo : 10 ^ e ≤ n) (hhi : n < 10 ^ (e + 1)) :
    2 * k ≤ e ∧ 2 ^ W ≤ 10 ^ (e + 1 - k) ∧ 10 ^ e = 10 ^ (e + 1 - k) * 10 ^ (k - 1) ∧
    n / 10 ^ (e + 1 - k) < R ∧ 10 * 10 ^ (e + 1 - k) ≤ n ∧ R / 10 = 10 ^ (k - 1) := by
  have h2k : 2 * k ≤ e := by
    have h1 : 10 ^ (2 * k) < 10 ^ (e + 1) := by
      calc 10 ^ (2 * k) = R * R := by rw [hR, ← Nat.pow_add]; congr 1; omega
        _ < 2 ^ W * 2 ^ W := Nat.mul_lt_mul'' hRlt hRlt
        _ = 2 ^ (2 * W) := by rw [← Nat.pow_add]; congr 1; omega
        _ ≤ n := hbig
        _ < 10 ^ (e + 1) := hhi
    have := (Nat.pow_lt_pow_iff_right (a := 10) (by omega)).mp h1
    omega
  have hP1 : 10 ^ (k + 1) ≤ 10 ^ (e + 1 - k) := Nat.pow_le_pow_right (by omega) (by omega)
  have hsplit : 10 ^ e = 10 ^ (e + 1 - k) * 10 ^ (k - 1) := by
    rw [← Nat.pow_add]; congr 1; omega
  have hPpos : 0 < 10 ^ (e + 1 - k) := Nat.pow_pos (by omega)
  refine ⟨h2k, ?_, hsplit, ?_, ?_, ?_⟩
  · calc 2 ^ W ≤ R * 10 := hmax
      _ = 10 ^ (k + 1) := by rw [hR, pow_succ]
      _ ≤ _ := hP1
  · rw [Nat.div_lt_iff_lt_mul hPpos, hR, ← Nat.pow_add]
    have : k + (e + 1 - k) = e + 1 := by omega
    rw [this]; exact hhi
  · calc 10 * 10 ^ (e + 1 - k) ≤ 10 ^ (k - 1) * 10 ^ (e + 1 - k) :=
          Nat.mul_le_mul_right _ (by
            calc 10 = 10 ^ 1 := by norm_num
              _ ≤ 10 ^ (k - 1) := Nat.pow_le_pow_right (by omega) (by omega))
      _ = 10 ^ e := by rw [hsplit, Nat.mul_comm]
      _ ≤ n := hlo
  · rw [hR]
    have : 10 ^ k = 10 ^ (k - 1) * 10 := by rw [← pow_succ]; congr 1; omega
    rw [this, Nat.mul_div_cancel _ (by omega)]

/-- one `div_rem_highest_word` on a window of exactly `n + 1` words is the whole quotient -/
theorem highest_word_quotient (W : Nat) (hW : 1 ≤ W) (lhsTop : Nat) (lo pn : List Nat)
    (hlo : IsWords W lo) (hpn : IsWords W pn) (h2 : 2 ≤ pn.length)
    (hnorm : 2 ^ (W * pn.length) ≤ 2 * val W pn) (hlen : lo.length = pn.length)
    (hA : val W lo + lhsTop * 2 ^ (W * pn.length) < val W pn * 2 ^ W) :
    ∃ rest, divRemHighestWord W lhsTop lo pn (highestDword W pn) =
      .ok ((val W lo + lhsTop * 2 ^ (W * pn.length)) / val W pn, rest) := by
  have hd0 : lo.drop (lo.length - pn.length) = lo := by rw [hlen, Nat.sub_self]; rfl
  obtain ⟨q, win', e, _, _, _, hlt, hq⟩ := divRemHighestWord_spec W hW lhsTop lo pn h2 (by omega) hlo hpn hnorm
    (by rw [hd0]; exact hA)
  rw [hd0] at hq
  have : (val W lo + lhsTop * 2 ^ (W * pn.length)) / val W pn = q := by
    apply Nat.div_eq_of_lt_le
    · omega
    · rw [Nat.add_mul, Nat.one_mul]; omega
  exact ⟨_, by rw [e, this]⟩

theorem two_pow_succ_mul (W L : Nat) : 2 ^ (W * (L + 1)) = 2 ^ (W * L) * 2 ^ W := by
  rw [Nat.mul_succ, Nat.pow_add]

/-- length bookkeeping: a window value `A` with `2^(W·m) ≤ A < D·2^W`, `D < 2^(W·L)` has `m ≤ L` -/
theorem window_len_le (W m L A D : Nat) (hW : 1 ≤ W) (h1 : 2 ^ (W * m) ≤ A) (h2 : A < D * 2 ^ W)
    (h3 : D < 2 ^ (W * L)) : m ≤ L := by
  have h4 : 2 ^ (W * m) < 2 ^ (W * (L + 1)) := by
    rw [two_pow_succ_mul]
    calc 2 ^ (W * m) ≤ A := h1
      _ < D * 2 ^ W := h2
      _ ≤ 2 ^ (W * L) * 2 ^ W := Nat.mul_le_mul_right _ (by omega)
  have h5 := (Nat.pow_lt_pow_iff_right (a := 2) (by omega)).mp h4
  have h6 : m < L + 1 := Nat.lt_of_mul_lt_mul_left h5
  omega

/-- **the heap arm of `DoubleEnd::fmt_non_power_two` on words**: no `debug_assert!` fails and no
    precondition of a kernel is violated; the head word is `n / 10^(exp+1-dpw)`, the tail word is
    `n % 10^dpw`, and `exp + 1` is the number of decimal digits — for every heap value, every even word
    size `≥ 8` and every first guess `est` that passes `log_word_base`'s own `assert!` -/
theorem doubleEndLarge_eq (W est : Nat) (hW : 8 ≤ W) (hev : 2 ∣ W) (words : List Nat)
    (hw : IsWords W words) (hnm : Norm words) (hbig : 2 ^ (2 * W) ≤ val W words)
    (hest : 10 ^ est ≤ val W words) :
    ∃ exp, 10 ^ exp ≤ val W words ∧ val W words < 10 ^ (exp + 1) ∧ 2 * (radixInfo W 10).dpw ≤ exp ∧
      doubleEndLarge W est words = .ok (val W words / 10 ^ (exp + 1 - (radixInfo W 10).dpw),
        val W words % 10 ^ (radixInfo W 10).dpw, exp) := by
  have h256 : (2 : Nat) ^ 8 ≤ 2 ^ W := Nat.pow_le_pow_right (by omega) hW
  have h10W : 10 < 2 ^ W := by omega
  have hW1 : 1 ≤ W := by omega
  have ok := radixInfo_ok W 10 (by omega) h10W
  have hmax : 2 ^ W ≤ (radixInfo W 10).rpw * 10 := (maxExpInWord_spec W 10 (by omega) h10W).2.2.2 hev
  unfold doubleEndLarge
  generalize radixInfo W 10 = ri at ok hmax ⊢
  have hRpow := ok.pow
  have hRlt := ok.lt
  have hk1 := ok.dpos
  have hk2 : 2 ≤ ri.dpw := by
    by_contra hc
    have : ri.dpw = 1 := by omega
    rw [this] at hRpow
    omega
  have hnpos : 0 < val W words := Nat.lt_of_lt_of_le (Nat.two_pow_pos _) hbig
  have hne : words ≠ [] := by
    intro h0; rw [h0] at hnpos; simp [val] at hnpos
  have hR0 : 0 < ri.rpw := by rw [hRpow]; exact Nat.pow_pos (by omega)
  -- tail
  have e1 := remByWord_spec W ri.rpw words hw hne hR0 hRlt
  -- logarithm
  obtain ⟨⟨exp, pow⟩, e2, hlog1, hlog2, hlog3⟩ :=
    Dashu.Model.NT.logWordBase_spec (W := W) (target := val W words) (base := 10) (by omega) (by omega) h10W est hest
  simp only at hlog1 hlog2 hlog3
  subst hlog1
  rw [← pow_succ] at hlog3
  obtain ⟨h2k, hPW, hsplit, hqR, h10P, hR10⟩ :=
    doubleEnd_arith W ri.dpw ri.rpw (val W words) exp hk2 hRpow hRlt hmax hbig hlog2 hlog3
  generalize hP : 10 ^ (exp + 1 - ri.dpw) = P at *
  have hPpos : 0 < P := by omega
  -- pow / 10^(dpw-1)
  have hd0 : 0 < ri.rpw / 10 := by rw [hR10]; exact Nat.pow_pos (by omega)
  have hdlt : ri.rpw / 10 < 2 ^ W := Nat.lt_of_le_of_lt (Nat.div_le_self _ _) hRlt
  obtain ⟨pq, prem, e3, hv3, hr3, _, hq3⟩ :=
    divByWordInPlace_spec W (ri.rpw / 10) (wordsOf W (10 ^ exp)) (isWords_wordsOf W _ hW1) hd0 hdlt
  rw [val_wordsOf W _ hW1, hsplit, ← hR10] at hv3
  obtain ⟨hprem, hpq⟩ := exact_div _ _ _ _ hd0 hv3 hr3
  subst hprem
  simp only [e1, e2, e3, bind, Except.bind, ne_eq, not_true_eq_false, if_false]
  -- pop_zeros, length
  have hpwv : val W (trimZeros pq) = P := by rw [val_trimZeros, hpq]
  have hpww := isWords_trimZeros hq3
  have hpwn := norm_trimZeros pq
  generalize trimZeros pq = pw at hpwv hpww hpwn ⊢
  have hpwl : ¬ pw.length ≤ 1 := by
    intro hc
    have := ((norm_length W pw hpww hpwn).1.mp hc)
    omega
  have hpwne : pw ≠ [] := by intro h0; rw [h0] at hpwl; simp at hpwl
  simp only [hpwl, if_false]
  -- normalize
  obtain ⟨pn, shift, e6, hs6, hl6, hw6, hv6, hn6⟩ :=
    normalize_spec W hW1 pw hpww (by omega) (norm_getD hpwn hpwne)
  rw [hpwv] at hv6
  simp only [e6]
  have hpnlt := val_lt W pn hw6
  rw [← hl6] at hn6
  have hPge : 2 ^ (W * (pn.length - 1)) ≤ P := by
    rw [hl6, ← hpwv]; exact val_ge_of_getLast W pw hpwne hpwn
  -- shift the number
  have sp := shlInPlace_spec W shift (by omega) words hw
  generalize hsh : shlInPlace W words shift = p at sp ⊢
  obtain ⟨ws, top⟩ := p
  simp only at sp
  obtain ⟨s1, s2, s3, s4⟩ := sp
  have hnge : 2 ^ (W * (words.length - 1)) ≤ val W words := val_ge_of_getLast W words hne hnm
  have hspos : 0 < 2 ^ shift := Nat.two_pow_pos _
  have hAlt : val W words * 2 ^ shift < val W pn * 2 ^ W := by
    rw [hv6]
    have : val W words < P * ri.rpw := by
      have := (Nat.div_lt_iff_lt_mul hPpos).mp hqR
      rw [Nat.mul_comm]; exact this
    calc val W words * 2 ^ shift < P * ri.rpw * 2 ^ shift := Nat.mul_lt_mul_of_pos_right this hspos
      _ = P * 2 ^ shift * ri.rpw := by ring
      _ ≤ P * 2 ^ shift * 2 ^ W := Nat.mul_le_mul_left _ (by omega)
  have hquot : val W words * 2 ^ shift / val W pn = val W words / P := by
    rw [hv6, Nat.mul_div_mul_right _ _ hspos]
  have hwl1 : 1 ≤ words.length := by
    cases words with
    | nil => exact absurd rfl hne
    | cons a t => simp
  by_cases htop : top = 0
  · -- words_top == 0: split the last word off
    subst htop
    simp only [Nat.mul_zero, Nat.add_zero] at s1
    have hwsne : ws ≠ [] := by intro h0; rw [h0] at s2; simp at s2; omega
    obtain ⟨lo, a, rfl⟩ : ∃ lo a, ws = lo ++ [a] :=
      ⟨ws.dropLast, ws.getLast hwsne, (List.dropLast_append_getLast hwsne).symm⟩
    have hlol : lo.length = words.length - 1 := by simp at s2; omega
    have hlow : IsWords W lo := fun x hx => s3 x (by simp [hx])
    rw [val_append_one] at s1
    have hlen : lo.length = pn.length := by
      apply Nat.le_antisymm
      · apply window_len_le W lo.length pn.length (val W words * 2 ^ shift) (val W pn) hW1 ?_ hAlt hpnlt
        rw [hlol]
        calc 2 ^ (W * (words.length - 1)) ≤ val W words := hnge
          _ ≤ val W words * 2 ^ shift := Nat.le_mul_of_pos_right _ hspos
      · by_contra hc
        have hc' : lo.length + 1 ≤ pn.length := by omega
        have h1 : val W words * 2 ^ shift < 2 ^ (W * (lo.length + 1)) := by
          have := val_lt W (lo ++ [a]) s3
          rw [val_append_one] at this
          simp only [List.length_append, List.length_singleton] at this
          omega
        have h2 : 2 ^ (W * (lo.length + 1)) ≤ 2 ^ (W * pn.length) :=
          Nat.pow_le_pow_right (by omega) (Nat.mul_le_mul_left _ hc')
        rw [hv6] at hn6
        have h3 : val W words * 2 ^ shift < 2 * P * 2 ^ shift := by
          calc val W words * 2 ^ shift < 2 ^ (W * pn.length) := Nat.lt_of_lt_of_le h1 h2
            _ ≤ 2 * (P * 2 ^ shift) := hn6
            _ = 2 * P * 2 ^ shift := by ring
        have := Nat.lt_of_mul_lt_mul_right h3
        omega
    obtain ⟨rest, e8⟩ := highest_word_quotient W hW1 a lo pn hlow hw6 (by omega) hn6 hlen (by
      rw [← hlen, Nat.mul_comm a, s1]; exact hAlt)
    rw [← hlen, Nat.mul_comm a, s1, hquot] at e8
    refine ⟨exp, hlog2, hlog3, h2k, ?_⟩
    rw [hP]
    simp only [List.getLastD_concat, List.dropLast_concat, if_true, List.append_eq_nil_iff,
      List.cons_ne_self, and_false, if_false, hlen, Nat.lt_irrefl, e8, pure, Except.pure, hRpow]
  · -- words_top != 0: the window is all of `words`
    have htop1 : 1 ≤ top := by omega
    have hlen : ws.length = pn.length := by
      apply Nat.le_antisymm
      · apply window_len_le W ws.length pn.length (val W words * 2 ^ shift) (val W pn) hW1 ?_ hAlt hpnlt
        rw [← s1, s2]
        calc 2 ^ (W * words.length) = 2 ^ (W * words.length) * 1 := (Nat.mul_one _).symm
          _ ≤ 2 ^ (W * words.length) * top := Nat.mul_le_mul_left _ htop1
          _ ≤ _ := Nat.le_add_left _ _
      · by_contra hc
        have hc' : words.length ≤ pn.length - 1 := by omega
        have h1 := val_lt W words hw
        have h2 : 2 ^ (W * words.length) ≤ 2 ^ (W * (pn.length - 1)) :=
          Nat.pow_le_pow_right (by omega) (Nat.mul_le_mul_left _ hc')
        omega
    obtain ⟨rest, e8⟩ := highest_word_quotient W hW1 top ws pn s3 hw6 (by omega) hn6 hlen (by
      rw [← hlen, s2, Nat.mul_comm top, s1]; exact hAlt)
    rw [← hlen, s2, Nat.mul_comm top, s1, hquot] at e8
    refine ⟨exp, hlog2, hlog3, h2k, ?_⟩
    rw [hP]
    simp only [htop, if_false, false_and, hlen, Nat.lt_irrefl, e8, pure, Except.pure, hRpow]

-- ---------------------------------------------------------------- the text

theorem map_rawToAscii_digits (m : Nat) :
    (digits 10 m).map (rawToAscii .noLetters) = printSpec 10 false m := by
  unfold printSpec
  apply List.map_congr_left
  intro d hd
  exact rawToAscii_eq .noLetters false d (Or.inl ⟨rfl, digits_lt (by omega) m d hd⟩)

theorem writeUsizeDecimals_eq (u : Nat) : writeUsizeDecimals u = printSpec 10 false u := by
  unfold writeUsizeDecimals
  rw [preparedWord_one (by omega), map_rawToAscii_digits]

/-- head and tail of a decimal text with `e + 1` digits -/
theorem digits_head_tail (n e k : Nat) (hk : k ≤ e + 1) (hlo : 10 ^ e ≤ n) (hhi : n < 10 ^ (e + 1)) :
    (digits 10 n).length = e + 1 ∧
    (digits 10 n).take k = digitsPad 10 k (n / 10 ^ (e + 1 - k)) ∧
    (digits 10 n).drop ((digits 10 n).length - k) = digitsPad 10 k (n % 10 ^ k) := by
  have hd : digits 10 n = digitsPad 10 (e + 1) n :=
    digits_eq_digitsPad (by omega) (e + 1) n (by omega) (Or.inr (by simpa using hlo)) hhi
  have hl : (digits 10 n).length = e + 1 := by rw [hd, digitsPad_length]
  refine ⟨hl, ?_, ?_⟩
  · rw [hd]
    have : e + 1 = k + (e + 1 - k) := by omega
    conv_lhs => rw [this, digitsPad_add]
    rw [List.take_left' (digitsPad_length _ _ _)]
  · rw [hl, hd]
    have : e + 1 = (e + 1 - k) + k := by omega
    conv_lhs => rw [this, digitsPad_add]
    rw [← this, List.drop_left' (digitsPad_length _ _ _), digitsPad_mod]

/-- **`Debug` of `UBig` / `IBig` (mirrored `DoubleEnd::fmt_non_power_two` + `format_prepared`) prints
    the specified text**: every even word size `≥ 8`, every integer, every flag combination; `est` is
    the f32 first guess of `log_word_base`, constrained only by that function's own `assert!` (C10) -/
theorem doubleEndFmt_eq (W est : Nat) (hW : 8 ≤ W) (hev : 2 ∣ W) (alt plus : Bool) (z : Int)
    (hest : 2 ^ (2 * W) ≤ z.natAbs → 10 ^ est ≤ z.natAbs) :
    doubleEndFmt W est alt plus z = .ok (debugSpec W alt plus z) := by
  have h256 : (2 : Nat) ^ 8 ≤ 2 ^ W := Nat.pow_le_pow_right (by omega) hW
  have h10W : 10 < 2 ^ W := by omega
  have hW1 : 1 ≤ W := by omega
  have ok := radixInfo_ok W 10 (by omega) h10W
  unfold doubleEndFmt debugSpec
  generalize z.natAbs = n at hest ⊢
  have key : ∃ hi lo nd, doubleEndPieces W est n = .ok (hi, lo, nd) ∧
      nd = (if n = 0 then 0 else (printSpec 10 false n).length) ∧
      hi.map (rawToAscii .noLetters) ++ (match lo with
        | none => []
        | some l => [46, 46] ++ l.map (rawToAscii .noLetters)) =
      (if n < 2 ^ (2 * W) then printSpec 10 false n
       else (printSpec 10 false n).take (radixInfo W 10).dpw ++ [46, 46] ++
         (printSpec 10 false n).drop ((printSpec 10 false n).length - (radixInfo W 10).dpw)) := by
    unfold doubleEndPieces
    by_cases h1 : n < 2 ^ W
    · have h2 : n < 2 ^ (2 * W) :=
        Nat.lt_of_lt_of_le h1 (Nat.pow_le_pow_right (by omega) (by omega))
      refine ⟨_, _, _, by rw [if_pos h1], ?_, ?_⟩
      · rw [preparedWord_one (by omega)]; simp [printSpec]
      · rw [if_pos h2, preparedWord_one (by omega), map_rawToAscii_digits]; simp
    · by_cases h2 : n < 2 ^ (2 * W)
      · have hge : (radixInfo W 10).rpw ≤ n := by have := ok.lt; omega
        have hn0 : n ≠ 0 := by have := Nat.two_pow_pos W; omega
        rw [if_neg h1, if_pos h2, preparedDwordW_eq W 10 n hW1 hev (by omega) h10W h2,
          preparedDword_eq ok n hge]
        refine ⟨_, _, _, rfl, ?_, ?_⟩
        · simp [printSpec, hn0]
        · rw [if_pos h2, map_rawToAscii_digits]; simp
      · have hbig : 2 ^ (2 * W) ≤ n := by omega
        have hn0 : n ≠ 0 := by have := Nat.two_pow_pos (2 * W); omega
        obtain ⟨hnorm, _⟩ := norm_wordsOf W n hW1 hn0
        have hv := val_wordsOf W n hW1
        obtain ⟨e, hlo, hhi, h2k, eq⟩ := doubleEndLarge_eq W est hW hev (wordsOf W n)
          (isWords_wordsOf W n hW1) hnorm (by rw [hv]; exact hbig) (by rw [hv]; exact hest hbig)
        rw [hv] at hlo hhi eq
        rw [if_neg h1, if_neg h2, eq]
        obtain ⟨hl, htake, hdrop⟩ := digits_head_tail n e (radixInfo W 10).dpw (by omega) hlo hhi
        have hq : n / 10 ^ (e + 1 - (radixInfo W 10).dpw) < 10 ^ (radixInfo W 10).dpw := by
          rw [Nat.div_lt_iff_lt_mul (Nat.pow_pos (by omega)), ← Nat.pow_add]
          have : (radixInfo W 10).dpw + (e + 1 - (radixInfo W 10).dpw) = e + 1 := by omega
          rw [this]; exact hhi
        have hm : n % 10 ^ (radixInfo W 10).dpw < 10 ^ (radixInfo W 10).dpw :=
          Nat.mod_lt _ (Nat.pow_pos (by omega))
        refine ⟨_, _, _, rfl, ?_, ?_⟩
        · simp [printSpec, hn0, hl]
        · rw [if_neg h2, preparedWord_pad (by omega) _ _ hq, preparedWord_pad (by omega) _ _ hm,
            ← htake, ← hdrop]
          simp only [printSpec, List.map_take, List.map_drop, List.length_map]
          have hf : ∀ l : List Nat, (∀ d ∈ l, d < 10) →
              l.map (rawToAscii .noLetters) = l.map (digitChar false) := by
            intro l hl'
            apply List.map_congr_left
            intro d hd
            exact rawToAscii_eq .noLetters false d (Or.inl ⟨rfl, hl' d hd⟩)
          have hdl := digits_lt (r := 10) (by omega) n
          rw [← List.map_take, ← List.map_drop,
            hf _ (fun d hd => hdl d (List.mem_of_mem_take hd)),
            hf _ (fun d hd => hdl d (List.mem_of_mem_drop hd))]
          simp [List.map_take, List.map_drop]
  obtain ⟨hi, lo, nd, e1, e2, e3⟩ := key
  simp only [e1, writeUsizeDecimals_eq]
  rw [e2]
  cases lo with
  | none => simp only [List.append_nil] at e3 ⊢; rw [e3]
  | some l => simp only at e3 ⊢; rw [e3]

end Dashu.Model.Text
