import Dashu.Proofs.Text.Float
import Dashu.Proofs.Float.Div
/-
  C08 — `Context::convert_base`, small negative exponent: the value `signif / B^(−exp)` is divided out
  in the target base, by `repr_div` (C03's contract) or — when the quotient is longer than the
  precision — by the single-rounding path of fix bd48ef9 (`divRoundLong`), proved here.
-/
namespace Dashu.Model.Text
open Dashu.Model.Float Dashu.Props.GenRound

theorem natAbs_pow_le_of_digits (B : Nat) (hB : 2 ≤ B) (v : Int) (hv : v ≠ 0) :
    B ^ (digitsI B v - 1) ≤ v.natAbs ∧ v.natAbs < B ^ digitsI B v ∧ 0 < digitsI B v :=
  ⟨(digitsI_lower B hB v hv).1, digitsI_upper B hB v, (digitsI_lower B hB v hv).2⟩

/-- a number with at least `B^k` in magnitude has more than `k` digits -/
theorem digitsI_gt_of_pow_le (B : Nat) (hB : 2 ≤ B) (v : Int) (k : Nat) (h : B ^ k ≤ v.natAbs) :
    k < digitsI B v := by
  by_contra hc
  have hle : digitsI B v ≤ k := by omega
  have h1 := digitsI_upper B hB v
  have h2 : B ^ digitsI B v ≤ B ^ k := Nat.pow_le_pow_right (by omega) hle
  omega

theorem ulp_chain (a q b hi P K : Int) (h1 : |q| * b ≤ |a|) (h2 : |hi| * P ≤ |q|) (h3 : K ≤ |hi|)
    (hb : 0 < b) (hP : 0 < P) : b * P * K ≤ |a| := by
  have e1 : b * P * K ≤ b * P * |hi| := mul_le_mul_of_nonneg_left h3 (le_of_lt (mul_pos hb hP))
  have e2 : (|hi| * P) * b ≤ |q| * b := mul_le_mul_of_nonneg_right h2 (le_of_lt hb)
  have e3 : b * P * |hi| = (|hi| * P) * b := by ring
  linarith

theorem split_abs_le (q hi lo P : Int) (hs : q = hi * P + lo)
    (hpos : 0 ≤ q → 0 ≤ lo ∧ 0 ≤ hi) (hneg : q ≤ 0 → lo ≤ 0 ∧ hi ≤ 0) : |hi| * P ≤ |q| := by
  rcases le_total 0 q with h | h
  · obtain ⟨h2, h1⟩ := hpos h
    rw [abs_of_nonneg h, abs_of_nonneg h1]; linarith
  · obtain ⟨h2, h1⟩ := hneg h
    rw [abs_of_nonpos h, abs_of_nonpos h1]
    have : -q = -hi * P + -lo := by rw [hs]; ring
    linarith

/-- **the long-dividend path of `convert_base` honours the rounding contract**: the integer quotient
    is split at `digits(q) − p`, the tail and the division remainder together are the fraction handed
    to `round_ratio` — one rounding of the exact quotient -/
theorem divRoundLong_contract (NB : Nat) (hNB : 2 ≤ NB) (m : Mode) (p : Nat) (hp : 1 ≤ p) (num den : FRepr)
    (hd : 0 < den.signif) (hlong : num.digits NB > p + den.digits NB) :
    Contract NB m p (num.toRat NB / den.toRat NB) ((divRoundLong NB m p num den).1.toRat NB)
      (divRoundLong NB m p num den).2 := by
  have hB0 : 0 < NB := by omega
  have hdne : den.signif ≠ 0 := by omega
  have hbq : (den.signif : ℚ) ≠ 0 := by exact_mod_cast hdne
  unfold FRepr.digits at hlong
  -- the operands
  have ha0 : num.signif ≠ 0 := by
    intro h; rw [h] at hlong; simp [digitsI, digits_zero] at hlong
  obtain ⟨halo, _, _⟩ := natAbs_pow_le_of_digits NB hNB num.signif ha0
  obtain ⟨_, hbhi, hdb0⟩ := natAbs_pow_le_of_digits NB hNB den.signif hdne
  obtain ⟨hdec, hrlt⟩ := tdiv_tmod_nz num.signif den.signif hdne
  have hqb := natAbs_tdiv_mul_le num.signif den.signif
  rw [toRat_div NB hB0 num den hdne]
  unfold divRoundLong
  dsimp only
  generalize hq : Int.tdiv num.signif den.signif = q at *
  generalize hr : Int.tmod num.signif den.signif = r at *
  -- the quotient has more than `p` digits
  have hbabs : (den.signif.natAbs : Int) = den.signif := Int.natAbs_of_nonneg (by omega)
  have hqbig : NB ^ p ≤ q.natAbs := by
    -- |a| ≥ NB^(da−1) ≥ NB^(p + db) > NB^p · b, and |a| < (|q| + 1)·b
    have h1 : NB ^ (p + digitsI NB den.signif) ≤ num.signif.natAbs :=
      le_trans (Nat.pow_le_pow_right hB0 (by omega)) halo
    have h2 : num.signif.natAbs < (q.natAbs + 1) * den.signif.natAbs := by
      have hr' : r.natAbs < den.signif.natAbs := by
        have h := hrlt
        rw [Int.abs_eq_natAbs, Int.abs_eq_natAbs] at h
        exact_mod_cast h
      have : num.signif.natAbs ≤ q.natAbs * den.signif.natAbs + r.natAbs := by
        have := congrArg Int.natAbs hdec
        rw [this]
        calc (q * den.signif + r).natAbs ≤ (q * den.signif).natAbs + r.natAbs := Int.natAbs_add_le _ _
          _ = q.natAbs * den.signif.natAbs + r.natAbs := by rw [Int.natAbs_mul]
      nlinarith
    rw [pow_add] at h1
    by_contra hc
    have hc' : q.natAbs + 1 ≤ NB ^ p := by omega
    have h3 : (q.natAbs + 1) * den.signif.natAbs ≤ NB ^ p * NB ^ digitsI NB den.signif :=
      Nat.mul_le_mul hc' (le_of_lt hbhi)
    exact absurd (lt_of_lt_of_le h2 h3) (not_lt.mpr h1)
  have hdq : p < digitsI NB q := digitsI_gt_of_pow_le NB hNB q p hqbig
  have hq0 : q ≠ 0 := by intro h; rw [h] at hqbig; simp at hqbig; have := Nat.pow_pos hB0 (n := p); omega
  obtain ⟨hqlo, _, _⟩ := natAbs_pow_le_of_digits NB hNB q hq0
  generalize hsh : digitsI NB q - p = shift at *
  have hsh1 : 1 ≤ shift := by omega
  obtain ⟨hsplit, hlolt, hpos, hneg⟩ := splitDigits_spec NB hNB q shift
  generalize splitDigits NB q shift = hl at *
  have hPpos : (0 : Int) < ((NB ^ shift : Nat) : Int) := by
    have : 0 < NB ^ shift := Nat.pow_pos hB0
    exact_mod_cast this
  have hscale : (0 : Int) < den.signif * ((NB ^ shift : Nat) : Int) := Int.mul_pos hd hPpos
  -- a = hi·scale + rem
  have hX : num.signif = hl.1 * (den.signif * ((NB ^ shift : Nat) : Int)) + (hl.2 * den.signif + r) := by
    rw [hdec, hsplit]; ring
  -- |rem| < scale
  have hremlt : |hl.2 * den.signif + r| < den.signif * ((NB ^ shift : Nat) : Int) := by
    have h1 : |hl.2 * den.signif + r| ≤ |hl.2| * den.signif + |r| := by
      calc |hl.2 * den.signif + r| ≤ |hl.2 * den.signif| + |r| := abs_add_le _ _
        _ = |hl.2| * den.signif + |r| := by rw [abs_mul, abs_of_pos hd]
    have h2 : |r| < den.signif := by rw [abs_of_pos hd] at hrlt; exact hrlt
    have h3 : |hl.2| + 1 ≤ ((NB ^ shift : Nat) : Int) := by omega
    nlinarith
  -- |hi| ≥ NB^(p−1)
  have hhi : ((NB ^ (p - 1) : Nat) : Int) ≤ |hl.1| := by
    -- |q| = |hi|·P + |lo| with |lo| < P and |q| ≥ NB^(dq−1) = NB^(p−1)·P
    have hqabs : |q| = |hl.1| * ((NB ^ shift : Nat) : Int) + |hl.2| := by
      rcases le_total 0 q with h | h
      · obtain ⟨h2, h1⟩ := hpos h
        rw [abs_of_nonneg h, abs_of_nonneg h1, abs_of_nonneg h2]; exact hsplit
      · obtain ⟨h2, h1⟩ := hneg h
        rw [abs_of_nonpos h, abs_of_nonpos h1, abs_of_nonpos h2, hsplit]; ring
    have hqlo' : ((NB ^ (p - 1) : Nat) : Int) * ((NB ^ shift : Nat) : Int) ≤ |q| := by
      have e : NB ^ (digitsI NB q - 1) = NB ^ (p - 1) * NB ^ shift := by
        rw [← pow_add]; congr 1; omega
      rw [e] at hqlo
      have : ((NB ^ (p - 1) * NB ^ shift : Nat) : Int) ≤ (q.natAbs : Int) := by exact_mod_cast hqlo
      rw [Int.natCast_natAbs] at this
      push_cast at this ⊢
      exact this
    by_contra hc
    have hc' : |hl.1| + 1 ≤ ((NB ^ (p - 1) : Nat) : Int) := by omega
    nlinarith
  -- the exponent
  have hshiftq : bpowQ NB (num.exp - den.exp) * ((NB ^ shift : Nat) : ℚ) = bpowQ NB (num.exp - den.exp + shift) := by
    rw [bpowQ_add NB hB0, bpowQ_nat]
  have hEpos : (0 : ℚ) < bpowQ NB (num.exp - den.exp + shift) := bpowQ_pos NB hB0 _
  have hscq : ((den.signif * ((NB ^ shift : Nat) : Int) : Int) : ℚ) ≠ 0 := by
    have := ne_of_gt hscale; exact_mod_cast this
  by_cases hrem0 : hl.2 * den.signif + r = 0
  · simp only [hrem0, if_true]
    rw [FRepr.new_value NB hB0]
    have : (num.signif : ℚ) / (den.signif : ℚ) * bpowQ NB (num.exp - den.exp) =
        (hl.1 : ℚ) * bpowQ NB (num.exp - den.exp + shift) := by
      rw [← hshiftq]
      have hXq : (num.signif : ℚ) = (hl.1 : ℚ) * ((den.signif : ℚ) * ((NB ^ shift : Nat) : ℚ)) := by
        have := hX; rw [hrem0, add_zero] at this; exact_mod_cast this
      rw [hXq]; field_simp
    rw [this]
    exact contract_exact NB m p _
  · simp only [hrem0, if_false]
    have hspec := roundRatio_spec m hl.1 (hl.2 * den.signif + r) (den.signif * ((NB ^ shift : Nat) : Int))
      (ne_of_gt hscale) hrem0 (by rw [abs_of_pos hscale]; exact hremlt)
    rw [abs_of_pos hscale, Int.sign_eq_one_of_pos hscale, mul_one] at hspec
    have hic := icontract_of_spec m hl.1 (hl.2 * den.signif + r) _ hscale hrem0 hremlt _ hspec
    rw [← hX] at hic
    -- ulp condition
    have hulp : den.signif * ((NB ^ shift : Nat) : Int) * ((NB ^ (p - 1) : Nat) : Int) ≤ |num.signif| := by
      have h1 : |q| * den.signif ≤ |num.signif| := by
        have : ((q.natAbs * den.signif.natAbs : Nat) : Int) ≤ (num.signif.natAbs : Int) := by exact_mod_cast hqb
        push_cast at this
        rw [abs_of_pos hd] at this
        exact this
      have hqabs : |hl.1| * ((NB ^ shift : Nat) : Int) ≤ |q| := split_abs_le q hl.1 hl.2 _ hsplit hpos hneg
      exact ulp_chain num.signif q den.signif hl.1 _ _ h1 hqabs hhi hd hPpos
    -- shrink the terms
    have hEq : (num.signif : ℚ) / (den.signif : ℚ) * bpowQ NB (num.exp - den.exp) =
        (num.signif : ℚ) * (bpowQ NB (num.exp - den.exp + shift) /
          ((den.signif * ((NB ^ shift : Nat) : Int) : Int) : ℚ)) := by
      rw [← hshiftq]
      have hP : ((NB ^ shift : Nat) : ℚ) ≠ 0 := by
        have : (NB : ℚ) ≠ 0 := by exact_mod_cast (by omega : NB ≠ 0)
        push_cast; exact pow_ne_zero _ this
      push_cast
      field_simp
    rw [hEq]
    generalize den.signif * ((NB ^ shift : Nat) : Int) = S at *
    generalize num.exp - den.exp + (shift : Int) = ee at *
    generalize hl.2 * den.signif + r = rem at *
    have hSq : (S : ℚ) ≠ 0 := hscq
    have hSpos : (0 : ℚ) < (S : ℚ) := by exact_mod_cast hscale
    have hu : (0 : ℚ) < bpowQ NB ee / (S : ℚ) := div_pos hEpos hSpos
    have hunit : (S : ℚ) * (bpowQ NB ee / (S : ℚ)) = bpowQ NB ee := by field_simp
    have key := contract_of_icontract' NB hNB m p hp S _ _ hscale _ (bpowQ NB ee / (S : ℚ)) hu ee hunit hic ⟨_, rfl⟩ hulp
    have hv2 : (((hl.1 + rInt (roundRatio m hl.1 rem S)) * S : Int) : ℚ) * (bpowQ NB ee / (S : ℚ)) =
        ((hl.1 + rInt (roundRatio m hl.1 rem S) : Int) : ℚ) * bpowQ NB ee := by
      push_cast
      field_simp
    rw [hv2] at key
    rw [FRepr.new_value NB hB0]
    exact key

end Dashu.Model.Text

namespace Dashu.Model.Text
open Dashu.Model.Float

theorem new_signif_pos (NB : Nat) (hNB : 2 ≤ NB) (s e : Int) (hs : 0 < s) : 0 < (FRepr.new NB s e).signif := by
  have hv := FRepr.new_value NB (by omega) s e
  unfold FRepr.toRat at hv
  have h1 : (0 : ℚ) < (s : ℚ) * bpowQ NB e := mul_pos (by exact_mod_cast hs) (bpowQ_pos NB (by omega) e)
  rw [← hv] at h1
  have h2 := bpowQ_pos NB (by omega) (FRepr.new NB s e).exp
  have : (0 : ℚ) < ((FRepr.new NB s e).signif : ℚ) := by
    by_contra hc
    have : ((FRepr.new NB s e).signif : ℚ) ≤ 0 := not_lt.mp hc
    nlinarith
  exact_mod_cast this

/-- the quotient handed to the division branch is the exact value -/
theorem small_neg_value (B NB : Nat) (hB : 2 ≤ B) (hNB : 2 ≤ NB) (r : FRepr) (he : r.exp < 0) :
    (FRepr.new NB r.signif 0).toRat NB / (FRepr.new NB ((B ^ (-r.exp).toNat : Nat) : Int) 0).toRat NB =
      r.toRat B := by
  rw [FRepr.new_value NB (by omega), FRepr.new_value NB (by omega)]
  unfold FRepr.toRat
  have h0 : bpowQ NB 0 = 1 := by simp [bpowQ]
  rw [h0, mul_one, mul_one]
  have hk : r.exp = -(((-r.exp).toNat : Nat) : Int) := by omega
  conv_rhs => rw [hk]
  generalize (-r.exp).toNat = k
  rw [bpowQ_eq_zpow, zpow_neg, zpow_natCast]
  push_cast
  rw [div_eq_mul_inv]

/-- **every exact-evaluation branch of `Context::convert_base` meets the rounding contract**: whenever
    the conversion does not go through `ln`/`exp` (same base; one base a power of the other; exponent
    magnitude within the regenerated threshold — multiplication for `exp ≥ 0`, division by `repr_div`
    or the long-dividend path for `exp < 0`), the result is the exact value `signif · B^exp` rounded to
    `p` digits of the new base: exact iff representable (truthful flag), otherwise less than one ulp
    (half an ulp for the nearest modes) on the mode's side -/
theorem convertBase_contract (W B NB : Nat) (hB : 2 ≤ B) (hNB : 2 ≤ NB) (m : Mode) (p : Nat) (hp : 1 ≤ p)
    (r : FRepr) (res : Rounded FRepr) (h : convertBase W B NB m p r = .ok res) :
    Contract NB m p (r.toRat B) (res.1.toRat NB) res.2 := by
  unfold convertBase at h
  by_cases hsame : NB = B
  · simp only [hsame, if_true, ConvResult.ok.injEq] at h
    subst hsame; subst h
    exact round_new_contract NB hNB m p hp r.signif r.exp
  · simp only [hsame, if_false] at h
    by_cases hup : (if NB > B then ilogExact NB B else 0) > 1
    · simp only [hup, if_true, ConvResult.ok.injEq] at h
      have hgt : NB > B := by
        by_contra hc; simp [hc] at hup
      simp only [hgt, if_true] at hup h
      have hpow := ilogExact_spec NB B _ rfl (by omega)
      subst h
      have hc := round_new_contract NB hNB m p hp
        (r.signif * ((B ^ (r.exp % (ilogExact NB B : Int)).toNat : Nat) : Int)) (r.exp / (ilogExact NB B : Int))
      have hv := value_pow_up B (ilogExact NB B) (by omega) (by omega) r.signif r.exp
      rw [← hpow] at hv
      rw [hv] at hc
      exact hc
    · simp only [hup, if_false] at h
      by_cases hdown : (if NB > B then 0 else ilogExact B NB) > 1
      · simp only [hdown, if_true, ConvResult.ok.injEq] at h
        have hle : ¬ NB > B := by
          intro hc; simp [hc] at hdown
        simp only [hle, if_false] at hdown h
        have hpow := ilogExact_spec B NB _ rfl (by omega)
        subst h
        have hc := round_new_contract NB hNB m p hp r.signif (r.exp * ((ilogExact B NB : Nat) : Int))
        rw [value_pow_down NB (ilogExact B NB) r.signif r.exp, ← hpow] at hc
        exact hc
      · simp only [hdown, if_false] at h
        have hp0 : p ≠ 0 := by omega
        simp only [hp0, if_false] at h
        by_cases hsmall : r.exp.natAbs ≤ (thresholdSmallExp W).toNat
        · simp only [hsmall, if_true] at h
          by_cases hnn : r.exp ≥ 0
          · simp only [hnn, if_true, ConvResult.ok.injEq] at h
            subst h
            have hc := round_new_contract NB hNB m p hp (r.signif * ((B ^ r.exp.toNat : Nat) : Int)) 0
            rw [value_small_pos B NB r.signif r.exp.toNat, Int.toNat_of_nonneg hnn] at hc
            exact hc
          · simp only [hnn, if_false] at h
            have he : r.exp < 0 := by omega
            have hval := small_neg_value B NB hB hNB r he
            have hdpos : 0 < (FRepr.new NB ((B ^ (-r.exp).toNat : Nat) : Int) 0).signif := by
              apply new_signif_pos NB hNB
              have : 0 < B ^ (-r.exp).toNat := Nat.pow_pos (by omega)
              exact_mod_cast this
            by_cases hlong : (FRepr.new NB r.signif 0).digits NB > p + (FRepr.new NB ((B ^ (-r.exp).toNat : Nat) : Int) 0).digits NB
            · simp only [hlong, if_true, ConvResult.ok.injEq] at h
              subst h
              rw [← hval]
              exact divRoundLong_contract NB hNB m p hp _ _ hdpos hlong
            · simp only [hlong, if_false] at h
              obtain ⟨r', hr', hc⟩ := reprDiv_contract NB hNB m p hp (FRepr.new NB r.signif 0)
                (FRepr.new NB ((B ^ (-r.exp).toNat : Nat) : Int) 0) (by omega)
              rw [hr'] at h
              simp only [ConvResult.ok.injEq] at h
              subst h
              rw [← hval]
              exact hc
        · simp only [hsmall, if_false] at h
          cases h

end Dashu.Model.Text
