import Dashu.Proofs.Text.FloatPrec
/-
  C08 — width / fill / alignment / zero padding of the float printers never changes the sign, the
  digits, the point or the scale part; zero-padded (and unpadded) `Display` text parses back to the
  same value.
-/
namespace Dashu.Model.Text
open Dashu.Model.Float

/-- sign text of the float printers -/
def fSign (plus : Bool) (r : FRepr) : List Nat := if r.signif < 0 then [45] else if plus then [43] else []

/-- the padding amounts `fmt_round` computes (left, right) -/
def fmtRoundPads (B : Nat) (m : Mode) (f : FmtSpec) (prec : Option Nat) (r : FRepr) : Nat × Nat :=
  let negative := r.signif < 0
  let se : Int × Int := match prec with
    | some p =>
      let diff : Int := (p : Int) + r.exp
      if diff < 0 then
        let shift := (-diff).toNat
        let hl := splitDigits B r.signif shift
        let adj := roundFract B m coarseNone hl.1 hl.2 shift
        (hl.1 + rInt adj, r.exp - diff)
      else (r.signif, r.exp)
    | none => (r.signif, r.exp)
  let signif := se.1
  let exp := se.2
  let full := printSpecInt B false signif
  let signifStr := if negative then full.drop 1 else full
  let len : Int := signifStr.length
  let pads : Nat × Nat := match f.width with
    | none => (0, 0)
    | some minWidth =>
      let leadingZeros := (-(min (exp + len - 1) 0)).toNat
      let trailing0 := (max exp 0).toNat
      let trailingZeros := match prec with
        | some p => let d : Int := (p : Int) + min exp 0; if d > 0 then trailing0 + d.toNat else trailing0
        | none => trailing0
      let signifDigits := if leadingZeros = 0 then max signifStr.length 1 else signifStr.length
      let hasSign := if negative || f.plus then 1 else 0
      let hasPoint : Nat :=
        if exp ≥ 0 then (if prec.getD 0 > 0 then 1 else 0)
        else (if prec ≠ some 0 then 1 else 0)
      let width := signifDigits + hasSign + hasPoint + leadingZeros + trailingZeros
      if width ≥ minWidth then (0, 0)
      else if f.zero then (minWidth - width, 0)
      else match f.align with
        | some .left => (0, minWidth - width)
        | some .right | none => (minWidth - width, 0)
        | some .center => let d := minWidth - width; (d / 2, d - d / 2)
  pads

/-- digits, point and zeros of `fmt_round`: independent of the formatter's width, fill, alignment and flags -/
def fmtRoundCore (B : Nat) (m : Mode) (prec : Option Nat) (r : FRepr) : List Nat :=
  let negative := r.signif < 0
  let se : Int × Int := match prec with
    | some p =>
      let diff : Int := (p : Int) + r.exp
      if diff < 0 then
        let shift := (-diff).toNat
        let hl := splitDigits B r.signif shift
        let adj := roundFract B m coarseNone hl.1 hl.2 shift
        (hl.1 + rInt adj, r.exp - diff)
      else (r.signif, r.exp)
    | none => (r.signif, r.exp)
  let signif := se.1
  let exp := se.2
  let full := printSpecInt B false signif
  let signifStr := if negative then full.drop 1 else full
  let len : Int := signifStr.length
  let body : List Nat :=
    if exp < 0 then
      let e := (-exp).toNat
      let cut := signifStr.length - e
      let int := signifStr.take cut
      let fract := signifStr.drop cut
      let fd := fract.length
      let intOut := if int = [] then [48] else int
      match prec with
      | some p =>
        if p ≠ 0 then
          if e ≥ p then intOut ++ [46] ++ rep (p - fd) [48] ++ fract
          else intOut ++ [46] ++ rep (e - fd) [48] ++ fract ++ rep (p - e) [48]
        else intOut
      | none =>
        if fd > 0 then intOut ++ [46] ++ rep (e - fd) [48] ++ fract else intOut
    else
      (if signifStr = [] then [48] else signifStr) ++ rep exp.toNat [48] ++
        (match prec with
         | some p => if p > 0 then [46] ++ rep p [48] else []
         | none => [])
  body

theorem fmtRound_eq_parts (B : Nat) (m : Mode) (f : FmtSpec) (prec : Option Nat) (r : FRepr) :
    fmtRound B m f prec r =
      ((if !f.zero then rep (fmtRoundPads B m f prec r).1 f.fill else []) ++ fSign f.plus r ++
        (if f.zero then rep (fmtRoundPads B m f prec r).1 [48] else [])) ++ fmtRoundCore B m prec r ++
      rep (fmtRoundPads B m f prec r).2 f.fill := by
  unfold fmtRound fmtRoundPads fmtRoundCore fSign
  rfl

theorem fmtRoundPads_none (B : Nat) (m : Mode) (f : FmtSpec) (prec : Option Nat) (r : FRepr)
    (h : f.width = none) : fmtRoundPads B m f prec r = (0, 0) := by
  unfold fmtRoundPads; simp only [h]

theorem ite_snd_zero (c : Prop) [Decidable c] (x : Nat) : (if c then ((0 : Nat), (0 : Nat)) else (x, 0)).2 = 0 := by
  split <;> rfl

theorem fmtRoundPads_zero (B : Nat) (m : Mode) (f : FmtSpec) (prec : Option Nat) (r : FRepr)
    (h : f.zero = true) : (fmtRoundPads B m f prec r).2 = 0 := by
  unfold fmtRoundPads
  simp only [h, if_true]
  cases f.width with
  | none => rfl
  | some w =>
    exact ite_snd_zero _ _

theorem rep_zero (s : List Nat) : rep 0 s = [] := rfl

/-- **padding never changes the digits** (`Display`, with or without a precision): for every
    formatter state the text is `fill^a ++ sign ++ '0'^b ++ core ++ fill^c` where `core` (digits, point,
    zeros) does not depend on width, fill, alignment, `+` or the zero flag; no width — no padding; the
    zero flag only inserts zeros after the sign; without it only fill characters are added outside -/
theorem fmtRound_padding (B : Nat) (m : Mode) (f : FmtSpec) (prec : Option Nat) (r : FRepr) :
    ∃ a b c : Nat,
      fmtRound B m f prec r =
        rep a f.fill ++ fSign f.plus r ++ rep b [48] ++ fmtRoundCore B m prec r ++ rep c f.fill ∧
      (f.width = none → a = 0 ∧ b = 0 ∧ c = 0) ∧ (f.zero = true → a = 0 ∧ c = 0) ∧
      (f.zero = false → b = 0) := by
  rw [fmtRound_eq_parts]
  cases hz : f.zero with
  | true =>
    refine ⟨0, (fmtRoundPads B m f prec r).1, 0, ?_, ?_, fun _ => ⟨rfl, rfl⟩, fun h => Bool.noConfusion h⟩
    · rw [fmtRoundPads_zero B m f prec r hz]
      simp [rep_zero]
    · intro hw; rw [fmtRoundPads_none B m f prec r hw]; exact ⟨rfl, rfl, rfl⟩
  | false =>
    refine ⟨(fmtRoundPads B m f prec r).1, 0, (fmtRoundPads B m f prec r).2, ?_, ?_, fun h => Bool.noConfusion h,
      fun _ => rfl⟩
    · simp [rep_zero]
    · intro hw; rw [fmtRoundPads_none B m f prec r hw]; exact ⟨rfl, rfl, rfl⟩

/-- the unpadded text is sign ++ core -/
theorem fmtRound_plain (B : Nat) (m : Mode) (pl : Bool) (prec : Option Nat) (r : FRepr) :
    fmtRound B m { plus := pl } prec r = fSign pl r ++ fmtRoundCore B m prec r := by
  rw [fmtRound_eq_parts, fmtRoundPads_none B m _ prec r rfl]
  simp [rep_zero]

/-- the sign of a rendered literal -/
def fSignOpt (plus : Bool) (r : FRepr) : Option Bool :=
  if r.signif < 0 then some true else if plus then some false else none

theorem signChars_fSignOpt (plus : Bool) (r : FRepr) : signChars (fSignOpt plus r) = fSign plus r := by
  unfold fSignOpt fSign
  by_cases h : r.signif < 0
  · simp [h, signChars]
  · cases plus <;> simp [h, signChars]

/-- a literal core (digits + optional fraction) printed behind sign and zero padding is a literal
    with the zeros prepended to the integer digits -/
theorem fmtRound_zero_literal (B : Nat) (m : Mode) (f : FmtSpec) (prec : Option Nat) (r : FRepr)
    (hf : f.zero = true ∨ f.width = none) (di : List Nat) (frac : Option (List Nat))
    (hcore : fmtRoundCore B m prec r = chars false di ++ fracChars false frac) :
    ∃ b : Nat, fmtRound B m f prec r =
      renderLiteral false (fSignOpt f.plus r) (List.replicate b 0 ++ di) frac none := by
  obtain ⟨a, b, c, htext, hnone, hzero, _⟩ := fmtRound_padding B m f prec r
  have hac : a = 0 ∧ c = 0 := by
    rcases hf with h | h
    · exact hzero h
    · exact ⟨(hnone h).1, (hnone h).2.2⟩
  refine ⟨b, ?_⟩
  rw [htext, hac.1, hac.2, hcore]
  unfold renderLiteral scaleChars
  rw [signChars_fSignOpt, rep_zero_chars false, chars_append]
  simp [rep_zero]

/-- the core of `Display` without a precision, as digit lists -/
theorem fmtRoundCore_none (B : Nat) (hB : 2 ≤ B) (m : Mode) (r : FRepr) :
    ∃ (di : List Nat) (frac : Option (List Nat)),
      fmtRoundCore B m none r = chars false di ++ fracChars false frac ∧
      (∀ d ∈ di, d < B) ∧ (∀ d ∈ frac.getD [], d < B) ∧ (di ≠ [] ∨ frac.getD [] ≠ []) ∧
      (ofDigits B (di ++ frac.getD []) : ℚ) * bpowQ B (0 - ((frac.getD []).length : Int)) =
        (r.signif.natAbs : ℚ) * bpowQ B r.exp := by
  obtain ⟨di, frac, htext, h1, h2, h3, h4⟩ := display_is_literal B hB m r
  refine ⟨di, frac, ?_, h1, h2, h3, h4⟩
  have hp := fmtRound_plain B m false none r
  have : ({ plus := false } : FmtSpec) = {} := rfl
  rw [this, htext] at hp
  unfold renderLiteral scaleChars at hp
  have hs : signChars (if r.signif < 0 then some true else none) = fSign false r := by
    have := signChars_fSignOpt false r
    unfold fSignOpt at this
    simpa using this
  rw [hs, List.append_nil] at hp
  exact (List.append_cancel_left hp).symm

/-- the core of `Display` with precision `p`, as digit lists -/
theorem fmtRoundCore_some (B : Nat) (hB : 2 ≤ B) (m : Mode) (p : Nat) (r : FRepr) :
    ∃ (di : List Nat) (frac : Option (List Nat)),
      fmtRoundCore B m (some p) r = chars false di ++ fracChars false frac ∧
      (∀ d ∈ di, d < B) ∧ (∀ d ∈ frac.getD [], d < B) ∧ di ≠ [] ∧ (frac.getD []).length = p ∧
      (ofDigits B (di ++ frac.getD []) : ℚ) * bpowQ B (0 - (p : Int)) =
        ((precRounded B m p r).natAbs : ℚ) * bpowQ B (0 - (p : Int)) := by
  obtain ⟨di, frac, htext, h1, h2, h3, h4, _, h6⟩ := display_prec_literal B hB m p r
  refine ⟨di, frac, ?_, h1, h2, h3, h4, h6⟩
  have hp := fmtRound_plain B m false (some p) r
  have : ({ plus := false } : FmtSpec) = {} := rfl
  rw [this, htext] at hp
  unfold renderLiteral scaleChars at hp
  have hs : signChars (if r.signif < 0 then some true else none) = fSign false r := by
    have := signChars_fSignOpt false r
    unfold fSignOpt at this
    simpa using this
  rw [hs, List.append_nil] at hp
  exact (List.append_cancel_left hp).symm

theorem fSignOpt_true (plus : Bool) (r : FRepr) : (fSignOpt plus r = some true) ↔ r.signif < 0 := by
  unfold fSignOpt
  by_cases h : r.signif < 0
  · simp [h]
  · cases plus <;> simp [h]

/-- parsing a zero-padded literal: the value is `±(di ++ df) · B^(−|df|)` -/
theorem zero_literal_parse (W : Nat) (hW : 36 < 2 ^ W) (B : Nat) (hB : validRadix B = true)
    (sign : Option Bool) (b : Nat) (di : List Nat) (frac : Option (List Nat))
    (hdi : ∀ d ∈ di, d < B) (hdf : ∀ d ∈ frac.getD [], d < B) (hne : di ≠ [] ∨ frac.getD [] ≠ []) :
    ∃ (r' : FRepr) (n : Nat),
      fromStrNative W B (renderLiteral false sign (List.replicate b 0 ++ di) frac none) = .ok (r', n) ∧
      r'.toRat B = (if sign = some true then -1 else 1) * (ofDigits B (di ++ frac.getD []) : ℚ) *
        bpowQ B (0 - ((frac.getD []).length : Int)) := by
  have hr := validRadix_iff.mp hB
  have hdi' : ∀ d ∈ List.replicate b 0 ++ di, d < B := by
    intro d hd
    rcases List.mem_append.mp hd with h | h
    · have := List.eq_of_mem_replicate h; omega
    · exact hdi d h
  have hne' : List.replicate b 0 ++ di ≠ [] ∨ frac.getD [] ≠ [] := by
    rcases hne with h | h
    · left; intro h0; exact h (List.append_eq_nil_iff.mp h0).2
    · exact Or.inr h
  obtain ⟨r', hparse, hv⟩ := literal_exact W hW B hB false sign _ frac none hdi' hdf hne'
    (by intro z h; cases h)
  refine ⟨r', _, hparse, ?_⟩
  rw [hv, List.append_assoc, ofDigits_replicate_zero_append]
  simp only [Option.getD_none]

/-- **padded `Display` text parses back to the same value**: without a width, or with the zero flag
    (any width, with or without `+`), what `Display` prints parses to exactly the printed float -/
theorem display_padded_parse (W : Nat) (hW : 36 < 2 ^ W) (B : Nat) (hB : validRadix B = true)
    (m : Mode) (f : FmtSpec) (hf : f.zero = true ∨ f.width = none) (r : FRepr) :
    ∃ (r' : FRepr) (n : Nat), fromStrNative W B (fmtRound B m f none r) = .ok (r', n) ∧
      r'.toRat B = r.toRat B := by
  have hr := validRadix_iff.mp hB
  obtain ⟨di, frac, hcore, hdi, hdf, hne, hval⟩ := fmtRoundCore_none B hr.1 m r
  obtain ⟨b, htext⟩ := fmtRound_zero_literal B m f none r hf di frac hcore
  obtain ⟨r', n, hparse, hv⟩ := zero_literal_parse W hW B hB (fSignOpt f.plus r) b di frac hdi hdf hne
  refine ⟨r', n, by rw [htext]; exact hparse, ?_⟩
  rw [hv, mul_assoc, hval]
  unfold FRepr.toRat
  by_cases h : r.signif < 0
  · have : ((r.signif.natAbs : Nat) : ℚ) = -(r.signif : ℚ) := by
      rw [Nat.cast_natAbs, Int.cast_abs]
      exact abs_of_neg (by exact_mod_cast h)
    simp [(fSignOpt_true f.plus r).mpr h, this]
  · have : ((r.signif.natAbs : Nat) : ℚ) = (r.signif : ℚ) := by
      rw [Nat.cast_natAbs, Int.cast_abs]
      exact abs_of_nonneg (by exact_mod_cast (by omega : 0 ≤ r.signif))
    have hs : ¬ fSignOpt f.plus r = some true := fun h' => h ((fSignOpt_true f.plus r).mp h')
    simp [hs, this]

/-- … and with a precision option: the padded text parses to exactly the rounded value `R · B^(−p)` -/
theorem display_prec_padded_parse (W : Nat) (hW : 36 < 2 ^ W) (B : Nat) (hB : validRadix B = true)
    (m : Mode) (f : FmtSpec) (hf : f.zero = true ∨ f.width = none) (p : Nat) (r : FRepr) :
    ∃ (r' : FRepr) (n : Nat), fromStrNative W B (fmtRound B m f (some p) r) = .ok (r', n) ∧
      r'.toRat B = (precRounded B m p r : ℚ) * bpowQ B (-(p : Int)) := by
  have hr := validRadix_iff.mp hB
  obtain ⟨di, frac, hcore, hdi, hdf, hne, hlen, hval⟩ := fmtRoundCore_some B hr.1 m p r
  obtain ⟨b, htext⟩ := fmtRound_zero_literal B m f (some p) r hf di frac hcore
  obtain ⟨r', n, hparse, hv⟩ :=
    zero_literal_parse W hW B hB (fSignOpt f.plus r) b di frac hdi hdf (Or.inl hne)
  refine ⟨r', n, by rw [htext]; exact hparse, ?_⟩
  rw [hv, hlen, mul_assoc, hval]
  obtain ⟨hs1, hs2⟩ := precRounded_sign B hr.1 m p r
  have e0 : (0 : Int) - (p : Int) = -(p : Int) := by omega
  rw [e0]
  by_cases h : r.signif < 0
  · have : (((precRounded B m p r).natAbs : Nat) : ℚ) = -((precRounded B m p r : Int) : ℚ) := by
      rw [Nat.cast_natAbs, Int.cast_abs]
      exact abs_of_nonpos (by exact_mod_cast hs1 h)
    simp [(fSignOpt_true f.plus r).mpr h, this]
  · have : (((precRounded B m p r).natAbs : Nat) : ℚ) = ((precRounded B m p r : Int) : ℚ) := by
      rw [Nat.cast_natAbs, Int.cast_abs]
      exact abs_of_nonneg (by exact_mod_cast hs2 (by omega))
    have hs : ¬ fSignOpt f.plus r = some true := fun h' => h ((fSignOpt_true f.plus r).mp h')
    simp [hs, this]

-- ---------------------------------------------------------------- scientific formats

/-- the padding amounts `fmt_round_scientific` computes (left, right) -/
def fmtSciPads (B : Nat) (m : Mode) (f : FmtSpec) (prec : Option Nat) (upper useHex : Bool) (r : FRepr) : Nat × Nat :=
  let negative := r.signif < 0
  let se : Int × Int := match prec with
    | some p0 =>
      let p : Int := if useHex then (p0 : Int) * 4 + 4 else (p0 : Int) + 1
      let diff : Int := p - (digitsI B r.signif : Int)
      if diff < 0 then
        let shift := (-diff).toNat
        let hl := splitDigits B r.signif shift
        let adj := roundFract B m coarseNone hl.1 hl.2 shift
        let s := hl.1 + rInt adj
        let e := r.exp - diff
        if (digitsI B s : Int) > p then (Int.tdiv s B, e + 1) else (s, e)
      else (r.signif, r.exp)
    | none => (r.signif, r.exp)
  let signif := se.1
  let exp := se.2
  let full := printSpecInt (if useHex then 16 else B) upper signif
  let signifStr := if negative then full.drop 1 else full
  let expAdjust : Int :=
    if useHex then exp + ((signifStr.length : Int) - 1) * 4 else exp + (signifStr.length : Int) - 1
  let expStr : List Nat := printSpecInt 10 false expAdjust
  let p := prec.getD 0
  let pads : Nat × Nat := match f.width with
    | none => (0, 0)
    | some minWidth =>
      let hasPoint := if signifStr.length > 1 ∨ p > 0 then 1 else 0
      let hasSign := if negative || f.plus then 1 else 0
      let trailingZeros := if p > signifStr.length - 1 then p - (signifStr.length - 1) else 0
      let width := signifStr.length + expStr.length + 1 + hasSign + hasPoint + (if useHex then 2 else 0) +
        trailingZeros
      if width ≥ minWidth then (0, 0)
      else match f.align with
        | some .left => (0, minWidth - width)
        | some .right | none => (minWidth - width, 0)
        | some .center => let d := minWidth - width; (d / 2, d - d / 2)
  pads

/-- first digit, point, digits, zeros, marker and exponent of `fmt_round_scientific`: independent of
    the formatter's width, fill, alignment, `+` and zero flag -/
def fmtSciCore (B : Nat) (m : Mode) (prec : Option Nat) (upper useHex : Bool) (marker : Nat) (r : FRepr) : List Nat :=
  let negative := r.signif < 0
  let se : Int × Int := match prec with
    | some p0 =>
      let p : Int := if useHex then (p0 : Int) * 4 + 4 else (p0 : Int) + 1
      let diff : Int := p - (digitsI B r.signif : Int)
      if diff < 0 then
        let shift := (-diff).toNat
        let hl := splitDigits B r.signif shift
        let adj := roundFract B m coarseNone hl.1 hl.2 shift
        let s := hl.1 + rInt adj
        let e := r.exp - diff
        if (digitsI B s : Int) > p then (Int.tdiv s B, e + 1) else (s, e)
      else (r.signif, r.exp)
    | none => (r.signif, r.exp)
  let signif := se.1
  let exp := se.2
  let full := printSpecInt (if useHex then 16 else B) upper signif
  let signifStr := if negative then full.drop 1 else full
  let expAdjust : Int :=
    if useHex then exp + ((signifStr.length : Int) - 1) * 4 else exp + (signifStr.length : Int) - 1
  let expStr : List Nat := printSpecInt 10 false expAdjust
  let p := prec.getD 0
  let int := signifStr.take 1
  let fract := signifStr.drop 1
  let body := int ++ (if fract ≠ [] then [46] ++ fract else []) ++
    (if p > 0 then (if fract = [] then [46] else []) ++ rep (p - fract.length) [48] else []) ++
    [marker] ++ expStr
  body

theorem fmtSciG_eq_parts (B : Nat) (m : Mode) (f : FmtSpec) (prec : Option Nat) (upper useHex : Bool)
    (marker : Nat) (r : FRepr) :
    fmtSciG B m f prec upper useHex marker r =
      ((if !f.zero then rep (fmtSciPads B m f prec upper useHex r).1 f.fill else []) ++ fSign f.plus r ++
        (if useHex then [48, 120] else []) ++
        (if f.zero then rep (fmtSciPads B m f prec upper useHex r).1 [48] else [])) ++
      fmtSciCore B m prec upper useHex marker r ++ rep (fmtSciPads B m f prec upper useHex r).2 f.fill := by
  unfold fmtSciG fmtSciPads fmtSciCore fSign
  rfl

theorem fmtSciPads_none (B : Nat) (m : Mode) (f : FmtSpec) (prec : Option Nat) (upper useHex : Bool) (r : FRepr)
    (h : f.width = none) : fmtSciPads B m f prec upper useHex r = (0, 0) := by
  unfold fmtSciPads; simp only [h]

/-- **padding never changes the digits** (`LowerExp`, `UpperExp`, `Binary`, `Octal`, `LowerHex`,
    `UpperHex`): the text is `fill^a ++ sign ++ [0x] ++ '0'^b ++ core ++ fill^c`, `core` (digits,
    point, zeros, marker, exponent) independent of width, fill, alignment, `+` and the zero flag;
    without a width there is no padding -/
theorem fmtSciG_padding (B : Nat) (m : Mode) (f : FmtSpec) (prec : Option Nat) (upper useHex : Bool)
    (marker : Nat) (r : FRepr) :
    ∃ a b c : Nat,
      fmtSciG B m f prec upper useHex marker r =
        rep a f.fill ++ fSign f.plus r ++ (if useHex then [48, 120] else []) ++ rep b [48] ++
          fmtSciCore B m prec upper useHex marker r ++ rep c f.fill ∧
      (f.width = none → a = 0 ∧ b = 0 ∧ c = 0) ∧ (f.zero = true → a = 0) ∧ (f.zero = false → b = 0) := by
  rw [fmtSciG_eq_parts]
  cases hz : f.zero with
  | true =>
    refine ⟨0, (fmtSciPads B m f prec upper useHex r).1, (fmtSciPads B m f prec upper useHex r).2, ?_, ?_,
      fun _ => rfl, fun h => Bool.noConfusion h⟩
    · simp [rep_zero]
    · intro hw; rw [fmtSciPads_none B m f prec upper useHex r hw]; exact ⟨rfl, rfl, rfl⟩
  | false =>
    refine ⟨(fmtSciPads B m f prec upper useHex r).1, 0, (fmtSciPads B m f prec upper useHex r).2, ?_, ?_,
      fun h => Bool.noConfusion h, fun _ => rfl⟩
    · simp [rep_zero]
    · intro hw; rw [fmtSciPads_none B m f prec upper useHex r hw]; exact ⟨rfl, rfl, rfl⟩

end Dashu.Model.Text
