import Dashu.Proofs.Text.BytesDecode
import Dashu.Proofs.Text.BytesBE
/-
  C07 (round 7): the OTHER direction of "mutually inverse" for the two's complement byte functions.
  `decode(encode(z)) = z` is `ofSignedLeBytesSpec_signedLeBytesSpec`; here: the exact length of the
  encoding, injectivity of the decoder on byte strings of one length, and
  `encode(decode(bs)) = bs` exactly for the byte strings of the encoder's length.
-/
namespace Dashu.Model.Text

/-- number of bytes `IBig::to_le_bytes` produces: none for zero, otherwise `bit_len(|z|) / 8 + 1`
    (magnitude bytes, plus the sign byte iff the top bit of the magnitude's top byte is used) -/
def signedLen (z : Int) : Nat := if z = 0 then 0 else bitLen z.natAbs / 8 + 1

/-- the two's complement encoding has exactly `signedLen z` bytes -/
theorem signedLeBytesSpec_length (z : Int) : (signedLeBytesSpec z).length = signedLen z := by
  unfold signedLeBytesSpec signedLen
  simp only []
  by_cases hm : z.natAbs = 0
  · have : z = 0 := Int.natAbs_eq_zero.mp hm
    subst this; simp
  · have hz : z ≠ 0 := fun h => hm (by rw [h]; rfl)
    rw [if_neg hm, if_neg hz]
    have htb := top_bit_iff hm
    have hb1 := bitLen_pos hm
    have hbl : byteLen z.natAbs = (bitLen z.natAbs - 1) / 8 + 1 := by
      have h0 : bitLen z.natAbs ≠ 0 := by omega
      unfold byteLen ceilDiv; rw [if_neg h0]
    by_cases hneg : z < 0
    · rw [if_pos hneg]
      by_cases hx : 2 ^ (8 * byteLen z.natAbs - 1) ≤ z.natAbs
      · rw [if_pos hx, List.length_append, digitsPadLE_length]
        have := htb.mpr hx
        simp only [List.length_cons, List.length_nil]; omega
      · rw [if_neg hx, List.append_nil, digitsPadLE_length]
        have : ¬ bitLen z.natAbs % 8 = 0 := fun h => hx (htb.mp h)
        omega
    · rw [if_neg hneg]
      by_cases hx : 2 ^ (8 * byteLen z.natAbs - 1) ≤ z.natAbs
      · rw [if_pos hx, List.length_append, digitsPadLE_length]
        have := htb.mpr hx
        simp only [List.length_cons, List.length_nil]; omega
      · rw [if_neg hx, List.append_nil, digitsPadLE_length]
        have : ¬ bitLen z.natAbs % 8 = 0 := fun h => hx (htb.mp h)
        omega

/-- digit lists of one length with digits `< r` are determined by their value -/
theorem ofDigitsLE_inj (r : Nat) (hr : 0 < r) : ∀ (a b : List Nat), a.length = b.length →
    (∀ d ∈ a, d < r) → (∀ d ∈ b, d < r) → ofDigitsLE r a = ofDigitsLE r b → a = b := by
  intro a
  induction a with
  | nil => intro b hl _ _ _; cases b with
    | nil => rfl
    | cons y ys => simp at hl
  | cons x xs ih =>
    intro b hl ha hb h
    cases b with
    | nil => simp at hl
    | cons y ys =>
      simp only [ofDigitsLE] at h
      have hx : x < r := ha x (by simp)
      have hy : y < r := hb y (by simp)
      have hxy : x = y := by
        have h1 := congrArg (· % r) h
        simp only [Nat.add_mul_mod_self_left, Nat.mod_eq_of_lt hx, Nat.mod_eq_of_lt hy] at h1
        exact h1
      subst hxy
      have hv : ofDigitsLE r xs = ofDigitsLE r ys := by
        have : r * ofDigitsLE r xs = r * ofDigitsLE r ys := by omega
        exact Nat.eq_of_mul_eq_mul_left hr this
      rw [ih ys (by simpa using hl) (fun d hd => ha d (by simp [hd])) (fun d hd => hb d (by simp [hd])) hv]

/-- the two's complement decoder is injective on byte strings of one length -/
theorem ofSignedLeBytesSpec_inj (a b : List Nat) (hl : a.length = b.length)
    (ha : ∀ d ∈ a, d < 256) (hb : ∀ d ∈ b, d < 256)
    (h : ofSignedLeBytesSpec a = ofSignedLeBytesSpec b) : a = b := by
  have hUa := ofDigitsLE_lt 256 a ha
  have hUb := ofDigitsLE_lt 256 b hb
  rw [hl] at hUa
  have hc : (256 : Int) ^ b.length = ((256 ^ b.length : Nat) : Int) := by push_cast; rfl
  apply ofDigitsLE_inj 256 (by omega) a b hl ha hb
  unfold ofSignedLeBytesSpec at h
  rw [hl, hc] at h
  cases hga : a.getLast? <;> cases hgb : b.getLast? <;> rw [hga, hgb] at h <;> simp only [] at h
  · rw [List.getLast?_eq_none_iff] at hga hgb
    subst hga; subst hgb; rfl
  · rw [List.getLast?_eq_none_iff] at hga
    subst hga
    have : b = [] := List.length_eq_zero_iff.mp hl.symm
    subst this; simp at hgb
  · rw [List.getLast?_eq_none_iff] at hgb
    subst hgb
    have : a = [] := List.length_eq_zero_iff.mp hl
    subst this; simp at hga
  · generalize (256 : Nat) ^ b.length = P at *
    generalize ofDigitsLE 256 a = Ua at *
    generalize ofDigitsLE 256 b = Ub at *
    split at h <;> split at h <;> omega

/-- **encode(decode(bs)) = bs** for every byte string that has the encoder's length -/
theorem signedLeBytesSpec_ofSignedLeBytesSpec (bs : List Nat) (hlt : ∀ b ∈ bs, b < 256)
    (hlen : bs.length = signedLen (ofSignedLeBytesSpec bs)) :
    signedLeBytesSpec (ofSignedLeBytesSpec bs) = bs :=
  ofSignedLeBytesSpec_inj _ _ (by rw [signedLeBytesSpec_length, hlen]) (signedLeBytesSpec_bytes _) hlt
    (ofSignedLeBytesSpec_signedLeBytesSpec _)

-- ---------------------------------------------------------------- the encoder's length against the minimal length

theorem bitLen_unique {n k : Nat} (h1 : 2 ^ (k - 1) ≤ n) (h2 : n < 2 ^ k) (hk : 1 ≤ k) : bitLen n = k := by
  have hle : bitLen n ≤ k := bitLen_le_iff.mpr h2
  by_contra hne
  have : bitLen n ≤ k - 1 := by omega
  have := bitLen_le_iff.mp this
  omega

/-- a positive number whose predecessor is one bit shorter is a power of two -/
theorem eq_pow_of_bitLen_pred {m : Nat} (hm : m ≠ 0) (h : bitLen (m - 1) + 1 = bitLen m) : m = 2 ^ (bitLen m - 1) := by
  have h1 := (bitLen_spec hm).1
  have h2 : m - 1 < 2 ^ bitLen (m - 1) := bitLen_le_iff.mp (Nat.le_refl _)
  have : bitLen (m - 1) = bitLen m - 1 := by omega
  rw [this] at h2
  omega

/-- **the encoder's length is the minimal two's complement length** (`minSignedLen`: smallest `n` with
    `-(2^(8n-1)) ≤ z < 2^(8n-1)`), except for `z = -(2^(8q+7))`, i.e. `-128, -32768, …` -/
theorem signedLen_eq_minSignedLen (z : Int) (hex : ∀ q : Nat, z ≠ -((2 : Int) ^ (8 * q + 7))) :
    signedLen z = minSignedLen z := by
  unfold signedLen minSignedLen
  by_cases hz : z = 0
  · rw [if_pos hz, if_pos hz]
  · rw [if_neg hz, if_neg hz]
    have hm : z.natAbs ≠ 0 := fun h => hz (Int.natAbs_eq_zero.mp h)
    have hb1 := bitLen_pos hm
    by_cases hneg : z < 0
    · rw [if_pos hneg]
      unfold ceilDiv
      rw [if_neg (by omega), Nat.add_sub_cancel]
      obtain ⟨hp1, hp2⟩ := bitLen_pred z.natAbs hm
      by_cases hsame : bitLen (z.natAbs - 1) = bitLen z.natAbs
      · rw [hsame]
      · have hpw := eq_pow_of_bitLen_pred hm (by omega)
        by_cases h8 : bitLen z.natAbs % 8 = 0
        · exfalso
          apply hex (bitLen z.natAbs / 8 - 1)
          have he : 8 * (bitLen z.natAbs / 8 - 1) + 7 = bitLen z.natAbs - 1 := by omega
          rw [he]
          generalize bitLen z.natAbs - 1 = k at hpw ⊢
          have hc : (z.natAbs : Int) = (2 : Int) ^ k := by rw [hpw]; push_cast; rfl
          omega
        · omega
    · rw [if_neg hneg]
      unfold ceilDiv
      rw [if_neg (by omega), Nat.add_sub_cancel]

/-- the exception: for `z = -(2^(8q+7))` the encoder emits `q + 2` bytes (`0x00 … 0x80 0xff`), one more than the
    minimal `q + 1` (`0x00 … 0x80`) -/
theorem signedLen_neg_pow (q : Nat) :
    signedLen (-((2 : Int) ^ (8 * q + 7))) = q + 2 ∧ minSignedLen (-((2 : Int) ^ (8 * q + 7))) = q + 1 := by
  have hp : 0 < 2 ^ (8 * q + 7) := Nat.two_pow_pos _
  have hz : -((2 : Int) ^ (8 * q + 7)) = -(((2 ^ (8 * q + 7) : Nat)) : Int) := by push_cast; rfl
  have hna : (-((2 : Int) ^ (8 * q + 7))).natAbs = 2 ^ (8 * q + 7) := by rw [hz]; simp
  have hne : -((2 : Int) ^ (8 * q + 7)) ≠ 0 := by rw [hz]; omega
  have hlt : -((2 : Int) ^ (8 * q + 7)) < 0 := by rw [hz]; omega
  have hb : bitLen (2 ^ (8 * q + 7)) = 8 * q + 8 :=
    bitLen_unique (Nat.pow_le_pow_right (by omega) (by omega)) (Nat.pow_lt_pow_right (by omega) (by omega)) (by omega)
  have hb' : bitLen (2 ^ (8 * q + 7) - 1) = 8 * q + 7 :=
    bitLen_unique (by
      have : 2 ^ (8 * q + 7) = 2 ^ (8 * q + 7 - 1) * 2 := by rw [← pow_succ]; congr 1
      have : 0 < 2 ^ (8 * q + 7 - 1) := Nat.two_pow_pos _
      omega) (by omega) (by omega)
  unfold signedLen minSignedLen
  rw [if_neg hne, if_neg hne, if_pos hlt, hna, hb, hb']
  unfold ceilDiv
  rw [if_neg (by omega)]
  omega

/-- **what `minSignedLen` means**: `n` bytes can hold `z` in two's complement (`z = 0`, or `n ≥ 1` and
    `-(2^(8n-1)) ≤ z < 2^(8n-1)`) iff `minSignedLen z ≤ n` -/
theorem minSignedLen_le_iff (z : Int) (n : Nat) :
    minSignedLen z ≤ n ↔ (z = 0 ∨ (1 ≤ n ∧ -((2 : Int) ^ (8 * n - 1)) ≤ z ∧ z < (2 : Int) ^ (8 * n - 1))) := by
  unfold minSignedLen
  by_cases hz : z = 0
  · rw [if_pos hz]; simp [hz]
  · rw [if_neg hz]
    have hm : z.natAbs ≠ 0 := fun h => hz (Int.natAbs_eq_zero.mp h)
    have hc : (2 : Int) ^ (8 * n - 1) = ((2 ^ (8 * n - 1) : Nat) : Int) := by push_cast; rfl
    rw [hc]
    by_cases hneg : z < 0
    · rw [if_pos hneg]
      unfold ceilDiv
      rw [if_neg (by omega), Nat.add_sub_cancel]
      have key : bitLen (z.natAbs - 1) ≤ 8 * n - 1 ↔ z.natAbs - 1 < 2 ^ (8 * n - 1) := bitLen_le_iff
      generalize 2 ^ (8 * n - 1) = P at *
      generalize bitLen (z.natAbs - 1) = B at *
      constructor
      · intro h
        have := key.mp (by omega)
        omega
      · intro h
        rcases h with h | ⟨h1, h2, h3⟩
        · omega
        · have := key.mpr (by omega)
          omega
    · rw [if_neg hneg]
      unfold ceilDiv
      have hb1 := bitLen_pos hm
      rw [if_neg (by omega), Nat.add_sub_cancel]
      have key : bitLen z.natAbs ≤ 8 * n - 1 ↔ z.natAbs < 2 ^ (8 * n - 1) := bitLen_le_iff
      generalize 2 ^ (8 * n - 1) = P at *
      generalize bitLen z.natAbs = B at *
      constructor
      · intro h
        have := key.mp (by omega)
        omega
      · intro h
        rcases h with h | ⟨h1, h2, h3⟩
        · omega
        · have := key.mpr (by omega)
          omega

end Dashu.Model.Text
