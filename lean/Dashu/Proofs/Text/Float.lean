import Dashu.Model.Text.Float
import Dashu.Proofs.Float.ReprRound
/-
  C08 — base conversion: the three exact-evaluation branches of `Context::convert_base` hand the exact
  value to `repr_round`, hence satisfy the rounding contract of C03 (exact iff representable,
  otherwise < 1 ulp on the mode's side, truthful flag); the documented precision of `with_base`;
  exactness of the IEEE import.
-/
namespace Dashu.Model.Text
open Dashu.Model.Float

theorem coarseNone_sound : CoarseSound coarseNone := by intro _ _ _ _ h; cases h

-- ---------------------------------------------------------------- ilog_exact

theorem ilogExact_go_spec (n base : Nat) : ∀ (fuel pow exp k : Nat), pow = base ^ exp →
    ilogExact.go n base fuel pow exp = k → k ≠ 0 → n = base ^ k := by
  intro fuel
  induction fuel with
  | zero => intro pow exp k _ h hk; simp [ilogExact.go] at h; omega
  | succ fuel ih =>
    intro pow exp k hp h hk
    simp only [ilogExact.go] at h
    by_cases h1 : pow < n
    · simp only [h1, if_true] at h
      exact ih (pow * base) (exp + 1) k (by rw [hp, pow_succ]) h hk
    · simp only [h1, if_false] at h
      by_cases h2 : pow = n
      · simp only [h2, if_true] at h
        rw [← h, ← hp, h2]
      · simp only [h2, if_false] at h; omega

/-- `ilog_exact(n, base) = k ≠ 0` only if `n = base^k` -/
theorem ilogExact_spec (n base k : Nat) (h : ilogExact n base = k) (hk : k ≠ 0) : n = base ^ k := by
  unfold ilogExact at h
  split at h
  · omega
  · exact ilogExact_go_spec n base 64 base 1 k (by simp) h hk

-- ---------------------------------------------------------------- values

theorem bpowQ_pow (B n : Nat) (e : Int) : bpowQ (B ^ n) e = bpowQ B ((n : Int) * e) := by
  rw [bpowQ_eq_zpow, bpowQ_eq_zpow]
  push_cast
  rw [← zpow_natCast, ← zpow_mul]

theorem value_pow_up (B n : Nat) (hB : 0 < B) (hn : 0 < n) (s e : Int) :
    ((s * ((B ^ (e % (n : Int)).toNat : Nat) : Int) : Int) : ℚ) * bpowQ (B ^ n) (e / (n : Int)) =
      (s : ℚ) * bpowQ B e := by
  have hn' : (n : Int) ≠ 0 := by omega
  have hrem : 0 ≤ e % (n : Int) := Int.emod_nonneg e hn'
  rw [bpowQ_pow]
  have he : e = (n : Int) * (e / (n : Int)) + e % (n : Int) := (Int.mul_ediv_add_emod e n).symm
  conv_rhs => rw [he, bpowQ_add B hB]
  have : bpowQ B (e % (n : Int)) = ((B ^ (e % (n : Int)).toNat : Nat) : ℚ) := by
    conv_lhs => rw [← Int.toNat_of_nonneg hrem]
    exact bpowQ_nat B _
  rw [this]; push_cast; ring

theorem value_pow_down (NB n : Nat) (s e : Int) :
    (s : ℚ) * bpowQ NB (e * (n : Int)) = (s : ℚ) * bpowQ (NB ^ n) e := by
  rw [bpowQ_pow, Int.mul_comm]

theorem value_small_pos (B NB : Nat) (s : Int) (k : Nat) :
    ((s * ((B ^ k : Nat) : Int) : Int) : ℚ) * bpowQ NB 0 = (s : ℚ) * bpowQ B (k : Int) := by
  rw [bpowQ_nat]; simp [bpowQ]

/-- rounding the exact value: contract of C03 for `repr_round(Repr::new(s, e))` -/
theorem round_new_contract (NB : Nat) (hN : 2 ≤ NB) (m : Mode) (p : Nat) (hp : 1 ≤ p) (s e : Int) :
    Contract NB m p ((s : ℚ) * bpowQ NB e)
      ((reprRound NB m coarseNone p (FRepr.new NB s e)).1.toRat NB)
      (reprRound NB m coarseNone p (FRepr.new NB s e)).2 := by
  have h := reprRound_contract NB hN m coarseNone coarseNone_sound p hp (FRepr.new NB s e)
    (FRepr.new_normalized NB hN s e)
  rw [FRepr.new_value NB (by omega)] at h
  exact h

-- ---------------------------------------------------------------- with_base precision

theorem withBasePrecisionSpec_go (NewB target : Nat) (hN : 2 ≤ NewB) :
    ∀ (fuel q pw : Nat), pw = NewB ^ q → pw ≤ target → target < pw * 2 ^ fuel →
      NewB ^ (withBasePrecisionSpec.go NewB target fuel q pw) ≤ target ∧
      target < NewB ^ (withBasePrecisionSpec.go NewB target fuel q pw + 1) := by
  intro fuel
  induction fuel with
  | zero =>
    intro q pw hpw hle hlt
    simp only [withBasePrecisionSpec.go]
    simp at hlt; omega
  | succ fuel ih =>
    intro q pw hpw hle hlt
    simp only [withBasePrecisionSpec.go]
    by_cases h : pw * NewB ≤ target
    · simp only [h, if_true]
      apply ih (q + 1) (pw * NewB) (by rw [hpw, pow_succ]) h
      calc target < pw * 2 ^ (fuel + 1) := hlt
        _ = pw * 2 * 2 ^ fuel := by rw [pow_succ]; ring
        _ ≤ pw * NewB * 2 ^ fuel := Nat.mul_le_mul_right _ (Nat.mul_le_mul_left _ hN)
    · simp only [h, if_false]
      refine ⟨by rw [← hpw]; exact hle, ?_⟩
      rw [pow_succ, ← hpw]; omega

/-- the documented precision of `with_base`: the max `q` with `NewB^q ≤ B^p` -/
theorem withBasePrecisionSpec_max (B NewB p : Nat) (hB : 1 ≤ B) (hN : 2 ≤ NewB) :
    NewB ^ withBasePrecisionSpec B NewB p ≤ B ^ p ∧ B ^ p < NewB ^ (withBasePrecisionSpec B NewB p + 1) := by
  unfold withBasePrecisionSpec
  have h2 : ¬ NewB < 2 := by omega
  simp only [h2, if_false]
  have hpos : 0 < B ^ p := Nat.pow_pos hB
  apply withBasePrecisionSpec_go NewB (B ^ p) hN _ 0 1 (by simp) hpos
  rw [Nat.one_mul]
  exact Nat.lt_log2_self

-- ---------------------------------------------------------------- IEEE import

/-- `TryFrom<f32/f64>`: the value is exactly `±man·2^exp`, the precision is the bit length of the
    mantissa (24 / 53 for normal numbers) -/
theorem fromIeee_exact (mb eb bits : Nat) (r : FRepr) (p : Nat) (h : fromIeee mb eb bits = some (.inr (r, p))) :
    let frac := bits % 2 ^ mb
    let e := (bits / 2 ^ mb) % 2 ^ eb
    let neg := (bits / 2 ^ (mb + eb)) % 2 = 1
    let man : Nat := if e = 0 then frac else frac + 2 ^ mb
    let exp : Int := (if e = 0 then 1 else (e : Int)) - (2 ^ (eb - 1) - 1) - mb
    r.toRat 2 = (if neg then -(man : ℚ) else (man : ℚ)) * bpowQ 2 exp ∧ p = bitLen man := by
  unfold fromIeee at h
  simp only [] at h
  split at h
  · split at h <;> simp at h
  · simp only [Option.some.injEq, Sum.inr.injEq, Prod.mk.injEq] at h
    obtain ⟨h1, h2⟩ := h
    refine ⟨?_, h2.symm⟩
    rw [← h1, FRepr.new_value 2 (by omega)]
    split <;> push_cast <;> rfl

end Dashu.Model.Text
