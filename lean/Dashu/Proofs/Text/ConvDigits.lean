import Dashu.Proofs.Text.ConvDiv
import Dashu.Proofs.Float.Closing
/-
  C08 — "never more than one digit beyond the target precision": digit count of the result of
  every `convert_base` path that does not go through `ln`/`exp`.
-/
namespace Dashu.Model.Text
open Dashu.Model.Float

theorem rInt_abs_le (a : Rounding) : |rInt a| ≤ 1 := by cases a <;> simp [rInt]

/-- the long-dividend path returns at most `p` digits -/
theorem divRoundLong_digits_le (NB : Nat) (hNB : 2 ≤ NB) (m : Mode) (p : Nat) (hp : 1 ≤ p) (num den : FRepr)
    (hlong : num.digits NB > p + den.digits NB) :
    (divRoundLong NB m p num den).1.digits NB ≤ p := by
  unfold divRoundLong
  dsimp only
  generalize Int.tdiv num.signif den.signif = q
  generalize Int.tmod num.signif den.signif = r
  -- |hi| < NB^p for the split at digits(q) − p
  have hhi : |(splitDigits NB q (digitsI NB q - p)).1| < ((NB ^ p : Nat) : Int) ∨ digitsI NB q ≤ p := by
    by_cases hle : digitsI NB q ≤ p
    · exact Or.inr hle
    · left
      obtain ⟨hsplit, hlolt, hpos, hneg⟩ := splitDigits_spec NB hNB q (digitsI NB q - p)
      generalize splitDigits NB q (digitsI NB q - p) = hl at *
      have hqlt := digitsI_upper NB hNB q
      have e : NB ^ digitsI NB q = NB ^ p * NB ^ (digitsI NB q - p) := by
        rw [← pow_add]; congr 1; omega
      rw [e] at hqlt
      have hP : (0 : Int) < ((NB ^ (digitsI NB q - p) : Nat) : Int) := by
        have : 0 < NB ^ (digitsI NB q - p) := Nat.pow_pos (by omega)
        exact_mod_cast this
      have hqabs := split_abs_le q hl.1 hl.2 _ hsplit hpos hneg
      have hq' : |q| < ((NB ^ p : Nat) : Int) * ((NB ^ (digitsI NB q - p) : Nat) : Int) := by
        have : ((q.natAbs : Nat) : Int) < ((NB ^ p * NB ^ (digitsI NB q - p) : Nat) : Int) := by exact_mod_cast hqlt
        rw [Int.natCast_natAbs] at this
        push_cast at this ⊢
        exact this
      by_contra hc
      have hc' : ((NB ^ p : Nat) : Int) ≤ |hl.1| := not_lt.mp hc
      have : ((NB ^ p : Nat) : Int) * ((NB ^ (digitsI NB q - p) : Nat) : Int) ≤ |hl.1| * ((NB ^ (digitsI NB q - p) : Nat) : Int) :=
        mul_le_mul_of_nonneg_right hc' (le_of_lt hP)
      omega
  have hhi' : |(splitDigits NB q (digitsI NB q - p)).1| < ((NB ^ p : Nat) : Int) := by
    rcases hhi with h | h
    · exact h
    · -- no split: shift = 0, hi = q with at most p digits
      have h0 : digitsI NB q - p = 0 := by omega
      rw [h0]
      obtain ⟨hsplit, hlolt, _, _⟩ := splitDigits_spec NB hNB q 0
      have hlo0 : (splitDigits NB q 0).2 = 0 := by
        have : |(splitDigits NB q 0).2| < 1 := by simpa using hlolt
        have := abs_lt.mp this; omega
      have hq : (splitDigits NB q 0).1 = q := by
        rw [hlo0] at hsplit; simpa using hsplit.symm
      rw [hq]
      have hqlt := digitsI_upper NB hNB q
      have : NB ^ digitsI NB q ≤ NB ^ p := Nat.pow_le_pow_right (by omega) h
      have h2 : ((q.natAbs : Nat) : Int) < ((NB ^ p : Nat) : Int) := by exact_mod_cast (lt_of_lt_of_le hqlt this)
      rw [Int.natCast_natAbs] at h2
      exact h2
  split
  · exact new_digits_le_digits NB hNB _ _ p hp hhi'
  · apply new_digits_le_abs NB hNB p hp
    have h1 := rInt_abs_le (roundRatio m (splitDigits NB q (digitsI NB q - p)).1
      ((splitDigits NB q (digitsI NB q - p)).2 * den.signif + r) (den.signif * ((NB ^ (digitsI NB q - p) : Nat) : Int)))
    calc |(splitDigits NB q (digitsI NB q - p)).1 + rInt _| ≤ |(splitDigits NB q (digitsI NB q - p)).1| + |rInt _| := abs_add_le _ _
      _ ≤ ((NB ^ p : Nat) : Int) := by omega

/-- **never more than one digit beyond the target precision**: every result `convert_base` returns
    without going through `ln`/`exp` (bases differ) has at most `p + 1` digits in the new base — `p`
    on the rounding paths, `p + 1` only from `repr_div` -/
theorem convertBase_digits_le (W B NB : Nat) (hB : 2 ≤ B) (hNB : 2 ≤ NB) (hne : NB ≠ B) (m : Mode) (p : Nat)
    (hp : 1 ≤ p) (r : FRepr) (res : Rounded FRepr) (h : convertBase W B NB m p r = .ok res) :
    res.1.digits NB ≤ p + 1 := by
  unfold convertBase at h
  simp only [hne, if_false] at h
  by_cases hup : (if NB > B then ilogExact NB B else 0) > 1
  · simp only [hup, if_true, ConvResult.ok.injEq] at h
    subst h
    exact Nat.le_succ_of_le (reprRound_digits_le NB hNB m coarseNone p hp _)
  · simp only [hup, if_false] at h
    by_cases hdown : (if NB > B then 0 else ilogExact B NB) > 1
    · simp only [hdown, if_true, ConvResult.ok.injEq] at h
      subst h
      exact Nat.le_succ_of_le (reprRound_digits_le NB hNB m coarseNone p hp _)
    · simp only [hdown, if_false] at h
      have hp0 : p ≠ 0 := by omega
      simp only [hp0, if_false] at h
      by_cases hsmall : r.exp.natAbs ≤ (thresholdSmallExp W).toNat
      · simp only [hsmall, if_true] at h
        by_cases hnn : r.exp ≥ 0
        · simp only [hnn, if_true, ConvResult.ok.injEq] at h
          subst h
          exact Nat.le_succ_of_le (reprRound_digits_le NB hNB m coarseNone p hp _)
        · simp only [hnn, if_false] at h
          by_cases hlong : (FRepr.new NB r.signif 0).digits NB > p + (FRepr.new NB ((B ^ (-r.exp).toNat : Nat) : Int) 0).digits NB
          · simp only [hlong, if_true, ConvResult.ok.injEq] at h
            subst h
            exact Nat.le_succ_of_le (divRoundLong_digits_le NB hNB m p hp _ _ hlong)
          · simp only [hlong, if_false] at h
            have hdpos : 0 < (FRepr.new NB ((B ^ (-r.exp).toNat : Nat) : Int) 0).signif := by
              apply new_signif_pos NB hNB
              have : 0 < B ^ (-r.exp).toNat := Nat.pow_pos (by omega)
              exact_mod_cast this
            obtain ⟨r', hr', hd, _⟩ := reprDiv_digits_le NB hNB m p hp (FRepr.new NB r.signif 0)
              (FRepr.new NB ((B ^ (-r.exp).toNat : Nat) : Int) 0) (by omega) (by
                have := not_lt.mp hlong; omega)
            rw [hr'] at h
            simp only [ConvResult.ok.injEq] at h
            subst h
            exact hd
      · simp only [hsmall, if_false] at h
        cases h

/-- the same without excluding the same-base case (model as REQUIRED: the same-base result is rounded too) -/
theorem convertBase_digits_le_all (W B NB : Nat) (hB : 2 ≤ B) (hNB : 2 ≤ NB) (m : Mode) (p : Nat) (hp : 1 ≤ p)
    (r : FRepr) (res : Rounded FRepr) (h : convertBase W B NB m p r = .ok res) : res.1.digits NB ≤ p + 1 := by
  by_cases hne : NB = B
  · unfold convertBase at h
    simp only [hne, if_true, ConvResult.ok.injEq] at h
    subst h
    have := reprRound_digits_le B hB m coarseNone p hp (FRepr.new B r.signif r.exp)
    rw [hne]; omega
  · exact convertBase_digits_le W B NB hB hNB hne m p hp r res h

end Dashu.Model.Text
