import Dashu.Proofs.Text.BytesSigned
/-
  convert.rs, signed decoder: `from_signed_le_bytes` (inline path with one-padding, heap path
  `from_le_bytes_large::<true>` with per-word complement and `add_one_in_place`) equals the two's
  complement value `ofSignedLeBytesSpec`, for every byte string.
-/
namespace Dashu.Model.Text
open Dashu.Model (val IsWords addOne addOne_spec val_lt)

theorem ofDigitsLE_replicate (r k d : Nat) (hd : d + 1 = r) : ofDigitsLE r (List.replicate k d) = r ^ k - 1 := by
  induction k with
  | zero => rfl
  | succ k ih =>
    rw [List.replicate_succ, ofDigitsLE, ih, pow_succ]
    have hp : 1 ≤ r ^ k := Nat.pow_pos (by omega)
    have : r * (r ^ k - 1) = r ^ k * r - r := by rw [Nat.mul_sub, Nat.mul_one, Nat.mul_comm]
    have h2 : r ≤ r ^ k * r := Nat.le_mul_of_pos_left _ hp
    omega

theorem ofDigitsLE_lt (r : Nat) (l : List Nat) (h : ∀ d ∈ l, d < r) : ofDigitsLE r l < r ^ l.length := by
  induction l with
  | nil => simp [ofDigitsLE]
  | cons a l ih =>
    have ha := h a (by simp)
    have := ih (fun d hd => h d (by simp [hd]))
    rw [ofDigitsLE, List.length_cons, pow_succ]
    calc a + r * ofDigitsLE r l < r + r * ofDigitsLE r l := by omega
      _ = r * (ofDigitsLE r l + 1) := by ring
      _ ≤ r * r ^ l.length := Nat.mul_le_mul_left _ this
      _ = r ^ l.length * r := Nat.mul_comm _ _

/-- `word_from_le_bytes_partial::<true>`: the bytes, then `0xff` up to `nb` bytes -/
theorem wordFromLePartial_true (nb : Nat) (bs : List Nat) :
    wordFromLePartial nb true bs = ofDigitsLE 256 bs + 256 ^ bs.length * (256 ^ (nb - bs.length) - 1) := by
  unfold wordFromLePartial
  simp only [if_true]
  rw [ofDigitsLE_append, ofDigitsLE_replicate 256 _ 255 rfl]

theorem getLast_ge_of_top (bs : List Nat) (top : Nat) (h : bs.getLast? = some top) (hlt : ∀ b ∈ bs, b < 256) :
    top * 256 ^ (bs.length - 1) ≤ ofDigitsLE 256 bs ∧ 1 ≤ bs.length := by
  induction bs with
  | nil => simp at h
  | cons a l ih =>
    cases l with
    | nil => simp at h; subst h; simp [ofDigitsLE]
    | cons b t =>
      have h' : (b :: t).getLast? = some top := by simpa [List.getLast?_cons_cons] using h
      obtain ⟨h1, h2⟩ := ih h' (fun x hx => hlt x (by simp [hx]))
      refine ⟨?_, by simp⟩
      rw [ofDigitsLE]
      simp only [List.length_cons, Nat.add_sub_cancel] at h1 ⊢
      calc top * 256 ^ (t.length + 1) = 256 * (top * 256 ^ t.length) := by rw [pow_succ]; ring
        _ ≤ 256 * ofDigitsLE 256 (b :: t) := Nat.mul_le_mul_left _ h1
        _ ≤ a + 256 * ofDigitsLE 256 (b :: t) := Nat.le_add_left _ _

/-- complement of a whole word list -/
theorem val_map_notWord (W : Nat) (ws : List Nat) (h : IsWords W ws) :
    val W (ws.map (notWord W)) + val W ws + 1 = 2 ^ (W * ws.length) := by
  induction ws with
  | nil => simp [val]
  | cons w ws ih =>
    have hw : w < 2 ^ W := h w (by simp)
    have := ih (fun x hx => h x (by simp [hx]))
    simp only [List.map_cons, val, List.length_cons, notWord]
    have e : 2 ^ (W * (ws.length + 1)) = 2 ^ W * 2 ^ (W * ws.length) := by
      rw [Nat.mul_add, Nat.mul_one, pow_add, Nat.mul_comm]
    rw [e, ← this]
    have hp : 1 ≤ 2 ^ W := Nat.pow_pos (by omega)
    have : 2 ^ W * (val W (List.map (notWord W) ws) + val W ws + 1) =
        2 ^ W * val W (List.map (notWord W) ws) + 2 ^ W * val W ws + 2 ^ W := by ring
    rw [this]; unfold notWord; omega

theorem isWords_map_notWord (W : Nat) (ws : List Nat) : IsWords W (ws.map (notWord W)) := by
  intro x hx
  obtain ⟨w, _, rfl⟩ := List.mem_map.mp hx
  unfold notWord
  have : 1 ≤ 2 ^ W := Nat.pow_pos (by omega)
  omega

/-- value and size of the one-padded words of `from_le_bytes_large::<true>` before the complement -/
theorem padded_words (k : Nat) (hk : 1 ≤ k) (bs : List Nat) (hlt : ∀ b ∈ bs, b < 256) :
    let ws := (chunksOf k bs).map (fun g => wordFromLePartial k true g)
    IsWords (8 * k) ws ∧ bs.length ≤ k * ws.length ∧
    val (8 * k) ws = ofDigitsLE 256 bs + 256 ^ bs.length * (256 ^ (k * ws.length - bs.length) - 1) := by
  induction hn : bs.length using Nat.strong_induction_on generalizing bs with
  | _ n ih =>
    subst hn
    intro ws
    have e256 : (2 : Nat) ^ (8 * k) = 256 ^ k := (pow256 k).symm
    by_cases hl : bs = []
    · subst hl
      have : ws = [] := by show List.map _ (chunksOf k []) = []; rw [chunksOf_nil]; rfl
      rw [this]
      refine ⟨fun x hx => by simp at hx, by simp, by simp [val, ofDigitsLE]⟩
    · have hk0 : k ≠ 0 := by omega
      have hws : ws = wordFromLePartial k true (bs.take k) ::
          (chunksOf k (bs.drop k)).map (fun g => wordFromLePartial k true g) := by
        show List.map _ (chunksOf k bs) = _
        rw [chunksOf_step hk0 hl]; rfl
      have hlen : bs.length ≠ 0 := fun h => hl (List.length_eq_zero_iff.mp h)
      have hd : (bs.drop k).length < bs.length := by rw [List.length_drop]; omega
      obtain ⟨i1, i2, i3⟩ := ih _ hd (bs.drop k) (fun b hb => hlt b (List.mem_of_mem_drop hb)) rfl
      generalize hrest : (chunksOf k (bs.drop k)).map (fun g => wordFromLePartial k true g) = rest at *
      rw [hws]
      have htk : ∀ b ∈ bs.take k, b < 256 := fun b hb => hlt b (List.mem_of_mem_take hb)
      have hvt := ofDigitsLE_lt 256 (bs.take k) htk
      have htl : (bs.take k).length = min k bs.length := List.length_take
      have hsplit : ofDigitsLE 256 bs = ofDigitsLE 256 (bs.take k) + 256 ^ (bs.take k).length * ofDigitsLE 256 (bs.drop k) := by
        conv_lhs => rw [← List.take_append_drop k bs, ofDigitsLE_append]
      by_cases hkl : k ≤ bs.length
      · -- a full first chunk
        have htl' : (bs.take k).length = k := by rw [htl]; omega
        have hw0 : wordFromLePartial k true (bs.take k) = ofDigitsLE 256 (bs.take k) := by
          rw [wordFromLePartial_true, htl']; simp
        rw [htl'] at hvt hsplit
        rw [List.length_drop] at i2 i3
        refine ⟨?_, ?_, ?_⟩
        · intro x hx
          rcases List.mem_cons.mp hx with h | h
          · rw [h, hw0, e256]; exact hvt
          · exact i1 x h
        · simp only [List.length_cons]; rw [Nat.mul_succ]; omega
        · simp only [val, List.length_cons]
          rw [hw0, i3, hsplit, e256]
          have hexp : k * (rest.length + 1) - bs.length = k * rest.length - (bs.length - k) := by
            rw [Nat.mul_succ]; omega
          rw [hexp]
          have hpw : 256 ^ bs.length = 256 ^ k * 256 ^ (bs.length - k) := by rw [← pow_add]; congr 1; omega
          rw [hpw]; ring
      · -- a single, short chunk
        have hdrop : bs.drop k = [] := List.drop_eq_nil_of_le (by omega)
        have htake : bs.take k = bs := List.take_of_length_le (by omega)
        have hrest' : rest = [] := by rw [← hrest, hdrop, chunksOf_nil]; rfl
        rw [hrest', htake]
        have hvb := ofDigitsLE_lt 256 bs hlt
        refine ⟨?_, by simp; omega, ?_⟩
        · intro x hx
          simp only [List.mem_singleton] at hx
          rw [hx, wordFromLePartial_true, e256]
          have hpw : 256 ^ k = 256 ^ bs.length * 256 ^ (k - bs.length) := by rw [← pow_add]; congr 1; omega
          have hp1 : 1 ≤ 256 ^ (k - bs.length) := Nat.pow_pos (by omega)
          rw [hpw]
          calc ofDigitsLE 256 bs + 256 ^ bs.length * (256 ^ (k - bs.length) - 1)
              < 256 ^ bs.length + 256 ^ bs.length * (256 ^ (k - bs.length) - 1) := by omega
            _ = 256 ^ bs.length * (256 ^ (k - bs.length) - 1 + 1) := by ring
            _ = 256 ^ bs.length * 256 ^ (k - bs.length) := by rw [Nat.sub_add_cancel hp1]
        · simp [val, wordFromLePartial_true]

/-- **`IBig::from_le_bytes` (all paths) = the two's complement value of the bytes** -/
theorem fromSignedLeBytes_eq (W : Nat) (h8 : 8 ∣ W) (hW : 8 ≤ W) (bytes : List Nat) (hlt : ∀ b ∈ bytes, b < 256) :
    fromSignedLeBytes W bytes = ofSignedLeBytesSpec bytes := by
  obtain ⟨k, rfl⟩ := h8
  have hk : 1 ≤ k := by omega
  unfold fromSignedLeBytes ofSignedLeBytesSpec
  cases hlast : bytes.getLast? with
  | none => rfl
  | some top =>
    simp only []
    by_cases htop : top < 128
    · rw [if_pos htop, if_pos htop, fromLeBytes_eq (8 * k) ⟨k, rfl⟩ hW]; rfl
    · rw [if_neg htop, if_neg htop]
      obtain ⟨hge, hlen1⟩ := getLast_ge_of_top bytes top hlast hlt
      have hV := ofDigitsLE_lt 256 bytes hlt
      generalize hVdef : ofDigitsLE 256 bytes = V at *
      have hpos : 128 * 256 ^ (bytes.length - 1) ≤ V := by
        calc 128 * 256 ^ (bytes.length - 1) ≤ top * 256 ^ (bytes.length - 1) := Nat.mul_le_mul_right _ (by omega)
          _ ≤ V := hge
      have hp1 : 1 ≤ 256 ^ (bytes.length - 1) := Nat.pow_pos (by omega)
      have hV0 : 1 ≤ V := by omega
      have hres : ∀ x : Nat, x = 256 ^ bytes.length - V → Int.negOfNat x = (V : Int) - (256 : Int) ^ bytes.length := by
        intro x hx
        rw [hx, Int.negOfNat_eq, Int.ofNat_eq_natCast, Nat.cast_sub (by omega)]
        push_cast; ring
      have hK : 2 * (8 * k) / 8 = 2 * k := by omega
      split
      · -- inline path
        rename_i hshort
        apply hres
        rw [hK] at hshort
        rw [hK, wordFromLePartial_true, hVdef]
        obtain ⟨d, hd⟩ : ∃ d, 2 * k = bytes.length + d := ⟨2 * k - bytes.length, by omega⟩
        have e2 : (2 : Nat) ^ (2 * (8 * k)) = 256 ^ bytes.length * 256 ^ d := by
          rw [← pow_add, ← hd, pow256]; congr 1; ring
        have hpd : 1 ≤ 256 ^ d := Nat.pow_pos (by omega)
        have hdd : 2 * k - bytes.length = d := by omega
        unfold notWord
        rw [hdd, e2]
        have hmul : 256 ^ bytes.length * (256 ^ d - 1) = 256 ^ bytes.length * 256 ^ d - 256 ^ bytes.length := by
          rw [Nat.mul_sub, Nat.mul_one]
        have hle : 256 ^ bytes.length ≤ 256 ^ bytes.length * 256 ^ d := Nat.le_mul_of_pos_right _ hpd
        rw [hmul]
        have : 256 ^ bytes.length * 256 ^ d - 1 - (V + (256 ^ bytes.length * 256 ^ d - 256 ^ bytes.length)) + 1 =
            256 ^ bytes.length - V := by omega
        rw [this]
        exact Nat.mod_eq_of_lt (by omega)
      · -- heap path
        apply hres
        unfold fromLeBytesLarge
        simp only [if_true]
        have hK1 : 8 * k / 8 = k := by omega
        rw [hK1]
        obtain ⟨p1, p2, p3⟩ := padded_words k hk bytes hlt
        generalize hws : (chunksOf k bytes).map (fun g => wordFromLePartial k true g) = ws at *
        have hmap : (chunksOf k bytes).map (fun g => notWord (8 * k) (wordFromLePartial k true g)) =
            ws.map (notWord (8 * k)) := by rw [← hws, List.map_map]; rfl
        rw [hmap]
        have hcompl := val_map_notWord (8 * k) ws p1
        have hisw := isWords_map_notWord (8 * k) ws
        obtain ⟨a1, a2, _, a4⟩ := addOne_spec (8 * k) (ws.map (notWord (8 * k))) hisw
        rw [List.length_map] at a1 a2
        rw [hVdef] at p3
        -- 2^(8k·|ws|) = 256^(k·|ws|)
        have e3 : (2 : Nat) ^ (8 * k * ws.length) = 256 ^ bytes.length * 256 ^ (k * ws.length - bytes.length) := by
          rw [← pow_add, pow256]; congr 1
          have : bytes.length + (k * ws.length - bytes.length) = k * ws.length := by omega
          rw [this]; ring
        have hpd : 1 ≤ 256 ^ (k * ws.length - bytes.length) := Nat.pow_pos (by omega)
        have hmul : 256 ^ bytes.length * (256 ^ (k * ws.length - bytes.length) - 1) =
            256 ^ bytes.length * 256 ^ (k * ws.length - bytes.length) - 256 ^ bytes.length := by
          rw [Nat.mul_sub, Nat.mul_one]
        have hle : 256 ^ bytes.length ≤ 256 ^ bytes.length * 256 ^ (k * ws.length - bytes.length) :=
          Nat.le_mul_of_pos_right _ hpd
        rw [e3] at hcompl a1
        rw [hmul] at p3
        have hvl := val_lt (8 * k) _ (show IsWords (8 * k) (addOne (8 * k) (ws.map (notWord (8 * k)))).1 from by
          exact (addOne_spec (8 * k) (ws.map (notWord (8 * k))) hisw).2.2.1)
        rw [a2, e3] at hvl
        generalize (addOne (8 * k) (ws.map (notWord (8 * k)))).2 = c at *
        generalize val (8 * k) (addOne (8 * k) (ws.map (notWord (8 * k)))).1 = R at *
        generalize val (8 * k) (ws.map (notWord (8 * k))) = F at *
        generalize val (8 * k) ws = U at *
        generalize 256 ^ bytes.length * 256 ^ (k * ws.length - bytes.length) = T at *
        have hc : c = 0 := by
          rcases Nat.eq_zero_or_pos c with h | h
          · exact h
          · have : c = 1 := by omega
            subst this; omega
        subst hc
        omega

/-- **two's complement round trip of the model**: `from_le_bytes(to_le_bytes(z)) = z` for every
    integer (in particular `-(2^(8k))`), every word size `8k`; likewise big-endian -/
theorem fromSigned_toSigned (W : Nat) (h8 : 8 ∣ W) (hW : 8 ≤ W) (z : Int) :
    fromSignedLeBytes W (ibigToLeBytes W z) = z ∧ fromSignedBeBytes W (ibigToBeBytes W z) = z := by
  have h1 : fromSignedLeBytes W (ibigToLeBytes W z) = z := by
    rw [ibigToLeBytes_eq W h8 hW, fromSignedLeBytes_eq W h8 hW _ (signedLeBytesSpec_bytes z),
      ofSignedLeBytesSpec_signedLeBytesSpec]
  refine ⟨h1, ?_⟩
  unfold fromSignedBeBytes ibigToBeBytes
  rw [List.reverse_reverse]; exact h1

end Dashu.Model.Text
