import Dashu.Model.NT.Log
/-
  C12: the no_std table estimator of `base/src/math/log.rs`.  For every `u16` value `n ≥ 256`:
  `log2_fp8(n)/256 ≤ log2 n ≤ ceil_log2_fp8(n)/256`, stated without logarithms as
  `2^log2_fp8(n) ≤ n^256` and `n^256 ≤ 2^ceil_log2_fp8(n)` and decided by kernel evaluation over all
  65 280 values (no axioms).
-/
namespace Dashu.Model.NT

/-- the check for one value (`ceil_log2_fp8` is only called on non powers of two) -/
def log2Fp8Ok (n : Nat) : Bool :=
  decide (2 ^ log2Fp8 n ≤ n ^ 256) &&
  (n == 2 ^ (bitLen n - 1) || decide (n ^ 256 ≤ 2 ^ ceilLog2Fp8 n))

/-- `p` holds on `lo, lo+1, …, lo+k−1` -/
def allFrom (p : Nat → Bool) : Nat → Nat → Bool
  | 0, _ => true
  | k + 1, lo => p lo && allFrom p k (lo + 1)

theorem allFrom_spec (p : Nat → Bool) : ∀ k lo, allFrom p k lo = true → ∀ n, lo ≤ n → n < lo + k → p n = true := by
  intro k
  induction k with
  | zero => intro lo _ n h1 h2; omega
  | succ k ih =>
    intro lo h n h1 h2
    simp only [allFrom, Bool.and_eq_true] at h
    by_cases hn : n = lo
    · subst hn; exact h.1
    · exact ih (lo + 1) h.2 n (by omega) (by omega)

/-- one block of 256 consecutive values -/
def blockOk (b : Nat) : Bool := allFrom log2Fp8Ok 256 (256 * b)

theorem table_blocks : allFrom blockOk 255 1 = true := by decide +kernel

/-- the table theorem: for all `u16` values above `0xff` -/
theorem log2_fp8_sound (n : Nat) (h1 : 256 ≤ n) (h2 : n < 65536) :
    2 ^ log2Fp8 n ≤ n ^ 256 ∧ (n ≠ 2 ^ (bitLen n - 1) → n ^ 256 ≤ 2 ^ ceilLog2Fp8 n) := by
  have hb := allFrom_spec blockOk 255 1 table_blocks (n / 256) (by omega) (by omega)
  have hn := allFrom_spec log2Fp8Ok 256 (256 * (n / 256)) hb n (by omega) (by omega)
  simp only [log2Fp8Ok, Bool.and_eq_true, Bool.or_eq_true, decide_eq_true_eq, beq_iff_eq] at hn
  exact ⟨hn.1, fun hne => hn.2.resolve_left hne⟩

end Dashu.Model.NT
