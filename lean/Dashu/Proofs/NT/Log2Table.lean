import Dashu.Model.NT.Log
import Mathlib.Tactic.IntervalCases
/-
  C12: the no_std table estimator of `base/src/math/log.rs`.  For every `u16` value `n ≥ 256`:
  `log2_fp8(n)/256 ≤ log2 n ≤ ceil_log2_fp8(n)/256`, stated without logarithms as
  `2^log2_fp8(n) ≤ n^256` and `n^256 ≤ 2^ceil_log2_fp8(n)` and decided by kernel evaluation over all
  65 280 values (no axioms).
-/
namespace Dashu.Model.NT

/-- the check for one value (`ceil_log2_fp8` is only called on non powers of two) -/
def log2Fp8Ok (n : Nat) : Bool :=
  decide (2 ^ log2Fp8 n ≤ n ^ 256) &&
  (n == 2 ^ (bitLen n - 1) || decide (n ^ 256 ≤ 2 ^ ceilLog2Fp8 n))

/-- `p` holds on `lo, lo+1, …, lo+k−1` -/
def allFrom (p : Nat → Bool) : Nat → Nat → Bool
  | 0, _ => true
  | k + 1, lo => p lo && allFrom p k (lo + 1)

theorem allFrom_spec (p : Nat → Bool) : ∀ k lo, allFrom p k lo = true → ∀ n, lo ≤ n → n < lo + k → p n = true := by
  intro k
  induction k with
  | zero => intro lo _ n h1 h2; omega
  | succ k ih =>
    intro lo h n h1 h2
    simp only [allFrom, Bool.and_eq_true] at h
    by_cases hn : n = lo
    · subst hn; exact h.1
    · exact ih (lo + 1) h.2 n (by omega) (by omega)

/-- one block of 256 consecutive values -/
def blockOk (b : Nat) : Bool := allFrom log2Fp8Ok 256 (256 * b)

-- blocks 1 … 255 in 15 chunks of 17 blocks (each chunk is a separate kernel evaluation)
theorem table_chunk_0 : allFrom blockOk 17 1 = true := by decide +kernel
theorem table_chunk_1 : allFrom blockOk 17 18 = true := by decide +kernel
theorem table_chunk_2 : allFrom blockOk 17 35 = true := by decide +kernel
theorem table_chunk_3 : allFrom blockOk 17 52 = true := by decide +kernel
theorem table_chunk_4 : allFrom blockOk 17 69 = true := by decide +kernel
theorem table_chunk_5 : allFrom blockOk 17 86 = true := by decide +kernel
theorem table_chunk_6 : allFrom blockOk 17 103 = true := by decide +kernel
theorem table_chunk_7 : allFrom blockOk 17 120 = true := by decide +kernel
theorem table_chunk_8 : allFrom blockOk 17 137 = true := by decide +kernel
theorem table_chunk_9 : allFrom blockOk 17 154 = true := by decide +kernel
theorem table_chunk_10 : allFrom blockOk 17 171 = true := by decide +kernel
theorem table_chunk_11 : allFrom blockOk 17 188 = true := by decide +kernel
theorem table_chunk_12 : allFrom blockOk 17 205 = true := by decide +kernel
theorem table_chunk_13 : allFrom blockOk 17 222 = true := by decide +kernel
theorem table_chunk_14 : allFrom blockOk 17 239 = true := by decide +kernel

theorem table_block (b : Nat) (h1 : 1 ≤ b) (h2 : b < 256) : blockOk b = true := by
  have hc : b < 1 + 17 * 15 := by omega
  -- which chunk
  obtain ⟨k, hk, hlo, hhi⟩ : ∃ k, k < 15 ∧ 1 + 17 * k ≤ b ∧ b < 1 + 17 * k + 17 :=
    ⟨(b - 1) / 17, by omega, by omega, by omega⟩
  interval_cases k
  · exact allFrom_spec blockOk 17 1 table_chunk_0 _ (by omega) (by omega)
  · exact allFrom_spec blockOk 17 18 table_chunk_1 _ (by omega) (by omega)
  · exact allFrom_spec blockOk 17 35 table_chunk_2 _ (by omega) (by omega)
  · exact allFrom_spec blockOk 17 52 table_chunk_3 _ (by omega) (by omega)
  · exact allFrom_spec blockOk 17 69 table_chunk_4 _ (by omega) (by omega)
  · exact allFrom_spec blockOk 17 86 table_chunk_5 _ (by omega) (by omega)
  · exact allFrom_spec blockOk 17 103 table_chunk_6 _ (by omega) (by omega)
  · exact allFrom_spec blockOk 17 120 table_chunk_7 _ (by omega) (by omega)
  · exact allFrom_spec blockOk 17 137 table_chunk_8 _ (by omega) (by omega)
  · exact allFrom_spec blockOk 17 154 table_chunk_9 _ (by omega) (by omega)
  · exact allFrom_spec blockOk 17 171 table_chunk_10 _ (by omega) (by omega)
  · exact allFrom_spec blockOk 17 188 table_chunk_11 _ (by omega) (by omega)
  · exact allFrom_spec blockOk 17 205 table_chunk_12 _ (by omega) (by omega)
  · exact allFrom_spec blockOk 17 222 table_chunk_13 _ (by omega) (by omega)
  · exact allFrom_spec blockOk 17 239 table_chunk_14 _ (by omega) (by omega)

/-- the table theorem: for all `u16` values above `0xff` -/
theorem log2_fp8_sound (n : Nat) (h1 : 256 ≤ n) (h2 : n < 65536) :
    2 ^ log2Fp8 n ≤ n ^ 256 ∧ (n ≠ 2 ^ (bitLen n - 1) → n ^ 256 ≤ 2 ^ ceilLog2Fp8 n) := by
  have hb := table_block (n / 256) (by omega) (by omega)
  have hn := allFrom_spec log2Fp8Ok 256 (256 * (n / 256)) hb n (by omega) (by omega)
  simp only [log2Fp8Ok, Bool.and_eq_true, Bool.or_eq_true, decide_eq_true_eq, beq_iff_eq] at hn
  exact ⟨hn.1, fun hne => hn.2.resolve_left hne⟩

end Dashu.Model.NT
