import Dashu.Proofs.NT.LehmerAlign2
/-
  C12 (round 8): a COMMITTED Lehmer guess happens only on operands whose lengths differ by at most one word —
  the first `debug_assert!` of `lehmer_step` (`x.len() - y.len() ∈ {0, 1}` after trimming), derived from the loop's
  own guess instead of assumed.  If `y` is two or more words shorter than `x`, the aligned leading part of `y` is so
  small that the first quotient of `lehmer_guess(_dword)` exceeds `COEFF_LIMIT` (or the part is 0): `(1, 0, 0, 1)`.
-/
namespace Dashu.Model.NT
open Dashu.Model

/-- the first test of `lehmer_guess` fails: nothing is committed -/
theorem lehmerGuess_fail_first (lim n xh yh : Nat) (h : yh = 0 ∨ lim < xh / yh) :
    lehmerGuess lim (n + 1) xh yh 1 0 0 1 = (1, 0, 0, 1) := by
  unfold lehmerGuess
  rcases h with h | h
  · simp [h]
  · by_cases h0 : yh = 0
    · simp [h0]
    · simp [h0, h]

/-- truncating both operands at any common bit position keeps the quotient above `2^W` when `y` is two words shorter -/
theorem gap_quotient {W x y k : Nat} (hW : 0 < W) (hxy : y ≤ x) (hgap : wordLen W y + 2 ≤ wordLen W x) :
    y / 2 ^ k = 0 ∨ 2 ^ W ≤ x / 2 ^ k / (y / 2 ^ k) := by
  by_cases h0 : y / 2 ^ k = 0
  · exact Or.inl h0
  · right
    have hx0 : x ≠ 0 := by
      intro h; subst h
      have : wordLen W 0 = 0 := by
        simp [wordLen, bitLen]
        omega
      omega
    have hxge := two_pow_le_of_wordLen hW hx0
    have hylt := lt_two_pow_wordLen hW y
    have hpos : 0 < y / 2 ^ k := Nat.pos_of_ne_zero h0
    -- y < 2^(W·(lx − 2)), 2^W · 2^(W·(lx − 2)) ≤ x
    have hy2 : y < 2 ^ (W * (wordLen W x - 2)) :=
      Nat.lt_of_lt_of_le hylt (Nat.pow_le_pow_right (by decide) (Nat.mul_le_mul_left W (by omega)))
    have e : 2 ^ (W * (wordLen W x - 1)) = 2 ^ W * 2 ^ (W * (wordLen W x - 2)) := by
      rw [← Nat.pow_add]; congr 1
      have : wordLen W x - 1 = (wordLen W x - 2) + 1 := by omega
      rw [this, Nat.mul_succ]; omega
    have hx2 : 2 ^ W * y ≤ x := by
      calc 2 ^ W * y ≤ 2 ^ W * 2 ^ (W * (wordLen W x - 2)) := Nat.mul_le_mul_left _ (Nat.le_of_lt hy2)
        _ = 2 ^ (W * (wordLen W x - 1)) := e.symm
        _ ≤ x := hxge
    have hyk : y / 2 ^ k * 2 ^ k ≤ y := Nat.div_mul_le_self y (2 ^ k)
    rw [Nat.le_div_iff_mul_le hpos, Nat.le_div_iff_mul_le (Nat.two_pow_pos k)]
    calc 2 ^ W * (y / 2 ^ k) * 2 ^ k = 2 ^ W * (y / 2 ^ k * 2 ^ k) := Nat.mul_assoc _ _ _
      _ ≤ 2 ^ W * y := Nat.mul_le_mul_left _ hyk
      _ ≤ x := hx2

/-- **`y` two or more words shorter than `x`: the guess does not commit** (either estimator) -/
theorem lehmerCofactors_gap (W x y : Nat) (hW : 0 < W) (hxy : y ≤ x) (hgap : wordLen W y + 2 ≤ wordLen W x) :
    lehmerCofactors W x y = (1, 0, 0, 1) := by
  have hlim : 2 ^ (W - 1) - 1 < 2 ^ W := by
    have : 2 ^ (W - 1) ≤ 2 ^ W := Nat.pow_le_pow_right (by decide) (by omega)
    have := Nat.two_pow_pos (W - 1)
    omega
  unfold lehmerCofactors
  simp only []
  split
  · obtain ⟨k, hk⟩ := highestWordNormalized_eq hW hxy (by omega : 2 ≤ wordLen W x)
    rw [hk]
    simp only []
    apply lehmerGuess_fail_first
    rcases gap_quotient (k := k) hW hxy hgap with h | h
    · exact Or.inl h
    · exact Or.inr (Nat.lt_of_lt_of_le hlim h)
  · rename_i hbig
    have h300 : 300 ≤ wordLen W x := by unfold minDwordGuessLen at hbig; omega
    obtain ⟨k, hk⟩ := highestDwordNormalized_eq hW hxy (by omega : 3 ≤ wordLen W x)
    rw [hk]
    simp only []
    apply lehmerGuess_fail_first
    rcases gap_quotient (k := k) hW hxy hgap with h | h
    · exact Or.inl h
    · exact Or.inr (Nat.lt_of_lt_of_le hlim h)

/-- **a committed guess (`b ≠ 0`) happens only on operands of equal length or with `x` one word longer** -/
theorem lehmerCofactors_commit_shape (W x y : Nat) (hW : 0 < W) (hxy : y ≤ x)
    (hb : (lehmerCofactors W x y).2.1 ≠ 0) :
    wordLen W y ≤ wordLen W x ∧ wordLen W x ≤ wordLen W y + 1 := by
  refine ⟨wordLen_le_of_lt hW (Nat.lt_of_le_of_lt hxy (lt_two_pow_wordLen hW x)), ?_⟩
  apply Nat.le_of_not_lt
  intro h
  apply hb
  rw [lehmerCofactors_gap W x y hW hxy (by omega)]

end Dashu.Model.NT
