import Dashu.Model.NT.Zimmermann
import Dashu.Proofs.NT.Root
import Mathlib.Tactic.Ring
import Mathlib.Tactic.Linarith
import Mathlib.Tactic.LinearCombination
/-
  C12: Zimmermann's Karatsuba square root (`integer/src/root.rs`): the mirrored `sqrt_rem_42` and the
  recursive `sqrt_rem` return the floor square root and the remainder (with its carry).
-/
namespace Dashu.Model.NT
open Dashu.Model

/-- a pair with `s² + r = a`, `r ≤ 2s` is the floor square root and its remainder -/
theorem isRoot_of_rem {a s r : Nat} (h : s * s + r = a) (hr : r ≤ 2 * s) : IsRoot a 2 s := by
  refine ⟨by rw [Nat.pow_two]; omega, ?_⟩
  rw [Nat.pow_two]
  have : (s + 1) * (s + 1) = s * s + 2 * s + 1 := by ring
  omega

theorem rem_le_of_isRoot {a s : Nat} (h : IsRoot a 2 s) : a - s * s ≤ 2 * s ∧ s * s ≤ a := by
  obtain ⟨h1, h2⟩ := h
  rw [Nat.pow_two] at h1 h2
  have : (s + 1) * (s + 1) = s * s + 2 * s + 1 := by ring
  omega

/-- **The Karatsuba square-root step** (Zimmermann 1999), over the integers: from the root and
    remainder of the high part, one division by `2·s1` gives a root candidate `s = s1·B + q` whose
    remainder `r = U·B + b0 − q²` is exact; `q ≤ B`; `r ≤ 2s`; a negative `r` is repaired by one
    decrement; and `q = B` always needs the repair. -/
theorem karatsuba_step {s1 R1 B b1 b0 q U hi : Nat}
    (hhi : hi = s1 * s1 + R1) (hR1 : R1 ≤ 2 * s1) (hB : B ≤ 2 * s1) (hb1 : b1 < B) (hb0 : b0 < B)
    (hdiv : R1 * B + b1 = 2 * q * s1 + U) (hU : U < 2 * s1) :
    ((hi * (B * B) + b1 * B + b0 : Nat) : Int) = ((s1 * B + q) * (s1 * B + q) : Nat) + ((U * B + b0 : Nat) - (q * q : Nat) : Int) ∧
    q ≤ B ∧
    ((U * B + b0 : Nat) : Int) - (q * q : Nat) ≤ 2 * ((s1 * B + q : Nat) : Int) ∧
    (((U * B + b0 : Nat) : Int) - (q * q : Nat) < 0 →
        0 ≤ ((U * B + b0 : Nat) : Int) - (q * q : Nat) + 2 * ((s1 * B + q : Nat) : Int) - 1 ∧ 1 ≤ q) ∧
    (q = B → ((U * B + b0 : Nat) : Int) - (q * q : Nat) < 0) := by
  have hqB : q ≤ B := by
    by_contra hc
    have h1 : (B + 1) * s1 ≤ q * s1 := Nat.mul_le_mul_right _ (by omega)
    have h2 : R1 * B ≤ 2 * s1 * B := Nat.mul_le_mul_right _ hR1
    have e1 : (B + 1) * s1 = B * s1 + s1 := by ring
    have e2 : 2 * s1 * B = 2 * (B * s1) := by ring
    have e3 : 2 * q * s1 = 2 * (q * s1) := by ring
    omega
  have hq2 : q * q ≤ B * B := Nat.mul_le_mul hqB hqB
  have hBB : B * B ≤ 2 * s1 * B := Nat.mul_le_mul_right _ hB
  have hUB : U * B + B ≤ 2 * s1 * B := by
    have : (U + 1) * B ≤ 2 * s1 * B := Nat.mul_le_mul_right _ (by omega)
    have e : (U + 1) * B = U * B + B := by ring
    omega
  refine ⟨?_, hqB, ?_, ?_, ?_⟩
  · subst hhi
    have hd : ((R1 * B + b1 : Nat) : Int) = ((2 * q * s1 + U : Nat) : Int) := by rw [hdiv]
    push_cast at hd ⊢
    linear_combination (B : Int) * hd
  · push_cast
    have : ((U * B + B : Nat) : Int) ≤ ((2 * s1 * B : Nat) : Int) := by exact_mod_cast hUB
    push_cast at this
    have h0 : (0 : Int) ≤ (q : Int) * q := by positivity
    have hb : (b0 : Int) < B := by exact_mod_cast hb0
    have hq0 : (0 : Int) ≤ q := by positivity
    linarith
  · intro hneg
    have hq1 : 1 ≤ q := by
      by_contra hc
      have : q = 0 := by omega
      subst this
      simp at hneg
      have : (0 : Int) ≤ (U : Int) * B + b0 := by positivity
      omega
    refine ⟨?_, hq1⟩
    push_cast
    have h1 : ((q * q : Nat) : Int) ≤ ((B * B : Nat) : Int) := by exact_mod_cast hq2
    have h2 : ((B * B : Nat) : Int) ≤ ((2 * s1 * B : Nat) : Int) := by exact_mod_cast hBB
    push_cast at h1 h2
    have h3 : (0 : Int) ≤ (U : Int) * B + b0 := by positivity
    have h4 : (1 : Int) ≤ q := by exact_mod_cast hq1
    linarith
  · intro hq
    subst hq
    -- U ≤ b1 < q
    have h2 : R1 * q ≤ 2 * s1 * q := Nat.mul_le_mul_right _ hR1
    have e : 2 * q * s1 = 2 * s1 * q := by ring
    have hUb : U ≤ b1 := by omega
    have hUq : (U + 1) * q ≤ q * q := Nat.mul_le_mul_right _ (by omega)
    have e2 : (U + 1) * q = U * q + q := by ring
    have : U * q + b0 < q * q := by omega
    have : ((U * q + b0 : Nat) : Int) < ((q * q : Nat) : Int) := by exact_mod_cast this
    omega

end Dashu.Model.NT

namespace Dashu.Model.NT
open Dashu.Model

-- ---------------------------------------------------------------- in-place primitives on values

theorem sub_mod_val {M x y : Nat} (hx : x < M) (hy : y ≤ M) :
    (x + M - y) % M = if x < y then x + M - y else x - y := by
  split
  · rw [Nat.mod_eq_of_lt (by omega)]
  · have : x + M - y = (x - y) + M := by omega
    rw [this, Nat.add_mod_right, Nat.mod_eq_of_lt (by omega)]

theorem div_lt_two {M t : Nat} (hM : 0 < M) (ht : t < 2 * M) : t / M = if t < M then 0 else 1 := by
  split
  · exact Nat.div_eq_of_lt ‹_›
  · have h1 : t / M < 2 := by rw [Nat.div_lt_iff_lt_mul hM]; omega
    have h2 : 1 ≤ t / M := by rw [Nat.le_div_iff_mul_le hM]; omega
    omega

theorem mod_lt_two {M t : Nat} (hM : 0 < M) (ht : t < 2 * M) : t % M = if t < M then t else t - M := by
  have h := Nat.div_add_mod t M
  rw [div_lt_two hM ht] at h
  split <;> rename_i hc <;> simp only [hc, if_true, if_false] at h <;> omega

/-- result of `kDiv`: the true quotient `q = qlo + q_top·B` and remainder `U = u + c·Mh` of the
    division of `R1·B + b1` by `2·s1` -/
theorem kDiv_spec {B Bh Mh s1 r1 b1 k : Nat} {r1top : Bool}
    (hBh : Bh = 2 ^ k) (hB : B = 2 * Bh) (hs1 : s1 < Mh) (hn : Mh ≤ 2 * s1) (hr1 : r1 < Mh)
    (hR1 : r1 + (if r1top then Mh else 0) ≤ 2 * s1) (hb1 : b1 < B) :
    ∃ qlo qtop u c0, kDiv B Bh Mh s1 r1 r1top b1 = (qlo, qtop, u, ((c0 : Nat) : Int)) ∧
      qlo < B ∧ u < Mh ∧ c0 ≤ 1 ∧ u + c0 * Mh < 2 * s1 ∧
      (r1 + (if r1top then Mh else 0)) * B + b1 = 2 * (qlo + (if qtop then B else 0)) * s1 + (u + c0 * Mh) := by
  have hs1pos : 0 < s1 := by omega
  have hMh : 0 < Mh := by omega
  have hBhpos : 0 < Bh := by rw [hBh]; exact Nat.two_pow_pos k
  -- stage 1: the conditional subtraction
  obtain ⟨r1', hr1'def, hr1'lt, hr1'val⟩ : ∃ v, v = (if r1top then (r1 + Mh - s1) % Mh else r1) ∧ v < Mh ∧
      v + (if r1top then s1 else 0) = r1 + (if r1top then Mh else 0) := by
    refine ⟨_, rfl, ?_, ?_⟩
    · cases r1top
      · simpa using hr1
      · simp only [if_true]; exact Nat.mod_lt _ hMh
    · cases r1top
      · simp
      · simp only [if_true] at hR1 ⊢
        rw [Nat.mod_eq_of_lt (by omega)]; omega
  -- stage 2: the division
  have hdm := Nat.div_add_mod (r1' * B + b1) s1
  have hult := Nat.mod_lt (r1' * B + b1) hs1pos
  have hQlt : (r1' * B + b1) / s1 < 2 * B := by
    rw [Nat.div_lt_iff_lt_mul hs1pos]
    have h1 : (r1' + 1) * B ≤ Mh * B := Nat.mul_le_mul_right _ (by omega)
    have h2 : Mh * B ≤ 2 * s1 * B := Nat.mul_le_mul_right _ hn
    have e1 : (r1' + 1) * B = r1' * B + B := by ring
    have e2 : 2 * B * s1 = 2 * s1 * B := by ring
    omega
  unfold kDiv
  simp only []
  rw [← hr1'def]
  generalize (r1' * B + b1) / s1 = Q at *
  generalize (r1' * B + b1) % s1 = u at *
  have hBpos : 0 < B := by omega
  have hQlolt : Q % B < B := Nat.mod_lt _ hBpos
  have hQs := Nat.mod_add_div Q B
  have hcylt : Q / B < 2 := by rw [Nat.div_lt_iff_lt_mul hBpos]; omega
  have hpar := Nat.div_add_mod (Q % B) 2
  have hparlt : Q % B % 2 < 2 := Nat.mod_lt _ (by decide)
  generalize Q % B % 2 = par at *
  generalize Q % B / 2 = qh at *
  generalize Q % B = Qlo at *
  generalize Q / B = cy at *
  have hqh : qh < Bh := by omega
  have hor : ∀ x : Bool, (qh ||| (if x then Bh else 0)) = qh + (if x then Bh else 0) := by
    intro x
    cases x
    · simp
    · simp only [if_true]
      have := Nat.two_pow_add_eq_or_of_lt (i := k) (b := qh) (by rw [← hBh]; exact hqh) 1
      rw [Nat.mul_one, ← hBh] at this
      rw [Nat.or_comm, ← this, Nat.add_comm]
  rw [hor]
  have hm := Nat.mod_add_div (u + s1) Mh
  have hc0 : (u + s1) / Mh < 2 := by rw [Nat.div_lt_iff_lt_mul hMh]; omega
  have hu' := Nat.mod_lt (u + s1) hMh
  generalize (u + s1) % Mh = u' at *
  generalize (u + s1) / Mh = c0 at *
  subst hB
  have hcy : cy = 0 ∨ cy = 1 := by omega
  have hpr : par = 0 ∨ par = 1 := by omega
  have hc0' : c0 * Mh = Mh * c0 := Nat.mul_comm _ _
  rcases hpr with rfl | rfl
  · rw [if_neg (by decide)]
    refine ⟨_, _, u, 0, rfl, ?_, by omega, by omega, by omega, ?_⟩
    · rcases hcy with rfl | rfl <;> cases r1top <;> simp <;> omega
    · rcases hcy with rfl | rfl <;> cases r1top <;> simp at hr1'val ⊢ <;> zify at hr1'val hdm hQs hpar ⊢ <;>
        linear_combination (-(2 * Bh : Int)) * hr1'val - hdm - (s1 : Int) * hQs - (s1 : Int) * hpar
  · rw [if_pos rfl]
    refine ⟨_, _, u', c0, rfl, ?_, hu', by omega, by omega, ?_⟩
    · rcases hcy with rfl | rfl <;> cases r1top <;> simp <;> omega
    · rcases hcy with rfl | rfl <;> cases r1top <;> simp at hr1'val ⊢ <;> zify at hr1'val hdm hQs hpar hm ⊢ <;>
        linear_combination (-(2 * Bh : Int)) * hr1'val - hdm - (s1 : Int) * hQs - (s1 : Int) * hpar - hm

theorem carry01 {c : Int} {Mn alo : Nat} (h0 : 0 ≤ c * Mn + alo) (h1 : c * Mn + alo < 2 * Mn)
    (halo : alo < Mn) : c = 0 ∨ c = 1 := by
  have hM : (0 : Int) ≤ (Mn : Int) := Int.natCast_nonneg _
  have ha : ((alo : Nat) : Int) < Mn := by exact_mod_cast halo
  have ha0 : (0 : Int) ≤ (alo : Int) := Int.natCast_nonneg _
  by_contra hc
  rcases Int.lt_or_le c 0 with h | h
  · have : c * Mn ≤ (-1) * Mn := Int.mul_le_mul_of_nonneg_right (by omega) hM
    omega
  · have : 2 * (Mn : Int) ≤ c * Mn := Int.mul_le_mul_of_nonneg_right (by omega) hM
    omega

theorem neg_iff_carry {c : Int} {Mn alo : Nat} (halo : alo < Mn) : c < 0 ↔ c * Mn + alo < 0 := by
  have hM : (0 : Int) ≤ (Mn : Int) := Int.natCast_nonneg _
  have ha : ((alo : Nat) : Int) < Mn := by exact_mod_cast halo
  have ha0 : (0 : Int) ≤ (alo : Int) := Int.natCast_nonneg _
  constructor
  · intro h
    have : c * Mn ≤ (-1) * Mn := Int.mul_le_mul_of_nonneg_right (by omega) hM
    omega
  · intro h
    by_contra hc
    have : 0 * (Mn : Int) ≤ c * Mn := Int.mul_le_mul_of_nonneg_right (by omega) hM
    omega

/-- result of `kSub`: `c·Mn + a_lo` is the exact (signed) remainder `U·B + b0 − q²` -/
theorem kSub_spec {B Mh Mn E qlo u c0 b0 : Nat} {odd qtop : Bool}
    (hMn : Mn = Mh * B) (hE : Mn = B * B * E) (hEpos : 0 < E) (hodd : odd = false → E = 1)
    (hu : u < Mh) (hb0 : b0 < B) (hq : qlo + (if qtop then B else 0) ≤ B) :
    ∃ alo c, kSub B Mn odd qlo qtop u ((c0 : Nat) : Int) b0 = (alo, c) ∧ alo < Mn ∧
      c * Mn + alo = (((u + c0 * Mh) * B + b0 : Nat) : Int)
        - (((qlo + (if qtop then B else 0)) * (qlo + (if qtop then B else 0)) : Nat) : Int) := by
  have halo : u * B + b0 < Mn := by
    have : (u + 1) * B ≤ Mh * B := Nat.mul_le_mul_right _ (by omega)
    have e : (u + 1) * B = u * B + B := by ring
    omega
  have hBB : B * B ≤ Mn := by rw [hE]; exact Nat.le_mul_of_pos_right _ hEpos
  unfold kSub
  simp only []
  refine ⟨_, _, rfl, Nat.mod_lt _ (by omega), ?_⟩
  cases qtop
  · simp only [Bool.false_eq_true, if_false, Nat.add_zero, Int.sub_zero] at hq ⊢
    have hqq : qlo * qlo ≤ B * B := Nat.mul_le_mul hq hq
    have hahi : (if odd = true then qlo * qlo else qlo * qlo) = qlo * qlo := by split <;> rfl
    have hc : (if odd = true then ((c0 : Nat) : Int) else (c0 : Int)) = c0 := by split <;> rfl
    rw [hahi, hc, sub_mod_val halo (by omega)]
    split
    · rename_i hlt
      have : ((u * B + b0 + Mn - qlo * qlo : Nat) : Int) = (u * B + b0 + Mn : Nat) - (qlo * qlo : Nat) :=
        Int.ofNat_sub (by omega)
      rw [this, hMn]; push_cast; ring
    · rename_i hge
      have : ((u * B + b0 - qlo * qlo : Nat) : Int) = (u * B + b0 : Nat) - (qlo * qlo : Nat) :=
        Int.ofNat_sub (by omega)
      rw [this, hMn]; push_cast; ring
  · simp only [if_true] at hq ⊢
    have hq0 : qlo = 0 := by omega
    subst hq0
    cases odd
    · have hE1 := hodd rfl
      subst hE1
      simp only [Bool.false_eq_true, if_false, Nat.zero_add, Nat.mul_one] at hE ⊢
      rw [sub_mod_val halo (by omega)]
      simp only [Nat.not_lt_zero, if_false, Nat.sub_zero, Int.sub_zero]
      have e1 : ((Mn : Nat) : Int) = (B : Int) * B := by rw [hE]; push_cast; ring
      have e2 : ((Mh * B : Nat) : Int) = (B : Int) * B := by rw [← hMn, e1]
      push_cast at e2 ⊢
      rw [e1]; linear_combination (-(c0 : Int)) * e2
    · simp only [if_true, Nat.zero_add]
      rw [sub_mod_val halo hBB]
      split
      · rename_i hlt
        have : ((u * B + b0 + Mn - B * B : Nat) : Int) = (u * B + b0 + Mn : Nat) - (B * B : Nat) :=
          Int.ofNat_sub (by omega)
        rw [this, hMn]; push_cast; ring
      · rename_i hge
        have : ((u * B + b0 - B * B : Nat) : Int) = (u * B + b0 : Nat) - (B * B : Nat) :=
          Int.ofNat_sub (by omega)
        rw [this, hMn]; push_cast; ring

/-- what `sqrt_rem` promises for its three outputs on a `2n`-word value `a` (`Mn = 2^(W·n)`) -/
def KOut (Mn a : Nat) (res : Nat × Nat × Bool) : Prop :=
  res.1 * res.1 + (res.2.1 + (if res.2.2 then Mn else 0)) = a ∧
  res.2.1 + (if res.2.2 then Mn else 0) ≤ 2 * res.1 ∧ res.2.1 < Mn

/-- result of `kFix`: from a candidate `s = s1·B + q` with signed remainder `r = c·Mn + a_lo`
    (`r ≤ 2s`, one decrement repairs a negative `r`, `q_top` forces the repair) the final triple -/
theorem kFix_spec {B Mh Mn s1 qlo alo : Nat} {qtop : Bool} {c : Int}
    (hMn : Mn = Mh * B) (hs1 : s1 < Mh) (hqlo : qlo < B) (hq : qlo + (if qtop then B else 0) ≤ B)
    (halo : alo < Mn)
    (h1 : c * Mn + alo ≤ 2 * ((s1 * B + (qlo + (if qtop then B else 0)) : Nat) : Int))
    (h2 : c * Mn + alo < 0 → 0 ≤ c * Mn + alo + 2 * ((s1 * B + (qlo + (if qtop then B else 0)) : Nat) : Int) - 1 ∧
        1 ≤ qlo + (if qtop then B else 0))
    (h3 : qtop = true → c * Mn + alo < 0) :
    ∃ sf rf cf, kFix B Mh Mn s1 qlo qtop alo c = (sf, rf, cf) ∧ rf < Mn ∧
      ((sf * sf + (rf + (if cf then Mn else 0)) : Nat) : Int)
        = ((s1 * B + (qlo + (if qtop then B else 0))) * (s1 * B + (qlo + (if qtop then B else 0))) : Nat) + (c * Mn + alo) ∧
      rf + (if cf then Mn else 0) ≤ 2 * sf := by
  have hMnpos : 0 < Mn := by omega
  have hsB : (s1 + 1) * B ≤ Mh * B := Nat.mul_le_mul_right _ (by omega)
  have esB : (s1 + 1) * B = s1 * B + B := by ring
  unfold kFix
  by_cases hc : c < 0
  · have hr := (neg_iff_carry halo).1 hc
    obtain ⟨hr'0, hq1⟩ := h2 hr
    rw [if_pos hc]
    simp only []
    -- add_word_in_place(b[split..], q_top)
    have htle : s1 + (if qtop then 1 else 0) ≤ Mh := by split <;> omega
    have hMhpos : 0 < Mh := by omega
    have hov := Nat.mod_add_div (s1 + (if qtop then 1 else 0)) Mh
    have hs1' := Nat.mod_lt (s1 + (if qtop then 1 else 0)) hMhpos
    have hovlt : (s1 + (if qtop then 1 else 0)) / Mh < 2 := by rw [Nat.div_lt_iff_lt_mul hMhpos]; omega
    generalize (s1 + (if qtop then 1 else 0)) % Mh = s1' at *
    generalize (s1 + (if qtop then 1 else 0)) / Mh = ov at *
    -- s = b + ov·Mn
    have hb : s1' * B + qlo < Mn := by
      have : (s1' + 1) * B ≤ Mh * B := Nat.mul_le_mul_right _ (by omega)
      have e : (s1' + 1) * B = s1' * B + B := by ring
      omega
    have hs : s1 * B + (qlo + (if qtop then B else 0)) = (s1' * B + qlo) + ov * Mn := by
      have e1 : (s1 + (if qtop then 1 else 0)) * B = s1 * B + (if qtop then B else 0) := by
        cases qtop <;> simp [Nat.add_mul]
      have e2 : (s1' + Mh * ov) * B = s1' * B + ov * Mn := by rw [hMn]; ring
      rw [← hov, e2] at e1
      omega
    generalize hbdef : s1' * B + qlo = b at *
    generalize hsdef : s1 * B + (qlo + (if qtop then B else 0)) = s at *
    have hsle : s ≤ Mn := by rw [← hsdef]; omega
    -- add_mul_word_in_place(a_lo, 2, b)
    have ht2 := Nat.mod_add_div (alo + 2 * b) Mn
    have halo3 := Nat.mod_lt (alo + 2 * b) hMnpos
    generalize (alo + 2 * b) % Mn = alo3 at *
    generalize (alo + 2 * b) / Mn = k2 at *
    -- sub_one_in_place(a_lo), sub_one_in_place(b)
    rw [sub_mod_val halo3 (by omega), sub_mod_val hb (by omega)]
    have hbf : (if b < 1 then b + Mn - 1 else b - 1) = s - 1 := by
      have : ov = 0 ∨ ov = 1 := by omega
      rcases this with rfl | rfl
      · split <;> omega
      · split <;> omega
    rw [hbf]
    -- the accumulated carry
    have hacc : (c + (k2 : Int) + 2 * (ov : Int) - (if alo3 = 0 then 1 else 0)) * Mn
        + ((if alo3 < 1 then alo3 + Mn - 1 else alo3 - 1 : Nat) : Int) = c * Mn + alo + 2 * (s : Int) - 1 := by
      have e1 : ((alo3 + Mn * k2 : Nat) : Int) = ((alo + 2 * b : Nat) : Int) := by rw [ht2]
      have e2 : ((s : Nat) : Int) = ((b + ov * Mn : Nat) : Int) := by rw [hs]
      push_cast at e1 e2
      by_cases h0 : alo3 = 0
      · subst h0
        simp only [if_true, Nat.lt_one_iff, Nat.zero_add]
        have : ((Mn - 1 : Nat) : Int) = (Mn : Int) - 1 := by omega
        rw [this]
        linear_combination e1 - 2 * e2
      · have hlt : ¬ alo3 < 1 := by omega
        simp only [h0, hlt, if_false]
        have : ((alo3 - 1 : Nat) : Int) = (alo3 : Int) - 1 := by omega
        rw [this]
        linear_combination e1 - 2 * e2
    have halo4 : (if alo3 < 1 then alo3 + Mn - 1 else alo3 - 1) < Mn := by split <;> omega
    generalize (if alo3 < 1 then alo3 + Mn - 1 else alo3 - 1) = alo4 at *
    generalize (c + (k2 : Int) + 2 * (ov : Int) - (if alo3 = 0 then 1 else 0)) = c4 at *
    have hs1 : 1 ≤ s := by rw [← hsdef]; omega
    have hc4 := carry01 (c := c4) (Mn := Mn) (alo := alo4) (by omega) (by omega) halo4
    refine ⟨_, _, _, rfl, halo4, ?_, ?_⟩
    · have e : (((s - 1) * (s - 1) : Nat) : Int) = ((s : Int) - 1) * ((s : Int) - 1) := by
        have : ((s - 1 : Nat) : Int) = (s : Int) - 1 := by omega
        push_cast; rw [this]
      rcases hc4 with rfl | rfl
      · simp only [Int.lt_irrefl, decide_false, Bool.false_eq_true, if_false, Nat.add_zero] at hacc ⊢
        push_cast [e]
        linear_combination hacc
      · simp only [show (1 : Int) > 0 by decide, decide_true, if_true] at hacc ⊢
        push_cast [e]
        linear_combination hacc
    · rcases hc4 with rfl | rfl
      · simp only [Int.lt_irrefl, decide_false, Bool.false_eq_true, if_false, Nat.add_zero] at hacc ⊢
        omega
      · simp only [show (1 : Int) > 0 by decide, decide_true, if_true] at hacc ⊢
        omega
  · have hr : ¬ (c * Mn + alo < 0) := fun h => hc ((neg_iff_carry halo).2 h)
    have hqt : qtop = false := by
      cases qtop
      · rfl
      · exact absurd (h3 rfl) hr
    subst hqt
    rw [if_neg hc]
    simp only [Bool.false_eq_true, if_false, Nat.add_zero] at h1 ⊢
    have hslt : s1 * B + qlo < Mn := by omega
    generalize s1 * B + qlo = s at *
    have hc01 := carry01 (c := c) (Mn := Mn) (alo := alo) (by omega) (by omega) halo
    refine ⟨_, _, _, rfl, halo, ?_, ?_⟩
    · rcases hc01 with rfl | rfl
      · simp
      · simp only [show (1 : Int) > 0 by decide, decide_true, if_true]
        push_cast; ring
    · rcases hc01 with rfl | rfl
      · simp at h1 ⊢; omega
      · simp only [show (1 : Int) > 0 by decide, decide_true, if_true]
        omega

/-- **one level of `root::sqrt_rem` is correct**: from the root and remainder (with carry) of the high
    `2h` words, `kStep` returns the root and remainder (with carry) of all `2n` words -/
theorem kStep_spec {B Bh Mh Mn E s1 r1 b1 b0 hi k : Nat} {odd r1top : Bool}
    (hBh : Bh = 2 ^ k) (hB : B = 2 * Bh) (hMn : Mn = Mh * B) (hE : Mn = B * B * E) (hEpos : 0 < E)
    (hodd : odd = false → E = 1) (hnorm : Mh ≤ 2 * s1) (hb1 : b1 < B) (hb0 : b0 < B)
    (hrec : KOut Mh hi (s1, r1, r1top)) (hs1 : s1 < Mh) :
    KOut Mn (hi * (B * B) + b1 * B + b0) (kStep B Bh Mh Mn odd s1 r1 r1top b1 b0) := by
  obtain ⟨hval, hle, hr1⟩ := hrec
  simp only [] at hval hle hr1
  have hBpos : 0 < B := by
    have : 0 < Bh := by rw [hBh]; exact Nat.two_pow_pos k
    omega
  have hBle : B ≤ 2 * s1 := by
    have : B ≤ Mh := by
      by_contra hc
      have h1 : Mh * B ≤ B * B := Nat.mul_le_mul_right _ (by omega)
      have h2 : B * B ≤ B * B * E := Nat.le_mul_of_pos_right _ hEpos
      have h3 : Mh * B < B * B := Nat.mul_lt_mul_of_pos_right (by omega) hBpos
      omega
    omega
  obtain ⟨qlo, qtop, u, c0, hkd, hqlo, hu, hc0, hU, hdiv⟩ :=
    kDiv_spec (r1top := r1top) hBh hB hs1 hnorm hr1 hle hb1
  obtain ⟨hid, hqB, hr2s, hneg, hqtopneg⟩ :=
    karatsuba_step (hi := hi) (b0 := b0) hval.symm hle hBle hb1 hb0 hdiv hU
  obtain ⟨alo, c, hks, halo, hacc⟩ :=
    kSub_spec (odd := odd) (qtop := qtop) (qlo := qlo) (c0 := c0) hMn hE hEpos hodd hu hb0 hqB
  have hacc' : c * Mn + alo = (((u + c0 * Mh) * B + b0 : Nat) : Int)
      - (((qlo + (if qtop then B else 0)) * (qlo + (if qtop then B else 0)) : Nat) : Int) := hacc
  obtain ⟨sf, rf, cf, hkf, hrf, hsum, hrle⟩ :=
    kFix_spec (qtop := qtop) (c := c) hMn hs1 hqlo hqB halo (by rw [hacc']; exact hr2s)
      (by rw [hacc']; exact hneg)
      (by
        intro hq
        rw [hacc']
        apply hqtopneg
        subst hq
        simp only [if_true] at hqB ⊢
        omega)
  unfold kStep
  rw [hkd]
  simp only []
  rw [hks]
  simp only []
  rw [hkf]
  refine ⟨?_, hrle, hrf⟩
  simp only []
  have : ((sf * sf + (rf + (if cf then Mn else 0)) : Nat) : Int) = ((hi * (B * B) + b1 * B + b0 : Nat) : Int) := by
    rw [hsum, hid, hacc']
  exact_mod_cast this

end Dashu.Model.NT

namespace Dashu.Model.NT
open Dashu.Model

/-- a floor square root of a value `≥ (M/2)²` is at least `M/2` -/
theorem root_normalised {hi s1 r Mhh : Nat} (hval : s1 * s1 + r = hi) (hr : r ≤ 2 * s1)
    (hn : Mhh * Mhh ≤ hi) : 2 * Mhh ≤ 2 * s1 := by
  by_contra hc
  have h1 : s1 + 1 ≤ Mhh := by omega
  have h2 : (s1 + 1) * (s1 + 1) ≤ Mhh * Mhh := Nat.mul_le_mul h1 h1
  have e : (s1 + 1) * (s1 + 1) = s1 * s1 + 2 * s1 + 1 := by ring
  omega

/-- the root of a value below `M²` is below `M` -/
theorem root_lt {a s r M : Nat} (hval : s * s + r = a) (ha : a < M * M) : s < M := by
  by_contra hc
  have : M * M ≤ s * s := Nat.mul_le_mul (by omega) (by omega)
  omega

/-- contract of the double-word square root `sqrt_rem_42` starts from (`DoubleWord::sqrt_rem` on a
    normalised value) -/
def PrimSqrtContract (W : Nat) (prim : Nat → Nat × Nat) : Prop :=
  ∀ x, 2 ^ (W - 1) * 2 ^ (W - 1) ≤ x → x < 2 ^ W * 2 ^ W →
    (prim x).1 * (prim x).1 + (prim x).2 = x ∧ (prim x).2 ≤ 2 * (prim x).1

theorem split3 (a B : Nat) (hB : 0 < B) :
    a = a / (B * B) * (B * B) + a / B % B * B + a % B := by
  have h1 := Nat.div_add_mod a B
  have h2 := Nat.div_add_mod (a / B) B
  rw [Nat.div_div_eq_div_mul] at h2
  have e : a / (B * B) * (B * B) = B * (B * (a / (B * B))) := by ring
  have e2 : B * (B * (a / (B * B)) + a / B % B) = B * (B * (a / (B * B))) + a / B % B * B := by ring
  rw [← h2, e2] at h1
  omega

/-- **`sqrt_rem_42` is correct** on every normalised 4-word value, for every double-word square root
    meeting its contract -/
theorem sqrtRem42_spec {W : Nat} (hW : 2 ≤ W) {prim : Nat → Nat × Nat} (hprim : PrimSqrtContract W prim)
    {a : Nat} (hlo : 2 ^ (W - 1) * 2 ^ (W - 1) * (2 ^ W * 2 ^ W) ≤ a) (hhi : a < 2 ^ W * 2 ^ W * (2 ^ W * 2 ^ W)) :
    KOut (2 ^ W * 2 ^ W) a (sqrtRem42 W prim a) := by
  have hBdef : 2 ^ W = 2 * 2 ^ (W - 1) := by
    have : W = (W - 1) + 1 := by omega
    conv => lhs; rw [this, Nat.pow_succ]
    omega
  have hBh2 : 2 ≤ 2 ^ (W - 1) := by
    have : 2 ^ 1 ≤ 2 ^ (W - 1) := Nat.pow_le_pow_right (by decide) (by omega)
    simpa using this
  unfold sqrtRem42
  simp only []
  have hsplit := split3 a (2 ^ W) (Nat.two_pow_pos W)
  have ha0 : a % 2 ^ W < 2 ^ W := Nat.mod_lt _ (Nat.two_pow_pos W)
  have ha1 : a / 2 ^ W % 2 ^ W < 2 ^ W := Nat.mod_lt _ (Nat.two_pow_pos W)
  have hhilt : a / (2 ^ W * 2 ^ W) < 2 ^ W * 2 ^ W := by
    rw [Nat.div_lt_iff_lt_mul (Nat.mul_pos (Nat.two_pow_pos W) (Nat.two_pow_pos W))]; exact hhi
  have hhige : 2 ^ (W - 1) * 2 ^ (W - 1) ≤ a / (2 ^ W * 2 ^ W) := by
    rw [Nat.le_div_iff_mul_le (Nat.mul_pos (Nat.two_pow_pos W) (Nat.two_pow_pos W))]; exact hlo
  obtain ⟨hpv, hpr⟩ := hprim _ hhige hhilt
  generalize a / (2 ^ W * 2 ^ W) = hi at *
  generalize a / 2 ^ W % 2 ^ W = a1 at *
  generalize a % 2 ^ W = a0 at *
  generalize prim hi = pr at *
  obtain ⟨s1, r1⟩ := pr
  simp only [] at hpv hpr ⊢
  have hk : 2 ^ (W - 1) = 2 ^ (W - 1) := rfl
  generalize hBhdef : 2 ^ (W - 1) = Bh at hBdef hBh2 hlo hhige
  generalize 2 ^ W = B at *
  subst hBdef
  -- s1 is a normalised word
  have hs1lt : s1 < 2 * Bh := root_lt hpv hhilt
  have hs1n : 2 * Bh ≤ 2 * s1 := root_normalised hpv hpr hhige
  have hs1pos : 0 < s1 := by omega
  rw [Nat.mod_eq_of_lt hs1lt]
  -- r1 < 2B: split into words
  have hr1lo := Nat.mod_lt r1 (show 0 < 2 * Bh by omega)
  have hr1s := Nat.mod_add_div r1 (2 * Bh)
  have hr1hi : r1 / (2 * Bh) < 2 := by rw [Nat.div_lt_iff_lt_mul (by omega)]; omega
  rw [Nat.mod_eq_of_lt (show r1 / (2 * Bh) < 2 * Bh by omega)]
  generalize r1 % (2 * Bh) = r1lo at *
  generalize r1 / (2 * Bh) = r1hi at *
  -- r0 = (r1·B + a1) / 2
  have hpl := Nat.div_add_mod r1lo 2
  have hpllt := Nat.mod_lt r1lo (show 0 < 2 by decide)
  have hpa := Nat.div_add_mod a1 2
  have hpalt := Nat.mod_lt a1 (show 0 < 2 by decide)
  have e1 : r1hi * Bh % (2 * Bh) = r1hi * Bh := by
    apply Nat.mod_eq_of_lt
    have : r1hi = 0 ∨ r1hi = 1 := by omega
    rcases this with rfl | rfl <;> omega
  have e2 : r1lo * Bh % (2 * Bh) = r1lo % 2 * Bh := Nat.mul_mod_mul_right _ _ _
  have eor : ∀ x y : Nat, y < Bh → (x * Bh ||| y) = x * Bh + y := by
    intro x y hy
    have := Nat.two_pow_add_eq_or_of_lt (i := W - 1) (b := y) (by rw [hBhdef]; exact hy) x
    rw [hBhdef] at this
    rw [Nat.mul_comm x Bh, this]
  rw [e1, e2, eor _ _ (by omega), eor _ _ (by omega)]
  generalize r1lo / 2 = r1h at *
  generalize r1lo % 2 = r1p at *
  generalize a1 / 2 = a1h at *
  generalize a1 % 2 = a1p at *
  have hr0 : 2 * ((r1hi * Bh + r1h) * (2 * Bh) + (r1p * Bh + a1h)) + a1p = r1 * (2 * Bh) + a1 := by
    rw [← hr1s, ← hpl, ← hpa]; ring
  generalize (r1hi * Bh + r1h) * (2 * Bh) + (r1p * Bh + a1h) = r0 at *
  -- the division by s1
  have hdm := Nat.div_add_mod r0 s1
  have hu0 := Nat.mod_lt r0 hs1pos
  have hq0 : r0 / s1 < 2 * Bh + 1 := by
    rw [Nat.div_lt_iff_lt_mul hs1pos]
    have h1 : r1 * (2 * Bh) ≤ 2 * s1 * (2 * Bh) := Nat.mul_le_mul_right _ hpr
    have e : (2 * Bh + 1) * s1 = s1 * (2 * Bh) + s1 := by ring
    have e' : 2 * s1 * (2 * Bh) = 2 * (s1 * (2 * Bh)) := by ring
    omega
  generalize r0 / s1 = q0 at *
  generalize r0 % s1 = u0 at *
  have hBB : 4 * (2 * Bh) ≤ 2 * Bh * (2 * Bh) := Nat.mul_le_mul_right _ (by omega)
  have hqdiv : q0 / (2 * Bh) = if q0 < 2 * Bh then 0 else 1 := div_lt_two (by omega) (by omega)
  -- both arms give `r0 = s1·q + u` with the final remainder non-negative or repairable
  obtain ⟨q, u, hqu, hqlt, hult, hr0', hcase⟩ : ∃ q u,
      (if q0 / (2 * Bh) > 0 then (q0 - 1, (u0 + s1) % (2 * Bh * (2 * Bh))) else (q0, u0)) = (q, u) ∧
      q < 2 * Bh ∧ u < 2 * (2 * Bh) ∧ r0 = s1 * q + u ∧ (u < s1 ∨ (q0 = 2 * Bh ∧ q = q0 - 1 ∧ u = u0 + s1)) := by
    by_cases hq : q0 < 2 * Bh
    · refine ⟨q0, u0, by simp [hqdiv, hq], hq, by omega, hdm.symm, Or.inl hu0⟩
    · have hq0e : q0 = 2 * Bh := by omega
      refine ⟨q0 - 1, u0 + s1, ?_, by omega, by omega, ?_, Or.inr ⟨hq0e, rfl, rfl⟩⟩
      · rw [hqdiv, if_neg hq, if_pos (by decide), Nat.mod_eq_of_lt (by omega)]
      · have : s1 * q0 = s1 * (q0 - 1) + s1 := by
          have : q0 = (q0 - 1) + 1 := by omega
          conv => lhs; rw [this, Nat.mul_succ]
        omega
  rw [hqu]
  simp only []
  rw [Nat.mod_eq_of_lt hqlt, Nat.mod_eq_of_lt (show u * 2 < 2 * Bh * (2 * Bh) by omega)]
  have eor1 : (u * 2 ||| a1p) = u * 2 + a1p := by
    have := Nat.two_pow_add_eq_or_of_lt (i := 1) (b := a1p) (by simpa using hpalt) u
    simp only [Nat.pow_one] at this
    rw [Nat.mul_comm u 2, this]
  rw [eor1]
  -- U = 2u + a1p, `r1·B + a1 = 2·q·s1 + U`
  have hdiv : r1 * (2 * Bh) + a1 = 2 * q * s1 + (u * 2 + a1p) := by
    rw [← hr0, hr0']; ring
  generalize hUdef : u * 2 + a1p = U at *
  have hUs := Nat.mod_add_div U (2 * Bh)
  have hUlo := Nat.mod_lt U (show 0 < 2 * Bh by omega)
  have hUhi : U / (2 * Bh) < 4 := by rw [Nat.div_lt_iff_lt_mul (by omega)]; omega
  generalize U % (2 * Bh) = ulo at *
  generalize U / (2 * Bh) = uhi at *
  -- the candidate root and its exact signed remainder
  have hqq : q * q ≤ 2 * Bh * (2 * Bh) := Nat.mul_le_mul (by omega) (by omega)
  have hx : ulo * (2 * Bh) + a0 < 2 * Bh * (2 * Bh) := by
    have : (ulo + 1) * (2 * Bh) ≤ 2 * Bh * (2 * Bh) := Nat.mul_le_mul_right _ (by omega)
    have e : (ulo + 1) * (2 * Bh) = ulo * (2 * Bh) + 2 * Bh := by ring
    omega
  rw [sub_mod_val hx hqq]
  -- identity a = s² + rt
  have hid : ((hi * (2 * Bh * (2 * Bh)) + a1 * (2 * Bh) + a0 : Nat) : Int)
      = ((s1 * (2 * Bh) + q) * (s1 * (2 * Bh) + q) : Nat) + (((U * (2 * Bh) + a0 : Nat) : Int) - (q * q : Nat)) := by
    have hd : ((r1 * (2 * Bh) + a1 : Nat) : Int) = ((2 * q * s1 + U : Nat) : Int) := by rw [hdiv]
    rw [← hpv]
    push_cast at hd ⊢
    linear_combination (2 * (Bh : Int)) * hd
  -- bounds on rt
  have hrt : ((U * (2 * Bh) + a0 : Nat) : Int) - (q * q : Nat) ≤ 2 * ((s1 * (2 * Bh) + q : Nat) : Int) ∧
      (((U * (2 * Bh) + a0 : Nat) : Int) - (q * q : Nat) < 0 →
        0 ≤ ((U * (2 * Bh) + a0 : Nat) : Int) - (q * q : Nat) + 2 * ((s1 * (2 * Bh) + q : Nat) : Int) - 1 ∧ 1 ≤ q) := by
    rcases hcase with hlt | ⟨hq0e, hqe, hue⟩
    · have hU2 : U < 2 * s1 := by omega
      obtain ⟨_, _, h3, h4, _⟩ := karatsuba_step (hi := hi) (b0 := a0) hpv.symm hpr (by omega) ha1 ha0 hdiv hU2
      exact ⟨h3, h4⟩
    · -- the reduced overestimate q = B − 1: the remainder is the repaired one of q0 = B
      have hdiv0 : r1 * (2 * Bh) + a1 = 2 * q0 * s1 + (u0 * 2 + a1p) := by
        rw [← hr0, ← hdm]; ring
      obtain ⟨_, _, _, h4, h5⟩ := karatsuba_step (hi := hi) (b0 := a0) hpv.symm hpr (by omega) ha1 ha0 hdiv0 (by omega)
      have hneg := h5 hq0e
      obtain ⟨h6, _⟩ := h4 hneg
      subst hq0e
      have eU : U = u0 * 2 + a1p + 2 * s1 := by omega
      have eq1 : ((q : Nat) : Int) = 2 * (Bh : Int) - 1 := by omega
      have : ((U * (2 * Bh) + a0 : Nat) : Int) - (q * q : Nat)
          = (((u0 * 2 + a1p) * (2 * Bh) + a0 : Nat) : Int) - ((2 * Bh * (2 * Bh) : Nat) : Int)
            + 2 * ((s1 * (2 * Bh) + 2 * Bh : Nat) : Int) - 1 := by
        rw [eU]; push_cast; rw [eq1]; ring
      have e3 : ((s1 * (2 * Bh) + q : Nat) : Int) = ((s1 * (2 * Bh) + 2 * Bh : Nat) : Int) - 1 := by
        push_cast; rw [eq1]; ring
      rw [this, e3]
      constructor
      · omega
      · intro hlt0; omega
  obtain ⟨hrt1, hrt2⟩ := hrt
  -- accounting of the first subtraction
  have hs : s1 * (2 * Bh) + q < 2 * Bh * (2 * Bh) := by
    have : (s1 + 1) * (2 * Bh) ≤ 2 * Bh * (2 * Bh) := Nat.mul_le_mul_right _ (by omega)
    have e : (s1 + 1) * (2 * Bh) = s1 * (2 * Bh) + 2 * Bh := by ring
    omega
  generalize hsdef : s1 * (2 * Bh) + q = s at *
  generalize hMdef : 2 * Bh * (2 * Bh) = M at *
  have hMpos : 0 < M := by omega
  have hrv : ∃ r, r = (if ulo * (2 * Bh) + a0 < q * q then ulo * (2 * Bh) + a0 + M - q * q else ulo * (2 * Bh) + a0 - q * q) ∧
      r < M ∧ (((uhi : Int) - (if decide (ulo * (2 * Bh) + a0 < q * q) = true then 1 else 0)) * M + r
        = ((U * (2 * Bh) + a0 : Nat) : Int) - (q * q : Nat)) := by
    refine ⟨_, rfl, by split <;> omega, ?_⟩
    have eU : ((U : Nat) : Int) = ulo + 2 * Bh * uhi := by rw [← hUs]; push_cast; ring
    have eM : ((M : Nat) : Int) = 2 * Bh * (2 * Bh) := by rw [← hMdef]; push_cast; ring
    by_cases hb : ulo * (2 * Bh) + a0 < q * q
    · simp only [hb, decide_true, if_true]
      have : ((ulo * (2 * Bh) + a0 + M - q * q : Nat) : Int) = (ulo * (2 * Bh) + a0 + M : Nat) - (q * q : Nat) :=
        Int.ofNat_sub (by omega)
      rw [this]; push_cast; rw [eU, eM]; ring
    · simp only [hb, decide_false, Bool.false_eq_true, if_false]
      have : ((ulo * (2 * Bh) + a0 - q * q : Nat) : Int) = (ulo * (2 * Bh) + a0 : Nat) - (q * q : Nat) :=
        Int.ofNat_sub (by omega)
      rw [this]; push_cast; rw [eU, eM]; ring
  obtain ⟨r, hrdef, hrlt, hracc⟩ := hrv
  rw [← hrdef]
  generalize ((uhi : Int) - (if decide (ulo * (2 * Bh) + a0 < q * q) = true then 1 else 0)) = c at *
  rw [← hracc] at hid hrt1 hrt2
  have hsum : s * s + 0 = s * s := rfl
  by_cases hc : c < 0
  · rw [if_pos hc]
    have hneg' := (neg_iff_carry hrlt).1 hc
    obtain ⟨hr'0, hq1⟩ := hrt2 hneg'
    have hs1' : 1 ≤ s := by omega
    have ht1 := Nat.mod_add_div (r + s) M
    have ht1lt := Nat.mod_lt (r + s) hMpos
    generalize (r + s) % M = t1m at *
    generalize (r + s) / M = k1 at *
    have ht2 := Nat.mod_add_div (t1m + (s - 1)) M
    have ht2lt := Nat.mod_lt (t1m + (s - 1)) hMpos
    generalize (t1m + (s - 1)) % M = t2m at *
    generalize (t1m + (s - 1)) / M = k2 at *
    have hacc : (c + (k1 : Int) + (k2 : Int)) * M + t2m = c * M + r + 2 * (s : Int) - 1 := by
      have e1 : ((t1m + M * k1 : Nat) : Int) = ((r + s : Nat) : Int) := by rw [ht1]
      have e2 : ((t2m + M * k2 : Nat) : Int) = ((t1m + (s - 1) : Nat) : Int) := by rw [ht2]
      have e3 : ((s - 1 : Nat) : Int) = (s : Int) - 1 := by omega
      push_cast at e1 e2
      rw [e3] at e2
      linear_combination e1 + e2
    generalize (c + (k1 : Int) + (k2 : Int)) = c4 at *
    have hc4 := carry01 (c := c4) (Mn := M) (alo := t2m) (by omega) (by omega) ht2lt
    have e : (((s - 1) * (s - 1) : Nat) : Int) = ((s : Int) - 1) * ((s : Int) - 1) := by
      have : ((s - 1 : Nat) : Int) = (s : Int) - 1 := by omega
      push_cast; rw [this]
    refine ⟨?_, ?_, ht2lt⟩
    · simp only []
      have : (((s - 1) * (s - 1) + (t2m + (if decide (c4 > 0) = true then M else 0)) : Nat) : Int)
          = ((hi * M + a1 * (2 * Bh) + a0 : Nat) : Int) := by
        rw [hid]
        rcases hc4 with rfl | rfl
        · simp only [Int.lt_irrefl, decide_false, Bool.false_eq_true, if_false, Nat.add_zero] at hacc ⊢
          push_cast [e]; linear_combination hacc
        · simp only [show (1 : Int) > 0 by decide, decide_true, if_true] at hacc ⊢
          push_cast [e]; linear_combination hacc
      rw [hsplit]; exact_mod_cast this
    · simp only []
      rcases hc4 with rfl | rfl
      · simp only [Int.lt_irrefl, decide_false, Bool.false_eq_true, if_false, Nat.add_zero] at hacc ⊢
        omega
      · simp only [show (1 : Int) > 0 by decide, decide_true, if_true] at hacc ⊢
        omega
  · rw [if_neg hc]
    have hr0 : ¬ (c * M + r < 0) := fun h => hc ((neg_iff_carry hrlt).2 h)
    have hc01 := carry01 (c := c) (Mn := M) (alo := r) (by omega) (by omega) hrlt
    refine ⟨?_, ?_, hrlt⟩
    · simp only []
      have : ((s * s + (r + (if decide (c > 0) = true then M else 0)) : Nat) : Int)
          = ((hi * M + a1 * (2 * Bh) + a0 : Nat) : Int) := by
        rw [hid]
        rcases hc01 with rfl | rfl
        · simp
        · simp only [show (1 : Int) > 0 by decide, decide_true, if_true]
          push_cast; ring
      rw [hsplit]; exact_mod_cast this
    · simp only []
      rcases hc01 with rfl | rfl
      · simp at hrt1 ⊢; omega
      · simp only [show (1 : Int) > 0 by decide, decide_true, if_true]
        omega

theorem two_pow_pred {k : Nat} (hk : 0 < k) : 2 ^ k = 2 * 2 ^ (k - 1) := by
  have : k = (k - 1) + 1 := by omega
  conv => lhs; rw [this, Nat.pow_succ]
  omega

/-- **`root::sqrt_rem` is correct**: on every normalised value of `2n` words (`n ≥ 2`) the mirrored
    recursion returns the floor square root, the low `n` words of the remainder and its carry -/
theorem sqrtRemRec_spec {W : Nat} (hW : 2 ≤ W) {prim : Nat → Nat × Nat} (hprim : PrimSqrtContract W prim) :
    ∀ (fuel n a : Nat), 2 ≤ n → n ≤ fuel → 2 ^ (W * n - 1) * 2 ^ (W * n - 1) ≤ a →
      a < 2 ^ (W * n) * 2 ^ (W * n) → KOut (2 ^ (W * n)) a (sqrtRemRec W prim fuel n a) := by
  intro fuel
  induction fuel with
  | zero => intro n a h2 hf; omega
  | succ fuel ih =>
    intro n a h2 hf hlo hhi
    unfold sqrtRemRec
    by_cases hn2 : n ≤ 2
    · rw [if_pos hn2]
      have hn : n = 2 := by omega
      subst hn
      have e1 : 2 ^ (W * 2) = 2 ^ W * 2 ^ W := by rw [Nat.mul_two, Nat.pow_add]
      have e2 : 2 ^ (W * 2 - 1) = 2 ^ (W - 1) * 2 ^ W := by
        rw [← Nat.pow_add]; congr 1; omega
      rw [e1] at hhi ⊢
      rw [e2] at hlo
      apply sqrtRem42_spec hW hprim
      · have : 2 ^ (W - 1) * 2 ^ (W - 1) * (2 ^ W * 2 ^ W) = 2 ^ (W - 1) * 2 ^ W * (2 ^ (W - 1) * 2 ^ W) := by ring
        rw [this]; exact hlo
      · exact hhi
    · rw [if_neg hn2]
      simp only []
      have hsp : 1 ≤ n / 2 := by omega
      have hh2 : 2 ≤ n - n / 2 := by omega
      have hhf : n - n / 2 ≤ fuel := by omega
      have hhs : n / 2 ≤ n - n / 2 := by omega
      have hWs : 0 < W * (n / 2) := Nat.mul_pos (by omega) (by omega)
      have hWh : 0 < W * (n - n / 2) := Nat.mul_pos (by omega) (by omega)
      have hWn : W * n = W * (n - n / 2) + W * (n / 2) := by rw [← Nat.mul_add]; congr 1; omega
      have hWn1 : W * n - 1 = (W * (n - n / 2) - 1) + W * (n / 2) := by omega
      have eMn : 2 ^ (W * n) = 2 ^ (W * (n - n / 2)) * 2 ^ (W * (n / 2)) := by rw [hWn, Nat.pow_add]
      have eMn1 : 2 ^ (W * n - 1) = 2 ^ (W * (n - n / 2) - 1) * 2 ^ (W * (n / 2)) := by rw [hWn1, Nat.pow_add]
      have eE : 2 ^ (W * n) = 2 ^ (W * (n / 2)) * 2 ^ (W * (n / 2)) * 2 ^ (W * (n - n / 2 - n / 2)) := by
        rw [← Nat.pow_add, ← Nat.pow_add]; congr 1
        have : W * (n - n / 2) = W * (n / 2) + W * (n - n / 2 - n / 2) := by rw [← Nat.mul_add]; congr 1; omega
        omega
      have hBpos : 0 < 2 ^ (W * (n / 2)) := Nat.two_pow_pos _
      have hBBpos : 0 < 2 ^ (W * (n / 2)) * 2 ^ (W * (n / 2)) := Nat.mul_pos hBpos hBpos
      -- the high part is normalised
      have hhilo : 2 ^ (W * (n - n / 2) - 1) * 2 ^ (W * (n - n / 2) - 1) ≤ a / (2 ^ (W * (n / 2)) * 2 ^ (W * (n / 2))) := by
        rw [Nat.le_div_iff_mul_le hBBpos]
        rw [eMn1] at hlo
        have : 2 ^ (W * (n - n / 2) - 1) * 2 ^ (W * (n - n / 2) - 1) * (2 ^ (W * (n / 2)) * 2 ^ (W * (n / 2)))
            = 2 ^ (W * (n - n / 2) - 1) * 2 ^ (W * (n / 2)) * (2 ^ (W * (n - n / 2) - 1) * 2 ^ (W * (n / 2))) := by ring
        rw [this]; exact hlo
      have hhihi : a / (2 ^ (W * (n / 2)) * 2 ^ (W * (n / 2))) < 2 ^ (W * (n - n / 2)) * 2 ^ (W * (n - n / 2)) := by
        rw [Nat.div_lt_iff_lt_mul hBBpos]
        rw [eMn] at hhi
        have : 2 ^ (W * (n - n / 2)) * 2 ^ (W * (n - n / 2)) * (2 ^ (W * (n / 2)) * 2 ^ (W * (n / 2)))
            = 2 ^ (W * (n - n / 2)) * 2 ^ (W * (n / 2)) * (2 ^ (W * (n - n / 2)) * 2 ^ (W * (n / 2))) := by ring
        rw [this]; exact hhi
      have hrec := ih (n - n / 2) (a / (2 ^ (W * (n / 2)) * 2 ^ (W * (n / 2)))) hh2 hhf hhilo hhihi
      have hsplit := split3 a (2 ^ (W * (n / 2))) hBpos
      generalize sqrtRemRec W prim fuel (n - n / 2) (a / (2 ^ (W * (n / 2)) * 2 ^ (W * (n / 2)))) = res at *
      obtain ⟨s1, r1, r1top⟩ := res
      simp only []
      have hrec' := hrec
      obtain ⟨hval, hle, _⟩ := hrec'
      simp only [] at hval hle
      have hs1lt := root_lt hval hhihi
      have hMh2 := two_pow_pred hWh
      have hnorm : 2 ^ (W * (n - n / 2)) ≤ 2 * s1 := by
        rw [hMh2]; exact root_normalised hval hle hhilo
      conv => lhs; rw [hsplit]
      exact kStep_spec (k := W * (n / 2) - 1) rfl (two_pow_pred hWs) eMn eE (Nat.two_pow_pos _)
        (by
          intro hodd
          have : ¬ (2 * (n / 2) < n) := by simpa using hodd
          have : n - n / 2 - n / 2 = 0 := by omega
          rw [this]; simp)
        hnorm (Nat.mod_lt _ hBpos) (Nat.mod_lt _ hBpos) hrec hs1lt

/-- on a normalised value of `2n` words the mirrored kernel returns what the specification returns -/
theorem sqrtRemKernel_eq_frontier {W : Nat} (hW : 2 ≤ W) {prim : Nat → Nat × Nat} (hprim : PrimSqrtContract W prim)
    {n a : Nat} (hn : 2 ≤ n) (hlo : 2 ^ (W * n - 1) * 2 ^ (W * n - 1) ≤ a) (hhi : a < 2 ^ (W * n) * 2 ^ (W * n)) :
    sqrtRemKernel W prim a = sqrtRemKernelFrontier a := by
  have hWn : 1 ≤ W * n := Nat.mul_pos (by omega) (by omega)
  have hb1 : W * n - 1 + (W * n - 1) < bitLen a := lt_bitLen_of_le (by rw [Nat.pow_add]; exact hlo)
  have hb2 : bitLen a ≤ W * n + W * n := bitLen_le_of_lt (by rw [Nat.pow_add]; exact hhi)
  have hwl : wordLen W a = 2 * n := by
    unfold wordLen
    have e : 2 * n * W = W * n + W * n := by ring
    have e2 : (2 * n + 1) * W = W * n + W * n + W := by ring
    apply Nat.div_eq_of_lt_le
    · rw [e]; omega
    · show bitLen a + W - 1 < (2 * n + 1) * W
      rw [e2]; omega
  unfold sqrtRemKernel
  simp only []
  rw [hwl, show (2 * n + 1) / 2 = n by omega]
  have h := sqrtRemRec_spec hW hprim n n a hn (Nat.le_refl n) hlo hhi
  generalize sqrtRemRec W prim n n a = res at h
  obtain ⟨s, r, top⟩ := res
  obtain ⟨h1, h2, _⟩ := h
  simp only [] at h1 h2 ⊢
  have hroot := isRoot_of_rem h1 h2
  have hu := IsRoot.unique (by decide) hroot (iroot_spec a 2 (by decide))
  unfold sqrtRemKernelFrontier
  simp only []
  rw [← hu]
  congr 1
  omega

/-- the value `sqrt_rem_large` hands to `root::sqrt_rem` is normalised, of `2·((len+1)/2)` words -/
theorem shift_normalised {W : Nat} (hW : 2 ≤ W) (hWe : W % 2 = 0) {x : Nat} (hx : 2 ^ (2 * W) ≤ x)
    (len shift n : Nat) (hlen : len = wordLen W x)
    (hshift : shift = W * (len % 2) + (W * len - bitLen x) / 2 * 2) (hndef : n = (len + 1) / 2) :
    2 ≤ n ∧ 2 ^ (W * n - 1) * 2 ^ (W * n - 1) ≤ x * 2 ^ shift ∧ x * 2 ^ shift < 2 ^ (W * n) * 2 ^ (W * n) := by
  have hW0 : 0 < W := by omega
  have hle := bitLen_le_wordLen hW0 x
  have hlt := wordLen_lt_bitLen hW0 x
  rw [← hlen] at hle hlt
  have hx0 : x ≠ 0 := by
    have := Nat.two_pow_pos (2 * W); omega
  have hbx : 2 * W < bitLen x := lt_bitLen_of_le hx
  have hlen3 : 3 ≤ len := by
    by_contra hc
    have : W * len ≤ W * 2 := Nat.mul_le_mul_left W (by omega)
    omega
  have hn2 : 2 ≤ n := by omega
  -- total bit length after the shift: 2·W·n − (lz mod 2)
  have hT : bitLen x + shift + (W * len - bitLen x) % 2 = W * n + W * n := by
    have e : W * n + W * n = W * len + W * (len % 2) := by
      rw [← Nat.mul_add, ← Nat.mul_add]; congr 1; omega
    have := Nat.div_add_mod (W * len - bitLen x) 2
    omega
  have hmod : (W * len - bitLen x) % 2 < 2 := Nat.mod_lt _ (by decide)
  have h1 := two_pow_bitLen_le hx0
  have h2 := lt_two_pow_bitLen x
  refine ⟨hn2, ?_, ?_⟩
  · rw [← Nat.pow_add]
    have : 2 ^ (W * n - 1 + (W * n - 1)) ≤ 2 ^ (bitLen x - 1 + shift) := Nat.pow_le_pow_right (by decide) (by omega)
    rw [Nat.pow_add 2 (bitLen x - 1) shift] at this
    exact Nat.le_trans this (Nat.mul_le_mul_right _ h1)
  · rw [← Nat.pow_add]
    have : 2 ^ (bitLen x + shift) ≤ 2 ^ (W * n + W * n) := Nat.pow_le_pow_right (by decide) (by omega)
    rw [Nat.pow_add 2 (bitLen x) shift] at this
    exact Nat.lt_of_lt_of_le (Nat.mul_lt_mul_of_pos_right h2 (Nat.two_pow_pos _)) this

/-- `sqrt_rem_large` over the mirrored `root::sqrt_rem` equals `sqrt_rem_large` over its specification -/
theorem sqrtRemLarge_mirrored {W : Nat} (hW : 2 ≤ W) (hWe : W % 2 = 0) {prim : Nat → Nat × Nat}
    (hprim : PrimSqrtContract W prim) (fixed : Bool) {x : Nat} (hx : 2 ^ (2 * W) ≤ x) :
    sqrtRemLarge W (sqrtRemKernel W prim) fixed x = sqrtRemLarge W sqrtRemKernelFrontier fixed x := by
  obtain ⟨hn, hlo, hhi⟩ := shift_normalised hW hWe hx _ _ _ rfl rfl rfl
  have hk := sqrtRemKernel_eq_frontier hW hprim hn hlo hhi
  unfold sqrtRemLarge
  simp only []
  rw [hk]

/-- a primitive square root is *exact* on a range when it returns the floor root and the remainder -/
def PrimSqrtExact (bound : Nat) (prim : Nat → Nat × Nat) : Prop :=
  ∀ x, x < bound → prim x = sqrtRemPrimFrontier x

theorem PrimSqrtExact.contract {W : Nat} {prim : Nat → Nat × Nat} (h : PrimSqrtExact (2 ^ (2 * W)) prim) :
    PrimSqrtContract W prim := by
  intro x _ hx
  rw [h x (by rw [Nat.two_mul, Nat.pow_add]; exact hx)]
  unfold sqrtRemPrimFrontier
  simp only []
  have := rem_le_of_isRoot (iroot_spec x 2 (by decide))
  omega

/-- **`sqrt_rem` with every kernel mirrored equals its specification** -/
theorem sqrtRemReprM_eq {W : Nat} (hW : 2 ≤ W) (hWe : W % 2 = 0) {primW primD : Nat → Nat × Nat}
    (hpW : PrimSqrtExact (2 ^ W) primW) (hpD : PrimSqrtExact (2 ^ (2 * W)) primD) (fixed : Bool) (x : Nat) :
    sqrtRemReprM W primW primD fixed x = sqrtRemRepr W fixed x := by
  unfold sqrtRemReprM sqrtRemRepr
  by_cases h1 : x < 2 ^ W
  · have : x < 2 ^ (2 * W) := Nat.lt_of_lt_of_le h1 (Nat.pow_le_pow_right (by decide) (by omega))
    rw [if_pos h1, if_pos this, hpW x h1]
  · rw [if_neg h1]
    by_cases h2 : x < 2 ^ (2 * W)
    · rw [if_pos h2, if_pos h2, hpD x h2]
    · rw [if_neg h2, if_neg h2, sqrtRemLarge_mirrored hW hWe hpD.contract fixed (by omega)]

theorem nthRootReprM_eq {W : Nat} (hW : 2 ≤ W) (hWe : W % 2 = 0) {primW primD : Nat → Nat × Nat}
    (hpW : PrimSqrtExact (2 ^ W) primW) (hpD : PrimSqrtExact (2 ^ (2 * W)) primD) (fixed : Bool) (x n : Nat) :
    nthRootReprM W primW primD fixed x n = nthRootRepr W fixed x n := by
  unfold nthRootReprM
  split
  · unfold nthRootRepr sqrtReprM sqrtRepr
    simp only []
    rw [sqrtRemReprM_eq hW hWe hpW hpD]
  · rfl

end Dashu.Model.NT
