import Dashu.Model.NT.LehmerStepFull
import Dashu.Proofs.NT.LehmerStepWords
namespace Dashu.Model.NT
open Dashu.Model

/-- the zip loop stops at the end of `y` and leaves the rest of `x` in place -/
theorem lehmerStepWords_append (W a b c d : Nat) (r : List Nat) :
    ∀ (y xl : List Nat) (cx cy : Int), xl.length = y.length →
      lehmerStepWords W a b c d (xl ++ r) y cx cy =
        (lehmerStepWords W a b c d xl y cx cy).map (fun p => (p.1 ++ r, p.2.1, p.2.2.1, p.2.2.2)) := by
  intro y
  induction y with
  | nil =>
    intro xl cx cy hl
    have : xl = [] := List.length_eq_zero_iff.1 hl
    subst this
    cases r <;> rfl
  | cons y0 ys ih =>
    intro xl cx cy hl
    match xl, hl with
    | x0 :: xs, hl =>
      have hl' : xs.length = ys.length := by simpa using hl
      simp only [List.cons_append, lehmerStepWords]
      split
      · rw [ih xs _ _ hl']
        generalize lehmerStepWords W a b c d xs ys _ _ = q
        rcases q with _ | ⟨_, _, _, _⟩ <;> rfl
      · rfl

/-- uniqueness of the split `value = low + P·carry` with `0 ≤ low < P` -/
theorem carry_unique {P r c v : Int} (hP : 0 < P) (hr0 : 0 ≤ r) (hr : r < P) (h : r + P * c = v) (hv0 : 0 ≤ v) (hv : v < P) :
    c = 0 := by
  rcases lt_trichotomy c 0 with hc | hc | hc
  · have : P * c ≤ P * (-1) := mul_le_mul_of_nonneg_left (by omega) (le_of_lt hP)
    omega
  · exact hc
  · have : P * 1 ≤ P * c := mul_le_mul_of_nonneg_left (by omega) (le_of_lt hP)
    omega

end Dashu.Model.NT

namespace Dashu.Model.NT
open Dashu.Model

theorem signed_zero_bounds (W : Nat) : -(2 ^ (W - 1) : Int) ≤ 0 ∧ (0 : Int) < 2 ^ (W - 1) := by
  have : (0 : Int) < 2 ^ (W - 1) := by positivity
  omega

/-- **`lehmer_step`, operands of equal length**: if the two results `a·X − b·Y`, `d·Y − c·X` are non-negative and fit
    the `n = y.len()` words, the function returns exactly them (both loop carries are zero, no fix-up) -/
theorem lehmerStepFull_eqlen (W a b c d : Nat) (hW : 1 ≤ W) (ha : a < 2 ^ (W - 1)) (hb : b < 2 ^ (W - 1))
    (hc : c < 2 ^ (W - 1)) (hd : d < 2 ^ (W - 1)) (x y : List Nat) (hx : IsWords W x) (hy : IsWords W y)
    (hl : x.length = y.length)
    (h1 : 0 ≤ (a : Int) * val W x - (b : Int) * val W y) (h2 : (a : Int) * val W x - (b : Int) * val W y < 2 ^ (W * y.length))
    (h3 : 0 ≤ (d : Int) * val W y - (c : Int) * val W x) (h4 : (d : Int) * val W y - (c : Int) * val W x < 2 ^ (W * y.length)) :
    ∃ x' y', lehmerStepFull W a b c d x y = some (x', y') ∧ x'.length = x.length ∧ y'.length = y.length ∧
      IsWords W x' ∧ IsWords W y' ∧
      (val W x' : Int) = (a : Int) * val W x - (b : Int) * val W y ∧
      (val W y' : Int) = (d : Int) * val W y - (c : Int) * val W x := by
  obtain ⟨z1, z2⟩ := signed_zero_bounds W
  obtain ⟨x', y', cx, cy, hrun, hlx, hly, hwx, hwy, _, _, _, _, _, hvx, hvy⟩ :=
    lehmerStepWords_spec W a b c d hW ha hb hc hd y x 0 0 hx hy z1 z2 z1 z2 (by omega)
  have tx : x.take y.length = x := List.take_of_length_le (by omega)
  have tx' : x'.take y.length = x' := List.take_of_length_le (by omega)
  rw [tx, tx', add_zero] at hvx
  rw [tx, add_zero] at hvy
  have hP : (0 : Int) < 2 ^ (W * y.length) := by positivity
  have lx : (val W x' : Int) < 2 ^ (W * y.length) := by
    have := val_lt W x' hwx; rw [hlx, hl] at this; exact_mod_cast this
  have ly : (val W y' : Int) < 2 ^ (W * y.length) := by
    have := val_lt W y' hwy; rw [hly] at this; exact_mod_cast this
  have hcx : cx = 0 := carry_unique hP (Int.natCast_nonneg _) lx hvx h1 h2
  have hcy : cy = 0 := carry_unique hP (Int.natCast_nonneg _) ly hvy h3 h4
  subst hcx; subst hcy
  refine ⟨x', y', ?_, hlx, hly, hwx, hwy, by simpa using hvx, by simpa using hvy⟩
  simp only [lehmerStepFull, hrun]
  simp

/-- **`lehmer_step`, `x` one word longer than `y`** (`x = xl ++ [x_top]`): if `0 ≤ a·X − b·Y ≤ X` (the step does not
    increase `x`), `0 ≤ d·Y − c·X < 2^(W·n)` and `a ≥ 1`, the function returns exactly the two results: the assertion
    `y_carry = c·x_top` holds, the fix-up `a·x_top + x_carry` is a single word with zero carry (`debug_assert_eq!(cx, 0)`),
    and when the loop leaves NO carry the untouched top word is already right (`a·x_top = x_top`) -/
theorem lehmerStepFull_longer (W a b c d : Nat) (hW : 1 ≤ W) (ha : a < 2 ^ (W - 1)) (hb : b < 2 ^ (W - 1))
    (hc : c < 2 ^ (W - 1)) (hd : d < 2 ^ (W - 1)) (ha1 : 1 ≤ a) (xl : List Nat) (xt : Nat) (y : List Nat)
    (hx : IsWords W xl) (hxt : xt < 2 ^ W) (hy : IsWords W y) (hl : xl.length = y.length)
    (h1 : 0 ≤ (a : Int) * val W (xl ++ [xt]) - (b : Int) * val W y)
    (h2 : (a : Int) * val W (xl ++ [xt]) - (b : Int) * val W y ≤ val W (xl ++ [xt]))
    (h3 : 0 ≤ (d : Int) * val W y - (c : Int) * val W (xl ++ [xt]))
    (h4 : (d : Int) * val W y - (c : Int) * val W (xl ++ [xt]) < 2 ^ (W * y.length)) :
    ∃ x' y', lehmerStepFull W a b c d (xl ++ [xt]) y = some (x', y') ∧ x'.length = xl.length + 1 ∧ y'.length = y.length ∧
      IsWords W x' ∧ IsWords W y' ∧
      (val W x' : Int) = (a : Int) * val W (xl ++ [xt]) - (b : Int) * val W y ∧
      (val W y' : Int) = (d : Int) * val W y - (c : Int) * val W (xl ++ [xt]) := by
  obtain ⟨z1, z2⟩ := signed_zero_bounds W
  obtain ⟨x', y', cx, cy, hrun, hlx, hly, hwx, hwy, _, _, _, _, _, hvx, hvy⟩ :=
    lehmerStepWords_spec W a b c d hW ha hb hc hd y xl 0 0 hx hy z1 z2 z1 z2 (by omega)
  have tx : xl.take y.length = xl := List.take_of_length_le (by omega)
  have tx' : x'.take y.length = x' := List.take_of_length_le (by omega)
  rw [tx, tx', add_zero] at hvx
  rw [tx, add_zero] at hvy
  have hrun2 := lehmerStepWords_append W a b c d [xt] y xl 0 0 hl
  rw [hrun] at hrun2
  simp only [Option.map_some] at hrun2
  -- values
  have hX : (val W (xl ++ [xt]) : Int) = val W xl + 2 ^ (W * y.length) * xt := by
    rw [val_append, hl]; simp [val]
  rw [hX] at h1 h2 h3 h4 ⊢
  have hP : (0 : Int) < 2 ^ (W * y.length) := by positivity
  have hBpos : (0 : Int) < 2 ^ W := by positivity
  have lx : (val W x' : Int) < 2 ^ (W * y.length) := by
    have := val_lt W x' hwx; rw [hlx, hl] at this; exact_mod_cast this
  have lxl : (val W xl : Int) < 2 ^ (W * y.length) := by
    have := val_lt W xl hx; rw [hl] at this; exact_mod_cast this
  have ly : (val W y' : Int) < 2 ^ (W * y.length) := by
    have := val_lt W y' hwy; rw [hly] at this; exact_mod_cast this
  have hxtI : (xt : Int) < 2 ^ W := by exact_mod_cast hxt
  have hxt0 : (0 : Int) ≤ xt := Int.natCast_nonneg _
  have hApp : ∀ (l : List Nat) (t : Nat), l.length = y.length → (val W (l ++ [t]) : Int) = val W l + 2 ^ (W * y.length) * t := by
    intro l t h; rw [val_append, h]; simp [val]
  have hpow : (2 : Int) ^ W ≤ 2 ^ (2 * W - 1) := pow_le_pow_right₀ (by norm_num) (by omega)
  generalize (2 : Int) ^ (W * y.length) = P at *
  generalize (val W xl : Int) = Xl at *
  generalize (val W y : Int) = Y at *
  have hx'0 : (0 : Int) ≤ val W x' := Int.natCast_nonneg _
  have hy'0 : (0 : Int) ≤ val W y' := Int.natCast_nonneg _
  -- y carry
  have hcy : cy - (c : Int) * xt = 0 := by
    apply carry_unique hP hy'0 ly (v := (d : Int) * Y - (c : Int) * (Xl + P * xt)) _ h3 h4
    linear_combination hvy
  have hcy' : cy = (c : Int) * xt := by omega
  -- top word of x
  have hv : (val W x' : Int) + P * ((a : Int) * xt + cx) = (a : Int) * (Xl + P * xt) - (b : Int) * Y := by
    linear_combination hvx
  have hv0 : 0 ≤ (a : Int) * xt + cx := by
    by_contra hneg
    have : P * ((a : Int) * xt + cx) ≤ P * (-1) := mul_le_mul_of_nonneg_left (by omega) (le_of_lt hP)
    omega
  have hvB : (a : Int) * xt + cx < 2 ^ W := by
    have h5 : P * ((a : Int) * xt + cx) < P * 2 ^ W := by
      have : P * (xt + 1) ≤ P * 2 ^ W := mul_le_mul_of_nonneg_left (by omega) (le_of_lt hP)
      have e : P * ((xt : Int) + 1) = P * xt + P := by ring
      omega
    exact lt_of_mul_lt_mul_left h5 (le_of_lt hP)
  have hyres : (val W y' : Int) = (d : Int) * Y - (c : Int) * (Xl + P * xt) := by
    rw [hcy'] at hvy; linear_combination hvy
  by_cases hcx : cx = 0
  · -- no carry: the top word stays, and it is right
    subst hcx
    have haxt : (a : Int) * xt = xt := by
      have h6 : P * ((a : Int) * xt) < P * (xt + 1) := by
        have e : P * ((xt : Int) + 1) = P * xt + P := by ring
        have e2 : P * ((a : Int) * xt + 0) = P * ((a : Int) * xt) := by ring
        omega
      have h7 : (a : Int) * xt < xt + 1 := lt_of_mul_lt_mul_left h6 (le_of_lt hP)
      have h8 : (1 : Int) * xt ≤ (a : Int) * xt := mul_le_mul_of_nonneg_right (by exact_mod_cast ha1) hxt0
      omega
    refine ⟨x' ++ [xt], y', ?_, by simp [hlx], hly, hwx.append (IsWords.cons hxt (IsWords.nil W)), hwy, ?_, hyres⟩
    · simp only [lehmerStepFull, hrun2]; simp
    · rw [hApp x' xt (by omega)]
      linear_combination hv - P * haxt
  · have hdiv : ((a : Int) * xt + cx) / 2 ^ W = 0 := Int.ediv_eq_zero_of_lt hv0 hvB
    have hmod : ((a : Int) * xt + cx) % 2 ^ W = (a : Int) * xt + cx := Int.emod_eq_of_lt hv0 hvB
    have hrange : -(2 ^ (2 * W - 1) : Int) ≤ (a : Int) * xt + cx ∧ (a : Int) * xt + cx < 2 ^ (2 * W - 1) := by
      have : (0 : Int) < 2 ^ (2 * W - 1) := by positivity
      omega
    have hw : ((a : Int) * xt + cx).toNat < 2 ^ W := by
      have : ((((a : Int) * xt + cx).toNat : Nat) : Int) < ((2 ^ W : Nat) : Int) := by
        rw [Int.toNat_of_nonneg hv0]; push_cast; exact hvB
      exact_mod_cast this
    refine ⟨x' ++ [((a : Int) * xt + cx).toNat], y', ?_, by simp [hlx], hly, hwx.append (IsWords.cons hw (IsWords.nil W)), hwy, ?_, hyres⟩
    · simp only [lehmerStepFull, hrun2]
      simp [hcx, hcy', hdiv, hmod, hrange]
    · rw [hApp x' _ (by omega), Int.toNat_of_nonneg hv0]
      linear_combination hv

end Dashu.Model.NT
