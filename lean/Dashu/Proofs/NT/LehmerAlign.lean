import Dashu.Proofs.NT.LehmerGuess
/-
  C12 (wip): `highest_word_normalized(x, y)` returns both operands truncated at one common bit position.
-/
namespace Dashu.Model.NT
open Dashu.Model

theorem div_two_pow_shift {a s W : Nat} (hs : s ≤ W) : a * 2 ^ s / 2 ^ W = a / 2 ^ (W - s) := by
  have : 2 ^ W = 2 ^ (W - s) * 2 ^ s := by rw [← Nat.pow_add]; congr 1; omega
  rw [this, Nat.mul_div_mul_right _ _ (Nat.two_pow_pos s)]

/-- for `x ≥ y`, `x` of at least two words: the pair is `(x / 2^k, y / 2^k)` for the bit position
    `k = W·(len x − 1) − leading_zeros(top double word of x)` -/
theorem highestWordNormalized_eq {W x y : Nat} (hW : 0 < W) (hxy : y ≤ x) (hlen : 2 ≤ wordLen W x) :
    ∃ k, highestWordNormalized W x y = (x / 2 ^ k, y / 2 ^ k) := by
  have hx0 : x ≠ 0 := by
    intro h; subst h; simp [wordLen, bitLen] at hlen
    have : (W - 1) / W = 0 := Nat.div_eq_of_lt (by omega)
    omega
  have hxlt := lt_two_pow_wordLen hW x
  have hxge := two_pow_le_of_wordLen hW hx0
  have hylen : wordLen W y ≤ wordLen W x :=
    wordLen_le_of_lt hW (Nat.lt_of_le_of_lt hxy hxlt)
  generalize hlx : wordLen W x = lx at *
  obtain ⟨l2, rfl⟩ : ∃ l2, lx = l2 + 2 := ⟨lx - 2, by omega⟩
  -- the top double word of x
  have e1 : 2 ^ (W * (l2 + 2 - 1)) = 2 ^ W * 2 ^ (W * l2) := by
    rw [← Nat.pow_add]; congr 1; rw [show l2 + 2 - 1 = l2 + 1 by omega, Nat.mul_succ]; omega
  have e2 : 2 ^ (W * (l2 + 2)) = 2 ^ (2 * W) * 2 ^ (W * l2) := by
    rw [← Nat.pow_add]; congr 1; rw [Nat.mul_add]; omega
  have hp : 0 < 2 ^ (W * l2) := Nat.two_pow_pos _
  have hhi_ge : 2 ^ W ≤ x / 2 ^ (W * l2) := by
    rw [Nat.le_div_iff_mul_le hp, ← e1]; exact hxge
  have hhi_lt : x / 2 ^ (W * l2) < 2 ^ (2 * W) := by
    rw [Nat.div_lt_iff_lt_mul hp, ← e2]; exact hxlt
  -- y's double word at the same position, whatever the length gap
  have hyhi : yHighDword W (l2 + 2) y = y / 2 ^ (W * l2) := by
    unfold yHighDword
    simp only []
    have hylt := lt_two_pow_wordLen hW y
    rcases Nat.lt_or_ge (wordLen W y) l2 with hlt | hge
    · -- gap ≥ 3 … or exactly the `_` arm
      have : l2 + 2 - wordLen W y = (l2 - wordLen W y - 1 + 2) + 1 := by omega
      rw [this]
      simp only []
      symm
      apply Nat.div_eq_of_lt
      exact Nat.lt_of_lt_of_le hylt (Nat.pow_le_pow_right (by decide) (Nat.mul_le_mul_left W (by omega)))
    · rcases Nat.lt_or_ge (wordLen W y) (l2 + 1) with h1 | h1
      · -- length l2: gap 2
        have hy : wordLen W y = l2 := by omega
        rw [hy, show l2 + 2 - l2 = 1 + 1 by omega]
        simp only []
        symm
        apply Nat.div_eq_of_lt
        rw [← hy]; exact hylt
      · rcases Nat.lt_or_ge (wordLen W y) (l2 + 2) with h2 | h2
        · have hy : wordLen W y = l2 + 1 := by omega
          rw [hy, show l2 + 2 - (l2 + 1) = 1 by omega]
          simp
        · have hy : wordLen W y = l2 + 2 := by omega
          rw [hy, show l2 + 2 - (l2 + 2) = 0 by omega]
          simp
  unfold highestWordNormalized
  simp only [hlx]
  rw [show l2 + 2 - 2 = l2 by omega, hyhi]
  generalize hxh : x / 2 ^ (W * l2) = xh at *
  have hyh_le : y / 2 ^ (W * l2) ≤ xh := by rw [← hxh]; exact Nat.div_le_div_right hxy
  -- leading zeros of the double word
  have hbl1 : W < bitLen xh := lt_bitLen_of_le hhi_ge
  have hbl2 : bitLen xh ≤ 2 * W := bitLen_le_of_lt hhi_lt
  have hxh0 : xh ≠ 0 := by
    intro h; rw [h] at hhi_ge; have := Nat.two_pow_pos W; omega
  generalize hsh : 2 * W - bitLen xh = sh
  have hshW : sh < W := by omega
  have hxs : xh * 2 ^ sh < 2 ^ (2 * W) := by
    have h1 := lt_two_pow_bitLen xh
    have : 2 ^ (2 * W) = 2 ^ bitLen xh * 2 ^ sh := by rw [← Nat.pow_add]; congr 1; omega
    rw [this]; exact Nat.mul_lt_mul_of_pos_right h1 (Nat.two_pow_pos _)
  have hW2 : 2 ^ (2 * W) = 2 ^ W * 2 ^ W := by rw [← Nat.pow_add]; congr 1; omega
  have hmodx : xh * 2 ^ sh / 2 ^ W % 2 ^ W = xh * 2 ^ sh / 2 ^ W := by
    apply Nat.mod_eq_of_lt
    rw [Nat.div_lt_iff_lt_mul (Nat.two_pow_pos W), ← hW2]; exact hxs
  have hmody : y / 2 ^ (W * l2) * 2 ^ sh / 2 ^ W % 2 ^ W = y / 2 ^ (W * l2) * 2 ^ sh / 2 ^ W := by
    apply Nat.mod_eq_of_lt
    rw [Nat.div_lt_iff_lt_mul (Nat.two_pow_pos W), ← hW2]
    exact Nat.lt_of_le_of_lt (Nat.mul_le_mul_right _ hyh_le) hxs
  refine ⟨W * l2 + (W - sh), ?_⟩
  rw [hmodx, hmody, div_two_pow_shift (Nat.le_of_lt hshW), div_two_pow_shift (Nat.le_of_lt hshW),
    ← hxh, Nat.div_div_eq_div_mul, Nat.div_div_eq_div_mul, ← Nat.pow_add]

end Dashu.Model.NT
