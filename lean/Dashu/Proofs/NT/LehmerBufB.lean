import Dashu.Proofs.NT.LehmerBuf
import Dashu.Proofs.NT.GcdExt
import Dashu.Proofs.NT.LehmerExt
/-
  C12: `lehmer::gcd_ext_in_place` — the returned coefficient `|b|` fits `lhs_len` words.
  Cofactor bounds of the primitive Euclid loop (`|s|·g ≤ b`, `|t|·g ≤ a`, by the alternating-sign
  determinant invariant), carried through `ExtendedGcd for $U` (common power of two, the `== 1` shortcuts),
  combined with the loop invariant `t1·x + t0·y = lhs` of `Proofs/NT/LehmerBuf`.
-/
namespace Dashu.Model.NT
open Dashu.Model

/-- cofactor bounds of the Euclid loop `unchecked_gcd_ext`: with the alternating-sign invariant
    `σ·(lastS·r − s·lastR) = B`, `σ·(t·lastR − lastT·r) = A` the returned `(g, s, t)` has `|s·g| ≤ B`, `|t·g| ≤ A` -/
theorem xgcdLoop_bound (A B : Int) :
    ∀ (fuel lastR r : Nat) (lastS s lastT t σ : Int), (σ = 1 ∨ σ = -1) → r ≤ lastR → 0 < r →
      0 ≤ σ * lastS → σ * s ≤ 0 → σ * lastT ≤ 0 → 0 ≤ σ * t →
      σ * (lastS * r - s * lastR) = B → σ * (t * lastR - lastT * r) = A →
      let res := xgcdLoop fuel lastR r lastS s lastT t
      (-B ≤ res.2.1 * res.1 ∧ res.2.1 * res.1 ≤ B) ∧ (-A ≤ res.2.2 * res.1 ∧ res.2.2 * res.1 ≤ A) := by
  intro fuel
  induction fuel with
  | zero =>
    intro lastR r lastS s lastT t σ hσ hle hr h1 h2 h3 h4 hB hA
    simp only [xgcdLoop]
    have hd : (0 : Int) ≤ (lastR : Int) - r := by omega
    have hr0 : (0 : Int) ≤ (r : Int) := by omega
    have p1 := mul_nonneg h1 hr0
    have p2 := mul_nonneg (neg_nonneg.2 h2) hd
    have p3 := mul_nonneg (neg_nonneg.2 h2) hr0
    have p4 := mul_nonneg (neg_nonneg.2 h3) hr0
    have p5 := mul_nonneg h4 hd
    have p6 := mul_nonneg h4 hr0
    rcases hσ with rfl | rfl <;> refine ⟨⟨?_, ?_⟩, ⟨?_, ?_⟩⟩ <;> nlinarith
  | succ n ih =>
    intro lastR r lastS s lastT t σ hσ hle hr h1 h2 h3 h4 hB hA
    unfold xgcdLoop
    simp only []
    have hdm := Nat.div_add_mod lastR r
    have hmod := Nat.mod_lt lastR hr
    have hq1 : 1 ≤ lastR / r := by rw [Nat.le_div_iff_mul_le hr]; omega
    have hnew : lastR - lastR / r * r = lastR % r := by
      rw [Nat.mul_comm]; omega
    rw [hnew]
    have hr0 : (0 : Int) ≤ (r : Int) := by omega
    have hq0 : (1 : Int) ≤ ((lastR / r : Nat) : Int) := by exact_mod_cast hq1
    split
    · rename_i h0
      -- lastR = q·r
      have hL : (lastR : Int) = ((lastR / r : Nat) : Int) * r := by
        have : lastR = r * (lastR / r) := by omega
        conv => lhs; rw [this]
        push_cast; ring
      generalize ((lastR / r : Nat) : Int) = q at *
      have p1 := mul_nonneg h1 hr0
      have p3 := mul_nonneg (neg_nonneg.2 h2) hr0
      have p3' := mul_nonneg p3 (show (0 : Int) ≤ q - 1 by omega)
      have p4 := mul_nonneg (neg_nonneg.2 h3) hr0
      have p6 := mul_nonneg h4 hr0
      have p6' := mul_nonneg p6 (show (0 : Int) ≤ q - 1 by omega)
      rw [hL] at hB hA
      rcases hσ with rfl | rfl <;> refine ⟨⟨?_, ?_⟩, ⟨?_, ?_⟩⟩ <;> nlinarith
    · rename_i hne
      have hL : (lastR : Int) = ((lastR / r : Nat) : Int) * r + ((lastR % r : Nat) : Int) := by
        have : lastR = r * (lastR / r) + lastR % r := by omega
        conv => lhs; rw [this]
        push_cast; ring
      have hq : (0 : Int) ≤ ((lastR / r : Nat) : Int) := by omega
      apply ih r (lastR % r) s (lastS - ((lastR / r : Nat) : Int) * s) t (lastT - ((lastR / r : Nat) : Int) * t) (-σ)
        (by rcases hσ with rfl | rfl <;> simp) (by omega) (by omega)
      · linarith
      · have := mul_nonneg hq (neg_nonneg.2 h2); nlinarith
      · linarith
      · have := mul_nonneg hq h4; nlinarith
      · rw [← hB, hL]; ring
      · rw [← hA, hL]; ring

theorem xgcdLoop_bound_init {a b : Nat} (hb : 0 < b) (hba : b ≤ a) (fuel : Nat) :
    let res := xgcdLoop fuel a b 1 0 0 1
    (-(b : Int) ≤ res.2.1 * res.1 ∧ res.2.1 * res.1 ≤ b) ∧ (-(a : Int) ≤ res.2.2 * res.1 ∧ res.2.2 * res.1 ≤ a) :=
  xgcdLoop_bound a b fuel a b 1 0 0 1 1 (Or.inl rfl) hba hb (by simp) (by simp) (by simp) (by simp) (by simp) (by simp)

/-- cofactor bounds of the primitive `gcd_ext` (`impl ExtendedGcd for $U`) on non-zero operands:
    `|s|·g ≤ b` and `|t|·g ≤ a` -/
theorem xgcdPrim_bound {a b : Nat} (ha : 0 < a) (hb : 0 < b) {g : Nat} {s t : Int}
    (h : xgcdPrim a b = .ok (g, s, t)) :
    (-(b : Int) ≤ s * g ∧ s * g ≤ b) ∧ (-(a : Int) ≤ t * g ∧ t * g ≤ a) := by
  unfold xgcdPrim at h
  rw [if_neg (by omega), if_neg (by omega), if_neg (by omega)] at h
  simp only [] at h
  rw [tz_or ha hb] at h
  obtain ⟨hda, hdb⟩ := two_pow_min_tz_dvd ha hb
  generalize min (trailingZeros a) (trailingZeros b) = sh at *
  have hP : 0 < 2 ^ sh := Nat.two_pow_pos sh
  have ea := Nat.div_mul_cancel hda
  have eb := Nat.div_mul_cancel hdb
  have ha' : 0 < a / 2 ^ sh := Nat.div_pos (Nat.le_of_dvd ha hda) hP
  have hb' : 0 < b / 2 ^ sh := Nat.div_pos (Nat.le_of_dvd hb hdb) hP
  have hPa : 2 ^ sh ≤ a := Nat.le_of_dvd ha hda
  have hPb : 2 ^ sh ≤ b := Nat.le_of_dvd hb hdb
  generalize a / 2 ^ sh = a' at *
  generalize b / 2 ^ sh = b' at *
  have hPi : (0 : Int) ≤ ((2 ^ sh : Nat) : Int) := Int.natCast_nonneg _
  have eaI : ((a : Nat) : Int) = (a' : Int) * ((2 ^ sh : Nat) : Int) := by rw [← ea]; push_cast; ring
  have ebI : ((b : Nat) : Int) = (b' : Int) * ((2 ^ sh : Nat) : Int) := by rw [← eb]; push_cast; ring
  split at h
  · rename_i hge
    split at h
    · injection h with h
      simp only [Prod.mk.injEq] at h
      obtain ⟨rfl, rfl, rfl⟩ := h
      refine ⟨⟨by simp, by simp⟩, ⟨by omega, by simpa using (by exact_mod_cast hPa : ((2 ^ sh : Nat) : Int) ≤ a)⟩⟩
    · have hbd := xgcdLoop_bound_init hb' hge (b' + 1)
      generalize xgcdLoop (b' + 1) a' b' 1 0 0 1 = res at h hbd
      obtain ⟨g0, ca, cb⟩ := res
      injection h with h
      simp only [Prod.mk.injEq] at h
      obtain ⟨rfl, rfl, rfl⟩ := h
      simp only [] at hbd
      obtain ⟨⟨h1, h2⟩, ⟨h3, h4⟩⟩ := hbd
      have m1 := Int.mul_le_mul_of_nonneg_right h1 hPi
      have m2 := Int.mul_le_mul_of_nonneg_right h2 hPi
      have m3 := Int.mul_le_mul_of_nonneg_right h3 hPi
      have m4 := Int.mul_le_mul_of_nonneg_right h4 hPi
      rw [eaI, ebI]
      push_cast at m1 m2 m3 m4 ⊢
      refine ⟨⟨by linarith, by linarith⟩, ⟨by linarith, by linarith⟩⟩
  · rename_i hlt
    split at h
    · injection h with h
      simp only [Prod.mk.injEq] at h
      obtain ⟨rfl, rfl, rfl⟩ := h
      refine ⟨⟨by omega, by simpa using (by exact_mod_cast hPb : ((2 ^ sh : Nat) : Int) ≤ b)⟩, ⟨by simp, by simp⟩⟩
    · have hbd := xgcdLoop_bound_init ha' (by omega : a' ≤ b') (a' + 1)
      generalize xgcdLoop (a' + 1) b' a' 1 0 0 1 = res at h hbd
      obtain ⟨g0, cb, ca⟩ := res
      injection h with h
      simp only [Prod.mk.injEq] at h
      obtain ⟨rfl, rfl, rfl⟩ := h
      simp only [] at hbd
      obtain ⟨⟨h1, h2⟩, ⟨h3, h4⟩⟩ := hbd
      have m1 := Int.mul_le_mul_of_nonneg_right h1 hPi
      have m2 := Int.mul_le_mul_of_nonneg_right h2 hPi
      have m3 := Int.mul_le_mul_of_nonneg_right h3 hPi
      have m4 := Int.mul_le_mul_of_nonneg_right h4 hPi
      rw [eaI, ebI]
      push_cast at m1 m2 m3 m4 ⊢
      refine ⟨⟨by linarith, by linarith⟩, ⟨by linarith, by linarith⟩⟩

theorem natAbs_mul_le {c : Int} {g : Nat} {B : Nat} (h1 : -(B : Int) ≤ c * g) (h2 : c * g ≤ B) : c.natAbs * g ≤ B := by
  rcases Int.le_total 0 c with hc | hc
  · have : ((c.natAbs * g : Nat) : Int) ≤ B := by push_cast; rw [abs_of_nonneg hc]; exact h2
    exact_mod_cast this
  · have : ((c.natAbs * g : Nat) : Int) ≤ B := by push_cast; rw [abs_of_nonpos hc]; linarith
    exact_mod_cast this

/-- **the coefficient `|b|` returned by `gcd_ext_in_place(lhs, rhs)` fits `lhs_len` words** whenever the main
    loop ends with a last word `y > 0` (the usual exit): `|b|·g ≤ lhs` -/
theorem lehmerExt_b_fits (W : Nat) (hW : 0 < W) (lhs rhs : Nat) (hle : rhs ≤ lhs)
    {x y t0 t1 : Nat} {sw : Bool}
    (hloop : lehmerExtLoop W (lhs + rhs + 1) lhs rhs 0 1 false = .ok (x, y, t0, t1, sw)) (hy : 0 < y)
    {g bb : Nat} {neg : Bool} (h : lehmerExt W lhs rhs = .ok (g, bb, neg)) :
    bb * g ≤ lhs ∧ bb ≤ lhs ∧ bb < 2 ^ (W * wordLen W lhs) := by
  have hinit : ExtInv lhs rhs lhs rhs 0 1 false := by
    refine ⟨rfl, ⟨1, by simp [extSigma]⟩, ⟨0, by simp [extSigma]⟩⟩
  obtain ⟨x', y', t0', t1', sw', hloop', hyx, _, _⟩ :=
    lehmerExtLoop_correct W hW lhs rhs (lhs + rhs + 1) lhs rhs 0 1 false (by omega) (by omega) hinit
  rw [hloop] at hloop'
  injection hloop' with e
  simp only [Prod.mk.injEq] at e
  obtain ⟨rfl, rfl, rfl, rfl, rfl⟩ := e
  obtain ⟨hI, _, _⟩ := lehmerExt_cofactors_fit W hW lhs rhs x y t0 t1 sw hloop
  have hl := lt_two_pow_wordLen hW lhs
  unfold lehmerExt at h
  rw [hloop] at h
  simp only [] at h
  rw [if_neg (by omega)] at h
  obtain ⟨pr, hpr, hx1, _, _⟩ := (xgcdPrim_spec (x % y) y).2 (by omega)
  rw [hpr] at h
  obtain ⟨g', cx, cy⟩ := pr
  simp only [] at h hx1
  injection h with h
  simp only [Prod.mk.injEq] at h
  obtain ⟨rfl, rfl, _⟩ := h
  have hgpos : 0 < g' := by rw [hx1]; exact Nat.gcd_pos_of_pos_right _ hy
  -- after the final division step: (t0 + q·t1)·y + t1·(x mod y) = lhs
  have hdm := Nat.div_add_mod x y
  have hI' : (t0 + x / y * t1) * y + t1 * (x % y) = lhs := by
    have e : (t0 + x / y * t1) * y + t1 * (x % y) = t0 * y + t1 * (y * (x / y) + x % y) := by ring
    rw [e, hdm]; omega
  have hfin : (cx.natAbs * (t0 + x / y * t1) + cy.natAbs * t1) * g' ≤ lhs := by
    by_cases hxw : x % y = 0
    · -- exact division: the primitive returns (y, 0, 1)
      rw [hxw] at hpr
      have : xgcdPrim 0 y = .ok (y, 0, 1) := by
        unfold xgcdPrim
        rw [if_neg (by omega), if_pos rfl]
      rw [this] at hpr
      injection hpr with e
      simp only [Prod.mk.injEq] at e
      obtain ⟨rfl, rfl, rfl⟩ := e
      rw [hxw] at hI'
      simp only [Int.natAbs_zero, Nat.zero_mul, Nat.zero_add, Int.natAbs_one, Nat.one_mul]
      have : t1 * y ≤ (t0 + x / y * t1) * y := Nat.mul_le_mul_right _ (by
        have : 1 ≤ x / y := by rw [Nat.le_div_iff_mul_le hy]; omega
        have : t1 * 1 ≤ x / y * t1 := by rw [Nat.mul_comm]; exact Nat.mul_le_mul_right _ this
        omega)
      omega
    · obtain ⟨⟨b1, b2⟩, ⟨b3, b4⟩⟩ := xgcdPrim_bound (Nat.pos_of_ne_zero hxw) hy hpr
      have c1 := natAbs_mul_le b1 b2
      have c2 := natAbs_mul_le b3 b4
      have e : (cx.natAbs * (t0 + x / y * t1) + cy.natAbs * t1) * g'
          = (cx.natAbs * g') * (t0 + x / y * t1) + (cy.natAbs * g') * t1 := by ring
      rw [e, ← hI']
      have m1 : cx.natAbs * g' * (t0 + x / y * t1) ≤ y * (t0 + x / y * t1) := Nat.mul_le_mul_right _ c1
      have m2 : cy.natAbs * g' * t1 ≤ x % y * t1 := Nat.mul_le_mul_right _ c2
      have e1 : y * (t0 + x / y * t1) = (t0 + x / y * t1) * y := Nat.mul_comm _ _
      have e2 : x % y * t1 = t1 * (x % y) := Nat.mul_comm _ _
      omega
  have : (cx.natAbs * (t0 + x / y * t1) + cy.natAbs * t1) * 1 ≤ (cx.natAbs * (t0 + x / y * t1) + cy.natAbs * t1) * g' :=
    Nat.mul_le_mul_left _ hgpos
  exact ⟨hfin, by omega, by omega⟩

end Dashu.Model.NT
