import Dashu.Proofs.NT.Log2Table
import Dashu.Proofs.NT.Basic
import Mathlib.Tactic.Ring
/-
  C12: lifting the table theorem to the other no_std estimators of `base/src/math/log.rs`:
  `u8` (powering to `u16` first) and the wider integers (top 16 bits + shift).
-/
namespace Dashu.Model.NT

/-- for the top-16-bit estimate of a wider integer the ceiling must also cover the discarded low bits:
    `(n+1)^256 ≤ 2^ceil_log2_fp8(n)` for `2^15 < n < 2^16` -/
def ceilNextOk (n : Nat) : Bool := decide ((n + 1) ^ 256 ≤ 2 ^ ceilLog2Fp8 n)

def ceilBlockOk (b : Nat) : Bool := allFrom ceilNextOk 256 (256 * b)

theorem ceil_chunk_0 : allFrom ceilNextOk 255 32769 = true := by decide +kernel
theorem ceil_chunk_1 : allFrom ceilBlockOk 16 129 = true := by decide +kernel
theorem ceil_chunk_2 : allFrom ceilBlockOk 16 145 = true := by decide +kernel
theorem ceil_chunk_3 : allFrom ceilBlockOk 16 161 = true := by decide +kernel
theorem ceil_chunk_4 : allFrom ceilBlockOk 16 177 = true := by decide +kernel
theorem ceil_chunk_5 : allFrom ceilBlockOk 16 193 = true := by decide +kernel
theorem ceil_chunk_6 : allFrom ceilBlockOk 16 209 = true := by decide +kernel
theorem ceil_chunk_7 : allFrom ceilBlockOk 16 225 = true := by decide +kernel
theorem ceil_chunk_8 : allFrom ceilBlockOk 15 241 = true := by decide +kernel

theorem ceil_covers_next (n : Nat) (h1 : 2 ^ 15 < n) (h2 : n < 2 ^ 16) :
    (n + 1) ^ 256 ≤ 2 ^ ceilLog2Fp8 n := by
  have hn : ceilNextOk n = true := by
    by_cases hlow : n < 33024
    · exact allFrom_spec ceilNextOk 255 32769 ceil_chunk_0 n (by omega) (by omega)
    · have hb : ceilBlockOk (n / 256) = true := by
        have hq : 129 ≤ n / 256 ∧ n / 256 < 256 := by omega
        by_cases c1 : n / 256 < 145
        · exact allFrom_spec ceilBlockOk 16 129 ceil_chunk_1 _ (by omega) (by omega)
        by_cases c2 : n / 256 < 161
        · exact allFrom_spec ceilBlockOk 16 145 ceil_chunk_2 _ (by omega) (by omega)
        by_cases c3 : n / 256 < 177
        · exact allFrom_spec ceilBlockOk 16 161 ceil_chunk_3 _ (by omega) (by omega)
        by_cases c4 : n / 256 < 193
        · exact allFrom_spec ceilBlockOk 16 177 ceil_chunk_4 _ (by omega) (by omega)
        by_cases c5 : n / 256 < 209
        · exact allFrom_spec ceilBlockOk 16 193 ceil_chunk_5 _ (by omega) (by omega)
        by_cases c6 : n / 256 < 225
        · exact allFrom_spec ceilBlockOk 16 209 ceil_chunk_6 _ (by omega) (by omega)
        by_cases c7 : n / 256 < 241
        · exact allFrom_spec ceilBlockOk 16 225 ceil_chunk_7 _ (by omega) (by omega)
        · exact allFrom_spec ceilBlockOk 15 241 ceil_chunk_8 _ (by omega) (by omega)
      exact allFrom_spec ceilNextOk 256 (256 * (n / 256)) hb n (by omega) (by omega)
  simpa [ceilNextOk] using hn

/-- the `u8` estimator (values 5 … 255 that are not powers of two, 3 is a literal): the operand is
    raised to the 4th power below 16 and squared from 16 on; `k` is that power -/
def u8Ok (i : Nat) : Bool :=
  let k := if i < 16 then 4 else 2
  i == 2 ^ (bitLen i - 1) || i == 3 ||
    (decide (2 ^ log2Fp8 (i ^ k) ≤ i ^ (256 * k)) && decide (i ^ (256 * k) ≤ 2 ^ ceilLog2Fp8 (i ^ k))
      && decide (256 ≤ i ^ k) && decide (i ^ k < 65536))

theorem u8_all : allFrom u8Ok 252 4 = true := by decide +kernel

theorem log2_u8_sound (i : Nat) (h1 : 4 ≤ i) (h2 : i < 256) (hp : i ≠ 2 ^ (bitLen i - 1)) (h3 : i ≠ 3) :
    let k := if i < 16 then 4 else 2
    2 ^ log2Fp8 (i ^ k) ≤ i ^ (256 * k) ∧ i ^ (256 * k) ≤ 2 ^ ceilLog2Fp8 (i ^ k) := by
  have h := allFrom_spec u8Ok 252 4 u8_all i h1 (by omega)
  simp only [u8Ok, Bool.or_eq_true, beq_iff_eq, Bool.and_eq_true, decide_eq_true_eq] at h
  rcases h with (h | h) | h
  · exact absurd h hp
  · exact absurd h h3
  · exact ⟨h.1.1.1, h.1.1.2⟩

/-- wider integers: top 16 bits `hi = x >> shift` with `shift = bits − 16`; the lower estimate of `hi`
    plus `shift`, and the ceiling of `hi` (or `15 + 1/256` when `hi = 2^15`) plus `shift`, enclose
    `log2 x` — in 8-bit fixed point: `2^(lb + 256·shift) ≤ x^256 ≤ 2^(ub + 256·shift)` -/
theorem log2_wide_sound (x : Nat) (hbits : 16 < bitLen x) :
    let shift := bitLen x - 16
    let hi := x / 2 ^ shift
    let ub := if hi = 2 ^ 15 then 15 * 256 + 1 else ceilLog2Fp8 hi
    2 ^ (log2Fp8 hi + 256 * shift) ≤ x ^ 256 ∧ x ^ 256 ≤ 2 ^ (ub + 256 * shift) := by
  intro shift hi ub
  have hx : x ≠ 0 := by intro h; subst h; simp [bitLen] at hbits
  have hlo := two_pow_bitLen_le hx
  have hup := lt_two_pow_bitLen x
  have hp : 0 < 2 ^ shift := Nat.two_pow_pos _
  have e1 : 2 ^ (bitLen x - 1) = 2 ^ 15 * 2 ^ shift := by
    rw [← Nat.pow_add]; congr 1; show bitLen x - 1 = 15 + (bitLen x - 16); omega
  have e2 : 2 ^ bitLen x = 2 ^ 16 * 2 ^ shift := by
    rw [← Nat.pow_add]; congr 1; show bitLen x = 16 + (bitLen x - 16); omega
  have hhi1 : 2 ^ 15 ≤ hi := by
    show 2 ^ 15 ≤ x / 2 ^ shift
    rw [Nat.le_div_iff_mul_le hp]; omega
  have hhi2 : hi < 2 ^ 16 := by
    show x / 2 ^ shift < 2 ^ 16
    rw [Nat.div_lt_iff_lt_mul hp]; omega
  have hdm := Nat.div_add_mod x (2 ^ shift)
  have hml := Nat.mod_lt x hp
  have hge : hi * 2 ^ shift ≤ x := by show x / 2 ^ shift * 2 ^ shift ≤ x; rw [Nat.mul_comm]; omega
  have hlt : x < (hi + 1) * 2 ^ shift := by
    show x < (x / 2 ^ shift + 1) * 2 ^ shift; rw [Nat.add_mul, Nat.one_mul, Nat.mul_comm]; omega
  have hsh : (2 ^ shift) ^ 256 = 2 ^ (256 * shift) := by rw [← Nat.pow_mul, Nat.mul_comm]
  constructor
  · have ht := (log2_fp8_sound hi (by omega) hhi2).1
    calc 2 ^ (log2Fp8 hi + 256 * shift) = 2 ^ log2Fp8 hi * (2 ^ shift) ^ 256 := by rw [Nat.pow_add, hsh]
      _ ≤ hi ^ 256 * (2 ^ shift) ^ 256 := Nat.mul_le_mul_right _ ht
      _ = (hi * 2 ^ shift) ^ 256 := by rw [Nat.mul_pow]
      _ ≤ x ^ 256 := Nat.pow_le_pow_left hge _
  · have hc : (hi + 1) ^ 256 ≤ 2 ^ ub := by
      show (hi + 1) ^ 256 ≤ 2 ^ (if hi = 2 ^ 15 then 15 * 256 + 1 else ceilLog2Fp8 hi)
      split
      · rename_i h; rw [h]; decide +kernel
      · rename_i h; exact ceil_covers_next hi (by omega) hhi2
    calc x ^ 256 ≤ ((hi + 1) * 2 ^ shift) ^ 256 := Nat.pow_le_pow_left (Nat.le_of_lt hlt) _
      _ = (hi + 1) ^ 256 * (2 ^ shift) ^ 256 := by rw [Nat.mul_pow]
      _ ≤ 2 ^ ub * (2 ^ shift) ^ 256 := Nat.mul_le_mul_right _ hc
      _ = 2 ^ (ub + 256 * shift) := by rw [Nat.pow_add, hsh]

end Dashu.Model.NT
