import Dashu.Model.NT.ModAddK
import Dashu.Proofs.NT.ModLargeK
/-
  C13 ↔ C01 link for `integer/src/modular/add.rs` (round 6): the buffer-level `negate_in_place`, `add_in_place`,
  `dbl_in_place`, `sub_in_place`, `sub_in_place_swap` of `Model/NT/ModAddK.lean` never trip a `debug_assert` on
  residues below the normalised modulus and leave `negRaw` / `addRaw` / `subRaw`.  The word loops' contracts are
  C01's `addSameLen_spec` / `subSameLen_spec` / `subSameLenSwap_eq` and C02's `shlInPlace_spec` / `cmpSameLen_spec`,
  imported — nothing is re-proved.
-/
namespace Dashu.Model.NT
open Dashu.Model Dashu.Model.Div

theorem all_zero_iff (W : Nat) (ws : List Nat) : ws.all (fun w => w == 0) = true ↔ val W ws = 0 := by
  induction ws with
  | nil => simp
  | cons a as ih =>
    have hp : 0 < 2 ^ W := Nat.two_pow_pos _
    simp only [List.all_cons, Bool.and_eq_true, beq_iff_eq, val_cons, ih]
    constructor
    · intro ⟨h1, h2⟩; rw [h1, h2]; simp
    · intro h
      have h1 : a = 0 := by omega
      have h2 : 2 ^ W * val W as = 0 := by omega
      rcases Nat.mul_eq_zero.1 h2 with h3 | h3
      · omega
      · exact ⟨h1, h3⟩

/-- the residue buffer: exactly `n` words holding `x` -/
theorem rawWords_spec {W : Nat} {r : Ring} (hwf : r.WF W) {x : Nat} (hx : x < r.M) :
    (r.rawWords W x).length = r.n ∧ IsWords W (r.rawWords W x) ∧ val W (r.rawWords W x) = x :=
  wordsPad_spec hwf.hW (Nat.lt_trans hx hwf.Mlt)

/-- `negate_in_place` on buffers -/
theorem negateInPlaceL_spec {W : Nat} {nd raw : List Nat} (hnd : IsWords W nd) (hraw : IsWords W raw)
    (hl : nd.length = raw.length) (hle : val W raw ≤ val W nd) :
    ∃ out, negateInPlaceL W nd raw = .ok out ∧ out.length = raw.length ∧ IsWords W out ∧
      val W out = if val W raw = 0 then 0 else val W nd - val W raw := by
  unfold negateInPlaceL subFromModulusL
  by_cases hz : raw.all (fun w => w == 0) = true
  · rw [if_pos hz]
    have := (all_zero_iff W raw).1 hz
    exact ⟨raw, rfl, rfl, hraw, by rw [if_pos this, this]⟩
  · rw [if_neg hz]
    have hnz : val W raw ≠ 0 := fun h => hz ((all_zero_iff W raw).2 h)
    rw [subSameLenSwap_eq W nd raw 0 hl]
    have ⟨s1, s2, s3, s4⟩ := subSameLen_spec W nd raw 0 hnd hraw hl (by omega)
    generalize subSameLen W nd raw 0 = p at s1 s2 s3 s4
    obtain ⟨out, bw⟩ := p
    simp only at s1 s2 s3 s4 ⊢
    have hlt := val_lt W out s3
    rw [s2] at hlt
    have hb : bw = 0 := by
      rcases Nat.eq_zero_or_pos bw with h | h
      · exact h
      · have : bw = 1 := by omega
        subst this; omega
    subst hb
    refine ⟨out, by simp, by omega, s3, ?_⟩
    rw [if_neg hnz]; omega

/-- the conditional subtraction shared by `add_in_place` / `dbl_in_place`: the sum `s = val l1 + P·c < 2·M` -/
theorem condSubL_spec {W : Nat} {nd l1 : List Nat} {c : Nat} {overflow : Bool} (hnd : IsWords W nd) (hl1 : IsWords W l1)
    (hl : l1.length = nd.length) (hc : c ≤ 1) (hov : overflow = decide (c ≠ 0))
    (hM : val W nd < 2 ^ (W * nd.length))
    (hs : val W l1 + 2 ^ (W * nd.length) * c < 2 * val W nd) :
    ∃ out, condSubL W nd l1 overflow = .ok out ∧ out.length = nd.length ∧ IsWords W out ∧
      val W out = (if val W l1 + 2 ^ (W * nd.length) * c ≥ val W nd
                   then val W l1 + 2 ^ (W * nd.length) * c - val W nd else val W l1 + 2 ^ (W * nd.length) * c) := by
  unfold condSubL subModulusL
  rw [cmpSameLen_spec W l1 nd hl hl1 hnd]
  have hl1lt := val_lt W l1 hl1
  rw [hl] at hl1lt
  generalize hP : 2 ^ (W * nd.length) = P at *
  by_cases hcond : (overflow = true ∨ compare (val W l1) (val W nd) ≠ .lt)
  · rw [if_pos hcond]
    have hge : val W l1 + P * c ≥ val W nd := by
      rcases hcond with h | h
      · subst hov; simp at h
        have : c = 1 := by omega
        subst this; omega
      · have : ¬ val W l1 < val W nd := fun hh => h (Nat.compare_eq_lt.2 hh)
        have : 0 ≤ P * c := Nat.zero_le _
        omega
    have ⟨s1, s2, s3, s4⟩ := subSameLen_spec W l1 nd 0 hl1 hnd hl (by omega)
    generalize subSameLen W l1 nd 0 = p at s1 s2 s3 s4
    obtain ⟨l2, c2⟩ := p
    simp only at s1 s2 s3 s4 ⊢
    have hl2lt := val_lt W l2 s3
    rw [s2, hl, hP] at hl2lt
    rw [hl, hP] at s1
    have hcc : c2 = c := by
      rcases Nat.eq_zero_or_pos c with h0 | h0 <;> rcases Nat.eq_zero_or_pos c2 with h2 | h2
      · omega
      · have : c2 = 1 := by omega
        subst this; subst h0; omega
      · have : c = 1 := by omega
        subst this; subst h2; omega
      · omega
    subst hcc
    have hne : (overflow != decide (c2 ≠ 0)) = false := by subst hov; simp
    rw [hne]
    refine ⟨l2, by simp, by omega, s3, ?_⟩
    rw [if_pos hge]
    rcases Nat.eq_zero_or_pos c2 with h0 | h0
    · subst h0; omega
    · have : c2 = 1 := by omega
      subst this; omega
  · rw [if_neg hcond]
    have h1 : overflow = false := by
      cases overflow
      · rfl
      · exact absurd (Or.inl rfl) hcond
    have h2 : val W l1 < val W nd := by
      apply Classical.byContradiction
      intro hh
      apply hcond; right
      intro hlt
      exact hh (Nat.compare_eq_lt.1 hlt)
    have hc0 : c = 0 := by
      subst hov; simpa using h1
    subst hc0
    refine ⟨l1, rfl, hl, hl1, ?_⟩
    rw [if_neg (by omega)]; simp

/-- the conditional addition shared by `sub_in_place` / `sub_in_place_swap`: `val l1 + t = u + P·c` is what the
    subtraction loop left -/
theorem condAddL_spec {W : Nat} {nd l1 : List Nat} {c u t : Nat} (hnd : IsWords W nd) (hl1 : IsWords W l1)
    (hl : l1.length = nd.length) (hc : c ≤ 1)
    (ht : t ≤ val W nd)
    (hs : val W l1 + t = u + 2 ^ (W * nd.length) * c) :
    ∃ out, condAddL W nd l1 c = .ok out ∧ out.length = nd.length ∧ IsWords W out ∧
      val W out = (if u ≥ t then u - t else val W nd - (t - u)) := by
  unfold condAddL addModulusL
  have hl1lt := val_lt W l1 hl1
  rw [hl] at hl1lt
  by_cases hc0 : c = 0
  · subst hc0
    simp only [ne_eq, not_true_eq_false, if_false]
    refine ⟨l1, rfl, hl, hl1, ?_⟩
    simp only [Nat.mul_zero, Nat.add_zero] at hs
    rw [if_pos (by omega)]; omega
  · rw [if_pos hc0]
    have hc1 : c = 1 := by omega
    subst hc1
    have ⟨s1, s2, s3, s4⟩ := addSameLen_spec W l1 nd 0 hl1 hnd hl (by omega)
    generalize addSameLen W l1 nd 0 = p at s1 s2 s3 s4
    obtain ⟨l2, c2⟩ := p
    simp only at s1 s2 s3 s4 ⊢
    have hl2lt := val_lt W l2 s3
    rw [s2, hl] at hl2lt
    rw [hl] at s1
    generalize 2 ^ (W * nd.length) = P at *
    have hc2 : c2 = 1 := by
      rcases Nat.eq_zero_or_pos c2 with h0 | h0
      · subst h0; omega
      · omega
    subst hc2
    rw [if_neg (by omega)]
    refine ⟨l2, rfl, by omega, s3, ?_⟩
    rw [if_neg (by omega)]; omega

section ring
variable {W : Nat} {r : Ring}

theorem addRawKL_eq (hwf : r.WF W) (hk : r.kind = .large → 1 ≤ r.n) {a b : Nat} (ha : a < r.M) (hb : b < r.M) :
    addRawKL W r a b = addRaw r a b := by
  unfold addRawKL
  cases hkind : r.kind with
  | single => rfl
  | double => rfl
  | large =>
    simp only []
    obtain ⟨hlen, hndw, hndv⟩ := ndWords_spec hwf (hk hkind)
    obtain ⟨la, wa, va⟩ := rawWords_spec hwf ha
    obtain ⟨lb, wb, vb⟩ := rawWords_spec hwf hb
    unfold addInPlaceL
    have ⟨s1, s2, s3, s4⟩ := addSameLen_spec W _ _ 0 wa wb (by rw [la, lb]) (by omega)
    generalize addSameLen W (r.rawWords W a) (r.rawWords W b) 0 = p at s1 s2 s3 s4
    obtain ⟨l1, c⟩ := p
    simp only at s1 s2 s3 s4 ⊢
    rw [la, va, vb, ← hlen] at s1
    have hMlt : val W (r.ndWords W) < 2 ^ (W * (r.ndWords W).length) := by rw [hndv, hlen]; exact hwf.Mlt
    obtain ⟨out, ho, _, _, hv⟩ := condSubL_spec (overflow := decide (c ≠ 0)) hndw s3 (by omega) s4 rfl hMlt
      (by rw [s1, hndv]; omega)
    rw [ho]
    simp only [unwrapWords, Except.map, unwrapRaw, hv, s1, hndv, addRaw, Nat.add_zero]

theorem dblRawKL_eq (hwf : r.WF W) (hk : r.kind = .large → 1 ≤ r.n) {a : Nat} (ha : a < r.M) :
    dblRawKL W r a = addRaw r a a := by
  unfold dblRawKL
  cases hkind : r.kind with
  | single => rfl
  | double => rfl
  | large =>
    simp only []
    obtain ⟨hlen, hndw, hndv⟩ := ndWords_spec hwf (hk hkind)
    obtain ⟨la, wa, va⟩ := rawWords_spec hwf ha
    unfold dblInPlaceL
    have ⟨s1, s2, s3, s4⟩ := Div.shlInPlace_spec W 1 hwf.hW _ wa
    generalize Div.shlInPlace W (r.rawWords W a) 1 = p at s1 s2 s3 s4
    obtain ⟨l1, c⟩ := p
    simp only at s1 s2 s3 s4 ⊢
    rw [la, va, ← hlen] at s1
    have hMlt : val W (r.ndWords W) < 2 ^ (W * (r.ndWords W).length) := by rw [hndv, hlen]; exact hwf.Mlt
    obtain ⟨out, ho, _, _, hv⟩ := condSubL_spec (overflow := decide (c > 0)) (c := c) hndw s3 (by omega) (by omega)
      (by simp [Nat.pos_iff_ne_zero]) hMlt (by rw [s1, hndv]; omega)
    rw [ho]
    simp only [unwrapWords, Except.map, unwrapRaw, hv, s1, hndv, addRaw]
    have : a * 2 ^ 1 = a + a := by omega
    rw [this]

theorem subRawKL_eq (hwf : r.WF W) (hk : r.kind = .large → 1 ≤ r.n) {a b : Nat} (ha : a < r.M) (hb : b < r.M) :
    subRawKL W r a b = subRaw r a b := by
  unfold subRawKL
  cases hkind : r.kind with
  | single => rfl
  | double => rfl
  | large =>
    simp only []
    obtain ⟨hlen, hndw, hndv⟩ := ndWords_spec hwf (hk hkind)
    obtain ⟨la, wa, va⟩ := rawWords_spec hwf ha
    obtain ⟨lb, wb, vb⟩ := rawWords_spec hwf hb
    unfold subInPlaceL
    have ⟨s1, s2, s3, s4⟩ := subSameLen_spec W _ _ 0 wa wb (by rw [la, lb]) (by omega)
    generalize subSameLen W (r.rawWords W a) (r.rawWords W b) 0 = p at s1 s2 s3 s4
    obtain ⟨l1, c⟩ := p
    simp only at s1 s2 s3 s4 ⊢
    rw [la, va, vb, ← hlen, Nat.add_zero] at s1
    obtain ⟨out, ho, _, _, hv⟩ := condAddL_spec (u := a) (t := b) hndw s3 (by omega) s4 (by rw [hndv]; omega) s1
    rw [ho]
    simp only [unwrapWords, Except.map, unwrapRaw, hv, hndv, subRaw]

theorem subSwapRawKL_eq (hwf : r.WF W) (hk : r.kind = .large → 1 ≤ r.n) {a b : Nat} (ha : a < r.M) (hb : b < r.M) :
    subSwapRawKL W r a b = subRaw r a b := by
  unfold subSwapRawKL
  cases hkind : r.kind with
  | single => rfl
  | double => rfl
  | large =>
    simp only []
    obtain ⟨hlen, hndw, hndv⟩ := ndWords_spec hwf (hk hkind)
    obtain ⟨la, wa, va⟩ := rawWords_spec hwf ha
    obtain ⟨lb, wb, vb⟩ := rawWords_spec hwf hb
    unfold subInPlaceSwapL
    rw [subSameLenSwap_eq W _ _ 0 (by rw [la, lb])]
    have ⟨s1, s2, s3, s4⟩ := subSameLen_spec W _ _ 0 wa wb (by rw [la, lb]) (by omega)
    generalize subSameLen W (r.rawWords W a) (r.rawWords W b) 0 = p at s1 s2 s3 s4
    obtain ⟨l1, c⟩ := p
    simp only at s1 s2 s3 s4 ⊢
    rw [la, va, vb, ← hlen, Nat.add_zero] at s1
    obtain ⟨out, ho, _, _, hv⟩ := condAddL_spec (u := a) (t := b) hndw s3 (by omega) s4 (by rw [hndv]; omega) s1
    rw [ho]
    simp only [unwrapWords, Except.map, unwrapRaw, hv, hndv, subRaw]

theorem negRawKL_eq (hwf : r.WF W) (hk : r.kind = .large → 1 ≤ r.n) {a : Nat} (ha : a < r.M) :
    negRawKL W r a = negRaw r a := by
  unfold negRawKL
  cases hkind : r.kind with
  | single => rfl
  | double => rfl
  | large =>
    simp only []
    obtain ⟨hlen, hndw, hndv⟩ := ndWords_spec hwf (hk hkind)
    obtain ⟨la, wa, va⟩ := rawWords_spec hwf ha
    obtain ⟨out, ho, _, _, hv⟩ := negateInPlaceL_spec hndw wa (by rw [hlen, la]) (by rw [va, hndv]; omega)
    rw [ho]
    simp only [unwrapWords, Except.map, unwrapRaw, hv, va, hndv, negRaw]

end ring

/-- `IntoRing for IBig` with every division kernel and the negation on buffers = the `%`-level model -/
theorem reduceIntKA_eq {W id m : Nat} {r : Ring} (hW : 0 < W) (hW4 : r.kind = .large → 4 ≤ W)
    (hnew : Ring.new W id m = .ok r) (a : Int) : reduceIntKA W r a = reduceInt W r a := by
  have hwf := Ring.new_wf hW hnew
  have hn : r.kind = .large → 1 ≤ r.n := fun hk => by have := hwf.kind_n.2.2 hk; omega
  unfold reduceIntKA reduceInt
  rw [rawOfNatKL_eq hW hW4 hnew]
  have hlt : rawOfNat W r a.natAbs < r.M := by
    rw [rawOfNat_eq hwf]
    exact Nat.mul_lt_mul_of_pos_right (Nat.mod_lt _ hwf.mpos) (Nat.two_pow_pos _)
  simp only [negRawKL_eq hwf hn hlt]

theorem subBothKL_eq {W id m : Nat} {r : Ring} (hW : 0 < W) (hnew : Ring.new W id m = .ok r)
    (a b : Elem) (ha : a.ring = r) (hva : a.raw < r.M) (hvb : b.raw < r.M) :
    a.subBothKL W b = a.sub b := by
  have hwf := Ring.new_wf hW hnew
  have hn : r.kind = .large → 1 ≤ r.n := fun hk => by have := hwf.kind_n.2.2 hk; omega
  subst ha
  unfold Elem.subBothKL Elem.subKL Elem.subSwapKL Elem.sub
  by_cases hs : sameRing a b = true
  · simp only [hs, if_true, subRawKL_eq hwf hn hva hvb, subSwapRawKL_eq hwf hn hva hvb]
  · simp only [hs]; rfl

end Dashu.Model.NT
