import Dashu.Model.NT.PrimRoot
import Dashu.Model.NT.Log
import Dashu.Gen.RootTables
/-
  C12 (Round 5, Tie A): the lookup tables, table index offsets and under-estimate margins of the primitive roots as
  REGENERATED from base/src/ring/root.rs (Dashu/Gen/RootTables.lean) are the ones the hand model runs with.
  `est…G` are the estimate stages of Model/NT/PrimRoot.lean with every such literal replaced by the regenerated
  definition (text produced from the model text by the C12 builder); the theorems below are `rfl`: they hold exactly as
  long as source and model agree, and break — with the build of Props/C12 — when a table entry, an offset or a margin of
  the source changes.  LOG2_TAB (base/src/math/log.rs) likewise.
-/
namespace Dashu.Model.NT
open Dashu.Model

/-- `estSqrtU16` with the regenerated table, index offset and margin -/
def estSqrtU16G (n : Nat) : Option Nat := do
  let t ← tabAt Gen.RSQRT_TAB (n / 2 ^ 9) Gen.rsqrt_index_offset_u16
  let r : Nat := 0x100 ||| t
  let s ← ck 32 (r * n)
  let s : Nat := s / 2 ^ 16
  let s ← ck 32 ((s : Int) - (Gen.sqrt_u16_margin : Nat))
  pure (s % 2 ^ 8)

/-- `estCbrtU16` with the regenerated table, index offset and margin -/
def estCbrtU16G (n : Nat) : Option Nat := do
  let adjust : Nat := if n ≥ 2 ^ 15 then 1 else 0
  let t ← tabAt Gen.RCBRT_TAB (n / 2 ^ (9 + 3 * adjust)) Gen.rcbrt_index_offset_u16
  let r : Nat := 0x100 ||| t
  let r2 ← ck 32 (r * r)
  let r2 : Nat := r2 / 2 ^ (2 + 2 * adjust)
  let c ← ck 32 (r2 * n)
  let c : Nat := c / 2 ^ 24
  let c ← ck 32 ((c : Int) - (Gen.cbrt_u16_margin : Nat))
  pure (c % 2 ^ 8)

/-- `estSqrtU32` with the regenerated table, index offset and margin -/
def estSqrtU32G (n : Nat) : Option Nat := do
  let n16 : Nat := n / 2 ^ 16 % 2 ^ 16
  let t ← tabAt Gen.RSQRT_TAB (n16 / 2 ^ 9) Gen.rsqrt_index_offset_u32
  let r : Nat := 0x100 ||| t
  -- `((3 * r as u16) << 5) - (wmul32_hi(self, r * r * r) >> 11) as u16`
  let a ← ck 16 (3 * (r % 2 ^ 16))
  let a : Nat := a * 2 ^ 5 % 2 ^ 16
  let r3 ← ck 32 (r * r)
  let r3 ← ck 32 (r3 * r)
  let b : Nat := wmulHi 32 n r3 / 2 ^ 11 % 2 ^ 16
  let r ← ck 16 ((a : Int) - b)
  let r : Nat := r * 2 % 2 ^ 16                                   -- `r << 1`
  let s : Nat := min (wmulHi 16 r n16 * 2) (2 ^ 16 - 1)            -- `.saturating_mul(2)`
  let s ← ck 16 ((s : Int) - (Gen.sqrt_u32_margin : Nat))
  let ss ← ck 32 (s * s)
  let e ← ck 32 ((n : Int) - ss)
  let s ← ck 16 (s + wmulHi 16 (e / 2 ^ 16 % 2 ^ 16) r)
  pure s

/-- `estCbrtU32` with the regenerated table, index offset and margin -/
def estCbrtU32G (n : Nat) : Option Nat := do
  let adjust : Nat := if n ≥ 2 ^ 30 then 1 else 0
  let n16 : Nat := n / 2 ^ (16 + 3 * adjust) % 2 ^ 16
  let t ← tabAt Gen.RCBRT_TAB (n16 / 2 ^ 8) Gen.rcbrt_index_offset_u32
  let r : Nat := 0x100 ||| t
  let r3 ← ck 32 (r * r)
  let r3 ← ck 32 (r3 * r)
  let r3 : Nat := r3 / 2 ^ 11
  let t ← ck 16 ((4 * 2 ^ 11 : Int) - wmulHi 16 n16 (r3 % 2 ^ 16))
  let rt ← ck 32 (r * t)
  let r : Nat := rt / 3 / 2 ^ 4 % 2 ^ 16
  let r : Nat := r / 2 ^ adjust
  let r ← ck 16 ((r : Int) - (Gen.cbrt_u32_margin : Nat))
  let c : Nat := wmulHi 16 r (wmulHi 16 r (n / 2 ^ 16 % 2 ^ 16)) / 2 ^ 2
  pure c

/-- `estSqrtU64` with the regenerated table, index offset and margin -/
def estSqrtU64G (n : Nat) : Option Nat := do
  let n32 : Nat := n / 2 ^ 32 % 2 ^ 32
  let t ← tabAt Gen.RSQRT_TAB (n32 / 2 ^ 25) Gen.rsqrt_index_offset_u64
  let r : Nat := 0x100 ||| t
  -- `((3 * r) << 21) - wmul32_hi(n32, (r * r * r) << 5)`
  let a ← ck 32 (3 * r)
  let a : Nat := a * 2 ^ 21 % 2 ^ 32
  let r3 ← ck 32 (r * r)
  let r3 ← ck 32 (r3 * r)
  let r3 : Nat := r3 * 2 ^ 5 % 2 ^ 32
  let r ← ck 32 ((a : Int) - wmulHi 32 n32 r3)
  -- `(3 << 28) - wmul32_hi(r, wmul32_hi(r, n32))`
  let t ← ck 32 ((3 * 2 ^ 28 : Int) - wmulHi 32 r (wmulHi 32 r n32))
  let r : Nat := wmulHi 32 r t
  let r : Nat := r * 2 ^ 4 % 2 ^ 32                               -- `r << 4`
  let s : Nat := wmulHi 32 r n32 * 2 % 2 ^ 32                     -- `<< 1`
  let s ← ck 32 ((s : Int) - (Gen.sqrt_u64_margin : Nat))
  let ss ← ck 64 (s * s)
  let e ← ck 64 ((n : Int) - ss)
  let s ← ck 32 (s + wmulHi 32 (e / 2 ^ 32 % 2 ^ 32) r)
  pure s

/-- `estCbrtU64` with the regenerated table, index offset and margin -/
def estCbrtU64G (n : Nat) : Option Nat := do
  let adjust : Nat := if n ≥ 2 ^ 63 then 1 else 0
  let n32 : Nat := n / 2 ^ (32 + 3 * adjust) % 2 ^ 32
  let t ← tabAt Gen.RCBRT_TAB (n32 / 2 ^ 25) Gen.rcbrt_index_offset_u64
  let r : Nat := 0x100 ||| t
  let r3 ← ck 32 (r * r)
  let r3 ← ck 32 (r3 * r)
  let t ← ck 32 ((4 * 2 ^ 23 : Int) - wmulHi 32 n32 r3)
  let r ← ck 32 (r * (t / 3))
  let t ← ck 32 ((4 * 2 ^ 28 : Int) - wmulHi 32 r (wmulHi 32 r (wmulHi 32 r n32)))
  let r : Nat := wmulHi 32 r t / 3
  let r : Nat := r / 2 ^ adjust
  let r ← ck 32 ((r : Int) - (Gen.cbrt_u64_margin : Nat))
  let c : Nat := wmulHi 32 r (wmulHi 32 r (n / 2 ^ 32 % 2 ^ 32))
  pure c

theorem rsqrt_tab_regenerated : RSQRT_TAB = Gen.RSQRT_TAB := by decide
theorem rcbrt_tab_regenerated : RCBRT_TAB = Gen.RCBRT_TAB := by decide
theorem log2_tab_regenerated : packBytes Gen.LOG2_TAB = LOG2_TAB_PACKED ∧ Gen.LOG2_TAB.length = 128 := by decide +kernel

theorem estSqrtU16_regenerated : estSqrtU16 = estSqrtU16G := by funext n; rfl
theorem estCbrtU16_regenerated : estCbrtU16 = estCbrtU16G := by funext n; rfl
theorem estSqrtU32_regenerated : estSqrtU32 = estSqrtU32G := by funext n; rfl
theorem estCbrtU32_regenerated : estCbrtU32 = estCbrtU32G := by funext n; rfl
theorem estSqrtU64_regenerated : estSqrtU64 = estSqrtU64G := by funext n; rfl
theorem estCbrtU64_regenerated : estCbrtU64 = estCbrtU64G := by funext n; rfl

/-- `KBITS` of the two `u128` steps as the model packs its operands (`2^32` / `2^22`, `2^(KBITS−1)`, `2^(KBITS+1)`, `2^(2·KBITS)`) -/
theorem u128_kbits_regenerated : Gen.sqrt_u128_KBITS = 32 ∧ Gen.cbrt_u128_KBITS = 22 := by decide

/-! ### Round 6: the two `u128` steps with every shift amount, mask width and small multiplier regenerated

`normSqrtU128G` / `normCbrtU128G` are `normSqrtU128` / `normCbrtU128` of Model/NT/PrimRoot.lean with each literal that the
source writes as an expression in `KBITS` / `u64::BITS` (or as a plain literal: `>> 63`, `>> 66`, `>>= 1`, `>> 3`, `3 *`,
`.pow(2)`, `.pow(3)`, the `while r < 0` update) replaced by the definition regenerated from that very statement
(vlib/extract_roottabs.py, one statement shape per definition, fails closed).  Equality with the hand model is `rfl`. -/

/-- `normSqrtU128` over the regenerated shift amounts -/
def normSqrtU128G (n : Nat) : Option (Nat × Nat) := do
  let a : Nat := n / 2 ^ Gen.sqrt_u128_split
  let b : Nat := n % 2 ^ 64                                          -- `self & u64::MAX as u128`
  let (s1, r1) ← normSqrtU64 a
  let r0 : Nat := r1 * 2 ^ Gen.sqrt_u128_r0_shl % 2 ^ 64 ||| b / 2 ^ Gen.sqrt_u128_r0_shr
  guardO (decide (s1 ≠ 0))
  let q : Nat := r0 / s1
  let u : Nat := r0 % s1
  let qu : Option (Nat × Nat) :=
    if q / 2 ^ Gen.sqrt_u128_q_shr > 0 then (do let u' ← ck 64 (u + s1); pure (q - Gen.sqrt_u128_q_dec, u')) else some (q, u)
  let (q, u) ← qu
  let s : Nat := s1 * 2 ^ Gen.sqrt_u128_s_shl % 2 ^ 64 ||| q
  let r : Nat := u * 2 ^ Gen.sqrt_u128_r_shl % 2 ^ 64 ||| b % 2 ^ Gen.sqrt_u128_r_mask
  let q2 ← ck 64 (q * q)
  let c : Int := ((u / 2 ^ Gen.sqrt_u128_c_shr % 2 ^ 8 : Nat) : Int) - (if r < q2 then 1 else 0)
  let r : Nat := (r + 2 ^ 64 - q2) % 2 ^ 64
  if c < 0 then do
    let t1 : Nat := r + s
    let s ← ck 64 ((s : Int) - 1)
    let t2 : Nat := t1 % 2 ^ 64 + s
    let c : Int := c + (t1 / 2 ^ 64 : Nat) + (t2 / 2 ^ 64 : Nat)
    if c < 0 then none else pure (s, c.toNat * 2 ^ Gen.sqrt_u128_c_shl + t2 % 2 ^ 64)
  else pure (s, c.toNat * 2 ^ Gen.sqrt_u128_c_shl + r)

/-- `cbrtDownLoop` over the regenerated literals of `r += 3 * (c as i128 - 1) * c as i128 + 1; c -= 1` -/
def cbrtDownLoopG : Nat → Nat → Int → Option (Nat × Int)
  | 0, c, r => if r < 0 then none else some (c, r)
  | fuel + 1, c, r =>
    if r < 0 then
      (if c = 0 then none
       else cbrtDownLoopG fuel (c - Gen.cbrt_u128_loop_dec)
              (r + (Gen.cbrt_u128_loop_mul : Nat) * ((c : Int) - (Gen.cbrt_u128_loop_sub : Nat)) * c + (Gen.cbrt_u128_loop_add : Nat)))
    else some (c, r)

/-- `normCbrtU128` over the regenerated shift amounts (`leading_zeros() > 0` ⇔ `n < 2^(128 − 1 − 0)`) -/
def normCbrtU128G (n : Nat) : Option (Nat × Nat) := do
  let cr : Option (Nat × Nat) :=
    if n < 2 ^ (127 - Gen.cbrt_u128_lz_gt) then do
      let a : Nat := n / 2 ^ Gen.cbrt_u128_hi_shr_odd % 2 ^ 64
      let (c, _) ← normCbrtU64 a
      let c : Nat := c / 2 ^ Gen.cbrt_u128_c1_shr
      let c3 ← ck 64 (c * c)
      let c3 ← ck 64 (c3 * c)
      let r ← ck 64 (((a / 2 ^ Gen.cbrt_u128_a_shr : Nat) : Int) - c3)
      pure (c, r)
    else normCbrtU64 (n / 2 ^ Gen.cbrt_u128_hi_shr % 2 ^ 64)
  let (c1, r1) ← cr
  let r0 : Nat := r1 * 2 ^ Gen.cbrt_u128_r0_shl % 2 ^ 128 ||| n / 2 ^ Gen.cbrt_u128_r0_shr % 2 ^ Gen.cbrt_u128_r0_mask
  let d ← ck 128 (Gen.cbrt_u128_d_mul * (c1 * c1))
  guardO (decide (d ≠ 0))
  let q : Nat := r0 / d
  let u : Nat := r0 % d
  let c ← ck 64 (c1 * 2 ^ Gen.cbrt_u128_c_shl % 2 ^ 64 + q % 2 ^ 64)
  let t1 : Nat := u * 2 ^ Gen.cbrt_u128_t1_shl % 2 ^ 128 ||| n % 2 ^ Gen.cbrt_u128_t1_mask
  let qq ← ck 128 (q * q)
  let f ← ck 128 (Gen.cbrt_u128_t2_mul * c1 * 2 ^ Gen.cbrt_u128_t2_shl % 2 ^ 128 + q)
  let t2 ← ck 128 (f * qq)
  guardO (decide (t1 < 2 ^ 127 ∧ t2 < 2 ^ 127))
  let (c, r) ← cbrtDownLoopG 8 c ((t1 : Int) - t2)
  pure (c, r.toNat)

theorem cbrtDownLoop_regenerated : ∀ fuel c r, cbrtDownLoop fuel c r = cbrtDownLoopG fuel c r := by
  intro fuel
  induction fuel with
  | zero => intro c r; rfl
  | succ k ih =>
    intro c r
    show (if r < 0 then (if c = 0 then none else cbrtDownLoop k (c - 1) (r + 3 * ((c : Int) - 1) * c + 1)) else some (c, r))
       = (if r < 0 then (if c = 0 then none else cbrtDownLoopG k (c - 1) (r + 3 * ((c : Int) - 1) * c + 1)) else some (c, r))
    rw [ih]

theorem normSqrtU128_regenerated : normSqrtU128 = normSqrtU128G := by funext n; rfl

theorem normCbrtU128_regenerated : normCbrtU128 = normCbrtU128G := by
  funext n
  have h : cbrtDownLoopG = cbrtDownLoop := by funext f c r; exact (cbrtDownLoop_regenerated f c r).symm
  unfold normCbrtU128G
  rw [h]
  rfl

/-- the exponents of the `pow` calls and the `KBITS`-derived amounts are the ones the source writes -/
theorem u128_step_amounts_regenerated :
    Gen.cbrt_u128_c1_pow = 3 ∧ Gen.cbrt_u128_d_pow = 2 ∧ Gen.cbrt_u128_t2_pow = 2 ∧
    Gen.sqrt_u128_r0_shl = Gen.sqrt_u128_KBITS - 1 ∧ Gen.sqrt_u128_r0_shr = Gen.sqrt_u128_KBITS + 1 ∧
    Gen.cbrt_u128_r0_shr = 2 * Gen.cbrt_u128_KBITS ∧ Gen.cbrt_u128_t1_shl = 2 * Gen.cbrt_u128_KBITS := by decide

end Dashu.Model.NT
