import Dashu.Model.NT.PrimRoot
import Dashu.Model.NT.Log
import Dashu.Gen.RootTables
/-
  C12 (Round 5, Tie A): the lookup tables, table index offsets and under-estimate margins of the primitive roots as
  REGENERATED from base/src/ring/root.rs (Dashu/Gen/RootTables.lean) are the ones the hand model runs with.
  `est…G` are the estimate stages of Model/NT/PrimRoot.lean with every such literal replaced by the regenerated
  definition (text produced from the model text by the C12 builder); the theorems below are `rfl`: they hold exactly as
  long as source and model agree, and break — with the build of Props/C12 — when a table entry, an offset or a margin of
  the source changes.  LOG2_TAB (base/src/math/log.rs) likewise.
-/
namespace Dashu.Model.NT
open Dashu.Model

/-- `estSqrtU16` with the regenerated table, index offset and margin -/
def estSqrtU16G (n : Nat) : Option Nat := do
  let t ← tabAt Gen.RSQRT_TAB (n / 2 ^ 9) Gen.rsqrt_index_offset_u16
  let r : Nat := 0x100 ||| t
  let s ← ck 32 (r * n)
  let s : Nat := s / 2 ^ 16
  let s ← ck 32 ((s : Int) - (Gen.sqrt_u16_margin : Nat))
  pure (s % 2 ^ 8)

/-- `estCbrtU16` with the regenerated table, index offset and margin -/
def estCbrtU16G (n : Nat) : Option Nat := do
  let adjust : Nat := if n ≥ 2 ^ 15 then 1 else 0
  let t ← tabAt Gen.RCBRT_TAB (n / 2 ^ (9 + 3 * adjust)) Gen.rcbrt_index_offset_u16
  let r : Nat := 0x100 ||| t
  let r2 ← ck 32 (r * r)
  let r2 : Nat := r2 / 2 ^ (2 + 2 * adjust)
  let c ← ck 32 (r2 * n)
  let c : Nat := c / 2 ^ 24
  let c ← ck 32 ((c : Int) - (Gen.cbrt_u16_margin : Nat))
  pure (c % 2 ^ 8)

/-- `estSqrtU32` with the regenerated table, index offset and margin -/
def estSqrtU32G (n : Nat) : Option Nat := do
  let n16 : Nat := n / 2 ^ 16 % 2 ^ 16
  let t ← tabAt Gen.RSQRT_TAB (n16 / 2 ^ 9) Gen.rsqrt_index_offset_u32
  let r : Nat := 0x100 ||| t
  -- `((3 * r as u16) << 5) - (wmul32_hi(self, r * r * r) >> 11) as u16`
  let a ← ck 16 (3 * (r % 2 ^ 16))
  let a : Nat := a * 2 ^ 5 % 2 ^ 16
  let r3 ← ck 32 (r * r)
  let r3 ← ck 32 (r3 * r)
  let b : Nat := wmulHi 32 n r3 / 2 ^ 11 % 2 ^ 16
  let r ← ck 16 ((a : Int) - b)
  let r : Nat := r * 2 % 2 ^ 16                                   -- `r << 1`
  let s : Nat := min (wmulHi 16 r n16 * 2) (2 ^ 16 - 1)            -- `.saturating_mul(2)`
  let s ← ck 16 ((s : Int) - (Gen.sqrt_u32_margin : Nat))
  let ss ← ck 32 (s * s)
  let e ← ck 32 ((n : Int) - ss)
  let s ← ck 16 (s + wmulHi 16 (e / 2 ^ 16 % 2 ^ 16) r)
  pure s

/-- `estCbrtU32` with the regenerated table, index offset and margin -/
def estCbrtU32G (n : Nat) : Option Nat := do
  let adjust : Nat := if n ≥ 2 ^ 30 then 1 else 0
  let n16 : Nat := n / 2 ^ (16 + 3 * adjust) % 2 ^ 16
  let t ← tabAt Gen.RCBRT_TAB (n16 / 2 ^ 8) Gen.rcbrt_index_offset_u32
  let r : Nat := 0x100 ||| t
  let r3 ← ck 32 (r * r)
  let r3 ← ck 32 (r3 * r)
  let r3 : Nat := r3 / 2 ^ 11
  let t ← ck 16 ((4 * 2 ^ 11 : Int) - wmulHi 16 n16 (r3 % 2 ^ 16))
  let rt ← ck 32 (r * t)
  let r : Nat := rt / 3 / 2 ^ 4 % 2 ^ 16
  let r : Nat := r / 2 ^ adjust
  let r ← ck 16 ((r : Int) - (Gen.cbrt_u32_margin : Nat))
  let c : Nat := wmulHi 16 r (wmulHi 16 r (n / 2 ^ 16 % 2 ^ 16)) / 2 ^ 2
  pure c

/-- `estSqrtU64` with the regenerated table, index offset and margin -/
def estSqrtU64G (n : Nat) : Option Nat := do
  let n32 : Nat := n / 2 ^ 32 % 2 ^ 32
  let t ← tabAt Gen.RSQRT_TAB (n32 / 2 ^ 25) Gen.rsqrt_index_offset_u64
  let r : Nat := 0x100 ||| t
  -- `((3 * r) << 21) - wmul32_hi(n32, (r * r * r) << 5)`
  let a ← ck 32 (3 * r)
  let a : Nat := a * 2 ^ 21 % 2 ^ 32
  let r3 ← ck 32 (r * r)
  let r3 ← ck 32 (r3 * r)
  let r3 : Nat := r3 * 2 ^ 5 % 2 ^ 32
  let r ← ck 32 ((a : Int) - wmulHi 32 n32 r3)
  -- `(3 << 28) - wmul32_hi(r, wmul32_hi(r, n32))`
  let t ← ck 32 ((3 * 2 ^ 28 : Int) - wmulHi 32 r (wmulHi 32 r n32))
  let r : Nat := wmulHi 32 r t
  let r : Nat := r * 2 ^ 4 % 2 ^ 32                               -- `r << 4`
  let s : Nat := wmulHi 32 r n32 * 2 % 2 ^ 32                     -- `<< 1`
  let s ← ck 32 ((s : Int) - (Gen.sqrt_u64_margin : Nat))
  let ss ← ck 64 (s * s)
  let e ← ck 64 ((n : Int) - ss)
  let s ← ck 32 (s + wmulHi 32 (e / 2 ^ 32 % 2 ^ 32) r)
  pure s

/-- `estCbrtU64` with the regenerated table, index offset and margin -/
def estCbrtU64G (n : Nat) : Option Nat := do
  let adjust : Nat := if n ≥ 2 ^ 63 then 1 else 0
  let n32 : Nat := n / 2 ^ (32 + 3 * adjust) % 2 ^ 32
  let t ← tabAt Gen.RCBRT_TAB (n32 / 2 ^ 25) Gen.rcbrt_index_offset_u64
  let r : Nat := 0x100 ||| t
  let r3 ← ck 32 (r * r)
  let r3 ← ck 32 (r3 * r)
  let t ← ck 32 ((4 * 2 ^ 23 : Int) - wmulHi 32 n32 r3)
  let r ← ck 32 (r * (t / 3))
  let t ← ck 32 ((4 * 2 ^ 28 : Int) - wmulHi 32 r (wmulHi 32 r (wmulHi 32 r n32)))
  let r : Nat := wmulHi 32 r t / 3
  let r : Nat := r / 2 ^ adjust
  let r ← ck 32 ((r : Int) - (Gen.cbrt_u64_margin : Nat))
  let c : Nat := wmulHi 32 r (wmulHi 32 r (n / 2 ^ 32 % 2 ^ 32))
  pure c

theorem rsqrt_tab_regenerated : RSQRT_TAB = Gen.RSQRT_TAB := by decide
theorem rcbrt_tab_regenerated : RCBRT_TAB = Gen.RCBRT_TAB := by decide
theorem log2_tab_regenerated : packBytes Gen.LOG2_TAB = LOG2_TAB_PACKED ∧ Gen.LOG2_TAB.length = 128 := by decide +kernel

theorem estSqrtU16_regenerated : estSqrtU16 = estSqrtU16G := by funext n; rfl
theorem estCbrtU16_regenerated : estCbrtU16 = estCbrtU16G := by funext n; rfl
theorem estSqrtU32_regenerated : estSqrtU32 = estSqrtU32G := by funext n; rfl
theorem estCbrtU32_regenerated : estCbrtU32 = estCbrtU32G := by funext n; rfl
theorem estSqrtU64_regenerated : estSqrtU64 = estSqrtU64G := by funext n; rfl
theorem estCbrtU64_regenerated : estCbrtU64 = estCbrtU64G := by funext n; rfl

/-- `KBITS` of the two `u128` steps as the model packs its operands (`2^32` / `2^22`, `2^(KBITS−1)`, `2^(KBITS+1)`, `2^(2·KBITS)`) -/
theorem u128_kbits_regenerated : Gen.sqrt_u128_KBITS = 32 ∧ Gen.cbrt_u128_KBITS = 22 := by decide

end Dashu.Model.NT
