import Dashu.Model.NT.ModLargeK
import Dashu.Proofs.NT.ModKernels
import Dashu.Proofs.Int.Div
import Dashu.Proofs.Int.PowBuf
/-
  C13 ↔ C02 link (round 5): the word-list mirrors of `ConstLargeDivisor::rem_large/rem_repr` and
  `mul_normalized/sqr_normalized` (`Model/NT/ModLargeK.lean`), which run C02's mirrored
  `div::div_rem_in_place`, never fail and equal the `%`-level definitions of `Model/NT/Modular.lean`.
  The exactness of the division is C02's theorem `divRemInPlace_spec` (Knuth D + Burnikel–Ziegler over
  C01's proved multiplication; `4 ≤ W` comes from there), used by import — nothing is re-proved.
-/
namespace Dashu.Model.NT
open Dashu.Model Dashu.Model.Div

/-- a multi-word ring built by `ConstDivisor::new` has a shift below one word -/
theorem Ring.new_large_k {W id m : Nat} {r : Ring} (hW : 0 < W) (h : Ring.new W id m = .ok r)
    (hk : r.kind = .large) : r.k < W := by
  unfold Ring.new at h
  split at h
  · cases h
  rename_i hm
  split at h
  · cases h; cases hk
  split at h
  · cases h; cases hk
  · cases h
    simp only []
    have hb := bitLen_pos hm
    have h1 : (bitLen m + W - 1) / W * W ≤ bitLen m + W - 1 := Nat.div_mul_le_self _ _
    unfold wordLen
    rw [Nat.mul_comm W]
    omega

/-- the normalised divisor of a well-formed ring occupies exactly `n` words, top bit set -/
theorem ndWords_spec {W : Nat} {r : Ring} (hwf : r.WF W) (hn : 1 ≤ r.n) :
    (r.ndWords W).length = r.n ∧ IsWords W (r.ndWords W) ∧ val W (r.ndWords W) = r.M := by
  have hW := hwf.hW
  obtain ⟨hval, hwords, hlast⟩ := natWords_spec W hW r.M
  unfold Ring.ndWords
  refine ⟨?_, hwords, hval⟩
  have hMpos := Ring.M_pos hwf
  have e : 2 ^ (W * r.n) = 2 ^ W * 2 ^ (W * (r.n - 1)) := by
    rw [← Nat.pow_add]; congr 1
    have : r.n = (r.n - 1) + 1 := by omega
    conv => lhs; rw [this, Nat.mul_succ]
    omega
  have h2W : 2 ≤ 2 ^ W := by
    calc 2 = 2 ^ 1 := rfl
      _ ≤ 2 ^ W := Nat.pow_le_pow_right (by decide) hW
  have hge : 2 ^ (W * (r.n - 1)) ≤ r.M := by
    have := hwf.Mge
    have h5 : 2 * 2 ^ (W * (r.n - 1)) ≤ 2 ^ W * 2 ^ (W * (r.n - 1)) := Nat.mul_le_mul_right _ h2W
    omega
  have hlo := natWords_len_ge hW hge
  have hne : natWords W r.M ≠ [] := by
    intro h; rw [h] at hlo; simp at hlo
  have hhi := val_ge_of_getLast W _ hne hlast
  rw [hval] at hhi
  by_contra hc
  have : 2 ^ (W * r.n) ≤ 2 ^ (W * ((natWords W r.M).length - 1)) :=
    Nat.pow_le_pow_right (by decide) (Nat.mul_le_mul_left W (by omega))
  have := hwf.Mlt
  omega

/-- **`ConstLargeDivisor::rem_large` on buffers** never fails and leaves `(words << shift) mod M` -/
theorem remLargeWordsL_spec {W : Nat} {r : Ring} (hwf : r.WF W) (hW4 : 4 ≤ W) (hk : r.kind = .large)
    (hkW : r.k < W) (words : List Nat) (hws : IsWords W words) :
    ∃ out, remLargeWordsL W (r.ndWords W) r.k (highestDword W (r.ndWords W)) words = .ok out ∧
      val W out = (val W words * 2 ^ r.k) % r.M := by
  have hW := hwf.hW
  have hn3 := hwf.kind_n.2.2 hk
  obtain ⟨hlen, hndw, hndv⟩ := ndWords_spec hwf (by omega)
  have sp := Div.shlInPlace_spec W r.k (by omega) words hws
  generalize hsh : Div.shlInPlace W words r.k = p at sp
  obtain ⟨w1, carry⟩ := p
  simp only at sp
  obtain ⟨s1, s2, s3, s4⟩ := sp
  have hcW : carry < 2 ^ W :=
    Nat.lt_of_lt_of_le s4 (Nat.pow_le_pow_right (by decide) (by omega))
  have hw2 : IsWords W (w1 ++ [carry]) := s3.append (by intro x hx; simp at hx; subst hx; exact hcW)
  have hv2 : val W (w1 ++ [carry]) = val W words * 2 ^ r.k := by
    rw [val_append_one, s2]; exact s1
  unfold remLargeWordsL
  rw [hsh]
  simp only []
  by_cases hge : (w1 ++ [carry]).length ≥ (r.ndWords W).length
  · rw [if_pos hge]
    have hnorm : 2 ^ (W * (r.ndWords W).length) ≤ 2 * val W (r.ndWords W) := by
      rw [hlen, hndv]; exact hwf.Mge
    obtain ⟨out, c, e, _, _, o3, o4⟩ :=
      divRemInPlace_spec W hW hW4 (w1 ++ [carry]) (r.ndWords W) (by omega) hge hw2 hndw hnorm
    refine ⟨out.take (r.ndWords W).length, ?_, ?_⟩
    · simp only [e, bind, Except.bind, pure, Except.pure]
    · rw [hndv] at o3 o4
      rw [← hv2, ← o4, Nat.add_comm, Nat.add_mul_mod_self_right, Nat.mod_eq_of_lt o3]
  · rw [if_neg hge]
    refine ⟨_, rfl, ?_⟩
    rw [hv2]
    symm
    apply Nat.mod_eq_of_lt
    rw [← hv2]
    have h1 := val_lt W _ hw2
    have h2 : 2 ^ (W * (w1 ++ [carry]).length) ≤ 2 ^ (W * (r.n - 1)) :=
      Nat.pow_le_pow_right (by decide) (Nat.mul_le_mul_left W (by omega))
    have e : 2 ^ (W * r.n) = 2 ^ W * 2 ^ (W * (r.n - 1)) := by
      rw [← Nat.pow_add]; congr 1
      have : r.n = (r.n - 1) + 1 := by omega
      conv => lhs; rw [this, Nat.mul_succ]
      omega
    have h2W : 2 ≤ 2 ^ W := by
      calc 2 = 2 ^ 1 := rfl
        _ ≤ 2 ^ W := Nat.pow_le_pow_right (by decide) hW
    have h5 : 2 * 2 ^ (W * (r.n - 1)) ≤ 2 ^ W * 2 ^ (W * (r.n - 1)) := Nat.mul_le_mul_right _ h2W
    have := hwf.Mge
    omega

/-- **`ConstLargeDivisor::rem_repr` on buffers = the `%`-level `rem_repr`** -/
theorem remReprLK_eq {W : Nat} {r : Ring} (hwf : r.WF W) (hW4 : 4 ≤ W) (hk : r.kind = .large)
    (hkW : r.k < W) (x : Nat) : remReprLK W r x = .ok (remReprL W r x) := by
  rw [remReprL_eq hwf hk]
  unfold remReprLK
  split
  · rename_i hlt
    have := hwf.m_large hk
    rw [Nat.mod_eq_of_lt (by omega)]
  · obtain ⟨hval, hwords, _⟩ := natWords_spec W hwf.hW x
    obtain ⟨out, e, hv⟩ := remLargeWordsL_spec hwf hW4 hk hkW (natWords W x) hwords
    simp only [e, bind, Except.bind, pure, Except.pure]
    rw [hv, hval, shift_mod]

/-- `from_ubig` with every division kernel mirrored = the `%`-level model -/
theorem rawOfNatKL_eq {W id m : Nat} {r : Ring} (hW : 0 < W) (hW4 : r.kind = .large → 4 ≤ W)
    (hnew : Ring.new W id m = .ok r) (x : Nat) : rawOfNatKL W r x = rawOfNat W r x := by
  have hwf := Ring.new_wf hW hnew
  rw [← rawOfNatK_eq hW hnew]
  unfold rawOfNatKL
  cases hk : r.kind with
  | large =>
    simp only []
    rw [remReprLK_eq hwf (hW4 hk) hk (Ring.new_large_k hW hnew hk)]
    unfold rawOfNatK; rw [hk]; rfl
  | single => rfl
  | double => rfl

theorem reduceIntKL_eq {W id m : Nat} {r : Ring} (hW : 0 < W) (hW4 : r.kind = .large → 4 ≤ W)
    (hnew : Ring.new W id m = .ok r) (a : Int) : reduceIntKL W r a = reduceInt W r a := by
  unfold reduceIntKL reduceInt; rw [rawOfNatKL_eq hW hW4 hnew]

-- ---------------------------------------------------------------- mul_normalized / sqr_normalized

theorem natWords_len_le {W : Nat} (hW : 1 ≤ W) {x j : Nat} (hx : x < 2 ^ (W * j)) :
    (natWords W x).length ≤ j := by
  obtain ⟨h1, _, h3⟩ := natWords_spec W hW x
  by_cases hne : natWords W x = []
  · rw [hne]; simp
  · have h := val_ge_of_getLast W _ hne h3
    rw [h1] at h
    by_contra hc
    have : 2 ^ (W * j) ≤ 2 ^ (W * ((natWords W x).length - 1)) :=
      Nat.pow_le_pow_right (by decide) (Nat.mul_le_mul_left W (by omega))
    omega

theorem val_replicate_zero (W k : Nat) : val W (List.replicate k 0) = 0 := by
  induction k with
  | zero => rfl
  | succ k ih => simp [List.replicate_succ, val, ih]

theorem wordsPad_spec {W : Nat} (hW : 1 ≤ W) {len v : Nat} (hv : v < 2 ^ (W * len)) :
    (wordsPad W len v).length = len ∧ IsWords W (wordsPad W len v) ∧ val W (wordsPad W len v) = v := by
  obtain ⟨h1, h2, _⟩ := natWords_spec W hW v
  have hl := natWords_len_le hW hv
  unfold wordsPad
  refine ⟨by simp; omega, h2.append ?_, ?_⟩
  · intro x hx
    rw [List.mem_replicate] at hx
    rw [hx.2]; exact Nat.two_pow_pos _
  · rw [val_append, val_replicate_zero, h1]; simp

/-- the canonical word list of `x` has `wordLen W x` words -/
theorem natWords_length {W : Nat} (hW : 1 ≤ W) (x : Nat) : (natWords W x).length = wordLen W x := by
  by_cases h0 : x = 0
  · subst h0
    have : wordLen W 0 = 0 := by
      have := wordLen_le_of_lt (W := W) (n := 0) (j := 0) hW (by simp)
      omega
    rw [this, natWords_zero]; rfl
  · have h1 := natWords_len_le hW (lt_two_pow_wordLen hW x)
    have h2 := natWords_len_ge hW (two_pow_le_of_wordLen hW h0)
    have : 0 < wordLen W x := by
      by_contra hc
      have hz : wordLen W x = 0 := by omega
      have := lt_two_pow_wordLen hW x
      rw [hz] at this; simp at this; exact h0 this
    omega

/-- **the product buffer** (`extend_word` product, C01's mirrored `sqr::sqr`, C01's mirrored `mul::multiply` with
    its `debug_assert_zero!`) holds the exact product in exactly `na + nb` words — by C01's theorems
    `addSignedMul_contract` / `sqrBuffer_spec`, imported -/
theorem productLow_spec {W : Nat} (hW4 : 4 ≤ W) (sq : Bool) (a b : Nat) (hsq : sq = true → a = b)
    (hnz : wordLen W a ||| wordLen W b ≠ 0) :
    ∃ low, productLow W sq a b = .ok low ∧ low.length = wordLen W a + wordLen W b ∧ IsWords W low ∧
      val W low = a * b := by
  have hW : 1 ≤ W := by omega
  obtain ⟨hva, hwa, _⟩ := natWords_spec W hW a
  obtain ⟨hvb, hwb, _⟩ := natWords_spec W hW b
  have hla := natWords_length hW a
  have hlb := natWords_length hW b
  have h1 := lt_two_pow_wordLen hW a
  have h2 := lt_two_pow_wordLen hW b
  unfold productLow
  simp only [hla, hlb]
  by_cases hab : sq = true
  · have := hsq hab
    subst this
    rw [if_pos hab]
    by_cases h1w : wordLen W a = 1
    · rw [if_pos h1w]
      have hp : a * a < 2 ^ (W * 2) := by
        rw [h1w, Nat.mul_one] at h1
        have := Nat.mul_lt_mul'' h1 h1
        rwa [← Nat.pow_add, ← Nat.mul_two] at this
      obtain ⟨pl, pw, pv⟩ := wordsPad_spec hW hp
      exact ⟨_, rfl, by rw [pl, h1w], pw, pv⟩
    · rw [if_neg h1w]
      have hne : natWords W a ≠ [] := by
        intro h
        have : wordLen W a = 0 := by rw [← hla, h]; rfl
        rw [this] at hnz; simp at hnz
      obtain ⟨sv, sw⟩ := sqrBuffer_spec W hW4 _ hwa hne
      refine ⟨_, rfl, ?_, sw, by rw [sv, hva]⟩
      rw [sqrBuffer_length W hW4 _ hwa hne, hla]; omega
  · rw [if_neg hab]
    by_cases h11 : wordLen W a = 1 ∧ wordLen W b = 1
    · rw [if_pos h11]
      have hp : a * b < 2 ^ (W * 2) := by
        rw [h11.1, Nat.mul_one] at h1
        rw [h11.2, Nat.mul_one] at h2
        have := Nat.mul_lt_mul'' h1 h2
        rwa [← Nat.pow_add, ← Nat.mul_two] at this
      obtain ⟨pl, pw, pv⟩ := wordsPad_spec hW hp
      exact ⟨_, rfl, by rw [pl, h11.1, h11.2], pw, pv⟩
    · rw [if_neg h11]
      have hc := addSignedMul_contract W hW4 (wordLen W a + wordLen W b)
        (List.replicate (wordLen W a + wordLen W b) 0) false (natWords W a) (natWords W b)
        (by simp [hla, hlb]) (isWords_replicate_zero W _) hwa hwb
      obtain ⟨k0, k2, k3, k4⟩ := upd_zero_product W (wordLen W a + wordLen W b) _ _ _ hc
        (mul_lt_pow_int W _ _ hwa hwb _ (by simp [hla, hlb]))
      generalize addSignedMul W (wordLen W a + wordLen W b) (List.replicate (wordLen W a + wordLen W b) 0) false
        (natWords W a) (natWords W b) = res at *
      obtain ⟨c, carry⟩ := res
      simp only at k0 k2 k3 k4 ⊢
      subst k0
      refine ⟨c, by simp, k3, k4, by rw [k2, hva, hvb]⟩

/-- **`mul_normalized` / `sqr_normalized` on buffers = the `%`-level `mul_normalized`**, for pre-shifted
    operands (`2^k ∣ a`, which `Valid` gives): C01's mirrored multiplication fills the buffer with the exact
    product, the `debug_assert_zero!`s (multiply carry, right shift) hold, C02's `div_rem_in_place` never
    fails, `&product[..n]` is the remainder -/
theorem mulNormalizedWordsL_eq {W : Nat} {r : Ring} (hwf : r.WF W) (hW4 : 4 ≤ W) (hk : r.kind = .large)
    (hkW : r.k < W) (sq : Bool) (u b : Nat) (hsq : sq = true → u * 2 ^ r.k = b) :
    mulNormalizedWordsL W r sq (u * 2 ^ r.k) b = .ok (mulNormalized W r (u * 2 ^ r.k) b) := by
  have hW := hwf.hW
  have hn3 := hwf.kind_n.2.2 hk
  obtain ⟨hlen, hndw, hndv⟩ := ndWords_spec hwf (by omega)
  generalize ha : u * 2 ^ r.k = a at hsq ⊢
  unfold mulNormalizedWordsL mulNormalized
  simp only [hlen]
  by_cases hz : wordLen W a ||| wordLen W b = 0
  · rw [if_pos hz]
    obtain ⟨hza, hzb⟩ := Nat.or_eq_zero_iff.mp hz
    have h1 := lt_two_pow_wordLen hW a
    rw [hza] at h1
    have : a = 0 := by simpa using h1
    subst this
    have hMpos := Ring.M_pos hwf
    simp [hza, hzb]
  · rw [if_neg hz]
    obtain ⟨low, elow, llen, lw, lv⟩ := productLow_spec hW4 sq a b hsq hz
    rw [elow]
    simp only [bind, Except.bind]
    have pl : (low ++ List.replicate (max r.n (wordLen W a + wordLen W b) - low.length) 0).length
        = max r.n (wordLen W a + wordLen W b) := by
      rw [List.length_append, List.length_replicate, llen]
      have := Nat.le_max_right r.n (wordLen W a + wordLen W b)
      omega
    have pw : IsWords W (low ++ List.replicate (max r.n (wordLen W a + wordLen W b) - low.length) 0) :=
      lw.append (isWords_replicate_zero W _)
    have pv : val W (low ++ List.replicate (max r.n (wordLen W a + wordLen W b) - low.length) 0) = a * b := by
      rw [val_append, val_replicate_zero, lv]; simp
    have sp := Div.shrInPlace_spec W r.k (by omega) _ pw
    generalize hsh : Div.shrInPlace W (low ++ List.replicate (max r.n (wordLen W a + wordLen W b) - low.length) 0) r.k = p at sp
    obtain ⟨p1, c⟩ := p
    simp only at sp
    obtain ⟨k', s1, s2, s3, s4, s5⟩ := sp
    rw [pv] at s3
    have hk0 : k' = 0 := by
      have hd : a * b = (u * b) * 2 ^ r.k := by rw [← ha, Nat.mul_right_comm]
      have hm : (val W p1 * 2 ^ r.k + k') % 2 ^ r.k = 0 := by rw [s3, hd]; exact Nat.mul_mod_left _ _
      rw [Nat.add_comm, Nat.add_mul_mod_self_right, Nat.mod_eq_of_lt s2] at hm
      exact hm
    subst hk0
    have hc0 : c = 0 := by rw [s1]; simp
    have hp1 : val W p1 = a * b / 2 ^ r.k := by
      rw [← s3]; simp [Nat.mul_div_cancel _ (Nat.two_pow_pos r.k)]
    simp only [hc0, ne_eq, not_true_eq_false, if_false]
    by_cases hgt : wordLen W a + wordLen W b > r.n
    · rw [if_pos hgt, if_pos hgt]
      have hnorm : 2 ^ (W * (r.ndWords W).length) ≤ 2 * val W (r.ndWords W) := by
        rw [hlen, hndv]; exact hwf.Mge
      have hm : (r.ndWords W).length ≤ p1.length := by
        rw [hlen, s4, pl]; exact Nat.le_max_left _ _
      obtain ⟨out, c', e, _, _, o3, o4⟩ :=
        divRemInPlace_spec W hW hW4 p1 (r.ndWords W) (by omega) hm s5 hndw hnorm
      rw [hlen, hndv] at o3 o4
      simp only [e, bind, Except.bind, pure, Except.pure]
      congr 1
      rw [← hp1, ← o4, Nat.add_comm, Nat.add_mul_mod_self_right, Nat.mod_eq_of_lt o3]
    · rw [if_neg hgt, if_neg hgt]
      have hl : p1.length = (r.ndWords W).length := by
        rw [hlen, s4, pl]; exact Nat.max_eq_left (by omega)
      rw [cmpSameLen_spec W p1 (r.ndWords W) hl s5 hndw, hndv, hp1]
      by_cases hge : a * b / 2 ^ r.k ≥ r.M
      · have hc : compare (a * b / 2 ^ r.k) r.M ≠ .lt := fun h => by
          have := Nat.compare_eq_lt.1 h; omega
        rw [if_pos hc, if_pos hge]
        have ⟨t1, t2, t3, t4⟩ := subSameLen_spec W p1 (r.ndWords W) 0 s5 hndw hl (by omega)
        generalize subSameLen W p1 (r.ndWords W) 0 = q at t1 t2 t3 t4
        obtain ⟨p2, bw⟩ := q
        simp only at t1 t2 t3 t4 ⊢
        have hlt := val_lt W p2 t3
        rw [t2] at hlt
        rw [hndv, hp1] at t1
        generalize 2 ^ (W * p1.length) = P at t1 hlt
        have hb : bw = 0 := by
          rcases Nat.eq_zero_or_pos bw with h | h
          · exact h
          · have : bw = 1 := by omega
            subst this; omega
        subst hb
        simp only [ne_eq, not_true_eq_false, if_false]
        congr 1; omega
      · have hc : ¬ compare (a * b / 2 ^ r.k) r.M ≠ .lt := fun h => h (Nat.compare_eq_lt.2 (by omega))
        rw [if_neg hc, if_neg hge]

theorem mulRawKL_eq {W : Nat} {r : Ring} (hwf : r.WF W) (hW4 : r.kind = .large → 4 ≤ W)
    (hkW : r.kind = .large → r.k < W) (u b : Nat) :
    mulRawKL W r (u * 2 ^ r.k) b = mulRawK W r (u * 2 ^ r.k) b := by
  unfold mulRawKL
  cases hk : r.kind with
  | large =>
    simp only []
    rw [mulNormalizedWordsL_eq hwf (hW4 hk) hk (hkW hk) _ _ _ (by simp)]
    unfold mulRawK; rw [hk]; rfl
  | single => rfl
  | double => rfl

theorem sqrRawKL_eq {W : Nat} {r : Ring} (hwf : r.WF W) (hW4 : r.kind = .large → 4 ≤ W)
    (hkW : r.kind = .large → r.k < W) (u : Nat) :
    sqrRawKL W r (u * 2 ^ r.k) = sqrRawK W r (u * 2 ^ r.k) := by
  unfold sqrRawKL
  cases hk : r.kind with
  | large =>
    simp only []
    rw [mulNormalizedWordsL_eq hwf (hW4 hk) hk (hkW hk) _ _ _ (fun _ => rfl)]
    unfold sqrRawK; rw [hk]; rfl
  | single => rfl
  | double => rfl

end Dashu.Model.NT
