import Dashu.Proofs.NT.Zimmermann
import Dashu.Proofs.NT.PrimRoot
/-
  C12: `<u128 as NormalizedRootRem>::normalized_sqrt_rem` (one Karatsuba step over the `u64` routine, the
  operands packed into `u64`s with KBITS = 32) is SOUND on every normalised value: whatever it returns
  without overflow is the floor square root and the remainder; hence `u128::sqrt_rem` is sound.
-/
namespace Dashu.Model.NT
open Dashu.Model

theorem guardO_some {b : Bool} {u : Unit} (h : guardO b = some u) : b = true := by
  unfold guardO at h
  cases b <;> simp at h ⊢

set_option maxRecDepth 65536 in
theorem normSqrtU128_sound {n : Nat} (hlo : 2 ^ 126 ≤ n) (hhi : n < 2 ^ 128) {res : Nat × Nat}
    (h : normSqrtU128 n = some res) : IsRoot n 2 res.1 ∧ res.1 ^ 2 + res.2 = n := by
  unfold normSqrtU128 at h
  simp only [Option.bind_eq_bind, Option.bind_eq_some_iff, Option.pure_def] at h
  obtain ⟨⟨s1, r1⟩, h64, h⟩ := h
  simp only [] at h
  obtain ⟨_, hg, h⟩ := h
  have hs1ne : s1 ≠ 0 := by simpa using guardO_some hg
  obtain ⟨⟨q, u⟩, hqu, h⟩ := h
  simp only [] at h
  obtain ⟨q2, hq2, h⟩ := h
  -- the u64 root of the high half
  obtain ⟨hroot, hrem⟩ := normSqrtU64_sound _ _ h64
  simp only [] at hroot hrem
  have hndm := Nat.div_add_mod n (2 ^ 64)
  have hblt := Nat.mod_lt n (show 0 < 2 ^ 64 by decide)
  simp only [Nat.reducePow] at hlo hhi hndm hblt h hqu hq2 hroot hrem
  have halo : 4611686018427387904 ≤ n / 18446744073709551616 := by omega
  have hahi : n / 18446744073709551616 < 18446744073709551616 := by omega
  generalize n / 18446744073709551616 = a at *
  generalize n % 18446744073709551616 = b at *
  rw [Nat.pow_two] at hrem
  have hr1 := rem_le_of_isRoot hroot
  have hr1le : r1 ≤ 2 * s1 := by omega
  have hM1 : (4294967296 : Nat) * 4294967296 = 18446744073709551616 := by norm_num
  have hM2 : (2147483648 : Nat) * 2147483648 = 4611686018427387904 := by norm_num
  have hs1lt : s1 < 4294967296 := root_lt (M := 4294967296) hrem (by rw [hM1]; omega)
  have hs1n : 2 * 2147483648 ≤ 2 * s1 := root_normalised (Mhh := 2147483648) hrem hr1le (by rw [hM2]; omega)
  -- the three `|` are additions
  have or31 : ∀ x y : Nat, y < 2147483648 → (2147483648 * x ||| y) = 2147483648 * x + y :=
    fun x y hy => (Nat.two_pow_add_eq_or_of_lt (i := 31) hy x).symm
  have or32 : ∀ x y : Nat, y < 4294967296 → (4294967296 * x ||| y) = 4294967296 * x + y :=
    fun x y hy => (Nat.two_pow_add_eq_or_of_lt (i := 32) hy x).symm
  have or33 : ∀ x y : Nat, y < 8589934592 → (8589934592 * x ||| y) = 8589934592 * x + y :=
    fun x y hy => (Nat.two_pow_add_eq_or_of_lt (i := 33) hy x).symm
  have e1 : r1 * 2147483648 % 18446744073709551616 = 2147483648 * r1 := by omega
  have e2 : s1 * 4294967296 % 18446744073709551616 = 4294967296 * s1 := by
    rw [Nat.mod_eq_of_lt (by
      have : s1 * 4294967296 < 4294967296 * 4294967296 := Nat.mul_lt_mul_of_pos_right hs1lt (by decide)
      rw [hM1] at this; exact this), Nat.mul_comm]
  have hM3 : (2147483648 : Nat) * 8589934592 = 18446744073709551616 := by norm_num
  have e3 : u * 8589934592 % 18446744073709551616 = 8589934592 * (u % 2147483648) := by
    rw [← hM3, Nat.mul_mod_mul_right, Nat.mul_comm]
  rw [e1, or31 _ _ (by omega)] at hqu
  rw [e2, e3, or33 _ _ (by omega)] at h
  -- r0 = (r1·B + b1) / 2
  have hr0 : 2 * (2147483648 * r1 + b / 8589934592) + b / 4294967296 % 2 = r1 * 4294967296 + b / 4294967296 := by omega
  generalize 2147483648 * r1 + b / 8589934592 = r0 at *
  have hdm := Nat.div_add_mod r0 s1
  have hu0 := Nat.mod_lt r0 (show 0 < s1 by omega)
  have hq0 : r0 / s1 < 4294967296 + 1 := by
    rw [Nat.div_lt_iff_lt_mul (by omega)]
    have e : (4294967296 + 1) * s1 = 4294967296 * s1 + s1 := by ring
    omega
  generalize r0 / s1 = q0 at *
  generalize r0 % s1 = u0 at *
  obtain ⟨hqlt, hult, hr0', hcase⟩ : q < 4294967296 ∧ u < 2 * 4294967296 ∧ r0 = s1 * q + u ∧
      (u < s1 ∨ (q0 = 4294967296 ∧ q = q0 - 1 ∧ u = u0 + s1)) := by
    by_cases hq : q0 < 4294967296
    · have : ¬ (q0 / 4294967296 > 0) := by omega
      rw [if_neg this] at hqu
      injection hqu with hqu
      injection hqu with hq1 hu1
      subst hq1; subst hu1
      exact ⟨hq, by omega, hdm.symm, Or.inl hu0⟩
    · have hq0e : q0 = 4294967296 := by omega
      have : q0 / 4294967296 > 0 := by omega
      rw [if_pos this] at hqu
      simp only [Option.bind_eq_some_iff, Option.some.injEq, Prod.mk.injEq] at hqu
      obtain ⟨u', hu', hq1, hu1⟩ := hqu
      obtain ⟨hu'v, _⟩ := ck_some hu'
      subst hq1; subst hu1
      have hu'e : u' = u0 + s1 := by omega
      refine ⟨by omega, by omega, ?_, Or.inr ⟨hq0e, rfl, hu'e⟩⟩
      have : s1 * q0 = s1 * (q0 - 1) + s1 := by
        have : q0 = (q0 - 1) + 1 := by omega
        conv => lhs; rw [this, Nat.mul_succ]
      omega
  clear hqu
  rw [or32 _ _ hqlt] at h
  -- U = 2u + (b1 & 1)
  have hdiv : r1 * 4294967296 + b / 4294967296 = 2 * q * s1 + (u * 2 + b / 4294967296 % 2) := by
    rw [← hr0, hr0']; ring
  have hb1 : b / 4294967296 < 4294967296 := by omega
  have hb0 : b % 4294967296 < 4294967296 := by omega
  have hnsplit : n = a * (4294967296 * 4294967296) + b / 4294967296 * 4294967296 + b % 4294967296 := by omega
  have hrw : 8589934592 * (u % 2147483648) + b % 8589934592 + 18446744073709551616 * (u / 2147483648)
      = (u * 2 + b / 4294967296 % 2) * 4294967296 + b % 4294967296 := by omega
  have hrwlt : 8589934592 * (u % 2147483648) + b % 8589934592 < 18446744073709551616 := by omega
  have hc0 : u / 2147483648 % 256 = u / 2147483648 := by omega
  rw [hc0] at h
  generalize 8589934592 * (u % 2147483648) + b % 8589934592 = rw at *
  generalize hUdef : u * 2 + b / 4294967296 % 2 = U at *
  generalize b / 4294967296 = b1 at *
  generalize b % 4294967296 = b0 at *
  obtain ⟨hq2v, _⟩ := ck_some hq2
  have hq2' : q2 = q * q := by exact_mod_cast hq2v
  subst hq2'
  have hqq : q * q ≤ 18446744073709551616 := by
    have : q * q ≤ 4294967296 * 4294967296 := Nat.mul_le_mul (by omega) (by omega)
    omega
  rw [sub_mod_val hrwlt hqq] at h
  -- identity n = s² + rt
  have hid : ((a * (4294967296 * 4294967296) + b1 * 4294967296 + b0 : Nat) : Int)
      = ((s1 * 4294967296 + q) * (s1 * 4294967296 + q) : Nat) + (((U * 4294967296 + b0 : Nat) : Int) - (q * q : Nat)) := by
    have hd : ((r1 * 4294967296 + b1 : Nat) : Int) = ((2 * q * s1 + U : Nat) : Int) := by rw [hdiv]
    rw [← hrem]
    push_cast at hd ⊢
    linear_combination (4294967296 : Int) * hd
  have hrt : ((U * 4294967296 + b0 : Nat) : Int) - (q * q : Nat) ≤ 2 * ((s1 * 4294967296 + q : Nat) : Int) ∧
      (((U * 4294967296 + b0 : Nat) : Int) - (q * q : Nat) < 0 →
        0 ≤ ((U * 4294967296 + b0 : Nat) : Int) - (q * q : Nat) + 2 * ((s1 * 4294967296 + q : Nat) : Int) - 1 ∧ 1 ≤ q) := by
    rcases hcase with hlt | ⟨hq0e, hqe, hue⟩
    · have hU2 : U < 2 * s1 := by omega
      obtain ⟨_, _, h3, h4, _⟩ := karatsuba_step (hi := a) (b0 := b0) hrem.symm hr1le (by omega) hb1 hb0 hdiv hU2
      exact ⟨h3, h4⟩
    · have hdiv0 : r1 * 4294967296 + b1 = 2 * q0 * s1 + (u0 * 2 + (U - u * 2)) := by
        have : 2 * r0 + (U - u * 2) = r1 * 4294967296 + b1 := by omega
        rw [← this, ← hdm]; ring
      obtain ⟨_, _, _, h4, h5⟩ := karatsuba_step (hi := a) (b0 := b0) hrem.symm hr1le (by omega) hb1 hb0 hdiv0 (by omega)
      have hneg := h5 hq0e
      obtain ⟨h6, _⟩ := h4 hneg
      subst hq0e
      have eU : U = u0 * 2 + (U - u * 2) + 2 * s1 := by omega
      have eq1 : ((q : Nat) : Int) = 4294967296 - 1 := by omega
      generalize U - u * 2 = bp at *
      have : ((U * 4294967296 + b0 : Nat) : Int) - (q * q : Nat)
          = (((u0 * 2 + bp) * 4294967296 + b0 : Nat) : Int) - ((4294967296 * 4294967296 : Nat) : Int)
            + 2 * ((s1 * 4294967296 + 4294967296 : Nat) : Int) - 1 := by
        rw [eU]; push_cast; rw [eq1]; ring
      have e3 : ((s1 * 4294967296 + q : Nat) : Int) = ((s1 * 4294967296 + 4294967296 : Nat) : Int) - 1 := by
        push_cast; rw [eq1]; ring
      rw [this, e3]
      constructor
      · omega
      · intro hlt0; omega
  obtain ⟨hrt1, hrt2⟩ := hrt
  have hs : s1 * 4294967296 + q < 18446744073709551616 := by omega
  have e4 : 4294967296 * s1 + q = s1 * 4294967296 + q := by ring
  rw [e4] at h
  obtain ⟨s, hsdef⟩ : ∃ s, s = s1 * 4294967296 + q := ⟨_, rfl⟩
  rw [← hsdef] at h hs hid hrt1 hrt2
  -- accounting of the wrapping subtraction
  obtain ⟨r, hrdef, hrlt, hracc⟩ : ∃ r, r = (if rw < q * q then rw + 18446744073709551616 - q * q else rw - q * q) ∧
      r < 18446744073709551616 ∧ (((u / 2147483648 : Nat) : Int) - (if rw < q * q then 1 else 0)) * (18446744073709551616 : Nat) + r
        = ((U * 4294967296 + b0 : Nat) : Int) - (q * q : Nat) := by
    refine ⟨_, rfl, by split <;> omega, ?_⟩
    have eU : ((U * 4294967296 + b0 : Nat) : Int) = ((rw + 18446744073709551616 * (u / 2147483648) : Nat) : Int) := by rw [hrw]
    rw [eU]
    by_cases hb : rw < q * q
    · simp only [hb, if_true]
      have : ((rw + 18446744073709551616 - q * q : Nat) : Int) = (rw + 18446744073709551616 : Nat) - (q * q : Nat) :=
        Int.ofNat_sub (by omega)
      rw [this]; push_cast; ring
    · simp only [hb, if_false]
      have : ((rw - q * q : Nat) : Int) = (rw : Nat) - (q * q : Nat) := Int.ofNat_sub (by omega)
      rw [this]; push_cast; ring
  rw [← hrdef] at h
  generalize (((u / 2147483648 : Nat) : Int) - (if rw < q * q then 1 else 0)) = c at *
  rw [← hracc] at hid hrt1 hrt2
  have hnid : ((n : Nat) : Int) = ((s * s : Nat) : Int) + (c * (18446744073709551616 : Nat) + r) := by
    rw [hnsplit]; exact hid
  by_cases hc : c < 0
  · rw [if_pos hc] at h
    simp only [Option.bind_eq_some_iff] at h
    obtain ⟨sm, hsm, h⟩ := h
    obtain ⟨hsmv, _⟩ := ck_some hsm
    have hneg' := (neg_iff_carry hrlt).1 hc
    obtain ⟨hr'0, hq1⟩ := hrt2 hneg'
    have hs1' : 1 ≤ s := by omega
    have hsm' : sm = s - 1 := by omega
    subst hsm'
    have ht1 := Nat.mod_add_div (r + s) 18446744073709551616
    have ht1lt := Nat.mod_lt (r + s) (show 0 < 18446744073709551616 by decide)
    generalize (r + s) % 18446744073709551616 = t1m at *
    generalize (r + s) / 18446744073709551616 = k1 at *
    have ht2 := Nat.mod_add_div (t1m + (s - 1)) 18446744073709551616
    have ht2lt := Nat.mod_lt (t1m + (s - 1)) (show 0 < 18446744073709551616 by decide)
    generalize (t1m + (s - 1)) % 18446744073709551616 = t2m at *
    generalize (t1m + (s - 1)) / 18446744073709551616 = k2 at *
    have hacc : (c + (k1 : Int) + (k2 : Int)) * (18446744073709551616 : Nat) + t2m
        = c * (18446744073709551616 : Nat) + r + 2 * (s : Int) - 1 := by
      have e1 : ((t1m + 18446744073709551616 * k1 : Nat) : Int) = ((r + s : Nat) : Int) := by rw [ht1]
      have e2 : ((t2m + 18446744073709551616 * k2 : Nat) : Int) = ((t1m + (s - 1) : Nat) : Int) := by rw [ht2]
      have e3 : ((s - 1 : Nat) : Int) = (s : Int) - 1 := by omega
      push_cast at e1 e2 ⊢
      rw [e3] at e2
      linear_combination e1 + e2
    generalize (c + (k1 : Int) + (k2 : Int)) = c4 at *
    have hc4 := carry01 (c := c4) (Mn := 18446744073709551616) (alo := t2m) (by omega) (by omega) ht2lt
    have e : (((s - 1) * (s - 1) : Nat) : Int) = ((s : Int) - 1) * ((s : Int) - 1) := by
      have : ((s - 1 : Nat) : Int) = (s : Int) - 1 := by omega
      push_cast; rw [this]
    have hfin : ∀ R : Nat, (R : Int) = c4 * (18446744073709551616 : Nat) + t2m →
        IsRoot n 2 (s - 1) ∧ (s - 1) ^ 2 + R = n := by
      intro R hR
      have h1 : (s - 1) * (s - 1) + R = n := by
        have : (((s - 1) * (s - 1) + R : Nat) : Int) = (n : Int) := by
          rw [hnid]; push_cast [e]; rw [hR]; push_cast; linear_combination hacc
        exact_mod_cast this
      have h2 : R ≤ 2 * (s - 1) := by omega
      exact ⟨isRoot_of_rem h1 h2, by rw [Nat.pow_two]; exact h1⟩
    rcases hc4 with rfl | rfl
    · rw [if_neg (by decide)] at h
      injection h with h
      subst h
      exact hfin _ (by rw [show (0 : Int).toNat = 0 from rfl]; push_cast; ring)
    · rw [if_neg (by decide)] at h
      injection h with h
      subst h
      exact hfin _ (by rw [show (1 : Int).toNat = 1 from rfl]; push_cast; ring)
  · rw [if_neg hc] at h
    injection h with h
    subst h
    simp only []
    have hr0 : ¬ (c * (18446744073709551616 : Nat) + r < 0) := fun h => hc ((neg_iff_carry hrlt).2 h)
    have hc01 := carry01 (c := c) (Mn := 18446744073709551616) (alo := r) (by omega) (by omega) hrlt
    have hfin : ∀ R : Nat, (R : Int) = c * (18446744073709551616 : Nat) + r → IsRoot n 2 s ∧ s ^ 2 + R = n := by
      intro R hR
      have h1 : s * s + R = n := by
        have : ((s * s + R : Nat) : Int) = (n : Int) := by rw [hnid]; push_cast at hR ⊢; linear_combination hR
        exact_mod_cast this
      have h2 : R ≤ 2 * s := by omega
      exact ⟨isRoot_of_rem h1 h2, by rw [Nat.pow_two]; exact h1⟩
    rcases hc01 with rfl | rfl
    · exact hfin _ (by rw [show (0 : Int).toNat = 0 from rfl]; push_cast; ring)
    · exact hfin _ (by rw [show (1 : Int).toNat = 1 from rfl]; push_cast; ring)

/-- `sqrt_rem` of `u16 … u128` is sound over any kernel that is sound on NORMALISED inputs (at most one
    leading zero bit) — the only inputs the wrapper hands it -/
theorem sqrtRemNorm_sound' {bits : Nat} (hbits : 2 ≤ bits) {norm : Nat → Option (Nat × Nat)}
    (hn : ∀ n r, 2 ^ (bits - 2) ≤ n → n < 2 ^ bits → norm n = some r → IsRoot n 2 r.1 ∧ r.1 ^ 2 + r.2 = n)
    {x : Nat} (hx : x < 2 ^ bits) {r : Nat × Nat} (h : sqrtRemNorm bits norm x = some r) :
    IsRoot x 2 r.1 ∧ r.1 ^ 2 + r.2 = x := by
  unfold sqrtRemNorm at h
  split at h
  · rename_i h0
    injection h with h; subst h; subst h0
    exact ⟨⟨by simp, by simp⟩, rfl⟩
  · simp only [Option.bind_eq_bind, Option.bind_eq_some_iff] at h
    obtain ⟨⟨root, rem⟩, hnorm, h⟩ := h
    have hsh : lzOf bits x / 2 * 2 ≤ lzOf bits x := by omega
    rw [Nat.mod_eq_of_lt (shifted_lt hx hsh)] at hnorm
    have hnormal : 2 ^ (bits - 2) ≤ x * 2 ^ (lzOf bits x / 2 * 2) := by
      rename_i hx0
      have h1 := two_pow_bitLen_le hx0
      have hb : bitLen x ≤ bits := bitLen_le_of_lt hx
      have hbp := bitLen_pos hx0
      have : 2 ^ (bits - 2) ≤ 2 ^ (bitLen x - 1 + lzOf bits x / 2 * 2) :=
        Nat.pow_le_pow_right (by decide) (by unfold lzOf; omega)
      rw [Nat.pow_add] at this
      exact Nat.le_trans this (Nat.mul_le_mul_right _ h1)
    obtain ⟨hroot, hrem⟩ := hn _ _ hnormal (shifted_lt hx hsh) hnorm
    simp only [] at hroot hrem h
    generalize hh : lzOf bits x / 2 = hsh2 at *
    have e5 : hsh2 * 2 / 2 = hsh2 := by omega
    rw [e5] at h
    split at h
    · simp only [Option.bind_eq_some_iff, Option.pure_def, Option.some.injEq] at h
      obtain ⟨r2, hr2, rem', hrem', hr⟩ := h
      subst hr
      obtain ⟨hr2v, _⟩ := ck_some hr2
      obtain ⟨hremv, _⟩ := ck_some hrem'
      simp only []
      have e4 : (2 : Nat) ^ (hsh2 * 2) = (2 ^ hsh2) ^ 2 := by rw [Nat.mul_comm, Nat.pow_mul, ← Nat.pow_mul, Nat.mul_comm, Nat.pow_mul]
      rw [e4] at hroot
      have hd := root_denormalise (by decide) hroot
      refine ⟨hd, ?_⟩
      have hr2' : r2 = root / 2 ^ hsh2 * (root / 2 ^ hsh2) := by exact_mod_cast hr2v
      have : (rem' : Int) = (x : Int) - (r2 : Nat) := hremv
      rw [Nat.pow_two, ← hr2']; omega
    · rename_i hs0
      simp only [Option.pure_def, Option.some.injEq] at h
      subst h
      have : hsh2 * 2 = 0 := by omega
      rw [this] at hroot hrem
      simpa using And.intro hroot hrem

/-- **`u128::sqrt_rem` is sound** on every value of the type -/
theorem sqrtRemU128_sound {x : Nat} (hx : x < 2 ^ 128) {r : Nat × Nat} (h : sqrtRemPrimBits 128 x = some r) :
    IsRoot x 2 r.1 ∧ r.1 ^ 2 + r.2 = x :=
  sqrtRemNorm_sound' (bits := 128) (by decide) (fun _ _ h1 h2 h3 => normSqrtU128_sound h1 h2 h3) hx h

end Dashu.Model.NT
