import Dashu.Proofs.NT.ModPow
import Dashu.Proofs.NT.ModInv
import Mathlib.Data.Int.ModEq
/-
  C13: from "raw = (value mod m)·2^k" to the homomorphism statements over `Int`.
-/
namespace Dashu.Model.NT
open Dashu.Model

/-- the canonical residue of an integer: `Int.emod` as a natural number -/
def res (m : Nat) (a : Int) : Nat := (a % (m : Int)).toNat

theorem res_cast {m : Nat} (hm : 0 < m) (a : Int) : ((res m a : Nat) : Int) = a % (m : Int) := by
  unfold res
  exact Int.toNat_of_nonneg (Int.emod_nonneg _ (by omega))

theorem res_lt {m : Nat} (hm : 0 < m) (a : Int) : res m a < m := by
  have h1 := res_cast hm a
  have h2 := Int.emod_lt_of_pos a (show (0 : Int) < m by omega)
  omega

theorem res_modEq {m : Nat} (hm : 0 < m) (a : Int) : ((res m a : Nat) : Int) ≡ a [ZMOD m] := by
  rw [res_cast hm]; exact Int.mod_modEq _ _

theorem res_unique {m : Nat} (hm : 0 < m) {x : Nat} {y : Int} (hx : x < m)
    (h : (x : Int) ≡ y [ZMOD m]) : x = res m y := by
  unfold Int.ModEq at h
  rw [Int.emod_eq_of_lt (by omega) (by omega)] at h
  unfold res
  rw [← h]; simp

theorem res_natCast {m : Nat} (hm : 0 < m) (x : Nat) : res m (x : Int) = x % m := by
  symm
  apply res_unique hm (Nat.mod_lt _ hm)
  rw [Int.natCast_mod]
  exact Int.mod_modEq _ _

/-- a value `f % m` that is congruent to `y` is the residue of `y` -/
theorem mod_eq_res {m : Nat} (hm : 0 < m) (f : Nat) {y : Int} (h : (f : Int) ≡ y [ZMOD m]) :
    f % m = res m y := by
  apply res_unique hm (Nat.mod_lt _ hm)
  rw [Int.natCast_mod]
  exact (Int.mod_modEq _ _).trans h

theorem Ring.new_ok {W id m : Nat} (hm : m ≠ 0) : ∃ r, Ring.new W id m = .ok r ∧ r.m = m ∧ r.id = id := by
  unfold Ring.new
  rw [if_neg hm]
  split
  · exact ⟨_, rfl, rfl, rfl⟩
  · split
    · exact ⟨_, rfl, rfl, rfl⟩
    · exact ⟨_, rfl, rfl, rfl⟩

theorem Ring.new_m {W id m : Nat} {r : Ring} (h : Ring.new W id m = .ok r) : r.m = m ∧ r.id = id := by
  unfold Ring.new at h
  split at h
  · cases h
  · split at h
    · cases h; exact ⟨rfl, rfl⟩
    · split at h <;> (cases h; exact ⟨rfl, rfl⟩)

/-- `reduce` of any integer stores `(a mod m)·2^k` -/
theorem reduceInt_raw {W : Nat} {r : Ring} (hwf : r.WF W) (a : Int) :
    (reduceInt W r a).raw = res r.m a * 2 ^ r.k := by
  have hm := hwf.mpos
  unfold reduceInt
  simp only []
  rw [rawOfNat_eq hwf]
  split
  · rename_i hneg
    simp only []
    rw [negRaw_eq (Nat.mod_lt _ hm)]
    congr 1
    apply mod_eq_res hm
    have hle : a.natAbs % r.m ≤ r.m := Nat.le_of_lt (Nat.mod_lt _ hm)
    rw [Nat.cast_sub hle, Int.natCast_mod]
    have hab : (a.natAbs : Int) = -a := by omega
    rw [hab]
    have h1 : (-a) % (r.m : Int) ≡ -a [ZMOD r.m] := Int.mod_modEq _ _
    have h2 : ((r.m : Int) - (-a) % (r.m : Int)) ≡ (r.m : Int) - (-a) [ZMOD r.m] :=
      Int.ModEq.sub (Int.ModEq.refl _) h1
    have h3 : (r.m : Int) - (-a) ≡ a [ZMOD r.m] := by
      have : (r.m : Int) - (-a) = a + r.m := by ring
      rw [this]
      exact Int.add_modEq_right
    exact h2.trans h3
  · rename_i hpos
    simp only []
    congr 1
    have hab : (a.natAbs : Int) = a := by omega
    rw [← res_natCast hm, hab]

theorem residue_of_raw (r : Ring) (v : Nat) : (⟨r, v * 2 ^ r.k⟩ : Elem).residue = v := by
  simp [Elem.residue, Nat.mul_div_cancel _ (Nat.two_pow_pos r.k)]

theorem valid_of_lt {r : Ring} {v : Nat} (h : v < r.m) : Valid r (v * 2 ^ r.k) := ⟨v, h, rfl⟩

end Dashu.Model.NT
