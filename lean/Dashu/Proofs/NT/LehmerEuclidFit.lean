import Dashu.Proofs.NT.LehmerIter
/-
  C12 (Round 6): the Euclidean fallback of `lehmer::gcd_ext_in_place` — `t0 += q·t1` through
  `mul::add_signed_mul(&mut t0[..qt1_len], Positive, q_lo, &t1[..t1_len])` with `qt1_len = q_lo.len() + t1_len`:
  the slice `t0[..qt1_len]` lies inside the `lhs_len + 1` words of the buffer, at every iteration.
-/
namespace Dashu.Model.NT
open Dashu.Model

/-- a product below `2^(W·L)` of two positive numbers: their word counts add up to at most `L + 1` -/
theorem wordLen_add_le_of_mul_lt {W L q t : Nat} (hW : 0 < W) (hq : 0 < q) (ht : 0 < t) (h : q * t < 2 ^ (W * L)) :
    wordLen W q + wordLen W t ≤ L + 1 := by
  have h1 := two_pow_le_of_wordLen hW (Nat.pos_iff_ne_zero.1 hq)
  have h2 := two_pow_le_of_wordLen hW (Nat.pos_iff_ne_zero.1 ht)
  have h3 : 2 ^ (W * (wordLen W q - 1)) * 2 ^ (W * (wordLen W t - 1)) ≤ q * t := Nat.mul_le_mul h1 h2
  rw [← Nat.pow_add] at h3
  have h4 : 2 ^ (W * (wordLen W q - 1) + W * (wordLen W t - 1)) < 2 ^ (W * L) := Nat.lt_of_le_of_lt h3 h
  have h5 : W * (wordLen W q - 1) + W * (wordLen W t - 1) < W * L := (Nat.pow_lt_pow_iff_right (by decide)).1 h4
  have h6 : W * ((wordLen W q - 1) + (wordLen W t - 1)) < W * L := by rw [Nat.mul_add]; exact h5
  have h7 : (wordLen W q - 1) + (wordLen W t - 1) < L := Nat.lt_of_mul_lt_mul_left h6
  omega

/-- the coefficient `t1` stays positive along the loop -/
theorem lehmerExtStep_t1_pos (W : Nat) (s s' : ExtState) (hs : lehmerExtStep W s = .ok s') (hy : 0 < s.2.1)
    (hord : s.2.1 ≤ s.1) (ht : 0 < s.2.2.1 + s.2.2.2.1 ∧ 0 < s.2.2.2.1) : 0 < s'.2.2.1 + s'.2.2.2.1 ∧ 0 < s'.2.2.2.1 := by
  obtain ⟨x, y, t0, t1, sw⟩ := s
  simp only [] at hy hord ht
  unfold lehmerExtStep at hs
  simp only [] at hs
  have hdet := lehmerCofactors_det W x y
  generalize lehmerCofactors W x y = cof at hs hdet
  obtain ⟨a, b, c, d⟩ := cof
  simp only [] at hs hdet
  split at hs
  · injection hs with hs
    subst hs
    show 0 < t1 + (t0 + x / y * t1) ∧ 0 < t0 + x / y * t1
    have hq : 0 < x / y := Nat.div_pos hord hy
    have : 1 * 1 ≤ x / y * t1 := Nat.mul_le_mul hq ht.2
    omega
  · rename_i hb
    have hb1 : 1 ≤ b := Nat.pos_of_ne_zero hb
    have hd1 : 1 ≤ d := by
      rcases Nat.eq_zero_or_pos d with h0 | h0
      · subst h0
        have h1 : (0 : Int) ≤ (b : Int) * c := by positivity
        simp at hdet
        omega
      · exact h0
    have h1 : 1 * 1 ≤ b * t1 := Nat.mul_le_mul hb1 ht.2
    have h2 : 1 * 1 ≤ d * t1 := Nat.mul_le_mul hd1 ht.2
    split at hs
    · exact absurd hs (by simp)
    · split at hs
      · injection hs with hs
        subst hs
        show 0 < c * t0 + d * t1 + (a * t0 + b * t1) ∧ 0 < a * t0 + b * t1
        omega
      · injection hs with hs
        subst hs
        show 0 < a * t0 + b * t1 + (c * t0 + d * t1) ∧ 0 < c * t0 + d * t1
        omega

theorem lehmerExtIter_t1_pos (W : Nat) (L : Nat) (hW : 0 < W) :
    ∀ (k : Nat) (s s' : ExtState), lehmerExtIter W k s = some s' → IterInv L s → 0 < s.2.2.2.1 → 0 < s'.2.2.2.1 := by
  intro k
  induction k with
  | zero => intro s s' h _ ht; simp only [lehmerExtIter] at h; injection h with h; subst h; exact ht
  | succ n ih =>
    intro s s' h hinv ht
    simp only [lehmerExtIter] at h
    split at h
    · rename_i hy
      have hy0 : 0 < s.2.1 := by
        rcases Nat.eq_zero_or_pos s.2.1 with h0 | h0
        · rw [h0, wordLen_zero hW] at hy; omega
        · exact h0
      generalize hst : lehmerExtStep W s = st at h
      match st, h with
      | .ok s1, h =>
        exact ih s1 s' h (lehmerExtStep_inv W L s s1 hst hy0 hinv)
          (lehmerExtStep_t1_pos W s s1 hst hy0 hinv.2 ⟨by omega, ht⟩).2
    · exact absurd h (by simp)

/-- **Euclidean fallback inside `gcd_ext_in_place`, every iteration**: at the head of any iteration reached from
    `(lhs, rhs, 0, 1)`, `rhs ≤ lhs`, at which the loop goes on (`y` has more than one word), with `q = x / y` the
    quotient of the Euclidean step: `q ≥ 1`, `t1 ≥ 1`, the updated coefficient `t0 + q·t1` is at most `lhs` (so below
    `2^(W·lhs_len)`: a carry word out of `qt1_len` words implies `qt1_len < lhs_len`), and
    `q.len() + t1_len ≤ lhs_len + 1` — the slice `t0[..qt1_len]` handed to `add_signed_mul` lies inside the
    `lhs_len + 1` words of the coefficient buffer. -/
theorem lehmerExt_euclid_slice_fits (W : Nat) (hW : 0 < W) (lhs rhs : Nat) (hlr : rhs ≤ lhs) (k : Nat)
    (x y t0 t1 : Nat) (sw : Bool) (h : lehmerExtIter W k (lhs, rhs, 0, 1, false) = some (x, y, t0, t1, sw))
    (hlen : 1 < wordLen W y) :
    0 < x / y ∧ 0 < t1 ∧ t0 + x / y * t1 ≤ lhs ∧ t0 + x / y * t1 < 2 ^ (W * wordLen W lhs) ∧
    wordLen W (x / y) + wordLen W t1 ≤ wordLen W lhs + 1 := by
  have hinv0 : IterInv lhs ((lhs, rhs, 0, 1, false) : ExtState) := ⟨by simp, hlr⟩
  obtain ⟨hinv, hord⟩ := lehmerExtIter_inv W lhs hW k _ _ h hinv0
  have ht1 := lehmerExtIter_t1_pos W lhs hW k _ _ h hinv0 Nat.one_pos
  simp only [] at hinv hord ht1
  have hy0 : 0 < y := by
    rcases Nat.eq_zero_or_pos y with h0 | h0
    · rw [h0, wordLen_zero hW] at hlen; omega
    · exact h0
  have hq : 0 < x / y := Nat.div_pos hord hy0
  have hl := lt_two_pow_wordLen hW lhs
  have hle : t0 + x / y * t1 ≤ lhs := by
    have e : (t0 + x / y * t1) * y + t1 * (x % y) = t0 * y + t1 * (y * (x / y) + x % y) := by ring
    rw [Nat.div_add_mod] at e
    have : (t0 + x / y * t1) * 1 ≤ (t0 + x / y * t1) * y := Nat.mul_le_mul_left _ hy0
    omega
  refine ⟨hq, ht1, hle, by omega, ?_⟩
  exact wordLen_add_le_of_mul_lt hW hq ht1 (by omega)

end Dashu.Model.NT
