import Dashu.Model.NT.Root
import Dashu.Proofs.NT.Basic
import Mathlib.Tactic.Ring
import Mathlib.Tactic.Linarith
import Mathlib.Tactic.Positivity
/-
  C12: integer roots — the bitwise specification `iroot`, the Newton iteration of `nth_root` and the
  (de)normalisation wrapper of `sqrt_rem_large`.
-/
namespace Dashu.Model.NT
open Dashu.Model

/-- `s` is the floor of the `n`-th root of `x` -/
def IsRoot (x n s : Nat) : Prop := s ^ n ≤ x ∧ x < (s + 1) ^ n

theorem IsRoot.unique {x n s t : Nat} (hn : 0 < n) (hs : IsRoot x n s) (ht : IsRoot x n t) : s = t := by
  rcases Nat.lt_trichotomy s t with h | h | h
  · exfalso
    have : (s + 1) ^ n ≤ t ^ n := Nat.pow_le_pow_left (by omega) n
    have := hs.2; have := ht.1; omega
  · exact h
  · exfalso
    have : (t + 1) ^ n ≤ s ^ n := Nat.pow_le_pow_left (by omega) n
    have := hs.1; have := ht.2; omega

-- ---------------------------------------------------------------- the bitwise specification

theorem irootBits_spec (x n : Nat) :
    ∀ (i s : Nat), s ^ n ≤ x → x < (s + 2 ^ i) ^ n → IsRoot x n (irootBits x n i s) := by
  intro i
  induction i with
  | zero => intro s h1 h2; exact ⟨by simpa [irootBits] using h1, by simpa [irootBits] using h2⟩
  | succ k ih =>
    intro s h1 h2
    unfold irootBits
    split
    · rename_i h
      apply ih _ h
      have : s + 2 ^ k + 2 ^ k = s + 2 ^ (k + 1) := by rw [Nat.pow_succ]; omega
      rw [this]; exact h2
    · rename_i h
      exact ih s h1 (by omega)

/-- the executable spec used for frontier kernels and in the driver is the floor root -/
theorem iroot_spec (x n : Nat) (hn : 0 < n) : IsRoot x n (iroot x n) := by
  unfold iroot
  apply irootBits_spec
  · simp [Nat.zero_pow hn]
  · have h1 := lt_two_pow_bitLen x
    have h2 : bitLen x < (bitLen x / n + 1) * n := by
      have := Nat.div_add_mod (bitLen x) n
      have := Nat.mod_lt (bitLen x) hn
      rw [Nat.add_mul, Nat.one_mul, Nat.mul_comm]
      omega
    rw [Nat.zero_add, ← Nat.pow_mul]
    exact Nat.lt_of_lt_of_le h1 (Nat.pow_le_pow_right (by decide) (Nat.le_of_lt h2))

theorem exists_root (x n : Nat) (hn : 0 < n) : ∃ r, IsRoot x n r := ⟨_, iroot_spec x n hn⟩

-- ---------------------------------------------------------------- Newton iteration

/-- integer AM–GM in the form Newton's method needs: `r^(k+1) + k·g^(k+1) ≥ (k+1)·r·g^k` -/
theorem amgm_int (r g : Int) (hr : 0 ≤ r) (hg : 0 ≤ g) :
    ∀ k : Nat, ((k : Int) + 1) * r * g ^ k ≤ r ^ (k + 1) + k * g ^ (k + 1) := by
  intro k
  induction k with
  | zero => simp
  | succ k ih =>
    have key : r ^ (k + 1 + 1) + ((k + 1 : Nat) : Int) * g ^ (k + 1 + 1) - (((k + 1 : Nat) : Int) + 1) * r * g ^ (k + 1)
        = r * (r ^ (k + 1) + k * g ^ (k + 1) - ((k : Int) + 1) * r * g ^ k) + ((k : Int) + 1) * g ^ k * (r - g) ^ 2 := by
      push_cast; ring
    have h1 : 0 ≤ r * (r ^ (k + 1) + k * g ^ (k + 1) - ((k : Int) + 1) * r * g ^ k) :=
      mul_nonneg hr (by linarith)
    have h2 : 0 ≤ ((k : Int) + 1) * g ^ k * (r - g) ^ 2 := by positivity
    linarith

theorem amgm_nat (r g k : Nat) : (k + 1) * r * g ^ k ≤ r ^ (k + 1) + k * g ^ (k + 1) := by
  have := amgm_int r g (Int.natCast_nonneg _) (Int.natCast_nonneg _) k
  exact_mod_cast this

/-- Lemma A: one Newton step from any positive guess lands at or above the floor root -/
theorem newtonNext_ge {x k r g : Nat} (hr : r ^ (k + 1) ≤ x) (hg : 0 < g) :
    r ≤ newtonNext x (k + 1) g := by
  unfold newtonNext
  rw [Nat.add_sub_cancel, Nat.le_div_iff_mul_le (by omega)]
  -- (k+1)·r ≤ x / g^k + g·k
  by_cases h : r * (k + 1) ≤ g * k
  · have := Nat.zero_le (x / g ^ k); omega
  · have hpos : 0 < g ^ k := pow_pos hg k
    have h2 : r * (k + 1) - g * k ≤ x / g ^ k := by
      rw [Nat.le_div_iff_mul_le hpos]
      have h3 := amgm_nat r g k
      have h4 : (r * (k + 1) - g * k) * g ^ k + k * g ^ (k + 1) = (k + 1) * r * g ^ k := by
        have : g * k * g ^ k = k * g ^ (k + 1) := by rw [Nat.pow_succ]; ring
        rw [Nat.sub_mul, this]
        have hle : k * g ^ (k + 1) ≤ r * (k + 1) * g ^ k := by
          rw [← this]; exact Nat.mul_le_mul_right _ (by omega)
        have : r * (k + 1) * g ^ k = (k + 1) * r * g ^ k := by ring
        omega
      omega
    omega

/-- Lemma B: above the floor root a Newton step strictly decreases -/
theorem newtonNext_lt {x k r g : Nat} (hr : x < (r + 1) ^ (k + 1)) (hg : r < g) :
    newtonNext x (k + 1) g < g := by
  unfold newtonNext
  rw [Nat.add_sub_cancel, Nat.div_lt_iff_lt_mul (by omega)]
  have hgpos : 0 < g := by omega
  have hpos : 0 < g ^ k := pow_pos hgpos k
  have h1 : (r + 1) ^ (k + 1) ≤ g ^ (k + 1) := Nat.pow_le_pow_left (by omega) _
  have h2 : x / g ^ k < g := by
    rw [Nat.div_lt_iff_lt_mul hpos, ← Nat.pow_succ']; exact Nat.lt_of_lt_of_le hr h1
  have : g * (k + 1) = g + g * k := by ring
  omega

/-- every Newton step stays below `max x g` (so all guesses stay `≤ x`) -/
theorem newtonNext_le {x k g : Nat} (hg : 0 < g) (hgx : g ≤ x) : newtonNext x (k + 1) g ≤ x := by
  unfold newtonNext
  rw [Nat.add_sub_cancel]
  apply Nat.div_le_of_le_mul
  have : x / g ^ k ≤ x := Nat.div_le_self _ _
  have : g * k ≤ x * k := Nat.mul_le_mul_right _ hgx
  have : (k + 1) * x = x + x * k := by ring
  omega

/-- "go up": ends with a guess at or above the floor root whose next step does not increase -/
theorem newtonUp_spec {x k r : Nat} (hroot : IsRoot x (k + 1) r) :
    ∀ (fuel guess : Nat), 0 < guess → guess ≤ x →
      (r + 1 - guess < fuel ∨ newtonNext x (k + 1) guess ≤ guess) →
      let res := newtonUp x (k + 1) fuel guess (newtonNext x (k + 1) guess)
      res.2 = newtonNext x (k + 1) res.1 ∧ res.2 ≤ res.1 ∧ r ≤ res.1 ∧ res.1 ≤ x ∧ 0 < res.1 := by
  intro fuel
  induction fuel with
  | zero =>
    intro guess hg hgx h
    have h' : newtonNext x (k + 1) guess ≤ guess := by omega
    refine ⟨rfl, h', ?_, hgx, hg⟩
    by_contra hlt
    have := newtonNext_ge hroot.1 hg
    simp only [newtonUp] at *
    omega
  | succ n ih =>
    intro guess hg hgx h
    unfold newtonUp
    split
    · rename_i hgt
      -- still going up: guess ≤ r
      have hle : guess ≤ r := by
        by_contra hc
        have := newtonNext_lt hroot.2 (show r < guess by omega)
        omega
      have hpos : 0 < newtonNext x (k + 1) guess := by omega
      exact ih _ hpos (newtonNext_le hg hgx) (by left; omega)
    · rename_i hle
      have h' : newtonNext x (k + 1) guess ≤ guess := by omega
      refine ⟨rfl, h', ?_, hgx, hg⟩
      by_contra hlt
      have := newtonNext_ge hroot.1 hg
      omega

/-- "go down": from any guess at or above the floor root, ends exactly at the floor root -/
theorem newtonDown_spec {x k r : Nat} (hroot : IsRoot x (k + 1) r) (hr : 0 < r) :
    ∀ (fuel guess : Nat), r ≤ guess →
      (guess - r < fuel ∨ guess ≤ newtonNext x (k + 1) guess) →
      (newtonDown x (k + 1) fuel guess (newtonNext x (k + 1) guess)).1 = r := by
  intro fuel
  induction fuel with
  | zero =>
    intro guess hge h
    have h' : guess ≤ newtonNext x (k + 1) guess := by omega
    simp only [newtonDown]
    by_contra hne
    have := newtonNext_lt hroot.2 (show r < guess by omega)
    omega
  | succ n ih =>
    intro guess hge h
    unfold newtonDown
    split
    · rename_i hlt
      have hge' := newtonNext_ge hroot.1 (show 0 < guess by omega)
      exact ih _ hge' (by left; omega)
    · rename_i hnlt
      simp only []
      by_contra hne
      have := newtonNext_lt hroot.2 (show r < guess by omega)
      omega

/-- the Newton part of `nth_root` with fuel `x + 2` returns the floor root, for every `n ≥ 2`
    and every radicand with more than `n` bits -/
theorem nthRootNewton_spec (x k : Nat) (hk : 0 < k) (hbits : k + 1 < bitLen x) :
    IsRoot x (k + 1) (nthRootNewton x (k + 1) (x + 2)) := by
  obtain ⟨r, hroot⟩ := exists_root x (k + 1) (by omega)
  have hx : x ≠ 0 := by intro h; subst h; simp [bitLen] at hbits
  -- the radicand has more than n bits, so the root is at least 2 > 0
  have hrpos : 0 < r := by
    by_contra h0
    have : r = 0 := by omega
    subst this
    have h2 := hroot.2
    simp at h2
    have := two_pow_bitLen_le hx
    have : 2 ^ 1 ≤ 2 ^ (bitLen x - 1) := Nat.pow_le_pow_right (by decide) (by omega)
    omega
  -- the start value 2^⌈bits/n⌉ is positive and at most x
  have hg0 : 0 < 2 ^ ((bitLen x + (k + 1) - 1) / (k + 1)) := Nat.two_pow_pos _
  have hg0x : 2 ^ ((bitLen x + (k + 1) - 1) / (k + 1)) ≤ x := by
    have h1 := two_pow_bitLen_le hx
    have h2 : (bitLen x + (k + 1) - 1) / (k + 1) ≤ bitLen x - 1 := by
      apply Nat.le_of_lt_succ
      rw [Nat.div_lt_iff_lt_mul (by omega)]
      have : bitLen x * 2 ≤ bitLen x * (k + 1) := Nat.mul_le_mul_left _ (by omega)
      have : (bitLen x - 1).succ = bitLen x := by omega
      rw [this]; omega
    exact Nat.le_trans (Nat.pow_le_pow_right (by decide) h2) h1
  have hrx : r ≤ x := by
    have := hroot.1
    have : r ≤ r ^ (k + 1) := Nat.le_self_pow (by omega) r
    omega
  have hup := newtonUp_spec hroot (x + 2) _ hg0 hg0x (by left; omega)
  unfold nthRootNewton
  simp only []
  generalize newtonUp x (k + 1) (x + 2) (2 ^ ((bitLen x + (k + 1) - 1) / (k + 1)))
    (newtonNext x (k + 1) (2 ^ ((bitLen x + (k + 1) - 1) / (k + 1)))) = res at hup
  obtain ⟨G, F⟩ := res
  obtain ⟨h1, h2, h3, h4, h5⟩ := hup
  simp only [] at h1 h2 h3 h4 h5 ⊢
  rw [h1, newtonDown_spec hroot hrpos (x + 2) G h3 (by left; omega)]
  exact hroot

-- ---------------------------------------------------------------- sqrt_rem_large

/-- de-normalisation of root and remainder: if the kernel returns the floor square root `s` and
    the remainder of `x·4^h`, then `s >> h` is the floor square root of `x` and
    `(r + 2·s·s0 − s0²) >> 2h` its remainder (`s0 = s mod 2^h`). -/
theorem sqrt_denormalise {x h s : Nat} (hs : IsRoot (x * 4 ^ h) 2 s) :
    IsRoot x 2 (s / 2 ^ h) ∧
    (x * 4 ^ h - s * s + 2 * (s % 2 ^ h) * s - (s % 2 ^ h) * (s % 2 ^ h)) / 4 ^ h
      = x - (s / 2 ^ h) * (s / 2 ^ h) := by
  obtain ⟨h1, h2⟩ := hs
  have hp : 0 < 2 ^ h := Nat.two_pow_pos _
  have h4 : (4 : Nat) ^ h = 2 ^ h * 2 ^ h := by
    rw [show (4 : Nat) = 2 * 2 by rfl, Nat.mul_pow]
  have hdm := Nat.div_add_mod s (2 ^ h)
  have hlt := Nat.mod_lt s hp
  generalize s / 2 ^ h = q at *
  generalize s % 2 ^ h = s0 at *
  generalize 2 ^ h = P at *
  subst hdm
  rw [h4] at h1 h2 ⊢
  simp only [Nat.pow_two] at h1 h2
  -- q² ≤ x
  have hq : q * q ≤ x := by
    by_contra hc
    have hc : x + 1 ≤ q * q := by omega
    have : (x + 1) * (P * P) ≤ (q * q) * (P * P) := Nat.mul_le_mul_right _ hc
    have : (P * q) * (P * q) ≤ (P * q + s0) * (P * q + s0) := Nat.mul_le_mul (by omega) (by omega)
    nlinarith
  -- x < (q+1)²
  have hq2 : x < (q + 1) * (q + 1) := by
    by_contra hc
    have hc : (q + 1) * (q + 1) ≤ x := by omega
    have : (q + 1) * (q + 1) * (P * P) ≤ x * (P * P) := Nat.mul_le_mul_right _ hc
    have : P * q + s0 + 1 ≤ P * (q + 1) := by rw [Nat.mul_add]; omega
    have : (P * q + s0 + 1) * (P * q + s0 + 1) ≤ (P * (q + 1)) * (P * (q + 1)) := Nat.mul_le_mul this this
    nlinarith
  refine ⟨⟨by simpa [Nat.pow_two] using hq, by simpa [Nat.pow_two] using hq2⟩, ?_⟩
  -- the numerator is exactly (x − q²)·P²
  have hnum : x * (P * P) - (P * q + s0) * (P * q + s0) + 2 * s0 * (P * q + s0) - s0 * s0
      = (x - q * q) * (P * P) := by
    have e1 : (P * q + s0) * (P * q + s0) = q * q * (P * P) + 2 * s0 * (P * q) + s0 * s0 := by ring
    have e2 : 2 * s0 * (P * q + s0) = 2 * s0 * (P * q) + 2 * (s0 * s0) := by ring
    have e3 : (x - q * q) * (P * P) = x * (P * P) - q * q * (P * P) := Nat.sub_mul _ _ _
    have e4 : q * q * (P * P) ≤ x * (P * P) := Nat.mul_le_mul_right _ hq
    rw [e1, e2, e3]
    omega
  rw [hnum, Nat.mul_div_cancel _ (Nat.mul_pos hp hp)]

end Dashu.Model.NT

namespace Dashu.Model.NT
open Dashu.Model

/-- contract of `root::sqrt_rem` (and of the frontier that stands for it) -/
def SqrtKernelContract (kernel : Nat → Nat × Nat) : Prop :=
  ∀ a, IsRoot a 2 (kernel a).1 ∧ (kernel a).2 = a - (kernel a).1 * (kernel a).1

theorem sqrtRemKernelFrontier_contract : SqrtKernelContract sqrtRemKernelFrontier := by
  intro a
  exact ⟨iroot_spec a 2 (by decide), rfl⟩

theorem bitLen_le_wordLen {W : Nat} (hW : 0 < W) (x : Nat) : bitLen x ≤ W * wordLen W x := by
  unfold wordLen
  have := Nat.div_add_mod (bitLen x + W - 1) W
  have := Nat.mod_lt (bitLen x + W - 1) hW
  generalize (bitLen x + W - 1) / W = q at *
  generalize (bitLen x + W - 1) % W = t at *
  omega

theorem wordLen_lt_bitLen {W : Nat} (hW : 0 < W) (x : Nat) : W * wordLen W x < bitLen x + W := by
  unfold wordLen
  have := Nat.div_add_mod (bitLen x + W - 1) W
  have := Nat.mod_lt (bitLen x + W - 1) hW
  generalize (bitLen x + W - 1) / W = q at *
  generalize (bitLen x + W - 1) % W = t at *
  omega

/-- `sqrt_rem_large` (as the property requires it, `fixed = true`): for every even word size and any
    kernel meeting the contract, the returned pair is the floor square root and its remainder -/
theorem sqrtRemLarge_spec (W : Nat) (hW : 0 < W) (hWe : W % 2 = 0) (kernel : Nat → Nat × Nat)
    (hk : SqrtKernelContract kernel) (x : Nat) :
    IsRoot x 2 (sqrtRemLarge W kernel true x).1 ∧
    (sqrtRemLarge W kernel true x).1 * (sqrtRemLarge W kernel true x).1 + (sqrtRemLarge W kernel true x).2 = x := by
  unfold sqrtRemLarge
  simp only []
  have hle := bitLen_le_wordLen hW x
  have hlt := wordLen_lt_bitLen hW x
  generalize hsh : W * (wordLen W x % 2) + (W * wordLen W x - bitLen x) / 2 * 2 = shift
  -- the shift is even and below two words
  have hev : shift % 2 = 0 := by
    have h1 : (W * (wordLen W x % 2)) % 2 = 0 := by
      rw [Nat.mul_mod, hWe]; simp
    omega
  have hlt2 : shift < 2 * W := by
    have : wordLen W x % 2 ≤ 1 := by omega
    have : W * (wordLen W x % 2) ≤ W * 1 := Nat.mul_le_mul_left W this
    omega
  obtain ⟨h, rfl⟩ : ∃ h, shift = 2 * h := ⟨shift / 2, by omega⟩
  have h4 : (2 : Nat) ^ (2 * h) = 4 ^ h := by rw [Nat.pow_mul]
  obtain ⟨hroot, hrem⟩ := hk (x * 2 ^ (2 * h))
  generalize kernel (x * 2 ^ (2 * h)) = res at hroot hrem
  obtain ⟨s, r⟩ := res
  simp only [] at hroot hrem ⊢
  have hh : 2 * h / 2 = h := by omega
  split
  · rename_i hne
    simp only [if_true, hh]
    rw [h4] at hroot hrem
    obtain ⟨hr, hq⟩ := sqrt_denormalise hroot
    have hdiv : ∀ v : Nat, (if decide (2 * h ≥ W) = true then v / 2 ^ W / 2 ^ (2 * h % W) else v / 2 ^ (2 * h % W))
        = v / 4 ^ h := by
      intro v
      rw [← h4]
      by_cases hge : 2 * h ≥ W
      · simp only [hge, decide_true, if_true]
        rw [Nat.div_div_eq_div_mul, ← Nat.pow_add]
        have : W + 2 * h % W = 2 * h := by
          have := Nat.mod_eq_sub_mod hge
          rw [this, Nat.mod_eq_of_lt (by omega)]; omega
        rw [this]
      · simp only [hge, decide_false, Bool.false_eq_true, if_false]
        rw [Nat.mod_eq_of_lt (by omega)]
    rw [hdiv, hrem, hq]
    refine ⟨hr, ?_⟩
    have := hr.1
    simp only [Nat.pow_two] at this
    omega
  · rename_i he
    have h0 : h = 0 := by omega
    subst h0
    simp only [Nat.mul_zero, Nat.pow_zero, Nat.mul_one] at hroot hrem
    refine ⟨hroot, ?_⟩
    show s * s + r = x
    rw [hrem]
    have := hroot.1
    simp only [Nat.pow_two] at this
    omega

end Dashu.Model.NT
