import Dashu.Proofs.NT.LehmerAlign2
/-
  C12: the mirrored `lehmer::gcd_in_place` loop always returns — no committed step goes negative and
  every iteration decreases `x + y` — hence (with soundness) it computes the gcd.
-/
namespace Dashu.Model.NT
open Dashu.Model

/-- the arithmetic core of non-negativity, for any state satisfying the invariant -/
theorem guessInv_nonneg {x y k xb yb a b c d : Nat} (h : GuessInv (x / 2 ^ k) (y / 2 ^ k) xb yb a b c d) :
    0 ≤ (a : Int) * x - (b : Int) * y ∧ 0 ≤ (d : Int) * y - (c : Int) * x := by
  obtain ⟨_, hx, hy, hbx, hcy⟩ := h
  have hxd := Nat.div_add_mod x (2 ^ k)
  have hyd := Nat.div_add_mod y (2 ^ k)
  have hxm := Nat.mod_lt x (Nat.two_pow_pos k)
  have hym := Nat.mod_lt y (Nat.two_pow_pos k)
  have hPpos' := Nat.two_pow_pos k
  generalize x / 2 ^ k = X0 at *
  generalize y / 2 ^ k = Y0 at *
  generalize 2 ^ k = P at *
  have hxI : (x : Int) = P * X0 + (x % P : Nat) := by exact_mod_cast hxd.symm
  have hyI : (y : Int) = P * Y0 + (y % P : Nat) := by exact_mod_cast hyd.symm
  have hxmI : ((x % P : Nat) : Int) < P := by exact_mod_cast hxm
  have hymI : ((y % P : Nat) : Int) < P := by exact_mod_cast hym
  have hx0 : (0 : Int) ≤ (x % P : Nat) := Int.natCast_nonneg _
  have hy0 : (0 : Int) ≤ (y % P : Nat) := Int.natCast_nonneg _
  have hPpos : (0 : Int) < P := by exact_mod_cast hPpos'
  have hbxI : (b : Int) ≤ xb := by exact_mod_cast hbx
  have hcyI : (c : Int) ≤ yb := by exact_mod_cast hcy
  have ha0 : (0 : Int) ≤ a := Int.natCast_nonneg _
  have hb0 : (0 : Int) ≤ b := Int.natCast_nonneg _
  have hc0 : (0 : Int) ≤ c := Int.natCast_nonneg _
  have hd0 : (0 : Int) ≤ d := Int.natCast_nonneg _
  constructor
  · have : (a : Int) * x - b * y = P * xb + (a * (x % P : Nat) - b * (y % P : Nat)) := by
      rw [hxI, hyI, hx]; ring
    rw [this]
    have h1 : (b : Int) * (y % P : Nat) ≤ b * P := mul_le_mul_of_nonneg_left (le_of_lt hymI) hb0
    have h2 : (0 : Int) ≤ a * (x % P : Nat) := mul_nonneg ha0 hx0
    have h3 : (P : Int) * b ≤ P * xb := mul_le_mul_of_nonneg_left hbxI (le_of_lt hPpos)
    nlinarith
  · have : (d : Int) * y - c * x = P * yb + (d * (y % P : Nat) - c * (x % P : Nat)) := by
      rw [hxI, hyI, hy]; ring
    rw [this]
    have h1 : (c : Int) * (x % P : Nat) ≤ c * P := mul_le_mul_of_nonneg_left (le_of_lt hxmI) hc0
    have h2 : (0 : Int) ≤ d * (y % P : Nat) := mul_nonneg hd0 hy0
    have h3 : (P : Int) * c ≤ P * yb := mul_le_mul_of_nonneg_left hcyI (le_of_lt hPpos)
    nlinarith

/-- invariant with progress: besides `GuessInv`, the sum of the combined pair never exceeds `x + y`
    and is at most `x` as soon as a step has been committed (`b ≠ 0`) -/
def GuessProg (x y k xbar ybar a b c d : Nat) : Prop :=
  GuessInv (x / 2 ^ k) (y / 2 ^ k) xbar ybar a b c d ∧
  ((a : Int) * x - b * y) + ((d : Int) * y - c * x) ≤ x + y ∧
  (b ≠ 0 → ((a : Int) * x - b * y) + ((d : Int) * y - c * x) ≤ x) ∧
  (b = 0 → a = 1 ∧ c = 0 ∧ d = 1 ∧ xbar = x / 2 ^ k ∧ ybar = y / 2 ^ k)

theorem lehmerGuess_prog (lim x y k : Nat) (hxy : y ≤ x) :
    ∀ (fuel xbar ybar a b c d : Nat), GuessProg x y k xbar ybar a b c d →
      let r := lehmerGuess lim fuel xbar ybar a b c d
      ∃ xb yb, GuessProg x y k xb yb r.1 r.2.1 r.2.2.1 r.2.2.2 := by
  intro fuel
  induction fuel with
  | zero => intro xbar ybar a b c d h; exact ⟨xbar, ybar, by simpa [lehmerGuess] using h⟩
  | succ n ih =>
    intro xbar ybar a b c d h
    have keep : ∃ xb yb, GuessProg x y k xb yb a b c d := ⟨xbar, ybar, h⟩
    obtain ⟨hinv, hsum, hsumb, hb0⟩ := h
    have hnn := guessInv_nonneg hinv
    obtain ⟨hdet, hx, hy, hbx, hcy⟩ := hinv
    unfold lehmerGuess
    simp only []
    by_cases h0 : ybar = 0
    · rw [if_pos h0]; exact keep
    rw [if_neg h0]
    by_cases h1 : xbar / ybar > lim
    · rw [if_pos h1]; exact keep
    rw [if_neg h1]
    by_cases h2 : a + xbar / ybar * c > lim ∨ b + xbar / ybar * d > lim
    · rw [if_pos h2]; exact keep
    rw [if_neg h2]
    by_cases h3 : xbar - xbar / ybar * ybar < b + xbar / ybar * d ∨
        xbar - xbar / ybar * ybar + (a + xbar / ybar * c) > ybar - c
    · rw [if_pos h3]; exact keep
    rw [if_neg h3]
    have hqle : xbar / ybar * ybar ≤ xbar := Nat.div_mul_le_self _ _
    -- the first quotient is at least 1 when nothing has been committed yet
    have hq1 : b = 0 → 1 ≤ xbar / ybar := by
      intro hb
      obtain ⟨_, _, _, e1, e2⟩ := hb0 hb
      rw [e1, e2]
      apply Nat.div_pos
      · exact Nat.div_le_div_right hxy
      · rw [← e2]; exact Nat.pos_of_ne_zero h0
    generalize hq : xbar / ybar = q at *
    have h3a : b + q * d ≤ xbar - q * ybar := by omega
    have hq0 : (0 : Int) ≤ (q : Int) := Int.natCast_nonneg _
    have firstInv : GuessInv (x / 2 ^ k) (y / 2 ^ k) (xbar - q * ybar) ybar (a + q * c) (b + q * d) c d := by
      refine ⟨?_, ?_, hy, h3a, hcy⟩
      · simp only [Nat.cast_add, Nat.cast_mul]; linarith
      · rw [Nat.cast_sub hqle]; simp only [Nat.cast_add, Nat.cast_mul]; rw [hx, hy]; ring
    have hsum1 : ((a + q * c : Nat) : Int) * x - ((b + q * d : Nat) : Int) * y + ((d : Int) * y - c * x)
        = ((a : Int) * x - b * y) + ((d : Int) * y - c * x) - q * ((d : Int) * y - c * x) := by
      simp only [Nat.cast_add, Nat.cast_mul]; ring
    have hqy : (0 : Int) ≤ q * ((d : Int) * y - c * x) := mul_nonneg hq0 hnn.2
    have hb1ne' : b + q * d ≠ 0 := by
      intro hb
      by_cases hb' : b = 0
      · have := hq1 hb'
        obtain ⟨_, _, ed, _, _⟩ := hb0 hb'
        subst ed; subst hb'
        have : q * 1 = 0 := by omega
        omega
      · omega
    have first : GuessProg x y k (xbar - q * ybar) ybar (a + q * c) (b + q * d) c d := by
      refine ⟨firstInv, by rw [hsum1]; linarith, ?_, fun hb => absurd hb hb1ne'⟩
      intro _
      rw [hsum1]
      by_cases hb : b = 0
      · obtain ⟨ea, ec, ed, _, _⟩ := hb0 hb
        have := hq1 hb
        subst hb ea ec ed
        have hqI : (1 : Int) ≤ q := by exact_mod_cast this
        have hy0 : (0 : Int) ≤ y := Int.natCast_nonneg _
        simp only [Nat.cast_one, Nat.cast_zero] at *
        nlinarith
      · have := hsumb hb; linarith
    by_cases h4 : xbar - q * ybar = b + q * d
    · rw [if_pos h4]; exact ⟨_, _, first⟩
    rw [if_neg h4]
    by_cases h5 : ybar / (xbar - q * ybar) > lim
    · rw [if_pos h5]; exact ⟨_, _, first⟩
    rw [if_neg h5]
    obtain ⟨fInv, fsum, fsumb, fb0⟩ := first
    have fnn := guessInv_nonneg fInv
    generalize hx1 : xbar - q * ybar = x1 at *
    generalize ha1 : a + q * c = a1 at *
    generalize hb1 : b + q * d = b1 at *
    have first' : GuessProg x y k x1 ybar a1 b1 c d := ⟨fInv, fsum, fsumb, fb0⟩
    by_cases h6 : d + ybar / x1 * b1 > lim ∨ c + ybar / x1 * a1 > lim
    · rw [if_pos h6]; exact ⟨_, _, first'⟩
    rw [if_neg h6]
    by_cases h7 : ybar - ybar / x1 * x1 < c + ybar / x1 * a1 ∨
        ybar - ybar / x1 * x1 + (d + ybar / x1 * b1) > x1 - c
    · rw [if_pos h7]; exact ⟨_, _, first'⟩
    rw [if_neg h7]
    have hq2le : ybar / x1 * x1 ≤ ybar := Nat.div_mul_le_self _ _
    generalize hq2 : ybar / x1 = q2 at *
    obtain ⟨fdet, fx, fy, fbx, fcy⟩ := fInv
    have hq20 : (0 : Int) ≤ (q2 : Int) := Int.natCast_nonneg _
    have secondInv : GuessInv (x / 2 ^ k) (y / 2 ^ k) x1 (ybar - q2 * x1) a1 b1 (c + q2 * a1) (d + q2 * b1) := by
      refine ⟨?_, fx, ?_, fbx, by omega⟩
      · simp only [Nat.cast_add, Nat.cast_mul]; linarith
      · rw [Nat.cast_sub hq2le]; simp only [Nat.cast_add, Nat.cast_mul]; rw [fx, fy]; ring
    have hsum2 : ((a1 : Int) * x - b1 * y) + (((d + q2 * b1 : Nat) : Int) * y - ((c + q2 * a1 : Nat) : Int) * x)
        = ((a1 : Int) * x - b1 * y) + ((d : Int) * y - c * x) - q2 * ((a1 : Int) * x - b1 * y) := by
      simp only [Nat.cast_add, Nat.cast_mul]; ring
    have hqx : (0 : Int) ≤ q2 * ((a1 : Int) * x - b1 * y) := mul_nonneg hq20 fnn.1
    have second : GuessProg x y k x1 (ybar - q2 * x1) a1 b1 (c + q2 * a1) (d + q2 * b1) := by
      refine ⟨secondInv, by rw [hsum2]; linarith, ?_, fun hb => absurd hb hb1ne'⟩
      intro _; rw [hsum2]; have := fsumb hb1ne'; linarith
    by_cases h8 : ybar - q2 * x1 = c + q2 * a1
    · rw [if_pos h8]; exact ⟨_, _, second⟩
    rw [if_neg h8]
    exact ih _ _ _ _ _ _ second

theorem wordLen_mono {W a b : Nat} (hW : 0 < W) (h : a ≤ b) : wordLen W a ≤ wordLen W b :=
  wordLen_le_of_lt hW (Nat.lt_of_le_of_lt h (lt_two_pow_wordLen hW b))

/-- the cofactors used for `(x, y)` are `lehmer_guess` of the operands truncated at a common bit -/
theorem lehmerCofactors_aligned {W x y : Nat} (hW : 0 < W) (hxy : y ≤ x) (hy : 2 < wordLen W y) :
    ∃ lim fuel k, lehmerCofactors W x y = lehmerGuess lim fuel (x / 2 ^ k) (y / 2 ^ k) 1 0 0 1 := by
  have hx : 3 ≤ wordLen W x := by have := wordLen_mono hW hxy; omega
  unfold lehmerCofactors
  simp only []
  split
  · obtain ⟨k, hk⟩ := highestWordNormalized_eq hW hxy (by omega)
    rw [hk]; exact ⟨_, _, k, rfl⟩
  · obtain ⟨k, hk⟩ := highestDwordNormalized_eq hW hxy hx
    rw [hk]; exact ⟨_, _, k, rfl⟩

/-- no step of the real operands goes negative: `a·x − b·y ≥ 0`, `d·y − c·x ≥ 0` -/
theorem lehmerCofactors_nonneg {W x y : Nat} (hW : 0 < W) (hxy : y ≤ x) (hy : 2 < wordLen W y) :
    let r := lehmerCofactors W x y
    0 ≤ (r.1 : Int) * x - (r.2.1 : Int) * y ∧ 0 ≤ (r.2.2.2 : Int) * y - (r.2.2.1 : Int) * x := by
  obtain ⟨lim, gf, k, hcof⟩ := lehmerCofactors_aligned hW hxy hy
  have hinit : GuessInv (x / 2 ^ k) (y / 2 ^ k) (x / 2 ^ k) (y / 2 ^ k) 1 0 0 1 :=
    ⟨by norm_num, by simp, by simp, Nat.zero_le _, Nat.zero_le _⟩
  obtain ⟨xb, yb, hinv⟩ := lehmerGuess_inv lim (x / 2 ^ k) (y / 2 ^ k) gf _ _ 1 0 0 1 hinit
  show 0 ≤ ((lehmerCofactors W x y).1 : Int) * x - ((lehmerCofactors W x y).2.1 : Int) * y ∧
    0 ≤ ((lehmerCofactors W x y).2.2.2 : Int) * y - ((lehmerCofactors W x y).2.2.1 : Int) * x
  rw [hcof]
  exact guessInv_nonneg hinv

theorem lehmerGcdLoop_complete (W : Nat) (hW : 0 < W) :
    ∀ (fuel x y : Nat), y ≤ x → x + y < fuel → ∃ g, lehmerGcdLoop W fuel x y = .ok g := by
  intro fuel
  induction fuel with
  | zero => intro x y _ h; omega
  | succ n ih =>
    intro x y hxy hfuel
    unfold lehmerGcdLoop
    split
    · rename_i hlen
      have hy0 : 0 < y := by
        apply Nat.pos_of_ne_zero; intro h; subst h
        have : wordLen W 0 = 0 := by
          have h1 : wordLen W 0 = (W - 1) / W := by simp [wordLen, bitLen]
          rw [h1]; exact Nat.div_eq_of_lt (by omega)
        omega
      obtain ⟨lim, gf, k, hcof⟩ := lehmerCofactors_aligned hW hxy hlen
      have hinit : GuessProg x y k (x / 2 ^ k) (y / 2 ^ k) 1 0 0 1 := by
        refine ⟨⟨by norm_num, by simp, by simp, Nat.zero_le _, Nat.zero_le _⟩, by simp, by simp, ?_⟩
        intro _; exact ⟨rfl, rfl, rfl, rfl, rfl⟩
      obtain ⟨xb, yb, hprog⟩ := lehmerGuess_prog lim x y k hxy gf _ _ 1 0 0 1 hinit
      rw [← hcof] at hprog
      generalize lehmerCofactors W x y = cof at hprog
      obtain ⟨a, b, c, d⟩ := cof
      simp only [] at hprog ⊢
      obtain ⟨hinv, _, hsumb, _⟩ := hprog
      have hnn := guessInv_nonneg hinv
      split
      · -- Euclidean step
        have hmod : x % y ≤ x - y := by
          rw [Nat.mod_eq_sub_mod hxy]; exact Nat.mod_le _ _
        exact ih y (x % y) (Nat.le_of_lt (Nat.mod_lt _ hy0)) (by omega)
      · rename_i hb
        have hsum := hsumb hb
        rw [if_neg (by omega)]
        have e1 : (((a : Int) * x - (b : Int) * y).toNat : Int) = (a : Int) * x - (b : Int) * y :=
          Int.toNat_of_nonneg hnn.1
        have e2 : (((d : Int) * y - (c : Int) * x).toNat : Int) = (d : Int) * y - (c : Int) * x :=
          Int.toNat_of_nonneg hnn.2
        have hs : ((a : Int) * x - (b : Int) * y).toNat + ((d : Int) * y - (c : Int) * x).toNat ≤ x := by
          have : ((((a : Int) * x - (b : Int) * y).toNat + ((d : Int) * y - (c : Int) * x).toNat : Nat) : Int) ≤ x := by
            push_cast; rw [e1, e2]; exact hsum
          exact_mod_cast this
        split
        · rename_i hle
          exact ih _ _ hle (by omega)
        · rename_i hle
          exact ih _ _ (by omega) (by omega)
    · split
      · exact ⟨x, rfl⟩
      · rename_i hy0
        rw [gcdPrim_spec, if_neg (by omega)]
        exact ⟨_, rfl⟩

/-- **`gcd::gcd_in_place` is correct**: for `rhs ≤ lhs` the mirrored Lehmer loop returns, and what it
    returns is the gcd -/
theorem lehmerGcd_correct (W : Nat) (hW : 0 < W) (lhs rhs : Nat) (h : rhs ≤ lhs) :
    lehmerGcd W lhs rhs = .ok (Nat.gcd lhs rhs) := by
  obtain ⟨g, hg⟩ := lehmerGcdLoop_complete W hW (lhs + rhs + 1) lhs rhs h (by omega)
  unfold lehmerGcd
  rw [hg, lehmerGcdLoop_sound W _ lhs rhs g hg]

/-- `impl Gcd for TypedReprRef`, every kernel mirrored -/
theorem gcdReprM_spec (W : Nat) (hW : 0 < W) (a b : Nat) :
    gcdReprM W a b = if a = 0 ∧ b = 0 then .error .gcdZeroZero else .ok (Nat.gcd a b) := by
  have hp : 0 < 2 ^ (2 * W) := Nat.two_pow_pos _
  have hld : ∀ buf r, 2 ^ (2 * W) ≤ buf → gcdLargeDword buf r = .ok (Nat.gcd buf r) := by
    intro buf r hbuf
    unfold gcdLargeDword
    split
    · rename_i h; subst h; simp
    · rename_i h
      simp only []
      split
      · rename_i h0
        rw [Nat.gcd_comm, Nat.gcd_rec, h0, Nat.gcd_zero_left]
      · rename_i h0
        rw [gcdPrim_spec, if_neg (by omega), Nat.gcd_comm buf r, Nat.gcd_rec r buf]
  unfold gcdReprM
  simp only []
  by_cases ha : a < 2 ^ (2 * W) <;> by_cases hb : b < 2 ^ (2 * W) <;> simp only [ha, hb, decide_true, decide_false]
  · exact gcdPrim_spec a b
  · rw [hld b a (by omega), if_neg (by omega), Nat.gcd_comm]
  · rw [hld a b (by omega), if_neg (by omega)]
  · rw [if_neg (by omega)]
    unfold gcdLargeM
    split
    · rename_i h; subst h; simp
    · split
      · rename_i h1 h2; exact lehmerGcd_correct W hW a b (by omega)
      · rename_i h1 h2; rw [lehmerGcd_correct W hW b a (by omega), Nat.gcd_comm]

end Dashu.Model.NT
