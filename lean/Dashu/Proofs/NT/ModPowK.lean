import Dashu.Model.NT.ModPowK
import Dashu.Proofs.NT.ModLargeK
import Dashu.Proofs.NT.ModPowLarge
/-
  C13: `large::pow` on buffers (`powLK`) = the `%`-level `powL` on valid operands.
-/
namespace Dashu.Model.NT
open Dashu.Model

theorem oddPowTableG_value (W : Nat) (r : Ring) (raw sq : Nat) :
    ∀ cnt, oddPowTableG (mulNormalized W r) raw sq cnt = oddPowTable W r raw sq cnt := by
  intro cnt
  induction cnt with
  | zero => rfl
  | succ cnt ih =>
    simp only [oddPowTableG, oddPowTable, ih]
    generalize (oddPowTable W r raw sq cnt).getLast? = o
    cases o <;> rfl

theorem powWindowLoopG_value (W : Nat) (r : Ring) (exp wl : Nat) (table : List Nat) :
    ∀ fuel bit val, powWindowLoopG (fun v => mulNormalized W r v v) (mulNormalized W r) exp wl table fuel bit val
      = powWindowLoop W r exp wl table fuel bit val := by
  intro fuel
  induction fuel with
  | zero => intro bit val; rfl
  | succ fuel ih =>
    intro bit val
    simp only [powWindowLoopG, powWindowLoop, ih]

/-- instantiated with the `%`-level product, the generic loop IS `powL` -/
theorem powLG_value (W : Nat) (r : Ring) (raw exp : Nat) :
    powLG W r (fun v => mulNormalized W r v v) (mulNormalized W r) raw exp = powL W r raw exp := by
  unfold powLG powL
  simp only [oddPowTableG_value, powWindowLoopG_value]

section congr
variable {P : Nat → Prop} {sqr sqr' : Nat → Nat} {mul mul' : Nat → Nat → Nat}

theorem oddPowTableG_congr (hm : ∀ a b, P a → P b → mul a b = mul' a b) (hmP : ∀ a b, P a → P b → P (mul a b))
    {raw sq : Nat} (hraw : P raw) (hsq : P sq) :
    ∀ cnt, oddPowTableG mul raw sq cnt = oddPowTableG mul' raw sq cnt ∧ (∀ x ∈ oddPowTableG mul raw sq cnt, P x) := by
  intro cnt
  induction cnt with
  | zero => exact ⟨rfl, by intro x hx; cases hx⟩
  | succ cnt ih =>
    obtain ⟨ih1, ih2⟩ := ih
    simp only [oddPowTableG]
    rw [← ih1]
    cases hl : (oddPowTableG mul raw sq cnt).getLast? with
    | none =>
      refine ⟨rfl, ?_⟩
      intro x hx
      rcases List.mem_append.mp hx with h | h
      · exact ih2 x h
      · simp at h; subst h; exact hraw
    | some p =>
      have hp : P p := ih2 p (List.mem_of_getLast? hl)
      simp only []
      refine ⟨by rw [hm p sq hp hsq], ?_⟩
      intro x hx
      rcases List.mem_append.mp hx with h | h
      · exact ih2 x h
      · simp at h; subst h; exact hmP p sq hp hsq

theorem foldl_sqr_congr (hs : ∀ a, P a → sqr a = sqr' a) (hsP : ∀ a, P a → P (sqr a)) :
    ∀ (l : List Nat) (v : Nat), P v →
      l.foldl (fun v _ => sqr v) v = l.foldl (fun v _ => sqr' v) v ∧ P (l.foldl (fun v _ => sqr v) v) := by
  intro l
  induction l with
  | nil => intro v hv; exact ⟨rfl, hv⟩
  | cons x xs ih =>
    intro v hv
    simp only [List.foldl_cons]
    rw [← hs v hv]
    exact ih (sqr v) (hsP v hv)

theorem powWindowLoopG_congr (hs : ∀ a, P a → sqr a = sqr' a) (hsP : ∀ a, P a → P (sqr a))
    (hm : ∀ a b, P a → P b → mul a b = mul' a b) (hmP : ∀ a b, P a → P b → P (mul a b))
    (exp wl : Nat) {table : List Nat} (ht : ∀ x ∈ table, P x) (h0 : P 0) :
    ∀ fuel bit val, P val →
      powWindowLoopG sqr mul exp wl table fuel bit val = powWindowLoopG sqr' mul' exp wl table fuel bit val := by
  intro fuel
  induction fuel with
  | zero => intro bit val _; rfl
  | succ fuel ih =>
    intro bit val hv
    have hentry : ∀ i, P (table.getD i 0) := by
      intro i
      rw [List.getD_eq_getElem?_getD]
      cases hi : table[i]? with
      | none => exact h0
      | some x => exact ht x (List.mem_of_getElem? hi)
    simp only [powWindowLoopG]
    by_cases hb : exp.testBit bit
    · simp only [hb, if_true]
      obtain ⟨f1, f2⟩ := foldl_sqr_congr hs hsP
        (List.range (wl - trailingZeros ((exp * 2 ^ wl / 2 ^ (bit + 1)) % 2 ^ wl) - 1)) val hv
      rw [← f1, ← hm _ _ f2 (hentry _)]
      have hP2 := hmP _ _ f2 (hentry ((exp * 2 ^ wl / 2 ^ (bit + 1)) % 2 ^ wl /
        2 ^ (wl - (wl - trailingZeros ((exp * 2 ^ wl / 2 ^ (bit + 1)) % 2 ^ wl))) / 2))
      split
      · rfl
      · rw [← hs _ hP2]; exact ih _ _ (hsP _ hP2)
    · simp only [hb, Bool.false_eq_true, if_false]
      split
      · rfl
      · rw [← hs _ hv]; exact ih _ _ (hsP _ hv)

theorem powLG_congr (W : Nat) (r : Ring) (hs : ∀ a, P a → sqr a = sqr' a) (hsP : ∀ a, P a → P (sqr a))
    (hm : ∀ a b, P a → P b → mul a b = mul' a b) (hmP : ∀ a b, P a → P b → P (mul a b)) (h0 : P 0)
    {raw : Nat} (hraw : P raw) (exp : Nat) :
    powLG W r sqr mul raw exp = powLG W r sqr' mul' raw exp := by
  unfold powLG
  split
  · rfl
  · split
    · rfl
    · simp only []
      have hsq := hsP raw hraw
      obtain ⟨t1, t2⟩ := oddPowTableG_congr hm hmP hraw hsq (2 ^ (chooseWindowLen W (bitLen exp) - 1))
      rw [← hs raw hraw, ← t1]
      exact powWindowLoopG_congr hs hsP hm hmP exp _ t2 h0 _ _ _ hsq

end congr

theorem valid_zero {W : Nat} {r : Ring} (hwf : r.WF W) : Valid r 0 := ⟨0, hwf.mpos, by simp⟩

/-- **`large::pow` on buffers = the `%`-level windowed loop** on a valid base -/
theorem powLK_eq {W : Nat} {r : Ring} (hwf : r.WF W) (hW4 : 4 ≤ W) (hk : r.kind = .large) (hkW : r.k < W)
    {raw : Nat} (hraw : Valid r raw) (exp : Nat) : powLK W r raw exp = powL W r raw exp := by
  rw [← powLG_value]
  unfold powLK
  have hmv : ∀ a b, Valid r a → Valid r b → Valid r (mulNormalized W r a b) := by
    intro a b ⟨u, hu, ha⟩ ⟨v, hv, hb⟩
    subst ha; subst hb
    rw [mulNormalized_eq hwf hu hv]
    exact valid_mk hwf.mpos _
  symm
  apply powLG_congr (P := Valid r) W r
  · intro a ⟨u, _, ha⟩
    subst ha
    rw [mulNormalizedWordsL_eq hwf hW4 hk hkW true u _ (fun _ => rfl)]; rfl
  · intro a ha; exact hmv a a ha ha
  · intro a b ⟨u, _, ha⟩ _
    subst ha
    rw [mulNormalizedWordsL_eq hwf hW4 hk hkW false u b (fun h => by cases h)]; rfl
  · exact hmv
  · exact valid_zero hwf
  · exact hraw

theorem powRawKL_eq {W : Nat} {r : Ring} (hwf : r.WF W) (hW4 : r.kind = .large → 4 ≤ W)
    (hkW : r.kind = .large → r.k < W) {raw : Nat} (hraw : Valid r raw) (exp : Nat) :
    powRawKL W r raw exp = powRawK W r raw exp := by
  unfold powRawKL powRawK
  cases hk : r.kind with
  | large =>
    simp only []
    split
    · exact powLK_eq hwf (hW4 hk) hk (hkW hk) hraw exp
    · rfl
  | single => rfl
  | double => rfl

end Dashu.Model.NT
