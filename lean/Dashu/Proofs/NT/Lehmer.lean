import Dashu.Model.NT.Lehmer
import Dashu.Proofs.NT.GcdExt
import Dashu.Proofs.NT.BinGcd
/-
  C12: soundness of the mirrored `lehmer::gcd_in_place` loop — whatever cofactors `lehmer_guess`
  commits (they only depend on the leading words), every value the loop returns is the gcd.
-/
namespace Dashu.Model.NT
open Dashu.Model

theorem lehmerCofactors_det (W x y : Nat) :
    let r := lehmerCofactors W x y
    (r.1 : Int) * r.2.2.2 - r.2.1 * r.2.2.1 = 1 := by
  unfold lehmerCofactors
  simp only []
  split
  · exact lehmerGuess_det _ _ _ _ 1 0 0 1 (by norm_num)
  · exact lehmerGuess_det _ _ _ _ 1 0 0 1 (by norm_num)

theorem lehmerGcdLoop_sound (W : Nat) :
    ∀ (fuel x y g : Nat), lehmerGcdLoop W fuel x y = .ok g → g = Nat.gcd x y := by
  intro fuel
  induction fuel with
  | zero => intro x y g h; simp [lehmerGcdLoop] at h
  | succ n ih =>
    intro x y g h
    unfold lehmerGcdLoop at h
    split at h
    · -- a Lehmer or Euclidean step
      have hdet := lehmerCofactors_det W x y
      generalize lehmerCofactors W x y = cof at h hdet
      obtain ⟨a, b, c, d⟩ := cof
      simp only [] at h hdet
      split at h
      · rw [ih _ _ _ h, Nat.gcd_comm x y, Nat.gcd_rec y x, Nat.gcd_comm]
      · split at h
        · cases h
        · rename_i hneg
          have hx : 0 ≤ (a : Int) * x - (b : Int) * y := by omega
          have hy : 0 ≤ (d : Int) * y - (c : Int) * x := by omega
          have hstep := lehmerStep_gcd (x : Int) (y : Int) a b c d hdet
          unfold lehmerStep at hstep
          simp only [] at hstep
          have hnat : Nat.gcd ((a : Int) * x - (b : Int) * y).toNat ((d : Int) * y - (c : Int) * x).toNat
              = Nat.gcd x y := by
            have e1 : ((a : Int) * x - (b : Int) * y).toNat = ((a : Int) * x - (b : Int) * y).natAbs := by omega
            have e2 : ((d : Int) * y - (c : Int) * x).toNat = ((d : Int) * y - (c : Int) * x).natAbs := by omega
            rw [e1, e2]
            have : Int.gcd (x : Int) (y : Int) = Nat.gcd x y := by simp [Int.gcd]
            rw [← this, ← hstep]
            rfl
          split at h
          · rw [ih _ _ _ h, Nat.gcd_comm, hnat]
          · rw [ih _ _ _ h, hnat]
    · split at h
      · rename_i hy0
        cases h
        rw [hy0, Nat.gcd_zero_right]
      · rename_i hy0
        rw [gcdPrim_spec, if_neg (by omega)] at h
        cases h
        rw [Nat.gcd_comm x y, Nat.gcd_rec y x]

/-- `gcd::gcd_in_place`: a returned value is the gcd -/
theorem lehmerGcd_sound (W lhs rhs g : Nat) (h : lehmerGcd W lhs rhs = .ok g) : g = Nat.gcd lhs rhs :=
  lehmerGcdLoop_sound W _ lhs rhs g h

end Dashu.Model.NT
