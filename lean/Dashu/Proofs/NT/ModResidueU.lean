import Dashu.Proofs.NT.ModReducerU
/-
  C13 <-> C02 / C01 link for `Reducer<UBig>::residue` and `Reducer<UBig>::is_zero` (`integer/src/modular/reducer.rs`), round 8:
  the function that takes a pre-shifted `UBig` back to the residue, written on C01's MIRRORED `UBig` representation
  (`TRepr`, `Repr::from_word / from_dword` = inline, `Repr::from_buffer` = `fromBuffer`) and C02's MIRRORED
  `shift::shr_in_place` (`Div.shrInPlace`), with `shrink_dword(dw).unwrap()`, the overflow check of `>>`,
  `debug_assert_zero!(shr_in_place(..))` and `unreachable!()` as error values.  The driver prints the residue as
  `t / 2 ^ r.k`; this definition is tied to that value by the theorem only (no driver change in round 8).
-/
namespace Dashu.Model.NT
open Dashu.Model

/-- `Reducer::residue(&self, target: UBig)`:
    `Small(dw)` ⇒ `Single: from_word(shrink_dword(dw).unwrap() >> shift)`, `Double | Large: from_dword(dw >> shift)`;
    `Large(buffer)` ⇒ in a multi-word ring `debug_assert_zero!(shr_in_place(&mut buffer, d.shift)); from_buffer(buffer)`,
    otherwise `unreachable!()`.  `>>` by at least the bit width is an overflow panic. -/
def rResidueU (W : Nat) (r : Ring) (t : TRepr) : Except PanicKind TRepr :=
  match t with
  | .small dw =>
    match r.kind with
    | .single =>
      if dw < 2 ^ W then
        if r.k < W then .ok (.small (dw / 2 ^ r.k)) else .error (.undocumented "reducer.rs: word >> shift overflows")
      else .error (.undocumented "reducer.rs: shrink_dword(dw).unwrap() on None")
    | _ =>
      if r.k < 2 * W then .ok (.small (dw / 2 ^ r.k)) else .error (.undocumented "reducer.rs: dword >> shift overflows")
  | .large buffer =>
    match r.kind with
    | .large =>
      let (ws, c) := Div.shrInPlace W buffer r.k
      if c = 0 then .ok (fromBuffer W ws) else .error (.undocumented "reducer.rs: debug_assert_zero!(shr_in_place)")
    | _ => .error (.undocumented "reducer.rs: unreachable!()")

/-- `Reducer::is_zero(&self, target: &UBig)`: `target.is_zero()` -/
def rIsZeroU (t : TRepr) : Bool := t.isZero

-- ---------------------------------------------------------------- proofs

theorem Ring.k_lt_bits {W : Nat} {r : Ring} (hwf : r.WF W) : r.k < W * r.n := by
  have h1 : 2 ^ r.k ≤ r.M := Nat.le_mul_of_pos_left _ hwf.mpos
  have h2 := hwf.Mlt
  exact (Nat.pow_lt_pow_iff_right (by omega : 1 < 2)).mp (Nat.lt_of_le_of_lt h1 h2)

/-- `residue` on the representation: no `unwrap`, shift overflow, shifted-out bit or `unreachable!()` on a checked operand;
    the result is canonical and is the quotient by `2^shift` -/
theorem rResidueU_spec {W : Nat} {r : Ring} (hwf : r.WF W) (hkW : r.kind = .large → r.k ≤ W) {t : TRepr} (ht : t.Canon W)
    (hv : Valid r (t.value W)) :
    ∃ c, rResidueU W r t = .ok c ∧ c.Canon W ∧ c.value W = t.value W / 2 ^ r.k := by
  have hW : 1 ≤ W := hwf.hW
  have hMlt := hwf.Mlt
  have hkb := Ring.k_lt_bits hwf
  obtain ⟨k1, k2, k3⟩ := hwf.kind_n
  obtain ⟨u, hu, eu⟩ := hv
  have hp : 0 < 2 ^ r.k := Nat.two_pow_pos _
  have hM : r.M = r.m * 2 ^ r.k := rfl
  have hlt : t.value W < r.M := by rw [eu, hM]; exact Nat.mul_lt_mul_of_pos_right hu hp
  have hpw : 2 ^ W ≤ 2 ^ (2 * W) := Nat.pow_le_pow_right (by omega) (by omega)
  unfold rResidueU
  cases t with
  | small dw =>
    have hd : dw < 2 ^ (2 * W) := ht
    simp only [TRepr.value] at hlt eu ⊢
    have hq : dw / 2 ^ r.k < 2 ^ (2 * W) := Nat.lt_of_le_of_lt (Nat.div_le_self _ _) hd
    cases hk : r.kind with
    | single =>
      have hn := k1 hk
      rw [hn, Nat.mul_one] at hMlt hkb
      have : dw < 2 ^ W := by omega
      simp only [this, hkb, if_true]
      exact ⟨_, rfl, hq, rfl⟩
    | double =>
      have hn := k2 hk
      rw [hn, Nat.mul_comm] at hkb
      simp only [hkb, if_true]
      exact ⟨_, rfl, hq, rfl⟩
    | large =>
      have := hkW hk
      have : r.k < 2 * W := by omega
      simp only [this, if_true]
      exact ⟨_, rfl, hq, rfl⟩
  | large ws =>
    have hge := ht.large_ge
    simp only [TRepr.value] at hlt eu
    cases hk : r.kind with
    | single =>
      exfalso
      have hn := k1 hk
      rw [hn, Nat.mul_one] at hMlt
      omega
    | double =>
      exfalso
      have hn := k2 hk
      rw [hn, two_mul_comm_pow] at hMlt
      omega
    | large =>
      obtain ⟨k', e1, e2, e3, e4, e5⟩ := Div.shrInPlace_spec W r.k (hkW hk) ws ht.2.1
      have hk0 : k' = 0 := by
        have h1 : (val W (Div.shrInPlace W ws r.k).1 * 2 ^ r.k + k') % 2 ^ r.k = 0 := by
          rw [e3, eu]; exact Nat.mul_mod_left _ _
        rw [Nat.mul_add_mod_self_right, Nat.mod_eq_of_lt e2] at h1
        exact h1
      subst hk0
      have hc : (Div.shrInPlace W ws r.k).2 = 0 := by rw [e1]; simp
      have hval : val W (Div.shrInPlace W ws r.k).1 = val W ws / 2 ^ r.k := by
        rw [← e3, Nat.add_zero, Nat.mul_div_cancel _ hp]
      simp only [hc, if_true]
      exact ⟨_, rfl, fromBuffer_canon W _ e5, by rw [fromBuffer_value, hval]; rfl⟩

end Dashu.Model.NT
