import Dashu.Proofs.NT.Modular
import Dashu.Proofs.Int.NumModular
/-
  C13: the `%` by the normalised divisor that the ring model uses for single- and double-word rings is
  what num-modular's mirrored `div_rem_2by1 / 4by2` (Möller–Granlund; builder-div's
  `Dashu.Model.NumModular`, proved equal to floor division under the crate's precondition) return at
  exactly the arguments dashu passes — in particular the precondition "high part < divisor" holds at
  every such call site.
-/
namespace Dashu.Model.NT
open Dashu.Model

theorem single_facts {W : Nat} {r : Ring} (hwf : r.WF W) (hn : r.n = 1) :
    2 ^ W ≤ 2 * r.M ∧ r.M < 2 ^ W ∧ r.m ≤ r.M ∧ 2 ^ r.k ≤ r.M := by
  have h1 := hwf.Mlt; have h2 := hwf.Mge
  rw [hn, Nat.mul_one] at h1 h2
  have hp : 0 < 2 ^ r.k := Nat.two_pow_pos _
  refine ⟨h2, h1, ?_, ?_⟩
  · exact Nat.le_mul_of_pos_right _ hp
  · have := hwf.mpos; unfold Ring.M; exact Nat.le_mul_of_pos_left _ this

/-- single-word ring: `rem_word` (shift ≠ 0), `mul` and `sqr` call `div_rem_2by1` inside its
    precondition, and the mirrored algorithm returns the remainder the model uses -/
theorem single_ring_calls {W : Nat} {r : Ring} (hwf : r.WF W) (hn : r.n = 1) :
    (∀ x, x < 2 ^ W →
        (NumModular.div2by1 W r.M (NumModular.invertWord W r.M) (x * 2 ^ r.k)).2 = (x * 2 ^ r.k) % r.M) ∧
    (∀ u v, u < r.m → v < r.m →
        (NumModular.div2by1 W r.M (NumModular.invertWord W r.M) ((u * 2 ^ r.k) / 2 ^ r.k * (v * 2 ^ r.k))).2
          = ((u * 2 ^ r.k) / 2 ^ r.k * (v * 2 ^ r.k)) % r.M) ∧
    (∀ u, u < r.m →
        (NumModular.div2by1 W r.M (NumModular.invertWord W r.M) ((u * 2 ^ r.k) * (u * 2 ^ r.k) / 2 ^ r.k)).2
          = ((u * 2 ^ r.k) * (u * 2 ^ r.k) / 2 ^ r.k) % r.M) := by
  obtain ⟨hd1, hd2, hmM, hkM⟩ := single_facts hwf hn
  have hW : 1 ≤ W := hwf.hW
  have hp : 0 < 2 ^ r.k := Nat.two_pow_pos _
  have hpW : 0 < 2 ^ W := Nat.two_pow_pos _
  refine ⟨fun x hx => ?_, fun u v hu hv => ?_, fun u hu => ?_⟩
  · rw [NumModular.div2by1_spec W r.M _ hW hd1 hd2]
    apply Nat.lt_of_lt_of_le _ hkM
    rw [Nat.div_lt_iff_lt_mul hpW, Nat.mul_comm (2 ^ r.k)]
    exact Nat.mul_lt_mul_of_pos_right hx hp
  · rw [NumModular.div2by1_spec W r.M _ hW hd1 hd2]
    rw [Nat.mul_div_cancel _ hp, Nat.div_lt_iff_lt_mul hpW]
    have hvM : v * 2 ^ r.k < r.M := by unfold Ring.M; exact Nat.mul_lt_mul_of_pos_right hv hp
    calc u * (v * 2 ^ r.k) < 2 ^ W * r.M := Nat.mul_lt_mul'' (by omega) hvM
      _ = r.M * 2 ^ W := Nat.mul_comm _ _
  · rw [NumModular.div2by1_spec W r.M _ hW hd1 hd2]
    have e : (u * 2 ^ r.k) * (u * 2 ^ r.k) / 2 ^ r.k = u * (u * 2 ^ r.k) := by
      have : (u * 2 ^ r.k) * (u * 2 ^ r.k) = (u * (u * 2 ^ r.k)) * 2 ^ r.k := by ring
      rw [this, Nat.mul_div_cancel _ hp]
    rw [e, Nat.div_lt_iff_lt_mul hpW]
    have huM : u * 2 ^ r.k < r.M := by unfold Ring.M; exact Nat.mul_lt_mul_of_pos_right hu hp
    calc u * (u * 2 ^ r.k) < 2 ^ W * r.M := Nat.mul_lt_mul'' (by omega) huM
      _ = r.M * 2 ^ W := Nat.mul_comm _ _

/-- double-word ring: `mul` and `sqr` call `div_rem_4by2(lo, hi)` with `hi < M` -/
theorem double_ring_calls {W : Nat} {r : Ring} (hwf : r.WF W) (hn : r.n = 2) :
    (∀ u v, u < r.m → v < r.m →
        let p := (u * 2 ^ r.k) / 2 ^ r.k * (v * 2 ^ r.k)
        (NumModular.div4by2 W r.M (NumModular.invertDoubleWord W r.M) (p % 2 ^ (2 * W)) (p / 2 ^ (2 * W))).2
          = p % r.M) ∧
    (∀ u, u < r.m →
        let p := (u * 2 ^ r.k) * (u * 2 ^ r.k) / 2 ^ r.k
        (NumModular.div4by2 W r.M (NumModular.invertDoubleWord W r.M) (p % 2 ^ (2 * W)) (p / 2 ^ (2 * W))).2
          = p % r.M) := by
  have h1 := hwf.Mlt; have h2 := hwf.Mge
  rw [hn, Nat.mul_comm W 2] at h1 h2
  have hW : 1 ≤ W := hwf.hW
  have hp : 0 < 2 ^ r.k := Nat.two_pow_pos _
  have hp2 : 0 < 2 ^ (2 * W) := Nat.two_pow_pos _
  have hmM : r.m ≤ r.M := Nat.le_mul_of_pos_right _ hp
  have key : ∀ u x, u < r.m → x < r.M →
      (NumModular.div4by2 W r.M (NumModular.invertDoubleWord W r.M) ((u * x) % 2 ^ (2 * W)) ((u * x) / 2 ^ (2 * W))).2
        = (u * x) % r.M := by
    intro u x hu hx
    have hhi : (u * x) / 2 ^ (2 * W) < r.M := by
      rw [Nat.div_lt_iff_lt_mul hp2]
      calc u * x < 2 ^ (2 * W) * r.M := Nat.mul_lt_mul'' (by omega) hx
        _ = r.M * 2 ^ (2 * W) := Nat.mul_comm _ _
    rw [NumModular.div4by2_spec W r.M _ _ hW h2 h1 (Nat.mod_lt _ hp2) hhi, Nat.mod_add_div]
  refine ⟨fun u v hu hv => ?_, fun u hu => ?_⟩
  · simp only [Nat.mul_div_cancel _ hp]
    exact key u _ hu (by unfold Ring.M; exact Nat.mul_lt_mul_of_pos_right hv hp)
  · have e : (u * 2 ^ r.k) * (u * 2 ^ r.k) / 2 ^ r.k = u * (u * 2 ^ r.k) := by
      have : (u * 2 ^ r.k) * (u * 2 ^ r.k) = (u * (u * 2 ^ r.k)) * 2 ^ r.k := by ring
      rw [this, Nat.mul_div_cancel _ hp]
    simp only [e]
    exact key u _ hu (by unfold Ring.M; exact Nat.mul_lt_mul_of_pos_right hu hp)

end Dashu.Model.NT
