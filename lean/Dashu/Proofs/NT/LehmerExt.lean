import Dashu.Proofs.NT.LehmerComplete
import Mathlib.Tactic.LinearCombination
/-
  C12: the mirrored `lehmer::gcd_ext_in_place` (Lehmer's loop with cofactor tracking) always returns
  and meets `LehmerExtContract` — the extended gcd of multi-word operands has no assumed kernel.
-/
namespace Dashu.Model.NT
open Dashu.Model

/-- sign carried by the `swapped` flag -/
def extSigma (sw : Bool) : Int := if sw then -1 else 1

theorem extSigma_not (sw : Bool) : extSigma (!sw) = - extSigma sw := by
  cases sw <;> simp [extSigma]

/-- loop invariant of `gcd_ext_in_place`: `x ≡ −σ·t0·rhs`, `y ≡ σ·t1·rhs (mod lhs)` -/
def ExtInv (lhs rhs x y t0 t1 : Nat) (sw : Bool) : Prop :=
  Nat.gcd x y = Nat.gcd lhs rhs ∧
  (lhs : Int) ∣ x + extSigma sw * t0 * rhs ∧
  (lhs : Int) ∣ y - extSigma sw * t1 * rhs

/-- generalisation of `lehmerCofactors_aligned` to `y` of two words -/
theorem lehmerCofactors_aligned' {W x y : Nat} (hW : 0 < W) (hxy : y ≤ x) (hy : 1 < wordLen W y) :
    ∃ lim fuel k, lehmerCofactors W x y = lehmerGuess lim fuel (x / 2 ^ k) (y / 2 ^ k) 1 0 0 1 := by
  have hx : 2 ≤ wordLen W x := by have := wordLen_mono hW hxy; omega
  unfold lehmerCofactors
  simp only []
  split
  · obtain ⟨k, hk⟩ := highestWordNormalized_eq hW hxy hx
    rw [hk]; exact ⟨_, _, k, rfl⟩
  · rename_i h300
    obtain ⟨k, hk⟩ := highestDwordNormalized_eq hW hxy (by unfold minDwordGuessLen at h300; omega)
    rw [hk]; exact ⟨_, _, k, rfl⟩

theorem wordLen_zero {W : Nat} (hW : 0 < W) : wordLen W 0 = 0 := by
  have h1 : wordLen W 0 = (W - 1) / W := by simp [wordLen, bitLen]
  rw [h1]; exact Nat.div_eq_of_lt (by omega)

theorem mod_cast_eq (x y : Nat) : ((x % y : Nat) : Int) = x - ((x / y : Nat) : Int) * y := by
  have := Nat.div_add_mod x y
  generalize x / y = q at *
  generalize x % y = r at *
  have h2 : ((y * q + r : Nat) : Int) = x := by exact_mod_cast this
  push_cast at h2; linarith

theorem lehmerExtLoop_correct (W : Nat) (hW : 0 < W) (lhs rhs : Nat) :
    ∀ (fuel x y t0 t1 : Nat) (sw : Bool), y ≤ x → x + y < fuel → ExtInv lhs rhs x y t0 t1 sw →
      ∃ x' y' t0' t1' sw', lehmerExtLoop W fuel x y t0 t1 sw = .ok (x', y', t0', t1', sw') ∧
        y' ≤ x' ∧ wordLen W y' ≤ 1 ∧ ExtInv lhs rhs x' y' t0' t1' sw' := by
  intro fuel
  induction fuel with
  | zero => intro x y _ _ _ _ h; omega
  | succ n ih =>
    intro x y t0 t1 sw hxy hfuel hinv
    unfold lehmerExtLoop
    split
    · rename_i hlen
      have hy0 : 0 < y := by
        apply Nat.pos_of_ne_zero; intro h; subst h
        rw [wordLen_zero hW] at hlen; omega
      obtain ⟨lim, gf, k, hcof⟩ := lehmerCofactors_aligned' hW hxy hlen
      have hinit : GuessProg x y k (x / 2 ^ k) (y / 2 ^ k) 1 0 0 1 := by
        refine ⟨⟨by norm_num, by simp, by simp, Nat.zero_le _, Nat.zero_le _⟩, by simp, by simp, ?_⟩
        intro _; exact ⟨rfl, rfl, rfl, rfl, rfl⟩
      obtain ⟨xb, yb, hprog⟩ := lehmerGuess_prog lim x y k hxy gf _ _ 1 0 0 1 hinit
      have hdet := lehmerCofactors_det W x y
      rw [← hcof] at hprog
      generalize lehmerCofactors W x y = cof at hprog hdet
      obtain ⟨a, b, c, d⟩ := cof
      simp only [] at hprog hdet ⊢
      obtain ⟨hginv, _, hsumb, _⟩ := hprog
      have hnn := guessInv_nonneg hginv
      obtain ⟨hg, ⟨u, hu⟩, ⟨v, hv⟩⟩ := hinv
      split
      · -- Euclidean step
        have hmod : x % y ≤ x - y := by
          rw [Nat.mod_eq_sub_mod hxy]; exact Nat.mod_le _ _
        apply ih y (x % y) _ _ _ (Nat.le_of_lt (Nat.mod_lt _ hy0)) (by omega)
        refine ⟨?_, ?_, ?_⟩
        · rw [← hg, Nat.gcd_comm x y, Nat.gcd_rec y x, Nat.gcd_comm]
        · rw [extSigma_not]
          exact ⟨v, by linear_combination hv⟩
        · rw [extSigma_not]
          have hxm := mod_cast_eq x y
          generalize x / y = q at hxm ⊢
          refine ⟨u - (q : Int) * v, ?_⟩
          rw [hxm]; push_cast
          linear_combination hu - (q : Int) * hv
      · rename_i hb
        have hsum := hsumb hb
        rw [if_neg (by omega)]
        have e1 : (((a : Int) * x - (b : Int) * y).toNat : Int) = (a : Int) * x - (b : Int) * y :=
          Int.toNat_of_nonneg hnn.1
        have e2 : (((d : Int) * y - (c : Int) * x).toNat : Int) = (d : Int) * y - (c : Int) * x :=
          Int.toNat_of_nonneg hnn.2
        have hs : ((a : Int) * x - (b : Int) * y).toNat + ((d : Int) * y - (c : Int) * x).toNat ≤ x := by
          have : ((((a : Int) * x - (b : Int) * y).toNat + ((d : Int) * y - (c : Int) * x).toNat : Nat) : Int) ≤ x := by
            push_cast; rw [e1, e2]; exact hsum
          exact_mod_cast this
        have hstep := lehmerStep_gcd (x : Int) (y : Int) a b c d hdet
        unfold lehmerStep at hstep
        simp only [] at hstep
        have hnat : Nat.gcd ((a : Int) * x - (b : Int) * y).toNat ((d : Int) * y - (c : Int) * x).toNat
            = Nat.gcd x y := by
          have f1 : ((a : Int) * x - (b : Int) * y).toNat = ((a : Int) * x - (b : Int) * y).natAbs := by omega
          have f2 : ((d : Int) * y - (c : Int) * x).toNat = ((d : Int) * y - (c : Int) * x).natAbs := by omega
          rw [f1, f2]
          have : Int.gcd (x : Int) (y : Int) = Nat.gcd x y := by simp [Int.gcd]
          rw [← this, ← hstep]
          rfl
        have dx : (lhs : Int) ∣ (((a : Int) * x - (b : Int) * y).toNat : Int)
            + extSigma sw * ((a * t0 + b * t1 : Nat) : Int) * rhs := by
          refine ⟨a * u - b * v, ?_⟩
          rw [e1]; push_cast
          linear_combination (a : Int) * hu - (b : Int) * hv
        have dy : (lhs : Int) ∣ (((d : Int) * y - (c : Int) * x).toNat : Int)
            - extSigma sw * ((c * t0 + d * t1 : Nat) : Int) * rhs := by
          refine ⟨d * v - c * u, ?_⟩
          rw [e2]; push_cast
          linear_combination (d : Int) * hv - (c : Int) * hu
        split
        · rename_i hle
          apply ih _ _ _ _ _ hle (by omega)
          refine ⟨by rw [Nat.gcd_comm, hnat, hg], ?_, ?_⟩
          · rw [extSigma_not]
            obtain ⟨w, hw⟩ := dy
            exact ⟨w, by linear_combination hw⟩
          · rw [extSigma_not]
            obtain ⟨w, hw⟩ := dx
            exact ⟨w, by linear_combination hw⟩
        · rename_i hle
          apply ih _ _ _ _ _ (by omega) (by omega)
          exact ⟨by rw [hnat, hg], dx, dy⟩
    · rename_i hlen
      exact ⟨x, y, t0, t1, sw, rfl, hxy, by omega, hinv⟩

/-- from the congruence `g ≡ ±B·rhs (mod lhs)` to the contract of the kernel -/
theorem contract_of_dvd {lhs rhs g B : Nat} {neg : Bool} (hg : g = Nat.gcd lhs rhs) (h0 : 0 < rhs)
    (hlt : rhs < lhs) (hd : (lhs : Int) ∣ g - (if neg then -(B : Int) else B) * rhs) :
    LehmerExtContract lhs rhs (g, B, neg) := by
  refine ⟨hg, ?_⟩
  have hgle : g ≤ rhs := by rw [hg]; exact Nat.gcd_le_right _ h0
  cases neg
  · simp only [Bool.false_eq_true, if_false] at hd ⊢
    have hle : g ≤ rhs * B := by
      by_contra hcon
      have hpos : 0 < g - rhs * B := by omega
      have : (lhs : Int) ∣ ((g - rhs * B : Nat) : Int) := by
        rw [Nat.cast_sub (by omega)]; push_cast
        obtain ⟨w, hw⟩ := hd
        exact ⟨w, by linear_combination hw⟩
      have := Nat.le_of_dvd hpos (Int.natCast_dvd_natCast.mp this)
      omega
    refine ⟨hle, ?_⟩
    apply Int.natCast_dvd_natCast.mp
    rw [Nat.cast_sub hle]; push_cast
    obtain ⟨w, hw⟩ := hd
    exact ⟨-w, by linear_combination -hw⟩
  · simp only [if_true] at hd ⊢
    apply Int.natCast_dvd_natCast.mp
    push_cast
    obtain ⟨w, hw⟩ := hd
    exact ⟨w, by linear_combination hw⟩

/-- **`gcd::gcd_ext_in_place` is correct**: for `0 < rhs < lhs` the mirrored loop (with the final
    single-word `gcd_ext`) returns, and the result satisfies the contract the post-processing uses -/
theorem lehmerExt_correct (W : Nat) (hW : 0 < W) (lhs rhs : Nat) (h0 : 0 < rhs) (hlt : rhs < lhs) :
    ∃ res, lehmerExt W lhs rhs = .ok res ∧ LehmerExtContract lhs rhs res := by
  have hinit : ExtInv lhs rhs lhs rhs 0 1 false := by
    refine ⟨rfl, ⟨1, by simp [extSigma]⟩, ⟨0, by simp [extSigma]⟩⟩
  obtain ⟨x, y, t0, t1, sw, hloop, hyx, hlen, hg, ⟨u, hu⟩, ⟨v, hv⟩⟩ :=
    lehmerExtLoop_correct W hW lhs rhs (lhs + rhs + 1) lhs rhs 0 1 false (by omega) (by omega) hinit
  unfold lehmerExt
  rw [hloop]
  simp only []
  split
  · rename_i hy; subst hy
    refine ⟨_, rfl, ?_⟩
    apply contract_of_dvd (by rw [← hg, Nat.gcd_zero_right]) h0 hlt
    cases sw
    · simp only [Bool.not_false, if_true]
      exact ⟨u, by simp only [extSigma, Bool.false_eq_true, if_false] at hu; linear_combination hu⟩
    · simp only [Bool.not_true, Bool.false_eq_true, if_false]
      exact ⟨u, by simp only [extSigma, if_true] at hu; linear_combination hu⟩
  · rename_i hy
    obtain ⟨pr, hpr, hx1, hx2, hx3⟩ := (xgcdPrim_spec (x % y) y).2 (by omega)
    rw [hpr]
    obtain ⟨g, cx, cy⟩ := pr
    simp only [] at hx1 hx2 hx3 ⊢
    refine ⟨_, rfl, ?_⟩
    have hgg : g = Nat.gcd lhs rhs := by
      rw [hx1, ← hg, Nat.gcd_comm x y, Nat.gcd_rec y x]
    apply contract_of_dvd hgg h0 hlt
    have hxm := mod_cast_eq x y
    rw [hxm] at hx2
    generalize x / y = q at hx2 ⊢
    -- g = (x − q·y)·cx + y·cy with x = lhs·u − σ·t0·rhs, y = lhs·v + σ·t1·rhs
    by_cases hf : cx < 0 ∨ (cx = 0 ∧ cy > 0)
    · have hcx : |cx| = -cx := abs_of_nonpos (by omega)
      have hcy : |cy| = cy := abs_of_nonneg (by omega)
      have hflag : (decide (cx < 0) || (decide (cx = 0) && decide (cy > 0))) = true := by
        rcases hf with h1 | ⟨h1, h2⟩
        · simp [h1]
        · simp [h1, h2]
      rw [hflag]
      cases sw
      · simp only [extSigma, Bool.false_eq_true, if_false] at hu hv
        show (lhs : Int) ∣ g - (if (!(false != true)) = true then -((cx.natAbs * (t0 + q * t1) + cy.natAbs * t1 : Nat) : Int)
          else ((cx.natAbs * (t0 + q * t1) + cy.natAbs * t1 : Nat) : Int)) * rhs
        simp only [Bool.false_bne, Bool.not_true, Bool.false_eq_true, if_false]
        push_cast; rw [hcx, hcy, hx2]
        exact ⟨cx * u - q * cx * v + cy * v, by linear_combination cx * hu - (q * cx) * hv + cy * hv⟩
      · simp only [extSigma, if_true] at hu hv
        show (lhs : Int) ∣ g - (if (!(true != true)) = true then -((cx.natAbs * (t0 + q * t1) + cy.natAbs * t1 : Nat) : Int)
          else ((cx.natAbs * (t0 + q * t1) + cy.natAbs * t1 : Nat) : Int)) * rhs
        simp only [bne_self_eq_false, Bool.not_false, if_true]
        push_cast; rw [hcx, hcy, hx2]
        exact ⟨cx * u - q * cx * v + cy * v, by linear_combination cx * hu - (q * cx) * hv + cy * hv⟩
    · have hcx : |cx| = cx := abs_of_nonneg (by omega)
      have hcy : |cy| = -cy := abs_of_nonpos (by omega)
      have hflag : (decide (cx < 0) || (decide (cx = 0) && decide (cy > 0))) = false := by
        by_cases h1 : cx < 0
        · exact absurd (Or.inl h1) hf
        · by_cases h2 : cx = 0
          · have : ¬ cy > 0 := fun h3 => hf (Or.inr ⟨h2, h3⟩)
            simp [h2, this]
          · simp [h1, h2]
      rw [hflag]
      cases sw
      · simp only [extSigma, Bool.false_eq_true, if_false] at hu hv
        show (lhs : Int) ∣ g - (if (!(false != false)) = true then -((cx.natAbs * (t0 + q * t1) + cy.natAbs * t1 : Nat) : Int)
          else ((cx.natAbs * (t0 + q * t1) + cy.natAbs * t1 : Nat) : Int)) * rhs
        simp only [bne_self_eq_false, Bool.not_false, if_true]
        push_cast; rw [hcx, hcy, hx2]
        exact ⟨cx * u - q * cx * v + cy * v, by linear_combination cx * hu - (q * cx) * hv + cy * hv⟩
      · simp only [extSigma, if_true] at hu hv
        show (lhs : Int) ∣ g - (if (!(true != false)) = true then -((cx.natAbs * (t0 + q * t1) + cy.natAbs * t1 : Nat) : Int)
          else ((cx.natAbs * (t0 + q * t1) + cy.natAbs * t1 : Nat) : Int)) * rhs
        simp only [Bool.true_bne, Bool.not_false, Bool.not_true, Bool.false_eq_true, if_false]
        push_cast; rw [hcx, hcy, hx2]
        exact ⟨cx * u - q * cx * v + cy * v, by linear_combination cx * hu - (q * cx) * hv + cy * hv⟩

end Dashu.Model.NT
