import Dashu.Proofs.NT.PrimRootU128Cbrt
/-
  C12 (Round 5): `<u128 as NormalizedRootRem>::normalized_cbrt_rem` adds NO overflow of its own: it answers on every
  normalised value on which the `u64` routine answers on the high part; the `while r < 0` descent needs at most 8 steps.
-/
namespace Dashu.Model.NT
open Dashu.Model

/-- the descent answers when the start value is at most `fuel` above the floor root -/
theorem cbrtDownLoop_total {n s : Nat} (hs : IsRoot n 3 s) : ∀ (fuel c : Nat) (r : Int),
    ((c : Int) ^ 3 + r = n) → s ≤ c → c ≤ s + fuel → ∃ res, cbrtDownLoop fuel c r = some res := by
  have down : ∀ (c : Nat) (r : Int), ((c : Int) ^ 3 + r = n) → r < 0 → s < c := by
    intro c r hinv hr
    by_contra hle
    have h1 : c ^ 3 ≤ s ^ 3 := Nat.pow_le_pow_left (by omega) 3
    have h2 := hs.1
    have : ((c ^ 3 : Nat) : Int) ≤ n := by exact_mod_cast Nat.le_trans h1 h2
    push_cast at this
    omega
  intro fuel
  induction fuel with
  | zero =>
    intro c r hinv hsc hcs
    unfold cbrtDownLoop
    split
    · rename_i hr
      have := down c r hinv hr
      omega
    · exact ⟨_, rfl⟩
  | succ fuel ih =>
    intro c r hinv hsc hcs
    unfold cbrtDownLoop
    split
    · rename_i hr
      have hlt := down c r hinv hr
      rw [if_neg (by omega)]
      refine ih (c - 1) _ ?_ (by omega) (by omega)
      have e : ((c - 1 : Nat) : Int) = (c : Int) - 1 := by omega
      rw [e, ← hinv]; ring
    · exact ⟨_, rfl⟩

/-- the candidate is at most 8 above the root: `(c1·B + q')³ ≤ c1³·B³ + 3·c1²·B²·(q' + 8)` for `q' ≤ B ≤ 7·c1` -/
theorem cbrt_descent_bound {c1 B q' : Nat} (hB : B ≤ 7 * c1) (hc : 3 ≤ c1) (hq : q' ≤ B) :
    (c1 * B + q') ^ 3 ≤ c1 ^ 3 * B ^ 3 + 3 * c1 ^ 2 * B ^ 2 * (q' + 8) := by
  have h1 : q' ^ 2 ≤ B ^ 2 := Nat.pow_le_pow_left hq 2
  have h2 : q' ^ 3 ≤ B ^ 3 := Nat.pow_le_pow_left hq 3
  have h3 : B * (3 * c1 + 1) ≤ 24 * c1 ^ 2 := by nlinarith
  have h4 : 3 * c1 * B * q' ^ 2 ≤ 3 * c1 * B * B ^ 2 := Nat.mul_le_mul_left _ h1
  have h5 : B ^ 2 * (B * (3 * c1 + 1)) ≤ B ^ 2 * (24 * c1 ^ 2) := Nat.mul_le_mul_left _ h3
  nlinarith [h2, h4, h5]

/-- the high part answers when the `u64` routine answers on normalised operands -/
theorem normCbrtU128_high_total {n : Nat} (hlo : 2 ^ 125 ≤ n) (hhi : n < 2 ^ 128)
    (h64 : ∀ y, 2 ^ 61 ≤ y → y < 2 ^ 64 → ∃ r, normCbrtU64 y = some r) :
    ∃ cr, (if n < 2 ^ 127 then do
            let a : Nat := n / 2 ^ 63 % 2 ^ 64
            let (c, _) ← normCbrtU64 a
            let c : Nat := c / 2
            let c3 ← ck 64 (c * c)
            let c3 ← ck 64 (c3 * c)
            let r ← ck 64 (((a / 2 ^ 3 : Nat) : Int) - c3)
            pure (c, r)
          else normCbrtU64 (n / 2 ^ 66 % 2 ^ 64)) = some cr := by
  split
  · rename_i hlt
    have ha : n / 2 ^ 63 % 2 ^ 64 = n / 2 ^ 63 := by
      simp only [Nat.reducePow] at hlt ⊢; omega
    have ha1 : 2 ^ 61 ≤ n / 2 ^ 63 := by
      rw [Nat.le_div_iff_mul_le (Nat.two_pow_pos _), ← Nat.pow_add]
      exact Nat.le_trans (Nat.pow_le_pow_right (by decide) (by decide)) hlo
    have ha2 : n / 2 ^ 63 < 2 ^ 64 := by
      rw [Nat.div_lt_iff_lt_mul (Nat.two_pow_pos _), ← Nat.pow_add]; exact hlt
    obtain ⟨⟨c, r0⟩, hc⟩ := h64 _ ha1 ha2
    obtain ⟨hroot, _⟩ := normCbrtU64_sound _ _ hc
    simp only [] at hroot
    have hh := cube_le_of_isRoot (isRoot3_half hroot)
    have hq2 := sq_le_cube (c / 2)
    have h8 : n / 2 ^ 63 / 8 < 2 ^ 64 := by
      have : n / 2 ^ 63 / 8 ≤ n / 2 ^ 63 := Nat.div_le_self _ _
      omega
    simp only [Option.bind_eq_bind, ha, hc, obind_some]
    have e8 : (2 : Nat) ^ 3 = 8 := by norm_num
    rw [e8]
    generalize n / 2 ^ 63 / 8 = a8 at *
    generalize c / 2 = c1 at *
    rw [ck_eq (m := c1 * c1) (by push_cast; ring) (by omega)]
    simp only [obind_some]
    rw [ck_eq (m := c1 * c1 * c1) (by push_cast; ring) (by omega)]
    simp only [obind_some]
    rw [ck_eq (m := a8 - c1 * c1 * c1) (by omega) (by omega)]
    exact ⟨_, rfl⟩
  · rename_i hge
    have ha : n / 2 ^ 66 % 2 ^ 64 = n / 2 ^ 66 := by
      simp only [Nat.reducePow] at hhi ⊢; omega
    rw [ha]
    exact h64 _ (by
        rw [Nat.le_div_iff_mul_le (Nat.two_pow_pos _), ← Nat.pow_add]
        exact Nat.le_trans (Nat.pow_le_pow_right (by decide) (by decide)) (Nat.le_of_not_lt hge))
      (by
        rw [Nat.div_lt_iff_lt_mul (Nat.two_pow_pos _), ← Nat.pow_add]
        exact Nat.lt_of_lt_of_le hhi (Nat.pow_le_pow_right (by decide) (by decide)))

set_option maxRecDepth 65536 in
/-- **`<u128 as NormalizedRootRem>::normalized_cbrt_rem` answers wherever the `u64` routine does** -/
theorem normCbrtU128_total_of_u64 {n : Nat} (hlo : 2 ^ 125 ≤ n) (hhi : n < 2 ^ 128)
    (h64 : ∀ y, 2 ^ 61 ≤ y → y < 2 ^ 64 → ∃ r, normCbrtU64 y = some r) : ∃ res, normCbrtU128 n = some res := by
  obtain ⟨⟨c1, r1⟩, hcr⟩ := normCbrtU128_high_total hlo hhi h64
  obtain ⟨hroot1, hrem1⟩ := normCbrtU128_high hhi hcr
  have hcr2 := hcr
  simp only [Option.bind_eq_bind] at hcr2
  unfold normCbrtU128
  simp only [Option.bind_eq_bind]
  rw [hcr2]
  simp only [obind_some]
  clear hcr hcr2
  -- sizes
  have hAlt : n / 2 ^ 66 < 2 ^ 62 := by
    rw [Nat.div_lt_iff_lt_mul (Nat.two_pow_pos _), ← Nat.pow_add]; exact hhi
  have hAge : 2 ^ 59 ≤ n / 2 ^ 66 := by
    rw [Nat.le_div_iff_mul_le (Nat.two_pow_pos _), ← Nat.pow_add]; exact hlo
  have hc1lt : c1 < 2 ^ 21 := by
    by_contra hge
    have h1 : (2 ^ 21) ^ 3 ≤ c1 ^ 3 := Nat.pow_le_pow_left (by omega) 3
    have h2 := hroot1.1
    rw [← Nat.pow_mul] at h1
    have : (2 : Nat) ^ 62 ≤ 2 ^ (21 * 3) := Nat.pow_le_pow_right (by decide) (by decide)
    omega
  have hc1ge : 600000 ≤ c1 := by
    by_contra hlt
    have h1 : (c1 + 1) ^ 3 ≤ 600000 ^ 3 := Nat.pow_le_pow_left (by omega) 3
    have h2 := hroot1.2
    have : (600000 : Nat) ^ 3 < 2 ^ 59 := by norm_num
    omega
  have hcc1 : 600000 * c1 ≤ c1 * c1 := Nat.mul_le_mul_right c1 hc1ge
  have hcc2 : c1 * c1 ≤ 2097151 * 2097151 :=
    Nat.mul_le_mul (by simp only [Nat.reducePow] at hc1lt; omega) (by simp only [Nat.reducePow] at hc1lt; omega)
  have hr1le : r1 ≤ 3 * (c1 * c1) + 3 * c1 := by
    have h2 := hroot1.2
    have e : (c1 + 1) ^ 3 = c1 ^ 3 + (3 * (c1 * c1) + 3 * c1 + 1) := by ring
    omega
  have hs := iroot_spec n 3 (by decide)
  simp only [Nat.reducePow] at hc1lt hhi ⊢
  rw [ck_eq (m := 3 * (c1 * c1)) (by push_cast; ring) (by simp only [Nat.reducePow]; omega)]
  simp only [obind_some]
  have hdne : decide (3 * (c1 * c1) ≠ 0) = true := by simp; omega
  have hg1 : guardO true = some () := rfl
  rw [hdne, hg1]
  simp only [obind_some]
  have or22 : ∀ x y : Nat, y < 4194304 → (4194304 * x ||| y) = 4194304 * x + y :=
    fun x y hy => (Nat.two_pow_add_eq_or_of_lt (i := 22) hy x).symm
  have or44 : ∀ x y : Nat, y < 17592186044416 → (17592186044416 * x ||| y) = 17592186044416 * x + y :=
    fun x y hy => (Nat.two_pow_add_eq_or_of_lt (i := 44) hy x).symm
  have hb2lt : n / 17592186044416 % 4194304 < 4194304 := Nat.mod_lt _ (by decide)
  have hlowlt : n % 17592186044416 < 17592186044416 := Nat.mod_lt _ (by decide)
  have e1 : r1 * 4194304 % 340282366920938463463374607431768211456 = 4194304 * r1 := by omega
  rw [e1, or22 _ _ hb2lt]
  generalize hd' : 3 * (c1 * c1) = d at *
  have hdpos : 0 < d := by omega
  -- the quotient is at most B + 7
  have hr0lt : 4194304 * r1 + n / 17592186044416 % 4194304 < (4194304 + 8) * d := by
    rw [← hd']; omega
  have hqlt : (4194304 * r1 + n / 17592186044416 % 4194304) / d < 4194304 + 8 :=
    (Nat.div_lt_iff_lt_mul hdpos).2 hr0lt
  have hdm := Nat.div_add_mod (4194304 * r1 + n / 17592186044416 % 4194304) d
  have hult := Nat.mod_lt (4194304 * r1 + n / 17592186044416 % 4194304) hdpos
  generalize (4194304 * r1 + n / 17592186044416 % 4194304) / d = q at *
  generalize (4194304 * r1 + n / 17592186044416 % 4194304) % d = u at *
  rw [ck_eq (m := c1 * 4194304 + q) (by omega) (by simp only [Nat.reducePow]; omega)]
  simp only [obind_some]
  have hqq : q * q ≤ 4194311 * 4194311 := Nat.mul_le_mul (by omega) (by omega)
  rw [ck_eq (m := q * q) (by push_cast; ring) (by simp only [Nat.reducePow]; omega)]
  simp only [obind_some]
  rw [ck_eq (m := 3 * c1 * 4194304 + q) (by omega) (by simp only [Nat.reducePow]; omega)]
  simp only [obind_some]
  have hfq : (3 * c1 * 4194304 + q) * (q * q) ≤ 26388283260928 * (4194311 * 4194311) :=
    Nat.mul_le_mul (by omega) hqq
  rw [ck_eq (m := (3 * c1 * 4194304 + q) * (q * q)) (by push_cast; ring) (by simp only [Nat.reducePow]; omega)]
  simp only [obind_some]
  have hub : u < 19342813113834066795298816 := by omega
  have e2 : u * 17592186044416 % 340282366920938463463374607431768211456 = 17592186044416 * u := by
    have h1 : u * 17592186044416 < 19342813113834066795298816 * 17592186044416 :=
      Nat.mul_lt_mul_of_pos_right hub (by decide)
    rw [Nat.mod_eq_of_lt (Nat.lt_of_lt_of_le h1 (by norm_num)), Nat.mul_comm]
  rw [e2, or44 _ _ hlowlt]
  have hub2 : 17592186044416 * u < 17592186044416 * 13194139533312 :=
    Nat.mul_lt_mul_of_pos_left (by omega) (by decide)
  have hg2 : decide (17592186044416 * u + n % 17592186044416 < 170141183460469231731687303715884105728 ∧
      (3 * c1 * 4194304 + q) * (q * q) < 170141183460469231731687303715884105728) = true := by
    rw [decide_eq_true_eq]; constructor <;> omega
  rw [hg2, hg1]
  simp only [obind_some]
  -- the arithmetic core: exact signed remainder, candidate not below the root
  have hnsplit : n = n / 73786976294838206464 * 4194304 ^ 3 + n / 17592186044416 % 4194304 * 4194304 ^ 2 + n % 17592186044416 := by
    simp only [Nat.reducePow]; omega
  have hdiv : r1 * 4194304 + n / 17592186044416 % 4194304 = 3 * c1 ^ 2 * q + u := by
    rw [Nat.pow_two, hd']; omega
  have hu' : u < 3 * c1 ^ 2 := by rw [Nat.pow_two, hd']; exact hult
  simp only [Nat.reducePow] at hrem1 hroot1 hAge hAlt
  obtain ⟨hid, hup⟩ := cbrt_step hnsplit hrem1 (by simpa using hlowlt) hdiv hu'
  have hinv : ((c1 * 4194304 + q : Nat) : Int) ^ 3 +
      (((17592186044416 * u + n % 17592186044416 : Nat) : Int) - (((3 * c1 * 4194304 + q) * (q * q) : Nat) : Int)) = n := by
    have e3 : ((17592186044416 * u + n % 17592186044416 : Nat) : Int) = ((u * 4194304 ^ 2 + n % 17592186044416 : Nat) : Int) := by
      have e5 : (4194304 : Nat) ^ 2 = 17592186044416 := by norm_num
      rw [e5, Nat.mul_comm]
    have e4 : (((3 * c1 * 4194304 + q) * (q * q) : Nat) : Int) = (((3 * c1 * 4194304 + q) * q ^ 2 : Nat) : Int) := by
      rw [Nat.pow_two]
    rw [e3, e4, ← hid]; ring
  have hsc : iroot n 3 ≤ c1 * 4194304 + q := by
    by_contra hlt
    have h1 : (c1 * 4194304 + q + 1) ^ 3 ≤ iroot n 3 ^ 3 := Nat.pow_le_pow_left (by omega) 3
    have h2 := hs.1
    omega
  -- at most 8 above the root
  have hA3 : c1 ^ 3 * 4194304 ^ 3 + (r1 * 4194304 + n / 17592186044416 % 4194304) * 4194304 ^ 2 ≤ n := by
    have e : (c1 ^ 3 + r1) * 4194304 ^ 3 + n / 17592186044416 % 4194304 * 4194304 ^ 2
        = c1 ^ 3 * 4194304 ^ 3 + (r1 * 4194304 + n / 17592186044416 % 4194304) * 4194304 ^ 2 := by ring
    rw [← e, hrem1]; omega
  have hcs : c1 * 4194304 + q ≤ iroot n 3 + 8 := by
    by_contra hgt
    have hq8 : 8 ≤ q ∨ q < 8 := by omega
    rcases hq8 with hq8 | hq8
    · have hb := cbrt_descent_bound (c1 := c1) (B := 4194304) (q' := q - 8) (by omega) (by omega) (by omega)
      have e8 : q - 8 + 8 = q := by omega
      rw [e8] at hb
      have h3 : 3 * c1 ^ 2 * 4194304 ^ 2 * q ≤ (r1 * 4194304 + n / 17592186044416 % 4194304) * 4194304 ^ 2 := by
        have : 3 * c1 ^ 2 * q ≤ r1 * 4194304 + n / 17592186044416 % 4194304 := by omega
        have := Nat.mul_le_mul_right (4194304 ^ 2) this
        calc 3 * c1 ^ 2 * 4194304 ^ 2 * q = 3 * c1 ^ 2 * q * 4194304 ^ 2 := by ring
          _ ≤ _ := this
      have h4 : (iroot n 3 + 1) ^ 3 ≤ (c1 * 4194304 + (q - 8)) ^ 3 := Nat.pow_le_pow_left (by omega) 3
      have h5 := hs.2
      omega
    · have h4 : (iroot n 3 + 1) ^ 3 ≤ (c1 * 4194304) ^ 3 := Nat.pow_le_pow_left (by omega) 3
      have e : (c1 * 4194304) ^ 3 = c1 ^ 3 * 4194304 ^ 3 := by ring
      have h5 := hs.2
      have : 0 ≤ (r1 * 4194304 + n / 17592186044416 % 4194304) * 4194304 ^ 2 := Nat.zero_le _
      omega
  obtain ⟨res, hres⟩ := cbrtDownLoop_total hs 8 _ _ hinv hsc hcs
  rw [hres]
  exact ⟨_, rfl⟩



/-- `cbrtRemNorm_total` with soundness required on the values of the type only -/
theorem cbrtRemNorm_total' {bits : Nat} {norm : Nat → Option (Nat × Nat)}
    (hs : ∀ y, y < 2 ^ bits → ∀ r, norm y = some r → IsRoot y 3 r.1 ∧ r.1 ^ 3 + r.2 = y)
    (ht : ∀ y, 2 ^ (bits - 3) ≤ y → y < 2 ^ bits → ∃ r, norm y = some r) {x : Nat} (hx : x < 2 ^ bits) :
    ∃ r, cbrtRemNorm bits norm x = some r := by
  unfold cbrtRemNorm
  by_cases h0 : x = 0
  · rw [if_pos h0]; exact ⟨_, rfl⟩
  · rw [if_neg h0]
    have hbl : bitLen x ≤ bits := bitLen_le_of_lt hx
    have hsh : lzOf bits x - lzOf bits x % 3 ≤ lzOf bits x := by omega
    have hlt := shifted_lt hx hsh
    have hge : 2 ^ (bits - 3) ≤ x * 2 ^ (lzOf bits x - lzOf bits x % 3) :=
      shifted_norm_ge (k := 2) h0 (by unfold lzOf; omega)
    obtain ⟨⟨root, rem⟩, hnorm⟩ := ht _ hge hlt
    obtain ⟨hroot, _⟩ := hs _ hlt _ hnorm
    simp only [] at hroot
    simp only [Option.bind_eq_bind, Nat.mod_eq_of_lt hlt, hnorm, Option.bind_some]
    obtain ⟨t, hh⟩ : ∃ t, lzOf bits x - lzOf bits x % 3 = t * 3 := ⟨lzOf bits x / 3, by omega⟩
    rw [hh] at hroot ⊢
    by_cases hs0 : t * 3 ≠ 0
    · rw [if_pos hs0]
      have e5 : t * 3 / 3 = t := by omega
      have e4 : (2 : Nat) ^ (t * 3) = (2 ^ t) ^ 3 := by rw [← Nat.pow_mul]
      rw [e4] at hroot
      have hd := cube_le_of_isRoot (root_denormalise (by decide) hroot)
      rw [e5]
      generalize root / 2 ^ t = q at *
      have hq2 := sq_le_cube q
      rw [ck_eq (m := q * q) (by push_cast; ring) (by omega)]
      simp only [Option.bind_some]
      rw [ck_eq (m := q * q * q) (by push_cast; ring) (by omega)]
      simp only [Option.bind_some]
      rw [ck_eq (m := x - q * q * q) (by omega) (by omega)]
      exact ⟨_, rfl⟩
    · rw [if_neg hs0]; exact ⟨_, rfl⟩

/-- **`u128::cbrt_rem` answers wherever the `u64` routine does** -/
theorem cbrtRemU128_total_of_u64 (h64 : ∀ y, 2 ^ 61 ≤ y → y < 2 ^ 64 → ∃ r, normCbrtU64 y = some r)
    {x : Nat} (hx : x < 2 ^ 128) : ∃ r, cbrtRemPrimBits 128 x = some r :=
  cbrtRemNorm_total' (bits := 128) (fun _ hy _ hr => normCbrtU128_sound hy hr)
    (fun _ hy1 hy2 => normCbrtU128_total_of_u64 hy1 hy2 h64) hx

/-- `u64::cbrt_rem` answers on every operand if the normalised routine answers on normalised operands -/
theorem cbrtRemU64_total_of_norm (h64 : ∀ y, 2 ^ 61 ≤ y → y < 2 ^ 64 → ∃ r, normCbrtU64 y = some r)
    {x : Nat} (hx : x < 2 ^ 64) : ∃ r, cbrtRemPrimBits 64 x = some r :=
  cbrtRemNorm_total (bits := 64) normCbrtU64_sound h64 hx

end Dashu.Model.NT
