import Dashu.Proofs.NT.Basic
/-
  C13 helper lemmas: every `raw` the model produces is `(value mod m)·2^k`.
-/
namespace Dashu.Model.NT
open Dashu.Model

theorem shift_mod (r : Ring) (x : Nat) : (x * 2 ^ r.k) % r.M = (x % r.m) * 2 ^ r.k :=
  Nat.mul_mod_mul_right _ _ _

theorem mod_M_mod_m (r : Ring) (x : Nat) : x % r.M % r.m = x % r.m :=
  Nat.mod_mul_right_mod _ _ _

theorem M_of_k0 {r : Ring} (h : r.k = 0) : r.M = r.m := by simp [Ring.M, h]

theorem valid_mk {r : Ring} (hm : 0 < r.m) (x : Nat) : Valid r ((x % r.m) * 2 ^ r.k) :=
  ⟨x % r.m, Nat.mod_lt _ hm, rfl⟩

theorem add_mul_mod_mod (a b c M : Nat) : (a + b * (c % M)) % M = (a + b * c) % M := by
  rw [Nat.add_mod, Nat.mul_mod, Nat.mod_mod, ← Nat.mul_mod, ← Nat.add_mod]

theorem remWordS_eq (r : Ring) (x : Nat) : remWordS r x = (x % r.m) * 2 ^ r.k := by
  unfold remWordS
  split
  · rename_i h; rw [M_of_k0 h, h]; simp
  · exact shift_mod r x

theorem remDwordS_eq {W : Nat} {r : Ring} (hwf : r.WF W) (hn : r.n = 1) {x : Nat}
    (hx : x < 2 ^ (2 * W)) : remDwordS W r x = (x % r.m) * 2 ^ r.k := by
  unfold remDwordS
  split
  · rename_i h
    have hM := M_of_k0 h
    have h2 := hwf.Mge
    rw [hn, Nat.mul_one] at h2
    have hhi : x / 2 ^ W < 2 ^ W := by
      apply (Nat.div_lt_iff_lt_mul (Nat.two_pow_pos W)).2
      rw [← Nat.pow_add]; have : W + W = 2 * W := by omega
      rw [this]; exact hx
    simp only []
    have hr1 : (if x / 2 ^ W < r.M then x / 2 ^ W else x / 2 ^ W - r.M) = (x / 2 ^ W) % r.M := by
      split
      · rename_i hlt; rw [Nat.mod_eq_of_lt hlt]
      · rename_i hge; rw [Nat.mod_eq_sub_mod (by omega), Nat.mod_eq_of_lt (by omega)]
    rw [hr1, add_mul_mod_mod, Nat.mod_add_div, hM, h]; simp
  · simp only []
    rw [add_mul_mod_mod, Nat.mod_add_div, shift_mod]

theorem remLargeSD_eq (r : Ring) (x : Nat) : remLargeSD r x = (x % r.m) * 2 ^ r.k := by
  unfold remLargeSD
  simp only []
  split
  · rw [shift_mod, mod_M_mod_m]
  · rename_i h
    have h : r.k = 0 := by omega
    rw [M_of_k0 h, h]; simp

theorem remDwordD_eq {W : Nat} {r : Ring} (hwf : r.WF W) (hn : r.n = 2) {x : Nat}
    (hx : x < 2 ^ (2 * W)) : remDwordD r x = (x % r.m) * 2 ^ r.k := by
  unfold remDwordD
  split
  · rename_i h
    have hM := M_of_k0 h
    have h2 := hwf.Mge
    rw [hn, Nat.mul_comm W 2, hM] at h2
    rw [hM, h]
    split
    · rename_i hlt; rw [Nat.mod_eq_of_lt hlt]; simp
    · rename_i hge
      have : x % r.m = x - r.m := by
        rw [Nat.mod_eq_sub_mod (by omega), Nat.mod_eq_of_lt (by omega)]
      rw [this]; simp
  · exact shift_mod r x

theorem remReprL_eq {W : Nat} {r : Ring} (hwf : r.WF W) (hk : r.kind = .large) (x : Nat) :
    remReprL W r x = (x % r.m) * 2 ^ r.k := by
  unfold remReprL
  split
  · rename_i hlt
    have := hwf.m_large hk
    rw [Nat.mod_eq_of_lt (by omega)]
  · simp only []
    split
    · exact shift_mod r x
    · rename_i hlen
      have hlt : wordLen W (x * 2 ^ r.k) ≤ r.n - 1 := by omega
      have h1 := lt_two_pow_wordLen hwf.hW (x * 2 ^ r.k)
      have h2 : 2 ^ (W * wordLen W (x * 2 ^ r.k)) ≤ 2 ^ (W * (r.n - 1)) :=
        Nat.pow_le_pow_right (by decide) (Nat.mul_le_mul_left W hlt)
      have h3 := hwf.Mge
      have hn := hwf.kind_n.2.2 hk
      have hW := hwf.hW
      have e : 2 ^ (W * r.n) = 2 ^ W * 2 ^ (W * (r.n - 1)) := by
        rw [← Nat.pow_add]; congr 1
        have : r.n = (r.n - 1) + 1 := by omega
        conv => lhs; rw [this, Nat.mul_succ]
        omega
      have h4 : 2 ≤ 2 ^ W := by
        calc 2 = 2 ^ 1 := rfl
          _ ≤ 2 ^ W := Nat.pow_le_pow_right (by decide) hW
      have h5 : 2 * 2 ^ (W * (r.n - 1)) ≤ 2 ^ W * 2 ^ (W * (r.n - 1)) := Nat.mul_le_mul_right _ h4
      have hltM : x * 2 ^ r.k < r.M := by omega
      rw [← shift_mod, Nat.mod_eq_of_lt hltM]

/-- `ConstDivisor::reduce` of a natural number stores `(x mod m)·2^k` -/
theorem rawOfNat_eq {W : Nat} {r : Ring} (hwf : r.WF W) (x : Nat) :
    rawOfNat W r x = (x % r.m) * 2 ^ r.k := by
  unfold rawOfNat
  cases hk : r.kind with
  | single =>
    simp only []
    split
    · exact remWordS_eq r x
    · split
      · rename_i h2; exact remDwordS_eq hwf (hwf.kind_n.1 hk) h2
      · exact remLargeSD_eq r x
  | double =>
    simp only []
    split
    · rename_i h; exact remDwordD_eq hwf (hwf.kind_n.2.1 hk) h
    · exact remLargeSD_eq r x
  | large => exact remReprL_eq hwf hk x

-- ---------------------------------------------------------------- neg / add / sub on pre-shifted residues

theorem negRaw_eq {r : Ring} {v : Nat} (hv : v < r.m) :
    negRaw r (v * 2 ^ r.k) = ((r.m - v) % r.m) * 2 ^ r.k := by
  unfold negRaw
  have hp : 0 < 2 ^ r.k := Nat.two_pow_pos _
  split
  · rename_i h0
    have : v = 0 := by
      rcases Nat.mul_eq_zero.1 h0 with h | h
      · exact h
      · omega
    subst this; simp
  · rename_i h0
    have hv0 : v ≠ 0 := by intro h; subst h; simp at h0
    rw [Nat.mod_eq_of_lt (by omega), Ring.M, Nat.sub_mul]

theorem addRaw_eq {r : Ring} {u v : Nat} (hu : u < r.m) (hv : v < r.m) :
    addRaw r (u * 2 ^ r.k) (v * 2 ^ r.k) = ((u + v) % r.m) * 2 ^ r.k := by
  unfold addRaw
  have hp : 0 < 2 ^ r.k := Nat.two_pow_pos _
  simp only [← Nat.add_mul, Ring.M]
  split
  · rename_i h
    have h' : r.m ≤ u + v := Nat.le_of_mul_le_mul_right h hp
    rw [← Nat.sub_mul]
    congr 1
    rw [Nat.mod_eq_sub_mod h', Nat.mod_eq_of_lt (by omega)]
  · rename_i h
    have h' : u + v < r.m := by
      apply Nat.lt_of_not_le; intro hle; exact h (Nat.mul_le_mul_right _ hle)
    rw [Nat.mod_eq_of_lt h']

theorem subRaw_eq {r : Ring} {u v : Nat} (hu : u < r.m) (hv : v < r.m) :
    subRaw r (u * 2 ^ r.k) (v * 2 ^ r.k) = ((u + (r.m - v)) % r.m) * 2 ^ r.k := by
  unfold subRaw
  have hp : 0 < 2 ^ r.k := Nat.two_pow_pos _
  split
  · rename_i h
    have h' : v ≤ u := Nat.le_of_mul_le_mul_right h hp
    rw [← Nat.sub_mul]
    congr 1
    have : u + (r.m - v) = (u - v) + r.m := by omega
    rw [this, Nat.add_mod_right, Nat.mod_eq_of_lt (by omega)]
  · rename_i h
    have h' : u < v := by
      apply Nat.lt_of_not_le; intro hle; exact h (Nat.mul_le_mul_right _ hle)
    rw [Ring.M, ← Nat.sub_mul, ← Nat.sub_mul]
    congr 1
    rw [Nat.mod_eq_of_lt (by omega)]
    omega

-- ---------------------------------------------------------------- mul / sqr

theorem mulSD_eq (r : Ring) (u v : Nat) :
    ((u * 2 ^ r.k) / 2 ^ r.k * (v * 2 ^ r.k)) % r.M = ((u * v) % r.m) * 2 ^ r.k := by
  rw [Nat.mul_div_cancel _ (Nat.two_pow_pos _), ← Nat.mul_assoc, shift_mod]

theorem sqrSD_eq (r : Ring) (u : Nat) :
    ((u * 2 ^ r.k) * (u * 2 ^ r.k) / 2 ^ r.k) % r.M = ((u * u) % r.m) * 2 ^ r.k := by
  have : (u * 2 ^ r.k) * (u * 2 ^ r.k) = (u * u * 2 ^ r.k) * 2 ^ r.k := by ring
  rw [this, Nat.mul_div_cancel _ (Nat.two_pow_pos _), shift_mod]

theorem mulNormalized_eq {W : Nat} {r : Ring} (hwf : r.WF W) {u v : Nat} (hu : u < r.m) (hv : v < r.m) :
    mulNormalized W r (u * 2 ^ r.k) (v * 2 ^ r.k) = ((u * v) % r.m) * 2 ^ r.k := by
  unfold mulNormalized
  have hp : 0 < 2 ^ r.k := Nat.two_pow_pos _
  have e : (u * 2 ^ r.k) * (v * 2 ^ r.k) / 2 ^ r.k = (u * v) * 2 ^ r.k := by
    have : (u * 2 ^ r.k) * (v * 2 ^ r.k) = (u * v * 2 ^ r.k) * 2 ^ r.k := by ring
    rw [this, Nat.mul_div_cancel _ hp]
  simp only [e]
  split
  · exact shift_mod r _
  · rename_i hlen
    -- the shifted product has at most n words, hence is below 2M
    have ha := lt_two_pow_wordLen hwf.hW (u * 2 ^ r.k)
    have hb := lt_two_pow_wordLen hwf.hW (v * 2 ^ r.k)
    have hab : (u * 2 ^ r.k) * (v * 2 ^ r.k) < 2 ^ (W * r.n) := by
      calc (u * 2 ^ r.k) * (v * 2 ^ r.k)
          < 2 ^ (W * wordLen W (u * 2 ^ r.k)) * 2 ^ (W * wordLen W (v * 2 ^ r.k)) :=
            Nat.mul_lt_mul'' ha hb
        _ = 2 ^ (W * (wordLen W (u * 2 ^ r.k) + wordLen W (v * 2 ^ r.k))) := by
            rw [← Nat.pow_add, Nat.mul_add]
        _ ≤ 2 ^ (W * r.n) := Nat.pow_le_pow_right (by decide) (Nat.mul_le_mul_left W (by omega))
    have hprod : (u * v) * 2 ^ r.k < 2 * r.M := by
      have h1 : (u * v) * 2 ^ r.k ≤ (u * 2 ^ r.k) * (v * 2 ^ r.k) := by
        have : (u * 2 ^ r.k) * (v * 2 ^ r.k) = ((u * v) * 2 ^ r.k) * 2 ^ r.k := by ring
        rw [this]; exact Nat.le_mul_of_pos_right _ hp
      have := hwf.Mge
      omega
    rw [← shift_mod]
    split
    · rename_i hge
      rw [Nat.mod_eq_sub_mod hge, Nat.mod_eq_of_lt (by omega)]
    · rename_i hlt
      rw [Nat.mod_eq_of_lt (by omega)]

theorem mulRaw_eq {W : Nat} {r : Ring} (hwf : r.WF W) {u v : Nat} (hu : u < r.m) (hv : v < r.m) :
    mulRaw W r (u * 2 ^ r.k) (v * 2 ^ r.k) = ((u * v) % r.m) * 2 ^ r.k := by
  unfold mulRaw
  cases r.kind <;> simp only []
  · exact mulSD_eq r u v
  · exact mulSD_eq r u v
  · exact mulNormalized_eq hwf hu hv

theorem sqrRaw_eq {W : Nat} {r : Ring} (hwf : r.WF W) {u : Nat} (hu : u < r.m) :
    sqrRaw W r (u * 2 ^ r.k) = ((u * u) % r.m) * 2 ^ r.k := by
  unfold sqrRaw
  cases r.kind <;> simp only []
  · exact sqrSD_eq r u
  · exact sqrSD_eq r u
  · exact mulNormalized_eq hwf hu hu

end Dashu.Model.NT
