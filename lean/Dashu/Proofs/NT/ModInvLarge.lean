import Dashu.Model.NT.ModInvLarge
import Dashu.Proofs.NT.LehmerExt
import Dashu.Proofs.NT.ModInv
import Dashu.Proofs.NT.ModKernels
import Mathlib.Tactic.Linarith
import Mathlib.Tactic.Ring
import Mathlib.Tactic.LinearCombination
/-
  C13 (round 4): the RANGE CLAIM of `inv_large` — the cofactor magnitude `|b|` that
  `gcd::gcd_ext_word/_dword/_in_place` leave in the modulus buffer is `< modulus`
  (`debug_assert!(inv.is_valid(ring))` in `integer/src/modular/div.rs`) — and, from it and C12's
  `lehmerExt_correct` / `gcdExtSmall_spec`, that the mirrored `inv_large` returns the inverse the
  `%`-level model (num-modular's `invm`) specifies.

  The range claim needs a second loop invariant of Lehmer's extended loop that C12's correctness proof
  does not carry: the unsigned cofactors satisfy `t0·y + t1·x = lhs` (the continuant identity); it is
  preserved by the Euclidean step and — because the cofactor matrix has determinant 1 — by
  `lehmer_step`/`lehmer_ext_step`; with the entries of the matrix below one word it bounds `t0`, and
  with the half-size bounds on the cofactors of the final single-word `gcd_ext` it bounds `|b|`.
-/
namespace Dashu.Model.NT
open Dashu.Model

-- ---------------------------------------------------------------- cofactor sizes of the primitive Euclid loop

/-- size invariant of `unchecked_gcd_ext`: `|s|·lastR + |lastS|·r = B`, `|t|·lastR + |lastT|·r = A`
    (signs alternate, so the absolute values are written out per parity) -/
def XBound (A B : Nat) (lastR r : Nat) (lastS s lastT t : Int) : Prop :=
  (0 ≤ lastS ∧ s ≤ 0 ∧ lastT ≤ 0 ∧ 0 ≤ t ∧ -s * lastR + lastS * r = B ∧ t * lastR - lastT * r = A) ∨
  (lastS ≤ 0 ∧ 0 ≤ s ∧ 0 ≤ lastT ∧ t ≤ 0 ∧ s * lastR - lastS * r = B ∧ -t * lastR + lastT * r = A)

theorem XBound.step {A B lastR r : Nat} {lastS s lastT t : Int} (h : XBound A B lastR r lastS s lastT t) :
    XBound A B r (lastR % r) s (lastS - ((lastR / r : Nat) : Int) * s) t (lastT - ((lastR / r : Nat) : Int) * t) := by
  have hm := mod_cast_eq lastR r
  have hq : (0 : Int) ≤ ((lastR / r : Nat) : Int) := Int.natCast_nonneg _
  generalize ((lastR / r : Nat) : Int) = q at *
  rcases h with ⟨h1, h2, h3, h4, h5, h6⟩ | ⟨h1, h2, h3, h4, h5, h6⟩
  · right
    refine ⟨h2, by nlinarith, h4, by nlinarith, ?_, ?_⟩
    · rw [hm]; linear_combination h5
    · rw [hm]; linear_combination h6
  · left
    refine ⟨h2, by nlinarith, h4, by nlinarith, ?_, ?_⟩
    · rw [hm]; linear_combination h5
    · rw [hm]; linear_combination h6

/-- at the return of the loop (`lastR > r ≥ 1`) both cofactors are at most half the *other* operand -/
theorem XBound.final {A B lastR r : Nat} {lastS s lastT t : Int} (h : XBound A B lastR r lastS s lastT t)
    (hlt : r < lastR) (hr : 0 < r) : 2 * s.natAbs ≤ B ∧ 2 * t.natAbs ≤ A := by
  have h2R : (2 : Int) ≤ lastR := by omega
  have hr0 : (0 : Int) ≤ r := Int.natCast_nonneg _
  rcases h with ⟨h1, h2, h3, h4, h5, h6⟩ | ⟨h1, h2, h3, h4, h5, h6⟩
  · have es : (s.natAbs : Int) = -s := by omega
    have et : (t.natAbs : Int) = t := by omega
    have a1 : (0 : Int) ≤ lastS * r := mul_nonneg h1 hr0
    have a2 : (0 : Int) ≤ -lastT * r := mul_nonneg (by omega) hr0
    have a3 : -s * 2 ≤ -s * lastR := mul_le_mul_of_nonneg_left h2R (by omega)
    have a4 : t * 2 ≤ t * lastR := mul_le_mul_of_nonneg_left h2R h4
    constructor
    · have k : -s * 2 ≤ (B : Int) := by linarith
      omega
    · have k : t * 2 ≤ (A : Int) := by linarith
      omega
  · have es : (s.natAbs : Int) = s := by omega
    have et : (t.natAbs : Int) = -t := by omega
    have a1 : (0 : Int) ≤ -lastS * r := mul_nonneg (by omega) hr0
    have a2 : (0 : Int) ≤ lastT * r := mul_nonneg h3 hr0
    have a3 : s * 2 ≤ s * lastR := mul_le_mul_of_nonneg_left h2R h2
    have a4 : -t * 2 ≤ -t * lastR := mul_le_mul_of_nonneg_left h2R (by omega)
    constructor
    · have k : s * 2 ≤ (B : Int) := by linarith
      omega
    · have k : -t * 2 ≤ (A : Int) := by linarith
      omega

theorem xgcdLoop_half_bound (A B : Nat) :
    ∀ (fuel lastR r : Nat) (lastS s lastT t : Int), r < fuel → 0 < r → r < lastR →
      XBound A B lastR r lastS s lastT t →
      2 * (xgcdLoop fuel lastR r lastS s lastT t).2.1.natAbs ≤ B ∧
      2 * (xgcdLoop fuel lastR r lastS s lastT t).2.2.natAbs ≤ A := by
  intro fuel
  induction fuel with
  | zero => intro lastR r _ _ _ _ h; omega
  | succ n ih =>
    intro lastR r lastS s lastT t hfuel hr hlt hX
    unfold xgcdLoop
    simp only []
    have hmod : lastR - lastR / r * r = lastR % r := by
      have := Nat.mod_add_div lastR r
      rw [Nat.mul_comm] at this; omega
    rw [hmod]
    split
    · exact hX.final hlt hr
    · rename_i hne
      have hml := Nat.mod_lt lastR hr
      exact ih r (lastR % r) _ _ _ _ (by omega) (by omega) hml hX.step

theorem xgcdLoop_init_bound {a b : Nat} (hb : 0 < b) (hlt : b < a) :
    2 * (xgcdLoop (b + 1) a b 1 0 0 1).2.1.natAbs ≤ b ∧ 2 * (xgcdLoop (b + 1) a b 1 0 0 1).2.2.natAbs ≤ a :=
  xgcdLoop_half_bound a b (b + 1) a b 1 0 0 1 (by omega) hb hlt
    (Or.inl ⟨by decide, by decide, by decide, by decide, by simp, by simp⟩)

/-- `impl ExtendedGcd for $U` on two different positive words: each cofactor is at most half the other
    operand (`2·|ca| ≤ b`, `2·|cb| ≤ a`) -/
theorem xgcdPrim_half_bound {a b : Nat} (ha : 0 < a) (hb : 0 < b) (hne : a ≠ b) :
    ∃ res, xgcdPrim a b = .ok res ∧ 2 * res.2.1.natAbs ≤ b ∧ 2 * res.2.2.natAbs ≤ a := by
  unfold xgcdPrim
  rw [if_neg (by omega), if_neg (by omega), if_neg (by omega)]
  simp only []
  obtain ⟨⟨ca, hca⟩, ⟨cb, hcb⟩⟩ := two_pow_min_tz_dvd ha hb
  rw [tz_or ha hb]
  generalize min (trailingZeros a) (trailingZeros b) = sh at hca hcb
  have hp : 0 < 2 ^ sh := Nat.two_pow_pos _
  have ea : a / 2 ^ sh = ca := by rw [hca, Nat.mul_div_cancel_left _ hp]
  have eb : b / 2 ^ sh = cb := by rw [hcb, Nat.mul_div_cancel_left _ hp]
  rw [ea, eb]
  have hcapos : 0 < ca := by
    apply Nat.pos_of_ne_zero; intro h0; rw [h0] at hca; simp at hca; omega
  have hcbpos : 0 < cb := by
    apply Nat.pos_of_ne_zero; intro h0; rw [h0] at hcb; simp at hcb; omega
  have hcne : ca ≠ cb := by intro h; apply hne; rw [hca, hcb, h]
  have hale : ca ≤ a := by rw [hca]; exact Nat.le_mul_of_pos_left _ hp
  have hble : cb ≤ b := by rw [hcb]; exact Nat.le_mul_of_pos_left _ hp
  split
  · rename_i hge
    have hgt : cb < ca := by omega
    split
    · exact ⟨_, rfl, by simp, by simp; omega⟩
    · have := xgcdLoop_init_bound hcbpos hgt
      generalize xgcdLoop (cb + 1) ca cb 1 0 0 1 = res at this
      obtain ⟨g, s, t⟩ := res
      simp only [] at this
      exact ⟨_, rfl, by simp only []; omega, by simp only []; omega⟩
  · rename_i hge
    have hgt : ca < cb := by omega
    split
    · exact ⟨_, rfl, by simp; omega, by simp⟩
    · have := xgcdLoop_init_bound hcapos hgt
      generalize xgcdLoop (ca + 1) cb ca 1 0 0 1 = res at this
      obtain ⟨g, s, t⟩ := res
      simp only [] at this
      exact ⟨_, rfl, by simp only []; omega, by simp only []; omega⟩

-- ---------------------------------------------------------------- entries of the Lehmer cofactor matrix

theorem lehmerGuess_lt (lim L : Nat) (hL : lim < L) :
    ∀ (fuel xbar ybar a b c d : Nat), a < L → b < L → c < L → d < L →
      (lehmerGuess lim fuel xbar ybar a b c d).1 < L ∧ (lehmerGuess lim fuel xbar ybar a b c d).2.1 < L ∧
      (lehmerGuess lim fuel xbar ybar a b c d).2.2.1 < L ∧ (lehmerGuess lim fuel xbar ybar a b c d).2.2.2 < L := by
  intro fuel
  induction fuel with
  | zero => intro xbar ybar a b c d ha hb hc hd; exact ⟨ha, hb, hc, hd⟩
  | succ n ih =>
    intro xbar ybar a b c d ha hb hc hd
    unfold lehmerGuess
    simp only []
    by_cases h0 : ybar = 0
    · rw [if_pos h0]; exact ⟨ha, hb, hc, hd⟩
    rw [if_neg h0]
    by_cases h1 : xbar / ybar > lim
    · rw [if_pos h1]; exact ⟨ha, hb, hc, hd⟩
    rw [if_neg h1]
    by_cases h2 : a + xbar / ybar * c > lim ∨ b + xbar / ybar * d > lim
    · rw [if_pos h2]; exact ⟨ha, hb, hc, hd⟩
    rw [if_neg h2]
    by_cases h3 : xbar - xbar / ybar * ybar < b + xbar / ybar * d ∨
        xbar - xbar / ybar * ybar + (a + xbar / ybar * c) > ybar - c
    · rw [if_pos h3]; exact ⟨ha, hb, hc, hd⟩
    rw [if_neg h3]
    have ha1 : a + xbar / ybar * c < L := by omega
    have hb1 : b + xbar / ybar * d < L := by omega
    generalize a + xbar / ybar * c = a1 at *
    generalize b + xbar / ybar * d = b1 at *
    generalize xbar - xbar / ybar * ybar = x1 at *
    by_cases h4 : x1 = b1
    · rw [if_pos h4]; exact ⟨ha1, hb1, hc, hd⟩
    rw [if_neg h4]
    by_cases h5 : ybar / x1 > lim
    · rw [if_pos h5]; exact ⟨ha1, hb1, hc, hd⟩
    rw [if_neg h5]
    by_cases h6 : d + ybar / x1 * b1 > lim ∨ c + ybar / x1 * a1 > lim
    · rw [if_pos h6]; exact ⟨ha1, hb1, hc, hd⟩
    rw [if_neg h6]
    by_cases h7 : ybar - ybar / x1 * x1 < c + ybar / x1 * a1 ∨
        ybar - ybar / x1 * x1 + (d + ybar / x1 * b1) > x1 - c
    · rw [if_pos h7]; exact ⟨ha1, hb1, hc, hd⟩
    rw [if_neg h7]
    have hc1 : c + ybar / x1 * a1 < L := by omega
    have hd1 : d + ybar / x1 * b1 < L := by omega
    by_cases h8 : ybar - ybar / x1 * x1 = c + ybar / x1 * a1
    · rw [if_pos h8]; exact ⟨ha1, hb1, hc1, hd1⟩
    rw [if_neg h8]
    exact ih _ _ _ _ _ _ ha1 hb1 hc1 hd1

/-- every entry of the matrix `lehmer_guess(_dword)` commits is below one word (`COEFF_LIMIT`) -/
theorem lehmerCofactors_lt (W x y : Nat) (hW : 0 < W) :
    (lehmerCofactors W x y).1 < 2 ^ W ∧ (lehmerCofactors W x y).2.1 < 2 ^ W ∧
    (lehmerCofactors W x y).2.2.1 < 2 ^ W ∧ (lehmerCofactors W x y).2.2.2 < 2 ^ W := by
  have h2 : 2 ≤ 2 ^ W := by
    calc 2 = 2 ^ 1 := rfl
      _ ≤ 2 ^ W := Nat.pow_le_pow_right (by decide) hW
  have hlim : 2 ^ (W - 1) - 1 < 2 ^ W := by
    have : 2 ^ (W - 1) ≤ 2 ^ W := Nat.pow_le_pow_right (by decide) (by omega)
    omega
  unfold lehmerCofactors
  simp only []
  split
  · exact lehmerGuess_lt _ _ hlim _ _ _ 1 0 0 1 (by omega) (by omega) (by omega) (by omega)
  · exact lehmerGuess_lt _ _ hlim _ _ _ 1 0 0 1 (by omega) (by omega) (by omega) (by omega)

-- ---------------------------------------------------------------- the range invariant of Lehmer's extended loop

/-- range invariant of `lehmer::gcd_ext_in_place`: the unsigned cofactors and the remainders satisfy the
    continuant identity `t0·y + t1·x = lhs`; `t0` stays below `lhs`; after the first step both
    cofactors are positive -/
def RangeInv (lhs x y t0 t1 : Nat) : Prop :=
  t0 * y + t1 * x = lhs ∧ t0 < lhs ∧ 0 < t1 ∧ (0 < t0 ∨ x = lhs)

theorem lehmerExtLoop_range (W : Nat) (hW : 0 < W) (lhs : Nat) :
    ∀ (fuel x y t0 t1 : Nat) (sw : Bool) (res : Nat × Nat × Nat × Nat × Bool), y ≤ x →
      RangeInv lhs x y t0 t1 → lehmerExtLoop W fuel x y t0 t1 sw = .ok res →
      res.2.1 ≤ res.1 ∧ RangeInv lhs res.1 res.2.1 res.2.2.1 res.2.2.2.1 := by
  intro fuel
  induction fuel with
  | zero => intro x y t0 t1 sw res _ _ h; simp [lehmerExtLoop] at h
  | succ n ih =>
    intro x y t0 t1 sw res hxy hinv h
    unfold lehmerExtLoop at h
    split at h
    · rename_i hlen
      have hyW : 2 ^ W ≤ y := by
        apply Nat.le_of_not_lt; intro hc
        have := wordLen_le_of_lt (j := 1) hW (by simpa using hc); omega
      have h2W : 2 ≤ 2 ^ W := by
        calc 2 = 2 ^ 1 := rfl
          _ ≤ 2 ^ W := Nat.pow_le_pow_right (by decide) hW
      have hy0 : 0 < y := by omega
      obtain ⟨hJ, ht0, ht1, hor⟩ := hinv
      have hdet := lehmerCofactors_det W x y
      have hle := lehmerCofactors_lt W x y hW
      generalize lehmerCofactors W x y = cof at h hdet hle
      obtain ⟨a, b, c, d⟩ := cof
      simp only [] at h hdet hle
      obtain ⟨ha, hb, hc, hd⟩ := hle
      split at h
      · -- Euclidean step
        refine ih _ _ _ _ _ _ (Nat.le_of_lt (Nat.mod_lt _ hy0)) ?_ h
        have hdm := Nat.div_add_mod x y
        have hq : 1 ≤ x / y := Nat.div_pos hxy hy0
        refine ⟨?_, ?_, ?_, Or.inl ht1⟩
        · calc t1 * (x % y) + (t0 + x / y * t1) * y = t0 * y + t1 * (y * (x / y) + x % y) := by ring
            _ = lhs := by rw [hdm, hJ]
        · have : t1 * 2 ≤ t1 * x := Nat.mul_le_mul_left _ (by omega)
          have : t1 * x ≤ lhs := by omega
          omega
        · have : 1 * t1 ≤ x / y * t1 := Nat.mul_le_mul_right _ hq
          omega
      · rename_i hb0
        split at h
        · cases h
        · rename_i hnn
          have hx' : 0 ≤ (a : Int) * x - (b : Int) * y := by omega
          have hy' : 0 ≤ (d : Int) * y - (c : Int) * x := by omega
          have e1 : (((a : Int) * x - (b : Int) * y).toNat : Int) = (a : Int) * x - (b : Int) * y :=
            Int.toNat_of_nonneg hx'
          have e2 : (((d : Int) * y - (c : Int) * x).toNat : Int) = (d : Int) * y - (c : Int) * x :=
            Int.toNat_of_nonneg hy'
          have hJ' : (t0 : Int) * y + t1 * x = lhs := by exact_mod_cast hJ
          have hJnew : (a * t0 + b * t1) * ((d : Int) * y - (c : Int) * x).toNat
              + (c * t0 + d * t1) * ((a : Int) * x - (b : Int) * y).toNat = lhs := by
            have : (((a * t0 + b * t1) * ((d : Int) * y - (c : Int) * x).toNat
              + (c * t0 + d * t1) * ((a : Int) * x - (b : Int) * y).toNat : Nat) : Int) = (lhs : Int) := by
              push_cast; rw [e1, e2]
              linear_combination ((t0 : Int) * y + t1 * x) * hdet + hJ'
            exact_mod_cast this
          have hd1 : 1 ≤ d := by
            apply Nat.pos_of_ne_zero; intro h0; subst h0
            have : (a : Int) * (0 : Nat) - b * c = 1 := hdet
            have hbc : (0 : Int) ≤ (b : Int) * c := mul_nonneg (Int.natCast_nonneg _) (Int.natCast_nonneg _)
            push_cast at this; omega
          have hb1 : 1 ≤ b := Nat.pos_of_ne_zero hb0
          have hT0 : a * t0 + b * t1 < lhs := by
            have f1 : a * t0 ≤ y * t0 := Nat.mul_le_mul_right _ (by omega)
            have f2 : b * t1 < x * t1 := Nat.mul_lt_mul_of_pos_right (by omega) ht1
            have f3 : t0 * y = y * t0 := Nat.mul_comm _ _
            have f4 : t1 * x = x * t1 := Nat.mul_comm _ _
            omega
          have hT1 : c * t0 + d * t1 < lhs := by
            have f1 : c * t0 ≤ y * t0 := Nat.mul_le_mul_right _ (by omega)
            have f2 : d * t1 < x * t1 := Nat.mul_lt_mul_of_pos_right (by omega) ht1
            have f3 : t0 * y = y * t0 := Nat.mul_comm _ _
            have f4 : t1 * x = x * t1 := Nat.mul_comm _ _
            omega
          have hT0pos : 0 < a * t0 + b * t1 := by
            have : 1 * 1 ≤ b * t1 := Nat.mul_le_mul hb1 ht1
            omega
          have hT1pos : 0 < c * t0 + d * t1 := by
            have : 1 * 1 ≤ d * t1 := Nat.mul_le_mul hd1 ht1
            omega
          split at h
          · rename_i hsw
            refine ih _ _ _ _ _ _ hsw ⟨?_, hT1, hT0pos, Or.inl hT1pos⟩ h
            rw [Nat.add_comm]; exact hJnew
          · rename_i hsw
            exact ih _ _ _ _ _ _ (by omega) ⟨hJnew, hT0, hT1pos, Or.inl hT0pos⟩ h
    · cases h
      exact ⟨hxy, hinv⟩

/-- **the range claim** of `gcd::gcd_ext_in_place`: the cofactor magnitude it returns is below `lhs` -/
theorem lehmerExt_range (W : Nat) (hW : 0 < W) (lhs rhs : Nat) (h0 : 0 < rhs) (hlt : rhs < lhs)
    (res : Nat × Nat × Bool) (h : lehmerExt W lhs rhs = .ok res) : res.2.1 < lhs := by
  unfold lehmerExt at h
  cases hloop : lehmerExtLoop W (lhs + rhs + 1) lhs rhs 0 1 false with
  | error k => rw [hloop] at h; cases h
  | ok st =>
    have hr := lehmerExtLoop_range W hW lhs _ _ _ _ _ _ st (Nat.le_of_lt hlt)
      ⟨by simp, by omega, by decide, Or.inr rfl⟩ hloop
    rw [hloop] at h
    obtain ⟨x, y, t0, t1, sw⟩ := st
    simp only [] at h hr
    obtain ⟨hyx, hJ, ht0, ht1, hor⟩ := hr
    split at h
    · cases h; exact ht0
    · rename_i hy
      have hy0 : 0 < y := Nat.pos_of_ne_zero hy
      have hdm := Nat.div_add_mod x y
      have hq : 1 ≤ x / y := Nat.div_pos hyx hy0
      have hJ2 : (t0 + x / y * t1) * y + t1 * (x % y) = lhs := by
        calc (t0 + x / y * t1) * y + t1 * (x % y) = t0 * y + t1 * (y * (x / y) + x % y) := by ring
          _ = lhs := by rw [hdm, hJ]
      by_cases hxw : x % y = 0
      · -- the residue is a multiple of the last word: `gcd_ext(0, y) = (y, 0, 1)`, so `|b| = t1`
        have hp : xgcdPrim (x % y) y = .ok (y, 0, 1) := by
          rw [hxw]; unfold xgcdPrim
          rw [if_neg (by omega), if_pos rfl]
        rw [hp] at h
        cases h
        simp only [Int.natAbs_zero, Nat.zero_mul, Nat.zero_add]
        show (1 : Int).natAbs * t1 < lhs
        simp only [Int.natAbs_one, Nat.one_mul]
        rw [hxw, Nat.mul_zero, Nat.add_zero] at hJ2
        have f1 : 1 * t1 ≤ x / y * t1 := Nat.mul_le_mul_right _ hq
        have f2 : (t0 + x / y * t1) * 1 ≤ (t0 + x / y * t1) * y := Nat.mul_le_mul_left _ hy0
        rcases hor with hpos | hxl
        · omega
        · -- still the initial `x = lhs`: then `t1·lhs ≤ lhs`, so `t1 = 1 < lhs`
          subst hxl
          have : t1 * x ≤ x := by omega
          have : t1 ≤ 1 := by
            by_contra hc
            have : 2 * x ≤ t1 * x := Nat.mul_le_mul_right _ (by omega)
            omega
          omega
      · have hml := Nat.mod_lt x hy0
        obtain ⟨pr, hpr, hb1, hb2⟩ := xgcdPrim_half_bound (a := x % y) (b := y) (by omega) hy0 (by omega)
        rw [hpr] at h
        obtain ⟨g, cx, cy⟩ := pr
        simp only [] at h hb1 hb2
        cases h
        show cx.natAbs * (t0 + x / y * t1) + cy.natAbs * t1 < lhs
        have f1 : 2 * cx.natAbs * (t0 + x / y * t1) ≤ y * (t0 + x / y * t1) := Nat.mul_le_mul_right _ hb1
        have f2 : 2 * cy.natAbs * t1 ≤ x % y * t1 := Nat.mul_le_mul_right _ hb2
        have f3 : (t0 + x / y * t1) * y = y * (t0 + x / y * t1) := Nat.mul_comm _ _
        have f4 : t1 * (x % y) = x % y * t1 := Nat.mul_comm _ _
        have f5 : 2 * cx.natAbs * (t0 + x / y * t1) = 2 * (cx.natAbs * (t0 + x / y * t1)) := Nat.mul_assoc _ _ _
        have f6 : 2 * cy.natAbs * t1 = 2 * (cy.natAbs * t1) := Nat.mul_assoc _ _ _
        omega

-- ---------------------------------------------------------------- the two-width loop of `gcd_ext_dword`

theorem XBound.nat {A B lastR r : Nat} {lastS s lastT t : Int} (h : XBound A B lastR r lastS s lastT t) :
    s.natAbs * lastR + lastS.natAbs * r = B ∧ t.natAbs * lastR + lastT.natAbs * r = A := by
  rcases h with ⟨h1, h2, h3, h4, h5, h6⟩ | ⟨h1, h2, h3, h4, h5, h6⟩
  · have es : (s.natAbs : Int) = -s := by omega
    have el : (lastS.natAbs : Int) = lastS := by omega
    have et : (t.natAbs : Int) = t := by omega
    have elt : (lastT.natAbs : Int) = -lastT := by omega
    constructor
    · apply Int.natCast_inj.mp
      rw [Nat.cast_add, Nat.cast_mul, Nat.cast_mul, es, el]; linarith
    · apply Int.natCast_inj.mp
      rw [Nat.cast_add, Nat.cast_mul, Nat.cast_mul, et, elt]; linarith
  · have es : (s.natAbs : Int) = s := by omega
    have el : (lastS.natAbs : Int) = -lastS := by omega
    have et : (t.natAbs : Int) = -t := by omega
    have elt : (lastT.natAbs : Int) = lastT := by omega
    constructor
    · apply Int.natCast_inj.mp
      rw [Nat.cast_add, Nat.cast_mul, Nat.cast_mul, es, el]; linarith
    · apply Int.natCast_inj.mp
      rw [Nat.cast_add, Nat.cast_mul, Nat.cast_mul, et, elt]; linarith

theorem natAbs_comb_le (cx cy u v : Int) :
    (cx * u + cy * v).natAbs ≤ cx.natAbs * u.natAbs + cy.natAbs * v.natAbs := by
  calc (cx * u + cy * v).natAbs ≤ (cx * u).natAbs + (cy * v).natAbs := Int.natAbs_add_le _ _
    _ = cx.natAbs * u.natAbs + cy.natAbs * v.natAbs := by rw [Int.natAbs_mul, Int.natAbs_mul]

/-- recombination `cx·s + cy·new_s` of the two-width loop: half-size inner cofactors keep the outer
    half-size bound -/
theorem XBound.combine {A B lastR r : Nat} {lastS s lastT t cx cy : Int}
    (h : XBound A B lastR r lastS s lastT t) (hcx : 2 * cx.natAbs ≤ r) (hcy : 2 * cy.natAbs ≤ lastR) :
    2 * (cx * lastS + cy * s).natAbs ≤ B ∧ 2 * (cx * lastT + cy * t).natAbs ≤ A := by
  obtain ⟨hB, hA⟩ := h.nat
  have k1 := natAbs_comb_le cx cy lastS s
  have k2 := natAbs_comb_le cx cy lastT t
  generalize cx.natAbs = X at *
  generalize cy.natAbs = Y at *
  generalize (cx * lastS + cy * s).natAbs = R1 at *
  generalize (cx * lastT + cy * t).natAbs = R2 at *
  generalize s.natAbs = S at *
  generalize lastS.natAbs = LS at *
  generalize t.natAbs = T at *
  generalize lastT.natAbs = LT at *
  have f1 : 2 * X * LS ≤ r * LS := Nat.mul_le_mul_right _ hcx
  have f2 : 2 * Y * S ≤ lastR * S := Nat.mul_le_mul_right _ hcy
  have f3 : 2 * X * LT ≤ r * LT := Nat.mul_le_mul_right _ hcx
  have f4 : 2 * Y * T ≤ lastR * T := Nat.mul_le_mul_right _ hcy
  have g1 : 2 * X * LS = 2 * (X * LS) := Nat.mul_assoc _ _ _
  have g2 : 2 * Y * S = 2 * (Y * S) := Nat.mul_assoc _ _ _
  have g3 : 2 * X * LT = 2 * (X * LT) := Nat.mul_assoc _ _ _
  have g4 : 2 * Y * T = 2 * (Y * T) := Nat.mul_assoc _ _ _
  have c1 : r * LS = LS * r := Nat.mul_comm _ _
  have c2 : lastR * S = S * lastR := Nat.mul_comm _ _
  have c3 : r * LT = LT * r := Nat.mul_comm _ _
  have c4 : lastR * T = T * lastR := Nat.mul_comm _ _
  constructor <;> omega

theorem xgcdLoopWide_bound (H A B : Nat) :
    ∀ (fuel lastR r : Nat) (lastS s lastT t : Int), r < fuel → 0 < r → r < lastR →
      XBound A B lastR r lastS s lastT t →
      2 * (xgcdLoopWide H fuel lastR r lastS s lastT t).2.1.natAbs ≤ B ∧
      2 * (xgcdLoopWide H fuel lastR r lastS s lastT t).2.2.natAbs ≤ A := by
  intro fuel
  induction fuel with
  | zero => intro lastR r _ _ _ _ h; omega
  | succ n ih =>
    intro lastR r lastS s lastT t hfuel hr hlt hX
    unfold xgcdLoopWide
    simp only []
    have hmod : lastR - lastR / r * r = lastR % r := by
      have := Nat.mod_add_div lastR r
      rw [Nat.mul_comm] at this; omega
    rw [hmod]
    have hml := Nat.mod_lt lastR hr
    split
    · split
      · exact hX.final hlt hr
      · exact ih r (lastR % r) _ _ _ _ (by omega) (by omega) hml hX.step
    · split
      · exact hX.final hlt hr
      · rename_i hne
        have hin := xgcdLoop_init_bound (a := r) (b := lastR % r) (by omega) hml
        generalize xgcdLoop (lastR % r + 1) r (lastR % r) 1 0 0 1 = inner at hin
        obtain ⟨g, cx, cy⟩ := inner
        simp only [] at hin ⊢
        exact hX.step.combine hin.1 hin.2

theorem xgcdLoopWide_init_bound (H : Nat) {a b : Nat} (hb : 0 < b) (hlt : b < a) :
    2 * (xgcdLoopWide H (b + 1) a b 1 0 0 1).2.1.natAbs ≤ b ∧
    2 * (xgcdLoopWide H (b + 1) a b 1 0 0 1).2.2.natAbs ≤ a :=
  xgcdLoopWide_bound H a b (b + 1) a b 1 0 0 1 (by omega) hb hlt
    (Or.inl ⟨by decide, by decide, by decide, by decide, by simp, by simp⟩)

/-- `impl ExtendedGcd for u128` (double words) on two different positive values: half-size cofactors -/
theorem xgcdPrimWide_bound (H : Nat) {a b : Nat} (ha : 0 < a) (hb : 0 < b) (hne : a ≠ b) :
    ∃ res, xgcdPrimWide H a b = .ok res ∧ 2 * res.2.1.natAbs ≤ b ∧ 2 * res.2.2.natAbs ≤ a := by
  unfold xgcdPrimWide
  rw [if_neg (by omega), if_neg (by omega), if_neg (by omega)]
  simp only []
  obtain ⟨⟨ca, hca⟩, ⟨cb, hcb⟩⟩ := two_pow_min_tz_dvd ha hb
  rw [tz_or ha hb]
  generalize min (trailingZeros a) (trailingZeros b) = sh at hca hcb
  have hp : 0 < 2 ^ sh := Nat.two_pow_pos _
  have ea : a / 2 ^ sh = ca := by rw [hca, Nat.mul_div_cancel_left _ hp]
  have eb : b / 2 ^ sh = cb := by rw [hcb, Nat.mul_div_cancel_left _ hp]
  rw [ea, eb]
  have hcapos : 0 < ca := by
    apply Nat.pos_of_ne_zero; intro h0; rw [h0] at hca; simp at hca; omega
  have hcbpos : 0 < cb := by
    apply Nat.pos_of_ne_zero; intro h0; rw [h0] at hcb; simp at hcb; omega
  have hcne : ca ≠ cb := by intro h; apply hne; rw [hca, hcb, h]
  have hale : ca ≤ a := by rw [hca]; exact Nat.le_mul_of_pos_left _ hp
  have hble : cb ≤ b := by rw [hcb]; exact Nat.le_mul_of_pos_left _ hp
  split
  · rename_i hge
    have hgt : cb < ca := by omega
    split
    · exact ⟨_, rfl, by simp, by simp; omega⟩
    · have := xgcdLoopWide_init_bound H hcbpos hgt
      generalize xgcdLoopWide H (cb + 1) ca cb 1 0 0 1 = res at this
      obtain ⟨g, s, t⟩ := res
      simp only [] at this
      exact ⟨_, rfl, by simp only []; omega, by simp only []; omega⟩
  · rename_i hge
    have hgt : ca < cb := by omega
    split
    · exact ⟨_, rfl, by simp; omega, by simp⟩
    · have := xgcdLoopWide_init_bound H hcapos hgt
      generalize xgcdLoopWide H (ca + 1) cb ca 1 0 0 1 = res at this
      obtain ⟨g, s, t⟩ := res
      simp only [] at this
      exact ⟨_, rfl, by simp only []; omega, by simp only []; omega⟩

/-- **range claim of `gcd_ext_word` / `gcd_ext_dword`**: the recovered `|b| = q·|t| + |s|` is below `lhs` -/
theorem gcdExtSmall_range (W : Nat) {lhs rhs : Nat} (h0 : 0 < rhs) (hlt : rhs < lhs)
    {g : Nat} {a : Int} {bMag : Nat} {bNeg : Bool} (h : gcdExtSmall W lhs rhs = .ok (g, a, bMag, bNeg)) :
    bMag < lhs := by
  unfold gcdExtSmall at h
  simp only [] at h
  split at h
  · cases h; omega
  · rename_i hrem
    have hml := Nat.mod_lt lhs h0
    have hdm := Nat.div_add_mod lhs rhs
    have hprim : ∃ res, (if rhs < 2 ^ W then xgcdPrim rhs (lhs % rhs) else xgcdPrimWide W rhs (lhs % rhs))
        = .ok res ∧ 2 * res.2.1.natAbs ≤ lhs % rhs ∧ 2 * res.2.2.natAbs ≤ rhs := by
      split
      · exact xgcdPrim_half_bound h0 (by omega) (by omega)
      · exact xgcdPrimWide_bound W h0 (by omega) (by omega)
    obtain ⟨res, hres, hb1, hb2⟩ := hprim
    rw [hres] at h
    obtain ⟨r, s, t⟩ := res
    simp only [] at h hb1 hb2
    have f1 : lhs / rhs * (2 * t.natAbs) ≤ lhs / rhs * rhs := Nat.mul_le_mul_left _ hb2
    have f2 : lhs / rhs * (2 * t.natAbs) = 2 * (lhs / rhs * t.natAbs) := by ring
    have f3 : lhs / rhs * rhs = rhs * (lhs / rhs) := Nat.mul_comm _ _
    cases h
    omega

-- ---------------------------------------------------------------- `inv_large` = the specified inverse

theorem inv_unique {m u t t' : Nat} (hco : Nat.gcd u m = 1) (ht : t < m) (ht' : t' < m)
    (h1 : t * u ≡ 1 [MOD m]) (h2 : t' * u ≡ 1 [MOD m]) : t' = t := by
  have h : t' * u ≡ t * u [MOD m] := h2.trans h1.symm
  have hc : Nat.gcd m u = 1 := by rw [Nat.gcd_comm]; exact hco
  exact Nat.ModEq.eq_of_lt_of_lt (Nat.ModEq.cancel_right_of_coprime hc h) ht' ht

/-- tail of `inv_large`: given the gcd, a cofactor magnitude **in range** and the congruence the
    extended-gcd kernels guarantee, the value returned is the one `invm` specifies -/
theorem invLargeFinish_eq {W : Nat} {r : Ring} (hwf : r.WF W) (hk : r.kind = .large) {u g B : Nat} {neg : Bool}
    (hg : g = Nat.gcd r.m u) (hB : B < r.m)
    (hd : (r.m : Int) ∣ g - (if neg then -(B : Int) else B) * u) :
    invLargeFinish r (g == 1) B neg = (invm u r.m).map (· * 2 ^ r.k) := by
  have hm := hwf.mpos
  have hm2 : 1 < r.m := by
    have := hwf.m_large hk
    have : 1 < 2 ^ (2 * W) := Nat.one_lt_two_pow (by have := hwf.hW; omega)
    omega
  obtain ⟨hsome, hiff⟩ := invm_spec (x := u) hm
  unfold invLargeFinish
  by_cases hg1 : g = 1
  · have hco : Nat.gcd u r.m = 1 := by rw [Nat.gcd_comm, ← hg, hg1]
    have his := hiff.2 hco
    cases hinv : invm u r.m with
    | none => rw [hinv] at his; simp at his
    | some t =>
      obtain ⟨ht1, ht2⟩ := hsome t hinv
      subst hg1
      simp only [beq_self_eq_true, Bool.not_true, Bool.false_eq_true, if_false, Option.map_some]
      congr 1
      cases neg
      · simp only [Bool.false_eq_true, if_false] at hd ⊢
        have hB1 : B * u ≡ 1 [MOD r.m] := by
          apply (Nat.modEq_iff_dvd).2
          obtain ⟨w, hw⟩ := hd
          exact ⟨w, by push_cast at hw ⊢; linear_combination hw⟩
        rw [inv_unique hco ht2 hB ht1 hB1]
      · simp only [if_true] at hd ⊢
        rw [negRaw_eq hB]
        congr 1
        have hBpos : 0 < B := by
          apply Nat.pos_of_ne_zero; intro h0; subst h0
          obtain ⟨w, hw⟩ := hd
          simp at hw
          have h1 : (r.m : Int) ∣ 1 := ⟨w, hw⟩
          have := Int.eq_one_of_dvd_one (Int.natCast_nonneg _) h1
          omega
        rw [Nat.mod_eq_of_lt (by omega)]
        have hB1 : (r.m - B) * u ≡ 1 [MOD r.m] := by
          apply (Nat.modEq_iff_dvd).2
          obtain ⟨w, hw⟩ := hd
          refine ⟨w - u, ?_⟩
          push_cast [Nat.cast_sub (Nat.le_of_lt hB)] at hw ⊢
          linear_combination hw
        exact inv_unique hco ht2 (by omega) ht1 hB1
  · have hne : (g == 1) = false := by simpa using hg1
    rw [hne]
    simp only [Bool.not_false, if_true]
    cases hinv : invm u r.m with
    | none => rfl
    | some t =>
      exfalso
      have : (invm u r.m).isSome := by rw [hinv]; rfl
      have := hiff.1 this
      rw [Nat.gcd_comm, ← hg] at this
      exact hg1 this

/-- **`inv_large` is a corollary of the extended-gcd kernels + the range claim**: on a valid residue of a
    multi-word ring the mirrored `inv_large` (C12's `gcd_ext_word/_dword` and Lehmer `gcd_ext_in_place`)
    never fails and returns exactly what the `%`-level model (`invm`, the unique inverse) specifies -/
theorem invLarge_eq {W : Nat} {r : Ring} (hwf : r.WF W) (hk : r.kind = .large) {u : Nat} (hu : u < r.m) :
    invLarge W r (u * 2 ^ r.k) = .ok (invRaw r (u * 2 ^ r.k)) := by
  have hW := hwf.hW
  have hp : 0 < 2 ^ r.k := Nat.two_pow_pos _
  have hmod : r.M / 2 ^ r.k = r.m := by unfold Ring.M; exact Nat.mul_div_cancel _ hp
  have hspec : invRaw r (u * 2 ^ r.k) = if u = 0 then none else (invm u r.m).map (· * 2 ^ r.k) := by
    unfold invRaw; rw [hk]; simp only [Nat.mul_div_cancel _ hp]
  rw [hspec]
  unfold invLarge
  simp only [hmod, Nat.mul_div_cancel _ hp]
  by_cases h0 : wordLen W u = 0
  · rw [if_pos h0]
    have : u = 0 := by
      have := lt_two_pow_wordLen hW u
      rw [h0] at this; simpa using this
    rw [if_pos this]
  · rw [if_neg h0]
    have hupos : 0 < u := by
      apply Nat.pos_of_ne_zero; intro h; subst h
      exact h0 (wordLen_zero hW)
    have hune : ¬ u = 0 := by omega
    rw [if_neg hune]
    by_cases h2 : wordLen W u ≤ 2
    · rw [if_pos h2]
      obtain ⟨g, a, bMag, bNeg, heq, hbz⟩ := gcdExtSmall_spec W r.m u hupos
      have hrange := gcdExtSmall_range W hupos hu heq
      rw [heq]
      simp only []
      congr 1
      obtain ⟨hg, hb⟩ := hbz
      simp only [] at hg hb
      apply invLargeFinish_eq hwf hk hg hrange
      exact ⟨a, by cases bNeg <;> simp only [Bool.false_eq_true, if_false, if_true] at hb ⊢ <;> linear_combination -hb⟩
    · rw [if_neg h2]
      obtain ⟨res, heq, hc⟩ := lehmerExt_correct W hW r.m u hupos hu
      have hrange := lehmerExt_range W hW r.m u hupos hu res heq
      obtain ⟨g, bMag, bNeg⟩ := res
      rw [heq]
      simp only [] at hrange hc ⊢
      congr 1
      obtain ⟨hg, hc2⟩ := hc
      simp only [] at hg hc2
      apply invLargeFinish_eq hwf hk hg hrange
      cases bNeg
      · simp only [Bool.false_eq_true, if_false] at hc2 ⊢
        obtain ⟨hle, w, hw⟩ := hc2
        have hw' : ((u * bMag - g : Nat) : Int) = (r.m : Int) * w := by exact_mod_cast hw
        rw [Nat.cast_sub hle] at hw'
        exact ⟨-w, by push_cast at hw'; linear_combination -hw'⟩
      · simp only [if_true] at hc2 ⊢
        obtain ⟨w, hw⟩ := hc2
        have hw' : ((u * bMag + g : Nat) : Int) = (r.m : Int) * w := by exact_mod_cast hw
        exact ⟨w, by push_cast at hw'; linear_combination hw'⟩

/-- `Reduced::inv` with the mirrored `inv_large`, on every valid element of every well-formed ring -/
theorem invRawK_eq {W : Nat} {r : Ring} (hwf : r.WF W) {u : Nat} (hu : u < r.m) :
    invRawK W r (u * 2 ^ r.k) = .ok (invRaw r (u * 2 ^ r.k)) := by
  unfold invRawK
  cases hk : r.kind with
  | large => exact invLarge_eq hwf hk hu
  | single => rfl
  | double => rfl

end Dashu.Model.NT
