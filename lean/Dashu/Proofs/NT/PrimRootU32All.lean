import Dashu.Proofs.NT.PrimRootU32A
import Dashu.Proofs.NT.PrimRootU32B
import Dashu.Proofs.NT.PrimRootU32C
import Dashu.Proofs.NT.PrimRootU32D
import Mathlib.Tactic.IntervalCases
/-
  C12 (Round 5): the `u32` primitive roots never overflow and are exact on all 2^32 values (collects the chunk theorems).
-/
namespace Dashu.Model.NT

theorem sqrt_u32_okH (h : Nat) (h1 : 16384 ≤ h) (h2 : h < 65536) : sqrtU32OkH h = true := by
  obtain ⟨k, hk1, hk2, hlo, hhi⟩ : ∃ k, 16 ≤ k ∧ k < 64 ∧ 1024 * k ≤ h ∧ h < 1024 * k + 1024 := ⟨h / 1024, by omega, by omega, by omega, by omega⟩
  interval_cases k
  · exact allFrom_spec _ 1024 16384 sqrt_u32_c16 h (by omega) (by omega)
  · exact allFrom_spec _ 1024 17408 sqrt_u32_c17 h (by omega) (by omega)
  · exact allFrom_spec _ 1024 18432 sqrt_u32_c18 h (by omega) (by omega)
  · exact allFrom_spec _ 1024 19456 sqrt_u32_c19 h (by omega) (by omega)
  · exact allFrom_spec _ 1024 20480 sqrt_u32_c20 h (by omega) (by omega)
  · exact allFrom_spec _ 1024 21504 sqrt_u32_c21 h (by omega) (by omega)
  · exact allFrom_spec _ 1024 22528 sqrt_u32_c22 h (by omega) (by omega)
  · exact allFrom_spec _ 1024 23552 sqrt_u32_c23 h (by omega) (by omega)
  · exact allFrom_spec _ 1024 24576 sqrt_u32_c24 h (by omega) (by omega)
  · exact allFrom_spec _ 1024 25600 sqrt_u32_c25 h (by omega) (by omega)
  · exact allFrom_spec _ 1024 26624 sqrt_u32_c26 h (by omega) (by omega)
  · exact allFrom_spec _ 1024 27648 sqrt_u32_c27 h (by omega) (by omega)
  · exact allFrom_spec _ 1024 28672 sqrt_u32_c28 h (by omega) (by omega)
  · exact allFrom_spec _ 1024 29696 sqrt_u32_c29 h (by omega) (by omega)
  · exact allFrom_spec _ 1024 30720 sqrt_u32_c30 h (by omega) (by omega)
  · exact allFrom_spec _ 1024 31744 sqrt_u32_c31 h (by omega) (by omega)
  · exact allFrom_spec _ 1024 32768 sqrt_u32_c32 h (by omega) (by omega)
  · exact allFrom_spec _ 1024 33792 sqrt_u32_c33 h (by omega) (by omega)
  · exact allFrom_spec _ 1024 34816 sqrt_u32_c34 h (by omega) (by omega)
  · exact allFrom_spec _ 1024 35840 sqrt_u32_c35 h (by omega) (by omega)
  · exact allFrom_spec _ 1024 36864 sqrt_u32_c36 h (by omega) (by omega)
  · exact allFrom_spec _ 1024 37888 sqrt_u32_c37 h (by omega) (by omega)
  · exact allFrom_spec _ 1024 38912 sqrt_u32_c38 h (by omega) (by omega)
  · exact allFrom_spec _ 1024 39936 sqrt_u32_c39 h (by omega) (by omega)
  · exact allFrom_spec _ 1024 40960 sqrt_u32_c40 h (by omega) (by omega)
  · exact allFrom_spec _ 1024 41984 sqrt_u32_c41 h (by omega) (by omega)
  · exact allFrom_spec _ 1024 43008 sqrt_u32_c42 h (by omega) (by omega)
  · exact allFrom_spec _ 1024 44032 sqrt_u32_c43 h (by omega) (by omega)
  · exact allFrom_spec _ 1024 45056 sqrt_u32_c44 h (by omega) (by omega)
  · exact allFrom_spec _ 1024 46080 sqrt_u32_c45 h (by omega) (by omega)
  · exact allFrom_spec _ 1024 47104 sqrt_u32_c46 h (by omega) (by omega)
  · exact allFrom_spec _ 1024 48128 sqrt_u32_c47 h (by omega) (by omega)
  · exact allFrom_spec _ 1024 49152 sqrt_u32_c48 h (by omega) (by omega)
  · exact allFrom_spec _ 1024 50176 sqrt_u32_c49 h (by omega) (by omega)
  · exact allFrom_spec _ 1024 51200 sqrt_u32_c50 h (by omega) (by omega)
  · exact allFrom_spec _ 1024 52224 sqrt_u32_c51 h (by omega) (by omega)
  · exact allFrom_spec _ 1024 53248 sqrt_u32_c52 h (by omega) (by omega)
  · exact allFrom_spec _ 1024 54272 sqrt_u32_c53 h (by omega) (by omega)
  · exact allFrom_spec _ 1024 55296 sqrt_u32_c54 h (by omega) (by omega)
  · exact allFrom_spec _ 1024 56320 sqrt_u32_c55 h (by omega) (by omega)
  · exact allFrom_spec _ 1024 57344 sqrt_u32_c56 h (by omega) (by omega)
  · exact allFrom_spec _ 1024 58368 sqrt_u32_c57 h (by omega) (by omega)
  · exact allFrom_spec _ 1024 59392 sqrt_u32_c58 h (by omega) (by omega)
  · exact allFrom_spec _ 1024 60416 sqrt_u32_c59 h (by omega) (by omega)
  · exact allFrom_spec _ 1024 61440 sqrt_u32_c60 h (by omega) (by omega)
  · exact allFrom_spec _ 1024 62464 sqrt_u32_c61 h (by omega) (by omega)
  · exact allFrom_spec _ 1024 63488 sqrt_u32_c62 h (by omega) (by omega)
  · exact allFrom_spec _ 1024 64512 sqrt_u32_c63 h (by omega) (by omega)

theorem cbrt_u32_okH (h : Nat) (h1 : 8192 ≤ h) (h2 : h < 65536) : cbrtU32OkH h = true := by
  obtain ⟨k, hk1, hk2, hlo, hhi⟩ : ∃ k, 8 ≤ k ∧ k < 64 ∧ 1024 * k ≤ h ∧ h < 1024 * k + 1024 := ⟨h / 1024, by omega, by omega, by omega, by omega⟩
  interval_cases k
  · exact allFrom_spec _ 1024 8192 cbrt_u32_c8 h (by omega) (by omega)
  · exact allFrom_spec _ 1024 9216 cbrt_u32_c9 h (by omega) (by omega)
  · exact allFrom_spec _ 1024 10240 cbrt_u32_c10 h (by omega) (by omega)
  · exact allFrom_spec _ 1024 11264 cbrt_u32_c11 h (by omega) (by omega)
  · exact allFrom_spec _ 1024 12288 cbrt_u32_c12 h (by omega) (by omega)
  · exact allFrom_spec _ 1024 13312 cbrt_u32_c13 h (by omega) (by omega)
  · exact allFrom_spec _ 1024 14336 cbrt_u32_c14 h (by omega) (by omega)
  · exact allFrom_spec _ 1024 15360 cbrt_u32_c15 h (by omega) (by omega)
  · exact allFrom_spec _ 1024 16384 cbrt_u32_c16 h (by omega) (by omega)
  · exact allFrom_spec _ 1024 17408 cbrt_u32_c17 h (by omega) (by omega)
  · exact allFrom_spec _ 1024 18432 cbrt_u32_c18 h (by omega) (by omega)
  · exact allFrom_spec _ 1024 19456 cbrt_u32_c19 h (by omega) (by omega)
  · exact allFrom_spec _ 1024 20480 cbrt_u32_c20 h (by omega) (by omega)
  · exact allFrom_spec _ 1024 21504 cbrt_u32_c21 h (by omega) (by omega)
  · exact allFrom_spec _ 1024 22528 cbrt_u32_c22 h (by omega) (by omega)
  · exact allFrom_spec _ 1024 23552 cbrt_u32_c23 h (by omega) (by omega)
  · exact allFrom_spec _ 1024 24576 cbrt_u32_c24 h (by omega) (by omega)
  · exact allFrom_spec _ 1024 25600 cbrt_u32_c25 h (by omega) (by omega)
  · exact allFrom_spec _ 1024 26624 cbrt_u32_c26 h (by omega) (by omega)
  · exact allFrom_spec _ 1024 27648 cbrt_u32_c27 h (by omega) (by omega)
  · exact allFrom_spec _ 1024 28672 cbrt_u32_c28 h (by omega) (by omega)
  · exact allFrom_spec _ 1024 29696 cbrt_u32_c29 h (by omega) (by omega)
  · exact allFrom_spec _ 1024 30720 cbrt_u32_c30 h (by omega) (by omega)
  · exact allFrom_spec _ 1024 31744 cbrt_u32_c31 h (by omega) (by omega)
  · exact allFrom_spec _ 1024 32768 cbrt_u32_c32 h (by omega) (by omega)
  · exact allFrom_spec _ 1024 33792 cbrt_u32_c33 h (by omega) (by omega)
  · exact allFrom_spec _ 1024 34816 cbrt_u32_c34 h (by omega) (by omega)
  · exact allFrom_spec _ 1024 35840 cbrt_u32_c35 h (by omega) (by omega)
  · exact allFrom_spec _ 1024 36864 cbrt_u32_c36 h (by omega) (by omega)
  · exact allFrom_spec _ 1024 37888 cbrt_u32_c37 h (by omega) (by omega)
  · exact allFrom_spec _ 1024 38912 cbrt_u32_c38 h (by omega) (by omega)
  · exact allFrom_spec _ 1024 39936 cbrt_u32_c39 h (by omega) (by omega)
  · exact allFrom_spec _ 1024 40960 cbrt_u32_c40 h (by omega) (by omega)
  · exact allFrom_spec _ 1024 41984 cbrt_u32_c41 h (by omega) (by omega)
  · exact allFrom_spec _ 1024 43008 cbrt_u32_c42 h (by omega) (by omega)
  · exact allFrom_spec _ 1024 44032 cbrt_u32_c43 h (by omega) (by omega)
  · exact allFrom_spec _ 1024 45056 cbrt_u32_c44 h (by omega) (by omega)
  · exact allFrom_spec _ 1024 46080 cbrt_u32_c45 h (by omega) (by omega)
  · exact allFrom_spec _ 1024 47104 cbrt_u32_c46 h (by omega) (by omega)
  · exact allFrom_spec _ 1024 48128 cbrt_u32_c47 h (by omega) (by omega)
  · exact allFrom_spec _ 1024 49152 cbrt_u32_c48 h (by omega) (by omega)
  · exact allFrom_spec _ 1024 50176 cbrt_u32_c49 h (by omega) (by omega)
  · exact allFrom_spec _ 1024 51200 cbrt_u32_c50 h (by omega) (by omega)
  · exact allFrom_spec _ 1024 52224 cbrt_u32_c51 h (by omega) (by omega)
  · exact allFrom_spec _ 1024 53248 cbrt_u32_c52 h (by omega) (by omega)
  · exact allFrom_spec _ 1024 54272 cbrt_u32_c53 h (by omega) (by omega)
  · exact allFrom_spec _ 1024 55296 cbrt_u32_c54 h (by omega) (by omega)
  · exact allFrom_spec _ 1024 56320 cbrt_u32_c55 h (by omega) (by omega)
  · exact allFrom_spec _ 1024 57344 cbrt_u32_c56 h (by omega) (by omega)
  · exact allFrom_spec _ 1024 58368 cbrt_u32_c57 h (by omega) (by omega)
  · exact allFrom_spec _ 1024 59392 cbrt_u32_c58 h (by omega) (by omega)
  · exact allFrom_spec _ 1024 60416 cbrt_u32_c59 h (by omega) (by omega)
  · exact allFrom_spec _ 1024 61440 cbrt_u32_c60 h (by omega) (by omega)
  · exact allFrom_spec _ 1024 62464 cbrt_u32_c61 h (by omega) (by omega)
  · exact allFrom_spec _ 1024 63488 cbrt_u32_c62 h (by omega) (by omega)
  · exact allFrom_spec _ 1024 64512 cbrt_u32_c63 h (by omega) (by omega)

/-- **`u32::sqrt_rem` never overflows**: the mirrored routine (table lookup, Newton steps in wrapping / checked `u16` / `u32`
    arithmetic, `saturating_mul`, `fix_sqrt_error!`, normalising wrapper) answers on every value of the type -/
theorem sqrtRemU32_total {x : Nat} (hx : x < 2 ^ 32) : ∃ r, sqrtRemPrimBits 32 x = some r :=
  sqrtRemU32_total_of sqrt_u32_okH hx

/-- **`u32::cbrt_rem` never overflows** -/
theorem cbrtRemU32_total {x : Nat} (hx : x < 2 ^ 32) : ∃ r, cbrtRemPrimBits 32 x = some r :=
  cbrtRemU32_total_of cbrt_u32_okH hx

end Dashu.Model.NT
