import Dashu.Proofs.NT.PrimRootU128
import Dashu.Proofs.NT.PrimRootU32
/-
  C12 (Round 5): `<u128 as NormalizedRootRem>::normalized_sqrt_rem` adds NO overflow of its own: it answers on every
  normalised value on which the `u64` routine answers on the high half.  (Totality of `u128::sqrt_rem` is thereby
  reduced to totality of the `u64` Newton routine.)
-/
namespace Dashu.Model.NT
open Dashu.Model

theorem guardO_true : guardO true = some () := rfl

set_option maxRecDepth 65536 in
theorem normSqrtU128_total_of_u64 {n : Nat} (hlo : 2 ^ 126 ≤ n) (hhi : n < 2 ^ 128)
    (h64 : ∃ r, normSqrtU64 (n / 2 ^ 64) = some r) : ∃ res, normSqrtU128 n = some res := by
  obtain ⟨⟨s1, r1⟩, h64⟩ := h64
  obtain ⟨hroot, hrem⟩ := normSqrtU64_sound _ _ h64
  simp only [] at hroot hrem
  unfold normSqrtU128
  simp only [Option.bind_eq_bind, h64, obind_some]
  have hndm := Nat.div_add_mod n (2 ^ 64)
  have hblt := Nat.mod_lt n (show 0 < 2 ^ 64 by decide)
  simp only [Nat.reducePow] at hlo hhi hndm hblt hroot hrem ⊢
  have halo : 4611686018427387904 ≤ n / 18446744073709551616 := by omega
  have hahi : n / 18446744073709551616 < 18446744073709551616 := by omega
  generalize n / 18446744073709551616 = a at *
  generalize n % 18446744073709551616 = b at *
  rw [Nat.pow_two] at hrem
  have hr1 := rem_le_of_isRoot hroot
  have hr1le : r1 ≤ 2 * s1 := by omega
  have hM1 : (4294967296 : Nat) * 4294967296 = 18446744073709551616 := by norm_num
  have hM2 : (2147483648 : Nat) * 2147483648 = 4611686018427387904 := by norm_num
  have hs1lt : s1 < 4294967296 := root_lt (M := 4294967296) hrem (by rw [hM1]; omega)
  have hs1n : 2 * 2147483648 ≤ 2 * s1 := root_normalised (Mhh := 2147483648) hrem hr1le (by rw [hM2]; omega)
  have hs1ne : decide (s1 ≠ 0) = true := by simp; omega
  rw [hs1ne, guardO_true]
  simp only [obind_some]
  have or31 : ∀ x y : Nat, y < 2147483648 → (2147483648 * x ||| y) = 2147483648 * x + y :=
    fun x y hy => (Nat.two_pow_add_eq_or_of_lt (i := 31) hy x).symm
  have or32 : ∀ x y : Nat, y < 4294967296 → (4294967296 * x ||| y) = 4294967296 * x + y :=
    fun x y hy => (Nat.two_pow_add_eq_or_of_lt (i := 32) hy x).symm
  have or33 : ∀ x y : Nat, y < 8589934592 → (8589934592 * x ||| y) = 8589934592 * x + y :=
    fun x y hy => (Nat.two_pow_add_eq_or_of_lt (i := 33) hy x).symm
  have e1 : r1 * 2147483648 % 18446744073709551616 = 2147483648 * r1 := by omega
  have e2 : s1 * 4294967296 % 18446744073709551616 = 4294967296 * s1 := by
    rw [Nat.mod_eq_of_lt (by
      have : s1 * 4294967296 < 4294967296 * 4294967296 := Nat.mul_lt_mul_of_pos_right hs1lt (by decide)
      rw [hM1] at this; exact this), Nat.mul_comm]
  rw [e1, or31 _ _ (by omega)]
  simp only [e2]
  have hr0 : 2 * (2147483648 * r1 + b / 8589934592) + b / 4294967296 % 2 = r1 * 4294967296 + b / 4294967296 := by omega
  generalize 2147483648 * r1 + b / 8589934592 = r0 at *
  have hdm := Nat.div_add_mod r0 s1
  have hu0 := Nat.mod_lt r0 (show 0 < s1 by omega)
  have hq0 : r0 / s1 < 4294967296 + 1 := by
    rw [Nat.div_lt_iff_lt_mul (by omega)]
    have e : (4294967296 + 1) * s1 = 4294967296 * s1 + s1 := by ring
    omega
  generalize r0 / s1 = q0 at *
  generalize r0 % s1 = u0 at *
  -- the quotient / remainder pair after the `q >= B` reduction
  obtain ⟨q, u, hpair, hqlt, hr0', hcase⟩ : ∃ q u,
      (if q0 / 4294967296 > 0 then (ck 64 ((u0 : Int) + (s1 : Int))).bind fun a => pure (q0 - 1, a) else some (q0, u0))
        = some (q, u) ∧ q < 4294967296 ∧ r0 = s1 * q + u ∧ (u < s1 ∨ (2147483648 ≤ u ∧ u < 2 * 4294967296)) := by
    by_cases hq : q0 < 4294967296
    · have : ¬ (q0 / 4294967296 > 0) := by omega
      exact ⟨q0, u0, by rw [if_neg this], hq, hdm.symm, Or.inl hu0⟩
    · have hq0e : q0 = 4294967296 := by omega
      have : q0 / 4294967296 > 0 := by omega
      refine ⟨q0 - 1, u0 + s1, ?_, by omega, ?_, Or.inr ⟨by omega, by omega⟩⟩
      · rw [if_pos this, ck_eq (m := u0 + s1) (by push_cast; ring) (by simp only [Nat.reducePow]; omega), obind_some]; rfl
      · have : s1 * q0 = s1 * (q0 - 1) + s1 := by
          have : q0 = (q0 - 1) + 1 := by omega
          conv => lhs; rw [this, Nat.mul_succ]
        omega
  rw [hpair]
  simp only [obind_some]
  have hqq : q * q ≤ 4294967295 * 4294967295 := Nat.mul_le_mul (by omega) (by omega)
  rw [ck_eq (m := q * q) (by push_cast; ring) (by simp only [Nat.reducePow]; omega)]
  simp only [obind_some]
  have hM3 : (2147483648 : Nat) * 8589934592 = 18446744073709551616 := by norm_num
  have e3 : u * 8589934592 % 18446744073709551616 = 8589934592 * (u % 2147483648) := by
    rw [← hM3, Nat.mul_mod_mul_right, Nat.mul_comm]
  rw [e3, or33 _ _ (by omega), or32 _ _ hqlt]
  have hc0 : u / 2147483648 % 256 = u / 2147483648 := by omega
  rw [hc0]
  have hrwlt : 8589934592 * (u % 2147483648) + b % 8589934592 < 18446744073709551616 := by omega
  have hrwU : u < 2147483648 → 8589934592 * (u % 2147483648) + b % 8589934592
      = (u * 2 + b / 4294967296 % 2) * 4294967296 + b % 4294967296 := by intro _; omega
  generalize 8589934592 * (u % 2147483648) + b % 8589934592 = rw at *
  by_cases hb : rw < q * q
  · simp only [if_pos hb]
    by_cases hc : ((u / 2147483648 : Nat) : Int) - 1 < 0
    · rw [if_pos hc]
      have hu31 : u < 2147483648 := by omega
      have hult : u < s1 := by omega
      rw [ck_eq (m := 4294967296 * s1 + q - 1) (by omega) (by simp only [Nat.reducePow]; omega)]
      simp only [obind_some]
      -- one decrement repairs the negative remainder (Zimmermann)
      have hdiv : r1 * 4294967296 + b / 4294967296 = 2 * q * s1 + (u * 2 + b / 4294967296 % 2) := by
        rw [← hr0, hr0']; ring
      obtain ⟨_, _, _, h4, _⟩ := karatsuba_step (hi := a) (b0 := b % 4294967296) hrem.symm hr1le (by omega)
        (show b / 4294967296 < 4294967296 by omega) (show b % 4294967296 < 4294967296 by omega) hdiv (by omega)
      have hrwe := hrwU hu31
      have hneg : (((u * 2 + b / 4294967296 % 2) * 4294967296 + b % 4294967296 : Nat) : Int) - ((q * q : Nat) : Int) < 0 := by
        rw [← hrwe]; omega
      obtain ⟨h5, _⟩ := h4 hneg
      rw [← hrwe] at h5
      have hkey : q * q + 1 ≤ rw + 2 * (s1 * 4294967296 + q) := by omega
      have hmod : (rw + 18446744073709551616 - q * q) % 18446744073709551616 = rw + 18446744073709551616 - q * q :=
        Nat.mod_eq_of_lt (by omega)
      rw [hmod]
      generalize q * q = qq at *
      have hfin : ¬ ((((u / 2147483648 : Nat) : Int) - 1 +
          ((((rw + 18446744073709551616 - qq + (4294967296 * s1 + q)) / 18446744073709551616 : Nat)) : Int) +
          (((((rw + 18446744073709551616 - qq + (4294967296 * s1 + q)) % 18446744073709551616 + (4294967296 * s1 + q - 1)) / 18446744073709551616 : Nat)) : Int)) < 0) := by
        omega
      rw [if_neg hfin]
      exact ⟨_, rfl⟩
    · rw [if_neg hc]; exact ⟨_, rfl⟩
  · simp only [if_neg hb]
    have hc : ¬ (((u / 2147483648 : Nat) : Int) - 0 < 0) := by omega
    rw [if_neg hc]; exact ⟨_, rfl⟩



/-- `sqrtRemNorm_total` with soundness required on normalised values only -/
theorem sqrtRemNorm_total' {bits : Nat} (hbe : bits % 2 = 0) {norm : Nat → Option (Nat × Nat)}
    (hs : ∀ y, 2 ^ (bits - 2) ≤ y → y < 2 ^ bits → ∀ r, norm y = some r → IsRoot y 2 r.1 ∧ r.1 ^ 2 + r.2 = y)
    (ht : ∀ y, 2 ^ (bits - 2) ≤ y → y < 2 ^ bits → ∃ r, norm y = some r) {x : Nat} (hx : x < 2 ^ bits) :
    ∃ r, sqrtRemNorm bits norm x = some r := by
  unfold sqrtRemNorm
  by_cases h0 : x = 0
  · rw [if_pos h0]; exact ⟨_, rfl⟩
  · rw [if_neg h0]
    have hbl : bitLen x ≤ bits := bitLen_le_of_lt hx
    have hsh : lzOf bits x / 2 * 2 ≤ lzOf bits x := by omega
    have hlt := shifted_lt hx hsh
    have hge : 2 ^ (bits - 2) ≤ x * 2 ^ (lzOf bits x / 2 * 2) :=
      shifted_norm_ge (k := 1) h0 (by unfold lzOf; omega)
    obtain ⟨⟨root, rem⟩, hnorm⟩ := ht _ hge hlt
    obtain ⟨hroot, _⟩ := hs _ hge hlt _ hnorm
    simp only [] at hroot
    simp only [Option.bind_eq_bind, Nat.mod_eq_of_lt hlt, hnorm, Option.bind_some]
    generalize lzOf bits x / 2 = t at *
    by_cases hs0 : t * 2 ≠ 0
    · rw [if_pos hs0]
      have e5 : t * 2 / 2 = t := by omega
      have e4 : (2 : Nat) ^ (t * 2) = (2 ^ t) ^ 2 := by rw [Nat.mul_comm, Nat.pow_mul, ← Nat.pow_mul, Nat.mul_comm, Nat.pow_mul]
      rw [e4] at hroot
      have hd := sq_le_of_isRoot (root_denormalise (by decide) hroot)
      rw [e5]
      generalize root / 2 ^ t = q at *
      rw [ck_eq (m := q * q) (by push_cast; ring) (by omega)]
      simp only [Option.bind_some]
      rw [ck_eq (m := x - q * q) (by omega) (by omega)]
      exact ⟨_, rfl⟩
    · rw [if_neg hs0]; exact ⟨_, rfl⟩

/-- **`u128::sqrt_rem` answers wherever the `u64` routine does**: if `<u64>::normalized_sqrt_rem` never overflows on
    normalised operands, `u128::sqrt_rem` never overflows on any operand -/
theorem sqrtRemU128_total_of_u64 (h64 : ∀ y, 2 ^ 62 ≤ y → y < 2 ^ 64 → ∃ r, normSqrtU64 y = some r)
    {x : Nat} (hx : x < 2 ^ 128) : ∃ r, sqrtRemPrimBits 128 x = some r :=
  sqrtRemNorm_total' (bits := 128) (by decide)
    (fun _ hy1 hy2 _ hr => normSqrtU128_sound hy1 hy2 hr)
    (fun y hy1 hy2 => normSqrtU128_total_of_u64 hy1 hy2 (h64 _
      (by rw [Nat.le_div_iff_mul_le (Nat.two_pow_pos _), ← Nat.pow_add]; exact hy1)
      (by rw [Nat.div_lt_iff_lt_mul (Nat.two_pow_pos _), ← Nat.pow_add]; exact hy2))) hx

/-- `u64::sqrt_rem` answers on every operand if the normalised routine answers on normalised operands -/
theorem sqrtRemU64_total_of_norm (h64 : ∀ y, 2 ^ 62 ≤ y → y < 2 ^ 64 → ∃ r, normSqrtU64 y = some r)
    {x : Nat} (hx : x < 2 ^ 64) : ∃ r, sqrtRemPrimBits 64 x = some r :=
  sqrtRemNorm_total (bits := 64) (by decide) normSqrtU64_sound h64 hx

end Dashu.Model.NT
