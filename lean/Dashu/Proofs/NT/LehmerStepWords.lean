import Dashu.Model.NT.LehmerStepWords
import Dashu.Proofs.Int.Word
import Mathlib.Tactic.Ring
import Mathlib.Tactic.Linarith
import Mathlib.Tactic.LinearCombination
namespace Dashu.Model.NT
open Dashu.Model

/-- one signed accumulation `a·x − b·y + carry`: in range, and its high word is a signed word again -/
theorem step_acc_bound {H B : Int} {a b x y cx : Int} (hB : B = 2 * H) (hH : 1 ≤ H)
    (ha0 : 0 ≤ a) (ha : a < H) (hb0 : 0 ≤ b) (hb : b < H) (hx0 : 0 ≤ x) (hx : x < B) (hy0 : 0 ≤ y) (hy : y < B)
    (hc0 : -H ≤ cx) (hc : cx < H) :
    -(H * B) ≤ a * x - b * y + cx ∧ a * x - b * y + cx < H * B ∧
    -H ≤ (a * x - b * y + cx) / B ∧ (a * x - b * y + cx) / B < H := by
  have hBpos : 0 < B := by omega
  have h1 : a * x ≤ (H - 1) * (B - 1) := mul_le_mul (by omega) (by omega) hx0 (by omega)
  have h2 : b * y ≤ (H - 1) * (B - 1) := mul_le_mul (by omega) (by omega) hy0 (by omega)
  have h3 : 0 ≤ a * x := mul_nonneg ha0 hx0
  have h4 : 0 ≤ b * y := mul_nonneg hb0 hy0
  have e : (H - 1) * (B - 1) = H * B - H - B + 1 := by ring
  have lo : -(H * B) ≤ a * x - b * y + cx := by omega
  have hi : a * x - b * y + cx < H * B := by omega
  refine ⟨lo, hi, ?_, ?_⟩
  · apply Int.le_ediv_of_mul_le hBpos
    have : -H * B = -(H * B) := by ring
    omega
  · exact Int.ediv_lt_of_lt_mul hBpos hi

theorem pow_two_mul_pred (W : Nat) (hW : 1 ≤ W) : (2 : Int) ^ (2 * W - 1) = 2 ^ (W - 1) * 2 ^ W := by
  rw [← pow_add]; congr 1; omega

theorem pow_succ_pred (W : Nat) (hW : 1 ≤ W) : (2 : Int) ^ W = 2 * 2 ^ (W - 1) := by
  have : W = (W - 1) + 1 := by omega
  conv => lhs; rw [this, pow_succ]
  ring

/-- **`lehmer_step` zip loop**: word operands, cofactors at most `SignedWord::MAX`, incoming carries signed words
    (`0, 0` in the code), `y` not longer than `x`: no signed double-word accumulation overflows (the loop returns), lengths
    kept, results are words, words of `x` beyond `y.len()` untouched, outgoing carries are signed words, and with
    `n = y.len()`: `x'[..n] + 2^(W·n)·x_carry = a·x[..n] − b·y + cx`, `y' + 2^(W·n)·y_carry = d·y − c·x[..n] + cy`. -/
theorem lehmerStepWords_spec (W a b c d : Nat) (hW : 1 ≤ W) (ha : a < 2 ^ (W - 1)) (hb : b < 2 ^ (W - 1))
    (hc : c < 2 ^ (W - 1)) (hd : d < 2 ^ (W - 1)) :
    ∀ (y x : List Nat) (cx cy : Int), IsWords W x → IsWords W y →
      -(2 ^ (W - 1) : Int) ≤ cx → cx < 2 ^ (W - 1) → -(2 ^ (W - 1) : Int) ≤ cy → cy < 2 ^ (W - 1) → y.length ≤ x.length →
      ∃ x' y' cx' cy', lehmerStepWords W a b c d x y cx cy = some (x', y', cx', cy') ∧
        x'.length = x.length ∧ y'.length = y.length ∧ IsWords W x' ∧ IsWords W y' ∧
        -(2 ^ (W - 1) : Int) ≤ cx' ∧ cx' < 2 ^ (W - 1) ∧ -(2 ^ (W - 1) : Int) ≤ cy' ∧ cy' < 2 ^ (W - 1) ∧
        x'.drop y.length = x.drop y.length ∧
        (val W (x'.take y.length) : Int) + 2 ^ (W * y.length) * cx' = (a : Int) * val W (x.take y.length) - (b : Int) * val W y + cx ∧
        (val W y' : Int) + 2 ^ (W * y.length) * cy' = (d : Int) * val W y - (c : Int) * val W (x.take y.length) + cy := by
  intro y
  induction y with
  | nil =>
    intro x cx cy hx hy h1 h2 h3 h4 _
    refine ⟨x, [], cx, cy, ?_, rfl, rfl, hx, hy, h1, h2, h3, h4, rfl, ?_, ?_⟩
    · cases x <;> rfl
    · simp [val]
    · simp [val]
  | cons y0 ys ih =>
    intro x cx cy hx hy h1 h2 h3 h4 hl
    match x, hx, hl with
    | x0 :: xs, hx, hl =>
      have hx0 := hx.head
      have hy0 := hy.head
      have hBH := pow_succ_pred W hW
      have hHB := pow_two_mul_pred W hW
      have hH1 : (1 : Int) ≤ 2 ^ (W - 1) := by exact_mod_cast Nat.one_le_two_pow
      have cast_lt : ∀ {n : Nat}, n < 2 ^ (W - 1) → ((n : Nat) : Int) < 2 ^ (W - 1) := by intro n h; exact_mod_cast h
      have cast_ltB : ∀ {n : Nat}, n < 2 ^ W → ((n : Nat) : Int) < 2 ^ W := by intro n h; exact_mod_cast h
      obtain ⟨bx1, bx2, bx3, bx4⟩ := step_acc_bound (H := 2 ^ (W - 1)) (B := 2 ^ W) (a := a) (b := b) (x := x0) (y := y0) (cx := cx)
        hBH hH1 (Int.natCast_nonneg _) (cast_lt ha) (Int.natCast_nonneg _) (cast_lt hb) (Int.natCast_nonneg _) (cast_ltB hx0)
        (Int.natCast_nonneg _) (cast_ltB hy0) h1 h2
      obtain ⟨by1, by2, by3, by4⟩ := step_acc_bound (H := 2 ^ (W - 1)) (B := 2 ^ W) (a := d) (b := c) (x := y0) (y := x0) (cx := cy)
        hBH hH1 (Int.natCast_nonneg _) (cast_lt hd) (Int.natCast_nonneg _) (cast_lt hc) (Int.natCast_nonneg _) (cast_ltB hy0)
        (Int.natCast_nonneg _) (cast_ltB hx0) h3 h4
      obtain ⟨xs', ys', cx', cy', hrec, hlx', hly', hwx', hwy', c1, c2, c3, c4, hdx, hvx, hvy⟩ :=
        ih xs _ _ hx.tail hy.tail bx3 bx4 by3 by4 (by simpa using hl)
      have hBpos : (0 : Int) < 2 ^ W := by positivity
      have hBne : (2 : Int) ^ W ≠ 0 := ne_of_gt hBpos
      set vx : Int := (a : Int) * x0 - (b : Int) * y0 + cx with hvxdef
      set vy : Int := (d : Int) * y0 - (c : Int) * x0 + cy with hvydef
      have mx0 := Int.emod_nonneg vx hBne
      have mx1 := Int.emod_lt_of_pos vx hBpos
      have my0 := Int.emod_nonneg vy hBne
      have my1 := Int.emod_lt_of_pos vy hBpos
      have tx : (((vx % 2 ^ W).toNat : Nat) : Int) = vx % 2 ^ W := Int.toNat_of_nonneg mx0
      have ty : (((vy % 2 ^ W).toNat : Nat) : Int) = vy % 2 ^ W := Int.toNat_of_nonneg my0
      have wx : (vx % 2 ^ W).toNat < 2 ^ W := by
        have : (((vx % 2 ^ W).toNat : Nat) : Int) < ((2 ^ W : Nat) : Int) := by rw [tx]; push_cast; exact mx1
        exact_mod_cast this
      have wy : (vy % 2 ^ W).toNat < 2 ^ W := by
        have : (((vy % 2 ^ W).toNat : Nat) : Int) < ((2 ^ W : Nat) : Int) := by rw [ty]; push_cast; exact my1
        exact_mod_cast this
      refine ⟨(vx % 2 ^ W).toNat :: xs', (vy % 2 ^ W).toNat :: ys', cx', cy', ?_, ?_, ?_, ?_, ?_, c1, c2, c3, c4, ?_, ?_, ?_⟩
      · have hcond : -(2 ^ (2 * W - 1) : Int) ≤ vx ∧ vx < 2 ^ (2 * W - 1) ∧ -(2 ^ (2 * W - 1) : Int) ≤ vy ∧ vy < 2 ^ (2 * W - 1) := by
          rw [hHB]
          have e2 : (d : Int) * y0 - (c : Int) * x0 + cy = vy := rfl
          exact ⟨bx1, bx2, by1, by2⟩
        simp only [lehmerStepWords]
        rw [if_pos hcond, hrec]
      · simp [hlx']
      · simp [hly']
      · exact IsWords.cons wx hwx'
      · exact IsWords.cons wy hwy'
      · simpa using hdx
      · simp only [List.length_cons, List.take_succ_cons, val]
        have hpow : (2 : Int) ^ (W * (ys.length + 1)) = 2 ^ W * 2 ^ (W * ys.length) := by
          rw [← pow_add]; congr 1; ring
        have ed := Int.emod_add_mul_ediv vx (2 ^ W)
        push_cast
        rw [tx, hpow]
        have := hvx
        linear_combination (2 : Int) ^ W * this + ed
      · simp only [List.length_cons, List.take_succ_cons, val]
        have hpow : (2 : Int) ^ (W * (ys.length + 1)) = 2 ^ W * 2 ^ (W * ys.length) := by
          rw [← pow_add]; congr 1; ring
        have ed := Int.emod_add_mul_ediv vy (2 ^ W)
        push_cast
        rw [ty, hpow]
        have := hvy
        linear_combination (2 : Int) ^ W * this + ed

end Dashu.Model.NT
