import Dashu.Proofs.NT.LehmerStepCommittedY
/-
  C12 (round 7): `lehmer_step` in full on the cofactors of a COMMITTED guess — no value hypothesis left.
-/
namespace Dashu.Model.NT
open Dashu.Model

private theorem lt_pow_int {n m : Nat} (h : n < 2 ^ m) : (n : Int) < 2 ^ m := by exact_mod_cast h

/-- `x` one word longer than `y` -/
theorem lehmerStepFull_committed_longer (W : Nat) (hW : 2 ≤ W) (xl : List Nat) (xt : Nat) (y : List Nat)
    (hx : IsWords W xl) (hxt : xt < 2 ^ W) (hy : IsWords W y) (hl : xl.length = y.length)
    (hxy : val W y ≤ val W (xl ++ [xt])) (hlen : 1 < wordLen W (val W y))
    (hb : (lehmerCofactors W (val W (xl ++ [xt])) (val W y)).2.1 ≠ 0) :
    ∃ x' y', lehmerStepFull W (lehmerCofactors W (val W (xl ++ [xt])) (val W y)).1
        (lehmerCofactors W (val W (xl ++ [xt])) (val W y)).2.1 (lehmerCofactors W (val W (xl ++ [xt])) (val W y)).2.2.1
        (lehmerCofactors W (val W (xl ++ [xt])) (val W y)).2.2.2 (xl ++ [xt]) y = some (x', y') ∧
      x'.length = xl.length + 1 ∧ y'.length = y.length ∧ IsWords W x' ∧ IsWords W y' ∧
      (val W x' : Int) = ((lehmerCofactors W (val W (xl ++ [xt])) (val W y)).1 : Int) * val W (xl ++ [xt]) -
        ((lehmerCofactors W (val W (xl ++ [xt])) (val W y)).2.1 : Int) * val W y ∧
      (val W y' : Int) = ((lehmerCofactors W (val W (xl ++ [xt])) (val W y)).2.2.2 : Int) * val W y -
        ((lehmerCofactors W (val W (xl ++ [xt])) (val W y)).2.2.1 : Int) * val W (xl ++ [xt]) ∧
      0 < val W x' ∧ 0 < val W y' ∧ val W x' + val W y' ≤ val W (xl ++ [xt]) ∧ val W y' ≤ val W y := by
  obtain ⟨ha, hb', hc, hd⟩ := lehmerCofactors_le_signed_max W (val W (xl ++ [xt])) (val W y) hW
  obtain ⟨p1, p2, ps, pa⟩ := lehmer_committed_values W (by omega) _ _ hxy hlen hb
  have pyle := lehmer_committed_y_le W (by omega) _ _ hxy hlen
  have hylt := lt_pow_int (val_lt W y hy)
  obtain ⟨x', y', hrun, h1, h2, h3, h4, h5, h6⟩ :=
    lehmerStepFull_longer W _ _ _ _ (by omega) ha hb' hc hd pa xl xt y hx hxt hy hl (le_of_lt p1) (by linarith)
      (le_of_lt p2) (by linarith)
  refine ⟨x', y', hrun, h1, h2, h3, h4, h5, h6, ?_, ?_, ?_, ?_⟩
  · have : (0 : Int) < val W x' := by rw [h5]; exact p1
    exact_mod_cast this
  · have : (0 : Int) < val W y' := by rw [h6]; exact p2
    exact_mod_cast this
  · have : (val W x' : Int) + val W y' ≤ val W (xl ++ [xt]) := by rw [h5, h6]; exact ps
    exact_mod_cast this
  · have : (val W y' : Int) ≤ val W y := by rw [h6]; exact pyle
    exact_mod_cast this

/-- operands of equal length -/
theorem lehmerStepFull_committed_eqlen (W : Nat) (hW : 2 ≤ W) (x y : List Nat)
    (hx : IsWords W x) (hy : IsWords W y) (hl : x.length = y.length)
    (hxy : val W y ≤ val W x) (hlen : 1 < wordLen W (val W y))
    (hb : (lehmerCofactors W (val W x) (val W y)).2.1 ≠ 0) :
    ∃ x' y', lehmerStepFull W (lehmerCofactors W (val W x) (val W y)).1
        (lehmerCofactors W (val W x) (val W y)).2.1 (lehmerCofactors W (val W x) (val W y)).2.2.1
        (lehmerCofactors W (val W x) (val W y)).2.2.2 x y = some (x', y') ∧
      x'.length = x.length ∧ y'.length = y.length ∧ IsWords W x' ∧ IsWords W y' ∧
      (val W x' : Int) = ((lehmerCofactors W (val W x) (val W y)).1 : Int) * val W x -
        ((lehmerCofactors W (val W x) (val W y)).2.1 : Int) * val W y ∧
      (val W y' : Int) = ((lehmerCofactors W (val W x) (val W y)).2.2.2 : Int) * val W y -
        ((lehmerCofactors W (val W x) (val W y)).2.2.1 : Int) * val W x ∧
      0 < val W x' ∧ 0 < val W y' ∧ val W x' + val W y' ≤ val W x ∧ val W y' ≤ val W y := by
  obtain ⟨ha, hb', hc, hd⟩ := lehmerCofactors_le_signed_max W (val W x) (val W y) hW
  obtain ⟨p1, p2, ps, pa⟩ := lehmer_committed_values W (by omega) _ _ hxy hlen hb
  have pyle := lehmer_committed_y_le W (by omega) _ _ hxy hlen
  have hylt := lt_pow_int (val_lt W y hy)
  have hxlt := lt_pow_int (val_lt W x hx)
  rw [hl] at hxlt
  obtain ⟨x', y', hrun, h1, h2, h3, h4, h5, h6⟩ :=
    lehmerStepFull_eqlen W _ _ _ _ (by omega) ha hb' hc hd x y hx hy hl (le_of_lt p1) (by linarith)
      (le_of_lt p2) (by linarith)
  refine ⟨x', y', hrun, h1, h2, h3, h4, h5, h6, ?_, ?_, ?_, ?_⟩
  · have : (0 : Int) < val W x' := by rw [h5]; exact p1
    exact_mod_cast this
  · have : (0 : Int) < val W y' := by rw [h6]; exact p2
    exact_mod_cast this
  · have : (val W x' : Int) + val W y' ≤ val W x := by rw [h5, h6]; exact ps
    exact_mod_cast this
  · have : (val W y' : Int) ≤ val W y := by rw [h6]; exact pyle
    exact_mod_cast this

end Dashu.Model.NT
