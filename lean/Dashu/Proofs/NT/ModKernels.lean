import Dashu.Model.NT.ModKernels
import Dashu.Proofs.NT.ModContracts
import Dashu.Proofs.NT.ModPow
import Dashu.Proofs.Int.Repr
import Mathlib.Tactic.Ring
/-
  C13 (round 4): the mirrored division kernels of `ConstDivisor::reduce` and of the single- and double-word
  ring multiplications (`Model/NT/ModKernels.lean`: `rem_word`, `rem_dword`, `rem_large`,
  `fast_rem_by_normalized_word/_dword`, `PreMulInv*::mul/sqr` through num-modular's mirrored
  Möller–Granlund dividers) equal the `%`-level model for every ring `ConstDivisor::new` builds.
-/
namespace Dashu.Model.NT
open Dashu.Model

theorem remCmpSub_eq {d a : Nat} (hd : 0 < d) (ha : a < 2 * d) : remCmpSub d a = a % d := by
  unfold remCmpSub
  split
  · rename_i h; rw [Nat.mod_eq_of_lt h]
  · rename_i h; rw [Nat.mod_eq_sub_mod (by omega), Nat.mod_eq_of_lt (by omega)]

/-- `fast_rem_by_normalized_word`: the word loop returns the remainder of the whole number, for every
    number of words (normalised divisor `d`, reciprocal `invert_word(d)`) -/
theorem fastRemByNormalizedWord_spec (W d : Nat) (hW : 1 ≤ W) (hd1 : 2 ^ W ≤ 2 * d) (hd2 : d < 2 ^ W) :
    ∀ ws : List Nat, ws ≠ [] → IsWords W ws →
      fastRemByNormalizedWord W d (NumModular.invertWord W d) ws = val W ws % d := by
  have hd : 0 < d := by have := Nat.two_pow_pos W; omega
  have hB : 0 < 2 ^ W := Nat.two_pow_pos W
  intro ws
  induction ws with
  | nil => intro h; exact absurd rfl h
  | cons w rest ih =>
    intro _ hws
    cases rest with
    | nil =>
      have hw := hws.head
      simp only [fastRemByNormalizedWord, val_cons, val_nil, Nat.mul_zero, Nat.add_zero]
      exact remCmpSub_eq hd (by omega)
    | cons w' rest' =>
      have hw := hws.head
      have ih' := ih (by simp) hws.tail
      simp only [fastRemByNormalizedWord]
      rw [ih']
      have hr : val W (w' :: rest') % d < d := Nat.mod_lt _ hd
      have hhi : (w + 2 ^ W * (val W (w' :: rest') % d)) / 2 ^ W = val W (w' :: rest') % d := by
        rw [Nat.add_comm, Nat.mul_add_div hB, Nat.div_eq_of_lt hw, Nat.add_zero]
      rw [NumModular.div2by1_spec W d _ hW hd1 hd2 (by rw [hhi]; exact hr)]
      simp only [val_cons]
      exact add_mul_mod_mod _ _ _ _

/-- the pair loop of `fast_rem_by_normalized_dword` on `2n + 2` words -/
theorem fastRemDwordPairs_spec (W d : Nat) (hW : 1 ≤ W) (hd1 : 2 ^ (2 * W) ≤ 2 * d) (hd2 : d < 2 ^ (2 * W)) :
    ∀ (n : Nat) (ws : List Nat), ws.length = 2 * n + 2 → IsWords W ws →
      fastRemDwordPairs W d (NumModular.invertDoubleWord W d) ws = val W ws % d := by
  have hd : 0 < d := by have := Nat.two_pow_pos (2 * W); omega
  have hB : 0 < 2 ^ W := Nat.two_pow_pos W
  have hsq : 2 ^ (2 * W) = 2 ^ W * 2 ^ W := by rw [← Nat.pow_add]; congr 1; omega
  have hpair : ∀ a b, a < 2 ^ W → b < 2 ^ W → a + 2 ^ W * b < 2 ^ (2 * W) := by
    intro a b ha hb
    rw [hsq]
    have : 2 ^ W * b + 2 ^ W ≤ 2 ^ W * 2 ^ W := by
      have := Nat.mul_le_mul_left (2 ^ W) (Nat.succ_le_of_lt hb)
      rw [Nat.mul_succ] at this; exact this
    omega
  intro n
  induction n with
  | zero =>
    intro ws hlen hws
    match ws, hlen with
    | [w0, w1], _ =>
      have h0 := hws.head; have h1 := hws.tail.head
      simp only [fastRemDwordPairs, val_cons, val_nil, Nat.mul_zero, Nat.add_zero]
      exact remCmpSub_eq hd (by have := hpair w0 w1 h0 h1; omega)
  | succ n ih =>
    intro ws hlen hws
    match ws, hlen with
    | w0 :: w1 :: w2 :: rest, hlen =>
      have h0 := hws.head; have h1 := hws.tail.head
      have ih' := ih (w2 :: rest) (by simp only [List.length_cons] at hlen ⊢; omega) hws.tail.tail
      simp only [fastRemDwordPairs]
      rw [ih']
      rw [NumModular.div4by2_spec W d _ _ hW hd1 hd2 (hpair w0 w1 h0 h1) (Nat.mod_lt _ hd)]
      simp only []
      rw [add_mul_mod_mod]
      congr 1
      simp only [val_cons]
      rw [hsq]; ring

/-- `fast_rem_by_normalized_dword`: remainder of the whole number for every `words.len() ≥ 2` -/
theorem fastRemByNormalizedDword_spec (W d : Nat) (hW : 1 ≤ W) (hd1 : 2 ^ (2 * W) ≤ 2 * d)
    (hd2 : d < 2 ^ (2 * W)) (ws : List Nat) (hlen : 2 ≤ ws.length) (hws : IsWords W ws) :
    fastRemByNormalizedDword W d (NumModular.invertDoubleWord W d) ws = val W ws % d := by
  have hd : 0 < d := by have := Nat.two_pow_pos (2 * W); omega
  unfold fastRemByNormalizedDword
  split
  · rename_i hev
    exact fastRemDwordPairs_spec W d hW hd1 hd2 (ws.length / 2 - 1) ws (by omega) hws
  · rename_i hodd
    match ws, hlen, hodd with
    | w0 :: rest, hlen, hodd =>
      simp only [List.length_cons] at hlen hodd
      have hp := fastRemDwordPairs_spec W d hW hd1 hd2 (rest.length / 2 - 1) rest (by omega) hws.tail
      simp only []
      rw [hp, NumModular.div3by2_spec W d w0 _ hW hd1 hd2 hws.head (Nat.mod_lt _ hd)]
      simp only [val_cons]
      exact add_mul_mod_mod _ _ _ _

-- ---------------------------------------------------------------- the rings `ConstDivisor::new` builds

/-- a double-word ring built by `ConstDivisor::new` has a shift below one word -/
theorem Ring.new_double_k {W id m : Nat} {r : Ring} (h : Ring.new W id m = .ok r) (hk : r.kind = .double) :
    r.k < W ∧ 2 ^ W ≤ r.m := by
  unfold Ring.new at h
  split at h
  · cases h
  · split at h
    · cases h; cases hk
    · rename_i hge
      split at h
      · rename_i hlt
        cases h
        have : 2 ^ W ≤ m := by omega
        have hb := lt_bitLen_of_le this
        have hb2 := bitLen_le_of_lt hlt
        simp only []
        exact ⟨by omega, this⟩
      · cases h; cases hk

theorem natWords_len_ge {W : Nat} (hW : 1 ≤ W) {x j : Nat} (hx : 2 ^ (W * j) ≤ x) :
    j + 1 ≤ (natWords W x).length := by
  obtain ⟨h1, h2, _⟩ := natWords_spec W hW x
  have := val_lt W _ h2
  rw [h1] at this
  by_contra hc
  have : 2 ^ (W * (natWords W x).length) ≤ 2 ^ (W * j) :=
    Nat.pow_le_pow_right (by decide) (Nat.mul_le_mul_left W (by omega))
  omega

theorem remWordSK_eq {W : Nat} {r : Ring} (hwf : r.WF W) (hn : r.n = 1) {x : Nat} (hx : x < 2 ^ W) :
    remWordSK W r x = remWordS r x := by
  obtain ⟨hd1, hd2, _, _⟩ := single_facts hwf hn
  unfold remWordSK remWordS
  split
  · exact remCmpSub_eq (Ring.M_pos hwf) (by omega)
  · exact (single_ring_calls hwf hn).1 x hx

theorem remDwordSK_eq {W : Nat} {r : Ring} (hwf : r.WF W) (hn : r.n = 1) {x : Nat}
    (hx : x < 2 ^ (2 * W)) : remDwordSK W r x = remDwordS W r x := by
  obtain ⟨hd1, hd2, _, hkM⟩ := single_facts hwf hn
  have hW : 1 ≤ W := hwf.hW
  have hB : 0 < 2 ^ W := Nat.two_pow_pos W
  have hMpos := Ring.M_pos hwf
  have hsq : 2 ^ (2 * W) = 2 ^ W * 2 ^ W := by rw [← Nat.pow_add]; congr 1; omega
  have step : ∀ lo r1, lo < 2 ^ W → r1 < r.M →
      (NumModular.div2by1 W r.M (NumModular.invertWord W r.M) (lo + 2 ^ W * r1)).2 = (lo + 2 ^ W * r1) % r.M := by
    intro lo r1 hlo hr1
    rw [NumModular.div2by1_spec W r.M _ hW hd1 hd2 (by
      rw [Nat.add_comm, Nat.mul_add_div hB, Nat.div_eq_of_lt hlo, Nat.add_zero]; exact hr1)]
  unfold remDwordSK remDwordS
  simp only []
  split
  · have hhi : x / 2 ^ W < 2 ^ W := by
      rw [Nat.div_lt_iff_lt_mul hB, ← hsq]; exact hx
    have e : remCmpSub r.M (x / 2 ^ W) = (if x / 2 ^ W < r.M then x / 2 ^ W else x / 2 ^ W - r.M) := rfl
    rw [← e]
    have hr1 : remCmpSub r.M (x / 2 ^ W) < r.M := by
      rw [remCmpSub_eq hMpos (by omega)]; exact Nat.mod_lt _ hMpos
    exact step _ _ (Nat.mod_lt _ hB) hr1
  · have hs : x * 2 ^ r.k / 2 ^ W / 2 ^ W < r.M := by
      apply Nat.lt_of_lt_of_le _ hkM
      rw [Nat.div_div_eq_div_mul, ← hsq, Nat.div_lt_iff_lt_mul (Nat.two_pow_pos _), Nat.mul_comm (2 ^ r.k)]
      exact Nat.mul_lt_mul_of_pos_right hx (Nat.two_pow_pos _)
    rw [NumModular.div2by1_spec W r.M _ hW hd1 hd2 hs]
    exact step _ _ (Nat.mod_lt _ hB) (Nat.mod_lt _ hMpos)

theorem remLargeSK_eq {W : Nat} {r : Ring} (hwf : r.WF W) (hn : r.n = 1) {x : Nat}
    (hx : 2 ^ (2 * W) ≤ x) : remLargeSK W r x = remLargeSD r x := by
  obtain ⟨hd1, hd2, _, hkM⟩ := single_facts hwf hn
  have hW : 1 ≤ W := hwf.hW
  have hB : 0 < 2 ^ W := Nat.two_pow_pos W
  have hMpos := Ring.M_pos hwf
  obtain ⟨hval, hwords, _⟩ := natWords_spec W hW x
  have hne : natWords W x ≠ [] := by
    intro h; rw [h] at hval; simp at hval
    have := Nat.two_pow_pos (2 * W); omega
  unfold remLargeSK remLargeSD
  simp only []
  rw [fastRemByNormalizedWord_spec W r.M hW hd1 hd2 _ hne hwords, hval]
  split
  · rw [NumModular.div2by1_spec W r.M _ hW hd1 hd2 (by
      apply Nat.lt_of_lt_of_le _ hkM
      rw [Nat.div_lt_iff_lt_mul hB, Nat.mul_comm (2 ^ r.k)]
      exact Nat.mul_lt_mul_of_pos_right (Nat.lt_trans (Nat.mod_lt _ hMpos) hd2) (Nat.two_pow_pos _))]
  · rfl

theorem remDwordDK_eq {W : Nat} {r : Ring} (hwf : r.WF W) (hn : r.n = 2) (hmW : 2 ^ W ≤ r.m) {x : Nat}
    (hx : x < 2 ^ (2 * W)) : remDwordDK W r x = remDwordD r x := by
  have h1 := hwf.Mlt; have h2 := hwf.Mge
  rw [hn, Nat.mul_comm W 2] at h1 h2
  have hW : 1 ≤ W := hwf.hW
  have hB : 0 < 2 ^ W := Nat.two_pow_pos W
  have hsq : 2 ^ (2 * W) = 2 ^ W * 2 ^ W := by rw [← Nat.pow_add]; congr 1; omega
  unfold remDwordDK remDwordD
  split
  · rfl
  · simp only []
    have hhi : x * 2 ^ r.k / 2 ^ W < r.M := by
      rw [Nat.div_lt_iff_lt_mul hB]
      have hxm : x < r.m * 2 ^ W := by
        have : 2 ^ W * 2 ^ W ≤ r.m * 2 ^ W := Nat.mul_le_mul_right _ hmW
        omega
      calc x * 2 ^ r.k < (r.m * 2 ^ W) * 2 ^ r.k := Nat.mul_lt_mul_of_pos_right hxm (Nat.two_pow_pos _)
        _ = r.M * 2 ^ W := by unfold Ring.M; ring
    rw [NumModular.div3by2_spec W r.M _ _ hW h2 h1 (Nat.mod_lt _ hB) hhi, Nat.mod_add_div]

theorem remLargeDK_eq {W : Nat} {r : Ring} (hwf : r.WF W) (hn : r.n = 2) (hkW : r.k ≤ W) {x : Nat}
    (hx : 2 ^ (2 * W) ≤ x) : remLargeDK W r x = remLargeSD r x := by
  have h1 := hwf.Mlt; have h2 := hwf.Mge
  rw [hn, Nat.mul_comm W 2] at h1 h2
  have hW : 1 ≤ W := hwf.hW
  have hB : 0 < 2 ^ W := Nat.two_pow_pos W
  have hMpos := Ring.M_pos hwf
  obtain ⟨hval, hwords, _⟩ := natWords_spec W hW x
  have hlen : 2 ≤ (natWords W x).length := by
    have := natWords_len_ge hW (x := x) (j := 2) (by rw [Nat.mul_comm]; exact hx)
    omega
  unfold remLargeDK remLargeSD
  simp only []
  rw [fastRemByNormalizedDword_spec W r.M hW h2 h1 _ hlen hwords, hval]
  split
  · have hhi : x % r.M * 2 ^ r.k / 2 ^ W < r.M := by
      rw [Nat.div_lt_iff_lt_mul hB]
      calc x % r.M * 2 ^ r.k < r.M * 2 ^ r.k :=
            Nat.mul_lt_mul_of_pos_right (Nat.mod_lt _ hMpos) (Nat.two_pow_pos _)
        _ ≤ r.M * 2 ^ W := Nat.mul_le_mul_left _ (Nat.pow_le_pow_right (by decide) hkW)
    rw [NumModular.div3by2_spec W r.M _ _ hW h2 h1 (Nat.mod_lt _ hB) hhi, Nat.mod_add_div]
  · rfl

/-- **`ConstDivisor::reduce` with the mirrored kernels** (`rem_word`, the two-step `rem_dword`,
    `fast_rem_by_normalized_word/_dword` + the final shift step of `rem_large`) stores exactly what the
    `%`-level model stores — for every ring `ConstDivisor::new` builds and every natural number -/
theorem rawOfNatK_eq {W id m : Nat} {r : Ring} (hW : 0 < W) (hnew : Ring.new W id m = .ok r) (x : Nat) :
    rawOfNatK W r x = rawOfNat W r x := by
  have hwf := Ring.new_wf hW hnew
  unfold rawOfNatK rawOfNat
  cases hk : r.kind with
  | single =>
    have hn := hwf.kind_n.1 hk
    simp only []
    split
    · rename_i h; exact remWordSK_eq hwf hn h
    · split
      · rename_i h2; exact remDwordSK_eq hwf hn h2
      · rename_i h2; exact remLargeSK_eq hwf hn (by omega)
  | double =>
    have hn := hwf.kind_n.2.1 hk
    obtain ⟨hkW, hmW⟩ := Ring.new_double_k hnew hk
    simp only []
    split
    · rename_i h; exact remDwordDK_eq hwf hn hmW h
    · rename_i h; exact remLargeDK_eq hwf hn (by omega) (by omega)
  | large => rfl

theorem reduceIntK_eq {W id m : Nat} {r : Ring} (hW : 0 < W) (hnew : Ring.new W id m = .ok r) (a : Int) :
    reduceIntK W r a = reduceInt W r a := by
  unfold reduceIntK reduceInt; rw [rawOfNatK_eq hW hnew]

/-- `PreMulInv2by1::mul` / `PreMulInv3by2::mul` through the mirrored `div_rem_2by1 / 4by2` on valid
    (pre-shifted, reduced) operands = the `%`-level product -/
theorem mulRawK_eq {W : Nat} {r : Ring} (hwf : r.WF W) {u v : Nat} (hu : u < r.m) (hv : v < r.m) :
    mulRawK W r (u * 2 ^ r.k) (v * 2 ^ r.k) = mulRaw W r (u * 2 ^ r.k) (v * 2 ^ r.k) := by
  unfold mulRawK mulRaw
  cases hk : r.kind with
  | single => exact (single_ring_calls hwf (hwf.kind_n.1 hk)).2.1 u v hu hv
  | double => exact (double_ring_calls hwf (hwf.kind_n.2.1 hk)).1 u v hu hv
  | large => rfl

theorem sqrRawK_eq {W : Nat} {r : Ring} (hwf : r.WF W) {u : Nat} (hu : u < r.m) :
    sqrRawK W r (u * 2 ^ r.k) = sqrRaw W r (u * 2 ^ r.k) := by
  unfold sqrRawK sqrRaw
  cases hk : r.kind with
  | single => exact (single_ring_calls hwf (hwf.kind_n.1 hk)).2.2 u hu
  | double => exact (double_ring_calls hwf (hwf.kind_n.2.1 hk)).2 u hu
  | large => rfl

-- ---------------------------------------------------------------- pow of single- and double-word rings on the mirrored products

theorem powHelperK_eq {W : Nat} {r : Ring} (hwf : r.WF W) {b : Nat} (hb : b < r.m) (exp : Nat) :
    ∀ (bits c : Nat), c < r.m →
      powHelperK W r (b * 2 ^ r.k) exp bits (c * 2 ^ r.k) = powHelper W r (b * 2 ^ r.k) exp bits (c * 2 ^ r.k) := by
  intro bits
  induction bits with
  | zero => intro c _; rfl
  | succ n ih =>
    intro c hc
    have hm := hwf.mpos
    unfold powHelperK powHelper
    simp only []
    rw [sqrRawK_eq hwf hc, sqrRaw_eq hwf hc]
    have hc2 : (c * c) % r.m < r.m := Nat.mod_lt _ hm
    by_cases hbit : exp.testBit n = true
    · rw [if_pos hbit, if_pos hbit, mulRawK_eq hwf hc2 hb, mulRaw_eq hwf hc2 hb]
      exact ih _ (Nat.mod_lt _ hm)
    · rw [if_neg hbit, if_neg hbit]
      exact ih _ hc2

theorem powWordK_eq {W : Nat} {r : Ring} (hwf : r.WF W) {b : Nat} (hb : b < r.m) (e : Nat) :
    powWordK W r (b * 2 ^ r.k) e = powWord W r (b * 2 ^ r.k) e := by
  match e with
  | 0 => rfl
  | 1 => rfl
  | 2 => exact sqrRawK_eq hwf hb
  | n + 3 => exact powHelperK_eq hwf hb (n + 3) _ b hb

theorem foldl_powHelperK_eq {W : Nat} {r : Ring} (hwf : r.WF W) {b : Nat} (hb : b < r.m) :
    ∀ (ws : List Nat) (c : Nat), c < r.m →
      ws.foldl (fun res w => powHelperK W r (b * 2 ^ r.k) w W res) (c * 2 ^ r.k)
        = ws.foldl (fun res w => powHelper W r (b * 2 ^ r.k) w W res) (c * 2 ^ r.k) := by
  intro ws
  induction ws with
  | nil => intro c _; rfl
  | cons w ws ih =>
    intro c hc
    rw [List.foldl_cons, List.foldl_cons, powHelperK_eq hwf hb w W c hc, powHelper_eq hwf hb w W c hc]
    exact ih _ (Nat.mod_lt _ hwf.mpos)

/-- `single::pow` / `double::pow` with every product through the mirrored `div_rem_2by1 / 4by2` -/
theorem powSDK_eq {W : Nat} {r : Ring} (hwf : r.WF W) {b : Nat} (hb : b < r.m) (e : Nat) :
    powSDK W r (b * 2 ^ r.k) e = powSD W r (b * 2 ^ r.k) e := by
  unfold powSDK powSD
  cases (natWords W e).reverse with
  | nil => exact powWordK_eq hwf hb 0
  | cons top rest =>
    simp only []
    rw [powWordK_eq hwf hb top, powWord_eq hwf hb top]
    exact foldl_powHelperK_eq hwf hb rest _ (Nat.mod_lt _ hwf.mpos)

theorem powRawK_eq {W : Nat} {r : Ring} (hwf : r.WF W) {b : Nat} (hb : b < r.m) (e : Nat) :
    powRawK W r (b * 2 ^ r.k) e = powRaw W r (b * 2 ^ r.k) e := by
  unfold powRawK powRaw
  cases r.kind with
  | large => rfl
  | single => exact powSDK_eq hwf hb e
  | double => exact powSDK_eq hwf hb e

end Dashu.Model.NT
