import Dashu.Proofs.NT.Lehmer
import Dashu.Proofs.NT.Basic
import Mathlib.Tactic.Ring
import Mathlib.Tactic.Linarith
import Mathlib.Tactic.LinearCombination
/-
  C12: `lehmer::gcd_ext_in_place` — the size of the tracked coefficients.
  Invariant of the mirrored loop, for WHATEVER quotients the leading-word guess commits (only the
  determinant of the cofactor matrix is used): `t1·x + t0·y = lhs`.  Hence, while `y > 0`, both
  coefficients are at most `lhs` — they fit the `lhs_len` words (`+1` spare) the code reserves.
-/
namespace Dashu.Model.NT
open Dashu.Model

theorem lehmerExtLoop_cofactor_inv (W L : Nat) :
    ∀ (fuel x y t0 t1 : Nat) (sw : Bool) (res : Nat × Nat × Nat × Nat × Bool),
      lehmerExtLoop W fuel x y t0 t1 sw = .ok res → t1 * x + t0 * y = L →
      res.2.2.2.1 * res.1 + res.2.2.1 * res.2.1 = L := by
  intro fuel
  induction fuel with
  | zero => intro x y t0 t1 sw res h; simp [lehmerExtLoop] at h
  | succ n ih =>
    intro x y t0 t1 sw res h hinv
    unfold lehmerExtLoop at h
    split at h
    · have hdet := lehmerCofactors_det W x y
      generalize lehmerCofactors W x y = cof at h hdet
      obtain ⟨a, b, c, d⟩ := cof
      simp only [] at h hdet
      split at h
      · -- Euclidean step
        apply ih _ _ _ _ _ _ h
        have := Nat.div_add_mod x y
        have e : (t0 + x / y * t1) * y + t1 * (x % y) = t0 * y + t1 * (y * (x / y) + x % y) := by ring
        rw [e, this]; omega
      · split at h
        · exact absurd h (by simp)
        · rename_i hneg
          have hx' : 0 ≤ (a : Int) * x - (b : Int) * y := by omega
          have hy' : 0 ≤ (d : Int) * y - (c : Int) * x := by omega
          have key : ((c * t0 + d * t1 : Nat) : Int) * ((a : Int) * x - (b : Int) * y)
              + ((a * t0 + b * t1 : Nat) : Int) * ((d : Int) * y - (c : Int) * x) = (L : Int) := by
            have hL : ((t1 * x + t0 * y : Nat) : Int) = (L : Int) := by rw [hinv]
            push_cast at hL ⊢
            linear_combination ((t1 : Int) * x + (t0 : Int) * y) * hdet + hL
          have ex : ((((a : Int) * x - (b : Int) * y).toNat : Nat) : Int) = (a : Int) * x - (b : Int) * y := Int.toNat_of_nonneg hx'
          have ey : ((((d : Int) * y - (c : Int) * x).toNat : Nat) : Int) = (d : Int) * y - (c : Int) * x := Int.toNat_of_nonneg hy'
          split at h
          · apply ih _ _ _ _ _ _ h
            have : (((a * t0 + b * t1) * ((d : Int) * y - (c : Int) * x).toNat
                + (c * t0 + d * t1) * ((a : Int) * x - (b : Int) * y).toNat : Nat) : Int) = (L : Int) := by
              push_cast [ex, ey] at key ⊢
              linear_combination key
            exact_mod_cast this
          · apply ih _ _ _ _ _ _ h
            have : (((c * t0 + d * t1) * ((a : Int) * x - (b : Int) * y).toNat
                + (a * t0 + b * t1) * ((d : Int) * y - (c : Int) * x).toNat : Nat) : Int) = (L : Int) := by
              push_cast [ex, ey] at key ⊢
              linear_combination key
            exact_mod_cast this
    · injection h with h
      subst h
      exact hinv

/-- the coefficients at the exit of the main loop of `gcd_ext_in_place(lhs, rhs)`: `t1·x + t0·y = lhs`;
    so `t1 ≤ lhs` (as `x ≥ 1`), and `t0 ≤ lhs` whenever a last word `y > 0` is left — both fit
    `lhs_len` words -/
theorem lehmerExt_cofactors_fit (W : Nat) (hW : 0 < W) (lhs rhs : Nat) (x y t0 t1 : Nat) (sw : Bool)
    (h : lehmerExtLoop W (lhs + rhs + 1) lhs rhs 0 1 false = .ok (x, y, t0, t1, sw)) :
    t1 * x + t0 * y = lhs ∧ (0 < x → t1 < 2 ^ (W * wordLen W lhs)) ∧ (0 < y → t0 < 2 ^ (W * wordLen W lhs)) := by
  have hinv := lehmerExtLoop_cofactor_inv W lhs _ _ _ _ _ _ _ h (by simp)
  simp only [] at hinv
  have hl := lt_two_pow_wordLen hW lhs
  refine ⟨hinv, fun hx => ?_, fun hy => ?_⟩
  · have : t1 * 1 ≤ t1 * x := Nat.mul_le_mul_left _ hx
    omega
  · have : t0 * 1 ≤ t0 * y := Nat.mul_le_mul_left _ hy
    omega

end Dashu.Model.NT
